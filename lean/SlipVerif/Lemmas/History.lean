import SlipVerif.Model.History
/-
  helper lemmas for Theorems/C20.lean (core Lean only, no Mathlib needed)
-/
namespace SlipVerif.History

/-! ## lines -/

theorem lines_append_nl (a b : Content) (h : NL ∉ a) : lines (a ++ NL :: b) = a :: lines b := by
  induction a with
  | nil => simp [lines]
  | cons c a ih =>
    have hc : c ≠ NL := by intro e; exact h (by simp [e])
    have ha : NL ∉ a := by intro e; exact h (by simp [e])
    simp [lines, hc, ih ha]

theorem lines_snoc_ne (x : Content) : lines (x ++ [NL]) ≠ [] := by
  induction x with
  | nil => simp [lines]
  | cons c x ih =>
    by_cases hc : c = NL
    · simp [lines, hc]
    · simp only [List.cons_append, lines, hc, if_false]
      cases h : lines (x ++ [NL]) with
      | nil => exact absurd h ih
      | cons l ls => simp

theorem lines_append_terminated (x y : Content) :
    lines (x ++ NL :: y) = lines (x ++ [NL]) ++ lines y := by
  induction x with
  | nil => simp [lines]
  | cons c x ih =>
    by_cases hc : c = NL
    · simp [lines, hc, ih]
    · simp only [List.cons_append, lines, hc, if_false, ih]
      cases h : lines (x ++ [NL]) with
      | nil => exact absurd h (lines_snoc_ne x)
      | cons l ls => simp

/-- a file is terminated when it is empty or ends with a newline (what whole writes of
`tabAppend` lines produce) -/
def Terminated (x : Content) : Prop := x = [] ∨ ∃ x', x = x' ++ [NL]

theorem lines_append (x y : Content) (h : Terminated x) : lines (x ++ y) = lines x ++ lines y := by
  rcases h with rfl | ⟨x', rfl⟩
  · simp [lines]
  · have := lines_append_terminated x' y
    simpa using this

theorem terminated_append {x y : Content} (hx : Terminated x) (hy : Terminated y) : Terminated (x ++ y) := by
  rcases hy with rfl | ⟨y', rfl⟩
  · simpa using hx
  · exact Or.inr ⟨x ++ y', by simp⟩

theorem lines_no_nl : ∀ (c : Content) (l : Content), l ∈ lines c → NL ∉ l := by
  intro c
  induction c with
  | nil => intro l h; simp [lines] at h
  | cons a c ih =>
    intro l h
    by_cases ha : a = NL
    · simp only [lines, ha, if_true, List.mem_cons] at h
      rcases h with rfl | h
      · simp
      · exact ih l h
    · simp only [lines, ha, if_false] at h
      cases hl : lines c with
      | nil => simp [hl] at h
      | cons l0 ls =>
        simp only [hl, List.mem_cons] at h
        rcases h with rfl | h
        · have := ih l0 (by simp [hl])
          intro hm
          rcases List.mem_cons.mp hm with e | e
          · exact ha e.symm
          · exact this e
        · exact ih l (by simp [hl, h])

/-! ## splitOn / pieces / joinTab -/

theorem splitOn_notin (sep : Char) (a : Content) (h : sep ∉ a) : splitOn sep a = (a, []) := by
  induction a with
  | nil => simp [splitOn]
  | cons c a ih =>
    have hc : c ≠ sep := by intro e; exact h (by simp [e])
    have ha : sep ∉ a := by intro e; exact h (by simp [e])
    simp [splitOn, hc, ih ha]

theorem splitOn_append_sep (sep : Char) (a b : Content) (h : sep ∉ a) :
    splitOn sep (a ++ sep :: b) = (a, pieces sep b) := by
  induction a with
  | nil => simp [splitOn, pieces]
  | cons c a ih =>
    have hc : c ≠ sep := by intro e; exact h (by simp [e])
    have ha : sep ∉ a := by intro e; exact h (by simp [e])
    simp [splitOn, hc, ih ha]

theorem pieces_notin (sep : Char) (a : Content) (h : sep ∉ a) : pieces sep a = [a] := by
  simp [pieces, splitOn_notin sep a h]

theorem pieces_append_sep (sep : Char) (a b : Content) (h : sep ∉ a) :
    pieces sep (a ++ sep :: b) = a :: pieces sep b := by
  simp [pieces, splitOn_append_sep sep a b h]

theorem pieces_joinTab : ∀ (f : Form), f ≠ [] → (∀ l ∈ f, TAB ∉ l) → pieces TAB (joinTab f) = f
  | [], h, _ => absurd rfl h
  | [l], _, h => by simpa [joinTab] using pieces_notin TAB l (h l (by simp))
  | l :: l' :: ls, _, h => by
    have hl : TAB ∉ l := h l (by simp)
    have ih := pieces_joinTab (l' :: ls) (by simp) (fun x hx => h x (by simp [hx]))
    simp only [joinTab]
    rw [pieces_append_sep TAB l _ hl, ih]

/-- every piece is free of the separator, and of anything the text is free of -/
theorem splitOn_mem (sep : Char) : ∀ (s : Content),
    (sep ∉ (splitOn sep s).1 ∧ ∀ p ∈ (splitOn sep s).2, sep ∉ p) ∧
    (∀ x, x ∉ s → x ∉ (splitOn sep s).1 ∧ ∀ p ∈ (splitOn sep s).2, x ∉ p) := by
  intro s
  induction s with
  | nil => simp [splitOn]
  | cons c s ih =>
    obtain ⟨⟨ih1, ih2⟩, ih3⟩ := ih
    by_cases hc : c = sep
    · subst hc
      refine ⟨⟨by simp [splitOn], ?_⟩, ?_⟩
      · intro p hp
        simp only [splitOn, if_true, List.mem_cons] at hp
        rcases hp with rfl | hp
        · exact ih1
        · exact ih2 p hp
      · intro x hx
        have hxs : x ∉ s := fun e => hx (by simp [e])
        refine ⟨by simp [splitOn], ?_⟩
        intro p hp
        simp only [splitOn, if_true, List.mem_cons] at hp
        rcases hp with rfl | hp
        · exact (ih3 x hxs).1
        · exact (ih3 x hxs).2 p hp
    · refine ⟨⟨?_, ?_⟩, ?_⟩
      · simp only [splitOn, hc, if_false, List.mem_cons, not_or]
        exact ⟨fun e => hc e.symm, ih1⟩
      · intro p hp
        simp only [splitOn, hc, if_false] at hp
        exact ih2 p hp
      · intro x hx
        have hxs : x ∉ s := fun e => hx (by simp [e])
        have hxc : x ≠ c := fun e => hx (by simp [e])
        refine ⟨?_, ?_⟩
        · simp only [splitOn, hc, if_false, List.mem_cons, not_or]
          exact ⟨hxc, (ih3 x hxs).1⟩
        · intro p hp
          simp only [splitOn, hc, if_false] at hp
          exact (ih3 x hxs).2 p hp

theorem pieces_sep_free (sep : Char) (s : Content) : ∀ p ∈ pieces sep s, sep ∉ p := by
  intro p hp
  simp only [pieces, List.mem_cons] at hp
  rcases hp with rfl | hp
  · exact (splitOn_mem sep s).1.1
  · exact (splitOn_mem sep s).1.2 p hp

theorem pieces_free (sep x : Char) (s : Content) (hx : x ∉ s) : ∀ p ∈ pieces sep s, x ∉ p := by
  intro p hp
  simp only [pieces, List.mem_cons] at hp
  rcases hp with rfl | hp
  · exact ((splitOn_mem sep s).2 x hx).1
  · exact ((splitOn_mem sep s).2 x hx).2 p hp

/-- the last character of the last piece is the last character of the text -/
theorem pieces_last (sep : Char) : ∀ (s : Content) (z : Char), s.getLast? = some z → z ≠ sep →
    ∃ l, (pieces sep s).getLast? = some l ∧ l.getLast? = some z := by
  intro s
  induction s with
  | nil => intro z h; simp at h
  | cons c s ih =>
    intro z hz hne
    cases s with
    | nil =>
      simp at hz
      subst hz
      refine ⟨[c], ?_, by simp⟩
      simp [pieces, splitOn, hne]
    | cons d s' =>
      have hz' : (d :: s').getLast? = some z := by simpa [List.getLast?_cons_cons] using hz
      obtain ⟨l, hl1, hl2⟩ := ih z hz' hne
      by_cases hc : c = sep
      · refine ⟨l, ?_, hl2⟩
        have : pieces sep (c :: d :: s') = [] :: pieces sep (d :: s') := by
          simp [pieces, splitOn, hc]
        rw [this]
        simp only [pieces] at hl1 ⊢
        simpa [List.getLast?_cons_cons] using hl1
      · have hp : pieces sep (c :: d :: s') =
            (c :: (splitOn sep (d :: s')).1) :: (splitOn sep (d :: s')).2 := by
          simp [pieces, splitOn, hc]
        rw [hp]
        cases h2 : (splitOn sep (d :: s')).2 with
        | nil =>
          simp only [pieces, h2] at hl1
          simp at hl1
          subst hl1
          refine ⟨c :: (splitOn sep (d :: s')).1, by simp, ?_⟩
          cases h1 : (splitOn sep (d :: s')).1 with
          | nil => simp [h1] at hl2
          | cons e r => simpa [h1, List.getLast?_cons_cons] using hl2
        | cons q qs =>
          refine ⟨l, ?_, hl2⟩
          simp only [pieces, h2] at hl1
          simpa [List.getLast?_cons_cons] using hl1

/-! ## trim -/

theorem dropWhile_head {α} (p : α → Bool) : ∀ (l : List α) (a : α) (r : List α),
    l.dropWhile p = a :: r → p a = false := by
  intro l
  induction l with
  | nil => intro a r h; simp at h
  | cons x l ih =>
    intro a r h
    by_cases hx : p x = true
    · rw [List.dropWhile_cons_of_pos hx] at h; exact ih a r h
    · have hx' : p x = false := by simpa using hx
      rw [List.dropWhile_cons_of_neg hx] at h
      injection h with h1 _
      subst h1; exact hx'

theorem dropWhile_mem {α} (p : α → Bool) (l : List α) : ∀ x ∈ l.dropWhile p, x ∈ l :=
  fun _ hx => (List.dropWhile_sublist p).subset hx

theorem dropWhile_snoc {α} (p : α → Bool) (c : α) (hc : p c = false) : ∀ (xs : List α),
    ∃ pre, (xs ++ [c]).dropWhile p = pre ++ [c] := by
  intro xs
  induction xs with
  | nil => exact ⟨[], by simp [hc]⟩
  | cons x xs ih =>
    by_cases hx : p x = true
    · obtain ⟨pre, h⟩ := ih
      exact ⟨pre, by rw [List.cons_append, List.dropWhile_cons_of_pos hx, h]⟩
    · exact ⟨x :: xs, by rw [List.cons_append, List.dropWhile_cons_of_neg hx]⟩

theorem trimLeft_fixed (c : Char) (cs : Content) (h : isSpace c = false) : trimLeft (c :: cs) = c :: cs := by
  simp [trimLeft, h]

theorem trimRight_fixed (s : Content) (z : Char) (hz : s.getLast? = some z) (h : isSpace z = false) :
    trimRight s = s := by
  obtain ⟨pre, rfl⟩ : ∃ pre, s = pre ++ [z] := by
    rcases List.eq_nil_or_concat s with rfl | ⟨pre, b, rfl⟩
    · simp at hz
    · simp at hz; subst hz; exact ⟨pre, by simp⟩
  simp [trimRight, h]

theorem trim_fixed (c : Char) (cs : Content) (z : Char) (hc : isSpace c = false)
    (hz : (c :: cs).getLast? = some z) (hzs : isSpace z = false) : trim (c :: cs) = c :: cs := by
  unfold trim
  rw [trimLeft_fixed c cs hc, trimRight_fixed _ z hz hzs]

/-- what `trim` returns starts and ends with a non-blank and only contains characters of the input -/
theorem trim_result (s : Content) (c : Char) (cs : Content) (h : trim s = c :: cs) :
    isSpace c = false ∧ (∃ z, (c :: cs).getLast? = some z ∧ isSpace z = false) ∧ ∀ x ∈ c :: cs, x ∈ s := by
  unfold trim at h
  cases hl : trimLeft s with
  | nil => simp [hl, trimRight] at h
  | cons a r =>
    have ha : isSpace a = false := dropWhile_head isSpace s a r hl
    rw [hl] at h
    unfold trimRight at h
    obtain ⟨pre, hpre⟩ := dropWhile_snoc isSpace a ha r.reverse
    have hrev : (a :: r).reverse = r.reverse ++ [a] := by simp
    rw [hrev, hpre] at h
    simp at h
    obtain ⟨h1, h2⟩ := h
    subst h1
    refine ⟨ha, ?_, ?_⟩
    · -- last of a :: cs = head of (pre ++ [a]) which fails isSpace
      cases hp : pre with
      | nil =>
        subst hp; simp at h2; subst h2
        exact ⟨a, by simp, ha⟩
      | cons y ys =>
        have hy : isSpace y = false :=
          dropWhile_head isSpace (r.reverse ++ [a]) y (ys ++ [a]) (by rw [hpre, hp]; simp)
        refine ⟨y, ?_, hy⟩
        rw [← h2, hp]
        have : a :: (y :: ys).reverse = (a :: ys.reverse) ++ [y] := by simp
        rw [this, List.getLast?_concat]
    · intro x hx
      have hsub : ∀ x ∈ pre ++ [a], x ∈ r.reverse ++ [a] := by
        intro x hx; rw [← hpre] at hx; exact dropWhile_mem isSpace _ x hx
      have hx' : x ∈ pre ++ [a] := by
        rcases List.mem_cons.mp hx with rfl | hx
        · simp
        · rw [← h2] at hx; simp at hx; simp [hx]
      have := hsub x hx'
      have hx2 : x ∈ a :: r := by
        simp at this; rcases this with h | h
        · exact List.mem_cons_of_mem _ h
        · simp [h]
      rw [← hl] at hx2
      exact dropWhile_mem isSpace s x hx2

/-! ## storable forms are read back unchanged, and only storable forms are ever read -/

theorem isSpace_TAB : isSpace TAB = true := by decide
theorem isSpace_NL : isSpace NL = true := by decide

theorem lineOK_spec (l : Line) (h : lineOK l = true) : TAB ∉ l ∧ NL ∉ l := by
  unfold lineOK at h
  rw [List.all_eq_true] at h
  constructor <;> intro hm <;> have := h _ hm <;> simp at this

theorem lineOK_of (l : Line) (h1 : TAB ∉ l) (h2 : NL ∉ l) : lineOK l = true := by
  unfold lineOK
  rw [List.all_eq_true]
  intro x hx
  have a : x ≠ TAB := fun e => h1 (e ▸ hx)
  have b : x ≠ NL := fun e => h2 (e ▸ hx)
  simp [a, b]

theorem joinTab_mem : ∀ (f : Form) (x : Char), x ∈ joinTab f → x = TAB ∨ ∃ l ∈ f, x ∈ l
  | [], x, h => by simp [joinTab] at h
  | [l], x, h => Or.inr ⟨l, by simp, by simpa [joinTab] using h⟩
  | l :: l' :: ls, x, h => by
    simp only [joinTab, List.mem_append, List.mem_cons] at h
    rcases h with h | h | h
    · exact Or.inr ⟨l, by simp, h⟩
    · exact Or.inl h
    · rcases joinTab_mem (l' :: ls) x h with h | ⟨m, hm, hx⟩
      · exact Or.inl h
      · exact Or.inr ⟨m, List.mem_cons_of_mem _ hm, hx⟩

theorem joinTab_getLast : ∀ (f : Form) (l : Line) (z : Char), f.getLast? = some l → l.getLast? = some z →
    (joinTab f).getLast? = some z
  | [], l, z, h, _ => by simp at h
  | [l0], l, z, h, hz => by simp at h; subst h; simpa [joinTab] using hz
  | l0 :: l' :: ls, l, z, h, hz => by
    have h' : (l' :: ls).getLast? = some l := by simpa [List.getLast?_cons_cons] using h
    have ih := joinTab_getLast (l' :: ls) l z h' hz
    simp only [joinTab]
    rw [List.getLast?_append, List.getLast?_cons]
    cases hj : (joinTab (l' :: ls)).getLast? with
    | none => rw [hj] at ih; cases ih
    | some w => rw [hj] at ih; injection ih with ih; subst ih; simp

structure StorableSpec (f : Form) : Prop where
  ne : f ≠ []
  noTab : ∀ l ∈ f, TAB ∉ l
  noNL : NL ∉ joinTab f
  head : ∃ c cs, joinTab f = c :: cs ∧ isSpace c = false
  last : ∃ z, (joinTab f).getLast? = some z ∧ isSpace z = false

theorem storable_spec (f : Form) (h : storable f = true) : StorableSpec f := by
  unfold storable at h
  simp only [Bool.and_eq_true] at h
  obtain ⟨⟨hall, hhead⟩, hlast⟩ := h
  rw [List.all_eq_true] at hall
  have hne : f ≠ [] := by intro e; subst e; simp [headOK] at hhead
  refine ⟨hne, fun l hl => (lineOK_spec l (hall l hl)).1, ?_, ?_, ?_⟩
  · intro hm
    rcases joinTab_mem f NL hm with e | ⟨l, hl, hx⟩
    · exact absurd e (by decide)
    · exact (lineOK_spec l (hall l hl)).2 hx
  · match f, hhead with
    | [], hh => simp [headOK] at hh
    | [] :: _, hh => simp [headOK] at hh
    | [c :: r], hh => exact ⟨c, r, by simp [joinTab], by simpa [headOK] using hh⟩
    | (c :: r) :: l' :: ls, hh =>
      exact ⟨c, r ++ TAB :: joinTab (l' :: ls), by simp [joinTab], by simpa [headOK] using hh⟩
  · unfold lastOK at hlast
    cases hl : f.getLast? with
    | none => simp [hl] at hlast
    | some l =>
      rw [hl] at hlast
      cases hz : l.getLast? with
      | none => simp [hz] at hlast
      | some z =>
        simp [hz] at hlast
        exact ⟨z, joinTab_getLast f l z hl hz, hlast⟩

theorem decodeLine_joinTab (f : Form) (h : storable f = true) : decodeLine (joinTab f) = some f := by
  obtain ⟨hne, hnt, _, ⟨c, cs, hj, hc⟩, ⟨z, hz, hzs⟩⟩ := storable_spec f h
  unfold decodeLine
  rw [hj] at hz
  rw [hj, trim_fixed c cs z hc hz hzs]
  simp only
  rw [← hj, pieces_joinTab f hne hnt]

theorem tabAppend_storable (f : Form) (h : storable f = true) : tabAppend f = joinTab f ++ [NL] := by
  have := (storable_spec f h).ne
  cases f with
  | nil => exact absurd rfl this
  | cons a r => rfl

theorem decode_tabAppend_append (f : Form) (rest : Content) (h : storable f = true) :
    decode (tabAppend f ++ rest) = f :: decode rest := by
  rw [tabAppend_storable f h]
  unfold decode
  have : joinTab f ++ [NL] ++ rest = joinTab f ++ NL :: rest := by simp
  rw [this, lines_append_nl _ _ (storable_spec f h).noNL]
  simp [decodeLine_joinTab f h]

theorem decode_append (x y : Content) (h : Terminated x) : decode (x ++ y) = decode x ++ decode y := by
  unfold decode
  rw [lines_append x y h, List.filterMap_append]

/-- the text of a list of forms as the history file holds them -/
def encodeAll (fs : List Form) : Content := fs.flatMap tabAppend

theorem decode_nil : decode [] = [] := by simp [decode, lines]

theorem decode_encodeAll_append (fs : List Form) (rest : Content) (h : ∀ f ∈ fs, storable f = true) :
    decode (encodeAll fs ++ rest) = fs ++ decode rest := by
  induction fs with
  | nil => simp [encodeAll]
  | cons f fs ih =>
    have hf := h f (by simp)
    have := ih (fun g hg => h g (by simp [hg]))
    simp only [encodeAll, List.flatMap_cons, List.append_assoc] at this ⊢
    rw [decode_tabAppend_append f _ hf, this]
    simp

theorem decode_encodeAll (fs : List Form) (h : ∀ f ∈ fs, storable f = true) : decode (encodeAll fs) = fs := by
  have := decode_encodeAll_append fs [] h
  simpa [decode_nil] using this

theorem terminated_tabAppend (f : Form) : Terminated (tabAppend f) := by
  cases f with
  | nil => exact Or.inl rfl
  | cons a r => exact Or.inr ⟨joinTab (a :: r), rfl⟩

theorem terminated_encodeAll (fs : List Form) : Terminated (encodeAll fs) := by
  induction fs with
  | nil => exact Or.inl rfl
  | cons f fs ih =>
    simp only [encodeAll, List.flatMap_cons]
    exact terminated_append (terminated_tabAppend f) ih

theorem decode_storable (c : Content) : ∀ f ∈ decode c, storable f = true := by
  intro f hf
  unfold decode at hf
  rw [List.mem_filterMap] at hf
  obtain ⟨l, hl, hd⟩ := hf
  have hnl : NL ∉ l := lines_no_nl c l hl
  unfold decodeLine at hd
  cases ht : trim l with
  | nil => simp [ht] at hd
  | cons a r =>
    rw [ht] at hd
    simp only [Option.some.injEq] at hd
    obtain ⟨ha, ⟨z, hz, hzs⟩, hsub⟩ := trim_result l a r ht
    have hnl' : NL ∉ a :: r := fun e => hnl (hsub _ e)
    have haT : a ≠ TAB := by intro e; rw [e, isSpace_TAB] at ha; cases ha
    have hzT : z ≠ TAB := by intro e; rw [e, isSpace_TAB] at hzs; cases hzs
    subst hd
    unfold storable
    simp only [Bool.and_eq_true]
    refine ⟨⟨?_, ?_⟩, ?_⟩
    · rw [List.all_eq_true]
      intro p hp
      exact lineOK_of p (pieces_sep_free TAB _ p hp) (pieces_free TAB NL _ hnl' p hp)
    · simp [pieces, splitOn, haT, headOK, ha]
    · obtain ⟨p, hp1, hp2⟩ := pieces_last TAB (a :: r) z hz hzT
      simp [lastOK, hp1, hp2, hzs]

/-! ## file-system steps -/

@[simp] theorem FS.get_set_same (fs : FS) (n : Name) (v : Option Content) : (fs.set n v).get n = v := by
  cases n <;> rfl

@[simp] theorem FS.set_hist_hist (fs : FS) (v : Option Content) : (fs.set .hist v).hist = v := rfl

@[simp] theorem FS.set_set (fs : FS) (n : Name) (v v' : Option Content) : (fs.set n v).set n v' = fs.set n v' := by
  cases n <;> rfl

theorem runSteps_append (fs : FS) (a b : List Step) : runSteps fs (a ++ b) = runSteps (runSteps fs a) b := by
  simp [runSteps, List.foldl_append]

@[simp] theorem runSteps_nil (fs : FS) : runSteps fs [] = fs := rfl
@[simp] theorem runSteps_cons (fs : FS) (s : Step) (r : List Step) : runSteps fs (s :: r) = runSteps (step fs s) r := rfl

theorem runSteps_writeAll (n : Name) : ∀ (forms : List Form) (fs : FS) (c : Content), fs.get n = some c →
    runSteps fs (writeAll n forms) = fs.set n (some (c ++ encodeAll forms)) := by
  intro forms
  induction forms with
  | nil =>
    intro fs c h
    cases n <;> simp [writeAll, encodeAll, FS.get] at h ⊢ <;> cases fs <;> simp_all [FS.set]
  | cons f forms ih =>
    intro fs c h
    simp only [writeAll, List.map_cons, runSteps_cons, step, h]
    have := ih (fs.set n (some (c ++ tabAppend f))) (c ++ tabAppend f) (by simp)
    simp only [writeAll] at this
    rw [this]
    simp [encodeAll]

theorem writeAll_take (n : Name) (forms : List Form) (k : Nat) :
    (writeAll n forms).take k = writeAll n (forms.take k) := by
  simp [writeAll, List.map_take]

theorem writeAll_length (n : Name) (forms : List Form) : (writeAll n forms).length = forms.length := by
  simp [writeAll]

/-- a crash inside `open :: writes ++ tail`: after the open, some prefix of the writes, some prefix of the tail -/
theorem crashAt_succ (s0 : Step) (n : Name) (kept : List Form) (tail : List Step) (k : Nat) (fs : FS) :
    crashAt (k + 1) (s0 :: (writeAll n kept ++ tail)) fs =
      runSteps (runSteps (step fs s0) (writeAll n (kept.take k))) (tail.take (k - kept.length)) := by
  simp [crashAt, List.take_append, writeAll_take, writeAll_length, runSteps_append]

/-! ## the invariant -/

/-- the history file, when present, is empty or ends with a newline -/
def TermFS (fs : FS) : Prop := ∀ c, fs.hist = some c → Terminated c

/-- what is in memory is what a restart would load -/
structure Inv (w : World) : Prop where
  term : TermFS w.fs
  sync : load w.fs = w.mem.forms

theorem load_storable (fs : FS) : ∀ f ∈ load fs, storable f = true := by
  intro f hf
  unfold load at hf
  cases h : fs.hist with
  | none => simp [h] at hf
  | some c => rw [h] at hf; exact decode_storable c f hf

theorem Inv.storable {w : World} (h : Inv w) : ∀ f ∈ w.mem.forms, storable f = true := by
  rw [← h.sync]; exact load_storable w.fs

theorem boot_inv (limit : Nat) (fs : FS) (h : TermFS fs) : Inv (boot limit fs) := ⟨h, rfl⟩

theorem load_set_hist (fs : FS) (c : Content) : load (fs.set .hist (some c)) = decode c := rfl
theorem load_set_tmp (fs : FS) (v : Option Content) : load (fs.set .tmp v) = load fs := rfl
theorem termFS_set_tmp (fs : FS) (v : Option Content) (h : TermFS fs) : TermFS (fs.set .tmp v) := h
theorem termFS_set_hist (fs : FS) (c : Content) (h : Terminated c) : TermFS (fs.set .hist (some c)) := by
  intro c' hc
  simp [FS.set] at hc
  subst hc; exact h

/-! ## clearRange -/

theorem clearRange_sublist (forms : List Form) (a b : Int) : (clearRange forms a b).Sublist forms := by
  unfold clearRange
  simp only
  by_cases h0 : forms.length = 0 ∨ (forms.length : Int) ≤ a
  · rw [if_pos h0]; exact List.Sublist.refl _
  · rw [if_neg h0]
    generalize (if b < 0 ∨ (forms.length : Int) ≤ b then forms.length - 1 else b.toNat) = e
    by_cases hse : a.toNat ≤ e
    · rw [if_pos hse]
      have hle : forms.length - 1 - e ≤ forms.length - a.toNat := by omega
      have h1 := List.drop_sublist_drop_left forms hle
      have h2 := List.Sublist.append (List.Sublist.refl (forms.take (forms.length - 1 - e))) h1
      rw [List.take_append_drop] at h2
      exact h2
    · rw [if_neg hse]; exact List.Sublist.refl _

theorem clearRange_mem (forms : List Form) (a b : Int) : ∀ f ∈ clearRange forms a b, f ∈ forms :=
  fun _ hf => (clearRange_sublist forms a b).subset hf

theorem clearRange_length_le (forms : List Form) (a b : Int) : (clearRange forms a b).length ≤ forms.length :=
  (clearRange_sublist forms a b).length_le

/-! ## what a process death leaves, operation by operation -/

theorem runSteps_take_close (fs : FS) (n : Name) (j : Nat) : runSteps fs ([Step.close n].take j) = fs := by
  cases j <;> simp [step]

theorem crashAt_zero (steps : List Step) (fs : FS) : crashAt 0 steps fs = fs := by simp [crashAt]

theorem decode_tabAppend (f : Form) (h : storable f = true) : decode (tabAppend f) = [f] := by
  have := decode_tabAppend_append f [] h
  simpa [decode_nil] using this

/-- `Clear`: before the truncating open the old history; afterwards exactly the forms written so far -/
theorem crash_clear (cfg : Cfg) (w : World) (hinv : Inv w) (a b : Int) (k : Nat) :
    TermFS (crashAt k (perform cfg w.mem (.clear a b)).2 w.fs) ∧
    load (crashAt k (perform cfg w.mem (.clear a b)).2 w.fs) =
      (if k = 0 then w.mem.forms else (clearRange w.mem.forms a b).take (k - 1)) := by
  cases k with
  | zero => simp [crashAt_zero, hinv.term, hinv.sync]
  | succ k =>
    have hst : ∀ f ∈ (clearRange w.mem.forms a b).take k, storable f = true :=
      fun f hf => hinv.storable f (clearRange_mem _ a b f (List.mem_of_mem_take hf))
    simp only [perform]
    rw [crashAt_succ, runSteps_take_close]
    simp only [step]
    rw [runSteps_writeAll .hist _ _ [] (by simp)]
    simp only [FS.set_set, List.nil_append]
    refine ⟨termFS_set_hist _ _ (terminated_encodeAll _), ?_⟩
    rw [load_set_hist, decode_encodeAll _ hst]
    simp

/-- the forms a compaction keeps are forms of the old history or the new form -/
theorem keepRecent_mem (limit : Nat) (all : List Form) : ∀ f ∈ keepRecent limit all, f ∈ all :=
  fun _ hf => List.mem_of_mem_drop hf

theorem runSteps_take_close_rename (fs : FS) (j : Nat) (c : Content) (h : fs.get .tmp = some c) :
    runSteps fs ([Step.close .tmp, Step.rename .tmp .hist].take j) =
      if j < 2 then fs else (fs.set .hist (some c)).set .tmp none := by
  match j with
  | 0 => simp
  | 1 => simp [step]
  | j + 2 =>
    have : ¬ (j + 2 < 2) := by omega
    simp [step, h, this]

/-- compaction (tmp opened with O_TRUNC): the old history until the rename, the new one after it —
whatever a stale tmp file held -/
theorem crash_compact (w : World) (hinv : Inv w) (kept : List Form) (hk : ∀ f ∈ kept, storable f = true) (k : Nat) :
    let steps := Step.openTrunc .tmp :: (writeAll .tmp kept ++ [Step.close .tmp, Step.rename .tmp .hist])
    TermFS (crashAt k steps w.fs) ∧
    load (crashAt k steps w.fs) = (if k < kept.length + 3 then w.mem.forms else kept) := by
  intro steps
  cases k with
  | zero => simp [steps, crashAt_zero, hinv.term, hinv.sync]
  | succ k =>
    simp only [steps]
    rw [crashAt_succ]
    simp only [step]
    rw [runSteps_writeAll .tmp _ _ [] (by simp)]
    simp only [FS.set_set, List.nil_append]
    rw [runSteps_take_close_rename _ _ (encodeAll (kept.take k)) (by simp)]
    by_cases hj : k - kept.length < 2
    · have hk3 : k + 1 < kept.length + 3 := by omega
      simp only [hj, hk3, if_true]
      exact ⟨termFS_set_tmp _ _ hinv.term, by rw [load_set_tmp, hinv.sync]⟩
    · have hk3 : ¬ (k + 1 < kept.length + 3) := by omega
      have htake : kept.take k = kept := List.take_of_length_le (by omega)
      simp only [hj, hk3, if_false, htake]
      refine ⟨?_, ?_⟩
      · intro c hc
        have : c = encodeAll kept := by
          simp [FS.set] at hc; exact hc.symm
        subst this; exact terminated_encodeAll _
      · show decode (encodeAll kept) = kept
        exact decode_encodeAll kept hk

/-- plain append: the old history until the write, the new one after it -/
theorem crash_append (w : World) (hinv : Inv w) (f : Form) (hf : storable f = true) (k : Nat) :
    let steps := [Step.openAppend .hist, Step.write .hist (tabAppend f), Step.close .hist]
    TermFS (crashAt k steps w.fs) ∧
    load (crashAt k steps w.fs) = (if k < 2 then w.mem.forms else w.mem.forms ++ [f]) := by
  intro steps
  have hsync := hinv.sync
  have hterm := hinv.term
  cases hh : w.fs.hist with
  | none =>
    have hload : w.mem.forms = [] := by rw [← hsync]; simp [load, hh]
    match k with
    | 0 => simp [steps, crashAt_zero, hterm, hsync]
    | 1 =>
      simp only [steps, crashAt, List.take, runSteps_cons, runSteps_nil, step, FS.get, hh]
      refine ⟨termFS_set_hist _ _ (Or.inl rfl), ?_⟩
      simp [load_set_hist, decode_nil, hload]
    | k + 2 =>
      have e : crashAt (k + 2) steps w.fs = w.fs.set .hist (some (tabAppend f)) := by
        cases k <;> simp [steps, crashAt, List.take, step, FS.get, hh]
      rw [e]
      refine ⟨termFS_set_hist _ _ (terminated_tabAppend f), ?_⟩
      simp [load_set_hist, decode_tabAppend f hf, hload]
  | some c =>
    have hc : Terminated c := hterm c hh
    have hload : decode c = w.mem.forms := by rw [← hsync]; simp [load, hh]
    match k with
    | 0 => simp [steps, crashAt_zero, hterm, hsync]
    | 1 =>
      simp only [steps, crashAt, List.take, runSteps_cons, runSteps_nil, step, FS.get, hh]
      exact ⟨hterm, by simp [hsync]⟩
    | k + 2 =>
      have e : crashAt (k + 2) steps w.fs = w.fs.set .hist (some (c ++ tabAppend f)) := by
        cases k <;> simp [steps, crashAt, List.take, step, FS.get, hh]
      rw [e]
      refine ⟨termFS_set_hist _ _ (terminated_append hc (terminated_tabAppend f)), ?_⟩
      simp [load_set_hist, decode_append c _ hc, decode_tabAppend f hf, hload]

/-! ## one operation, any crash point -/

/-- the forms the property quantifies over for `Add`, minus those the encoding cannot hold: a form is
either skipped as empty or satisfies the guard `storable` -/
def OpOK : Op → Prop
  | .add f => isEmptyForm f = true ∨ storable f = true
  | _ => True

def isClear : Op → Prop
  | .clear _ _ => True
  | _ => False

theorem crashAt_nil (k : Nat) (fs : FS) : crashAt k [] fs = fs := by simp [crashAt]

theorem op_crash (w : World) (hinv : Inv w) (o : Op) (ho : OpOK o) (k : Nat) :
    TermFS (crashAt k (perform fixed w.mem o).2 w.fs) ∧
    (load (crashAt k (perform fixed w.mem o).2 w.fs) = w.mem.forms ∨
     load (crashAt k (perform fixed w.mem o).2 w.fs) = (perform fixed w.mem o).1.forms ∨
     (isClear o ∧ load (crashAt k (perform fixed w.mem o).2 w.fs) <+: (perform fixed w.mem o).1.forms)) ∧
    ((perform fixed w.mem o).2.length ≤ k →
      load (crashAt k (perform fixed w.mem o).2 w.fs) = (perform fixed w.mem o).1.forms) := by
  cases o with
  | setLimit n =>
    simp only [perform, crashAt_nil]
    exact ⟨hinv.term, Or.inl hinv.sync, fun _ => hinv.sync⟩
  | clear a b =>
    obtain ⟨ht, hl⟩ := crash_clear fixed w hinv a b k
    refine ⟨ht, ?_, ?_⟩
    · rw [hl]
      by_cases hk : k = 0
      · simp [hk]
      · simp only [hk, if_false]
        exact Or.inr (Or.inr ⟨trivial, by simpa [perform] using List.take_prefix _ _⟩)
    · intro hlen
      rw [hl]
      simp only [perform, List.length_cons, List.length_append, writeAll_length, List.length_nil] at hlen
      have hk : k ≠ 0 := by omega
      simp only [hk, if_false, perform]
      exact List.take_of_length_le (by omega)
  | add f =>
    simp only [OpOK] at ho
    by_cases h1 : w.mem.limit = 0 ∨ isEmptyForm f = true
    · simp only [perform, if_pos h1, crashAt_nil]
      exact ⟨hinv.term, Or.inl hinv.sync, fun _ => hinv.sync⟩
    · have hf : storable f = true := by
        rcases ho with h | h
        · exact absurd (Or.inr h) h1
        · exact h
      by_cases h2 : w.mem.forms.getLast? = some f
      · simp only [perform, if_neg h1, if_pos h2, crashAt_nil]
        exact ⟨hinv.term, Or.inl hinv.sync, fun _ => hinv.sync⟩
      · by_cases h3 : w.mem.max ≤ (w.mem.forms ++ [f]).length
        · simp only [perform, if_neg h1, if_neg h2, if_pos h3, openTmp, fixed, if_true]
          have hk : ∀ g ∈ keepRecent w.mem.limit (w.mem.forms ++ [f]), storable g = true := by
            intro g hg
            have := keepRecent_mem _ _ g hg
            rcases List.mem_append.mp this with h | h
            · exact hinv.storable g h
            · simp at h; subst h; exact hf
          obtain ⟨ht, hl⟩ := crash_compact w hinv _ hk k
          refine ⟨ht, ?_, ?_⟩
          · rw [hl]
            by_cases hk3 : k < (keepRecent w.mem.limit (w.mem.forms ++ [f])).length + 3
            · simp [hk3]
            · simp [hk3]
          · intro hlen
            rw [hl]
            simp only [List.length_cons, List.length_append, writeAll_length, List.length_nil] at hlen
            have : ¬ k < (keepRecent w.mem.limit (w.mem.forms ++ [f])).length + 3 := by omega
            simp [this]
        · simp only [perform, if_neg h1, if_neg h2, if_neg h3]
          obtain ⟨ht, hl⟩ := crash_append w hinv f hf k
          refine ⟨ht, ?_, ?_⟩
          · rw [hl]
            by_cases hk2 : k < 2
            · simp [hk2]
            · simp [hk2]
          · intro hlen
            rw [hl]
            simp only [List.length_cons, List.length_nil] at hlen
            have : ¬ k < 2 := by omega
            simp [this]

theorem crashAt_all (steps : List Step) (fs : FS) : crashAt steps.length steps fs = runSteps fs steps := by
  simp [crashAt]

/-- a completed operation keeps memory and files in agreement -/
theorem op_inv (w : World) (hinv : Inv w) (o : Op) (ho : OpOK o) : Inv (w.apply fixed (.op o)) := by
  obtain ⟨ht, _, hc⟩ := op_crash w hinv o ho (perform fixed w.mem o).2.length
  rw [crashAt_all] at ht hc
  exact ⟨ht, hc (Nat.le_refl _)⟩

def EventOK : Event → Prop
  | .op o => OpOK o
  | .crash o _ _ => OpOK o
  | .restart _ => True

theorem event_inv (w : World) (hinv : Inv w) (e : Event) (he : EventOK e) : Inv (w.apply fixed e) := by
  cases e with
  | op o => exact op_inv w hinv o he
  | crash o k limit => exact boot_inv _ _ (op_crash w hinv o he k).1
  | restart limit => exact boot_inv _ _ hinv.term

theorem run_inv (evs : List Event) : ∀ (w : World), Inv w → (∀ e ∈ evs, EventOK e) → Inv (w.run fixed evs) := by
  induction evs with
  | nil => intro w h _; exact h
  | cons e evs ih =>
    intro w h hall
    have h1 := event_inv w h e (hall e (by simp))
    have := ih (w.apply fixed e) h1 (fun e' he' => hall e' (by simp [he']))
    simpa [World.run] using this

/-! ## in order, nothing invented, nothing duplicated: sublist of what was entered -/

def newForms : Op → List Form
  | .add f => [f]
  | _ => []

def enteredBy : Event → List Form
  | .op o => newForms o
  | .crash o _ _ => newForms o
  | .restart _ => []

theorem entered_cons (e : Event) (es : List Event) : entered (e :: es) = enteredBy e ++ entered es := by
  cases e with
  | op o => cases o <;> simp [entered, enteredBy, newForms]
  | crash o k l => cases o <;> simp [entered, enteredBy, newForms]
  | restart l => simp [entered, enteredBy]

theorem keepRecent_suffix (limit : Nat) (all : List Form) : keepRecent limit all <:+ all :=
  List.drop_suffix _ _

/-- an effective `Add` leaves the most recent forms, in order, ending with the new one, at most
`max` of them; otherwise nothing changes -/
theorem perform_add (cfg : Cfg) (h : Hist) (f : Form) :
    (perform cfg h (.add f)).1.forms = h.forms ∨
    ((perform cfg h (.add f)).1.forms <:+ h.forms ++ [f] ∧
     (perform cfg h (.add f)).1.forms.getLast? = some f ∧
     (perform cfg h (.add f)).1.forms.length ≤ h.max ∧
     h.forms.getLast? ≠ some f) := by
  by_cases h1 : h.limit = 0 ∨ isEmptyForm f = true
  · simp [perform, h1]
  · by_cases h2 : h.forms.getLast? = some f
    · simp [perform, h1, h2]
    · have hl : h.limit ≠ 0 := fun e => h1 (Or.inl e)
      by_cases h3 : h.max ≤ (h.forms ++ [f]).length
      · right
        simp only [perform, if_neg h1, if_neg h2, if_pos h3]
        refine ⟨keepRecent_suffix _ _, ?_, ?_, h2⟩
        · unfold keepRecent
          rw [List.getLast?_drop]
          have : ¬ (h.forms ++ [f]).length ≤ (h.forms ++ [f]).length - h.limit := by
            simp only [List.length_append, List.length_cons, List.length_nil]; omega
          simp only [List.length_append, List.length_cons, List.length_nil] at this
          simp; omega
        · unfold keepRecent Hist.max
          simp only [List.length_drop, List.length_append, List.length_cons, List.length_nil]
          omega
      · right
        simp only [perform, if_neg h1, if_neg h2, if_neg h3]
        refine ⟨List.suffix_refl _, by simp, ?_, h2⟩
        omega

theorem perform_sublist (cfg : Cfg) (h : Hist) (o : Op) :
    ((perform cfg h o).1.forms).Sublist (h.forms ++ newForms o) := by
  cases o with
  | setLimit n => simp [perform, newForms]
  | clear a b => simpa [perform, newForms] using clearRange_sublist h.forms a b
  | add f =>
    rcases perform_add cfg h f with e | ⟨hs, _⟩
    · rw [e]; simp [newForms]
    · exact hs.sublist

theorem event_sublist (w : World) (hinv : Inv w) (e : Event) (he : EventOK e) :
    ((w.apply fixed e).mem.forms).Sublist (w.mem.forms ++ enteredBy e) := by
  cases e with
  | op o => exact perform_sublist fixed w.mem o
  | restart limit =>
    simp only [World.apply, boot, enteredBy, List.append_nil]
    rw [hinv.sync]; exact List.Sublist.refl _
  | crash o k limit =>
    simp only [World.apply, boot, enteredBy]
    obtain ⟨_, hl, _⟩ := op_crash w hinv o he k
    rcases hl with h | h | ⟨_, h⟩
    · rw [h]; simp
    · rw [h]; exact perform_sublist fixed w.mem o
    · exact h.sublist.trans (perform_sublist fixed w.mem o)

theorem run_sublist (evs : List Event) : ∀ (w : World), Inv w → (∀ e ∈ evs, EventOK e) →
    ((w.run fixed evs).mem.forms).Sublist (w.mem.forms ++ entered evs) := by
  induction evs with
  | nil => intro w _ _; simp [World.run, entered]
  | cons e evs ih =>
    intro w h hall
    have he := hall e (by simp)
    have h1 := event_inv w h e he
    have h2 := ih (w.apply fixed e) h1 (fun e' he' => hall e' (by simp [he']))
    have h3 := event_sublist w h e he
    rw [entered_cons, ← List.append_assoc]
    have h4 : ((w.apply fixed e).mem.forms ++ entered evs).Sublist ((w.mem.forms ++ enteredBy e) ++ entered evs) :=
      List.Sublist.append h3 (List.Sublist.refl _)
    have : (World.run fixed w (e :: evs)) = World.run fixed (w.apply fixed e) evs := by simp [World.run]
    rw [this]
    exact h2.trans h4

/-! ## bounded -/

theorem perform_length (cfg : Cfg) (h : Hist) (o : Op) (B : Nat) (hB : h.forms.length ≤ B) (hm : h.max ≤ B) :
    (perform cfg h o).1.forms.length ≤ B := by
  cases o with
  | setLimit n => simpa [perform] using hB
  | clear a b => exact Nat.le_trans (by simpa [perform] using clearRange_length_le h.forms a b) hB
  | add f =>
    rcases perform_add cfg h f with e | ⟨_, _, hl, _⟩
    · rw [e]; exact hB
    · exact Nat.le_trans hl hm

def limitOf : Event → Option Nat
  | .op (.setLimit n) => some n
  | .op _ => none
  | .crash _ _ l => some l
  | .restart l => some l

/-- every limit the events put in effect has `limit + limit/10 ≤ B` -/
def LimitsBelow (B : Nat) (evs : List Event) : Prop := ∀ e ∈ evs, ∀ n, limitOf e = some n → n + n / 10 ≤ B

structure Bounded (B : Nat) (w : World) : Prop where
  len : w.mem.forms.length ≤ B
  max : w.mem.max ≤ B

theorem perform_limit (cfg : Cfg) (h : Hist) (o : Op) :
    (perform cfg h o).1.limit = match o with | .setLimit n => n | _ => h.limit := by
  cases o with
  | setLimit n => rfl
  | clear a b => rfl
  | add f =>
    simp only [perform]
    split
    · rfl
    · split
      · rfl
      · split <;> rfl

theorem event_bounded (B : Nat) (w : World) (hinv : Inv w) (hb : Bounded B w) (e : Event) (he : EventOK e)
    (hl : ∀ n, limitOf e = some n → n + n / 10 ≤ B) : Bounded B (w.apply fixed e) := by
  cases e with
  | op o =>
    refine ⟨perform_length fixed w.mem o B hb.len hb.max, ?_⟩
    simp only [World.apply, Hist.max, perform_limit]
    cases o with
    | setLimit n => exact hl n rfl
    | clear a b => exact hb.max
    | add f => exact hb.max
  | restart limit =>
    refine ⟨?_, hl limit rfl⟩
    simp only [World.apply, boot]; rw [hinv.sync]; exact hb.len
  | crash o k limit =>
    refine ⟨?_, hl limit rfl⟩
    simp only [World.apply, boot]
    obtain ⟨_, h, _⟩ := op_crash w hinv o he k
    have hp := perform_length fixed w.mem o B hb.len hb.max
    rcases h with h | h | ⟨_, h⟩
    · rw [h]; exact hb.len
    · rw [h]; exact hp
    · exact Nat.le_trans h.length_le hp

theorem run_bounded (B : Nat) (evs : List Event) : ∀ (w : World), Inv w → Bounded B w →
    (∀ e ∈ evs, EventOK e) → LimitsBelow B evs → Bounded B (w.run fixed evs) := by
  induction evs with
  | nil => intro w _ hb _ _; exact hb
  | cons e evs ih =>
    intro w h hb hall hlim
    have he := hall e (by simp)
    have h1 := event_inv w h e he
    have hb1 := event_bounded B w h hb e he (hlim e (by simp))
    have := ih (w.apply fixed e) h1 hb1 (fun e' he' => hall e' (by simp [he']))
      (fun e' he' => hlim e' (by simp [he']))
    simpa [World.run] using this

/-! ## no adjacent duplicates -/

/-- no form is immediately followed by an equal one -/
def NoAdj : List Form → Prop
  | a :: b :: r => a ≠ b ∧ NoAdj (b :: r)
  | _ => True

theorem noAdj_tail {a : Form} {l : List Form} (h : NoAdj (a :: l)) : NoAdj l := by
  cases l with
  | nil => trivial
  | cons b r => exact h.2

theorem noAdj_append_right : ∀ (a b : List Form), NoAdj (a ++ b) → NoAdj b
  | [], b, h => h
  | x :: a, b, h => noAdj_append_right a b (noAdj_tail h)

theorem noAdj_append_left : ∀ (a b : List Form), NoAdj (a ++ b) → NoAdj a
  | [], _, _ => trivial
  | [x], _, _ => trivial
  | x :: y :: a, b, h => ⟨h.1, noAdj_append_left (y :: a) b h.2⟩

theorem noAdj_snoc : ∀ (l : List Form) (f : Form), NoAdj l → l.getLast? ≠ some f → NoAdj (l ++ [f])
  | [], _, _, _ => trivial
  | [x], f, _, h => ⟨fun e => h (by simp [e]), trivial⟩
  | x :: y :: r, f, hn, h =>
    ⟨hn.1, noAdj_snoc (y :: r) f hn.2 (by simpa [List.getLast?_cons_cons] using h)⟩

theorem noAdj_prefix {p l : List Form} (hp : p <+: l) (h : NoAdj l) : NoAdj p := by
  obtain ⟨t, rfl⟩ := hp; exact noAdj_append_left p t h

theorem noAdj_suffix {p l : List Form} (hp : p <:+ l) (h : NoAdj l) : NoAdj p := by
  obtain ⟨t, rfl⟩ := hp; exact noAdj_append_right t p h

/-- clears that remove the most recent forms (`start ≤ 0`) or everything older than `start`
(`end < 0`) — what `(clear-history)` and `(clear-history :end n)` / `(clear-history :start n)` do -/
def OuterClear : Op → Prop
  | .clear a b => a ≤ 0 ∨ b < 0
  | _ => True

theorem clearRange_outer (forms : List Form) (a b : Int) (h : a ≤ 0 ∨ b < 0) :
    clearRange forms a b <+: forms ∨ clearRange forms a b <:+ forms := by
  unfold clearRange
  simp only
  by_cases h0 : forms.length = 0 ∨ (forms.length : Int) ≤ a
  · rw [if_pos h0]; exact Or.inl (List.prefix_refl _)
  · rw [if_neg h0]
    by_cases hse : a.toNat ≤ (if b < 0 ∨ (forms.length : Int) ≤ b then forms.length - 1 else b.toNat)
    · rw [if_pos hse]
      rcases h with h | h
      · left
        have : a.toNat = 0 := by omega
        rw [this]
        simp only [Nat.sub_zero, List.drop_length, List.append_nil]
        exact List.take_prefix _ _
      · right
        have hb : (b < 0 ∨ (forms.length : Int) ≤ b) := Or.inl h
        rw [if_pos hb]
        have : forms.length - 1 - (forms.length - 1) = 0 := by omega
        rw [this]
        simp only [List.take_zero, List.nil_append]
        exact List.drop_suffix _ _
    · rw [if_neg hse]; exact Or.inl (List.prefix_refl _)

theorem perform_noAdj (cfg : Cfg) (h : Hist) (o : Op) (ho : OuterClear o) (hn : NoAdj h.forms) :
    NoAdj (perform cfg h o).1.forms := by
  cases o with
  | setLimit n => exact hn
  | clear a b =>
    simp only [perform]
    rcases clearRange_outer h.forms a b ho with hp | hs
    · exact noAdj_prefix hp hn
    · exact noAdj_suffix hs hn
  | add f =>
    rcases perform_add cfg h f with e | ⟨hs, _, _, hne⟩
    · rw [e]; exact hn
    · exact noAdj_suffix hs (noAdj_snoc h.forms f hn hne)

def OuterClears : Event → Prop
  | .op o => OuterClear o
  | .crash o _ _ => OuterClear o
  | .restart _ => True

theorem event_noAdj (w : World) (hinv : Inv w) (e : Event) (he : EventOK e) (ho : OuterClears e)
    (hn : NoAdj w.mem.forms) : NoAdj (w.apply fixed e).mem.forms := by
  cases e with
  | op o => exact perform_noAdj fixed w.mem o ho hn
  | restart limit => simp only [World.apply, boot]; rw [hinv.sync]; exact hn
  | crash o k limit =>
    simp only [World.apply, boot]
    obtain ⟨_, h, _⟩ := op_crash w hinv o he k
    have hp := perform_noAdj fixed w.mem o ho hn
    rcases h with h | h | ⟨_, h⟩
    · rw [h]; exact hn
    · rw [h]; exact hp
    · exact noAdj_prefix h hp

theorem run_noAdj (evs : List Event) : ∀ (w : World), Inv w → NoAdj w.mem.forms →
    (∀ e ∈ evs, EventOK e) → (∀ e ∈ evs, OuterClears e) → NoAdj (w.run fixed evs).mem.forms := by
  induction evs with
  | nil => intro w _ hn _ _; exact hn
  | cons e evs ih =>
    intro w h hn hall hout
    have he := hall e (by simp)
    have h1 := event_inv w h e he
    have hn1 := event_noAdj w h e he (hout e (by simp)) hn
    have := ih (w.apply fixed e) h1 hn1 (fun e' he' => hall e' (by simp [he']))
      (fun e' he' => hout e' (by simp [he']))
    simpa [World.run] using this

/-! ## stash: the expanded encoding -/

structure StashSpec (f : Form) : Prop where
  ne : f ≠ []
  lineNe : ∀ l ∈ f, l ≠ []
  noTab : ∀ l ∈ f, TAB ∉ l
  noNL : ∀ l ∈ f, NL ∉ l
  whole : full (expand f) = some true
  proper : ∀ k, k < f.length → k ≠ 0 → full (expand (f.take k)) = some false

theorem stashOK_spec (f : Form) (h : stashOK f = true) : StashSpec f := by
  unfold stashOK at h
  simp only [Bool.and_eq_true, List.all_eq_true, List.mem_range] at h
  obtain ⟨⟨⟨h1, h2⟩, h3⟩, h4⟩ := h
  refine ⟨?_, ?_, ?_, ?_, ?_, ?_⟩
  · intro e; subst e; simp at h2
  · intro l hl e; have := (h1 l hl).1; subst e; simp at this
  · intro l hl; exact (lineOK_spec l (h1 l hl).2).1
  · intro l hl; exact (lineOK_spec l (h1 l hl).2).2
  · simpa using h3
  · intro k hk hk0
    have := h4 k hk
    simp only [Bool.or_eq_true, beq_iff_eq] at this
    rcases this with e | e
    · exact absurd e hk0
    · exact e

theorem expand_append (a b : Form) : expand (a ++ b) = expand a ++ expand b := by
  simp [expand, List.flatMap_append]

theorem lines_expand_append : ∀ (f : Form) (rest : Content), (∀ l ∈ f, NL ∉ l) →
    lines (expand f ++ rest) = f ++ lines rest := by
  intro f
  induction f with
  | nil => intro rest _; simp [expand]
  | cons l f ih =>
    intro rest h
    have hl := h l (by simp)
    have := ih rest (fun x hx => h x (by simp [hx]))
    simp only [expand, List.flatMap_cons, List.append_assoc, List.singleton_append] at this ⊢
    rw [List.cons_append, lines_append_nl l _ hl, this]
    simp

theorem leLines_skip (st : LoadSt) (more : List Content) : leLines st ([] :: more) = leLines st more := by
  simp [leLines, leLine]

theorem leLines_form (f : Form) (hf : StashSpec f) (out : List Form) (more : List Content) :
    ∀ (suf pre : Form), pre ++ suf = f → suf ≠ [] →
      leLines ⟨expand pre, pre, out⟩ (suf ++ more) = leLines ⟨[], [], out ++ [f]⟩ more := by
  intro suf
  induction suf with
  | nil => intro pre _ h; exact absurd rfl h
  | cons l suf ih =>
    intro pre hpre _
    have hlf : l ∈ f := by rw [← hpre]; simp
    have hne : l ≠ [] := hf.lineNe l hlf
    have hp : pieces TAB l = [l] := pieces_notin TAB l (hf.noTab l hlf)
    obtain ⟨c, cs, hl⟩ : ∃ c cs, l = c :: cs := by
      cases l with
      | nil => exact absurd rfl hne
      | cons c cs => exact ⟨c, cs, rfl⟩
    have hbuf : expand pre ++ expand [l] = expand (pre ++ [l]) := (expand_append pre [l]).symm
    cases suf with
    | nil =>
      have hfl : pre ++ [l] = f := by simpa using hpre
      have hw : full (expand (pre ++ [l])) = some true := by rw [hfl]; exact hf.whole
      simp only [List.cons_append, List.nil_append, leLines]
      have : leLine ⟨expand pre, pre, out⟩ l = some ⟨[], [], out ++ [f]⟩ := by
        subst hl
        simp only [leLine]
        rw [hp, hbuf, hw, hfl]
      rw [this]
    | cons l2 suf2 =>
      have hlen : (pre ++ [l]).length < f.length := by
        rw [← hpre]; simp
      have htake : f.take (pre ++ [l]).length = pre ++ [l] := by
        rw [← hpre]
        have : pre ++ l :: l2 :: suf2 = (pre ++ [l]) ++ (l2 :: suf2) := by simp
        rw [this, List.take_left']
        rfl
      have hpart : full (expand (pre ++ [l])) = some false := by
        have := hf.proper (pre ++ [l]).length hlen (by simp)
        rwa [htake] at this
      have hstep : leLine ⟨expand pre, pre, out⟩ l = some ⟨expand (pre ++ [l]), pre ++ [l], out⟩ := by
        subst hl
        simp only [leLine]
        rw [hp, hbuf, hpart]
      have := ih (pre ++ [l]) (by simpa using hpre) (by simp)
      simp only [List.cons_append, leLines, hstep] at this ⊢
      exact this

theorem leLines_stashEnc (f : Form) (hf : stashOK f = true) (out : List Form) (rest : Content) :
    leLines ⟨[], [], out⟩ (lines (stashEnc f ++ rest)) = leLines ⟨[], [], out ++ [f]⟩ (lines rest) := by
  have sp := stashOK_spec f hf
  unfold stashEnc
  have : expand f ++ [NL] ++ rest = expand f ++ (NL :: rest) := by simp
  rw [this, lines_expand_append f _ sp.noNL]
  have h0 : lines (NL :: rest) = [] :: lines rest := by simp [lines]
  rw [h0]
  have := leLines_form f sp out ([] :: lines rest) f [] (by simp) sp.ne
  simp only [expand, List.flatMap_nil] at this
  rw [this, leLines_skip]

theorem leLines_tabAppend (f : Form) (hf : stashOK f = true) (out : List Form) (rest : Content) :
    leLines ⟨[], [], out⟩ (lines (tabAppend f ++ rest)) = leLines ⟨[], [], out ++ [f]⟩ (lines rest) := by
  have sp := stashOK_spec f hf
  obtain ⟨a, r, hfa⟩ : ∃ a r, f = a :: r := by
    cases f with
    | nil => exact absurd rfl sp.ne
    | cons a r => exact ⟨a, r, rfl⟩
  have hnl : NL ∉ joinTab f := by
    intro hm
    rcases joinTab_mem f NL hm with e | ⟨l, hl, hx⟩
    · exact absurd e (by decide)
    · exact sp.noNL l hl hx
  have hta : tabAppend f = joinTab f ++ [NL] := by subst hfa; rfl
  have : tabAppend f ++ rest = joinTab f ++ NL :: rest := by rw [hta]; simp
  rw [this, lines_append_nl _ _ hnl]
  have hj : joinTab f ≠ [] := by
    subst hfa
    have hane : a ≠ [] := sp.lineNe a (by simp)
    cases r with
    | nil => simpa [joinTab] using hane
    | cons b r' => simp [joinTab, hane]
  obtain ⟨c, cs, hc⟩ : ∃ c cs, joinTab f = c :: cs := by
    cases h : joinTab f with
    | nil => exact absurd h hj
    | cons c cs => exact ⟨c, cs, rfl⟩
  have hp : pieces TAB (joinTab f) = f := pieces_joinTab f sp.ne sp.noTab
  simp only [leLines]
  have : leLine ⟨[], [], out⟩ (joinTab f) = some ⟨[], [], out ++ [f]⟩ := by
    rw [hc]
    simp only [leLine]
    rw [← hc, hp]
    simp [sp.whole]
  rw [this]

/-! ## stash sessions -/

/-- the content decodes to the forms, whatever was decoded before and whatever follows -/
def Decodes (c : Content) (fs : List Form) : Prop :=
  ∀ (out : List Form) (rest : Content),
    leLines ⟨[], [], out⟩ (lines (c ++ rest)) = leLines ⟨[], [], out ++ fs⟩ (lines rest)

theorem decodes_nil : Decodes [] [] := by intro out rest; simp

theorem decodes_append {c1 c2 : Content} {f1 f2 : List Form} (h1 : Decodes c1 f1) (h2 : Decodes c2 f2) :
    Decodes (c1 ++ c2) (f1 ++ f2) := by
  intro out rest
  rw [List.append_assoc, h1 out (c2 ++ rest), h2 (out ++ f1) rest, List.append_assoc]

theorem decodes_stashEnc (f : Form) (h : stashOK f = true) : Decodes (stashEnc f) [f] :=
  fun out rest => leLines_stashEnc f h out rest

theorem decodes_tabAppend (f : Form) (h : stashOK f = true) : Decodes (tabAppend f) [f] :=
  fun out rest => leLines_tabAppend f h out rest

theorem decodes_encodeAll (fs : List Form) (h : ∀ f ∈ fs, stashOK f = true) : Decodes (encodeAll fs) fs := by
  induction fs with
  | nil => exact decodes_nil
  | cons f fs ih =>
    have := decodes_append (decodes_tabAppend f (h f (by simp))) (ih (fun g hg => h g (by simp [hg])))
    simpa [encodeAll] using this

theorem decodes_load {c : Content} {fs : List Form} (h : Decodes c fs) : decodeExpanded c = some fs := by
  have := h [] []
  simp only [List.append_nil, List.nil_append] at this
  simp [decodeExpanded, this, lines, leLines]

/-- memory and stash file agree: the file decodes (in any context) to the forms in memory, all of
which satisfy the guard -/
structure SInv (forms : List Form) (fs : FS) : Prop where
  ok : ∀ f ∈ forms, stashOK f = true
  sync : match fs.stash with
    | none => forms = []
    | some c => Decodes c forms

theorem SInv.load {forms : List Form} {fs : FS} (h : SInv forms fs) : loadStash fs = some forms := by
  have := h.sync
  unfold loadStash
  cases hs : fs.stash with
  | none => rw [hs] at this; simp [this]
  | some c => rw [hs] at this; exact decodes_load this

def SOpOK : SOp → Prop
  | .add f => isEmptyForm f = true ∨ stashOK f = true
  | .clear _ _ => True

def isSClear : SOp → Prop
  | .clear _ _ => True
  | _ => False

@[simp] theorem FS.set_stash_stash (fs : FS) (v : Option Content) : (fs.set .stash v).stash = v := rfl

theorem stash_op_crash (forms : List Form) (fs : FS) (hinv : SInv forms fs) (o : SOp) (ho : SOpOK o) (k : Nat) :
    ∃ L, SInv L (crashAt k (sperform forms o).2 fs) ∧
      (L = forms ∨ L = (sperform forms o).1 ∨ (isSClear o ∧ L <+: (sperform forms o).1)) ∧
      ((sperform forms o).2.length ≤ k → L = (sperform forms o).1) := by
  cases o with
  | clear a b =>
    have hkept : ∀ f ∈ clearRange forms a b, stashOK f = true :=
      fun f hf => hinv.ok f (clearRange_mem forms a b f hf)
    cases k with
    | zero =>
      refine ⟨forms, by simpa [crashAt_zero] using hinv, Or.inl rfl, ?_⟩
      intro hl; simp [sperform] at hl
    | succ k =>
      refine ⟨(clearRange forms a b).take k, ?_, ?_, ?_⟩
      · simp only [sperform]
        rw [crashAt_succ, runSteps_take_close]
        simp only [step]
        rw [runSteps_writeAll .stash _ _ [] (by simp)]
        simp only [FS.set_set, List.nil_append]
        refine ⟨fun f hf => hkept f (List.mem_of_mem_take hf), ?_⟩
        simp only [FS.set_stash_stash]
        exact decodes_encodeAll _ (fun f hf => hkept f (List.mem_of_mem_take hf))
      · exact Or.inr (Or.inr ⟨trivial, by simpa [sperform] using List.take_prefix _ _⟩)
      · intro hl
        simp only [sperform, List.length_cons, List.length_append, writeAll_length, List.length_nil] at hl
        simp only [sperform]
        exact List.take_of_length_le (by omega)
  | add f =>
    simp only [SOpOK] at ho
    by_cases h1 : isEmptyForm f = true
    · exact ⟨forms, by simpa [sperform, h1, crashAt_nil] using hinv, Or.inl rfl, fun _ => by simp [sperform, h1]⟩
    · have hf : stashOK f = true := by
        rcases ho with h | h
        · exact absurd h h1
        · exact h
      by_cases h2 : forms.getLast? = some f
      · exact ⟨forms, by simpa [sperform, h1, h2, crashAt_nil] using hinv, Or.inl rfl, fun _ => by simp [sperform, h1, h2]⟩
      · have hsteps : (sperform forms (.add f)).2 =
            [Step.openAppend .stash, Step.write .stash (stashEnc f), Step.close .stash] := by
          simp [sperform, h1, h2]
        have hres : (sperform forms (.add f)).1 = forms ++ [f] := by simp [sperform, h1, h2]
        have hok' : ∀ g ∈ forms ++ [f], stashOK g = true := by
          intro g hg
          rcases List.mem_append.mp hg with h | h
          · exact hinv.ok g h
          · simp at h; subst h; exact hf
        rw [hsteps, hres]
        have hsync := hinv.sync
        cases hs : fs.stash with
        | none =>
          rw [hs] at hsync
          subst hsync
          match k with
          | 0 => exact ⟨[], by simpa [crashAt_zero] using hinv, Or.inl rfl, fun hl => by simp at hl⟩
          | 1 =>
            refine ⟨[], ⟨by simp, ?_⟩, Or.inl rfl, fun hl => by simp at hl⟩
            simp [crashAt, step, FS.get, hs, decodes_nil]
          | k + 2 =>
            have e : crashAt (k + 2) [Step.openAppend .stash, Step.write .stash (stashEnc f), Step.close .stash] fs
                = fs.set .stash (some (stashEnc f)) := by
              cases k <;> simp [crashAt, List.take, step, FS.get, hs]
            rw [e]
            refine ⟨[] ++ [f], ⟨hok', ?_⟩, Or.inr (Or.inl rfl), fun _ => rfl⟩
            simp only [FS.set_stash_stash, List.nil_append]
            exact decodes_stashEnc f hf
        | some c =>
          rw [hs] at hsync
          match k with
          | 0 => exact ⟨forms, by simpa [crashAt_zero] using hinv, Or.inl rfl, fun hl => by simp at hl⟩
          | 1 =>
            refine ⟨forms, ⟨hinv.ok, ?_⟩, Or.inl rfl, fun hl => by simp at hl⟩
            simp [crashAt, step, FS.get, hs, hsync]
          | k + 2 =>
            have e : crashAt (k + 2) [Step.openAppend .stash, Step.write .stash (stashEnc f), Step.close .stash] fs
                = fs.set .stash (some (c ++ stashEnc f)) := by
              cases k <;> simp [crashAt, List.take, step, FS.get, hs]
            rw [e]
            refine ⟨forms ++ [f], ⟨hok', ?_⟩, Or.inr (Or.inl rfl), fun _ => rfl⟩
            simp only [FS.set_stash_stash]
            exact decodes_append hsync (decodes_stashEnc f hf)

/-- a stash session: operations applied in order -/
def srun : List Form × FS → List SOp → List Form × FS
  | w, [] => w
  | w, o :: os => srun ((sperform w.1 o).1, runSteps w.2 (sperform w.1 o).2) os

theorem srun_inv (ops : List SOp) : ∀ (w : List Form × FS), SInv w.1 w.2 → (∀ o ∈ ops, SOpOK o) →
    SInv (srun w ops).1 (srun w ops).2 := by
  induction ops with
  | nil => intro w h _; exact h
  | cons o ops ih =>
    intro w h hall
    obtain ⟨L, hL, _, hc⟩ := stash_op_crash w.1 w.2 h o (hall o (by simp)) (sperform w.1 o).2.length
    rw [crashAt_all] at hL
    rw [hc (Nat.le_refl _)] at hL
    exact ih _ hL (fun o' ho' => hall o' (by simp [ho']))

/-! ## settings -/

def keys (m : Settings) : List String := m.map Prod.fst

theorem lookup_insertKV' (k v : String) : ∀ (m : Settings), k ∉ keys m → ∀ (k' : String),
    lookup (insertKV k v m) k' = if k' = k then some v else lookup m k' := by
  intro m
  induction m with
  | nil => intro _ k'; by_cases h : k' = k <;> simp [insertKV, lookup, h]
  | cons e r ih =>
    intro hk k'
    obtain ⟨k1, v1⟩ := e
    simp only [keys, List.map_cons, List.mem_cons, not_or] at hk
    by_cases hlt : k < k1
    · by_cases h : k' = k <;> simp [insertKV, hlt, lookup, h]
    · by_cases h1 : k' = k1
      · have hne : k' ≠ k := fun e => hk.1 (e.symm.trans h1)
        simp [insertKV, hlt, lookup, h1]
        intro e; exact absurd (h1.trans e) hne
      · have := ih hk.2 k'
        simp only [insertKV, hlt, if_false, lookup, h1, this]

theorem lookup_filter (k : String) : ∀ (m : Settings) (k' : String),
    lookup (m.filter (fun kv => kv.1 != k)) k' = if k' = k then none else lookup m k' := by
  intro m
  induction m with
  | nil => intro k'; simp [lookup]
  | cons e r ih =>
    intro k'
    obtain ⟨k1, v1⟩ := e
    by_cases h1 : k1 = k
    · subst h1
      simp only [List.filter_cons, bne_self_eq_false, Bool.false_eq_true, if_false, ih k', lookup]
      by_cases h : k' = k1 <;> simp [h]
    · have : (k1 != k) = true := by simp [h1]
      simp only [List.filter_cons, this, if_true, lookup, ih k']
      by_cases h : k' = k1
      · have : k' ≠ k := fun e => h1 (h ▸ e)
        simp [h, this]
        intro e; exact absurd e h1
      · simp [h]

theorem keys_filter_not_mem (k : String) (m : Settings) : k ∉ keys (m.filter (fun kv => kv.1 != k)) := by
  simp [keys, List.mem_map, List.mem_filter]

theorem lookup_setVar (m : Settings) (k v k' : String) :
    lookup (setVar m k v) k' = if k' = k then some v else lookup m k' := by
  unfold setVar
  rw [lookup_insertKV' k v _ (keys_filter_not_mem k m) k', lookup_filter]
  by_cases h : k' = k <;> simp [h]

theorem mem_keys_insertKV (k v : String) : ∀ (m : Settings) (k' : String),
    k' ∈ keys (insertKV k v m) ↔ k' = k ∨ k' ∈ keys m := by
  intro m
  induction m with
  | nil => intro k'; simp [insertKV, keys]
  | cons e r ih =>
    intro k'
    obtain ⟨k1, v1⟩ := e
    by_cases hlt : k < k1
    · simp [insertKV, hlt, keys]
    · have := ih k'
      simp only [keys] at this
      simp only [insertKV, hlt, if_false, keys, List.map_cons, List.mem_cons, this]
      constructor
      · rintro (h | h | h)
        · exact Or.inr (Or.inl h)
        · exact Or.inl h
        · exact Or.inr (Or.inr h)
      · rintro (h | h | h)
        · exact Or.inr (Or.inl h)
        · exact Or.inl h
        · exact Or.inr (Or.inr h)

theorem nodup_keys_insertKV (k v : String) : ∀ (m : Settings), k ∉ keys m → (keys m).Nodup →
    (keys (insertKV k v m)).Nodup := by
  intro m
  induction m with
  | nil => intro _ _; simp [insertKV, keys]
  | cons e r ih =>
    intro hk hn
    obtain ⟨k1, v1⟩ := e
    simp only [keys, List.map_cons, List.mem_cons, not_or, List.nodup_cons] at hk hn
    by_cases hlt : k < k1
    · simp only [insertKV, hlt, if_true, keys, List.map_cons, List.nodup_cons, List.mem_cons, not_or]
      exact ⟨⟨hk.1, hk.2⟩, hn.1, hn.2⟩
    · simp only [insertKV, hlt, if_false, keys, List.map_cons, List.nodup_cons]
      refine ⟨?_, ih hk.2 hn.2⟩
      intro hm
      have := (mem_keys_insertKV k v r k1).mp hm
      rcases this with h | h
      · exact hk.1 h.symm
      · exact hn.1 h

theorem nodup_keys_setVar (m : Settings) (k v : String) (h : (keys m).Nodup) : (keys (setVar m k v)).Nodup := by
  unfold setVar
  apply nodup_keys_insertKV k v _ (keys_filter_not_mem k m)
  exact List.Nodup.sublist (List.Sublist.map _ List.filter_sublist) h

def applySets (m : Settings) (sets : List (String × String)) : Settings :=
  sets.foldl (fun m kv => setVar m kv.1 kv.2) m

theorem nodup_keys_applySets (sets : List (String × String)) : ∀ (m : Settings), (keys m).Nodup →
    (keys (applySets m sets)).Nodup := by
  induction sets with
  | nil => intro m h; exact h
  | cons kv sets ih => intro m h; exact ih _ (nodup_keys_setVar m kv.1 kv.2 h)

theorem lookup_applySets_not_mem (sets : List (String × String)) : ∀ (m : Settings) (k : String),
    k ∉ sets.map Prod.fst → lookup (applySets m sets) k = lookup m k := by
  induction sets with
  | nil => intro m k _; rfl
  | cons kv sets ih =>
    intro m k hk
    simp only [List.map_cons, List.mem_cons, not_or] at hk
    have := ih (setVar m kv.1 kv.2) k hk.2
    simp only [applySets, List.foldl_cons] at this ⊢
    rw [this, lookup_setVar]
    simp [hk.1]

theorem lookup_mem : ∀ (m : Settings) (k v : String), lookup m k = some v → (k, v) ∈ m := by
  intro m
  induction m with
  | nil => intro k v h; simp [lookup] at h
  | cons e r ih =>
    intro k v h
    obtain ⟨k1, v1⟩ := e
    by_cases hk : k = k1
    · simp [lookup, hk] at h; simp [hk, h]
    · simp only [lookup, hk, if_false] at h
      exact List.mem_cons_of_mem _ (ih k v h)

/-- loading a file with distinct keys over any defaults gives every key its saved value -/
theorem lookup_load (file : Settings) : (keys file).Nodup → ∀ (d : Settings) (k v : String),
    (k, v) ∈ file → lookup (applySets d file) k = some v := by
  induction file with
  | nil => intro _ d k v h; simp at h
  | cons e r ih =>
    intro hn d k v hm
    obtain ⟨k1, v1⟩ := e
    simp only [keys, List.map_cons, List.nodup_cons] at hn
    simp only [applySets, List.foldl_cons]
    rcases List.mem_cons.mp hm with h | h
    · injection h with hk hv
      subst hk; subst hv
      have := lookup_applySets_not_mem r (setVar d k v) k hn.1
      simp only [applySets] at this
      rw [this, lookup_setVar]; simp
    · have hne : k ≠ k1 := by
        intro e; subst e
        exact hn.1 (List.mem_map.mpr ⟨(k, v), h, rfl⟩)
      exact ih hn.2 (setVar d k1 v1) k v h

end SlipVerif.History
