import SlipVerif.Model.Format
/-! C15 — fuel monotonicity of the interpreter: a run that succeeds with fuel `f` succeeds with the
    same result with any larger fuel. (`Err.fuel` is the only outcome that depends on the fuel.) -/
namespace SlipVerif.Format

/-- `b` extends `a`: whatever `a` returns successfully, `b` returns too -/
def Ext {α : Type} (a b : Except Err α) : Prop := ∀ r, a = .ok r → b = .ok r

theorem Ext.rfl {α : Type} {a : Except Err α} : Ext a a := fun _ h => h

theorem Ext.error {α : Type} {e : Err} {b : Except Err α} : Ext (.error e) b := fun _ h => by cases h

theorem Ext.bind {α β : Type} {a b : Except Err α} {g g' : α → Except Err β}
    (h1 : Ext a b) (h2 : ∀ x, Ext (g x) (g' x)) : Ext (a >>= g) (b >>= g') := by
  intro r h
  cases ha : a with
  | error e => rw [ha] at h; cases h
  | ok x =>
    rw [ha] at h
    rw [h1 x ha]
    exact h2 x r h

theorem Ext.bind_left {α β : Type} {a b : Except Err α} {g : α → Except Err β}
    (h1 : Ext a b) : Ext (a >>= g) (b >>= g) := Ext.bind h1 (fun _ => Ext.rfl)

theorem Ext.bind_right {α β : Type} {a : Except Err α} {g g' : α → Except Err β}
    (h2 : ∀ x, Ext (g x) (g' x)) : Ext (a >>= g) (a >>= g') := Ext.bind Ext.rfl h2

/-- the four evaluators at fuel f are extended by themselves at fuel f + 1 -/
structure MonoAt (T : EnglishTables) (f : Nat) : Prop where
  items : ∀ is st, Ext (runItems T f is st) (runItems T (f + 1) is st)
  item : ∀ it st, Ext (runItem T f it st) (runItem T (f + 1) it st)
  loop : ∀ body hasMax max once st, Ext (iterLoop T f body hasMax max once st) (iterLoop T (f + 1) body hasMax max once st)
  lists : ∀ body hasMax max once subs out, Ext (iterLists T f body hasMax max once subs out) (iterLists T (f + 1) body hasMax max once subs out)

theorem monoAt_zero (T : EnglishTables) : MonoAt T 0 := by
  constructor
  · intro is st; rw [runItems]; exact Ext.error
  · intro it st; rw [runItem]; exact Ext.error
  · intro body hasMax max once st; rw [iterLoop]; exact Ext.error
  · intro body hasMax max once subs out; rw [iterLists]; exact Ext.error

/-- one step of the congruence: equal sides, a failed left side, a recursive call (directly or under a
    bind), a bind with the same first computation, a case split -/
macro "ext_step" ih:ident : tactic => `(tactic| first
  | exact Ext.rfl
  | exact Ext.error
  | exact MonoAt.items $ih _ _
  | exact MonoAt.loop $ih _ _ _ _ _
  | exact MonoAt.lists $ih _ _ _ _ _ _
  | (apply Ext.bind (MonoAt.items $ih _ _); intro _)
  | (apply Ext.bind (MonoAt.loop $ih _ _ _ _ _); intro _)
  | (apply Ext.bind (MonoAt.lists $ih _ _ _ _ _ _); intro _)
  | (apply Ext.bind_right; intro _)
  | split
  | contradiction)

theorem monoAt_succ (T : EnglishTables) (f : Nat) (ih : MonoAt T f) : MonoAt T (f + 1) := by
  constructor
  · -- runItems
    intro is st
    cases is with
    | nil => simp only [runItems]; exact Ext.rfl
    | cons it rest =>
      simp only [runItems]
      apply Ext.bind (ih.item it st)
      intro x
      obtain ⟨st1, fl⟩ := x
      cases fl
      · exact ih.items rest st1
      · exact Ext.rfl
  · -- runItem: every constructor; the two sides differ only in the fuel of the recursive calls
    intro it st
    cases it with
    | nop => simp only [runItem]; exact Ext.rfl
    | lit c => simp only [runItem]; exact Ext.rfl
    | simple k ps colon atm => simp only [runItem]; exact Ext.rfl
    | recur atm => simp only [runItem]; repeat ext_step ih
    | caseConv colon atm body => simp only [runItem]; repeat ext_step ih
    | cond ps colon atm clauses hasD dflt => simp only [runItem]; repeat ext_step ih
    | iter ps colon atm body once => simp only [runItem]; repeat ext_step ih
  · -- iterLoop
    intro body hasMax max once st
    rw [iterLoop, iterLoop]
    split
    · exact Ext.rfl
    · split
      · exact Ext.rfl
      · apply Ext.bind (ih.items body st)
        intro x
        obtain ⟨st1, fl⟩ := x
        cases fl
        · exact ih.loop body hasMax (max - 1) false st1
        · exact Ext.rfl
  · -- iterLists
    intro body hasMax max once subs out
    cases subs with
    | nil =>
      simp only [iterLists]
      split
      · exact Ext.rfl
      · split
        · apply Ext.bind (ih.items body _)
          intro x; exact Ext.rfl
        · exact Ext.rfl
    | cons s rest =>
      simp only [iterLists]
      split
      · exact Ext.rfl
      · cases s.toList? with
        | none => exact Ext.rfl
        | some sub =>
          simp only
          apply Ext.bind (ih.items body _)
          intro x
          obtain ⟨st1, fl⟩ := x
          exact ih.lists body hasMax (max - 1) false rest st1.out

theorem monoAt (T : EnglishTables) : ∀ f, MonoAt T f
  | 0 => monoAt_zero T
  | f + 1 => monoAt_succ T f (monoAt T f)

theorem Ext.trans {α : Type} {a b c : Except Err α} (h1 : Ext a b) (h2 : Ext b c) : Ext a c :=
  fun r h => h2 r (h1 r h)

/-- more fuel never changes a successful run of a sequence of items … -/
theorem runItems_mono (T : EnglishTables) (is : List Item) (st : St) {f g : Nat} (h : f ≤ g) :
    Ext (runItems T f is st) (runItems T g is st) := by
  induction h with
  | refl => exact Ext.rfl
  | step _ ih => exact Ext.trans ih ((monoAt T _).items is st)

/-- … of one item … -/
theorem runItem_mono (T : EnglishTables) (it : Item) (st : St) {f g : Nat} (h : f ≤ g) :
    Ext (runItem T f it st) (runItem T g it st) := by
  induction h with
  | refl => exact Ext.rfl
  | step _ ih => exact Ext.trans ih ((monoAt T _).item it st)

/-- … of the iteration loops -/
theorem iterLoop_mono (T : EnglishTables) (body : List Item) (hasMax : Bool) (max : Nat) (once : Bool) (st : St) {f g : Nat}
    (h : f ≤ g) : Ext (iterLoop T f body hasMax max once st) (iterLoop T g body hasMax max once st) := by
  induction h with
  | refl => exact Ext.rfl
  | step _ ih => exact Ext.trans ih ((monoAt T _).loop body hasMax max once st)

theorem iterLists_mono (T : EnglishTables) (body : List Item) (hasMax : Bool) (max : Nat) (once : Bool) (subs : List Arg) (out : Txt)
    {f g : Nat} (h : f ≤ g) : Ext (iterLists T f body hasMax max once subs out) (iterLists T g body hasMax max once subs out) := by
  induction h with
  | refl => exact Ext.rfl
  | step _ ih => exact Ext.trans ih ((monoAt T _).lists body hasMax max once subs out)

end SlipVerif.Format
