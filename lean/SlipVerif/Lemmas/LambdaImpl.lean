import SlipVerif.Model.LambdaImpl
/- C04 — helper lemmas for Theorems/C04Impl.lean: the code-level machine step by step.
   Everything here is about the definitions of Gen/LambdaCall.lean as they are regenerated from
   lambda.go: a changed table row, guard operator or loop fact breaks these proofs. -/
namespace SlipVerif.Lemmas.LambdaImpl
open SlipVerif.Lambda SlipVerif.LambdaCode SlipVerif.LambdaImpl
open SlipVerif.Gen

/-- a parameter name as the reader delivers it: lower case, not starting with `&` -/
def Plain (n : String) : Prop := byteAt n 0 ≠ '&' ∧ lowerS n = n

theorem plain_ne (n : String) (h : Plain n) :
    n ≠ "&optional" ∧ n ≠ "&rest" ∧ n ≠ "&body" ∧ n ≠ "&key" ∧ n ≠ "&aux" ∧ n ≠ "&allow-other-keys" := by
  refine ⟨?_, ?_, ?_, ?_, ?_, ?_⟩ <;> (intro e; subst e; exact h.1 (by decide))

def mk (n : String) : DocArg := { name := n }
def pd (p : Param) : DocArg := { name := p.name, default := p.default }

/-! ### the scope map -/

@[simp] theorem getVar_nil (x : String) : getVar [] x = none := rfl

@[simp] theorem getVar_letVar (vs : Vars) (n : String) (v : Obj) (x : String) :
    getVar (letVar vs n v) x = if n = x then some v else getVar vs x := rfl

theorem boundHere_iff (vs : Vars) (x : String) : boundHere vs x = true ↔ getVar vs x ≠ none := by
  unfold boundHere; cases getVar vs x <;> simp

theorem boundHere_false_iff (vs : Vars) (x : String) : boundHere vs x = false ↔ getVar vs x = none := by
  unfold boundHere; cases getVar vs x <;> simp

/-! ### the tables: which arm a name selects -/

theorem la1_pos (m : Nat) (hm : m = 0 ∨ m = 1) (n : String) (h : Plain n) :
    lookupAct LambdaCall.pass1 m n = .bindArg := by
  obtain ⟨h1, h2, h3, h4, h5, h6⟩ := plain_ne n h
  rcases hm with rfl | rfl <;>
    simp [lookupAct, LambdaCall.pass1, List.find?, h1, h2, h3, h4, h5, h6]

theorem la1_rest (n : String) : lookupAct LambdaCall.pass1 2 n = .restLoop := by
  simp [lookupAct, LambdaCall.pass1, List.find?]

theorem la1_key (n : String) : lookupAct LambdaCall.pass1 3 n = .keyLoop := by
  simp [lookupAct, LambdaCall.pass1, List.find?]

theorem la1_optional : lookupAct LambdaCall.pass1 0 "&optional" = .setMode 1 := by decide
theorem la1_restMarker (m : Nat) (hm : m = 0 ∨ m = 1) : lookupAct LambdaCall.pass1 m "&rest" = .setMode 2 := by
  rcases hm with rfl | rfl <;> decide
theorem la1_bodyMarker (m : Nat) (hm : m = 0 ∨ m = 1) : lookupAct LambdaCall.pass1 m "&body" = .setMode 2 := by
  rcases hm with rfl | rfl <;> decide
theorem la1_keyMarker (m : Nat) (hm : m = 0 ∨ m = 1) : lookupAct LambdaCall.pass1 m "&key" = .setMode 3 := by
  rcases hm with rfl | rfl <;> decide
theorem la1_auxMarker (m : Nat) (hm : m = 0 ∨ m = 1) : lookupAct LambdaCall.pass1 m "&aux" = .stop := by
  rcases hm with rfl | rfl <;> decide

theorem la2_req (n : String) (h : Plain n) : lookupAct LambdaCall.pass2 0 n = .skip := by
  obtain ⟨h1, h2, h3, h4, h5, h6⟩ := plain_ne n h
  simp [lookupAct, LambdaCall.pass2, List.find?, h1, h2, h3, h4, h5, h6]

theorem la2_default (m : Nat) (hm : m = 1 ∨ m = 2 ∨ m = 3) (n : String) (h : Plain n) :
    lookupAct LambdaCall.pass2 m n = .bindDefault := by
  obtain ⟨h1, h2, h3, h4, h5, h6⟩ := plain_ne n h
  rcases hm with rfl | rfl | rfl <;>
    simp [lookupAct, LambdaCall.pass2, List.find?, h1, h2, h3, h4, h5, h6]

theorem la2_aux (n : String) : lookupAct LambdaCall.pass2 4 n = .bindAux := by
  simp [lookupAct, LambdaCall.pass2, List.find?]

theorem la2_optional : lookupAct LambdaCall.pass2 0 "&optional" = .setMode 1 := by decide
theorem la2_restMarker (m : Nat) (hm : m = 0 ∨ m = 1) : lookupAct LambdaCall.pass2 m "&rest" = .setMode 2 := by
  rcases hm with rfl | rfl <;> decide
theorem la2_keyMarker (m : Nat) (hm : m = 0 ∨ m = 1 ∨ m = 2) : lookupAct LambdaCall.pass2 m "&key" = .setMode 3 := by
  rcases hm with rfl | rfl | rfl <;> decide
theorem la2_auxMarker (m : Nat) (hm : m = 0 ∨ m = 1 ∨ m = 2 ∨ m = 3) : lookupAct LambdaCall.pass2 m "&aux" = .setMode 4 := by
  rcases hm with rfl | rfl | rfl | rfl <;> decide
theorem la2_aok : lookupAct LambdaCall.pass2 3 "&allow-other-keys" = .bindDefault := by decide


/-! ### first pass -/

theorem pass1_exhausted (doc : List DocArg) (args : List Obj) (ds : List DocArg) (m : Nat) (st : St)
    (h : args.length ≤ st.ai) : pass1 doc args ds m st = .ok st := by
  cases ds with
  | nil => rfl
  | cons ad ds => simp [pass1, LambdaCall.loopExit, Cmp.eval, h]

/-- positional parameters: one argument each while there are arguments -/
def bindPos (args : List Obj) : List DocArg → St → St
  | [], st => st
  | ad :: ds, st =>
    match args[st.ai]? with
    | some a => bindPos args ds { st with vars := letVar st.vars ad.name a, ai := st.ai + 1 }
    | none => st

theorem pass1_pos (doc : List DocArg) (args : List Obj) (ps : List DocArg) (hp : ∀ p ∈ ps, Plain p.name)
    (ds : List DocArg) (m : Nat) (hm : m = 0 ∨ m = 1) (st : St) :
    pass1 doc args (ps ++ ds) m st = pass1 doc args ds m (bindPos args ps st) := by
  induction ps generalizing st with
  | nil => rfl
  | cons p ps ih =>
    by_cases h : args.length ≤ st.ai
    · have hn : args[st.ai]? = none := List.getElem?_eq_none h
      rw [pass1_exhausted doc args _ m st h]
      simp only [bindPos, hn]
      rw [pass1_exhausted doc args _ m st h]
    · have hlt : st.ai < args.length := by omega
      have hs : args[st.ai]? = some args[st.ai] := List.getElem?_eq_getElem hlt
      simp only [List.cons_append, pass1, LambdaCall.loopExit, Cmp.eval, h, decide_false, Bool.false_eq_true,
        if_false, la1_pos m hm p.name (hp p (by simp)), hs, bindPos]
      exact ih (fun q hq => hp q (by simp [hq])) _

theorem pass1_setMode (doc : List DocArg) (args : List Obj) (ds : List DocArg) (m m' : Nat) (name : String)
    (st : St) (h : lookupAct LambdaCall.pass1 m name = .setMode m') :
    pass1 doc args (mk name :: ds) m st = pass1 doc args ds m' st := by
  by_cases he : args.length ≤ st.ai
  · rw [pass1_exhausted doc args _ m st he, pass1_exhausted doc args _ m' st he]
  · simp [pass1, LambdaCall.loopExit, Cmp.eval, he, mk, h]

theorem pass1_stop (doc : List DocArg) (args : List Obj) (ds : List DocArg) (m : Nat) (name : String)
    (st : St) (h : lookupAct LambdaCall.pass1 m name = .stop) :
    pass1 doc args (mk name :: ds) m st = .ok st := by
  by_cases he : args.length ≤ st.ai
  · rw [pass1_exhausted doc args _ m st he]
  · simp [pass1, LambdaCall.loopExit, Cmp.eval, he, mk, h]

/-! #### the &rest loop when no keyword can stop it -/

theorem restLoop_all (doc : List DocArg) (args : List Obj) (name : String) (m : Nat)
    (hk : ∀ k, LambdaCall.isKeyParam doc k = false) :
    ∀ (fuel : Nat) (st : St), args.length - st.ai < fuel → st.ai ≤ args.length →
      restLoop doc args name m fuel st =
        ({ ai := args.length, vars := st.vars, rest := st.rest ++ args.drop st.ai,
           restSym := if st.ai < args.length then (if st.restSym = "" then name else st.restSym) else st.restSym }, m) := by
  intro fuel
  induction fuel with
  | zero => intro st h; omega
  | succ fuel ih =>
    intro st hf hle
    by_cases hlt : st.ai < args.length
    · have hs : args[st.ai]? = some args[st.ai] := List.getElem?_eq_getElem hlt
      have hd : args.drop st.ai = args[st.ai] :: args.drop (st.ai + 1) := List.drop_eq_getElem_cons hlt
      have hrec := ih { st with ai := st.ai + 1, restSym := if st.restSym = "" then name else st.restSym,
                                rest := st.rest ++ [args[st.ai]] } (by simp only; omega) (by simp only; omega)
      have hsym : (if st.ai + 1 < args.length then
            (if (if st.restSym = "" then name else st.restSym) = "" then name else (if st.restSym = "" then name else st.restSym))
          else (if st.restSym = "" then name else st.restSym)) = (if st.restSym = "" then name else st.restSym) := by
        by_cases h0 : st.restSym = ""
        · simp only [h0, if_true]; split <;> (try rfl); split <;> rfl
        · simp [h0]
      simp only [hsym, List.append_assoc, List.singleton_append] at hrec
      simp only [restLoop, LambdaCall.restLoop, Cmp.eval, hlt, decide_true, if_true, hs, hd]
      generalize args[st.ai] = a at hrec ⊢
      cases a <;> simp [hk, hrec]
    · have : st.ai = args.length := by omega
      cases st with
      | mk ai vars rest restSym =>
        simp only at this
        subst this
        simp [restLoop, LambdaCall.restLoop, Cmp.eval]

theorem pass1_restVar (doc : List DocArg) (args : List Obj) (ds : List DocArg) (r : String) (st : St)
    (hk : ∀ k, LambdaCall.isKeyParam doc k = false) (hle : st.ai ≤ args.length) :
    pass1 doc args (mk r :: ds) 2 st =
      .ok { ai := args.length, vars := st.vars, rest := st.rest ++ args.drop st.ai,
            restSym := if st.ai < args.length then (if st.restSym = "" then r else st.restSym) else st.restSym } := by
  by_cases he : args.length ≤ st.ai
  · rw [pass1_exhausted doc args _ 2 st he]
    have : st.ai = args.length := by omega
    cases st with
    | mk ai vars rest restSym =>
      simp only at this
      subst this
      simp
  · simp only [pass1, LambdaCall.loopExit, Cmp.eval, he, decide_false, Bool.false_eq_true, if_false, mk, la1_rest]
    rw [restLoop_all doc args r 2 hk _ st (by omega) hle]
    exact pass1_exhausted doc args ds 2 _ (by simp)


/-! #### the &rest loop in general: it stops in front of the first keyword that names a key parameter -/

/-- does the &rest loop stop in front of this argument? -/
def stopAt (doc : List DocArg) : Obj → Bool
  | .kw k => LambdaCall.isKeyParam doc k
  | _ => false

theorem restLoop_split (doc : List DocArg) (args : List Obj) (name : String) (m : Nat) :
    ∀ (fuel : Nat) (st : St), args.length - st.ai < fuel → st.ai ≤ args.length →
      restLoop doc args name m fuel st =
        ({ ai := st.ai + ((args.drop st.ai).takeWhile (fun a => !stopAt doc a)).length, vars := st.vars,
           rest := st.rest ++ (args.drop st.ai).takeWhile (fun a => !stopAt doc a),
           restSym := if (args.drop st.ai).takeWhile (fun a => !stopAt doc a) = [] then st.restSym
                      else (if st.restSym = "" then name else st.restSym) },
         if ((args.drop st.ai).takeWhile (fun a => !stopAt doc a)).length = (args.drop st.ai).length then m else 3) := by
  intro fuel
  induction fuel with
  | zero => intro st h; omega
  | succ fuel ih =>
    intro st hf hle
    by_cases hlt : st.ai < args.length
    · have hs : args[st.ai]? = some args[st.ai] := List.getElem?_eq_getElem hlt
      have hd : args.drop st.ai = args[st.ai] :: args.drop (st.ai + 1) := List.drop_eq_getElem_cons hlt
      have hrec := ih { st with ai := st.ai + 1, restSym := if st.restSym = "" then name else st.restSym,
                                rest := st.rest ++ [args[st.ai]] } (by simp only; omega) (by simp only; omega)
      simp only at hrec
      have hsym : ∀ (b : List Obj), (if b = [] then (if st.restSym = "" then name else st.restSym)
          else (if (if st.restSym = "" then name else st.restSym) = "" then name else (if st.restSym = "" then name else st.restSym)))
            = (if st.restSym = "" then name else st.restSym) := by
        intro b
        by_cases h0 : st.restSym = ""
        · simp only [h0, if_true]; split <;> (try rfl); split <;> rfl
        · simp [h0]
      simp only [hsym] at hrec
      simp only [restLoop, LambdaCall.restLoop, Cmp.eval, hlt, decide_true, if_true, hs, hd]
      generalize args[st.ai] = a at hrec ⊢
      cases a with
      | kw k =>
        by_cases hk : LambdaCall.isKeyParam doc k = true
        · simp [stopAt, hk, List.takeWhile]
        · simp only [Bool.not_eq_true] at hk
          simp [stopAt, hk, List.takeWhile, hrec, Nat.add_assoc, Nat.add_comm 1]
      | nil => simp [stopAt, List.takeWhile, hrec, Nat.add_assoc, Nat.add_comm 1]
      | int i => simp [stopAt, List.takeWhile, hrec, Nat.add_assoc, Nat.add_comm 1]
      | sym x => simp [stopAt, List.takeWhile, hrec, Nat.add_assoc, Nat.add_comm 1]
      | str x => simp [stopAt, List.takeWhile, hrec, Nat.add_assoc, Nat.add_comm 1]
      | cons x y => simp [stopAt, List.takeWhile, hrec, Nat.add_assoc, Nat.add_comm 1]
    · have hd : args.drop st.ai = [] := List.drop_eq_nil_of_le (by omega)
      simp [restLoop, LambdaCall.restLoop, Cmp.eval, hlt, hd]

/-! #### the &key loop -/

/-- the &key loop as a function of the arguments that are left -/
def klSpec (doc : List DocArg) : List Obj → St → Except ImplErr St
  | [], st => .ok st
  | [.kw _], _ => .error .missingValue
  | [_], _ => .error .notKeyword
  | .kw k :: v :: rest, st =>
    klSpec doc rest { st with ai := st.ai + 2,
                              vars := if LambdaCall.isKeyParam doc k && !boundHere st.vars k then letVar st.vars k v else st.vars }
  | _ :: _ :: _, _ => .error .notKeyword

theorem keyLoop_eq (doc : List DocArg) (args : List Obj) :
    ∀ (fuel : Nat) (st : St), args.length - st.ai < fuel → st.ai ≤ args.length →
      keyLoop doc args fuel st = klSpec doc (args.drop st.ai) st := by
  intro fuel
  induction fuel with
  | zero => intro st h; omega
  | succ fuel ih =>
    intro st hf hle
    by_cases hlt : st.ai < args.length
    · have hs : args[st.ai]? = some args[st.ai] := List.getElem?_eq_getElem hlt
      have hd : args.drop st.ai = args[st.ai] :: args.drop (st.ai + 1) := List.drop_eq_getElem_cons hlt
      by_cases hlt2 : st.ai + 1 < args.length
      · have hs2 : args[st.ai + 1]? = some args[st.ai + 1] := List.getElem?_eq_getElem hlt2
        have hd2 : args.drop (st.ai + 1) = args[st.ai + 1] :: args.drop (st.ai + 2) := List.drop_eq_getElem_cons hlt2
        have hrec := fun v => ih { st with ai := st.ai + 2, vars := v } (by simp only; omega) (by simp only; omega)
        simp only at hrec
        have hmv : ¬ args.length ≤ st.ai + 1 := by omega
        simp only [keyLoop, LambdaCall.keyLoop, Cmp.eval, hlt, decide_true, if_true, hs, hd, hd2, hs2, hmv, decide_false]
        generalize args[st.ai] = a
        cases a <;> simp [klSpec, hrec]
      · have hd2 : args.drop (st.ai + 1) = [] := List.drop_eq_nil_of_le (by omega)
        have hmv : args.length ≤ st.ai + 1 := by omega
        simp only [keyLoop, LambdaCall.keyLoop, Cmp.eval, hlt, decide_true, if_true, hs, hd, hd2, hmv]
        generalize args[st.ai] = a
        cases a <;> simp [klSpec]
    · have hd : args.drop st.ai = [] := List.drop_eq_nil_of_le (by omega)
      simp [keyLoop, LambdaCall.keyLoop, Cmp.eval, hlt, hd, klSpec]

/-- key/value pairs onto the scope: a known key that is not bound yet -/
def bindPairs (doc : List DocArg) : List (String × Obj) → Vars → Vars
  | [], vs => vs
  | (k, v) :: ps, vs =>
    bindPairs doc ps (if LambdaCall.isKeyParam doc k && !boundHere vs k then letVar vs k v else vs)

/-- `flat` of Lemmas/Lambda.lean restated here to keep this file free of that import -/
def flatKV : List (String × Obj) → List Obj
  | [] => []
  | (k, v) :: ps => .kw k :: v :: flatKV ps

theorem klSpec_flat (doc : List DocArg) (ps : List (String × Obj)) (st : St) :
    klSpec doc (flatKV ps) st =
      .ok { st with ai := st.ai + 2 * ps.length, vars := bindPairs doc ps st.vars } := by
  induction ps generalizing st with
  | nil => simp [flatKV, klSpec, bindPairs]
  | cons p ps ih =>
    obtain ⟨k, v⟩ := p
    simp only [flatKV, klSpec, ih, bindPairs, List.length_cons]
    congr 2
    omega

theorem klSpec_err (doc : List DocArg) : ∀ (t : List Obj) (st : St) (e : BindErr), keyPairs t = .error e →
    ∃ e', klSpec doc t st = .error e' ∧ (e' = .missingValue ∨ e' = .notKeyword)
  | [], st, e, h => by simp [keyPairs] at h
  | [a], st, e, _ => by cases a <;> simp [klSpec]
  | a :: v :: rest, st, e, h => by
    cases a with
    | kw k =>
      simp only [keyPairs] at h
      cases hr : keyPairs rest with
      | ok ps => simp [hr] at h
      | error e2 =>
        simp only [klSpec]
        exact klSpec_err doc rest _ e2 hr
    | nil => simp [klSpec]
    | int i => simp [klSpec]
    | sym s => simp [klSpec]
    | str s => simp [klSpec]
    | cons x y => simp [klSpec]

theorem keyPairs_flatKV (t : List Obj) (ps : List (String × Obj)) (h : keyPairs t = .ok ps) : t = flatKV ps := by
  match t, ps, h with
  | [], ps, h => simp [keyPairs] at h; subst h; rfl
  | [a], ps, h => simp [keyPairs] at h
  | a :: v :: rest, ps, h =>
    cases a with
    | kw k =>
      simp only [keyPairs] at h
      cases hr : keyPairs rest with
      | error e => simp [hr] at h
      | ok qs =>
        simp [hr] at h
        subst h
        simp [flatKV, keyPairs_flatKV rest qs hr]
    | nil => simp [keyPairs] at h
    | int i => simp [keyPairs] at h
    | sym s => simp [keyPairs] at h
    | str s => simp [keyPairs] at h
    | cons x y => simp [keyPairs] at h

/-- the value of a name after the key loop: what it had, else — for a key parameter — the value of
    the first pair with that keyword -/
theorem getVar_bindPairs (doc : List DocArg) (ps : List (String × Obj)) (vs : Vars) (x : String) :
    getVar (bindPairs doc ps vs) x =
      match getVar vs x with
      | some v => some v
      | none => if LambdaCall.isKeyParam doc x then firstVal x ps else none := by
  induction ps generalizing vs with
  | nil => simp only [bindPairs, firstVal]; cases getVar vs x <;> simp
  | cons p ps ih =>
    obtain ⟨k, v⟩ := p
    simp only [bindPairs]
    rw [ih]
    by_cases hc : (LambdaCall.isKeyParam doc k && !boundHere vs k) = true
    · simp only [hc, if_true, getVar_letVar]
      simp only [Bool.and_eq_true, Bool.not_eq_true', boundHere_false_iff] at hc
      by_cases hkx : k = x
      · subst hkx
        simp [hc.1, hc.2, firstVal]
      · simp only [hkx, if_false, firstVal]
    · simp only [hc, Bool.false_eq_true, if_false]
      cases hg : getVar vs x with
      | some w => rfl
      | none =>
        simp only
        by_cases hkey : LambdaCall.isKeyParam doc x = true
        · simp only [hkey, if_true, firstVal]
          have : k ≠ x := by
            intro e; subst e
            apply hc
            simp [hkey, boundHere, hg]
          simp [this]
        · simp [hkey]

theorem pass1_keys (doc : List DocArg) (args : List Obj) (ad : DocArg) (ds : List DocArg) (st : St)
    (hle : st.ai ≤ args.length) :
    pass1 doc args (ad :: ds) 3 st =
      match klSpec doc (args.drop st.ai) st with
      | .ok st' => pass1 doc args ds 3 st'
      | .error e => .error e := by
  by_cases he : args.length ≤ st.ai
  · rw [pass1_exhausted doc args _ 3 st he]
    have : args.drop st.ai = [] := List.drop_eq_nil_of_le he
    simp only [this, klSpec]
    rw [pass1_exhausted doc args _ 3 st he]
  · simp only [pass1, LambdaCall.loopExit, Cmp.eval, he, decide_false, Bool.false_eq_true, if_false, la1_key]
    rw [keyLoop_eq doc args _ st (by omega) hle]
    cases klSpec doc (List.drop st.ai args) st <;> rfl


/-! ### second pass -/

def applyDefaults : List DocArg → Vars → Vars
  | [], vs => vs
  | ad :: ds, vs => applyDefaults ds (if boundHere vs ad.name then vs else letVar vs ad.name ad.default)

/-- `&aux` variables whose initial forms are constants -/
def applyAux : List DocArg → Vars → Vars
  | [], vs => vs
  | ad :: ds, vs => applyAux ds (letVar vs ad.name ad.default)

/-- a list with at least two elements: what Lambda.Call evaluates as an `&aux` initial form -/
def isForm : Obj → Bool
  | .cons _ (.cons _ _) => true
  | _ => false

theorem auxValue_const (vs : Vars) (d : Obj) (h : isForm d = false) : auxValue vs d = .ok d := by
  cases d with
  | cons a t =>
    cases t with
    | cons b u => simp [isForm] at h
    | nil => simp [auxValue, Obj.toList?, LambdaCall.auxEvalGuard, Cmp.eval]
    | int i => simp [auxValue, Obj.toList?]
    | sym x => simp [auxValue, Obj.toList?]
    | kw x => simp [auxValue, Obj.toList?]
    | str x => simp [auxValue, Obj.toList?]
  | nil => rfl
  | int i => rfl
  | sym x => rfl
  | kw x => rfl
  | str x => rfl

theorem pass2_skipReq (ps : List DocArg) (hp : ∀ p ∈ ps, Plain p.name) (ds : List DocArg) (vs : Vars) :
    pass2 (ps ++ ds) 0 vs = pass2 ds 0 vs := by
  induction ps with
  | nil => rfl
  | cons p ps ih =>
    simp only [List.cons_append, pass2, la2_req p.name (hp p (by simp))]
    exact ih (fun q hq => hp q (by simp [hq]))

theorem pass2_defaults (ps : List DocArg) (hp : ∀ p ∈ ps, Plain p.name) (ds : List DocArg) (m : Nat)
    (hm : m = 1 ∨ m = 2 ∨ m = 3) (vs : Vars) :
    pass2 (ps ++ ds) m vs = pass2 ds m (applyDefaults ps vs) := by
  induction ps generalizing vs with
  | nil => rfl
  | cons p ps ih =>
    simp only [List.cons_append, pass2, la2_default m hm p.name (hp p (by simp)), applyDefaults]
    exact ih (fun q hq => hp q (by simp [hq])) _

theorem pass2_setMode (name : String) (m m' : Nat) (ds : List DocArg) (vs : Vars)
    (h : lookupAct LambdaCall.pass2 m name = .setMode m') : pass2 (mk name :: ds) m vs = pass2 ds m' vs := by
  simp [pass2, mk, h]

theorem pass2_aok (ds : List DocArg) (vs : Vars) :
    pass2 (mk "&allow-other-keys" :: ds) 3 vs = pass2 ds 3 (applyDefaults [mk "&allow-other-keys"] vs) := by
  simp [pass2, mk, la2_aok, applyDefaults]

theorem pass2_aux (ps : List DocArg) (hc : ∀ p ∈ ps, isForm p.default = false) (vs : Vars) :
    pass2 ps 4 vs = .ok (applyAux ps vs) := by
  induction ps generalizing vs with
  | nil => rfl
  | cons p ps ih =>
    simp only [pass2, la2_aux, auxValue_const _ _ (hc p (by simp)), applyAux]
    exact ih (fun q hq => hc q (by simp [hq])) _

theorem getVar_applyDefaults (ps : List DocArg) (vs : Vars) (x : String) :
    getVar (applyDefaults ps vs) x =
      match getVar vs x with
      | some v => some v
      | none => (ps.find? (fun ad => ad.name = x)).map (·.default) := by
  induction ps generalizing vs with
  | nil => simp only [applyDefaults, List.find?_nil, Option.map_none]; cases getVar vs x <;> rfl
  | cons ad ds ih =>
    simp only [applyDefaults]
    rw [ih]
    by_cases hb : boundHere vs ad.name = true
    · simp only [hb, if_true]
      cases hg : getVar vs x with
      | some v => rfl
      | none =>
        have : ad.name ≠ x := by
          intro e; rw [e] at hb; simp [boundHere, hg] at hb
        simp [List.find?, this]
    · have hb' : getVar vs ad.name = none := (boundHere_false_iff _ _).mp (by simpa using hb)
      simp only [hb, Bool.false_eq_true, if_false, getVar_letVar]
      by_cases hx : ad.name = x
      · subst hx
        simp [hb', List.find?]
      · simp only [hx, if_false]
        cases getVar vs x with
        | some v => rfl
        | none => simp [List.find?, hx]

theorem getVar_applyAux_other (ps : List DocArg) (vs : Vars) (x : String) (h : ∀ p ∈ ps, p.name ≠ x) :
    getVar (applyAux ps vs) x = getVar vs x := by
  induction ps generalizing vs with
  | nil => rfl
  | cons p ps ih =>
    simp only [applyAux]
    rw [ih _ (fun q hq => h q (by simp [hq]))]
    simp [h p (by simp)]

theorem getVar_applyAux_mem (ps : List DocArg) (vs : Vars) (hnd : (ps.map (·.name)).Nodup) (p : DocArg) (hp : p ∈ ps) :
    getVar (applyAux ps vs) p.name = some p.default := by
  induction ps generalizing vs with
  | nil => cases hp
  | cons q ps ih =>
    simp only [List.map_cons, List.nodup_cons] at hnd
    simp only [applyAux]
    rcases List.mem_cons.mp hp with rfl | hm
    · rw [getVar_applyAux_other _ _ _ (fun r hr e => hnd.1 (List.mem_map.mpr ⟨r, hr, e⟩))]
      simp
    · exact ih _ hnd.2 hm

/-! ### the translated helper functions on a documented list -/

theorem plain_not_amp (n : String) (h : Plain n) :
    (decide (0 < n.length) && (byteAt n 0 == '&')) = false := by
  have := h.1
  simp [this]

theorem requiredCount_loop_plain (ps : List DocArg) (hp : ∀ p ∈ ps, Plain p.name) (ds : List DocArg) (c : Nat) :
    LambdaCall.requiredCount_loop (ps ++ ds) c = LambdaCall.requiredCount_loop ds (c + ps.length) := by
  induction ps generalizing c with
  | nil => rfl
  | cons p ps ih =>
    simp only [List.cons_append, LambdaCall.requiredCount_loop, plain_not_amp p.name (hp p (by simp)),
      Bool.false_eq_true, if_false, List.length_cons]
    rw [ih (fun q hq => hp q (by simp [hq]))]
    congr 1; omega

theorem eqFold_plain (n m : String) (hn : lowerS n = n) (hm : lowerS m = m) : eqFold n m = (n == m) := by
  simp [eqFold, hn, hm]

theorem eqFold_plain_key (n : String) (h : Plain n) : eqFold n "&key" = false ∧ eqFold n "&aux" = false := by
  obtain ⟨_, _, _, h4, h5, _⟩ := plain_ne n h
  constructor
  · rw [eqFold_plain n "&key" h.2 (by decide)]; simpa using h4
  · rw [eqFold_plain n "&aux" h.2 (by decide)]; simpa using h5

/-- without a `&key` marker no keyword is a key parameter -/
theorem isKeyParam_loop_noKey (x : String) (ds : List DocArg) (h : ∀ p ∈ ds, eqFold p.name "&key" = false) :
    LambdaCall.isKeyParam_loop x ds false = false := by
  induction ds with
  | nil => rfl
  | cons p ds ih =>
    simp only [LambdaCall.isKeyParam_loop, h p (by simp), Bool.false_eq_true, if_false, Bool.false_and]
    split <;> exact ih (fun q hq => h q (by simp [hq]))

theorem isKeyParam_loop_skip (x : String) (ps : List DocArg)
    (h : ∀ p ∈ ps, eqFold p.name "&key" = false ∧ eqFold p.name "&aux" = false) (ds : List DocArg) :
    LambdaCall.isKeyParam_loop x (ps ++ ds) false = LambdaCall.isKeyParam_loop x ds false := by
  induction ps with
  | nil => rfl
  | cons p ps ih =>
    simp only [List.cons_append, LambdaCall.isKeyParam_loop, (h p (by simp)).1, (h p (by simp)).2,
      Bool.false_eq_true, if_false, Bool.false_and]
    exact ih (fun q hq => h q (by simp [hq]))

theorem isKeyParam_loop_inKeys (x : String) (ps : List DocArg)
    (h : ∀ p ∈ ps, eqFold p.name "&key" = false ∧ eqFold p.name "&aux" = false) (ds : List DocArg) :
    LambdaCall.isKeyParam_loop x (ps ++ ds) true =
      (ps.any (fun p => eqFold p.name x) || LambdaCall.isKeyParam_loop x ds true) := by
  induction ps with
  | nil => simp
  | cons p ps ih =>
    simp only [List.cons_append, LambdaCall.isKeyParam_loop, (h p (by simp)).1, (h p (by simp)).2,
      Bool.false_eq_true, if_false, Bool.true_and, List.any_cons]
    by_cases hx : eqFold p.name x = true
    · simp [hx]
    · simp only [hx, if_false, Bool.false_eq_true]
      rw [ih (fun q hq => h q (by simp [hq]))]
      simp [hx]

end SlipVerif.Lemmas.LambdaImpl
