import SlipVerif.Model.JsonLisp
/-
  Helper lemmas for Theorems/C18: the native round trip and the Go bridge.
-/
namespace SlipVerif.Json
open J

theorem upsert_not_mem (k : String) (v : J) (acc : Members) (h : k ∉ keys acc) :
    upsert k v acc = acc ++ [(k, v)] := by
  induction acc with
  | nil => simp [upsert]
  | cons kv rest ih =>
    obtain ⟨k', v'⟩ := kv
    simp only [keys, List.map_cons, List.mem_cons, not_or] at h
    have hne : ¬ k' = k := fun e => h.1 e.symm
    simp [upsert, hne, ih (by simpa [keys] using h.2)]

theorem distinctKeys_cons (k : String) (ks : List String) :
    distinctKeys (k :: ks) = true ↔ k ∉ ks ∧ distinctKeys ks = true := by
  simp [distinctKeys]

theorem foldl_upsert_distinct (m acc : Members)
    (hd : distinctKeys (keys m) = true) (hdis : ∀ k ∈ keys m, k ∉ keys acc) :
    m.foldl (fun acc kv => upsert kv.1 kv.2 acc) acc = acc ++ m := by
  induction m generalizing acc with
  | nil => simp
  | cons kv rest ih =>
    obtain ⟨k, v⟩ := kv
    have hd' : k ∉ keys rest ∧ distinctKeys (keys rest) = true := by
      have := (distinctKeys_cons k (keys rest)).mp (by simpa [keys] using hd)
      exact this
    simp only [List.foldl_cons]
    rw [upsert_not_mem k v acc (hdis k (by simp [keys]))]
    rw [ih (acc ++ [(k, v)]) hd'.2]
    · simp
    · intro k' hk'
      have h1 : k' ∉ keys acc := hdis k' (by simp only [keys, List.map_cons, List.mem_cons]; exact Or.inr hk')
      have hne : k' ≠ k := by
        intro e; subst e; exact hd'.1 hk'
      simp only [keys, List.map_append, List.map_cons, List.map_nil, List.mem_append, List.mem_singleton, not_or]
      exact ⟨h1, hne⟩

theorem mkMembers_of_distinct (m : Members) (hd : distinctKeys (keys m) = true) : mkMembers m = m := by
  unfold mkMembers
  rw [foldl_upsert_distinct m [] hd (by intro k _; simp [keys])]
  simp

end SlipVerif.Json

namespace SlipVerif.Json
open J

/-- `bag-native` never produces a bare tail -/
theorem toLisp_ne_tail (j : J) : ∀ v, toLisp j ≠ .tail v := by
  intro v
  cases j with
  | bool b => cases b <;> simp [toLisp]
  | _ => simp [toLisp]

/-- what `bag-native` produces is never taken for a dotted pair -/
theorem isPair_toLisp (j : J) : isPair (toLisp j) = false := by
  cases j with
  | bool b => cases b <;> simp [toLisp, isPair]
  | arr xs =>
    match xs with
    | [] => simp [toLisp, toLispL, isPair]
    | [_] => simp [toLisp, toLispL, isPair]
    | [_, b] =>
      simp only [toLisp, toLispL]
      cases hb : toLisp b <;> simp [isPair]
      exact toLisp_ne_tail b _ hb
    | _ :: _ :: _ :: _ => simp [toLisp, toLispL, isPair]
  | obj kvs =>
    match kvs with
    | [] => simp [toLisp, toLispM, isPair]
    | [_] => simp [toLisp, toLispM, isPair]
    | [_, (_, _)] => simp [toLisp, toLispM, isPair]
    | _ :: _ :: _ :: _ => simp [toLisp, toLispM, isPair]
  | _ => simp [toLisp, isPair]

theorem keys_cons (k : String) (v : J) (kvs : Members) : keys ((k, v) :: kvs) = k :: keys kvs := rfl

mutual
theorem ofLisp_toLisp : (j : J) → Faithful j = true → ofLisp (toLisp j) = .ok j
  | .null, _ => by simp [toLisp, ofLisp]
  | .bool true, _ => by simp [toLisp, ofLisp]
  | .bool false, h => by simp [Faithful] at h
  | .int i, _ => by simp [toLisp, ofLisp]
  | .flo t, _ => by simp [toLisp, ofLisp]
  | .str s, _ => by simp [toLisp, ofLisp]
  | .arr [], h => by simp [Faithful] at h
  | .arr (x :: xs), h => by
      simp only [Faithful, Bool.and_eq_true] at h
      have hL : ofLispL (toLispL (x :: xs)) = .ok (x :: xs) := ofLispL_toLispL (x :: xs) (by simp [FaithfulL, h.1, h.2])
      simp only [toLispL] at hL
      simp [toLisp, toLispL, ofLisp, isPair_toLisp x, hL, bind, Except.bind]
  | .obj [], h => by simp [Faithful] at h
  | .obj ((k, v) :: kvs), h => by
      simp only [Faithful, Bool.and_eq_true] at h
      have hA : ofLispA (toLispM ((k, v) :: kvs)) = .ok ((k, v) :: kvs) := ofLispA_toLispM ((k, v) :: kvs) (by simp [FaithfulM, h.1.1, h.1.2])
      simp only [toLispM] at hA
      have hm : mkMembers ((k, v) :: kvs) = (k, v) :: kvs := mkMembers_of_distinct _ (by rw [keys_cons]; exact h.2)
      simp [toLisp, toLispM, ofLisp, isPair, hA, hm, bind, Except.bind]
theorem ofLispL_toLispL : (xs : List J) → FaithfulL xs = true → ofLispL (toLispL xs) = .ok xs
  | [], _ => by simp [toLispL, ofLispL]
  | x :: xs, h => by
      simp only [FaithfulL, Bool.and_eq_true] at h
      simp [toLispL, ofLispL, ofLisp_toLisp x h.1, ofLispL_toLispL xs h.2, bind, Except.bind]
theorem ofLispA_toLispM : (kvs : Members) → FaithfulM kvs = true → ofLispA (toLispM kvs) = .ok kvs
  | [], _ => by simp [toLispM, ofLispA]
  | (k, v) :: kvs, h => by
      simp only [FaithfulM, Bool.and_eq_true] at h
      simp [toLispM, ofLispA, ofLisp_toLisp v h.1, ofLispA_toLispM kvs h.2, bind, Except.bind]
end

end SlipVerif.Json

namespace SlipVerif.Json

mutual
theorem simplify_simpleObject : (g : G) → GFaithful g = true → simplify (simpleObject g) = widen g
  | .nil, _ => by simp [simpleObject, simplify, widen]
  | .bool true, _ => by simp [simpleObject, simplify, widen]
  | .bool false, h => by simp [GFaithful] at h
  | .int w v, h => by
      simp only [GFaithful] at h
      simp [simpleObject, simplify, widen, h]
  | .uint w v, h => by
      simp only [GFaithful] at h
      by_cases h8 : w = 8
      · simp [simpleObject, simplify, widen, h8]
      · simp [simpleObject, simplify, widen, h8, h]
  | .f32 t, _ => by simp [simpleObject, simplify, widen]
  | .f64 t, _ => by simp [simpleObject, simplify, widen]
  | .str s, _ => by simp [simpleObject, simplify, widen]
  | .time t, _ => by simp [simpleObject, simplify, widen]
  | .slice xs, h => by
      simp only [GFaithful] at h
      simp [simpleObject, simplify, widen, simplifyL_simpleObjectL xs h]
  | .map kvs, h => by simp [GFaithful] at h
theorem simplifyL_simpleObjectL : (xs : List G) → GFaithfulL xs = true → simplifyL (simpleObjectL xs) = widenL xs
  | [], _ => by simp [simpleObjectL, simplifyL, widenL]
  | x :: xs, h => by
      simp only [GFaithfulL, Bool.and_eq_true] at h
      simp [simpleObjectL, simplifyL, widenL, simplify_simpleObject x h.1, simplifyL_simpleObjectL xs h.2]
end

end SlipVerif.Json
