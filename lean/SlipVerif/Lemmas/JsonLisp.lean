import SlipVerif.Model.JsonLisp
/-
  Helper lemmas for Theorems/C18: the native round trip and the Go bridge.
-/
namespace SlipVerif.Json
open J

theorem upsert_not_mem (k : String) (v : J) (acc : Members) (h : k ∉ keys acc) :
    upsert k v acc = acc ++ [(k, v)] := by
  induction acc with
  | nil => simp [upsert]
  | cons kv rest ih =>
    obtain ⟨k', v'⟩ := kv
    simp only [keys, List.map_cons, List.mem_cons, not_or] at h
    have hne : ¬ k' = k := fun e => h.1 e.symm
    simp [upsert, hne, ih (by simpa [keys] using h.2)]

theorem distinctKeys_cons (k : String) (ks : List String) :
    distinctKeys (k :: ks) = true ↔ k ∉ ks ∧ distinctKeys ks = true := by
  simp [distinctKeys]

theorem foldl_upsert_distinct (m acc : Members)
    (hd : distinctKeys (keys m) = true) (hdis : ∀ k ∈ keys m, k ∉ keys acc) :
    m.foldl (fun acc kv => upsert kv.1 kv.2 acc) acc = acc ++ m := by
  induction m generalizing acc with
  | nil => simp
  | cons kv rest ih =>
    obtain ⟨k, v⟩ := kv
    have hd' : k ∉ keys rest ∧ distinctKeys (keys rest) = true := by
      have := (distinctKeys_cons k (keys rest)).mp (by simpa [keys] using hd)
      exact this
    simp only [List.foldl_cons]
    rw [upsert_not_mem k v acc (hdis k (by simp [keys]))]
    rw [ih (acc ++ [(k, v)]) hd'.2]
    · simp
    · intro k' hk'
      have h1 : k' ∉ keys acc := hdis k' (by simp only [keys, List.map_cons, List.mem_cons]; exact Or.inr hk')
      have hne : k' ≠ k := by
        intro e; subst e; exact hd'.1 hk'
      simp only [keys, List.map_append, List.map_cons, List.map_nil, List.mem_append, List.mem_singleton, not_or]
      exact ⟨h1, hne⟩

theorem mkMembers_of_distinct (m : Members) (hd : distinctKeys (keys m) = true) : mkMembers m = m := by
  unfold mkMembers
  rw [foldl_upsert_distinct m [] hd (by intro k _; simp [keys])]
  simp

end SlipVerif.Json

namespace SlipVerif.Json
open J

/-- `bag-native` never produces a bare tail -/
theorem toLisp_ne_tail (j : J) : ∀ v, toLisp j ≠ .tail v := by
  intro v
  cases j with
  | bool b => cases b <;> simp [toLisp]
  | _ => simp [toLisp]

/-- what `bag-native` produces is never taken for a dotted pair -/
theorem isPair_toLisp (j : J) : isPair (toLisp j) = false := by
  cases j with
  | bool b => cases b <;> simp [toLisp, isPair]
  | arr xs =>
    match xs with
    | [] => simp [toLisp, toLispL, isPair]
    | [_] => simp [toLisp, toLispL, isPair]
    | [_, b] =>
      simp only [toLisp, toLispL]
      cases hb : toLisp b <;> simp [isPair]
      exact toLisp_ne_tail b _ hb
    | _ :: _ :: _ :: _ => simp [toLisp, toLispL, isPair]
  | obj kvs =>
    match kvs with
    | [] => simp [toLisp, toLispM, isPair]
    | [_] => simp [toLisp, toLispM, isPair]
    | [_, (_, _)] => simp [toLisp, toLispM, isPair]
    | _ :: _ :: _ :: _ => simp [toLisp, toLispM, isPair]
  | _ => simp [toLisp, isPair]

theorem keys_cons (k : String) (v : J) (kvs : Members) : keys ((k, v) :: kvs) = k :: keys kvs := rfl

mutual
theorem ofLisp_toLisp : (j : J) → Faithful j = true → ofLisp (toLisp j) = .ok j
  | .null, _ => by simp [toLisp, ofLisp]
  | .bool true, _ => by simp [toLisp, ofLisp]
  | .bool false, h => by simp [Faithful] at h
  | .int i, _ => by simp [toLisp, ofLisp]
  | .flo t, _ => by simp [toLisp, ofLisp]
  | .str s, _ => by simp [toLisp, ofLisp]
  | .time t, _ => by simp [toLisp, ofLisp]
  | .arr [], h => by simp [Faithful] at h
  | .arr (x :: xs), h => by
      simp only [Faithful, Bool.and_eq_true] at h
      have hL : ofLispL (toLispL (x :: xs)) = .ok (x :: xs) := ofLispL_toLispL (x :: xs) (by simp [FaithfulL, h.1, h.2])
      simp only [toLispL] at hL
      simp [toLisp, toLispL, ofLisp, isPair_toLisp x, hL, bind, Except.bind]
  | .obj [], h => by simp [Faithful] at h
  | .obj ((k, v) :: kvs), h => by
      simp only [Faithful, Bool.and_eq_true] at h
      have hA : ofLispA (toLispM ((k, v) :: kvs)) = .ok ((k, v) :: kvs) := ofLispA_toLispM ((k, v) :: kvs) (by simp [FaithfulM, h.1.1, h.1.2])
      simp only [toLispM] at hA
      have hm : mkMembers ((k, v) :: kvs) = (k, v) :: kvs := mkMembers_of_distinct _ (by rw [keys_cons]; exact h.2)
      simp [toLisp, toLispM, ofLisp, isPair, hA, hm, bind, Except.bind]
theorem ofLispL_toLispL : (xs : List J) → FaithfulL xs = true → ofLispL (toLispL xs) = .ok xs
  | [], _ => by simp [toLispL, ofLispL]
  | x :: xs, h => by
      simp only [FaithfulL, Bool.and_eq_true] at h
      simp [toLispL, ofLispL, ofLisp_toLisp x h.1, ofLispL_toLispL xs h.2, bind, Except.bind]
theorem ofLispA_toLispM : (kvs : Members) → FaithfulM kvs = true → ofLispA (toLispM kvs) = .ok kvs
  | [], _ => by simp [toLispM, ofLispA]
  | (k, v) :: kvs, h => by
      simp only [FaithfulM, Bool.and_eq_true] at h
      simp [toLispM, ofLispA, ofLisp_toLisp v h.1, ofLispA_toLispM kvs h.2, bind, Except.bind]
end

end SlipVerif.Json

namespace SlipVerif.Json

mutual
theorem simplify_simpleObject : (g : G) → GFaithful g = true → simplify (simpleObject g) = widen g
  | .nil, _ => by simp [simpleObject, simplify, widen]
  | .bool true, _ => by simp [simpleObject, simplify, widen]
  | .bool false, h => by simp [GFaithful] at h
  | .int w v, h => by
      simp only [GFaithful] at h
      simp [simpleObject, simplify, widen, h]
  | .uint w v, h => by
      simp only [GFaithful] at h
      by_cases h8 : w = 8
      · simp [simpleObject, simplify, widen, h8]
      · simp [simpleObject, simplify, widen, h8, h]
  | .f32 t, _ => by simp [simpleObject, simplify, widen]
  | .f64 t, _ => by simp [simpleObject, simplify, widen]
  | .str s, _ => by simp [simpleObject, simplify, widen]
  | .time t, _ => by simp [simpleObject, simplify, widen]
  | .slice xs, h => by
      simp only [GFaithful] at h
      simp [simpleObject, simplify, widen, simplifyL_simpleObjectL xs h]
  | .map kvs, h => by simp [GFaithful] at h
theorem simplifyL_simpleObjectL : (xs : List G) → GFaithfulL xs = true → simplifyL (simpleObjectL xs) = widenL xs
  | [], _ => by simp [simpleObjectL, simplifyL, widenL]
  | x :: xs, h => by
      simp only [GFaithfulL, Bool.and_eq_true] at h
      simp [simpleObjectL, simplifyL, widenL, simplify_simpleObject x h.1, simplifyL_simpleObjectL xs h.2]
end

end SlipVerif.Json

namespace SlipVerif.Json
open J

/-! ### the guard of the native round trip is exact -/


mutual
/-- object keys are unique at every level (what a parsed document satisfies) -/
def KeysDistinct : J → Bool
  | arr xs => KeysDistinctL xs
  | obj kvs => KeysDistinctM kvs && distinctKeys (keys kvs)
  | _ => true
def KeysDistinctL : List J → Bool
  | [] => true
  | x :: xs => KeysDistinct x && KeysDistinctL xs
def KeysDistinctM : Members → Bool
  | [] => true
  | (_, v) :: kvs => KeysDistinct v && KeysDistinctM kvs
end

theorem ofLispA_keys : (kvs : Members) → (out : Members) → ofLispA (toLispM kvs) = .ok out → keys out = keys kvs
  | [], out, h => by simp [toLispM, ofLispA] at h; subst h; rfl
  | (k, v) :: kvs, out, h => by
      simp only [toLispM, ofLispA] at h
      cases hv : ofLisp (toLisp v) with
      | error e => simp [hv, bind, Except.bind] at h
      | ok v' =>
        cases hr : ofLispA (toLispM kvs) with
        | error e => simp [hv, hr, bind, Except.bind] at h
        | ok out' =>
          simp [hv, hr, bind, Except.bind] at h
          subst h
          simp [keys_cons, ofLispA_keys kvs out' hr]

mutual
theorem faithful_of_roundtrip : (j : J) → KeysDistinct j = true → ofLisp (toLisp j) = .ok j → Faithful j = true
  | .null, _, _ => rfl
  | .bool true, _, _ => rfl
  | .bool false, _, h => by simp [toLisp, ofLisp] at h
  | .int _, _, _ => rfl
  | .flo _, _, _ => rfl
  | .str _, _, _ => rfl
  | .time _, _, _ => rfl
  | .arr [], _, h => by simp [toLisp, toLispL, ofLisp] at h
  | .arr (x :: xs), hk, h => by
      simp only [KeysDistinct] at hk
      simp only [toLisp, toLispL, ofLisp, isPair_toLisp x] at h
      have hL : ofLispL (toLispL (x :: xs)) = .ok (x :: xs) := by
        simp only [toLispL]
        cases hr : ofLispL (toLisp x :: toLispL xs) with
        | error e => simp [hr, bind, Except.bind] at h
        | ok ys => simp [hr, bind, Except.bind] at h; rw [h]
      have := faithfulL_of_roundtrip (x :: xs) hk hL
      simp only [FaithfulL, Bool.and_eq_true] at this
      simp [Faithful, this.1, this.2]
  | .obj [], _, h => by simp [toLisp, toLispM, ofLisp] at h
  | .obj ((k, v) :: kvs), hk, h => by
      simp only [KeysDistinct, Bool.and_eq_true] at hk
      simp only [toLisp, toLispM, ofLisp, isPair] at h
      cases hr : ofLispA (toLispM ((k, v) :: kvs)) with
      | error e => simp only [toLispM] at hr; simp [hr, bind, Except.bind] at h
      | ok out =>
        have hkeys := ofLispA_keys _ _ hr
        have hmk : mkMembers out = out := mkMembers_of_distinct out (by rw [hkeys]; exact hk.2)
        have hr' := hr
        simp only [toLispM] at hr'
        simp [hr', bind, Except.bind, hmk] at h
        subst h
        have := faithfulM_of_roundtrip ((k, v) :: kvs) hk.1 hr
        simp only [FaithfulM, Bool.and_eq_true] at this
        have hd : distinctKeys (k :: keys kvs) = true := by rw [← keys_cons k v kvs]; exact hk.2
        simp [Faithful, this.1, this.2, hd]
theorem faithfulL_of_roundtrip : (xs : List J) → KeysDistinctL xs = true → ofLispL (toLispL xs) = .ok xs → FaithfulL xs = true
  | [], _, _ => rfl
  | x :: xs, hk, h => by
      simp only [KeysDistinctL, Bool.and_eq_true] at hk
      simp only [toLispL, ofLispL] at h
      cases hx : ofLisp (toLisp x) with
      | error e => simp [hx, bind, Except.bind] at h
      | ok x' =>
        cases hr : ofLispL (toLispL xs) with
        | error e => simp [hx, hr, bind, Except.bind] at h
        | ok xs' =>
          simp [hx, hr, bind, Except.bind] at h
          obtain ⟨rfl, rfl⟩ := h
          simp [FaithfulL, faithful_of_roundtrip x' hk.1 hx, faithfulL_of_roundtrip xs' hk.2 hr]
theorem faithfulM_of_roundtrip : (kvs : Members) → KeysDistinctM kvs = true → ofLispA (toLispM kvs) = .ok kvs → FaithfulM kvs = true
  | [], _, _ => rfl
  | (k, v) :: kvs, hk, h => by
      simp only [KeysDistinctM, Bool.and_eq_true] at hk
      simp only [toLispM, ofLispA] at h
      cases hx : ofLisp (toLisp v) with
      | error e => simp [hx, bind, Except.bind] at h
      | ok v' =>
        cases hr : ofLispA (toLispM kvs) with
        | error e => simp [hx, hr, bind, Except.bind] at h
        | ok kvs' =>
          simp [hx, hr, bind, Except.bind] at h
          obtain ⟨rfl, rfl⟩ := h
          simp [FaithfulM, faithful_of_roundtrip v' hk.1 hx, faithfulM_of_roundtrip kvs' hk.2 hr]
end


end SlipVerif.Json

namespace SlipVerif.Json
open J

/-! ### plain Go data into a bag -/

theorem simpleObject_ne_tail (g : G) : ∀ v, simpleObject g ≠ .tail v := by
  intro v
  cases g with
  | bool b => cases b <;> simp [simpleObject]
  | uint w n => by_cases h : w = 8 <;> simp [simpleObject, h]
  | _ => simp [simpleObject]

theorem isPair_simpleObject (g : G) : isPair (simpleObject g) = false := by
  cases g with
  | bool b => cases b <;> simp [simpleObject, isPair]
  | uint w n => by_cases h : w = 8 <;> simp [simpleObject, isPair, h]
  | slice xs =>
    match xs with
    | [] => simp [simpleObject, simpleObjectL, isPair]
    | [_] => simp [simpleObject, simpleObjectL, isPair]
    | [_, b] =>
      simp only [simpleObject, simpleObjectL]
      cases hb : simpleObject b <;> simp [isPair]
      exact simpleObject_ne_tail b _ hb
    | _ :: _ :: _ :: _ => simp [simpleObject, simpleObjectL, isPair]
  | map kvs =>
    match kvs with
    | [] => simp [simpleObject, simpleObjectM, isPair]
    | [_] => simp [simpleObject, simpleObjectM, isPair]
    | [_, (_, _)] => simp [simpleObject, simpleObjectM, isPair]
    | _ :: _ :: _ :: _ => simp [simpleObject, simpleObjectM, isPair]
  | _ => simp [simpleObject, isPair]

theorem keys_gToJM (kvs : List (String × G)) : keys (gToJM kvs) = kvs.map (·.1) := by
  induction kvs with
  | nil => rfl
  | cons kv rest ih => obtain ⟨k, v⟩ := kv; simp [gToJM, keys] at ih ⊢; exact ih

mutual
theorem ofLisp_simpleObject : (g : G) → GBag g = true → ofLisp (simpleObject g) = .ok (gToJ g)
  | .nil, _ => by simp [simpleObject, ofLisp, gToJ]
  | .bool true, _ => by simp [simpleObject, ofLisp, gToJ]
  | .bool false, h => by simp [GBag] at h
  | .int w v, _ => by simp [simpleObject, ofLisp, gToJ]
  | .uint w v, _ => by by_cases h8 : w = 8 <;> simp [simpleObject, ofLisp, gToJ, h8]
  | .f32 t, _ => by simp [simpleObject, ofLisp, gToJ]
  | .f64 t, _ => by simp [simpleObject, ofLisp, gToJ]
  | .str s, _ => by simp [simpleObject, ofLisp, gToJ]
  | .time t, _ => by simp [simpleObject, ofLisp, gToJ]
  | .slice [], h => by simp [GBag] at h
  | .slice (x :: xs), h => by
      simp only [GBag, Bool.and_eq_true] at h
      have hL : ofLispL (simpleObjectL (x :: xs)) = .ok (gToJL (x :: xs)) := ofLispL_simpleObjectL (x :: xs) (by simp [GBagL, h.1, h.2])
      simp only [simpleObjectL] at hL
      simp [simpleObject, simpleObjectL, ofLisp, isPair_simpleObject x, hL, gToJ, bind, Except.bind]
  | .map [], h => by simp [GBag] at h
  | .map ((k, v) :: kvs), h => by
      simp only [GBag, Bool.and_eq_true] at h
      have hA : ofLispA (simpleObjectM ((k, v) :: kvs)) = .ok (gToJM ((k, v) :: kvs)) :=
        ofLispA_simpleObjectM ((k, v) :: kvs) (by simp [GBagM, h.1.1, h.1.2])
      simp only [simpleObjectM] at hA
      have hm : mkMembers (gToJM ((k, v) :: kvs)) = gToJM ((k, v) :: kvs) :=
        mkMembers_of_distinct _ (by rw [keys_gToJM]; exact h.2)
      simp [simpleObject, simpleObjectM, ofLisp, isPair, hA, hm, gToJ, bind, Except.bind]
theorem ofLispL_simpleObjectL : (xs : List G) → GBagL xs = true → ofLispL (simpleObjectL xs) = .ok (gToJL xs)
  | [], _ => by simp [simpleObjectL, ofLispL, gToJL]
  | x :: xs, h => by
      simp only [GBagL, Bool.and_eq_true] at h
      simp [simpleObjectL, ofLispL, gToJL, ofLisp_simpleObject x h.1, ofLispL_simpleObjectL xs h.2, bind, Except.bind]
theorem ofLispA_simpleObjectM : (kvs : List (String × G)) → GBagM kvs = true → ofLispA (simpleObjectM kvs) = .ok (gToJM kvs)
  | [], _ => by simp [simpleObjectM, ofLispA, gToJM]
  | (k, v) :: kvs, h => by
      simp only [GBagM, Bool.and_eq_true] at h
      simp [simpleObjectM, ofLispA, gToJM, ofLisp_simpleObject v h.1, ofLispA_simpleObjectM kvs h.2, bind, Except.bind]
end

end SlipVerif.Json
