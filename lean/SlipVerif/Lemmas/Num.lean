import SlipVerif.Model.Num
import Mathlib.Tactic.Linarith
import Mathlib.Tactic.Ring
import Mathlib.Algebra.BigOperators.Group.List.Basic
import Mathlib.Algebra.Order.Ring.Rat
/-
  Helper lemmas for the C05 theorems (not property statements): the fold invariants behind the
  n-ary operators and the facts about Go's truncated division used by the Impl layer.
-/
namespace SlipVerif.Num

theorem foldl_add_eq (xs : List Rat) (acc : Rat) : xs.foldl add acc = acc + xs.sum := by
  induction xs generalizing acc with
  | nil => simp
  | cons x xs ih => simp only [List.foldl, List.sum_cons, ih, add]; ring

theorem foldl_mul_eq (xs : List Rat) (acc : Rat) : xs.foldl mul acc = acc * xs.prod := by
  induction xs generalizing acc with
  | nil => simp
  | cons x xs ih => simp only [List.foldl, List.prod_cons, ih, mul]; ring

theorem foldl_sub_eq (xs : List Rat) (acc : Rat) : xs.foldl sub acc = acc - xs.sum := by
  induction xs generalizing acc with
  | nil => simp
  | cons x xs ih => simp only [List.foldl, List.sum_cons, ih, sub]; ring

theorem foldl_gcd_spec (xs : List Int) (g : Int) :
    let r := xs.foldl (fun g x => (Int.gcd g x : Int)) g
    (xs ≠ [] → 0 ≤ r) ∧ r ∣ g ∧ (∀ x ∈ xs, r ∣ x) ∧ ∀ c : Int, c ∣ g → (∀ x ∈ xs, c ∣ x) → c ∣ r := by
  induction xs generalizing g with
  | nil => simp
  | cons x xs ih =>
    simp only [List.foldl]
    obtain ⟨_, h2, h3, h4⟩ := ih (Int.gcd g x : Int)
    refine ⟨fun _ => ?_, ?_, ?_, ?_⟩
    · cases xs with
      | nil => simp
      | cons y ys => exact (ih (Int.gcd g x : Int)).1 (by simp)
    · exact dvd_trans h2 (Int.gcd_dvd_left g x)
    · intro y hy
      rcases List.mem_cons.mp hy with rfl | hy
      · exact dvd_trans h2 (Int.gcd_dvd_right g y)
      · exact h3 y hy
    · intro c hc hall
      exact h4 c (Int.dvd_coe_gcd hc (hall x (by simp))) (fun y hy => hall y (by simp [hy]))

theorem foldl_lcm_spec (xs : List Int) (l : Int) :
    let r := xs.foldl (fun l x => (Int.lcm l x : Int)) l
    (xs ≠ [] → 0 ≤ r) ∧ l ∣ r ∧ (∀ x ∈ xs, x ∣ r) ∧ ∀ c : Int, l ∣ c → (∀ x ∈ xs, x ∣ c) → r ∣ c := by
  induction xs generalizing l with
  | nil => simp
  | cons x xs ih =>
    simp only [List.foldl]
    obtain ⟨_, h2, h3, h4⟩ := ih (Int.lcm l x : Int)
    refine ⟨fun _ => ?_, ?_, ?_, ?_⟩
    · cases xs with
      | nil => simp
      | cons y ys => exact (ih (Int.lcm l x : Int)).1 (by simp)
    · exact dvd_trans (Int.dvd_lcm_left l x) h2
    · intro y hy
      rcases List.mem_cons.mp hy with rfl | hy
      · exact dvd_trans (Int.dvd_lcm_right l y) h2
      · exact h3 y hy
    · intro c hc hall
      exact h4 c (Int.coe_lcm_dvd hc (hall x (by simp))) (fun y hy => hall y (by simp [hy]))

theorem foldl_min_spec (xs : List Rat) (m : Rat) :
    let r := xs.foldl (fun m x => if x < m then x else m) m
    (r = m ∨ r ∈ xs) ∧ r ≤ m ∧ ∀ x ∈ xs, r ≤ x := by
  induction xs generalizing m with
  | nil => simp
  | cons x xs ih =>
    simp only [List.foldl]
    by_cases hx : x < m
    · simp only [hx, if_true]
      obtain ⟨h1, h2, h3⟩ := ih x
      refine ⟨?_, le_trans h2 (le_of_lt hx), ?_⟩
      · rcases h1 with h | h
        · right; rw [h]; simp
        · right; exact List.mem_cons_of_mem _ h
      · intro y hy
        rcases List.mem_cons.mp hy with rfl | hy
        · exact h2
        · exact h3 y hy
    · simp only [hx, if_false]
      obtain ⟨h1, h2, h3⟩ := ih m
      refine ⟨?_, h2, ?_⟩
      · rcases h1 with h | h
        · left; exact h
        · right; exact List.mem_cons_of_mem _ h
      · intro y hy
        rcases List.mem_cons.mp hy with rfl | hy
        · exact le_trans h2 (not_lt.mp hx)
        · exact h3 y hy

theorem foldl_max_spec (xs : List Rat) (m : Rat) :
    let r := xs.foldl (fun m x => if m < x then x else m) m
    (r = m ∨ r ∈ xs) ∧ m ≤ r ∧ ∀ x ∈ xs, x ≤ r := by
  induction xs generalizing m with
  | nil => simp
  | cons x xs ih =>
    simp only [List.foldl]
    by_cases hx : m < x
    · simp only [hx, if_true]
      obtain ⟨h1, h2, h3⟩ := ih x
      refine ⟨?_, le_trans (le_of_lt hx) h2, ?_⟩
      · rcases h1 with h | h
        · right; rw [h]; simp
        · right; exact List.mem_cons_of_mem _ h
      · intro y hy
        rcases List.mem_cons.mp hy with rfl | hy
        · exact h2
        · exact h3 y hy
    · simp only [hx, if_false]
      obtain ⟨h1, h2, h3⟩ := ih m
      refine ⟨?_, h2, ?_⟩
      · rcases h1 with h | h
        · left; exact h
        · right; exact List.mem_cons_of_mem _ h
      · intro y hy
        rcases List.mem_cons.mp hy with rfl | hy
        · exact le_trans (not_lt.mp hx) h2
        · exact h3 y hy


namespace Impl

/-- facts about Go's truncated division used by every rounding branch -/
theorem tdiv_facts (a b : Int) (hb : b ≠ 0) :
    a - Int.tdiv a b * b = Int.tmod a b ∧ (Int.tmod a b).natAbs < b.natAbs ∧
    (0 ≤ a → 0 ≤ Int.tmod a b) ∧ (a ≤ 0 → Int.tmod a b ≤ 0) := by
  have hid := Int.tmod_add_mul_tdiv a b
  refine ⟨by linarith [mul_comm b (Int.tdiv a b)], ?_, fun h => Int.tmod_nonneg b h, fun h => ?_⟩
  · rw [Int.natAbs_tmod]; exact Nat.mod_lt _ (Int.natAbs_pos.mpr hb)
  · have := Int.tmod_nonneg (a := -a) b (by omega)
    rw [Int.neg_tmod] at this; omega

/-- a truncated quotient of an int64 by anything but 0 and -1 is an int64 -/
theorem tdiv_inRange (p a : Int) (hp : inRange p) (ha0 : a ≠ 0) (ham : a ≠ -1) : inRange (Int.tdiv p a) := by
  by_cases ha1 : a = 1
  · subst ha1; simpa using hp
  · have h1 : (Int.tdiv p a).natAbs = p.natAbs / a.natAbs := Int.natAbs_tdiv p a
    have h2 : p.natAbs / a.natAbs * a.natAbs ≤ p.natAbs := Nat.div_mul_le_self _ _
    have h3 : 2 ≤ a.natAbs := by omega
    have h4 : p.natAbs / a.natAbs * 2 ≤ p.natAbs / a.natAbs * a.natAbs := Nat.mul_le_mul_left _ h3
    unfold inRange at *
    omega

end Impl

end SlipVerif.Num
