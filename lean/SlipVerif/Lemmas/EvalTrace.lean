import SlipVerif.Lemmas.Eval
/-! The trace only grows: every evaluation appends to the trace of the store it started from. -/
namespace SlipVerif.Eval

/-- `σ'` extends the trace of `σ` -/
def Ext (σ σ' : St) : Prop := σ.trace <+: σ'.trace

theorem Ext.refl (σ : St) : Ext σ σ := List.prefix_refl _
theorem Ext.trans {a b c : St} (h1 : Ext a b) (h2 : Ext b c) : Ext a c := List.IsPrefix.trans h1 h2
theorem Ext.of_trace_eq {a b c : St} (h1 : Ext a b) (h : c.trace = b.trace) : Ext a c := by
  unfold Ext at *; rw [h]; exact h1

@[simp] theorem trace_addFrame (σ : St) (fr) : (addFrame σ fr).trace = σ.trace := rfl
@[simp] theorem trace_addClosure (σ : St) (c) : (addClosure σ c).trace = σ.trace := rfl
@[simp] theorem trace_bumpId (σ : St) : (bumpId σ).trace = σ.trace := rfl
@[simp] theorem trace_setFun (σ : St) (n i) : (setFun σ n i).trace = σ.trace := rfl
@[simp] theorem trace_setLock (σ : St) (i b) : (setLock σ i b).trace = σ.trace := rfl
@[simp] theorem trace_addStream (σ : St) (b : Bool) : (addStream σ b).trace = σ.trace := rfl
@[simp] theorem trace_closeStream (σ : St) (i) : (closeStream σ i).trace = σ.trace := rfl
@[simp] theorem trace_setInFrame (σ : St) (f x v) : (setInFrame σ f x v).trace = σ.trace := rfl
@[simp] theorem trace_setGlobal (σ : St) (x v) : (setGlobal σ x v).trace = σ.trace := by
  unfold setGlobal; split <;> rfl
@[simp] theorem trace_setVar (σ : St) (ρ x v) : (setVar σ ρ x v).trace = σ.trace := by
  unfold setVar; split <;> simp
@[simp] theorem trace_assignAll (σ : St) (ρ xs vs) : (assignAll σ ρ xs vs).trace = σ.trace := by
  induction xs generalizing σ vs with
  | nil => simp [assignAll]
  | cons x xs ih => cases vs <;> simp [assignAll, ih]
@[simp] theorem trace_traceAdd (σ : St) (v) : (traceAdd σ v).trace = σ.trace ++ [v] := rfl

theorem Ext.congr {a b c : St} (h : c.trace = b.trace) : Ext a c = Ext a b := by unfold Ext; rw [h]
theorem ext_addFrame (a σ : St) (fr) : Ext a (addFrame σ fr) = Ext a σ := Ext.congr (by simp)
theorem ext_addClosure (a σ : St) (c) : Ext a (addClosure σ c) = Ext a σ := Ext.congr (by simp)
theorem ext_bumpId (a σ : St) : Ext a (bumpId σ) = Ext a σ := Ext.congr (by simp)
theorem ext_setFun (a σ : St) (n i) : Ext a (setFun σ n i) = Ext a σ := Ext.congr (by simp)
theorem ext_setLock (a σ : St) (i b) : Ext a (setLock σ i b) = Ext a σ := Ext.congr (by simp)
theorem ext_addStream (a σ : St) (b : Bool) : Ext a (addStream σ b) = Ext a σ := Ext.congr (by simp)
theorem ext_closeStream (a σ : St) (i) : Ext a (closeStream σ i) = Ext a σ := Ext.congr (by simp)
theorem ext_setInFrame (a σ : St) (f x v) : Ext a (setInFrame σ f x v) = Ext a σ := Ext.congr (by simp)
theorem ext_setVar (a σ : St) (ρ x v) : Ext a (setVar σ ρ x v) = Ext a σ := Ext.congr (by simp)
theorem ext_assignAll (a σ : St) (ρ xs vs) : Ext a (assignAll σ ρ xs vs) = Ext a σ := Ext.congr (by simp)

theorem numResult_ext (σ : St) (i : Int) : Ext σ (numResult σ i).2 := by
  unfold numResult; split <;> exact Ext.refl _
theorem cmpResult_ext (σ : St) (p vs) : Ext σ (cmpResult σ p vs).2 := by
  unfold cmpResult; split <;> exact Ext.refl _

theorem applyPrim_ext (p : Prim) (vs : List Obj) (σ : St) : Ext σ (applyPrim p vs σ).2 := by
  unfold applyPrim
  repeat (first
    | exact Ext.refl _
    | exact numResult_ext _ _
    | exact cmpResult_ext _ _ _
    | (show Ext σ (traceAdd σ _); exact List.prefix_append _ _)
    | (show Ext σ (closeStream σ _); rw [ext_closeStream]; exact Ext.refl _)
    | split)

theorem bindV_ext {σ : St} {r : Res} {k : List Obj → St → Res}
    (h : Ext σ r.2) (hk : ∀ vs σ1, Ext σ σ1 → Ext σ (k vs σ1).2) : Ext σ (bindV r k).2 := by
  obtain ⟨o, σ1⟩ := r
  cases o <;> simp [bindV] <;> first | exact hk _ _ h | exact h

theorem andThen_ext {σ : St} {r : Res} {k : Out → St → Res}
    (h : Ext σ r.2) (hk : ∀ o σ1, Ext σ σ1 → Ext σ (k o σ1).2) : Ext σ (andThen r k).2 := by
  obtain ⟨o, σ1⟩ := r
  cases o <;> simp [andThen] <;> first | exact hk _ _ h | exact h

theorem catchRet_ext {σ : St} {r : Res} (id : Nat) (h : Ext σ r.2) : Ext σ (catchRet id r).2 := by
  obtain ⟨o, σ1⟩ := r
  unfold catchRet
  split
  · split <;> simp_all
  · exact h

/-- an evaluator whose every result extends the trace it started from -/
def RecExt (f : Task → St → Res) : Prop := ∀ t σ, Ext σ (f t σ).2

theorem RecExt.at {f : Task → St → Res} (h : RecExt f) {σ σ' : St} (t : Task) (h1 : Ext σ σ') :
    Ext σ (f t σ').2 := Ext.trans h1 (h t σ')

/-- close a goal `Ext σ σ'` where `σ'` is a store-update of something known to extend `σ` -/
syntax "ext_leaf" : tactic
macro_rules
  | `(tactic| ext_leaf) => `(tactic| first
      | assumption
      | exact Ext.refl _
      | (simp only [ext_addFrame, ext_addClosure, ext_bumpId, ext_setFun, ext_setLock, ext_setInFrame, ext_setVar, ext_addStream, ext_closeStream,
          ext_assignAll]
         first | assumption | exact Ext.refl _))

syntax "ext_tac " ident : tactic
macro_rules
  | `(tactic| ext_tac $h) => `(tactic| repeat (first
      | ext_leaf
      | apply bindV_ext
      | apply andThen_ext
      | apply catchRet_ext
      | apply RecExt.at $h
      | exact applyPrim_ext _ _ _
      | intro _
      | split))

variable {f : Task → St → Res}

theorem stepSeq_ext (h : RecExt f) (ρ es σ) : Ext σ (stepSeq f ρ es σ).2 := by
  unfold stepSeq
  ext_tac h

theorem stepArgs_ext (h : RecExt f) (ρ es σ) : Ext σ (stepArgs f ρ es σ).2 := by
  unfold stepArgs
  ext_tac h

theorem stepCond_ext (h : RecExt f) (ρ cs σ) : Ext σ (stepCond f ρ cs σ).2 := by
  unfold stepCond
  ext_tac h

theorem stepAnd_ext (h : RecExt f) (ρ es σ) : Ext σ (stepAnd f ρ es σ).2 := by
  unfold stepAnd
  ext_tac h

theorem stepOr_ext (h : RecExt f) (ρ es σ) : Ext σ (stepOr f ρ es σ).2 := by
  unfold stepOr
  ext_tac h

theorem stepLetStar_ext (h : RecExt f) (ρ bs body σ) : Ext σ (stepLetStar f ρ bs body σ).2 := by
  unfold stepLetStar
  ext_tac h

theorem stepSetq_ext (h : RecExt f) (ρ ps last σ) : Ext σ (stepSetq f ρ ps last σ).2 := by
  unfold stepSetq
  ext_tac h

theorem stepTagbody_ext (h : RecExt f) (ρ id all rest σ) : Ext σ (stepTagbody f ρ id all rest σ).2 := by
  unfold stepTagbody
  ext_tac h

theorem stepDolist_ext (h : RecExt f) (ρ fid var items body tbid result σ) :
    Ext σ (stepDolist f ρ fid var items body tbid result σ).2 := by
  unfold stepDolist
  ext_tac h

theorem stepDotimes_ext (h : RecExt f) (ρ fid var i count body tbid result σ) :
    Ext σ (stepDotimes f ρ fid var i count body tbid result σ).2 := by
  unfold stepDotimes
  ext_tac h

theorem stepDoStarInit_ext (h : RecExt f) (ρ bs spec σ) : Ext σ (stepDoStarInit f ρ bs spec σ).2 := by
  unfold stepDoStarInit
  ext_tac h

theorem stepDoLoop_ext (h : RecExt f) (ρ spec σ) : Ext σ (stepDoLoop f ρ spec σ).2 := by
  unfold stepDoLoop
  ext_tac h

theorem stepDoSteps_ext (h : RecExt f) (ρ vars σ) : Ext σ (stepDoSteps f ρ vars σ).2 := by
  unfold stepDoSteps
  ext_tac h

theorem stepMapcar_ext (h : RecExt f) (fn l1 l2 acc σ) : Ext σ (stepMapcar f fn l1 l2 acc σ).2 := by
  unfold stepMapcar
  ext_tac h

theorem callClosure_ext (h : RecExt f) (args cid σ) : Ext σ (callClosure f args cid σ).2 := by
  unfold callClosure
  ext_tac h

theorem callNamed_ext (h : RecExt f) (args name σ) : Ext σ (callNamed f args name σ).2 := by
  unfold callNamed
  split
  · exact callClosure_ext h _ _ _
  · split
    · exact applyPrim_ext _ _ _
    · exact Ext.refl _

theorem stepApply_ext (h : RecExt f) (fn args σ) : Ext σ (stepApply f fn args σ).2 := by
  unfold stepApply
  split
  · exact callClosure_ext h _ _ _
  · exact callNamed_ext h _ _ _
  · exact callNamed_ext h _ _ _
  · exact Ext.refl _

theorem stepForm_ext (h : RecExt f) (ρ head a σ) : Ext σ (stepForm f ρ head a σ).2 := by
  unfold stepForm
  ext_tac h

theorem stepEval_ext (h : RecExt f) (ρ e σ) : Ext σ (stepEval f ρ e σ).2 := by
  unfold stepEval
  split
  · ext_tac h
  · split
    · exact stepForm_ext h _ _ _ _
    · exact Ext.refl _
  · ext_tac h
  · exact Ext.refl _
  · exact Ext.refl _

theorem step_ext (h : RecExt f) : RecExt (step f) := by
  intro t σ
  cases t <;> simp only [step]
  · exact stepEval_ext h _ _ _
  · exact stepSeq_ext h _ _ _
  · exact stepArgs_ext h _ _ _
  · exact stepApply_ext h _ _ _
  · exact stepCond_ext h _ _ _
  · exact stepAnd_ext h _ _ _
  · exact stepOr_ext h _ _ _
  · exact stepLetStar_ext h _ _ _ _
  · exact stepSetq_ext h _ _ _ _
  · exact stepTagbody_ext h _ _ _ _ _
  · exact stepDolist_ext h _ _ _ _ _ _ _ _
  · exact stepDotimes_ext h _ _ _ _ _ _ _ _ _
  · exact stepDoStarInit_ext h _ _ _ _
  · exact stepDoLoop_ext h _ _ _
  · exact stepDoSteps_ext h _ _ _
  · exact stepMapcar_ext h _ _ _ _ _

/-- every evaluation only appends to the trace -/
theorem evalN_ext (n : Nat) : RecExt (evalN n) := by
  induction n with
  | zero => intro t σ; exact Ext.refl _
  | succ n ih => exact step_ext ih

end SlipVerif.Eval
