import SlipVerif.Model.Flavors
/-
  Helper lemmas for Theorems/C11.lean (core Lean only).
  Part 1: lists — `extend` (the append-if-absent loop of `inheritFlavor`) against `dedup`.
-/
namespace SlipVerif.Flavors

/-! ## append-if-absent -/

def addNew (acc : List Name) (x : Name) : List Name := if x ∈ acc then acc else acc ++ [x]

/-- the inherit list after visiting the names of `l` in order -/
def extend (acc : List Name) (l : List Name) : List Name := l.foldl addNew acc

@[simp] theorem extend_nil (A : List Name) : extend A [] = A := rfl
@[simp] theorem extend_cons (A : List Name) (x : Name) (l : List Name) :
    extend A (x :: l) = extend (addNew A x) l := rfl

theorem extend_append (A l1 l2 : List Name) : extend A (l1 ++ l2) = extend (extend A l1) l2 := by
  simp [extend, List.foldl_append]

theorem mem_addNew {A : List Name} {x y : Name} : y ∈ addNew A x ↔ y ∈ A ∨ y = x := by
  unfold addNew
  by_cases h : x ∈ A
  · simp only [h, if_true]
    constructor
    · exact Or.inl
    · rintro (h1 | h1)
      · exact h1
      · exact h1 ▸ h
  · simp [h]

theorem mem_extend {A l : List Name} {y : Name} : y ∈ extend A l ↔ y ∈ A ∨ y ∈ l := by
  induction l generalizing A with
  | nil => simp
  | cons x xs ih =>
    rw [extend_cons, ih, mem_addNew]
    simp only [List.mem_cons]
    constructor
    · rintro ((h | h) | h)
      · exact Or.inl h
      · exact Or.inr (Or.inl h)
      · exact Or.inr (Or.inr h)
    · rintro (h | h | h)
      · exact Or.inl (Or.inl h)
      · exact Or.inl (Or.inr h)
      · exact Or.inr h

theorem extend_of_subset {A l : List Name} (h : ∀ x ∈ l, x ∈ A) : extend A l = A := by
  induction l generalizing A with
  | nil => rfl
  | cons x xs ih =>
    have hx : x ∈ A := h x (List.mem_cons_self ..)
    rw [extend_cons]
    have : addNew A x = A := by simp [addNew, hx]
    rw [this]
    exact ih (fun y hy => h y (List.mem_cons_of_mem _ hy))

theorem extend_eq_append_filter (A l : List Name) :
    extend A l = A ++ (dedup l).filter (fun x => decide (x ∉ A)) := by
  induction l generalizing A with
  | nil => simp [dedup]
  | cons x xs ih =>
    rw [extend_cons, ih]
    by_cases hx : x ∈ A
    · have h1 : addNew A x = A := by simp [addNew, hx]
      rw [h1]
      simp only [dedup, List.filter_cons, hx, not_true_eq_false, decide_false, Bool.false_eq_true, if_false,
        List.filter_filter]
      congr 1
      apply List.filter_congr
      intro y _
      by_cases hy : y ∈ A
      · simp [hy]
      · have : y ≠ x := fun e => hy (e ▸ hx)
        simp [hy, this]
    · have h1 : addNew A x = A ++ [x] := by simp [addNew, hx]
      rw [h1]
      simp only [dedup, List.filter_cons, hx, not_false_eq_true, decide_true, if_true, List.filter_filter,
        List.append_assoc, List.singleton_append]
      congr 2
      apply List.filter_congr
      intro y _
      by_cases hy : y ∈ A <;> by_cases hyx : y = x <;> simp [hy, hyx]

theorem extend_nil_eq_dedup (l : List Name) : extend [] l = dedup l := by
  rw [extend_eq_append_filter]
  simp

theorem mem_dedup (x : Name) (l : List Name) : x ∈ dedup l ↔ x ∈ l := by
  rw [← extend_nil_eq_dedup, mem_extend]
  simp

theorem nodup_addNew {A : List Name} {x : Name} (h : A.Nodup) : (addNew A x).Nodup := by
  unfold addNew
  by_cases hx : x ∈ A
  · simpa [hx] using h
  · simp only [hx, if_false]
    rw [List.nodup_append]
    refine ⟨h, by simp, ?_⟩
    intro a ha b hb
    simp at hb
    subst hb
    exact fun e => hx (e ▸ ha)

theorem nodup_extend {A l : List Name} (h : A.Nodup) : (extend A l).Nodup := by
  induction l generalizing A with
  | nil => exact h
  | cons x xs ih => exact ih (nodup_addNew h)

theorem nodup_dedup (l : List Name) : (dedup l).Nodup := by
  rw [← extend_nil_eq_dedup]
  exact nodup_extend List.nodup_nil

/-- visiting the components one after the other = visiting the concatenation -/
theorem foldl_extend_flatMap (f : Name → List Name) (A : List Name) (cs : List Name) :
    cs.foldl (fun acc c => extend acc (f c)) A = extend A (cs.flatMap f) := by
  induction cs generalizing A with
  | nil => rfl
  | cons c cs ih =>
    simp only [List.foldl_cons, List.flatMap_cons, extend_append]
    exact ih _

/-- `findSome?` over the extended list: what was there first, then the new names -/
theorem findSome_extend {β : Type} (f : Name → Option β) (A l : List Name) :
    (extend A l).findSome? f = (A.findSome? f).or (l.findSome? f) := by
  induction l generalizing A with
  | nil => simp
  | cons x xs ih =>
    rw [extend_cons, ih]
    by_cases hx : x ∈ A
    · have h1 : addNew A x = A := by simp [addNew, hx]
      rw [h1]
      cases hA : A.findSome? f with
      | some v => simp
      | none =>
        have : f x = none := by
          rw [List.findSome?_eq_none_iff] at hA
          exact hA x hx
        simp [this]
    · have h1 : addNew A x = A ++ [x] := by simp [addNew, hx]
      rw [h1, List.findSome?_append]
      simp only [List.findSome?_cons, List.findSome?_nil]
      cases A.findSome? f <;> cases f x <;> simp

/-! ## Part 2: validity and the precedence list -/

theorem validR_defflavor {n : Name} {cs : List Name} {sl : List (Slot × Option Int)} {h : List Form} :
    validR (.defflavor n cs sl :: h) = true ↔
      validR h = true ∧ n ≠ vanilla ∧ n ∉ definedR h ∧ ∀ c ∈ cs, c ≠ vanilla ∧ c ∈ definedR h := by
  simp [validR, List.all_eq_true, and_assoc]

theorem validR_defmethod {fl : Name} {k : Kind} {m : Msg} {id : Mid} {h : List Form} :
    validR (.defmethod fl k m id :: h) = true ↔ validR h = true ∧ fl ≠ vanilla ∧ fl ∈ definedR h := by
  simp [validR, and_assoc]

theorem validR_tail {f : Form} {h : List Form} (hv : validR (f :: h) = true) : validR h = true := by
  cases f with
  | defflavor n cs sl => exact (validR_defflavor.mp hv).1
  | defmethod fl k m id => exact (validR_defmethod.mp hv).1

theorem vanilla_not_defined {h : List Form} (hv : validR h = true) : vanilla ∉ definedR h := by
  induction h with
  | nil => simp [definedR]
  | cons f h ih =>
    cases f with
    | defflavor n cs sl =>
      obtain ⟨hv', hn, _, _⟩ := validR_defflavor.mp hv
      simp only [definedR, List.mem_cons, not_or]
      exact ⟨fun e => hn e.symm, ih hv'⟩
    | defmethod fl k m id =>
      simpa [definedR] using ih (validR_defmethod.mp hv).1

theorem precR_of_not_defined {h : List Form} {n : Name} (hn : n ∉ definedR h) : precR h n = [] := by
  induction h with
  | nil => rfl
  | cons f h ih =>
    cases f with
    | defflavor n0 cs sl =>
      simp only [definedR, List.mem_cons, not_or] at hn
      simp [precR, hn.1, ih hn.2]
    | defmethod fl k m id =>
      simp only [definedR] at hn
      simp [precR, ih hn]

theorem precR_head {h : List Form} {n : Name} (hn : n ∈ definedR h) : ∃ t, precR h n = n :: t := by
  induction h with
  | nil => simp [definedR] at hn
  | cons f h ih =>
    cases f with
    | defflavor n0 cs sl =>
      by_cases e : n = n0
      · subst e
        exact ⟨dedup (cs.flatMap (fun c => precR h c)), by simp [precR]⟩
      · simp only [definedR, List.mem_cons, e, false_or] at hn
        simpa [precR, e] using ih hn
    | defmethod fl k m id =>
      simp only [definedR] at hn
      simpa [precR] using ih hn

theorem precR_eq_cons_tail {h : List Form} {n : Name} (hn : n ∈ definedR h) :
    precR h n = n :: (precR h n).tail := by
  obtain ⟨t, ht⟩ := precR_head hn
  rw [ht]
  rfl

theorem self_mem_precR {h : List Form} {n : Name} (hn : n ∈ definedR h) : n ∈ precR h n := by
  obtain ⟨t, ht⟩ := precR_head hn
  rw [ht]
  exact List.mem_cons_self ..

theorem mem_precR_defined {h : List Form} (hv : validR h = true) {n x : Name} (hx : x ∈ precR h n) :
    x ∈ definedR h := by
  induction h generalizing n x with
  | nil => simp [precR] at hx
  | cons f h ih =>
    cases f with
    | defflavor n0 cs sl =>
      obtain ⟨hv', _, _, hcs⟩ := validR_defflavor.mp hv
      simp only [definedR, List.mem_cons]
      by_cases e : n = n0
      · simp only [precR, e, if_true, List.mem_cons, mem_dedup, List.mem_flatMap] at hx
        rcases hx with hx | ⟨c, _, hxc⟩
        · exact Or.inl hx
        · exact Or.inr (ih hv' hxc)
      · simp only [precR, e, if_false] at hx
        exact Or.inr (ih hv' hx)
    | defmethod fl k m id =>
      simp only [precR] at hx
      simpa [definedR] using ih (validR_defmethod.mp hv).1 hx

theorem precR_ne_vanilla {h : List Form} (hv : validR h = true) {n x : Name} (hx : x ∈ precR h n) :
    x ≠ vanilla := fun e => vanilla_not_defined hv (e ▸ mem_precR_defined hv hx)

/-- a newer form does not change the precedence list of an older flavor -/
theorem precR_cons_of_defined {f : Form} {h : List Form} (hv : validR (f :: h) = true) {x : Name}
    (hx : x ∈ definedR h) : precR (f :: h) x = precR h x := by
  cases f with
  | defflavor n0 cs sl =>
    obtain ⟨_, _, hn0, _⟩ := validR_defflavor.mp hv
    have : x ≠ n0 := fun e => hn0 (e ▸ hx)
    simp [precR, this]
  | defmethod fl k m id => simp [precR]

theorem nodup_precR {h : List Form} (hv : validR h = true) (n : Name) : (precR h n).Nodup := by
  induction h generalizing n with
  | nil => simp [precR]
  | cons f h ih =>
    cases f with
    | defflavor n0 cs sl =>
      obtain ⟨hv', _, hn0, _⟩ := validR_defflavor.mp hv
      by_cases e : n = n0
      · simp only [precR, e, if_true, List.nodup_cons, mem_dedup, List.mem_flatMap]
        refine ⟨?_, nodup_dedup _⟩
        rintro ⟨c, _, hc⟩
        exact hn0 (mem_precR_defined hv' hc)
      · simpa [precR, e] using ih hv' n
    | defmethod fl k m id =>
      simpa [precR] using ih (validR_defmethod.mp hv).1 n

/-- the precedence list is closed: it contains the precedence list of each of its members -/
theorem precR_closed {h : List Form} (hv : validR h = true) {n x y : Name} (hx : x ∈ precR h n)
    (hy : y ∈ precR h x) : y ∈ precR h n := by
  induction h generalizing n x y with
  | nil => simp [precR] at hx
  | cons f h ih =>
    have hv' := validR_tail hv
    cases f with
    | defflavor n0 cs sl =>
      obtain ⟨_, _, hn0, _⟩ := validR_defflavor.mp hv
      by_cases e : n = n0
      · subst e
        simp only [precR, if_true, List.mem_cons, mem_dedup, List.mem_flatMap] at hx ⊢
        rcases hx with hx | ⟨c, hc, hxc⟩
        · subst hx
          simpa [precR, mem_dedup, List.mem_flatMap] using hy
        · have hxd : x ∈ definedR h := mem_precR_defined hv' hxc
          rw [precR_cons_of_defined hv hxd] at hy
          exact Or.inr ⟨c, hc, ih hv' hxc hy⟩
      · simp only [precR, e, if_false] at hx ⊢
        have hxd : x ∈ definedR h := mem_precR_defined hv' hx
        rw [precR_cons_of_defined hv hxd] at hy
        exact ih hv' hx hy
    | defmethod fl k m id =>
      simp only [precR] at hx hy ⊢
      exact ih hv' hx hy

/-! ## Part 3: combination lists as `filterMap` over a precedence list

`combo g` is the combination flavor `g` contributes (if any); its `src` is `g`. -/

theorem filterMap_congr' {α β : Type} {f g : α → Option β} {l : List α} (h : ∀ x ∈ l, f x = g x) :
    l.filterMap f = l.filterMap g := by
  induction l with
  | nil => rfl
  | cons a l ih =>
    have ha := h a (List.mem_cons_self ..)
    have ih' := ih (fun x hx => h x (List.mem_cons_of_mem _ hx))
    simp only [List.filterMap_cons, ha, ih']

section combos
variable (combo : Name → Option Combo) (hsrc : ∀ g c, combo g = some c → c.src = g)

include hsrc in
theorem mem_srcs_filterMap {A : List Name} {x : Name} :
    x ∈ (A.filterMap combo).map (·.src) ↔ x ∈ A ∧ (combo x).isSome = true := by
  simp only [List.mem_map, List.mem_filterMap]
  constructor
  · rintro ⟨c, ⟨g, hg, hc⟩, rfl⟩
    have := hsrc g c hc
    rw [this]
    exact ⟨hg, by simp [hc]⟩
  · rintro ⟨hx, hs⟩
    obtain ⟨c, hc⟩ := Option.isSome_iff_exists.mp hs
    exact ⟨c, ⟨x, hx, hc⟩, hsrc x c hc⟩

theorem mergeCombos_cons (own : List Combo) (c : Combo) (rest : List Combo) :
    mergeCombos own (c :: rest) =
      mergeCombos (if c.src = vanilla ∨ c.src ∈ own.map (·.src) then own else own ++ [c]) rest := rfl

theorem mergeCombos_vanilla (own vt : List Combo) (hvt : ∀ c ∈ vt, c.src = vanilla) :
    mergeCombos own vt = own := by
  induction vt with
  | nil => rfl
  | cons c rest ih =>
    rw [mergeCombos_cons]
    have : c.src = vanilla := hvt c (List.mem_cons_self ..)
    simp only [this, true_or, if_true]
    exact ih (fun c hc => hvt c (List.mem_cons_of_mem _ hc))

include hsrc in
/-- `inheritFlavor`'s loop over the combinations of a component: what is appended are the
    combinations of the flavors that were not inherited yet, in the component's order -/
theorem mergeCombos_spec (vt : List Combo) (hvt : ∀ c ∈ vt, c.src = vanilla) (A l : List Name)
    (hl : ∀ x ∈ l, x ≠ vanilla) :
    mergeCombos (A.filterMap combo) (l.filterMap combo ++ vt) = (extend A l).filterMap combo := by
  induction l generalizing A with
  | nil => simpa using mergeCombos_vanilla _ vt hvt
  | cons x xs ih =>
    have hxs : ∀ y ∈ xs, y ≠ vanilla := fun y hy => hl y (List.mem_cons_of_mem _ hy)
    have hxv : x ≠ vanilla := hl x (List.mem_cons_self ..)
    rw [extend_cons]
    cases hc : combo x with
    | none =>
      rw [List.filterMap_cons_none hc]
      have : (addNew A x).filterMap combo = A.filterMap combo := by
        unfold addNew
        by_cases hx : x ∈ A
        · simp [hx]
        · simp [hx, List.filterMap_append, hc]
      rw [← this]
      exact ih _ hxs
    | some c =>
      rw [List.filterMap_cons_some hc, List.cons_append, mergeCombos_cons]
      have hcs : c.src = x := hsrc x c hc
      have hmem : c.src ∈ (A.filterMap combo).map (·.src) ↔ x ∈ A := by
        rw [hcs, mem_srcs_filterMap combo hsrc]
        simp [hc]
      have : (if c.src = vanilla ∨ c.src ∈ (A.filterMap combo).map (·.src) then A.filterMap combo
              else A.filterMap combo ++ [c]) = (addNew A x).filterMap combo := by
        unfold addNew
        by_cases hx : x ∈ A
        · simp [hmem, hx]
        · have h1 : ¬ c.src = vanilla := by rw [hcs]; exact hxv
          simp [hmem, hx, h1, List.filterMap_append, hc]
      rw [this]
      exact ih _ hxs

/-- `splice` with nothing left in the combination list appends -/
theorem splice_nil (super : Name) (c : Combo) (fs : List Name) : splice super c fs [] = [c] := by
  cases fs with
  | nil => rfl
  | cons f fs => by_cases h : f = super <;> simp [splice, h]

include hsrc in
/-- `insertMethod` (repaired) puts the new combination at the precedence position of the flavor
    it belongs to -/
theorem splice_spec (super : Name) (c : Combo) (L : List Name) (hnd : L.Nodup) (hin : super ∈ L)
    (hnone : combo super = none) :
    splice super c L (L.filterMap combo) =
      L.filterMap (fun g => if g = super then some c else combo g) := by
  induction L with
  | nil => simp at hin
  | cons f fs ih =>
    obtain ⟨hf, hnd'⟩ := List.nodup_cons.mp hnd
    by_cases e : f = super
    · subst e
      have hrest : fs.filterMap (fun g => if g = f then some c else combo g) = fs.filterMap combo := by
        apply filterMap_congr'
        intro g hg
        have : g ≠ f := fun e => hf (e ▸ hg)
        simp [this]
      simp [splice, hnone, hrest]
    · have hin' : super ∈ fs := by
        rcases List.mem_cons.mp hin with h | h
        · exact absurd h.symm e
        · exact h
      have ih' := ih hnd' hin'
      cases hc : combo f with
      | none =>
        rw [List.filterMap_cons_none hc]
        have hR : (f :: fs).filterMap (fun g => if g = super then some c else combo g)
            = fs.filterMap (fun g => if g = super then some c else combo g) := by
          simp [e, hc]
        rw [hR, ← ih']
        cases hcs : fs.filterMap combo with
        | nil => simp [splice, e, splice_nil]
        | cons y ys =>
          have hy : y.src ≠ f := by
            have hmem : y ∈ fs.filterMap combo := by rw [hcs]; exact List.mem_cons_self ..
            obtain ⟨g, hg, hgy⟩ := List.mem_filterMap.mp hmem
            rw [hsrc g y hgy]
            exact fun e' => hf (e' ▸ hg)
          simp [splice, e, hy]
      | some x =>
        rw [List.filterMap_cons_some hc]
        have hx : x.src = f := hsrc f x hc
        have hR : (f :: fs).filterMap (fun g => if g = super then some c else combo g)
            = x :: fs.filterMap (fun g => if g = super then some c else combo g) := by
          simp [e, hc]
        rw [hR, ← ih']
        simp [splice, e, hx]

include hsrc in
/-- a daemon stored into the (shared) combination of flavor `fl` -/
theorem map_set_spec (fl : Name) (k : Kind) (id : Mid) (L : List Name) :
    (L.filterMap combo).map (fun c => if c.src = fl then c.set k id else c) =
      L.filterMap (fun g => if g = fl then (combo g).map (·.set k id) else combo g) := by
  induction L with
  | nil => rfl
  | cons f fs ih =>
    cases hc : combo f with
    | none =>
      rw [List.filterMap_cons_none hc, ih]
      by_cases e : f = fl
      · subst e
        simp [hc]
      · simp [e, hc]
    | some x =>
      rw [List.filterMap_cons_some hc, List.map_cons, ih]
      have hx : x.src = f := hsrc f x hc
      by_cases e : f = fl
      · subst e
        simp [hc, hx]
      · simp [e, hc, hx]

end combos

/-! ## Part 4: the combination a flavor contributes, as the history grows -/

theorem findSome_congr' {α β : Type} {f g : α → Option β} {l : List α} (h : ∀ x ∈ l, f x = g x) :
    l.findSome? f = l.findSome? g := by
  induction l with
  | nil => rfl
  | cons a l ih =>
    have ha := h a (List.mem_cons_self ..)
    have ih' := ih (fun x hx => h x (List.mem_cons_of_mem _ hx))
    simp only [List.findSome?_cons, ha, ih']

theorem mergeSlot_eq_or (a b : Option (Option Int)) : mergeSlot a b = a.or b := by
  cases a <;> rfl

theorem vanillaTab_src {vm : List Msg} {m : Msg} {c : Combo} (hc : c ∈ vanillaTab vm m) :
    c.src = vanilla := by
  unfold vanillaTab at hc
  by_cases h : m ∈ vm
  · simp [h] at hc
    rw [hc]
  · simp [h] at hc

theorem vanillaTab_head_toList (vm : List Msg) (m : Msg) :
    (vanillaTab vm m).head?.toList = vanillaTab vm m := by
  unfold vanillaTab
  by_cases h : m ∈ vm <;> simp [h]

theorem comboR_src {vm : List Msg} {h : List Form} {m : Msg} {g : Name} {c : Combo}
    (hc : comboR vm h m g = some c) : c.src = g := by
  unfold comboR at hc
  by_cases hg : g = vanilla
  · simp only [hg, if_true] at hc
    rw [hg]
    exact vanillaTab_src (List.mem_of_mem_head? hc)
  · simp only [hg, if_false] at hc
    split at hc
    · simp at hc
    · simp at hc
      rw [← hc]

theorem filterMap_vanilla (vm : List Msg) (h : List Form) (m : Msg) :
    [vanilla].filterMap (comboR vm h m) = vanillaTab vm m := by
  have : comboR vm h m vanilla = (vanillaTab vm m).head? := by simp [comboR]
  rw [← vanillaTab_head_toList]
  cases hh : (vanillaTab vm m).head? <;> simp [this, hh]

theorem daemonR_defined {h : List Form} (hv : validR h = true) {g : Name} {k : Kind} {m : Msg} {id : Mid}
    (hd : daemonR h g k m = some id) : g ∈ definedR h := by
  induction h with
  | nil => simp [daemonR] at hd
  | cons f h ih =>
    cases f with
    | defflavor n cs sl =>
      simp only [daemonR] at hd
      exact List.mem_cons_of_mem _ (ih (validR_defflavor.mp hv).1 hd)
    | defmethod fl k' m' id' =>
      obtain ⟨hv', _, hfl⟩ := validR_defmethod.mp hv
      simp only [daemonR] at hd
      simp only [definedR]
      split at hd
      · rename_i hc
        exact hc.1 ▸ hfl
      · exact ih hv' hd

theorem comboR_of_not_defined {vm : List Msg} {h : List Form} (hv : validR h = true) {g : Name} (m : Msg)
    (hg : g ∉ definedR h) (hgv : g ≠ vanilla) : comboR vm h m g = none := by
  have hn : ∀ k, daemonR h g k m = none := by
    intro k
    cases hd : daemonR h g k m with
    | none => rfl
    | some id => exact absurd (daemonR_defined hv hd) hg
  simp [comboR, hgv, hn]

theorem comboR_defflavor (vm : List Msg) (n : Name) (cs : List Name) (sl : List (Slot × Option Int))
    (h : List Form) (m : Msg) (g : Name) :
    comboR vm (.defflavor n cs sl :: h) m g = comboR vm h m g := by
  have hd : ∀ k', daemonR (.defflavor n cs sl :: h) g k' m = daemonR h g k' m := fun _ => rfl
  simp only [comboR, hd]

theorem comboR_defmethod_other (vm : List Msg) (fl : Name) (k : Kind) (msg : Msg) (id : Mid)
    (h : List Form) (m : Msg) (g : Name) (hne : m ≠ msg ∨ g ≠ fl) :
    comboR vm (.defmethod fl k msg id :: h) m g = comboR vm h m g := by
  have hd : ∀ k', daemonR (.defmethod fl k msg id :: h) g k' m = daemonR h g k' m := by
    intro k'
    simp only [daemonR]
    rcases hne with hne | hne
    · have : ¬ (fl = g ∧ k = k' ∧ msg = m) := fun hc => hne hc.2.2.symm
      simp [this]
    · have : ¬ (fl = g ∧ k = k' ∧ msg = m) := fun hc => hne hc.1.symm
      simp [this]
  simp only [comboR, hd]

/-- the combination of `fl` for `msg` after `(defmethod (fl k msg) …)`: the old one (or an empty
    one) with the daemon stored -/
theorem comboR_defmethod_same (vm : List Msg) (fl : Name) (k : Kind) (msg : Msg) (id : Mid)
    (h : List Form) (hfl : fl ≠ vanilla) :
    comboR vm (.defmethod fl k msg id :: h) msg fl =
      some (match comboR vm h msg fl with
            | some c0 => c0.set k id
            | none => Combo.set { src := fl } k id) := by
  have hd : ∀ k', daemonR (.defmethod fl k msg id :: h) fl k' msg
      = if k = k' then some id else daemonR h fl k' msg := by
    intro k'
    simp [daemonR]
  simp only [comboR, hfl, if_false, hd]
  generalize daemonR h fl Kind.primary msg = P
  generalize daemonR h fl Kind.before msg = B
  generalize daemonR h fl Kind.after msg = A
  generalize daemonR h fl Kind.whopper msg = W
  cases k <;> cases P <;> cases B <;> cases A <;> cases W <;> simp [Combo.set]

/-! ## Part 5: the invariant — the incremental state IS the specification -/

structure Inv (vm : List Msg) (h : List Form) (st : State) : Prop where
  defd : ∀ n, st.defd n = true ↔ (n = vanilla ∨ n ∈ definedR h)
  inh : ∀ n, n ∈ definedR h → st.inh n = (precR h n).tail ++ [vanilla]
  vinh : st.inh vanilla = []
  tab : ∀ n, n ∈ definedR h → ∀ m, st.tab n m = specCombosR vm h n m
  vtab : ∀ m, st.tab vanilla m = vanillaTab vm m
  slots : ∀ n, n ∈ definedR h → ∀ s, st.slots n s = specSlotR h n s

theorem inv_init (vm : List Msg) : Inv vm [] (init vm) where
  defd := by intro n; simp [init, definedR]
  inh := by intro n hn; simp [definedR] at hn
  vinh := rfl
  tab := by intro n hn; simp [definedR] at hn
  vtab := by intro m; simp [init]
  slots := by intro n hn; simp [definedR] at hn

/-- the flavor being built: inherit list `I`, tables already covering the list `T ⊇ I` -/
structure AccInv (vm : List Msg) (h : List Form) (own : Slot → Option (Option Int)) (a : Acc)
    (I T : List Name) : Prop where
  inh : a.inh = I
  tab : ∀ m, a.tab m = T.filterMap (comboR vm h m)
  slots : ∀ s, a.slots s = mergeSlot (own s) (T.findSome? (fun g => ownSlotR h g s))
  closed : ∀ x, x ∈ I → ∀ y, y ∈ precR h x → y ∈ T

theorem addOne_inv {vm : List Msg} {h : List Form} {st : State} (hI : Inv vm h st) (hv : validR h = true)
    {own : Slot → Option (Option Int)} {a : Acc} {I T : List Name} (ha : AccInv vm h own a I T)
    {x : Name} (hx : x ∈ definedR h) :
    AccInv vm h own (addOne st a x) (addNew I x) (extend T (precR h x)) := by
  unfold addOne
  rw [ha.inh]
  by_cases hxI : x ∈ I
  · have hT : extend T (precR h x) = T := extend_of_subset (ha.closed x hxI)
    have hA : addNew I x = I := by simp [addNew, hxI]
    simp only [hxI, if_true, hT, hA]
    exact ha
  · have hA : addNew I x = I ++ [x] := by simp [addNew, hxI]
    simp only [hxI, if_false, hA]
    refine ⟨rfl, ?_, ?_, ?_⟩
    · intro m
      show mergeCombos (a.tab m) (st.tab x m) = _
      rw [ha.tab m, hI.tab x hx m]
      unfold specCombosR flattenR
      rw [List.filterMap_append]
      exact mergeCombos_spec (comboR vm h m) (fun g c hc => comboR_src hc) _
        (by
          intro c hc
          rw [filterMap_vanilla] at hc
          exact vanillaTab_src hc)
        T (precR h x) (fun y hy => precR_ne_vanilla hv hy)
    · intro s
      show mergeSlot (a.slots s) (st.slots x s) = _
      rw [ha.slots s, hI.slots x hx s, findSome_extend]
      unfold specSlotR
      simp only [mergeSlot_eq_or, Option.or_assoc]
    · intro y hy z hz
      rw [mem_extend]
      rcases List.mem_append.mp hy with hy | hy
      · exact Or.inl (ha.closed y hy z hz)
      · simp at hy
        subst hy
        exact Or.inr hz

theorem foldl_addOne_inv {vm : List Msg} {h : List Form} {st : State} (hI : Inv vm h st)
    (hv : validR h = true) {own : Slot → Option (Option Int)} (l : List Name) {a : Acc} {I T : List Name}
    (ha : AccInv vm h own a I T) (hl : ∀ x, x ∈ l → x ∈ definedR h) :
    AccInv vm h own (l.foldl (addOne st) a) (extend I l) (extend T (l.flatMap (fun x => precR h x))) := by
  induction l generalizing a I T with
  | nil => simpa using ha
  | cons x xs ih =>
    simp only [List.foldl_cons, extend_cons, List.flatMap_cons, extend_append]
    exact ih (addOne_inv hI hv ha (hl x (List.mem_cons_self ..)))
      (fun y hy => hl y (List.mem_cons_of_mem _ hy))

theorem extend_flatMap_precR {h : List Form} (hv : validR h = true) {c : Name} (hc : c ∈ definedR h)
    (A : List Name) :
    extend A ((precR h c).flatMap (fun x => precR h x)) = extend A (precR h c) := by
  obtain ⟨t, ht⟩ := precR_head hc
  rw [ht, List.flatMap_cons, extend_append, ← ht]
  apply extend_of_subset
  intro y hy
  obtain ⟨x, hx, hyx⟩ := List.mem_flatMap.mp hy
  rw [mem_extend]
  right
  have hxc : x ∈ precR h c := by rw [ht]; exact List.mem_cons_of_mem _ hx
  exact precR_closed hv hxc hyx

theorem inheritFlavor_inv {vm : List Msg} {h : List Form} {st : State} (hI : Inv vm h st)
    (hv : validR h = true) {own : Slot → Option (Option Int)} {a : Acc} {A : List Name}
    (ha : AccInv vm h own a A A) {c : Name} (hc : c ∈ definedR h) :
    AccInv vm h own (inheritFlavor st a c) (extend A (precR h c)) (extend A (precR h c)) := by
  unfold inheritFlavor
  rw [ha.inh]
  by_cases hcA : c ∈ A
  · have hT : extend A (precR h c) = A := extend_of_subset (ha.closed c hcA)
    simp only [hcA, if_true, hT]
    exact ha
  · simp only [hcA, if_false]
    have hfilter : (st.inh c).filter (fun x => decide (x ≠ vanilla)) = (precR h c).tail := by
      rw [hI.inh c hc, List.filter_append]
      have h1 : (precR h c).tail.filter (fun x => decide (x ≠ vanilla)) = (precR h c).tail := by
        apply List.filter_eq_self.mpr
        intro x hx
        have : x ≠ vanilla := precR_ne_vanilla hv (List.mem_of_mem_tail hx)
        simpa using this
      rw [h1]
      simp
    rw [hfilter]
    have hfold : (precR h c).tail.foldl (addOne st) (addOne st a c) = (precR h c).foldl (addOne st) a := by
      conv => rhs; rw [precR_eq_cons_tail hc]
      rfl
    rw [hfold]
    have := foldl_addOne_inv hI hv (precR h c) ha (fun x hx => mem_precR_defined hv hx)
    rw [extend_flatMap_precR hv hc] at this
    exact this

theorem foldl_inheritFlavor_inv {vm : List Msg} {h : List Form} {st : State} (hI : Inv vm h st)
    (hv : validR h = true) {own : Slot → Option (Option Int)} (cs : List Name) {a : Acc} {A : List Name}
    (ha : AccInv vm h own a A A) (hcs : ∀ c, c ∈ cs → c ∈ definedR h) :
    AccInv vm h own (cs.foldl (inheritFlavor st) a) (extend A (cs.flatMap (fun c => precR h c)))
      (extend A (cs.flatMap (fun c => precR h c))) := by
  induction cs generalizing a A with
  | nil => simpa using ha
  | cons c cs ih =>
    simp only [List.foldl_cons, List.flatMap_cons, extend_append]
    exact ih (inheritFlavor_inv hI hv ha (hcs c (List.mem_cons_self ..)))
      (fun y hy => hcs y (List.mem_cons_of_mem _ hy))

/-! ### the two kinds of forms keep the invariant -/

theorem ownSlotR_cons_of_defined {f : Form} {h : List Form} (hv : validR (f :: h) = true) {x : Name}
    (hx : x ∈ definedR h) (s : Slot) : ownSlotR (f :: h) x s = ownSlotR h x s := by
  cases f with
  | defflavor n0 cs sl =>
    obtain ⟨_, _, hn0, _⟩ := validR_defflavor.mp hv
    have : x ≠ n0 := fun e => hn0 (e ▸ hx)
    simp [ownSlotR, this]
  | defmethod fl k m id => simp [ownSlotR]

theorem step_defflavor_inv {vm : List Msg} {h : List Form} {st : State} (hI : Inv vm h st)
    {n : Name} {cs : List Name} {sl : List (Slot × Option Int)}
    (hv : validR (.defflavor n cs sl :: h) = true) :
    ∃ st', step st (.defflavor n cs sl) = .ok st' ∧ Inv vm (.defflavor n cs sl :: h) st' := by
  obtain ⟨hv', hnv, hn, hcs⟩ := validR_defflavor.mp hv
  have hdn : st.defd n = false := by
    cases hd : st.defd n with
    | false => rfl
    | true =>
      rcases (hI.defd n).mp hd with e | e
      · exact absurd e hnv
      · exact absurd e hn
  have hall : cs.all st.defd = true := by
    rw [List.all_eq_true]
    intro c hc
    exact (hI.defd c).mpr (Or.inr (hcs c hc).2)
  refine ⟨defflavor st n cs sl, by simp [step, hdn, hall], ?_⟩
  -- the flavor being built
  have ha0 : AccInv vm h (lookupSlot sl) { inh := [], tab := fun _ => [], slots := lookupSlot sl } [] [] := by
    refine ⟨rfl, fun m => rfl, ?_, ?_⟩
    · intro s
      simp [mergeSlot_eq_or]
    · intro x hx
      simp at hx
  have ha1 := foldl_inheritFlavor_inv hI hv' cs ha0 (fun c hc => (hcs c hc).2)
  rw [extend_nil_eq_dedup] at ha1
  -- facts about the new history
  have hprec_n : precR (.defflavor n cs sl :: h) n = n :: dedup (cs.flatMap (fun c => precR h c)) := by
    simp [precR]
  have hLdef : ∀ x, x ∈ dedup (cs.flatMap (fun c => precR h c)) → x ∈ definedR h := by
    intro x hx
    rw [mem_dedup] at hx
    obtain ⟨c, _, hxc⟩ := List.mem_flatMap.mp hx
    exact mem_precR_defined hv' hxc
  have hcombo : ∀ m, comboR vm (.defflavor n cs sl :: h) m = comboR vm h m :=
    fun m => funext (fun g => comboR_defflavor vm n cs sl h m g)
  constructor
  · intro g
    simp only [defflavor, install, definedR, List.mem_cons]
    by_cases e : g = n
    · simp [e]
    · simp only [e, if_false, false_or]
      exact hI.defd g
  · intro g hg
    simp only [defflavor, install]
    by_cases e : g = n
    · subst e
      simp only [if_true, hprec_n, List.tail_cons, ha1.inh]
    · simp only [e, if_false]
      have hg' : g ∈ definedR h := by
        simpa [definedR, e] using hg
      rw [precR_cons_of_defined hv hg']
      exact hI.inh g hg'
  · have : vanilla ≠ n := fun e => hnv e.symm
    simp only [defflavor, install, this, if_false]
    exact hI.vinh
  · intro g hg m
    simp only [defflavor, install]
    by_cases e : g = n
    · subst e
      simp only [if_true]
      unfold specCombosR flattenR
      rw [hprec_n, hcombo, ha1.tab m, hI.vtab m, List.cons_append, List.filterMap_cons,
        comboR_of_not_defined hv' m hn hnv, List.filterMap_append, filterMap_vanilla]
    · simp only [e, if_false]
      have hg' : g ∈ definedR h := by
        simpa [definedR, e] using hg
      unfold specCombosR flattenR
      rw [precR_cons_of_defined hv hg', hcombo]
      exact hI.tab g hg' m
  · intro m
    have : vanilla ≠ n := fun e => hnv e.symm
    simp only [defflavor, install, this, if_false]
    exact hI.vtab m
  · intro g hg s
    simp only [defflavor, install]
    by_cases e : g = n
    · subst e
      simp only [if_true]
      unfold specSlotR
      rw [hprec_n, List.findSome?_cons, ha1.slots s]
      have h1 : ownSlotR (.defflavor g cs sl :: h) g s = lookupSlot sl s := by simp [ownSlotR]
      have h2 : (dedup (cs.flatMap (fun c => precR h c))).findSome? (fun g' => ownSlotR (.defflavor g cs sl :: h) g' s)
          = (dedup (cs.flatMap (fun c => precR h c))).findSome? (fun g' => ownSlotR h g' s) :=
        findSome_congr' (fun x hx => ownSlotR_cons_of_defined hv (hLdef x hx) s)
      rw [h1, h2]
      cases lookupSlot sl s <;> rfl
    · simp only [e, if_false]
      have hg' : g ∈ definedR h := by
        simpa [definedR, e] using hg
      unfold specSlotR
      rw [precR_cons_of_defined hv hg']
      rw [findSome_congr' (fun x hx => ownSlotR_cons_of_defined hv (mem_precR_defined hv' hx) s)]
      exact hI.slots g hg' s

theorem flattenR_eq_cons_inh {vm : List Msg} {h : List Form} {st : State} (hI : Inv vm h st) {g : Name}
    (hg : g ∈ definedR h) : g :: st.inh g = flattenR h g := by
  unfold flattenR
  rw [hI.inh g hg]
  conv => rhs; rw [precR_eq_cons_tail hg]
  rfl

theorem step_defmethod_inv {vm : List Msg} {h : List Form} {st : State} (hI : Inv vm h st)
    {fl : Name} {k : Kind} {msg : Msg} {id : Mid}
    (hv : validR (.defmethod fl k msg id :: h) = true) :
    ∃ st', step st (.defmethod fl k msg id) = .ok st' ∧ Inv vm (.defmethod fl k msg id :: h) st' := by
  obtain ⟨hv', hflv, hfl⟩ := validR_defmethod.mp hv
  have hd : st.defd fl = true := (hI.defd fl).mpr (Or.inr hfl)
  refine ⟨defmethod st fl k msg id, by simp [step, hd], ?_⟩
  have hprec : ∀ g, precR (.defmethod fl k msg id :: h) g = precR h g := fun g => rfl
  have hown : ∀ g s, ownSlotR (.defmethod fl k msg id :: h) g s = ownSlotR h g s := fun g s => rfl
  have hsrc : ∀ m g c, comboR vm h m g = some c → c.src = g := fun m g c hc => comboR_src hc
  -- the tables: both branches of `defmethod` produce the specification of the longer history
  have htab : ∀ g, g ∈ definedR h → ∀ m,
      (defmethod st fl k msg id).tab g m = specCombosR vm (.defmethod fl k msg id :: h) g m := by
    intro g hg m
    unfold specCombosR flattenR
    rw [hprec]
    by_cases hm : ¬ m = msg
    · -- another message: nothing changes
      have h1 : (defmethod st fl k msg id).tab g m = st.tab g m := by
        unfold defmethod
        split <;> simp [hm]
      rw [h1, hI.tab g hg m]
      unfold specCombosR flattenR
      exact filterMap_congr' (fun x _ => (comboR_defmethod_other vm fl k msg id h m x (Or.inl hm)).symm)
    · have hm : m = msg := Decidable.not_not.mp hm
      subst hm
      have hnew := comboR_defmethod_same vm fl k m id h hflv
      have hother : ∀ x, x ≠ fl → comboR vm (.defmethod fl k m id :: h) m x = comboR vm h m x :=
        fun x hx => comboR_defmethod_other vm fl k m id h m x (Or.inr hx)
      -- the head of fl's own table tells whether fl already has a combination
      have hhead : ((st.tab fl m).head?.map (·.src)) = some fl ↔ (comboR vm h m fl).isSome = true := by
        rw [hI.tab fl hfl m]
        unfold specCombosR flattenR
        rw [precR_eq_cons_tail hfl, List.cons_append, List.filterMap_cons]
        cases hc : comboR vm h m fl with
        | some c => simp [hsrc m fl c hc]
        | none =>
          simp only [Option.isSome_none, Bool.false_eq_true, iff_false]
          intro hcontra
          cases hl : ((precR h fl).tail ++ [vanilla]).filterMap (comboR vm h m) with
          | nil => simp [hl] at hcontra
          | cons y ys =>
            simp only [hl, List.head?_cons, Option.map_some, Option.some.injEq] at hcontra
            have hy : y ∈ ((precR h fl).tail ++ [vanilla]).filterMap (comboR vm h m) := by
              rw [hl]; exact List.mem_cons_self ..
            obtain ⟨x, hx, hxy⟩ := List.mem_filterMap.mp hy
            have hxs := hsrc m x y hxy
            rw [hcontra] at hxs
            subst hxs
            rw [hc] at hxy
            cases hxy
      unfold defmethod
      by_cases hc : (comboR vm h m fl).isSome = true
      · -- fl already has a combination for the message: the daemon is stored into it
        obtain ⟨c0, hc0⟩ := Option.isSome_iff_exists.mp hc
        simp only [hhead.mpr hc, if_true]
        rw [hI.tab g hg m]
        unfold specCombosR flattenR
        rw [map_set_spec (comboR vm h m) (hsrc m) fl k id]
        apply filterMap_congr'
        intro x _
        by_cases hx : x = fl
        · subst hx
          simp [hnew, hc0]
        · simp [hx, hother x hx]
      · -- a new combination: spliced in at fl's precedence position
        have hc' : comboR vm h m fl = none := by
          cases hcc : comboR vm h m fl with
          | none => rfl
          | some c => simp [hcc] at hc
        have hh : ¬ ((st.tab fl m).head?.map (·.src)) = some fl := fun e => hc (hhead.mp e)
        simp only [hh, if_false, true_and]
        have hcond : (g = fl ∨ fl ∈ st.inh g) ↔ fl ∈ precR h g ++ [vanilla] := by
          have := flattenR_eq_cons_inh hI hg
          unfold flattenR at this
          rw [← this, List.mem_cons]
          constructor
          · rintro (e | e)
            · exact Or.inl e.symm
            · exact Or.inr e
          · rintro (e | e)
            · exact Or.inl e.symm
            · exact Or.inr e
        have hnewc : comboR vm (.defmethod fl k m id :: h) m fl = some (Combo.set { src := fl } k id) := by
          rw [hnew, hc']
        have hspec : (precR h g ++ [vanilla]).filterMap (comboR vm (.defmethod fl k m id :: h) m)
            = (precR h g ++ [vanilla]).filterMap
                (fun x => if x = fl then some (Combo.set { src := fl } k id) else comboR vm h m x) := by
          apply filterMap_congr'
          intro x _
          by_cases hx : x = fl
          · subst hx; simp [hnewc]
          · simp [hx, hother x hx]
        rw [hspec]
        by_cases hin : fl ∈ precR h g ++ [vanilla]
        · simp only [hcond.mpr hin, if_true]
          have hL := flattenR_eq_cons_inh hI hg
          unfold flattenR at hL
          rw [hL, hI.tab g hg m]
          unfold specCombosR flattenR
          refine splice_spec (comboR vm h m) (hsrc m) fl _ _ ?_ hin hc'
          rw [List.nodup_append]
          refine ⟨nodup_precR hv' g, by simp, ?_⟩
          intro a ha b hb
          simp at hb
          subst hb
          exact precR_ne_vanilla hv' ha
        · have : ¬ (g = fl ∨ fl ∈ st.inh g) := fun e => hin (hcond.mp e)
          simp only [this, if_false]
          rw [hI.tab g hg m]
          unfold specCombosR flattenR
          apply filterMap_congr'
          intro x hx
          have : x ≠ fl := fun e => hin (e ▸ hx)
          simp [this]
  have hrest : (defmethod st fl k msg id).defd = st.defd ∧ (defmethod st fl k msg id).inh = st.inh
      ∧ (defmethod st fl k msg id).slots = st.slots := by
    unfold defmethod
    split <;> exact ⟨rfl, rfl, rfl⟩
  constructor
  · intro g
    rw [hrest.1]
    exact hI.defd g
  · intro g hg
    rw [hrest.2.1, hprec]
    exact hI.inh g hg
  · rw [hrest.2.1]
    exact hI.vinh
  · intro g hg m
    exact htab g hg m
  · intro m
    -- vanilla-flavor's own table is never touched: fl ≠ vanilla and vanilla inherits nothing
    have hsrcv : ∀ c, c ∈ st.tab vanilla m → c.src ≠ fl := by
      intro c hc
      rw [hI.vtab m] at hc
      rw [vanillaTab_src hc]
      exact fun e => hflv e.symm
    unfold defmethod
    split
    · by_cases hm : m = msg
      · simp only [hm, if_true]
        rw [← hI.vtab msg]
        have : (st.tab vanilla msg).map (fun c => if c.src = fl then c.set k id else c) = st.tab vanilla msg := by
          conv => rhs; rw [← List.map_id (st.tab vanilla msg)]
          apply List.map_congr_left
          intro c hc
          have := hsrcv c (hm ▸ hc)
          simp [this]
        exact this
      · simp only [hm, if_false]
        exact hI.vtab m
    · have : ¬ (m = msg ∧ (vanilla = fl ∨ fl ∈ st.inh vanilla)) := by
        rintro ⟨_, e | e⟩
        · exact hflv e.symm
        · rw [hI.vinh] at e
          simp at e
      simp only [this, if_false]
      exact hI.vtab m
  · intro g hg s
    rw [hrest.2.2]
    unfold specSlotR
    rw [hprec]
    exact hI.slots g hg s

/-! ## Part 6: running a valid history -/

theorem runFrom_append (st : State) (h1 h2 : List Form) :
    runFrom st (h1 ++ h2) = match runFrom st h1 with
      | .ok st' => runFrom st' h2
      | .error e => .error e := by
  induction h1 generalizing st with
  | nil => rfl
  | cons f h1 ih =>
    simp only [List.cons_append, runFrom]
    cases step st f with
    | ok st' => exact ih st'
    | error e => rfl

/-- every valid history (given newest first) runs, and the state it reaches is the specification -/
theorem run_inv (vm : List Msg) (hr : List Form) (hv : validR hr = true) :
    ∃ st, run vm hr.reverse = .ok st ∧ Inv vm hr st := by
  induction hr with
  | nil => exact ⟨init vm, rfl, inv_init vm⟩
  | cons f older ih =>
    obtain ⟨st, hrun, hI⟩ := ih (validR_tail hv)
    have hstep : ∃ st', step st f = .ok st' ∧ Inv vm (f :: older) st' := by
      cases f with
      | defflavor n cs sl => exact step_defflavor_inv hI hv
      | defmethod fl k m id => exact step_defmethod_inv hI hv
    obtain ⟨st', hs, hI'⟩ := hstep
    refine ⟨st', ?_, hI'⟩
    unfold run at hrun ⊢
    rw [List.reverse_cons, runFrom_append, hrun]
    simp [runFrom, hs]

/-! ## Part 7: the order of a send -/

theorem callFrom_spec (all rest : List Combo) :
    callFrom all rest = (rest.filterMap (·.whopper)).map Ev.whopIn ++ innerCall all
      ++ ((rest.filterMap (·.whopper)).reverse.map Ev.whopOut) := by
  induction rest with
  | nil => simp [callFrom]
  | cons c rest ih =>
    cases hw : c.whopper with
    | none => simp [callFrom, hw, ih]
    | some w => simp [callFrom, hw, ih]

theorem comboR_get (vm : List Msg) (h : List Form) (m : Msg) (g : Name) (k : Kind) :
    (comboR vm h m g).bind (fun c => c.get k) = daemonVR vm h m k g := by
  unfold comboR daemonVR
  by_cases hg : g = vanilla
  · simp only [hg, if_true]
    unfold vanillaTab
    by_cases hm : m ∈ vm <;> cases k <;> simp [hm, Combo.get]
  · simp only [hg, if_false]
    cases k
    all_goals
      generalize daemonR h g Kind.primary m = P
      generalize daemonR h g Kind.before m = B
      generalize daemonR h g Kind.after m = A
      generalize daemonR h g Kind.whopper m = W
      cases P <;> cases B <;> cases A <;> cases W <;> simp [Combo.get]

theorem specCombosR_get (vm : List Msg) (h : List Form) (fl : Name) (m : Msg) (k : Kind) :
    (specCombosR vm h fl m).filterMap (fun c => c.get k) = daemonsR vm h fl m k := by
  unfold specCombosR daemonsR
  rw [List.filterMap_filterMap]
  exact filterMap_congr' (fun g _ => comboR_get vm h m g k)

theorem sendTrace_spec (vm : List Msg) (h : List Form) (fl : Name) (m : Msg) :
    sendTrace (specCombosR vm h fl m) = specTraceR vm h fl m := by
  unfold sendTrace specTraceR
  rw [callFrom_spec]
  unfold innerCall
  have hw := specCombosR_get vm h fl m .whopper
  have hb := specCombosR_get vm h fl m .before
  have hp := specCombosR_get vm h fl m .primary
  have ha := specCombosR_get vm h fl m .after
  simp only [Combo.get] at hw hb hp ha
  rw [hw, hb, hp, ha]
  simp only [List.append_assoc]

theorem sendResult_spec (vm : List Msg) (h : List Form) (fl : Name) (m : Msg) :
    sendResult (specCombosR vm h fl m) = (daemonsR vm h fl m .primary).head? := by
  unfold sendResult
  have hp := specCombosR_get vm h fl m .primary
  simp only [Combo.get] at hp
  rw [hp]

/-! ## Part 8: the specification does not depend on the order of the forms -/

theorem flatMap_congr' {α β : Type} {f g : α → List β} {l : List α} (h : ∀ x ∈ l, f x = g x) :
    l.flatMap f = l.flatMap g := by
  induction l with
  | nil => rfl
  | cons a l ih =>
    simp only [List.flatMap_cons, h a (List.mem_cons_self ..),
      ih (fun x hx => h x (List.mem_cons_of_mem _ hx))]

theorem mem_definedR_iff {h : List Form} {n : Name} :
    n ∈ definedR h ↔ ∃ cs sl, Form.defflavor n cs sl ∈ h := by
  induction h with
  | nil => simp [definedR]
  | cons f h ih =>
    cases f with
    | defflavor n0 cs0 sl0 =>
      simp only [definedR, List.mem_cons, ih]
      constructor
      · rintro (e | ⟨cs, sl, hm⟩)
        · exact ⟨cs0, sl0, Or.inl (by rw [e])⟩
        · exact ⟨cs, sl, Or.inr hm⟩
      · rintro ⟨cs, sl, e | hm⟩
        · injection e with e1
          exact Or.inl e1
        · exact Or.inr ⟨cs, sl, hm⟩
    | defmethod fl k m id =>
      simp only [definedR, List.mem_cons, ih]
      constructor
      · rintro ⟨cs, sl, hm⟩
        exact ⟨cs, sl, Or.inr hm⟩
      · rintro ⟨cs, sl, e | hm⟩
        · cases e
        · exact ⟨cs, sl, hm⟩

/-- components are defined -/
theorem comps_defined {h : List Form} (hv : validR h = true) {n : Name} {cs : List Name}
    {sl : List (Slot × Option Int)} (hm : Form.defflavor n cs sl ∈ h) : ∀ c ∈ cs, c ∈ definedR h := by
  induction h with
  | nil => simp at hm
  | cons f h ih =>
    have hv' := validR_tail hv
    have hsub : ∀ c, c ∈ definedR h → c ∈ definedR (f :: h) := by
      intro c hc
      cases f <;> simp [definedR, hc]
    rcases List.mem_cons.mp hm with e | hm'
    · subst e
      obtain ⟨_, _, _, hcs⟩ := validR_defflavor.mp hv
      exact fun c hc => hsub c (hcs c hc).2
    · exact fun c hc => hsub c (ih hv' hm' c hc)

/-- the recursive equation of the precedence list, with everything taken in the WHOLE history -/
theorem precR_equation {h : List Form} (hv : validR h = true) {n : Name} {cs : List Name}
    {sl : List (Slot × Option Int)} (hm : Form.defflavor n cs sl ∈ h) :
    precR h n = n :: dedup (cs.flatMap (fun c => precR h c)) := by
  induction h with
  | nil => simp at hm
  | cons f h ih =>
    have hv' := validR_tail hv
    rcases List.mem_cons.mp hm with e | hm'
    · subst e
      obtain ⟨_, _, _, hcs⟩ := validR_defflavor.mp hv
      have : cs.flatMap (fun c => precR (Form.defflavor n cs sl :: h) c) = cs.flatMap (fun c => precR h c) :=
        flatMap_congr' (fun c hc => precR_cons_of_defined hv (hcs c hc).2)
      rw [this]
      simp [precR]
    · have hn : n ∈ definedR h := mem_definedR_iff.mpr ⟨cs, sl, hm'⟩
      have hcs := comps_defined hv' hm'
      have : cs.flatMap (fun c => precR (f :: h) c) = cs.flatMap (fun c => precR h c) :=
        flatMap_congr' (fun c hc => precR_cons_of_defined hv (hcs c hc))
      rw [this, precR_cons_of_defined hv hn]
      exact ih hv' hm'

/-- … and that equation has only one solution on the defined flavors -/
theorem precR_unique {h : List Form} (hv : validR h = true) (G : Name → List Name)
    (hG : ∀ n cs sl, Form.defflavor n cs sl ∈ h → G n = n :: dedup (cs.flatMap G)) :
    ∀ n, n ∈ definedR h → G n = precR h n := by
  induction h with
  | nil => intro n hn; simp [definedR] at hn
  | cons f h ih =>
    have hv' := validR_tail hv
    have ih' := ih hv' (fun n cs sl hm => hG n cs sl (List.mem_cons_of_mem _ hm))
    intro n hn
    cases f with
    | defflavor n0 cs0 sl0 =>
      obtain ⟨_, _, hn0, hcs⟩ := validR_defflavor.mp hv
      by_cases e : n = n0
      · subst e
        rw [hG n cs0 sl0 (List.mem_cons_self ..)]
        have : cs0.flatMap G = cs0.flatMap (fun c => precR h c) :=
          flatMap_congr' (fun c hc => ih' c (hcs c hc).2)
        rw [this]
        simp [precR]
      · have hn' : n ∈ definedR h := by simpa [definedR, e] using hn
        rw [precR_cons_of_defined hv hn']
        exact ih' n hn'
    | defmethod fl k m id =>
      have hn' : n ∈ definedR h := by simpa [definedR] using hn
      rw [precR_cons_of_defined hv hn']
      exact ih' n hn'

theorem definedR_perm {h1 h2 : List Form} (hp : h1.Perm h2) (n : Name) :
    n ∈ definedR h1 ↔ n ∈ definedR h2 := by
  simp only [mem_definedR_iff, hp.mem_iff]

theorem precR_perm {h1 h2 : List Form} (hv1 : validR h1 = true) (hv2 : validR h2 = true)
    (hp : h1.Perm h2) {n : Name} (hn : n ∈ definedR h1) : precR h1 n = precR h2 n := by
  have := precR_unique hv1 (fun g => precR h2 g)
    (fun g cs sl hm => precR_equation hv2 (hp.mem_iff.mp hm)) n hn
  exact this.symm

theorem daemonR_mem {h : List Form} {g : Name} {k : Kind} {m : Msg} {id : Mid}
    (hd : daemonR h g k m = some id) : Form.defmethod g k m id ∈ h := by
  induction h with
  | nil => simp [daemonR] at hd
  | cons f h ih =>
    cases f with
    | defflavor n cs sl =>
      simp only [daemonR] at hd
      exact List.mem_cons_of_mem _ (ih hd)
    | defmethod fl k' m' id' =>
      simp only [daemonR] at hd
      split at hd
      · rename_i hc
        obtain ⟨e1, e2, e3⟩ := hc
        injection hd with e4
        subst e1 e2 e3 e4
        exact List.mem_cons_self ..
      · exact List.mem_cons_of_mem _ (ih hd)

theorem mem_methodKeysR {h : List Form} {g : Name} {k : Kind} {m : Msg} {id : Mid}
    (hm : Form.defmethod g k m id ∈ h) : (g, k, m) ∈ methodKeysR h := by
  induction h with
  | nil => simp at hm
  | cons f h ih =>
    rcases List.mem_cons.mp hm with e | hm'
    · subst e
      simp [methodKeysR]
    · cases f <;> simp [methodKeysR, ih hm']

theorem methodKeysR_eq_filterMap (h : List Form) :
    methodKeysR h = h.filterMap (fun f => match f with
      | .defmethod fl k m _ => some (fl, k, m)
      | .defflavor .. => none) := by
  induction h with
  | nil => rfl
  | cons f h ih => cases f <;> simp [methodKeysR, ih]

theorem methodKeysR_nodup_perm {h1 h2 : List Form} (hp : h1.Perm h2) (hu : (methodKeysR h1).Nodup) :
    (methodKeysR h2).Nodup := by
  rw [methodKeysR_eq_filterMap] at hu ⊢
  exact (hp.filterMap _).nodup_iff.mp hu

/-- with one form per (flavor, kind, message) the form found is the form there is -/
theorem daemonR_of_mem {h : List Form} (hu : (methodKeysR h).Nodup) {g : Name} {k : Kind} {m : Msg}
    {id : Mid} (hm : Form.defmethod g k m id ∈ h) : daemonR h g k m = some id := by
  induction h with
  | nil => simp at hm
  | cons f h ih =>
    cases f with
    | defflavor n cs sl =>
      simp only [methodKeysR] at hu
      rcases List.mem_cons.mp hm with e | hm'
      · cases e
      · simpa [daemonR] using ih hu hm'
    | defmethod fl k' m' id' =>
      simp only [methodKeysR, List.nodup_cons] at hu
      rcases List.mem_cons.mp hm with e | hm'
      · injection e with e1 e2 e3 e4
        subst e1 e2 e3 e4
        simp [daemonR]
      · simp only [daemonR]
        split
        · rename_i hc
          obtain ⟨e1, e2, e3⟩ := hc
          subst e1 e2 e3
          exact absurd (mem_methodKeysR hm') hu.1
        · exact ih hu.2 hm'

theorem daemonR_perm {h1 h2 : List Form} (hp : h1.Perm h2) (hu : (methodKeysR h1).Nodup)
    (g : Name) (k : Kind) (m : Msg) : daemonR h1 g k m = daemonR h2 g k m := by
  have hu2 := methodKeysR_nodup_perm hp hu
  cases hd : daemonR h1 g k m with
  | some id => exact (daemonR_of_mem hu2 (hp.mem_iff.mp (daemonR_mem hd))).symm
  | none =>
    cases hd2 : daemonR h2 g k m with
    | none => rfl
    | some id =>
      have := daemonR_of_mem hu (hp.mem_iff.mpr (daemonR_mem hd2))
      rw [hd] at this
      cases this

theorem comboR_perm {h1 h2 : List Form} (hp : h1.Perm h2) (hu : (methodKeysR h1).Nodup)
    (vm : List Msg) (m : Msg) (g : Name) : comboR vm h1 m g = comboR vm h2 m g := by
  simp only [comboR, daemonR_perm hp hu]

theorem ownSlotR_of_mem {h : List Form} (hv : validR h = true) {g : Name} {cs : List Name}
    {sl : List (Slot × Option Int)} (hm : Form.defflavor g cs sl ∈ h) (s : Slot) :
    ownSlotR h g s = lookupSlot sl s := by
  induction h with
  | nil => simp at hm
  | cons f h ih =>
    have hv' := validR_tail hv
    rcases List.mem_cons.mp hm with e | hm'
    · subst e
      simp [ownSlotR]
    · have hg : g ∈ definedR h := mem_definedR_iff.mpr ⟨cs, sl, hm'⟩
      rw [ownSlotR_cons_of_defined hv hg]
      exact ih hv' hm'

theorem ownSlotR_perm {h1 h2 : List Form} (hv1 : validR h1 = true) (hv2 : validR h2 = true)
    (hp : h1.Perm h2) {g : Name} (hg : g ∈ definedR h1) (s : Slot) :
    ownSlotR h1 g s = ownSlotR h2 g s := by
  obtain ⟨cs, sl, hm⟩ := mem_definedR_iff.mp hg
  rw [ownSlotR_of_mem hv1 hm, ownSlotR_of_mem hv2 (hp.mem_iff.mp hm)]

theorem specCombosR_perm {h1 h2 : List Form} (hv1 : validR h1 = true) (hv2 : validR h2 = true)
    (hp : h1.Perm h2) (hu : (methodKeysR h1).Nodup) (vm : List Msg) {fl : Name} (hfl : fl ∈ definedR h1)
    (m : Msg) : specCombosR vm h1 fl m = specCombosR vm h2 fl m := by
  unfold specCombosR flattenR
  rw [precR_perm hv1 hv2 hp hfl]
  exact filterMap_congr' (fun g _ => comboR_perm hp hu vm m g)

theorem specSlotR_perm {h1 h2 : List Form} (hv1 : validR h1 = true) (hv2 : validR h2 = true)
    (hp : h1.Perm h2) {fl : Name} (hfl : fl ∈ definedR h1) (s : Slot) :
    specSlotR h1 fl s = specSlotR h2 fl s := by
  unfold specSlotR
  rw [← precR_perm hv1 hv2 hp hfl]
  exact findSome_congr' (fun g hg => ownSlotR_perm hv1 hv2 hp (mem_precR_defined hv1 hg) s)

end SlipVerif.Flavors
