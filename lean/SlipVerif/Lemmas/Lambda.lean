import SlipVerif.Model.Lambda
/- helper lemmas for Theorems/C04.lean -/
namespace SlipVerif.Lemmas.Lambda
open SlipVerif.Lambda

/-! ### positional parts -/

theorem bindOpt_length (ps : List Param) (as : List Obj) : (bindOpt ps as).length = ps.length := by
  fun_induction bindOpt ps as <;> simp_all

/-- the j-th optional parameter gets the j-th remaining argument, or its default -/
theorem bindOpt_getElem? (ps : List Param) (as : List Obj) (j : Nat) :
    (bindOpt ps as)[j]? = ps[j]?.map (fun p => (p.name, as[j]?.getD p.default)) := by
  fun_induction bindOpt ps as generalizing j with
  | case1 => simp
  | case2 p ps ih => cases j <;> simp [ih]
  | case3 p ps a as ih => cases j <;> simp [ih]

theorem bindOpt_append (ps : List Param) (xs ys : List Obj) (h : ps.length ≤ xs.length) :
    bindOpt ps (xs ++ ys) = bindOpt ps xs := by
  induction ps generalizing xs with
  | nil => simp [bindOpt]
  | cons p ps ih =>
    cases xs with
    | nil => simp at h
    | cons x xs =>
      simp only [List.cons_append, bindOpt]
      rw [ih xs (by simpa using h)]

theorem zip_append_of_le {α β} (l : List α) (xs ys : List β) (h : l.length ≤ xs.length) :
    l.zip (xs ++ ys) = l.zip xs := by
  induction l generalizing xs with
  | nil => simp
  | cons a l ih =>
    cases xs with
    | nil => simp at h
    | cons x xs => simp [ih xs (by simpa using h)]

theorem zip_length_of_le {α β} (l : List α) (xs : List β) (h : l.length ≤ xs.length) :
    (l.zip xs).length = l.length := by
  simp [List.length_zip]; omega

/-! ### the key tail -/

/-- the arguments that spell a list of key/value pairs -/
def flat : List (String × Obj) → List Obj
  | [] => []
  | (k, v) :: ps => .kw k :: v :: flat ps

theorem flat_length (ps : List (String × Obj)) : (flat ps).length = 2 * ps.length := by
  induction ps with
  | nil => rfl
  | cons p ps ih => obtain ⟨k, v⟩ := p; simp [flat, ih]; omega

theorem flat_append (ps qs : List (String × Obj)) : flat (ps ++ qs) = flat ps ++ flat qs := by
  induction ps with
  | nil => rfl
  | cons p ps ih => obtain ⟨k, v⟩ := p; simp [flat, ih]

theorem keyPairs_flat (ps : List (String × Obj)) : keyPairs (flat ps) = .ok ps := by
  induction ps with
  | nil => rfl
  | cons p ps ih => obtain ⟨k, v⟩ := p; simp [flat, keyPairs, ih]

/-- a successful parse of the key tail is exactly its spelling -/
theorem keyPairs_ok (t : List Obj) (ps : List (String × Obj)) (h : keyPairs t = .ok ps) : t = flat ps := by
  fun_induction keyPairs t generalizing ps with
  | case1 => cases h; rfl
  | case2 => cases h
  | case3 k v rest qs hq ih =>
    simp at h; subst h
    simp [flat, ih qs hq]
  | case4 k v rest e he ih => simp at h
  | case5 => cases h

theorem keyPairs_ok_iff (t : List Obj) : (∃ ps, keyPairs t = .ok ps) ↔ ∃ ps, t = flat ps :=
  ⟨fun ⟨ps, h⟩ => ⟨ps, keyPairs_ok t ps h⟩, fun ⟨ps, h⟩ => ⟨ps, h ▸ keyPairs_flat ps⟩⟩

theorem flat_getElem?_even (ps : List (String × Obj)) (i : Nat) :
    (flat ps)[2 * i]? = ps[i]?.map (fun p => Obj.kw p.1) := by
  induction ps generalizing i with
  | nil => simp [flat]
  | cons p ps ih =>
    obtain ⟨k, v⟩ := p
    cases i with
    | zero => simp [flat]
    | succ i =>
      have : 2 * (i + 1) = 2 * i + 1 + 1 := by omega
      simp [flat, this, ih]

theorem flat_getElem?_odd (ps : List (String × Obj)) (i : Nat) :
    (flat ps)[2 * i + 1]? = ps[i]?.map (fun p => p.2) := by
  induction ps generalizing i with
  | nil => simp [flat]
  | cons p ps ih =>
    obtain ⟨k, v⟩ := p
    cases i with
    | zero => simp [flat]
    | succ i =>
      have : 2 * (i + 1) + 1 = 2 * i + 1 + 1 + 1 := by omega
      simp [flat, this, ih]

/-- a list is the spelling of key/value pairs iff it has even length and a keyword at every even index -/
theorem exists_flat_iff (t : List Obj) :
    (∃ ps, t = flat ps) ↔ t.length % 2 = 0 ∧ ∀ i, 2 * i < t.length → ∃ k, t[2 * i]? = some (.kw k) := by
  constructor
  · rintro ⟨ps, rfl⟩
    refine ⟨by simp [flat_length], fun i hi => ?_⟩
    rw [flat_length] at hi
    have hi' : i < ps.length := by omega
    exact ⟨ps[i].1, by simp [flat_getElem?_even, List.getElem?_eq_getElem hi']⟩
  · intro ⟨hlen, hk⟩
    induction t using keyPairs.induct with
    | case1 => exact ⟨[], rfl⟩
    | case2 => simp at hlen
    | case3 k v rest ps _ ih | case4 k v rest e _ ih =>
      have : ∃ ps, rest = flat ps := by
        apply ih
        · simp at hlen; omega
        · intro i hi
          have := hk (i + 1) (by simp; omega)
          have e2 : 2 * (i + 1) = 2 * i + 1 + 1 := by omega
          simpa [e2] using this
      obtain ⟨qs, rfl⟩ := this
      exact ⟨(k, v) :: qs, rfl⟩
    | case5 a b tl hne =>
      obtain ⟨k, hk0⟩ := hk 0 (by simp)
      simp at hk0
      exact absurd hk0 (hne k)

/-! ### first occurrence -/

theorem firstVal_eq_some_iff (k : String) (ps : List (String × Obj)) (v : Obj) :
    firstVal k ps = some v ↔
      ∃ i : Nat, ps[i]? = some (k, v) ∧ ∀ j : Nat, j < i → ∀ p : String × Obj, ps[j]? = some p → p.1 ≠ k := by
  induction ps with
  | nil => simp [firstVal]
  | cons p ps ih =>
    obtain ⟨k', v'⟩ := p
    by_cases hk : k' = k
    · subst hk
      simp only [firstVal, if_true]
      constructor
      · intro h; cases h
        exact ⟨0, by simp, by intro j hj; omega⟩
      · rintro ⟨i, hi, hfirst⟩
        cases i with
        | zero => simp at hi; simp [hi]
        | succ i => exact absurd rfl (hfirst 0 (by omega) (k', v') (by simp))
    · simp only [firstVal, hk, if_false, ih]
      constructor
      · rintro ⟨i, hi, hfirst⟩
        refine ⟨i + 1, by simpa using hi, ?_⟩
        intro j hj p hp
        cases j with
        | zero => simp at hp; subst hp; exact hk
        | succ j => exact hfirst j (by omega) p (by simpa using hp)
      · rintro ⟨i, hi, hfirst⟩
        cases i with
        | zero => simp at hi; exact absurd hi.1 hk
        | succ i =>
          refine ⟨i, by simpa using hi, ?_⟩
          intro j hj p hp
          exact hfirst (j + 1) (by omega) p (by simpa using hp)

theorem firstVal_eq_none_iff (k : String) (ps : List (String × Obj)) :
    firstVal k ps = none ↔ ∀ p ∈ ps, p.1 ≠ k := by
  induction ps with
  | nil => simp [firstVal]
  | cons p ps ih =>
    obtain ⟨k', v'⟩ := p
    by_cases hk : k' = k
    · simp [firstVal, hk]
    · simp [firstVal, hk, ih]

theorem firstVal_append_first (k : String) (v : Obj) (ps qs : List (String × Obj))
    (h : ∀ p ∈ ps, p.1 ≠ k) : firstVal k (ps ++ (k, v) :: qs) = some v := by
  induction ps with
  | nil => simp [firstVal]
  | cons p ps ih =>
    obtain ⟨k', v'⟩ := p
    have hk : k' ≠ k := h (k', v') (by simp)
    simp only [List.cons_append, firstVal, hk, if_false]
    exact ih (fun p hp => h p (by simp [hp]))

/-- with distinct keys, the value found for a key does not depend on the order of the pairs -/
theorem firstVal_perm (k : String) {ps qs : List (String × Obj)} (hp : ps.Perm qs)
    (hnd : (ps.map (·.1)).Nodup) : firstVal k ps = firstVal k qs := by
  induction hp with
  | nil => rfl
  | cons x _ ih =>
    obtain ⟨k', v'⟩ := x
    simp only [List.map_cons, List.nodup_cons] at hnd
    simp [firstVal, ih hnd.2]
  | swap x y l =>
    obtain ⟨kx, vx⟩ := x
    obtain ⟨ky, vy⟩ := y
    simp only [List.map_cons, List.nodup_cons, List.mem_cons] at hnd
    have hne : ky ≠ kx := fun h => hnd.1 (Or.inl h)
    simp only [firstVal]
    by_cases h1 : ky = k
    · have : kx ≠ k := fun h => hne (h1.trans h.symm)
      simp [h1, this]
    · simp [h1]
  | trans h1 _ ih1 ih2 =>
    rw [ih1 hnd, ih2 ((h1.map (·.1)).nodup_iff.mp hnd)]

/-! ### structure of a successful binding -/

/-- the decomposition of a successful binding -/
theorem bind_ok_eq (ll : LL) (as : List Obj) (b : List (String × Obj)) (h : bind ll as = .ok b) :
    ll.req.length ≤ as.length ∧
    ∃ kb, (if ll.hasKey then bindKeys ll (as.drop ll.npos) = .ok kb else kb = []) ∧
      b = ll.req.zip as ++ bindOpt ll.opt (as.drop ll.req.length) ++
          bindRest ll.rest (as.drop ll.npos) ++ kb ++
          bindAux ll.aux := by
  unfold Lambda.bind at h
  split at h
  · cases h
  · rename_i hfew
    refine ⟨by omega, ?_⟩
    split at h
    · cases h
    · cases hk : ll.hasKey with
      | false =>
        simp only [hk, if_false] at h
        cases h
        exact ⟨[], by simp⟩
      | true =>
        simp only [hk, if_true] at h
        cases hkb : bindKeys ll (List.drop ll.npos as) with
        | error e => simp [hkb] at h
        | ok kb =>
          simp only [hkb] at h
          cases h
          exact ⟨kb, by simp⟩

theorem bindKeys_length (ll : LL) (t : List Obj) (kb) (h : bindKeys ll t = .ok kb) :
    kb.length = ll.keys.length := by
  unfold bindKeys at h
  split at h
  · cases h
  · split at h
    · cases h; simp
    · cases h

theorem length_le_of_nodup_subset {α} [DecidableEq α] :
    ∀ (l₁ l₂ : List α), l₁.Nodup → (∀ a ∈ l₁, a ∈ l₂) → l₁.length ≤ l₂.length
  | [], _, _, _ => by simp
  | a :: l₁, l₂, hnd, hsub => by
    have ha : a ∈ l₂ := hsub a (by simp)
    have hnd' := List.nodup_cons.mp hnd
    have := length_le_of_nodup_subset l₁ (l₂.erase a) hnd'.2 (by
      intro x hx
      have hxa : x ≠ a := fun e => hnd'.1 (e ▸ hx)
      exact (List.mem_erase_of_ne hxa).mpr (hsub x (by simp [hx])))
    rw [List.length_erase_of_mem ha] at this
    have hpos : 0 < l₂.length := List.length_pos_of_mem ha
    simp; omega

end SlipVerif.Lemmas.Lambda
