import SlipVerif.Lemmas.PrinterRead
/- C03 helper lemmas: the reader on a readably printed float (core only). A float is printed in the
   `e` format with the shortest digits — sign, one digit, the other digits after a point, the
   exponent marker of its format, a signed exponent of at least two digits — and the reader takes
   that token back to the same format, sign, digits and exponent. -/
namespace SlipVerif.Printer
open SlipVerif.Gen

/-- the digits after the first one -/
def fracText : List Nat → List Char
  | [] => []
  | r => '.' :: r.map digitChar

theorem mantText_eq (ds : List Nat) :
    mantText ds = (match ds with | [] => '0' | d :: _ => digitChar d) :: fracText ds.tail := by
  cases ds with
  | nil => rfl
  | cons d r => cases r <;> rfl

theorem digit10_props_fin : ∀ d : Fin 10,
    isDigitB 10 (digitChar d.val) = true ∧ lowerC (digitChar d.val) = digitChar d.val ∧
    (digitChar d.val).toNat - 48 = d.val ∧ digitChar d.val ≠ '-' ∧ digitChar d.val ≠ '+' ∧
    digitChar d.val ≠ 't' ∧ digitChar d.val ≠ 'T' ∧ digitChar d.val ≠ 'n' := by decide

theorem digit10_props (d : Nat) (h : d < 10) :
    isDigitB 10 (digitChar d) = true ∧ lowerC (digitChar d) = digitChar d ∧
    (digitChar d).toNat - 48 = d ∧ digitChar d ≠ '-' ∧ digitChar d ≠ '+' ∧
    digitChar d ≠ 't' ∧ digitChar d ≠ 'T' ∧ digitChar d ≠ 'n' := digit10_props_fin ⟨d, h⟩

/-- exponent text: a sign and digits -/
def padded (n : Nat) : List Char :=
  let t := natText 10 n
  if t.length < 2 then '0' :: t else t

theorem expText_eq (e : Int) : expText e = (if e < 0 then '-' else '+') :: padded e.natAbs := rfl

theorem padded_digits (n : Nat) : ∀ c ∈ padded n, isDigitB 10 c = true := by
  intro c hc
  have hn : ∀ c ∈ natText 10 n, isDigitB 10 c = true := natText_all_digits 10 (by omega) (by omega) n
  unfold padded at hc
  simp only at hc
  split at hc
  · simp only [List.mem_cons] at hc
    rcases hc with h | h
    · subst h; decide
    · exact hn c h
  · exact hn c hc

theorem padded_ne_nil (n : Nat) : padded n ≠ [] := by
  unfold padded
  simp only
  split
  · simp
  · exact natText_ne_nil 10 n

theorem parseNatAux_zero (cs : List Char) : parseNatAux 10 ('0' :: cs) 0 = parseNatAux 10 cs 0 := by
  simp [parseNatAux, digitVal]

theorem parseNat_padded (n : Nat) : parseNat 10 (padded n) = some n := by
  have h := parseNat_natText 10 (by omega) (by omega) n
  unfold padded
  simp only
  split
  · have hne := natText_ne_nil 10 n
    cases ht : natText 10 n with
    | nil => exact absurd ht hne
    | cons c r =>
      rw [ht] at h
      simp only [parseNat] at h ⊢
      rw [parseNatAux_zero]
      exact h
  · exact h

theorem parseSigned_expText (e : Int) : parseSigned 10 (expText e) = some e := by
  rw [expText_eq]
  by_cases h : e < 0
  · simp only [h, if_true, parseSigned, parseNat_padded, Option.map_some]
    show some (-((e.natAbs : Nat) : Int)) = some e
    congr 1; omega
  · simp only [h, if_false, parseSigned, parseNat_padded, Option.map_some]
    show some ((e.natAbs : Nat) : Int) = some e
    congr 1; omega

/-- the body of a printed float: first digit, the other digits after a point, marker, exponent -/
def floatBody (D0 : Char) (tail : List Nat) (m : Char) (e : Int) : List Char :=
  D0 :: (fracText tail ++ m :: expText e)

def IsMarker (m : Char) : Prop := m = 's' ∨ m = 'd' ∨ m = 'l'

theorem marker_props (m : Char) (hm : IsMarker m) :
    isDigitB 10 m = false ∧ m ≠ '.' ∧ isExpMarker m = true := by
  rcases hm with h | h | h <;> subst h <;> decide

theorem map_digits_all (tail : List Nat) (htail : ∀ d ∈ tail, d < 10) :
    ∀ a ∈ tail.map digitChar, isDigitB 10 a = true := by
  intro a ha
  simp only [List.mem_map] at ha
  obtain ⟨d, hd, rfl⟩ := ha
  exact (digit10_props d (htail d hd)).1

theorem floatBody_span (D0 : Char) (tail : List Nat) (m : Char) (e : Int) (hD0 : isDigitB 10 D0 = true)
    (hm : IsMarker m) :
    (floatBody D0 tail m e).takeWhile (isDigitB 10) = [D0] ∧
    (floatBody D0 tail m e).dropWhile (isDigitB 10) = fracText tail ++ m :: expText e := by
  have hmp := marker_props m hm
  have := span_run (p := isDigitB 10) [D0] (fracText tail ++ m :: expText e) (by simp [hD0])
    (by
      intro c r hcr
      cases tail with
      | nil => simp [fracText] at hcr; rw [← hcr.1]; exact hmp.1
      | cons d t => simp [fracText] at hcr; rw [← hcr.1]; decide)
  simpa [floatBody] using this

theorem frac_span (tail : List Nat) (htail : ∀ d ∈ tail, d < 10) (m : Char) (hm : IsMarker m) (X : List Char) :
    (tail.map digitChar ++ m :: X).takeWhile (isDigitB 10) = tail.map digitChar ∧
    (tail.map digitChar ++ m :: X).dropWhile (isDigitB 10) = m :: X :=
  span_run (tail.map digitChar) (m :: X) (map_digits_all tail htail)
    (by intro c r h; simp at h; rw [← h.1]; exact (marker_props m hm).1)

/-- what the reader's float branch sees after the sign -/
structure BodyFacts (D0 : Char) (tail : List Nat) (m : Char) (e : Int) : Prop where
  notInt : (let body := floatBody D0 tail m e
            let ds := body.takeWhile (isDigitB 10)
            let r := body.dropWhile (isDigitB 10)
            (!ds.isEmpty && (r == [] || r == ['.']))) = false
  isExp : (let body := floatBody D0 tail m e
           let ds := body.takeWhile (isDigitB 10)
           let afterInt := body.dropWhile (isDigitB 10)
           let afterFrac := match afterInt with
             | '.' :: fs => fs.dropWhile (isDigitB 10)
             | r => r
           match afterFrac with
           | m :: e =>
             let ed := stripSign e
             !ds.isEmpty && isExpMarker m && !ed.isEmpty && ed.all (isDigitB 10)
           | [] => false) = true

theorem stripSign_expText (e : Int) : stripSign (expText e) = padded e.natAbs := by
  rw [expText_eq]
  split <;> rfl

theorem bodyFacts (D0 : Char) (tail : List Nat) (m : Char) (e : Int) (hD0 : isDigitB 10 D0 = true)
    (htail : ∀ d ∈ tail, d < 10) (hm : IsMarker m) : BodyFacts D0 tail m e := by
  obtain ⟨h1, h2⟩ := floatBody_span D0 tail m e hD0 hm
  have hmp := marker_props m hm
  have hpad : (padded e.natAbs).all (isDigitB 10) = true := by
    rw [List.all_eq_true]; exact padded_digits _
  have hpne : (padded e.natAbs).isEmpty = false := by
    cases h : padded e.natAbs with
    | nil => exact absurd h (padded_ne_nil _)
    | cons _ _ => rfl
  constructor
  · simp only [h1, h2]
    cases tail with
    | nil => simp [fracText, hmp.2.1]
    | cons d t => simp [fracText]
  · simp only [h1, h2]
    cases tail with
    | nil =>
      simp only [fracText, List.nil_append]
      have : (match m :: expText e with
          | '.' :: fs => fs.dropWhile (isDigitB 10)
          | r => r) = m :: expText e := by
        split
        · rename_i fs heq; simp at heq; exact absurd heq.1 hmp.2.1
        · rfl
      rw [this]
      simp [hmp.2.2, stripSign_expText, hpad, hpne]
    | cons d t =>
      have hsp := frac_span (d :: t) htail m hm (expText e)
      simp only [fracText, List.cons_append]
      simp only [hsp.2]
      simp [hmp.2.2, stripSign_expText, hpad, hpne]

theorem map_val_digits (tail : List Nat) (htail : ∀ d ∈ tail, d < 10) :
    (tail.map digitChar).map (fun c => c.toNat - 48) = tail := by
  induction tail with
  | nil => rfl
  | cons d t ih =>
    simp only [List.map_cons]
    rw [(digit10_props d (htail d (by simp))).2.2.1, ih (fun x hx => htail x (by simp [hx]))]

theorem dropTrailingZeros_id (ds : List Nat) (h : ds.getLast? ≠ some 0) : dropTrailingZeros ds = ds := by
  unfold dropTrailingZeros
  cases hr : ds.reverse with
  | nil =>
    have : ds = [] := by simpa using hr
    subst this; rfl
  | cons x xs =>
    have hx : x ≠ 0 := by
      intro h0
      apply h
      have : ds = (x :: xs).reverse := by rw [← hr, List.reverse_reverse]
      rw [this, h0]
      simp
    have : List.dropWhile (· == 0) (x :: xs) = x :: xs := by
      simp [List.dropWhile_cons, hx]
    rw [this, ← hr, List.reverse_reverse]

/-- the pieces `parseFloatTok` takes a printed float apart into -/
theorem parseFloatTok_printed (neg : Bool) (d0 : Nat) (tail : List Nat) (m : Char) (e : Int)
    (hd0 : d0 < 10) (htail : ∀ d ∈ tail, d < 10) (hm : IsMarker m) :
    parseFloatTok (signText neg ++ floatBody (digitChar d0) tail m e) =
      (let all := d0 :: tail
       let k := (all.takeWhile (· == 0)).length
       let ds := dropTrailingZeros (all.dropWhile (· == 0))
       match ds with
       | [] => .ok (.flt (fmtOfMarker m) neg [] 0)
       | _ => .ok (.flt (fmtOfMarker m) neg ds ((1 : Int) + e - 1 - (k : Int)))) := by
  have hD := digit10_props d0 hd0
  have hmp := marker_props m hm
  obtain ⟨h1, h2⟩ := floatBody_span (digitChar d0) tail m e hD.1 hm
  have hstrip : stripSign (signText neg ++ floatBody (digitChar d0) tail m e) = floatBody (digitChar d0) tail m e := by
    cases neg with
    | true => rfl
    | false =>
      simp only [signText, Bool.false_eq_true, if_false, List.nil_append, floatBody]
      unfold stripSign
      split
      · rename_i heq; simp at heq; exact absurd heq.1 hD.2.2.2.2.1
      · rename_i heq; simp at heq; exact absurd heq.1 hD.2.2.2.1
      · rfl
  have hneg : ((signText neg ++ floatBody (digitChar d0) tail m e).head? == some '-') = neg := by
    cases neg with
    | true => rfl
    | false =>
      simp only [signText, Bool.false_eq_true, if_false, List.nil_append, floatBody, List.head?_cons]
      have := hD.2.2.2.1
      simp [this]
  unfold parseFloatTok
  simp only [hstrip, hneg, h1, h2]
  cases tail with
  | nil =>
    simp only [fracText, List.nil_append]
    rcases hm with rfl | rfl | rfl <;> simp [parseSigned_expText, hD.2.2.1] <;> rfl
  | cons d t =>
    have hsp := frac_span (d :: t) htail m hm (expText e)
    simp only [fracText, List.cons_append, hsp.1, hsp.2, parseSigned_expText]
    have hall : (digitChar d0 :: List.map digitChar (d :: t)).map (fun c => c.toNat - 48) = d0 :: d :: t := by
      have := map_val_digits (d0 :: d :: t) (by
        intro x hx
        simp only [List.mem_cons] at hx
        rcases hx with h | h
        · omega
        · exact htail x (by simp only [List.mem_cons]; exact h))
      simpa using this
    simp only [List.nil_append, hall, List.length_cons, List.length_nil]
    rfl

theorem stripSign_float (neg : Bool) (d0 : Nat) (hd0 : d0 < 10) (tail : List Nat) (m : Char) (e : Int) :
    stripSign (signText neg ++ floatBody (digitChar d0) tail m e) = floatBody (digitChar d0) tail m e := by
  have hD := digit10_props d0 hd0
  cases neg with
  | true => rfl
  | false =>
    simp only [signText, Bool.false_eq_true, if_false, List.nil_append, floatBody]
    unfold stripSign
    split
    · rename_i heq; simp at heq; exact absurd heq.1 hD.2.2.2.2.1
    · rename_i heq; simp at heq; exact absurd heq.1 hD.2.2.2.1
    · rfl

theorem floatE_shape (m : Char) (neg : Bool) (ds : List Nat) (e : Int) :
    floatE m neg ds e = signText neg ++ floatBody (digitChar (ds.headD 0)) ds.tail m e := by
  unfold floatE floatBody
  rw [mantText_eq]
  cases ds <;> simp <;> rfl

theorem lowerC_digit (c : Char) (h : isDigitB 10 c = true) : lowerC c = c := by
  have hr : c.toNat ≤ 57 ∨ 97 ≤ c.toNat := by
    unfold isDigitB digitVal at h
    by_cases h1 : 48 ≤ c.toNat ∧ c.toNat ≤ 57
    · omega
    · by_cases h2 : 97 ≤ c.toNat ∧ c.toNat ≤ 122
      · omega
      · simp [h1, h2] at h
  unfold lowerC
  have : ¬ (65 ≤ c.toNat ∧ c.toNat ≤ 90) := by omega
  simp [this]

theorem floatBody_lower (d0 : Nat) (hd0 : d0 < 10) (tail : List Nat) (htail : ∀ d ∈ tail, d < 10) (m : Char) (e : Int) :
    (floatBody (digitChar d0) tail m e).map lowerC = floatBody (digitChar d0) tail (lowerC m) e := by
  have hfrac : (fracText tail).map lowerC = fracText tail := by
    cases tail with
    | nil => rfl
    | cons d t =>
      show ('.' :: List.map digitChar (d :: t)).map lowerC = '.' :: List.map digitChar (d :: t)
      apply map_eq_self
      intro a ha
      simp only [List.mem_cons] at ha
      rcases ha with rfl | ha
      · decide
      · exact lowerC_digit a (map_digits_all (d :: t) htail a (by simpa using ha))
  have hexp : (expText e).map lowerC = expText e := by
    rw [expText_eq]
    simp only [List.map_cons]
    rw [map_eq_self (padded e.natAbs) (fun a ha => lowerC_digit a (padded_digits _ a ha))]
    split <;> rfl
  simp only [floatBody, List.map_cons, List.map_append, hfrac, hexp, (digit10_props d0 hd0).2.1]

theorem signText_lower (neg : Bool) : (signText neg).map lowerC = signText neg := by
  cases neg <;> rfl

theorem lower_marker (f : FFmt) : IsMarker (lowerC (markerOf f)) ∧ fmtOfMarker (lowerC (markerOf f)) = f := by
  cases f <;> exact ⟨by unfold IsMarker; decide, by decide⟩

/-- a readably printed float is classified as the float it was printed from -/
theorem classify_float (f : FFmt) (neg : Bool) (ds : List Nat) (e : Int) (hwf : FloatWF ds e) :
    classifyTok 10 (floatE (markerOf f) neg ds e) = .ok (.flt f neg ds e) := by
  have hd0 : ds.headD 0 < 10 := by
    cases ds with
    | nil => simp
    | cons d r => simpa using hwf.1 d (by simp)
  have htail : ∀ d ∈ ds.tail, d < 10 := fun d hd => hwf.1 d (List.mem_of_mem_tail hd)
  have hD := digit10_props (ds.headD 0) hd0
  obtain ⟨hm, hfm⟩ := lower_marker f
  have hlow : (floatE (markerOf f) neg ds e).map lowerC =
      signText neg ++ floatBody (digitChar (ds.headD 0)) ds.tail (lowerC (markerOf f)) e := by
    rw [floatE_shape, List.map_append, signText_lower, floatBody_lower _ hd0 _ htail]
  have hhead : ∃ c r, floatE (markerOf f) neg ds e = c :: r ∧ c ≠ 't' ∧ c ≠ 'T' ∧ lowerC c ≠ 'n' := by
    rw [floatE_shape]
    cases neg with
    | true => exact ⟨'-', _, rfl, by decide, by decide, by decide⟩
    | false => exact ⟨_, _, rfl, hD.2.2.2.2.2.1, hD.2.2.2.2.2.2.1, by rw [hD.2.1]; exact hD.2.2.2.2.2.2.2⟩
  obtain ⟨c, r, hcr, hc1, hc2, hc3⟩ := hhead
  have hbf := bodyFacts (digitChar (ds.headD 0)) ds.tail (lowerC (markerOf f)) e hD.1 htail hm
  unfold classifyTok
  simp only [hlow]
  have h1 : ¬ (floatE (markerOf f) neg ds e = ['t'] ∨ floatE (markerOf f) neg ds e = ['T']) := by
    rw [hcr]; simp [hc1, hc2]
  have h2 : ¬ (signText neg ++ floatBody (digitChar (ds.headD 0)) ds.tail (lowerC (markerOf f)) e = ['n', 'i', 'l']) := by
    rw [← hlow, hcr]; simp [hc3]
  have h3 : isIntTok 10 (signText neg ++ floatBody (digitChar (ds.headD 0)) ds.tail (lowerC (markerOf f)) e) = false := by
    unfold isIntTok
    rw [stripSign_float neg _ hd0]
    exact hbf.notInt
  have h4 : isExpTok (signText neg ++ floatBody (digitChar (ds.headD 0)) ds.tail (lowerC (markerOf f)) e) = true := by
    unfold isExpTok
    rw [stripSign_float neg _ hd0]
    exact hbf.isExp
  simp only [h1, h2, h3, h4, if_false, Bool.or_true, if_true, Bool.false_eq_true]
  rw [parseFloatTok_printed neg _ _ _ e hd0 htail hm, hfm]
  cases ds with
  | nil =>
    have he : e = 0 := hwf.2.2.2 rfl
    subst he
    simp [dropTrailingZeros]
  | cons d r =>
    have hdne : d ≠ 0 := by
      intro h0; exact hwf.2.1 (by simp [h0])
    have hdw : List.dropWhile (· == 0) (d :: r) = d :: r := by simp [List.dropWhile_cons, hdne]
    have htw : List.takeWhile (· == 0) (d :: r) = [] := by simp [List.takeWhile_cons, hdne]
    simp only [List.headD_cons, List.tail_cons, hdw, htw, dropTrailingZeros_id (d :: r) hwf.2.2.1, List.length_nil]
    have : (1 : Int) + e - 1 - ((0 : Nat) : Int) = e := by omega
    rw [this]

/-- the characters of a printed float continue a token -/
theorem float_chars_token (hT : TablesOK) (m : Char) (hm : m = 's' ∨ m = 'd' ∨ m = 'L') (d0 : Nat) (hd0 : d0 < 10)
    (tail : List Nat) (htail : ∀ d ∈ tail, d < 10) (e : Int) :
    ∀ a ∈ fracText tail ++ m :: expText e, tokenChar a = true := by
  have hdig : ∀ a : Char, isDigitB 10 a = true → tokenChar a = true := by
    intro a ha
    unfold isDigitB at ha
    cases hv : digitVal a with
    | none => simp [hv] at ha
    | some d =>
      simp [hv] at ha
      have : a = digitChar d := by
        unfold digitVal at hv
        split at hv
        · rename_i h1
          simp at hv
          have h2 : a.toNat = 48 + d := by omega
          have : d < 10 := ha
          unfold digitChar
          simp [this]
          exact char_of_toNat a _ h2
        · split at hv
          · rename_i h1 h2
            simp at hv; omega
          · simp at hv
      exact numChar_token hT a (Or.inl (Or.inr ⟨d, by omega, this⟩))
  have hplus : tokenChar '+' = true := by
    rw [tokenChar_ascii '+' (by decide)]
    exact hT.plus_token
  intro a ha
  rw [List.mem_append] at ha
  rcases ha with ha | ha
  · cases tail with
    | nil => simp [fracText] at ha
    | cons d t =>
      simp only [fracText, List.mem_cons] at ha
      rcases ha with ha | ha
      · subst ha; exact numChar_token hT _ (Or.inr (Or.inl rfl))
      · exact hdig a (map_digits_all (d :: t) htail a (by simpa using ha))
  · simp only [List.mem_cons] at ha
    rcases ha with ha | ha
    · subst ha
      rcases hm with h | h | h <;> subst h
      · exact numChar_token hT _ (Or.inl (Or.inr ⟨28, by omega, by decide⟩))
      · exact numChar_token hT _ (Or.inl (Or.inr ⟨13, by omega, by decide⟩))
      · have hn := hT.number_token
        have := allBytes_spec hn 76 (by omega)
        rw [tokenChar_ascii 'L' (by decide)]
        simpa [isLetterByte] using this
    · rw [expText_eq] at ha
      simp only [List.mem_cons] at ha
      rcases ha with ha | ha
      · split at ha
        · subst ha; exact numChar_token hT _ (Or.inl (Or.inl rfl))
        · subst ha; exact hplus
      · exact hdig a (padded_digits _ a ha)

/-- float round trip: a finite float printed readably (any format, sign, digits, exponent), followed by
    anything that starts with a terminator, reads back as the same float -/
theorem read1_printFloat (hT : TablesOK) (cfg : PCfg) (hr : cfg.readably = true) (f : FFmt) (neg : Bool)
    (ds : List Nat) (e : Int) (hwf : FloatWF ds e) (rest : List Char) (hrest : termOrEnd rest = true) (fuel : Nat) :
    read1 10 (fuel + 1) (printFloat cfg f neg ds e ++ rest) = .ok (.flt f neg ds e, rest) := by
  have hd0 : ds.headD 0 < 10 := by
    cases ds with
    | nil => simp
    | cons d r => simpa using hwf.1 d (by simp)
  have htail : ∀ d ∈ ds.tail, d < 10 := fun d hd => hwf.1 d (List.mem_of_mem_tail hd)
  have hD := digitChar_props_fin ⟨ds.headD 0, by omega⟩
  have hmk : markerOf f = 's' ∨ markerOf f = 'd' ∨ markerOf f = 'L' := by cases f <;> simp [markerOf]
  have hcl := classify_float f neg ds e hwf
  have hbody := float_chars_token hT (markerOf f) hmk _ hd0 ds.tail htail e
  unfold printFloat
  simp only [hr, if_true]
  rw [floatE_shape] at hcl ⊢
  have hdstart : tokenStartChar (digitChar (ds.headD 0)) = true := numChar_start hT _ (Or.inr ⟨_, hd0, rfl⟩)
  have hdtok : tokenChar (digitChar (ds.headD 0)) = true := numChar_token hT _ (Or.inl (Or.inr ⟨_, by omega, rfl⟩))
  cases neg with
  | true =>
    simp only [signText, if_true, List.cons_append, List.nil_append, floatBody] at hcl ⊢
    rw [show '-' :: digitChar (ds.headD 0) :: ((fracText ds.tail ++ markerOf f :: expText e) ++ rest) =
        '-' :: ((digitChar (ds.headD 0) :: (fracText ds.tail ++ markerOf f :: expText e)) ++ rest) by simp]
    rw [read1_token hT 10 fuel '-' _ rest (by decide) (by decide) (by decide) (by decide) (by decide) (by decide)
      (numChar_start hT _ (Or.inl rfl))
      (by
        intro a ha
        simp only [List.mem_cons] at ha
        rcases ha with ha | ha
        · subst ha; exact hdtok
        · exact hbody a ha) hrest, hcl]
    rfl
  | false =>
    simp only [signText, Bool.false_eq_true, if_false, List.nil_append, floatBody, List.cons_append] at hcl ⊢
    rw [read1_token hT 10 fuel _ _ rest hD.2.2.2.2.1 hD.2.2.2.2.2.1 hD.2.2.2.2.2.2.1 hD.2.2.2.2.2.2.2.1
      hD.2.2.2.2.2.2.2.2.1 hD.2.2.2.2.2.2.2.2.2.1 hdstart hbody hrest, hcl]
    rfl

end SlipVerif.Printer
