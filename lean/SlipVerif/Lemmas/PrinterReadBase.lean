import SlipVerif.Lemmas.PrinterSym
/- C03 helper lemmas: integers printed without radix marker and read with *read-base* = *print-base*
   (core only) -/
namespace SlipVerif.Printer
open SlipVerif.Gen

theorem digitChar_not_T_fin : ∀ d : Fin 36, digitChar d.val ≠ 'T' ∧ (digitChar d.val = 't' → d.val = 29) ∧
    (digitChar d.val = 'n' → d.val = 23) := by decide

/-- an integer token in base `b` read in base `b` is that integer, unless its digits spell `t` or `nil` -/
theorem classify_int_base (b : Nat) (hb : 2 ≤ b) (hb36 : b ≤ 36) (n : Int)
    (ht : intText b n ≠ ['t']) (hn : intText b n ≠ ['n', 'i', 'l']) :
    classifyTok b (intText b n) = .ok (.int n) := by
  have hlow := intText_lower b hb hb36 n
  obtain ⟨c, r, hhead, hc⟩ := intText_head b hb hb36 n
  have hT : intText b n ≠ ['T'] := by
    rw [hhead]
    intro h
    simp at h
    rcases hc with hc | ⟨d, hd, _, hc⟩
    · rw [hc] at h; exact absurd h.1 (by decide)
    · rw [hc] at h; exact (digitChar_not_T_fin ⟨d, hd⟩).1 h.1
  have h1 : ¬ (intText b n = ['t'] ∨ intText b n = ['T']) := by
    intro h; rcases h with h | h
    · exact ht h
    · exact hT h
  have hint := isIntTok_intText b hb hb36 n [] (Or.inl rfl)
  have htw := takeWhile_notdot_intText b hb hb36 n [] (Or.inl rfl)
  simp only [List.append_nil] at hint htw
  unfold classifyTok
  simp only [hlow, h1, hn, if_false, hint, if_true, htw, parseSigned_intText b hb hb36 n]

/-- the digits of an integer spell `t` only for 29 in a base above 29 -/
theorem intText_t (b : Nat) (hb : 2 ≤ b) (hb36 : b ≤ 36) (n : Int) (h : intText b n = ['t']) : 29 < b := by
  obtain ⟨c, r, hhead, hc⟩ := intText_head b hb hb36 n
  rw [hhead] at h
  simp at h
  rcases hc with hc | ⟨d, hd, hdb, hc⟩
  · rw [hc] at h; exact absurd h.1 (by decide)
  · rw [hc] at h
    have := (digitChar_not_T_fin ⟨d, hd⟩).2.1 h.1
    simp at this
    omega

/-- … and `nil` only in a base above 23 -/
theorem intText_nil (b : Nat) (hb : 2 ≤ b) (hb36 : b ≤ 36) (n : Int) (h : intText b n = ['n', 'i', 'l']) : 23 < b := by
  obtain ⟨c, r, hhead, hc⟩ := intText_head b hb hb36 n
  rw [hhead] at h
  simp at h
  rcases hc with hc | ⟨d, hd, hdb, hc⟩
  · rw [hc] at h; exact absurd h.1 (by decide)
  · rw [hc] at h
    have := (digitChar_not_T_fin ⟨d, hd⟩).2.2 h.1
    simp at this
    omega

theorem digitChar_start (hT : TablesOK) (d : Nat) (hd : d < 36) :
    tokenStartChar (digitChar d) = true ∧ needPipeChar (digitChar d) = false ∨
    tokenStartChar (digitChar d) = true := by
  have hp := digitChar_props_fin ⟨d, hd⟩
  by_cases h10 : d < 10
  · exact Or.inr (numChar_start hT _ (Or.inr ⟨d, h10, rfl⟩))
  · have hl : isLetterC (digitChar d) = true := by
      have : ∀ d : Fin 36, 10 ≤ d.val → isLetterC (digitChar d.val) = true := by decide
      exact this ⟨d, hd⟩ (by simp; omega)
    have hnp := letter_noPipe hT _ hl
    exact Or.inl ⟨noPipe_start hT _ hnp, hnp⟩

/-- the reader, with `*read-base*` bound to the print base, on an integer printed without radix -/
theorem read1_int_readbase (hT : TablesOK) (b : Nat) (hb : 2 ≤ b) (hb36 : b ≤ 36) (n : Int)
    (ht : intText b n ≠ ['t']) (hn : intText b n ≠ ['n', 'i', 'l'])
    (rest : List Char) (hrest : termOrEnd rest = true) (fuel : Nat) :
    read1 b (fuel + 1) (intText b n ++ rest) = .ok (.int n, rest) := by
  obtain ⟨c, r, hhead, hc⟩ := intText_head b hb hb36 n
  have hall : ∀ a ∈ intText b n, tokenChar a = true := fun a ha =>
    numChar_token hT a (Or.inl (intText_chars b hb hb36 n a ha))
  have hcl := classify_int_base b hb hb36 n ht hn
  rw [hhead] at hall hcl ⊢
  simp only [List.cons_append]
  have hstart : tokenStartChar c = true := by
    rcases hc with h | ⟨d, hd, _, h⟩
    · exact numChar_start hT c (Or.inl h)
    · subst h
      rcases digitChar_start hT d hd with h | h
      · exact h.1
      · exact h
  have hmisc : isWs c = false ∧ c ≠ '(' ∧ c ≠ ')' ∧ c ≠ '"' ∧ c ≠ '|' ∧ c ≠ '#' := by
    rcases hc with h | ⟨d, hd, _, h⟩
    · subst h; decide
    · subst h
      have hp := digitChar_props_fin ⟨d, hd⟩
      exact ⟨hp.2.2.2.2.1, hp.2.2.2.2.2.1, hp.2.2.2.2.2.2.1, hp.2.2.2.2.2.2.2.1, hp.2.2.2.2.2.2.2.2.1, hp.2.2.2.2.2.2.2.2.2.1⟩
  rw [read1_token hT b fuel c r rest hmisc.1 hmisc.2.1 hmisc.2.2.1 hmisc.2.2.2.1
    hmisc.2.2.2.2.1 hmisc.2.2.2.2.2 hstart (fun a ha => hall a (by simp [ha])) hrest, hcl]
  rfl

/-- no character of a printed ratio body is a point; the decimal / exponent patterns need a digit-only
    tail, which the slash breaks -/
theorem all_false_of_mem {p : Char → Bool} (l : List Char) (c : Char) (hc : c ∈ l) (hp : p c = false) : l.all p = false := by
  rw [List.all_eq_false]
  exact ⟨c, hc, by simp [hp]⟩

theorem stripSign_sub (l : List Char) : ∀ c ∈ stripSign l, c ∈ l := by
  intro c hc
  unfold stripSign at hc
  split at hc <;> simp_all

theorem mem_of_mem_dropWhile {p : Char → Bool} (l : List Char) : ∀ c ∈ l.dropWhile p, c ∈ l := by
  intro c hc
  exact (List.dropWhile_suffix p).subset hc

theorem takeWhile_all {p : Char → Bool} (l : List Char) : ∀ c ∈ l.takeWhile p, p c = true := by
  induction l with
  | nil => intro c hc; simp at hc
  | cons a as ih =>
    intro c hc
    rw [List.takeWhile_cons] at hc
    split at hc
    · simp only [List.mem_cons] at hc
      rcases hc with h | h
      · subst h; assumption
      · exact ih c h
    · simp at hc

/-- a ratio token in base `b` read in base `b` is that ratio (a token with a slash never spells t / nil) -/
theorem classify_ratio_base (b : Nat) (hb : 2 ≤ b) (hb36 : b ≤ 36) (num : Int) (den : Nat) (hden : 0 < den)
    (hco : Nat.gcd num.natAbs den = 1) :
    classifyTok b (intText b num ++ '/' :: natText b den) = .ok (.ratio num den) := by
  have hlow : (intText b num ++ '/' :: natText b den).map lowerC = intText b num ++ '/' :: natText b den := by
    apply map_eq_self
    intro c hc
    simp only [List.mem_append, List.mem_cons] at hc
    rcases hc with hc | hc | hc
    · rcases intText_chars b hb hb36 num c hc with h | ⟨d, hd, h⟩
      · subst h; decide
      · subst h; exact (digitChar_props_fin ⟨d, hd⟩).1
    · subst hc; decide
    · obtain ⟨d, hd, h⟩ := natText_chars b hb hb36 den c hc
      subst h; exact (digitChar_props_fin ⟨d, hd⟩).1
  have hslash : '/' ∈ intText b num ++ '/' :: natText b den := by simp
  have h1 : ¬ (intText b num ++ '/' :: natText b den = ['t'] ∨ intText b num ++ '/' :: natText b den = ['T']) := by
    intro h
    rcases h with h | h <;> rw [h] at hslash <;> simp at hslash
  have h2 : ¬ (intText b num ++ '/' :: natText b den = ['n', 'i', 'l']) := by
    intro h; rw [h] at hslash; simp at hslash
  have hstrip := stripSign_intText b hb hb36 num ('/' :: natText b den)
  have hrun := span_run (p := isDigitB b) (natText b num.natAbs) ('/' :: natText b den)
    (natText_all_digits b hb hb36 _) (by intro c r h; simp at h; rw [← h.1]; simp [isDigitB, digitVal])
  have hne := natText_ne_nil b num.natAbs
  have hne2 := natText_ne_nil b den
  have hint : isIntTok b (intText b num ++ '/' :: natText b den) = false := by
    unfold isIntTok
    simp [hstrip, hrun.1, hrun.2]
  -- no point anywhere in the body
  have hnodot : ∀ c ∈ natText b num.natAbs ++ '/' :: natText b den, c ≠ '.' := by
    intro c hc
    simp only [List.mem_append, List.mem_cons] at hc
    rcases hc with hc | hc | hc
    · obtain ⟨d, hd, h⟩ := natText_chars b hb hb36 _ c hc
      subst h; exact (digitChar_props_fin ⟨d, hd⟩).2.2.2.2.2.2.2.2.2.2.1
    · subst hc; decide
    · obtain ⟨d, hd, h⟩ := natText_chars b hb hb36 _ c hc
      subst h; exact (digitChar_props_fin ⟨d, hd⟩).2.2.2.2.2.2.2.2.2.2.1
  -- the base-10 digit run of the body stops before the slash, so the slash is in what follows
  have hslash10 : '/' ∈ (natText b num.natAbs ++ '/' :: natText b den).dropWhile (isDigitB 10) := by
    have hsplit := List.takeWhile_append_dropWhile (p := isDigitB 10) (l := natText b num.natAbs ++ '/' :: natText b den)
    have hmem : '/' ∈ natText b num.natAbs ++ '/' :: natText b den := by simp
    rw [← hsplit, List.mem_append] at hmem
    rcases hmem with h | h
    · have := takeWhile_all _ '/' h
      simp [isDigitB, digitVal] at this
    · exact h
  have hdec : isDecimalTok (intText b num ++ '/' :: natText b den) = false := by
    unfold isDecimalTok
    simp only [hstrip]
    cases hd : (natText b num.natAbs ++ '/' :: natText b den).dropWhile (isDigitB 10) with
    | nil => exact absurd (hd ▸ hslash10) (by simp)
    | cons c r =>
      have hcd : c ≠ '.' := hnodot c (mem_of_mem_dropWhile _ c (by rw [hd]; simp))
      simp [hcd]
  have hexp : isExpTok (intText b num ++ '/' :: natText b den) = false := by
    unfold isExpTok
    simp only [hstrip]
    cases hd : (natText b num.natAbs ++ '/' :: natText b den).dropWhile (isDigitB 10) with
    | nil => exact absurd (hd ▸ hslash10) (by simp)
    | cons c r =>
      have hcd : c ≠ '.' := hnodot c (mem_of_mem_dropWhile _ c (by rw [hd]; simp))
      rw [hd] at hslash10
      simp only [List.mem_cons] at hslash10
      have hkey : isExpMarker c = false ∨ (stripSign r).all (isDigitB 10) = false := by
        rcases hslash10 with h | h
        · left; rw [← h]; decide
        · right
          have hs : '/' ∈ stripSign r := by
            unfold stripSign
            split
            · rename_i r'
              simp only [List.mem_cons] at h
              rcases h with h | h
              · exact absurd h (by decide)
              · exact h
            · rename_i r'
              simp only [List.mem_cons] at h
              rcases h with h | h
              · exact absurd h (by decide)
              · exact h
            · exact h
          exact all_false_of_mem (p := isDigitB 10) (stripSign r) '/' hs (by decide)
      rcases hkey with hk | hk <;> simp [hcd, hk]
  have hstrip2 : stripSign (natText b den) = natText b den := by
    obtain ⟨d, r, hnt, hd, _⟩ := natText_head b hb hb36 den
    have hs := digitChar_not_sign_fin ⟨d, hd⟩
    rw [hnt]
    unfold stripSign
    split
    · rename_i heq; simp at heq; exact absurd heq.1 hs.2.1
    · rename_i heq; simp at heq; exact absurd heq.1 hs.1
    · rfl
  have hrat : isRatioTok b (intText b num ++ '/' :: natText b den) = true := by
    unfold isRatioTok
    simp only [hstrip, hrun.1, hrun.2, hstrip2]
    have hall := natText_all_digits b hb hb36 den
    simp [hne, hne2]
    exact hall
  have hsp := span_run (p := fun c => c != '/') (intText b num) ('/' :: natText b den)
    (by intro a ha; have := (intText_no_dot b hb hb36 num a ha).2; simp [this])
    (by intro c r h; simp at h; simp [← h.1])
  unfold classifyTok
  simp only [hlow, h1, h2, if_false, hint, hdec, hexp, hrat, Bool.or_self, if_true, hsp.1, hsp.2, List.drop_succ_cons,
    List.drop_zero, parseSigned_intText b hb hb36, parseSigned_natText b hb hb36, Bool.false_eq_true]
  have hne0 : den ≠ 0 := by omega
  simp [hco, hne0]

/-- the reader, with `*read-base*` bound to the print base, on a ratio printed without radix -/
theorem read1_ratio_readbase (hT : TablesOK) (b : Nat) (hb : 2 ≤ b) (hb36 : b ≤ 36) (num : Int) (den : Nat)
    (hden : 2 ≤ den) (hco : Nat.gcd num.natAbs den = 1)
    (rest : List Char) (hrest : termOrEnd rest = true) (fuel : Nat) :
    read1 b (fuel + 1) (printRatio { base := b, radix := false } num den ++ rest) = .ok (.ratio num den, rest) := by
  have hd1 : den ≠ 1 := by omega
  have hpr : printRatio { base := b, radix := false } num den = intText b num ++ '/' :: natText b den := by
    simp [printRatio, hd1]
  rw [hpr]
  obtain ⟨c, r, hhead, hc⟩ := intText_head b hb hb36 num
  have hall : ∀ a ∈ intText b num ++ '/' :: natText b den, tokenChar a = true := by
    intro a ha
    simp only [List.mem_append, List.mem_cons] at ha
    rcases ha with ha | ha | ha
    · exact numChar_token hT a (Or.inl (intText_chars b hb hb36 num a ha))
    · exact numChar_token hT a (Or.inr (Or.inr ha))
    · exact numChar_token hT a (Or.inl (Or.inr (natText_chars b hb hb36 den a ha)))
  have hcl := classify_ratio_base b hb hb36 num den (by omega) hco
  rw [hhead] at hall hcl ⊢
  simp only [List.cons_append] at hall hcl ⊢
  have hstart : tokenStartChar c = true := by
    rcases hc with h | ⟨d, hd, _, h⟩
    · exact numChar_start hT c (Or.inl h)
    · subst h
      rcases digitChar_start hT d hd with h | h
      · exact h.1
      · exact h
  have hmisc : isWs c = false ∧ c ≠ '(' ∧ c ≠ ')' ∧ c ≠ '"' ∧ c ≠ '|' ∧ c ≠ '#' := by
    rcases hc with h | ⟨d, hd, _, h⟩
    · subst h; decide
    · subst h
      have hp := digitChar_props_fin ⟨d, hd⟩
      exact ⟨hp.2.2.2.2.1, hp.2.2.2.2.2.1, hp.2.2.2.2.2.2.1, hp.2.2.2.2.2.2.2.1, hp.2.2.2.2.2.2.2.2.1, hp.2.2.2.2.2.2.2.2.2.1⟩
  rw [read1_token hT b fuel c (r ++ '/' :: natText b den) rest hmisc.1 hmisc.2.1 hmisc.2.2.1 hmisc.2.2.2.1
    hmisc.2.2.2.2.1 hmisc.2.2.2.2.2 hstart (fun a ha => hall a (by simp only [List.mem_cons]; exact Or.inr ha)) hrest, hcl]
  rfl

end SlipVerif.Printer
