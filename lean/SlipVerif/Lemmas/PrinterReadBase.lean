import SlipVerif.Lemmas.PrinterSym
/- C03 helper lemmas: integers printed without radix marker and read with *read-base* = *print-base*
   (core only) -/
namespace SlipVerif.Printer
open SlipVerif.Gen

theorem digitChar_not_T_fin : ∀ d : Fin 36, digitChar d.val ≠ 'T' ∧ (digitChar d.val = 't' → d.val = 29) ∧
    (digitChar d.val = 'n' → d.val = 23) := by decide

/-- an integer token in base `b` read in base `b` is that integer, unless its digits spell `t` or `nil` -/
theorem classify_int_base (b : Nat) (hb : 2 ≤ b) (hb36 : b ≤ 36) (n : Int)
    (ht : intText b n ≠ ['t']) (hn : intText b n ≠ ['n', 'i', 'l']) :
    classifyTok b (intText b n) = .ok (.int n) := by
  have hlow := intText_lower b hb hb36 n
  obtain ⟨c, r, hhead, hc⟩ := intText_head b hb hb36 n
  have hT : intText b n ≠ ['T'] := by
    rw [hhead]
    intro h
    simp at h
    rcases hc with hc | ⟨d, hd, _, hc⟩
    · rw [hc] at h; exact absurd h.1 (by decide)
    · rw [hc] at h; exact (digitChar_not_T_fin ⟨d, hd⟩).1 h.1
  have h1 : ¬ (intText b n = ['t'] ∨ intText b n = ['T']) := by
    intro h; rcases h with h | h
    · exact ht h
    · exact hT h
  have hint := isIntTok_intText b hb hb36 n [] (Or.inl rfl)
  have htw := takeWhile_notdot_intText b hb hb36 n [] (Or.inl rfl)
  simp only [List.append_nil] at hint htw
  unfold classifyTok
  simp only [hlow, h1, hn, if_false, hint, if_true, htw, parseSigned_intText b hb hb36 n]

/-- the digits of an integer spell `t` only for 29 in a base above 29 -/
theorem intText_t (b : Nat) (hb : 2 ≤ b) (hb36 : b ≤ 36) (n : Int) (h : intText b n = ['t']) : 29 < b := by
  obtain ⟨c, r, hhead, hc⟩ := intText_head b hb hb36 n
  rw [hhead] at h
  simp at h
  rcases hc with hc | ⟨d, hd, hdb, hc⟩
  · rw [hc] at h; exact absurd h.1 (by decide)
  · rw [hc] at h
    have := (digitChar_not_T_fin ⟨d, hd⟩).2.1 h.1
    simp at this
    omega

/-- … and `nil` only in a base above 23 -/
theorem intText_nil (b : Nat) (hb : 2 ≤ b) (hb36 : b ≤ 36) (n : Int) (h : intText b n = ['n', 'i', 'l']) : 23 < b := by
  obtain ⟨c, r, hhead, hc⟩ := intText_head b hb hb36 n
  rw [hhead] at h
  simp at h
  rcases hc with hc | ⟨d, hd, hdb, hc⟩
  · rw [hc] at h; exact absurd h.1 (by decide)
  · rw [hc] at h
    have := (digitChar_not_T_fin ⟨d, hd⟩).2.2 h.1
    simp at this
    omega

theorem digitChar_start (hT : TablesOK) (d : Nat) (hd : d < 36) :
    tokenStartChar (digitChar d) = true ∧ needPipeChar (digitChar d) = false ∨
    tokenStartChar (digitChar d) = true := by
  have hp := digitChar_props_fin ⟨d, hd⟩
  by_cases h10 : d < 10
  · exact Or.inr (numChar_start hT _ (Or.inr ⟨d, h10, rfl⟩))
  · have hl : isLetterC (digitChar d) = true := by
      have : ∀ d : Fin 36, 10 ≤ d.val → isLetterC (digitChar d.val) = true := by decide
      exact this ⟨d, hd⟩ (by simp; omega)
    have hnp := letter_noPipe hT _ hl
    exact Or.inl ⟨noPipe_start hT _ hnp, hnp⟩

/-- the reader, with `*read-base*` bound to the print base, on an integer printed without radix -/
theorem read1_int_readbase (hT : TablesOK) (b : Nat) (hb : 2 ≤ b) (hb36 : b ≤ 36) (n : Int)
    (ht : intText b n ≠ ['t']) (hn : intText b n ≠ ['n', 'i', 'l'])
    (rest : List Char) (hrest : termOrEnd rest = true) (fuel : Nat) :
    read1 b (fuel + 1) (intText b n ++ rest) = .ok (.int n, rest) := by
  obtain ⟨c, r, hhead, hc⟩ := intText_head b hb hb36 n
  have hall : ∀ a ∈ intText b n, tokenChar a = true := fun a ha =>
    numChar_token hT a (Or.inl (intText_chars b hb hb36 n a ha))
  have hcl := classify_int_base b hb hb36 n ht hn
  rw [hhead] at hall hcl ⊢
  simp only [List.cons_append]
  have hstart : tokenStartChar c = true := by
    rcases hc with h | ⟨d, hd, _, h⟩
    · exact numChar_start hT c (Or.inl h)
    · subst h
      rcases digitChar_start hT d hd with h | h
      · exact h.1
      · exact h
  have hmisc : isWs c = false ∧ c ≠ '(' ∧ c ≠ ')' ∧ c ≠ '"' ∧ c ≠ '|' ∧ c ≠ '#' := by
    rcases hc with h | ⟨d, hd, _, h⟩
    · subst h; decide
    · subst h
      have hp := digitChar_props_fin ⟨d, hd⟩
      exact ⟨hp.2.2.2.2.1, hp.2.2.2.2.2.1, hp.2.2.2.2.2.2.1, hp.2.2.2.2.2.2.2.1, hp.2.2.2.2.2.2.2.2.1, hp.2.2.2.2.2.2.2.2.2.1⟩
  rw [read1_token hT b fuel c r rest hmisc.1 hmisc.2.1 hmisc.2.2.1 hmisc.2.2.2.1
    hmisc.2.2.2.2.1 hmisc.2.2.2.2.2 hstart (fun a ha => hall a (by simp [ha])) hrest, hcl]
  rfl

end SlipVerif.Printer
