import SlipVerif.Lemmas.EvalTrace
/-! Big-step reading of the fuel-indexed evaluator and small helper lemmas used by the property
theorems. -/
namespace SlipVerif.Eval

/-- `t` evaluates from `σ` to `r` (some amount of fuel suffices) -/
def Evals (t : Task) (σ : St) (r : Res) : Prop := ∃ n, evalN n t σ = r ∧ r.1 ≠ .timeout

/-- an outcome that is not a normal return -/
def NotVal (o : Out) : Prop := ∀ vs, o ≠ .val vs

theorem evalN_add {n : Nat} {t : Task} {σ : St} {r : Res} (h : evalN n t σ = r) (hr : r.1 ≠ .timeout)
    (k : Nat) : evalN (n + k) t σ = r := by
  rcases evalN_le_add n k t σ with h' | h'
  · rw [h] at h'; exact absurd h' hr
  · rw [← h', h]

theorem evalN_ge {n m : Nat} {t : Task} {σ : St} {r : Res} (h : evalN n t σ = r) (hr : r.1 ≠ .timeout)
    (hm : n ≤ m) : evalN m t σ = r := by
  obtain ⟨k, rfl⟩ := Nat.exists_eq_add_of_le hm
  exact evalN_add h hr k

theorem Evals.det {t : Task} {σ : St} {r r' : Res} (h : Evals t σ r) (h' : Evals t σ r') : r = r' := by
  obtain ⟨n, hn, hr⟩ := h
  obtain ⟨m, hm, hr'⟩ := h'
  have h1 := evalN_ge hn hr (Nat.le_max_left n m)
  have h2 := evalN_ge hm hr' (Nat.le_max_right n m)
  rw [← h1, ← h2]

theorem listOf_ofList (l : List Obj) : listOf (ofList l) = some l := by
  induction l with
  | nil => rfl
  | cons a l ih => simp [ofList, listOf, ih]

/-- a parameter list without `&rest` is a list of required parameters -/
theorem splitRest_plain (ps : List String) (h : "&rest" ∉ ps) : splitRest ps = some (ps, none) := by
  induction ps with
  | nil => rfl
  | cons x xs ih =>
    have hx : (x == "&rest") = false := by
      simp only [beq_eq_false_iff_ne, ne_eq]; intro hx; exact h (by simp [hx])
    have hxs : "&rest" ∉ xs := fun hm => h (List.mem_cons_of_mem _ hm)
    simp [splitRest, hx, ih hxs]

theorem bindArgs_plain (ps : List String) (args : List Obj) (h : ps.length = args.length) :
    bindArgs ps none args = some (zipFrame ps args) := by
  simp [bindArgs, h]

theorem bindV_val (vs : List Obj) (σ : St) (k : List Obj → St → Res) : bindV (.val vs, σ) k = k vs σ := rfl

theorem bindV_exit {o : Out} {σ : St} (k : List Obj → St → Res) (h : NotVal o) : bindV (o, σ) k = (o, σ) := by
  cases o <;> simp [bindV]
  exact absurd rfl (h _)

theorem andThen_of_ne {o : Out} {σ : St} (k : Out → St → Res) (h : o ≠ .timeout) : andThen (o, σ) k = k o σ := by
  cases o <;> simp [andThen] at *

theorem NotVal.ret (id vs) : NotVal (.ret id vs) := by intro _ h; cases h
theorem NotVal.go (id tag) : NotVal (.go id tag) := by intro _ h; cases h
theorem NotVal.err (cls) : NotVal (.err cls) := by intro _ h; cases h
theorem NotVal.timeout : NotVal .timeout := by intro _ h; cases h

/-- a body: the first form is evaluated, its values are dropped, the rest follows in the new store -/
theorem seq_cons_val {n : Nat} {ρ : Env} {e : Obj} {es : List Obj} {σ σ1 : St} {v : List Obj} (hne : es ≠ [])
    (h1 : evalN n (.form ρ e) σ = (.val v, σ1)) :
    evalN (n + 1) (.seq ρ (e :: es)) σ = evalN n (.seq ρ es) σ1 := by
  cases es with
  | nil => exact absurd rfl hne
  | cons x xs => simp [evalN, step, stepSeq, h1, bindV]

/-- a body: a first form that does not return normally ends the body -/
theorem seq_cons_exit {n : Nat} {ρ : Env} {e : Obj} {es : List Obj} {σ σ1 : St} {o : Out}
    (h : evalN n (.form ρ e) σ = (o, σ1)) (ho : NotVal o) :
    evalN (n + 1) (.seq ρ (e :: es)) σ = (o, σ1) := by
  cases es with
  | nil => simp [evalN, step, stepSeq, h]
  | cons x xs => simp [evalN, step, stepSeq, h, bindV_exit _ ho]

end SlipVerif.Eval
