import SlipVerif.Model.Reader
/-
  The stack invariant of the reader: the indexes in `starts` increase and each points at an opener
  marker on the stack. It is what makes "depth > 0 at the end of the text" imply "the stack is not
  empty", i.e. a truncated list can never be reported as complete.
-/
namespace SlipVerif.Reader

def Inv (c : Core) : Prop :=
  c.starts.Pairwise (· < ·) ∧ ∀ i ∈ c.starts, ∃ k, c.stack[i]? = some (.opener k)

theorem inv_init : Inv {} := by simp [Inv]

theorem inv_congr {c c' : Core} (h : Inv c) (hs : c'.stack = c.stack) (ht : c'.starts = c.starts) : Inv c' := by
  unfold Inv at *; rw [hs, ht]; exact h

theorem inv_fail {c : Core} (e : Err) (h : Inv c) : Inv (c.fail e) :=
  inv_congr h rfl rfl

theorem inv_lt {c : Core} (h : Inv c) {i : Nat} (hi : i ∈ c.starts) : i < c.stack.length := by
  obtain ⟨k, hk⟩ := h.2 i hi
  exact (List.getElem?_eq_some_iff.mp hk).1

/-- appending to the stack keeps the invariant -/
theorem inv_append {c : Core} (o : Obj) (h : Inv c) : Inv { c with stack := c.stack ++ [o] } := by
  refine ⟨h.1, ?_⟩
  intro i hi
  obtain ⟨k, hk⟩ := h.2 i hi
  exact ⟨k, by simp [List.getElem?_append_left (inv_lt h hi), hk]⟩

theorem inv_push {c : Core} (o : Obj) (h : Inv c) : Inv (c.push o) := by
  unfold Core.push
  cases hs : c.stack with
  | nil => exact inv_congr h (by simp [hs]) rfl
  | cons x xs => simpa [hs] using inv_append o h

theorem inv_openWith {c : Core} (k : Opener) (h : Inv c) : Inv (openWith c k) := by
  unfold openWith
  refine ⟨?_, ?_⟩
  · simp only [List.pairwise_append, List.pairwise_cons, List.Pairwise.nil, List.mem_singleton]
    refine ⟨h.1, by simp, ?_⟩
    intro a ha b hb; subst hb; exact inv_lt h ha
  · intro i hi
    simp only [List.mem_append, List.mem_singleton] at hi
    rcases hi with hi | hi
    · obtain ⟨k', hk'⟩ := h.2 i hi
      exact ⟨k', by simp [List.getElem?_append_left (inv_lt h hi), hk']⟩
    · subst hi; exact ⟨k, by simp⟩

/-- replacing a top of stack that is not an opener keeps the invariant -/
theorem inv_replace_top {c : Core} (w : Obj) (h : Inv c) (m : Marker)
    (htop : c.stack.getLast? = some (.mark m)) : Inv { c with stack := c.stack.dropLast ++ [w] } := by
  refine ⟨h.1, ?_⟩
  intro i hi
  obtain ⟨k, hk⟩ := h.2 i hi
  have hlt := inv_lt h hi
  have hne : i ≠ c.stack.length - 1 := by
    intro heq
    have : c.stack.getLast? = c.stack[c.stack.length - 1]? := List.getLast?_eq_getElem?
    rw [this, ← heq, hk] at htop
    cases htop
  have hlt' : i < c.stack.dropLast.length := by simp; omega
  exact ⟨k, by simp [List.getElem?_append_left hlt', List.getElem?_dropLast, hk]; omega⟩


theorem inv_pushToken (cfg : Cfg) {c : Core} (tok : List Byte) (h : Inv c) : Inv (pushToken cfg c tok) := by
  unfold pushToken
  split
  · exact inv_push _ h
  · split
    · exact inv_push _ h
    · split
      · rename_i m htop
        split
        · -- the marker is the only element: no start can point at it
          rename_i x hx
          refine ⟨by
            have : c.starts = [] := by
              cases hst : c.starts with
              | nil => rfl
              | cons i is =>
                exfalso
                have hi : i ∈ c.starts := by simp [hst]
                obtain ⟨k, hk⟩ := h.2 i hi
                have hlt := inv_lt h hi
                simp [hx] at hlt
                subst hlt
                simp [hx] at hk htop
                rw [hk] at htop; cases htop
            simpa [this] using h.1, ?_⟩
          intro i hi
          exfalso
          obtain ⟨k, hk⟩ := h.2 i hi
          have hlt := inv_lt h hi
          simp [hx] at hlt
          subst hlt
          simp [hx] at hk htop
          rw [hk] at htop; cases htop
        · exact inv_replace_top _ h m htop
      · exact inv_push _ h

theorem inv_pushInteger {c : Core} (tok : List Byte) (h : Inv c) : Inv (pushInteger c tok) := by
  unfold pushInteger
  repeat' split
  all_goals try simp only []
  all_goals first | exact inv_push _ h | exact inv_fail _ h

theorem inv_pushChar (T : Tables) {c : Core} (tok : List Byte) (h : Inv c) : Inv (pushChar T c tok) := by
  unfold pushChar
  repeat' split
  all_goals try simp only []
  all_goals repeat' split
  all_goals first | exact inv_push _ h | exact inv_fail _ h

theorem inv_pushBits {c : Core} (tok : List Byte) (h : Inv c) : Inv (pushBits c tok) := inv_push _ h

theorem inv_consume (T : Tables) (cfg : Cfg) (t : TMode) {c : Core} (tok : List Byte) (h : Inv c) :
    Inv (consume T cfg t c tok) := by
  cases t
  · exact inv_pushToken cfg tok h
  · exact inv_pushChar T tok h
  · exact inv_pushInteger tok h
  · exact inv_pushBits tok h

theorem inv_setBase {c : Core} (b : Option (Option Nat)) (h : Inv c) : Inv (setBase c b) := by
  unfold setBase
  split <;> exact inv_congr h rfl rfl

theorem inv_commaAtTop {c c' : Core} (h : Inv c) (hc : commaAtTop c = some c') : Inv c' := by
  unfold commaAtTop at hc
  split at hc
  · rename_i htop
    cases hc
    exact inv_replace_top _ h _ htop
  · cases hc


theorem dropLast_lt_last {l : List Nat} {x : Nat} (hp : l.Pairwise (· < ·)) (hl : l.getLast? = some x) :
    ∀ i ∈ l.dropLast, i < x := by
  obtain ⟨ys, hys⟩ := List.getLast?_eq_some_iff.mp hl
  subst hys
  rw [List.pairwise_append] at hp
  intro i hi
  simp at hi
  exact hp.2.2 i hi x (by simp)

theorem inv_place {c : Core} (start : Nat) (obj : Obj) (h : Inv c)
    (hlt : ∀ i ∈ c.starts.dropLast, i < start) : Inv (c.place start obj) := by
  unfold Core.place
  split
  · refine ⟨List.Pairwise.sublist (List.dropLast_sublist _) h.1, ?_⟩
    intro i hi
    have hmem : i ∈ c.starts := List.dropLast_subset _ hi
    obtain ⟨k, hk⟩ := h.2 i hmem
    have h1 := hlt i hi
    have h2 := inv_lt h hmem
    have h3 : i < (c.stack.take start).length := by simp; omega
    exact ⟨k, by simp [List.getElem?_append_left h3, List.getElem?_take, h1, hk]⟩
  · simp [Inv]

theorem inv_closeList {c : Core} (h : Inv c) : Inv (closeList c) := by
  unfold closeList
  split
  · exact inv_fail _ h
  · rename_i start hlast
    have hlt := dropLast_lt_last h.1 hlast
    simp only []
    split
    · exact inv_place _ _ h hlt
    · split
      · exact inv_place _ _ h hlt
      · split
        · exact inv_fail _ h
        · split
          · exact inv_fail _ h
          · exact inv_place _ _ h hlt
    · split
      · split
        · exact inv_place _ _ h hlt
        · exact inv_fail _ h
      · exact inv_fail _ h
    · split
      · split
        · rename_i m hm
          apply inv_place _ _ h
          intro i hi
          have h1 := hlt i hi
          have hmem : i ∈ c.starts := List.dropLast_subset _ hi
          obtain ⟨k, hk⟩ := h.2 i hmem
          have : i ≠ start - 1 := by
            intro heq; rw [heq, hm] at hk; cases hk
          omega
        · exact inv_place _ _ h hlt
      · exact inv_place _ _ h hlt

theorem inv_plainAct (T : Tables) {c : Core} (a : Action) (b : Byte) (h : Inv c) : Inv (plainAct T c a b) := by
  unfold plainAct
  cases a <;> simp only []
  all_goals first
    | exact h
    | exact inv_openWith _ h
    | exact inv_closeList h
    | exact inv_congr h rfl rfl
    | exact inv_append _ h
    | (repeat' split) <;> first | exact inv_openWith _ h | exact inv_fail _ h | exact inv_append _ h

theorem inv_oneCheck (cfg : Cfg) (pos : Nat) (b : Byte) {c : Core} (h : Inv c) : Inv (oneCheck cfg pos b c) := by
  unfold oneCheck
  split
  · exact h
  · split
    · exact inv_congr h rfl rfl
    · exact h


theorem inv_plainStep1 (T : Tables) {s : S1} (p : PMode) (b : Byte) (h : Inv s.core) :
    Inv (plainStep1 T s p b).core := by
  unfold plainStep1
  split
  · exact inv_fail _ h
  · split
    · exact inv_plainAct T _ b h
    · exact h
    · split
      · rename_i c hc; exact inv_commaAtTop h hc
      · exact h
    · exact inv_setBase _ h
    · exact inv_congr h rfl rfl
    · exact h
    · exact inv_fail _ h
    · exact inv_fail _ h

theorem inv_chrStartStep1 (T : Tables) {s : S1} (b : Byte) (h : Inv s.core) : Inv (chrStartStep1 T s b).core := by
  unfold chrStartStep1
  repeat' split
  all_goals first | exact h | exact inv_fail _ h

theorem inv_tokStep1 (T : Tables) (cfg : Cfg) {s : S1} (t : TMode) (b : Byte) (h : Inv s.core) :
    Inv (tokStep1 T cfg s t b).core := by
  unfold tokStep1
  split
  · exact inv_fail _ h
  · split
    · exact h
    · split
      · simp only []
        split
        · exact inv_consume T cfg t _ h
        · exact inv_plainStep1 T .value b (inv_consume T cfg t _ h)
      · split
        · exact inv_fail _ h
        · exact inv_fail _ h

theorem inv_strStep1 (T : Tables) {s : S1} (m : SMode) (b : Byte) (h : Inv s.core) :
    Inv (strStep1 T s m b).core := by
  unfold strStep1
  split
  · exact inv_fail _ h
  · split
    all_goals first | exact h | exact inv_push _ h | exact inv_fail _ h

theorem inv_escStep1 (T : Tables) {s : S1} (b : Byte) (h : Inv s.core) : Inv (escStep1 T s b).core := by
  unfold escStep1
  split
  · exact inv_fail _ h
  · split
    all_goals first | exact h | exact inv_congr h rfl rfl | exact inv_fail _ h

theorem inv_runeStep1 (T : Tables) {s : S1} (b : Byte) (h : Inv s.core) : Inv (runeStep1 T s b).core := by
  unfold runeStep1
  split
  · exact inv_fail _ h
  · split
    · simp only []
      split <;> exact inv_congr h rfl rfl
    · split <;> exact inv_fail _ h

theorem inv_step1 (T : Tables) (cfg : Cfg) (s : S1) (b : Byte) (h : Inv s.core) :
    Inv (step1 T cfg s b).core := by
  unfold step1
  split
  · exact h
  · simp only []
    apply inv_oneCheck
    unfold body1
    split
    · exact inv_plainStep1 T _ b h
    · exact inv_tokStep1 T cfg _ b h
    · exact inv_strStep1 T _ b h
    · exact inv_escStep1 T b h
    · exact inv_runeStep1 T b h
    · exact inv_chrStartStep1 T b h

theorem inv_run1 (T : Tables) (cfg : Cfg) (bs : List Byte) (s : S1) (h : Inv s.core) :
    Inv (run1 T cfg s bs).core := by
  induction bs generalizing s with
  | nil => simpa [run1] using h
  | cons b rest ih => simpa [run1] using ih _ (inv_step1 T cfg s b h)

/-- inside a list the stack is not empty -/
theorem inv_stack_ne_nil {c : Core} (h : Inv c) (hs : c.starts ≠ []) : c.stack ≠ [] := by
  cases hst : c.starts with
  | nil => exact absurd hst hs
  | cons i is =>
    have hi : i ∈ c.starts := by simp [hst]
    have := inv_lt h hi
    intro hnil; simp [hnil] at this


/-! ### what the token consumers leave alone -/

/-- the consumer kept `starts` and did not halt, or halted with an error -/
def Kept (c c' : Core) : Prop :=
  c'.starts = c.starts ∧ (c'.halt = c.halt ∨ ∃ e, c'.halt = some (.err e))

theorem kept_push (c : Core) (o : Obj) : Kept c (c.push o) := by
  unfold Core.push; split <;> exact ⟨rfl, Or.inl rfl⟩

theorem kept_fail (c : Core) (e : Err) : Kept c (c.fail e) := ⟨rfl, Or.inr ⟨e, rfl⟩⟩

theorem kept_consume (T : Tables) (cfg : Cfg) (t : TMode) (c : Core) (tok : List Byte) :
    Kept c (consume T cfg t c tok) := by
  cases t
  · show Kept c (pushToken cfg c tok)
    unfold pushToken
    repeat' split
    all_goals first | exact kept_push _ _ | exact ⟨rfl, Or.inl rfl⟩
  · show Kept c (pushChar T c tok)
    unfold pushChar
    repeat' split
    all_goals try simp only []
    all_goals repeat' split
    all_goals first | exact kept_push _ _ | exact kept_fail _ _
  · show Kept c (pushInteger c tok)
    unfold pushInteger
    repeat' split
    all_goals try simp only []
    all_goals first | exact kept_push _ _ | exact kept_fail _ _
  · exact kept_push _ _

/-- the text read so far stops inside a form: inside a list, vector, array or complex; inside a
    string or |symbol| (or one of their escapes); inside `#`-dispatch; inside a block comment; or
    behind a quote-like prefix that still waits for its datum -/
def StopsInsideForm (s : S1) : Prop :=
  s.core.starts ≠ []
  ∨ (∃ m, s.mode = .str m) ∨ s.mode = .esc ∨ s.mode = .rune ∨ s.mode = .chrStart
  ∨ s.mode = .plain .sharp ∨ s.mode = .plain .sharpNum
  ∨ s.mode = .plain .blockComment ∨ s.mode = .plain .blockEnd
  ∨ (∃ p, s.mode = .plain p ∧ s.core.stack ≠ [])

theorem finishCore_err (T : Tables) (cfg : Cfg) (s : S1) (hinv : Inv s.core) (hh : s.core.halt = none)
    (hstop : StopsInsideForm s) : ∃ e, (finishCore T cfg s.core s.mode s.tok).halt = some (.err e) := by
  unfold finishCore
  -- a failure in the first phase stays
  have hfail : ∀ (c : Core) (e : Err), ∃ e',
      (match (c.fail e).halt with
        | some _ => c.fail e
        | none => match (c.fail e).stack with
          | [] => c.fail e
          | _ :: _ => (c.fail e).fail (.incomplete (c.fail e).starts.length)).halt = some (.err e') := by
    intro c e; exact ⟨e, by simp [Core.fail]⟩
  -- a non-empty stack fails in the second phase
  have hstack : ∀ (c : Core), c.halt = none → c.stack ≠ [] → ∃ e',
      (match c.halt with
        | some _ => c
        | none => match c.stack with
          | [] => c
          | _ :: _ => c.fail (.incomplete c.starts.length)).halt = some (.err e') := by
    intro c h0 hs
    cases hst : c.stack with
    | nil => exact absurd hst hs
    | cons x xs => exact ⟨.incomplete c.starts.length, by simp [h0, Core.fail]⟩
  cases hm : s.mode with
  | tok t =>
    simp only []
    have hk := kept_consume T cfg t s.core s.tok
    have hi := inv_consume T cfg t s.tok hinv
    rcases hstop with h | ⟨m, h⟩ | h | h | h | h | h | h | h | ⟨p, h, _⟩ <;> try (simp [hm] at h)
    rcases hk.2 with h2 | ⟨e, h2⟩
    · exact hstack _ (by rw [h2, hh]) (inv_stack_ne_nil hi (by rw [hk.1]; exact h))
    · exact ⟨e, by simp [h2]⟩
  | str m => cases m <;> exact hfail _ _
  | esc => exact hfail _ _
  | rune => exact hfail _ _
  | chrStart => exact hfail _ .parse
  | plain p =>
    have hne : p ≠ .sharp → p ≠ .sharpNum → p ≠ .blockComment → p ≠ .blockEnd → s.core.stack ≠ [] := by
      intro h1 h2 h3 h4
      rcases hstop with h | ⟨m, h⟩ | h | h | h | h | h | h | h | ⟨p', _, h⟩
      · exact inv_stack_ne_nil hinv h
      · simp [hm] at h
      · simp [hm] at h
      · simp [hm] at h
      · simp [hm] at h
      · simp [hm] at h; exact absurd h h1
      · simp [hm] at h; exact absurd h h2
      · simp [hm] at h; exact absurd h h3
      · simp [hm] at h; exact absurd h h4
      · exact h
    cases p
    case sharp => exact hfail _ _
    case sharpNum => exact hfail _ _
    case blockComment => exact hfail _ _
    case blockEnd => exact hfail _ _
    all_goals exact hstack _ hh (hne (by simp) (by simp) (by simp) (by simp))

end SlipVerif.Reader
