import SlipVerif.Lemmas.PrinterPrettyRead
import SlipVerif.Lemmas.PrinterStructGen
/- C03: the reader on the PRETTY text for any read base, over the abstract leaf facts of `LeafRead`
   (core only). `pretty_struct_roundtrip` (PrinterPrettyRead) is the `*read-base*` 10 case; the layout
   lemmas (`chooseSep_allWs`, `render_*`, `prettyPieces_cons_*`, `prettyTail_term`) do not depend on the
   read base and are reused. -/
namespace SlipVerif.Printer
open SlipVerif.Gen

def PPG (rb : Nat) (cfg : PCfg) (N : Obj → Prop) (margin : Nat) (x : Obj) : Prop :=
  WF x → LeavesOK N x → ∀ (offset closes : Nat) (rest : List Char) (fuel : Nat), termOrEnd rest = true → 3 * osize x + 4 ≤ fuel →
    read1 rb fuel (renderPieces (prettyPieces cfg margin offset closes x) ++ rest) = .ok (recase cfg.case x, rest)

def PQG (rb : Nat) (cfg : PCfg) (N : Obj → Prop) (margin : Nat) (x : Obj) : Prop :=
  WF x → LeavesOK N x → ∀ (off pos closes : Nat) (rest : List Char) (fuel : Nat) (acc : List Obj), 3 * osize x + 6 ≤ fuel →
    readElems rb fuel (renderPieces (prettyTail cfg margin off pos closes x) ++ rest) acc =
      .ok (acc.reverse ++ tailElems (recase cfg.case x), rest)

def PRG (rb : Nat) (cfg : PCfg) (N : Obj → Prop) (margin : Nat) : Obj → Prop
  | .cons a d => WF (.cons a d) → LeavesOK N (.cons a d) → ∀ (offset closes : Nat) (rest : List Char) (g : Nat),
      3 * osize a + 3 * osize d + 5 ≤ g →
      readElems rb (g + 1) (renderPieces ((prettyPieces cfg margin offset closes (.cons a d)).tail) ++ rest) [] =
        .ok (recase cfg.case a :: tailElems (recase cfg.case d), rest)
  | _ => True

theorem pq_atom_g {rb : Nat} {cfg : PCfg} {N : Obj → Prop} (L : LeafRead rb cfg N) (margin : Nat) (t : Obj)
    (hpt : ∀ off pos closes, ∃ size, prettyTail cfg margin off pos closes t =
      dottedTail margin off pos closes size (prettyPieces cfg margin 0 0 t))
    (hte : tailElems (recase cfg.case t) = [dotSym, recase cfg.case t])
    (hP : PPG rb cfg N margin t) : PQG rb cfg N margin t := by
  intro hwf hn off pos closes rest fuel acc hfuel
  obtain ⟨f, rfl⟩ : ∃ f, fuel = f + 1 := ⟨fuel - 1, by omega⟩
  obtain ⟨g, rfl⟩ : ∃ g, f = g + 1 := ⟨f - 1, by omega⟩
  obtain ⟨h, rfl⟩ : ∃ h, g = h + 1 := ⟨g - 1, by omega⟩
  obtain ⟨size, hsz⟩ := hpt off pos closes
  obtain ⟨w1, w2, hw1, hw1n, hw2, hw2n, hr⟩ := render_dottedTail margin off pos closes size (prettyPieces cfg margin 0 0 t)
  rw [hsz, hr, hte]
  simp only [List.append_assoc, List.cons_append, List.nil_append]
  rw [readElems_ws rb _ w1 _ acc hw1]
  have h1 := L.rdot (w2 ++ (renderPieces (prettyPieces cfg margin 0 0 t) ++ ')' :: rest))
    (termOrEnd_ws w2 _ hw2 hw2n) (h + 1)
  rw [readElems_step rb (h + 1 + 1) _ _ _ acc h1, readElems_ws rb _ w2 _ _ hw2]
  have h2 := hP hwf hn 0 0 (')' :: rest) (h + 1) (by simp [termOrEnd, isTerm, isWs]) (by omega)
  rw [readElems_step rb (h + 1) _ _ _ _ h2, readElems_close]
  simp

theorem pr_cons_g {rb : Nat} {cfg : PCfg} {N : Obj → Prop} (margin : Nat) (a d : Obj)
    (hPa : PPG rb cfg N margin a) (hQd : PQG rb cfg N margin d) :
    PRG rb cfg N margin (.cons a d) := by
  intro hwf hn offset closes rest g hg
  have hsd : 1 ≤ osize d := by cases d <;> simp [osize] <;> omega
  have hsa : 1 ≤ osize a := by cases a <;> simp [osize] <;> omega
  by_cases hd : d = .nil
  · subst hd
    rw [prettyPieces_cons_nil]
    simp only [List.tail_cons, recase, tailElems]
    rw [render_append_rest, render_tok, List.singleton_append]
    have h1 := hPa hwf.1 hn.1 (offset + 1) (closes + 1) (')' :: rest) g (by simp [termOrEnd, isTerm, isWs]) (by omega)
    obtain ⟨g', rfl⟩ : ∃ g', g = g' + 1 := ⟨g - 1, by omega⟩
    rw [readElems_step rb (g' + 1) _ _ _ [] h1, readElems_close]
    simp
  · obtain ⟨off, pos, h⟩ := prettyPieces_cons_other cfg margin offset closes a d hd
    rw [h]
    simp only [List.tail_cons]
    rw [render_append_rest]
    have h1 := hPa hwf.1 hn.1 off 0 (renderPieces (prettyTail cfg margin off pos closes d) ++ rest) g
      (prettyTail_term cfg margin off pos closes d rest) (by omega)
    rw [readElems_step rb g _ _ _ [] h1, hQd hwf.2.2 hn.2 off pos closes rest g _ (by omega)]
    simp

theorem pq_cons_g {rb : Nat} {cfg : PCfg} {N : Obj → Prop} (margin : Nat) (a d : Obj)
    (hPa : PPG rb cfg N margin a) (hQd : PQG rb cfg N margin d)
    (hwf : WF (.cons a d)) (hn : LeavesOK N (.cons a d)) (w : List Char) (hw : AllWs w) (o1 t1 off pos1 closes : Nat) (rest : List Char)
    (fuel : Nat) (acc : List Obj) (hfuel : 3 * osize (.cons a d) + 6 ≤ fuel) :
    readElems rb fuel (renderPieces (.sep w :: (prettyPieces cfg margin o1 t1 a ++ prettyTail cfg margin off pos1 closes d)) ++ rest) acc =
      .ok (acc.reverse ++ recase cfg.case a :: tailElems (recase cfg.case d), rest) := by
  obtain ⟨f, rfl⟩ : ∃ f, fuel = f + 1 := ⟨fuel - 1, by omega⟩
  have hsd : 1 ≤ osize d := by cases d <;> simp [osize] <;> omega
  have hsa : 1 ≤ osize a := by cases a <;> simp [osize] <;> omega
  rw [render_sep_cons, readElems_ws rb _ _ _ acc hw, render_append_rest]
  have h1 := hPa hwf.1 hn.1 o1 t1 (renderPieces (prettyTail cfg margin off pos1 closes d) ++ rest) f
    (prettyTail_term cfg margin off pos1 closes d rest) (by simp [osize] at hfuel; omega)
  rw [readElems_step rb f _ _ _ acc h1, hQd hwf.2.2 hn.2 off pos1 closes rest f _ (by simp [osize] at hfuel; omega)]
  simp

theorem pretty_struct_roundtrip_gen {rb : Nat} {cfg : PCfg} {N : Obj → Prop} (hT : TablesOK) (L : LeafRead rb cfg N) (margin : Nat) :
    ∀ x : Obj, PPG rb cfg N margin x ∧ PQG rb cfg N margin x ∧ PRG rb cfg N margin x := by
  intro x
  have leafQ : ∀ t : Obj, (∀ off pos closes, ∃ size, prettyTail cfg margin off pos closes t =
        dottedTail margin off pos closes size (prettyPieces cfg margin 0 0 t)) →
      tailElems (recase cfg.case t) = [dotSym, recase cfg.case t] → PPG rb cfg N margin t → PQG rb cfg N margin t :=
    fun t h1 h2 h3 => pq_atom_g L margin t h1 h2 h3
  -- a leaf is one token piece with the flat text: the flat lemma applies
  have leafP : ∀ t : Obj, (∀ offset closes, prettyPieces cfg margin offset closes t = [.tok (printFlat cfg t)]) →
      PPG rb cfg N margin t := by
    intro t hp hwf hn offset closes rest fuel hrest hfuel
    rw [hp, render_tok]
    exact (struct_roundtrip_gen hT L t).1 hwf hn rest fuel hrest hfuel
  induction x with
  | nil =>
    have hP := leafP .nil (by intro _ _; simp [prettyPieces, printFlat, nilText])
    refine ⟨hP, ?_, trivial⟩
    intro _ _ off pos closes rest fuel acc hfuel
    obtain ⟨f, rfl⟩ : ∃ f, fuel = f + 1 := ⟨fuel - 1, by simp [osize] at hfuel; omega⟩
    simp only [prettyTail, render_tok, recase, tailElems, List.cons_append, List.nil_append, List.append_nil]
    exact readElems_close rb f rest acc
  | t =>
    have hP := leafP .t (by intro _ _; simp [prettyPieces, printFlat])
    exact ⟨hP, leafQ .t (by intro _ _ _; simp only [prettyTail, prettyPieces]; exact ⟨_, rfl⟩) (by simp [recase, tailElems]) hP, trivial⟩
  | int n =>
    have hP := leafP (.int n) (by intro _ _; simp [prettyPieces, printFlat])
    exact ⟨hP, leafQ (.int n) (by intro _ _ _; simp only [prettyTail, prettyPieces]; exact ⟨_, rfl⟩) (by simp [recase, tailElems]) hP, trivial⟩
  | ratio num den =>
    have hP := leafP (.ratio num den) (by intro _ _; simp [prettyPieces, printFlat])
    exact ⟨hP, leafQ (.ratio num den) (by intro _ _ _; simp only [prettyTail, prettyPieces]; exact ⟨_, rfl⟩) (by simp [recase, tailElems]) hP, trivial⟩
  | str s =>
    have hP := leafP (.str s) (by intro _ _; simp [prettyPieces, printFlat])
    exact ⟨hP, leafQ (.str s) (by intro _ _ _; simp only [prettyTail, prettyPieces]; exact ⟨_, rfl⟩) (by simp [recase, tailElems]) hP, trivial⟩
  | chr c =>
    have hP := leafP (.chr c) (by intro _ _; simp [prettyPieces, printFlat])
    exact ⟨hP, leafQ (.chr c) (by intro _ _ _; simp only [prettyTail, prettyPieces]; exact ⟨_, rfl⟩) (by simp [recase, tailElems]) hP, trivial⟩
  | sym name =>
    have hP := leafP (.sym name) (by intro _ _; simp [prettyPieces, printFlat])
    exact ⟨hP, leafQ (.sym name) (by intro _ _ _; simp only [prettyTail, prettyPieces]; exact ⟨_, rfl⟩) (by simp [recase, tailElems]) hP, trivial⟩
  | flt ff neg ds e =>
    have hP := leafP (.flt ff neg ds e) (by intro _ _; simp [prettyPieces, printFlat])
    exact ⟨hP, leafQ (.flt ff neg ds e) (by intro _ _ _; simp only [prettyTail, prettyPieces]; exact ⟨_, rfl⟩) (by simp [recase, tailElems]) hP, trivial⟩
  | cons a d iha ihd =>
    have hR := pr_cons_g margin a d iha.1 ihd.2.1
    refine ⟨?_, ?_, hR⟩
    · intro hwf hn offset closes rest fuel hrest hfuel
      obtain ⟨f, rfl⟩ : ∃ f, fuel = f + 1 := ⟨fuel - 1, by omega⟩
      obtain ⟨g, rfl⟩ : ∃ g, f = g + 1 := ⟨f - 1, by simp [osize] at hfuel; omega⟩
      rw [prettyPieces_cons_head, render_tok_cons]
      simp only [List.cons_append, List.nil_append, recase]
      rw [read1_paren, hR hwf hn offset closes rest g (by simp [osize] at hfuel; omega)]
      simp only [mapOk]
      rw [closeList_tailElems _ _ (recase_ne_dot cfg.case a hwf.2.1) (WF_noDot cfg.case d hwf.2.2)]
    · intro hwf hn off pos closes rest fuel acc hfuel
      simp only [prettyTail, recase, tailElems, List.cons_append]
      exact pq_cons_g margin a d iha.1 ihd.2.1 hwf hn _ (chooseSep_allWs _ _ _ _ _).1 _ _ off _ closes rest fuel acc hfuel
  | vec e ih =>
    have hP : PPG rb cfg N margin (.vec e) := by
      intro hwf hn offset closes rest fuel hrest hfuel
      obtain ⟨f, rfl⟩ : ∃ f, fuel = f + 1 := ⟨fuel - 1, by omega⟩
      obtain ⟨g, rfl⟩ : ∃ g, f = g + 1 := ⟨f - 1, by simp [osize] at hfuel; omega⟩
      simp only [prettyPieces, vecWrap, L.array, if_true, recase]
      cases e with
      | cons a d =>
        simp only
        rw [render_tok_cons, prettyPieces_cons_head, render_tok_cons]
        simp only [List.cons_append, List.nil_append]
        rw [read1_sharp_paren]
        have hR := ih.2.2 hwf.2 hn 0 0 rest g (by simp [osize] at hfuel ⊢; omega)
        rw [hR]
        simp only [mapOk]
        have : mkProper (recase cfg.case a :: tailElems (recase cfg.case d)) = recase cfg.case (.cons a d) := by
          have := mkProper_tailElems (recase cfg.case (.cons a d)) (by rw [isList_recase]; exact hwf.1)
          simpa [recase, tailElems] using this
        rw [this]
      | nil =>
        simp only [render_tok, List.cons_append, List.nil_append]
        rw [read1_sharp_paren, readElems_close]
        simp [mapOk, mkProper, recase]
      | _ => simp [WF, isList] at hwf
    refine ⟨hP, leafQ (.vec e) (by intro _ _ _; simp only [prettyTail, prettyPieces]; exact ⟨_, rfl⟩) (by simp [recase, tailElems]) hP, trivial⟩
  | arr r c ih =>
    have hP : PPG rb cfg N margin (.arr r c) := by
      intro hwf hn offset closes rest fuel hrest hfuel
      obtain ⟨f, rfl⟩ : ∃ f, fuel = f + 1 := ⟨fuel - 1, by omega⟩
      obtain ⟨g, rfl⟩ : ∃ g, f = g + 1 := ⟨f - 1, by simp [osize] at hfuel; omega⟩
      simp only [prettyPieces, arrWrap, L.array, if_true, recase]
      cases c with
      | cons a d =>
        simp only
        rw [render_tok_cons, prettyPieces_cons_head, render_tok_cons]
        simp only [arrPrefix, List.cons_append, List.nil_append, List.append_assoc]
        rw [read1_sharp_A]
        have hR := ih.2.2 hwf.2.2.2 hn 0 0 rest g (by simp [osize] at hfuel ⊢; omega)
        rw [hR]
        have hr1 : r ≠ 1 := by have := hwf.1; omega
        simp only [mapOk, hr1, if_false]
        have : mkProper (recase cfg.case a :: tailElems (recase cfg.case d)) = recase cfg.case (.cons a d) := by
          have := mkProper_tailElems (recase cfg.case (.cons a d)) (by rw [isList_recase]; exact hwf.2.1)
          simpa [recase, tailElems] using this
        rw [this]
      | nil => exact absurd rfl hwf.2.2.1
      | _ => simp [WF, isList] at hwf
    refine ⟨hP, leafQ (.arr r c) (by intro _ _ _; simp only [prettyTail, prettyPieces]; exact ⟨_, rfl⟩) (by simp [recase, tailElems]) hP, trivial⟩

/-- the pretty text is at least as long as the object is big, whatever base / radix -/
theorem pretty_size_le_length_arr (hT : TablesOK) (cfg : PCfg) (ha : cfg.array = true) (margin : Nat) : ∀ x : Obj,
    (WF x → ∀ offset closes, osize x ≤ (renderPieces (prettyPieces cfg margin offset closes x)).length) ∧
    (WF x → ∀ off pos closes, osize x ≤ (renderPieces (prettyTail cfg margin off pos closes x)).length) := by
  intro x
  have leaf : ∀ t : Obj, osize t = 1 → (∀ offset closes, prettyPieces cfg margin offset closes t = [.tok (printFlat cfg t)]) →
      (∀ off pos closes, ∃ size atom, prettyTail cfg margin off pos closes t = dottedTail margin off pos closes size atom) →
      (WF t → ∀ offset closes, osize t ≤ (renderPieces (prettyPieces cfg margin offset closes t)).length) ∧
      (WF t → ∀ off pos closes, osize t ≤ (renderPieces (prettyTail cfg margin off pos closes t)).length) := by
    intro t hs hp hq
    constructor
    · intro hwf offset closes
      rw [hp, render_tok]
      exact (size_le_length_arr hT cfg ha t).1 hwf
    · intro _ off pos closes
      obtain ⟨size, atom, h⟩ := hq off pos closes
      rw [h, hs]
      have := dottedTail_len margin off pos closes size atom
      omega
  induction x with
  | nil =>
    constructor
    · intro hwf offset closes
      simp only [prettyPieces, render_tok]
      exact (size_le_length_arr hT cfg ha .nil).1 hwf
    · intro _ off pos closes
      simp [prettyTail, render_tok, osize]
  | t => exact leaf .t rfl (by intro _ _; simp [prettyPieces, printFlat]) (by intro _ _ _; simp only [prettyTail]; exact ⟨_, _, rfl⟩)
  | int n => exact leaf (.int n) rfl (by intro _ _; simp [prettyPieces, printFlat]) (by intro _ _ _; simp only [prettyTail]; exact ⟨_, _, rfl⟩)
  | ratio a b => exact leaf (.ratio a b) rfl (by intro _ _; simp [prettyPieces, printFlat]) (by intro _ _ _; simp only [prettyTail]; exact ⟨_, _, rfl⟩)
  | str s => exact leaf (.str s) rfl (by intro _ _; simp [prettyPieces, printFlat]) (by intro _ _ _; simp only [prettyTail]; exact ⟨_, _, rfl⟩)
  | chr c => exact leaf (.chr c) rfl (by intro _ _; simp [prettyPieces, printFlat]) (by intro _ _ _; simp only [prettyTail]; exact ⟨_, _, rfl⟩)
  | sym s => exact leaf (.sym s) rfl (by intro _ _; simp [prettyPieces, printFlat]) (by intro _ _ _; simp only [prettyTail]; exact ⟨_, _, rfl⟩)
  | flt ff neg ds e => exact leaf (.flt ff neg ds e) rfl (by intro _ _; simp [prettyPieces, printFlat]) (by intro _ _ _; simp only [prettyTail]; exact ⟨_, _, rfl⟩)
  | cons a d iha ihd =>
    constructor
    · intro hwf offset closes
      by_cases hd : d = .nil
      · subst hd
        rw [prettyPieces_cons_nil, render_len_cons, render_len_append, render_tok]
        have := iha.1 hwf.1 (offset + 1) (closes + 1)
        simp [osize, Piece.text] at this ⊢
        omega
      · obtain ⟨off, pos, h⟩ := prettyPieces_cons_other cfg margin offset closes a d hd
        rw [h, render_len_cons, render_len_append]
        have h1 := iha.1 hwf.1 off 0
        have h2 := ihd.2 hwf.2.2 off pos closes
        simp [osize, Piece.text] at h1 h2 ⊢
        omega
    · intro hwf off pos closes
      simp only [prettyTail, List.cons_append]
      exact tail_cons_len cfg margin a d _ _ _ off _ closes (chooseSep_len _ _ _ _ _) (iha.1 hwf.1 _ _) (ihd.2 hwf.2.2 _ _ _)
  | vec e ih =>
    have hP : WF (.vec e) → ∀ offset closes, osize (.vec e) ≤ (renderPieces (prettyPieces cfg margin offset closes (.vec e))).length := by
      intro hwf offset closes
      simp only [prettyPieces, vecWrap, ha, if_true]
      cases e with
      | cons a d =>
        simp only
        rw [render_len_cons]
        have := ih.1 hwf.2 0 0
        simp [osize, Piece.text] at this ⊢
        omega
      | nil => simp [osize, renderPieces, Piece.text]
      | _ => simp [WF, isList] at hwf
    refine ⟨hP, ?_⟩
    intro hwf off pos closes
    have h1 := hP hwf 0 0
    simp only [prettyPieces] at h1
    simp only [prettyTail]
    have := dottedTail_len margin off pos closes (byteLen (renderPieces (vecWrap cfg e (prettyPieces cfg margin 0 0 e))))
      (vecWrap cfg e (prettyPieces cfg margin 0 0 e))
    omega
  | arr r c ih =>
    have hP : WF (.arr r c) → ∀ offset closes, osize (.arr r c) ≤ (renderPieces (prettyPieces cfg margin offset closes (.arr r c))).length := by
      intro hwf offset closes
      simp only [prettyPieces, arrWrap, ha, if_true]
      cases c with
      | cons a d =>
        simp only
        rw [render_len_cons]
        have := ih.1 hwf.2.2.2 0 0
        simp [osize, Piece.text, arrPrefix] at this ⊢
        omega
      | nil => exact absurd rfl hwf.2.2.1
      | _ => simp [WF, isList] at hwf
    refine ⟨hP, ?_⟩
    intro hwf off pos closes
    have h1 := hP hwf 0 0
    simp only [prettyPieces] at h1
    simp only [prettyTail]
    have := dottedTail_len margin off pos closes (byteLen (renderPieces (arrWrap cfg r c (prettyPieces cfg margin 0 0 c))))
      (arrWrap cfg r c (prettyPieces cfg margin 0 0 c))
    omega

end SlipVerif.Printer
