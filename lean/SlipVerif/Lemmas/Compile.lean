import SlipVerif.Model.Compile
/-
  C08 — helper definitions and lemmas for Theorems/C08.lean: the relation between source
  expressions and the code objects that may stand for them (`Compiled`), the invariant between a
  name-keyed function table and a store of shared cells (`Rel`), and their preservation by
  `declare`, `compile`, `define`.
-/
namespace SlipVerif.Compile

/-- a resolved call site points to the cell its name has in the store -/
def RefOK (σ : Store) (r : Ref) (f : String) : Prop := ∀ i, r = .cell i → σ.cellOf f = some i

mutual
/-- `c` is a code object for `e` in store `σ`: same shape, the arguments of every call are kept,
    every resolved call site points to the cell of its name (unresolved ones are allowed
    anywhere: before and after any amount of in-place caching). -/
inductive Compiled (σ : Store) : Expr → Code → Prop where
  | const (k : Int) : Compiled σ (.const k) (.const k)
  | kw (k : String) : Compiled σ (.kw k) (.kw k)
  | var (x : String) : Compiled σ (.var x) (.var x)
  | prim (op : Prim) {a b : Expr} {ca cb : Code} :
      Compiled σ a ca → Compiled σ b cb → Compiled σ (.prim op a b) (.prim op ca cb)
  | ite {c t e : Expr} {cc ct ce : Code} :
      Compiled σ c cc → Compiled σ t ct → Compiled σ e ce → Compiled σ (.ite c t e) (.ite cc ct ce)
  | let1 (x : String) {v b : Expr} {cv cb : Code} :
      Compiled σ v cv → Compiled σ b cb → Compiled σ (.let1 x v b) (.let1 x cv cb)
  | call {r : Ref} {f : String} {args : List Expr} {cargs : List Code} :
      RefOK σ r (norm f) → CompiledList σ args cargs → Compiled σ (.call f args) (.call r f cargs)
inductive CompiledList (σ : Store) : List Expr → List Code → Prop where
  | nil : CompiledList σ [] []
  | cons {a : Expr} {c : Code} {as : List Expr} {cs : List Code} :
      Compiled σ a c → CompiledList σ as cs → CompiledList σ (a :: as) (c :: cs)
end

/-- the names of `σ` keep their cells in `σ'` -/
def Ext (σ σ' : Store) : Prop := ∀ f i, σ.cellOf f = some i → σ'.cellOf f = some i

mutual
theorem Compiled.mono {σ σ' : Store} (h : Ext σ σ') : ∀ {e : Expr} {c : Code}, Compiled σ e c → Compiled σ' e c
  | _, _, .const k => .const k
  | _, _, .kw k => .kw k
  | _, _, .var x => .var x
  | _, _, .prim op ha hb => .prim op (Compiled.mono h ha) (Compiled.mono h hb)
  | _, _, .ite hc ht he => .ite (Compiled.mono h hc) (Compiled.mono h ht) (Compiled.mono h he)
  | _, _, .let1 x hv hb => .let1 x (Compiled.mono h hv) (Compiled.mono h hb)
  | _, _, .call hr hargs => .call (fun i hi => h _ _ (hr i hi)) (CompiledList.mono h hargs)
theorem CompiledList.mono {σ σ' : Store} (h : Ext σ σ') : ∀ {es : List Expr} {cs : List Code}, CompiledList σ es cs → CompiledList σ' es cs
  | _, _, .nil => .nil
  | _, _, .cons ha has => .cons (Compiled.mono h ha) (CompiledList.mono h has)
end

/-- the variable names of `σ` keep their cells in `σ'` -/
def VExt (σ σ' : Store) : Prop := ∀ x i, σ.vcellOf x = some i → σ'.vcellOf x = some i

theorem VExt.refl (σ : Store) : VExt σ σ := fun _ _ h => h
theorem VExt.trans {σ₁ σ₂ σ₃ : Store} (h₁ : VExt σ₁ σ₂) (h₂ : VExt σ₂ σ₃) : VExt σ₁ σ₃ :=
  fun x i h => h₂ x i (h₁ x i h)

theorem Ext.refl (σ : Store) : Ext σ σ := fun _ _ h => h
theorem Ext.trans {σ₁ σ₂ σ₃ : Store} (h₁ : Ext σ₁ σ₂) (h₂ : Ext σ₂ σ₃) : Ext σ₁ σ₃ :=
  fun f i h => h₂ f i (h₁ f i h)

theorem refOf_ok (σ : Store) (f : String) : RefOK σ (refOf σ f) f := by
  intro i hi
  unfold refOf at hi
  split at hi
  · next j hj => cases hi; exact hj
  · cases hi

mutual
theorem embed_compiled (σ : Store) : ∀ e : Expr, Compiled σ e (embed e)
  | .const k => by simp only [embed]; exact .const k
  | .kw k => by simp only [embed]; exact .kw k
  | .var x => by simp only [embed]; exact .var x
  | .prim op a b => by simp only [embed]; exact .prim op (embed_compiled σ a) (embed_compiled σ b)
  | .ite c t e => by simp only [embed]; exact .ite (embed_compiled σ c) (embed_compiled σ t) (embed_compiled σ e)
  | .let1 x v b => by simp only [embed]; exact .let1 x (embed_compiled σ v) (embed_compiled σ b)
  | .call f args => by
      simp only [embed]
      exact .call (fun i hi => by cases hi) (embedList_compiled σ args)
theorem embedList_compiled (σ : Store) : ∀ es : List Expr, CompiledList σ es (embedList es)
  | [] => by simp only [embedList]; exact .nil
  | a :: as => by simp only [embedList]; exact .cons (embed_compiled σ a) (embedList_compiled σ as)
end

mutual
theorem resolve_compiled (σ : Store) : ∀ e : Expr, Compiled σ e (resolve σ e)
  | .const k => by simp only [resolve]; exact .const k
  | .kw k => by simp only [resolve]; exact .kw k
  | .var x => by simp only [resolve]; exact .var x
  | .prim op a b => by simp only [resolve]; exact .prim op (resolve_compiled σ a) (resolve_compiled σ b)
  | .ite c t e => by simp only [resolve]; exact .ite (embed_compiled σ c) (embed_compiled σ t) (embed_compiled σ e)
  | .let1 x v b => by simp only [resolve]; exact .let1 x (embed_compiled σ v) (embed_compiled σ b)
  | .call f args => by
      simp only [resolve]
      exact .call (refOf_ok σ (norm f)) (resolveList_compiled σ args)
theorem resolveList_compiled (σ : Store) : ∀ es : List Expr, CompiledList σ es (resolveList σ es)
  | [] => by simp only [resolveList]; exact .nil
  | a :: as => by simp only [resolveList]; exact .cons (resolve_compiled σ a) (resolveList_compiled σ as)
end

mutual
/-- in-place caching turns a code object for `e` into a code object for `e` -/
theorem cacheAll_compiled (σ : Store) : ∀ {e : Expr} {c : Code}, Compiled σ e c → Compiled σ e (cacheAll σ c)
  | _, _, .const k => by simp only [cacheAll]; exact .const k
  | _, _, .kw k => by simp only [cacheAll]; exact .kw k
  | _, _, .var x => by simp only [cacheAll]; exact .var x
  | _, _, .prim op ha hb => by simp only [cacheAll]; exact .prim op (cacheAll_compiled σ ha) (cacheAll_compiled σ hb)
  | _, _, .ite hc ht he => by
      simp only [cacheAll]; exact .ite (cacheAll_compiled σ hc) (cacheAll_compiled σ ht) (cacheAll_compiled σ he)
  | _, _, .let1 x hv hb => by simp only [cacheAll]; exact .let1 x (cacheAll_compiled σ hv) (cacheAll_compiled σ hb)
  | _, _, @Compiled.call _ r f _ _ hr hargs => by
      simp only [cacheAll]
      refine .call ?_ (cacheAllList_compiled σ hargs)
      cases r with
      | late => exact refOf_ok σ (norm f)
      | cell i => exact hr
theorem cacheAllList_compiled (σ : Store) : ∀ {es : List Expr} {cs : List Code}, CompiledList σ es cs → CompiledList σ es (cacheAllList σ cs)
  | _, _, .nil => by simp only [cacheAllList]; exact .nil
  | _, _, .cons ha has => by simp only [cacheAllList]; exact .cons (cacheAll_compiled σ ha) (cacheAllList_compiled σ has)
end

/-- argument lists: pointwise equal evaluators on related lists give equal results -/
theorem evalList_compiled {σ : Store} {ev₁ : Code → Out} {ev₂ : Expr → Out}
    (h : ∀ e c, Compiled σ e c → ev₁ c = ev₂ e) :
    ∀ {es : List Expr} {cs : List Code}, CompiledList σ es cs → evalList ev₁ cs = evalList ev₂ es
  | _, _, .nil => by simp [evalList]
  | _, _, .cons ha has => by
      simp only [evalList, h _ _ ha, evalList_compiled h has]

/-- the `&aux` init forms of a definition and their code objects -/
inductive CompiledAux (σ : Store) : List (String × Expr) → List (String × Code) → Prop where
  | nil : CompiledAux σ [] []
  | cons (x : String) {a : Expr} {c : Code} {as : List (String × Expr)} {cs : List (String × Code)} :
      Compiled σ a c → CompiledAux σ as cs → CompiledAux σ ((x, a) :: as) ((x, c) :: cs)

theorem CompiledAux.mono {σ σ' : Store} (h : Ext σ σ') {as : List (String × Expr)} {cs : List (String × Code)}
    (ha : CompiledAux σ as cs) : CompiledAux σ' as cs := by
  induction ha with
  | nil => exact .nil
  | cons x hc _ ih => exact .cons x (hc.mono h) ih

theorem embedAux_compiled (σ : Store) : ∀ as : List (String × Expr), CompiledAux σ as (embedAux as)
  | [] => by simp only [embedAux]; exact .nil
  | (x, a) :: rest => by simp only [embedAux]; exact .cons x (embed_compiled σ a) (embedAux_compiled σ rest)

theorem evalAux_compiled {σ : Store} {ev₁ : Env → Code → Out} {ev₂ : Env → Expr → Out}
    (h : ∀ env e c, Compiled σ e c → ev₁ env c = ev₂ env e)
    {as : List (String × Expr)} {cs : List (String × Code)} (ha : CompiledAux σ as cs) :
    ∀ env : Env, evalAux ev₁ env cs = evalAux ev₂ env as := by
  induction ha with
  | nil => intro env; simp [evalAux]
  | cons x hc _ ih =>
    intro env
    simp only [evalAux, h env _ _ hc]
    split <;> first | rfl | exact ih _

/-! ## the body of a definition: compiled, or a pointer to the cell of a global variable -/

/-- `cb` is a code object for the body of `lam`: a code object for the body form, or — when the body
    is a bare symbol that is not a variable of the function — a pointer to *the* cell of that name -/
inductive BodyOK (σ : Store) (lam : Lam) : Code → Prop where
  | plain {cb : Code} : Compiled σ lam.body cb → BodyOK σ lam cb
  | gref {x : String} {i : Nat} : lam.body = .var x → x ∉ locals lam → σ.vcellOf x = some i →
      BodyOK σ lam (.gref i x)

theorem BodyOK.mono {σ σ' : Store} (h : Ext σ σ') (hv : VExt σ σ') {lam : Lam} {cb : Code} :
    BodyOK σ lam cb → BodyOK σ' lam cb
  | .plain hc => .plain (hc.mono h)
  | .gref hb hl hx => .gref hb hl (hv _ _ hx)

/-! ### a variable that is not a local of the function is not bound by the call -/

theorem lookup_none_of_not_mem {β : Type} {x : String} : ∀ {l : List (String × β)}, x ∉ l.map (·.1) → l.lookup x = none
  | [], _ => rfl
  | (y, b) :: l, h => by
      simp only [List.map_cons, List.mem_cons, not_or] at h
      have : (x == y) = false := by simpa using h.1
      simp only [List.lookup_cons, this]
      exact lookup_none_of_not_mem h.2

theorem bindKeys_keys (ps : List (String × Val)) : ∀ ks : List (String × Val), (bindKeys ps ks).map (·.1) = ks.map (·.1)
  | [] => rfl
  | (k, d) :: ks => by simp only [bindKeys, List.map_cons, bindKeys_keys ps ks]

theorem bindOpt_keys : ∀ (os : List (String × Val)) (vs : List Val), (bindOpt os vs).1.map (·.1) = os.map (·.1)
  | [], _ => rfl
  | (x, d) :: os, [] => by simp only [bindOpt, List.map_cons, bindOpt_keys os []]
  | (x, d) :: os, v :: vs => by simp only [bindOpt, List.map_cons, bindOpt_keys os vs]

theorem zip_lookup_none {x : String} : ∀ (req : List String) (vs : List Val), x ∉ req → (req.zip vs).lookup x = none
  | [], _, _ => by simp [List.lookup]
  | _ :: _, [], _ => by simp [List.lookup]
  | y :: req, v :: vs, h => by
      simp only [List.mem_cons, not_or] at h
      have : (x == y) = false := by simpa using h.1
      simp only [List.zip_cons_cons, List.lookup_cons, this]
      exact zip_lookup_none req vs h.2

theorem bindArgs_lookup_none {sig : Sig} {vs : List Val} {env₀ : Env} {x : String}
    (h : bindArgs sig vs = some env₀) (hr : x ∉ sig.req) (ho : x ∉ sig.opt.map (·.1)) (hk : x ∉ sig.key.map (·.1)) :
    env₀.lookup x = none := by
  unfold bindArgs at h
  split at h
  · cases h
  · simp only at h
    split at h
    · cases h
    · split at h
      · cases h
      · simp only [Option.some.injEq] at h
        subst h
        simp only [List.lookup_append]
        rw [lookup_none_of_not_mem (by rw [bindKeys_keys]; exact hk),
          lookup_none_of_not_mem (by rw [bindOpt_keys]; exact ho), zip_lookup_none _ _ hr]
        rfl

theorem evalAux_lookup_none {α : Type} {ev : Env → α → Out} {x : String} :
    ∀ (as : List (String × α)) (env env₁ : Env), evalAux ev env as = .ok env₁ → env.lookup x = none →
      x ∉ as.map (·.1) → env₁.lookup x = none
  | [], env, env₁, h, he, _ => by
      simp only [evalAux, Except.ok.injEq] at h
      subst h; exact he
  | (y, a) :: rest, env, env₁, h, he, hn => by
      simp only [List.map_cons, List.mem_cons, not_or] at hn
      simp only [evalAux] at h
      split at h
      · next v _ =>
        refine evalAux_lookup_none rest _ env₁ h ?_ hn.2
        have : (x == y) = false := by simpa using hn.1
        simp only [List.lookup_cons, this]; exact he
      · cases h

/-! ## the invariant between the function table and the store -/

structure WF (σ : Store) : Prop where
  bound : ∀ f i, σ.cellOf f = some i → i < σ.cells.length
  inj : ∀ f g i, σ.cellOf f = some i → σ.cellOf g = some i → f = g

/-- the cell of `f` holds what the table says about `f`: a compiled form of the current body, or
    the placeholder when `f` is undefined -/
def CellMatches (σ : Store) (Φ : FunTable) (f : String) (i : Nat) : Prop :=
  match Φ.lookup f with
  | some lam => ∃ caux cb, σ.cells[i]? = some (some ⟨lam.sig, caux, cb, lam.env⟩) ∧
      CompiledAux σ lam.aux caux ∧ BodyOK σ lam cb
  | none => σ.cells[i]? = some none

structure Rel (Φ : FunTable) (σ : Store) : Prop where
  wf : WF σ
  defined : ∀ f lam, Φ.lookup f = some lam → ∃ i, σ.cellOf f = some i
  cells : ∀ f i, σ.cellOf f = some i → CellMatches σ Φ f i

/-- the invariant between the global variables and the variable cells: one cell per name, the cell
    holds the value the name has (`none`: the unbound placeholder), unknown names are unbound -/
structure VRel (G : Env) (σ : Store) : Prop where
  bound : ∀ x i, σ.vcellOf x = some i → i < σ.vcells.length
  inj : ∀ x y i, σ.vcellOf x = some i → σ.vcellOf y = some i → x = y
  vals : ∀ x i, σ.vcellOf x = some i → σ.vcellVal i = G.lookup x
  undefd : ∀ x, σ.vcellOf x = none → G.lookup x = none

theorem vrel_empty : VRel [] Store.empty := by
  refine ⟨?_, ?_, ?_, ?_⟩ <;> intros <;> simp_all [Store.vcellOf, Store.empty, List.lookup]

theorem gval_eq {G : Env} {σ : Store} (h : VRel G σ) (x : String) : σ.gval x = G.lookup x := by
  unfold Store.gval
  cases hx : σ.vcellOf x with
  | none => exact (h.undefd x hx).symm
  | some i => exact h.vals x i hx

/-- a store with the same variable cells stands for the same global variables -/
theorem VRel.transfer {G : Env} {σ σ' : Store} (h : VRel G σ) (h₁ : σ'.vnames = σ.vnames) (h₂ : σ'.vcells = σ.vcells) :
    VRel G σ' := by
  have hc : ∀ x, σ'.vcellOf x = σ.vcellOf x := fun x => by simp [Store.vcellOf, h₁]
  have hv : ∀ i, σ'.vcellVal i = σ.vcellVal i := fun i => by simp [Store.vcellVal, h₂]
  refine ⟨?_, ?_, ?_, ?_⟩
  · intro x i hx; rw [hc] at hx; rw [h₂]; exact h.bound x i hx
  · intro x y i hx hy; rw [hc] at hx hy; exact h.inj x y i hx hy
  · intro x i hx; rw [hc] at hx; rw [hv]; exact h.vals x i hx
  · intro x hx; rw [hc] at hx; exact h.undefd x hx

theorem rel_empty : Rel [] Store.empty := by
  refine ⟨⟨?_, ?_⟩, ?_, ?_⟩ <;> intros <;> simp_all [Store.cellOf, Store.empty, List.lookup]

/-- **Refinement.** Under the invariant, every code object for `e` evaluates like `e`. -/
theorem evalCode_eq_eval {Φ : FunTable} {G : Env} {σ : Store} (hrel : Rel Φ σ) (hvrel : VRel G σ) :
    ∀ (n : Nat) (env : Env) {e : Expr} {c : Code}, Compiled σ e c → evalCode σ n env c = eval Φ G n env e := by
  intro n
  induction n with
  | zero => intro env e c _; simp [evalCode, eval]
  | succ n ih =>
    intro env e c hc
    cases hc with
    | const k => simp [evalCode, eval]
    | kw k => simp [evalCode, eval]
    | var x => simp only [evalCode, eval, gval_eq hvrel]
    | prim op ha hb => simp only [evalCode, eval, ih env ha, ih env hb]
    | ite hc ht he => simp only [evalCode, eval, ih env hc, ih env ht, ih env he]
    | let1 x hv hb =>
      simp only [evalCode, eval, ih env hv]
      split <;> first | rfl | exact ih _ hb
    | @call r f args cargs hr hargs =>
      simp only [evalCode, eval]
      have hargs' : evalList (fun a => evalCode σ n env a) cargs = evalList (fun a => eval Φ G n env a) args :=
        evalList_compiled (fun e c h => ih env h) hargs
      -- which cell does the call site reach?
      cases htgt : σ.target r (norm f) with
      | none =>
        -- unresolved and the name has no cell: the name is undefined in the table as well
        have hnone : σ.cellOf (norm f) = none := by
          cases r with
          | late => simpa [Store.target] using htgt
          | cell i => simp [Store.target] at htgt
        cases hΦ : Φ.lookup (norm f) with
        | none => rfl
        | some lam =>
          obtain ⟨i, hi⟩ := hrel.defined (norm f) lam hΦ
          rw [hnone] at hi; cases hi
      | some i =>
        have hcell : σ.cellOf (norm f) = some i := by
          cases r with
          | late => simpa [Store.target] using htgt
          | cell j =>
            simp only [Store.target, Option.some.injEq] at htgt
            subst htgt
            exact hr j rfl
        have hm := hrel.cells (norm f) i hcell
        unfold CellMatches at hm
        cases hΦ : Φ.lookup (norm f) with
        | none =>
          rw [hΦ] at hm
          simp [hm]
        | some lam =>
          rw [hΦ] at hm
          obtain ⟨caux, cb, hcb, haux, hcomp⟩ := hm
          have haux' : ∀ env₀ : Env, evalAux (fun env' a => evalCode σ n env' a) env₀ caux
              = evalAux (fun env' a => eval Φ G n env' a) env₀ lam.aux :=
            evalAux_compiled (fun env' e c h => ih env' h) haux
          simp only [hcb, hargs']
          split
          · rfl
          · split
            · rfl
            · next env₀ hbind =>
              simp only [haux']
              split
              · rfl
              · next env₁ haux₁ =>
                cases hcomp with
                | plain hc => exact ih _ hc
                | @gref x j hb hl hx =>
                  -- the body is a pointer to the cell of a global variable: no local binding hides it
                  simp only [locals, List.mem_append, not_or] at hl
                  have hl₀ : (env₀ ++ lam.env).lookup x = none := by
                    simp only [List.lookup_append, bindArgs_lookup_none hbind hl.1.1.1.1 hl.1.1.1.2 hl.1.1.2,
                      lookup_none_of_not_mem hl.2]
                    rfl
                  have hl₁ : env₁.lookup x = none := evalAux_lookup_none lam.aux _ env₁ haux₁ hl₀ hl.1.2
                  rw [hb]
                  cases n with
                  | zero => simp [evalCode, eval]
                  | succ m => simp only [evalCode, eval, hl₁, hvrel.vals x j hx]

/-! ## `declare`, `compile`, `define` preserve the invariant -/

theorem cellOf_declare_self (σ : Store) (f : String) : ∃ i, (declare σ f).cellOf f = some i := by
  unfold declare
  cases h : σ.cellOf f with
  | some i => exact ⟨i, by simp [h]⟩
  | none => exact ⟨σ.cells.length, by simp [Store.cellOf, List.lookup]⟩

theorem declare_vars (σ : Store) (f : String) : (declare σ f).vnames = σ.vnames ∧ (declare σ f).vcells = σ.vcells := by
  unfold declare
  split <;> exact ⟨rfl, rfl⟩

theorem declare_vext (σ : Store) (f : String) : VExt σ (declare σ f) := by
  intro x i h
  simpa [Store.vcellOf, (declare_vars σ f).1] using h

theorem cellOf_declare_of_ne {σ : Store} {f g : String} (hne : g ≠ f) :
    (declare σ f).cellOf g = σ.cellOf g := by
  unfold declare
  cases h : σ.cellOf f with
  | some i => simp
  | none =>
    have : (g == f) = false := by simpa using hne
    simp [Store.cellOf, List.lookup, this]

theorem declare_ext (σ : Store) (f : String) : Ext σ (declare σ f) := by
  intro g i hg
  by_cases hgf : g = f
  · subst hgf
    unfold declare
    simp [hg]
  · rw [cellOf_declare_of_ne hgf]; exact hg

theorem declare_cells_old (σ : Store) (f : String) {i : Nat} (hi : i < σ.cells.length) :
    (declare σ f).cells[i]? = σ.cells[i]? := by
  unfold declare
  cases h : σ.cellOf f with
  | some j => simp
  | none => simp [List.getElem?_append_left hi]

theorem declare_rel {Φ : FunTable} {σ : Store} (hrel : Rel Φ σ) (f : String) : Rel Φ (declare σ f) := by
  cases h : σ.cellOf f with
  | some j =>
    have : declare σ f = σ := by unfold declare; simp [h]
    rw [this]; exact hrel
  | none =>
    have hd : declare σ f = { σ with names := (f, σ.cells.length) :: σ.names, cells := σ.cells ++ [none] } := by
      unfold declare; simp [h]
    have hext := declare_ext σ f
    have hvext := declare_vext σ f
    -- cell of a name in the new store: the new cell for `f`, the old cell otherwise
    have hcase : ∀ g i, (declare σ f).cellOf g = some i →
        (g = f ∧ i = σ.cells.length) ∨ (g ≠ f ∧ σ.cellOf g = some i) := by
      intro g i hg
      by_cases hgf : g = f
      · subst hgf
        left
        rw [hd] at hg
        simp [Store.cellOf, List.lookup] at hg
        exact ⟨rfl, hg.symm⟩
      · right
        rw [cellOf_declare_of_ne hgf] at hg
        exact ⟨hgf, hg⟩
    have hΦf : Φ.lookup f = none := by
      cases hl : Φ.lookup f with
      | none => rfl
      | some lam =>
        obtain ⟨i, hi⟩ := hrel.defined f lam hl
        rw [h] at hi; cases hi
    refine ⟨⟨?_, ?_⟩, ?_, ?_⟩
    · intro g i hg
      rcases hcase g i hg with ⟨_, hi⟩ | ⟨_, hold⟩
      · rw [hd]; simp [hi]
      · have := hrel.wf.bound g i hold
        rw [hd]; simp; omega
    · intro g₁ g₂ i h₁ h₂
      rcases hcase g₁ i h₁ with ⟨e₁, hi₁⟩ | ⟨n₁, o₁⟩ <;> rcases hcase g₂ i h₂ with ⟨e₂, hi₂⟩ | ⟨n₂, o₂⟩
      · rw [e₁, e₂]
      · have := hrel.wf.bound g₂ i o₂; omega
      · have := hrel.wf.bound g₁ i o₁; omega
      · exact hrel.wf.inj g₁ g₂ i o₁ o₂
    · intro g lam hl
      obtain ⟨i, hi⟩ := hrel.defined g lam hl
      exact ⟨i, hext g i hi⟩
    · intro g i hg
      rcases hcase g i hg with ⟨e₁, hi⟩ | ⟨_, hold⟩
      · subst e₁
        unfold CellMatches
        rw [hΦf, hd, hi]
        simp
      · have hb := hrel.wf.bound g i hold
        have hm := hrel.cells g i hold
        unfold CellMatches at hm ⊢
        rw [declare_cells_old σ f hb]
        cases hl : Φ.lookup g with
        | none => rw [hl] at hm; exact hm
        | some lam =>
          rw [hl] at hm
          obtain ⟨caux, cb, h₁, h₂, h₃⟩ := hm
          exact ⟨caux, cb, h₁, h₂.mono hext, h₃.mono hext hvext⟩

theorem declareAll_ext (σ : Store) (fs : List String) : Ext σ (declareAll σ fs) := by
  induction fs generalizing σ with
  | nil => exact Ext.refl σ
  | cons f fs ih =>
    simp only [declareAll, List.foldl_cons]
    exact (declare_ext σ f).trans (ih (declare σ f))

theorem declareAll_rel {Φ : FunTable} {σ : Store} (hrel : Rel Φ σ) (fs : List String) :
    Rel Φ (declareAll σ fs) := by
  induction fs generalizing σ with
  | nil => exact hrel
  | cons f fs ih =>
    simp only [declareAll, List.foldl_cons]
    exact ih (declare_rel hrel f)

theorem declareAll_vars (σ : Store) (fs : List String) :
    (declareAll σ fs).vnames = σ.vnames ∧ (declareAll σ fs).vcells = σ.vcells := by
  induction fs generalizing σ with
  | nil => exact ⟨rfl, rfl⟩
  | cons f fs ih =>
    simp only [declareAll, List.foldl_cons]
    have h₁ := ih (declare σ f)
    have h₂ := declare_vars σ f
    simp only [declareAll] at h₁
    exact ⟨h₁.1.trans h₂.1, h₁.2.trans h₂.2⟩

theorem compile_vars (σ : Store) (e : Expr) : (compile σ e).2.vnames = σ.vnames ∧ (compile σ e).2.vcells = σ.vcells :=
  declareAll_vars σ (callees e)
theorem compile_vext (σ : Store) (e : Expr) : VExt σ (compile σ e).2 := by
  intro x i h
  simpa [Store.vcellOf, (compile_vars σ e).1] using h
theorem compile_vrel {G : Env} {σ : Store} (h : VRel G σ) (e : Expr) : VRel G (compile σ e).2 :=
  h.transfer (compile_vars σ e).1 (compile_vars σ e).2

theorem compile_ext (σ : Store) (e : Expr) : Ext σ (compile σ e).2 := declareAll_ext σ (callees e)
theorem compile_rel {Φ : FunTable} {σ : Store} (hrel : Rel Φ σ) (e : Expr) : Rel Φ (compile σ e).2 :=
  declareAll_rel hrel (callees e)
theorem compile_compiled (σ : Store) (e : Expr) : Compiled (compile σ e).2 e (compile σ e).1 :=
  resolve_compiled _ e

/-- the patch of `Package.DefLambda`: overwrite the cell of `f` -/
theorem patch_rel {Φ : FunTable} {σ : Store} (hrel : Rel Φ σ) {f : String} {i : Nat}
    (hf : σ.cellOf f = some i) {lam : Lam} {caux : List (String × Code)} {cb : Code}
    (haux : CompiledAux σ lam.aux caux) (hcb : BodyOK σ lam cb) :
    Rel ((f, lam) :: Φ) { σ with cells := σ.cells.set i (some ⟨lam.sig, caux, cb, lam.env⟩) } := by
  have hext : Ext σ { σ with cells := σ.cells.set i (some ⟨lam.sig, caux, cb, lam.env⟩) } := fun _ _ h => h
  have hvext : VExt σ { σ with cells := σ.cells.set i (some ⟨lam.sig, caux, cb, lam.env⟩) } := fun _ _ h => h
  have hi := hrel.wf.bound f i hf
  refine ⟨⟨?_, ?_⟩, ?_, ?_⟩
  · intro g j hg
    have := hrel.wf.bound g j hg
    simpa using this
  · exact hrel.wf.inj
  · intro g lam' hl
    by_cases hgf : g = f
    · subst hgf; exact ⟨i, hf⟩
    · have : (g == f) = false := by simpa using hgf
      simp only [List.lookup, this] at hl
      exact hrel.defined g lam' hl
  · intro g j hg
    change σ.cellOf g = some j at hg
    unfold CellMatches
    by_cases hgf : g = f
    · subst hgf
      rw [hf] at hg; cases hg
      simp only [List.lookup, beq_self_eq_true]
      exact ⟨caux, cb, by simp [hi], haux.mono hext, hcb.mono hext hvext⟩
    · have hne : (g == f) = false := by simpa using hgf
      have hji : i ≠ j := fun hij => hgf (hrel.wf.inj g f j hg (hij ▸ hf))
      simp only [List.lookup, hne]
      have hm := hrel.cells g j hg
      unfold CellMatches at hm
      simp only [List.getElem?_set_ne hji]
      cases hl : Φ.lookup g with
      | none => rw [hl] at hm; exact hm
      | some lam' =>
        rw [hl] at hm
        obtain ⟨caux', cb', h₁, h₂, h₃⟩ := hm
        exact ⟨caux', cb', h₁, h₂.mono hext, h₃.mono hext hvext⟩

/-! ### global variables: `declareVar`, `setVar`, `compileBody` -/

/-- a store with the same function cells, in which the variable names keep their cells, stands for
    the same function table -/
theorem Rel.transfer {Φ : FunTable} {σ σ' : Store} (h : Rel Φ σ) (h₁ : σ'.names = σ.names) (h₂ : σ'.cells = σ.cells)
    (hv : VExt σ σ') : Rel Φ σ' := by
  have hc : ∀ f, σ'.cellOf f = σ.cellOf f := fun f => by simp [Store.cellOf, h₁]
  have hext : Ext σ σ' := fun f i hf => by rw [hc]; exact hf
  refine ⟨⟨?_, ?_⟩, ?_, ?_⟩
  · intro f i hf; rw [hc] at hf; rw [h₂]; exact h.wf.bound f i hf
  · intro f g i hf hg; rw [hc] at hf hg; exact h.wf.inj f g i hf hg
  · intro f lam hl; rw [hc]; exact h.defined f lam hl
  · intro f i hf
    rw [hc] at hf
    have hm := h.cells f i hf
    unfold CellMatches at hm ⊢
    rw [h₂]
    cases hl : Φ.lookup f with
    | none => rw [hl] at hm; exact hm
    | some lam =>
      rw [hl] at hm
      obtain ⟨caux, cb, h₁', h₂', h₃'⟩ := hm
      exact ⟨caux, cb, h₁', h₂'.mono hext, h₃'.mono hext hv⟩

theorem declareVar_vext (σ : Store) (x : String) : VExt σ (declareVar σ x) := by
  intro y i hy
  unfold declareVar
  cases h : σ.vcellOf x with
  | some j => simpa using hy
  | none =>
    have hne : (y == x) = false := by
      cases hyx : (y == x) with
      | false => rfl
      | true => simp only [beq_iff_eq] at hyx; subst hyx; rw [h] at hy; cases hy
    simp only [Store.vcellOf, List.lookup_cons, hne]
    exact hy

theorem declareVar_ext (σ : Store) (x : String) : Ext σ (declareVar σ x) := by
  intro f i hf
  unfold declareVar
  split <;> exact hf

theorem declareVar_rel {Φ : FunTable} {σ : Store} (h : Rel Φ σ) (x : String) : Rel Φ (declareVar σ x) := by
  refine h.transfer ?_ ?_ (declareVar_vext σ x) <;> (unfold declareVar; split <;> rfl)

/-- the cells of the variable names after a new name `x` got the next free cell -/
theorem vcellOf_push_cases {σ : Store} {x : String} {c : Option Val} {y : String} {i : Nat}
    (hy : Store.vcellOf { σ with vnames := (x, σ.vcells.length) :: σ.vnames, vcells := σ.vcells ++ [c] } y = some i) :
    (y = x ∧ i = σ.vcells.length) ∨ (y ≠ x ∧ σ.vcellOf y = some i) := by
  by_cases hyx : y = x
  · subst hyx
    left
    simp [Store.vcellOf, List.lookup] at hy
    exact ⟨rfl, hy.symm⟩
  · right
    have : (y == x) = false := by simpa using hyx
    simp only [Store.vcellOf, List.lookup_cons, this] at hy
    exact ⟨hyx, hy⟩

/-- a new name with the next free cell holding `c`: the invariant for the globals in which `x` has the
    content of `c` -/
theorem push_vrel {G G' : Env} {σ : Store} (h : VRel G σ) {x : String} {c : Option Val} (hx : σ.vcellOf x = none)
    (hGx : G'.lookup x = (match c with | some v => some v | none => none))
    (hG : ∀ y, y ≠ x → G'.lookup y = G.lookup y) :
    VRel G' { σ with vnames := (x, σ.vcells.length) :: σ.vnames, vcells := σ.vcells ++ [c] } := by
  refine ⟨?_, ?_, ?_, ?_⟩
  · intro y i hy
    rcases vcellOf_push_cases hy with ⟨_, hi⟩ | ⟨_, hold⟩
    · simp [hi]
    · have := h.bound y i hold
      simp; omega
  · intro y₁ y₂ i h₁ h₂
    rcases vcellOf_push_cases h₁ with ⟨e₁, hi₁⟩ | ⟨_, o₁⟩ <;> rcases vcellOf_push_cases h₂ with ⟨e₂, hi₂⟩ | ⟨_, o₂⟩
    · rw [e₁, e₂]
    · have := h.bound y₂ i o₂; omega
    · have := h.bound y₁ i o₁; omega
    · exact h.inj y₁ y₂ i o₁ o₂
  · intro y i hy
    rcases vcellOf_push_cases hy with ⟨e₁, hi⟩ | ⟨hyx, hold⟩
    · subst e₁
      rw [hGx, hi]
      cases c <;> simp [Store.vcellVal]
    · have hb := h.bound y i hold
      rw [hG y hyx]
      simp only [Store.vcellVal, List.getElem?_append_left hb]
      exact h.vals y i hold
  · intro y hy
    by_cases hyx : y = x
    · subst hyx
      simp [Store.vcellOf, List.lookup] at hy
    · have hne : (y == x) = false := by simpa using hyx
      simp only [Store.vcellOf, List.lookup_cons, hne] at hy
      rw [hG y hyx]
      exact h.undefd y hy

/-- a fresh unbound cell for an unknown name does not change the values -/
theorem declareVar_vrel {G : Env} {σ : Store} (h : VRel G σ) (x : String) : VRel G (declareVar σ x) := by
  unfold declareVar
  cases hx : σ.vcellOf x with
  | some j => simpa using h
  | none => exact push_vrel h hx (h.undefd x hx) (fun _ _ => rfl)

theorem setVar_ext (σ : Store) (x : String) (v : Val) : Ext σ (setVar σ x v) := by
  intro f i hf
  unfold setVar
  split <;> exact hf

theorem setVar_vext (σ : Store) (x : String) (v : Val) : VExt σ (setVar σ x v) := by
  intro y i hy
  unfold setVar
  cases h : σ.vcellOf x with
  | some j => exact hy
  | none =>
    have hne : (y == x) = false := by
      cases hyx : (y == x) with
      | false => rfl
      | true => simp only [beq_iff_eq] at hyx; subst hyx; rw [h] at hy; cases hy
    simp only [Store.vcellOf, List.lookup_cons, hne]
    exact hy

theorem setVar_rel {Φ : FunTable} {σ : Store} (h : Rel Φ σ) (x : String) (v : Val) : Rel Φ (setVar σ x v) := by
  refine h.transfer ?_ ?_ (setVar_vext σ x v) <;> (unfold setVar; split <;> rfl)

/-- `Package.Set` re-establishes the invariant for the globals in which `x` has its new value: the
    value is stored in the cell the name has, every other cell is untouched -/
theorem setVar_vrel {G : Env} {σ : Store} (h : VRel G σ) (x : String) (v : Val) :
    VRel ((x, v) :: G) (setVar σ x v) := by
  unfold setVar
  cases hx : σ.vcellOf x with
  | some j =>
    simp only
    have hj := h.bound x j hx
    refine ⟨?_, h.inj, ?_, ?_⟩
    · intro y i hy
      have := h.bound y i hy
      simpa using this
    · intro y i hy
      change σ.vcellOf y = some i at hy
      by_cases hyx : y = x
      · subst hyx
        rw [hx] at hy; cases hy
        simp [Store.vcellVal, hj, List.lookup]
      · have hne : (y == x) = false := by simpa using hyx
        have hji : j ≠ i := fun hij => hyx (h.inj y x i hy (hij ▸ hx))
        simp only [List.lookup_cons, hne, Store.vcellVal, List.getElem?_set_ne hji]
        exact h.vals y i hy
    · intro y hy
      change σ.vcellOf y = none at hy
      have hyx : y ≠ x := fun e => by subst e; rw [hx] at hy; cases hy
      have hne : (y == x) = false := by simpa using hyx
      simp only [List.lookup_cons, hne]
      exact h.undefd y hy
  | none =>
    refine push_vrel h hx (by simp [List.lookup]) ?_
    intro y hyx
    have hne : (y == x) = false := by simpa using hyx
    simp only [List.lookup_cons, hne]

/-- what `Lambda.Compile` produces for a definition -/
theorem compileBody_spec {Φ : FunTable} {G : Env} {σ : Store} (hrel : Rel Φ σ) (hvrel : VRel G σ) (lam : Lam) :
    Rel Φ (compileBody σ lam).2 ∧ VRel G (compileBody σ lam).2 ∧ Ext σ (compileBody σ lam).2 ∧
      VExt σ (compileBody σ lam).2 ∧ BodyOK (compileBody σ lam).2 lam (compileBody σ lam).1 := by
  have hcomp : compileBody σ lam = compile σ lam.body →
      Rel Φ (compileBody σ lam).2 ∧ VRel G (compileBody σ lam).2 ∧ Ext σ (compileBody σ lam).2 ∧
      VExt σ (compileBody σ lam).2 ∧ BodyOK (compileBody σ lam).2 lam (compileBody σ lam).1 := by
    intro h
    rw [h]
    exact ⟨compile_rel hrel _, compile_vrel hvrel _, compile_ext σ _, compile_vext σ _, .plain (compile_compiled σ _)⟩
  cases hb : lam.body with
  | var x =>
    have hvar : ∀ σ', Compiled σ' lam.body (.var x) := by intro σ'; rw [hb]; exact .var x
    unfold compileBody
    rw [hb]
    simp only
    split
    · exact ⟨hrel, hvrel, Ext.refl σ, VExt.refl σ, .plain (hvar σ)⟩
    · next hloc =>
      split
      · exact ⟨hrel, hvrel, Ext.refl σ, VExt.refl σ, .plain (hvar σ)⟩
      · next hnone =>
        refine ⟨declareVar_rel hrel x, declareVar_vrel hvrel x, declareVar_ext σ x, declareVar_vext σ x, ?_⟩
        refine .gref hb (by simpa using hloc) ?_
        unfold declareVar
        rw [hnone]
        simp [Store.vcellOf, List.lookup]
  | const k => exact hcomp (by unfold compileBody; rw [hb])
  | kw k => exact hcomp (by unfold compileBody; rw [hb])
  | prim op a b => exact hcomp (by unfold compileBody; rw [hb])
  | ite c t e => exact hcomp (by unfold compileBody; rw [hb])
  | let1 x v b => exact hcomp (by unfold compileBody; rw [hb])
  | call f args => exact hcomp (by unfold compileBody; rw [hb])

theorem define_spec {Φ : FunTable} {G : Env} {σ : Store} (hrel : Rel Φ σ) (hvrel : VRel G σ) (f : String) (lam : Lam) :
    Rel ((f, lam) :: Φ) (define σ f lam) ∧ VRel G (define σ f lam) ∧ Ext σ (define σ f lam) ∧ VExt σ (define σ f lam) := by
  obtain ⟨hr₁, hv₁, he₁, hve₁, hb₁⟩ := compileBody_spec hrel hvrel lam
  have hr₂ : Rel Φ (declare (compileBody σ lam).2 f) := declare_rel hr₁ f
  have hv₂ : VRel G (declare (compileBody σ lam).2 f) := hv₁.transfer (declare_vars _ f).1 (declare_vars _ f).2
  have he₂ : Ext σ (declare (compileBody σ lam).2 f) := he₁.trans (declare_ext _ f)
  have hve₂ : VExt σ (declare (compileBody σ lam).2 f) := hve₁.trans (declare_vext _ f)
  have hb₂ : BodyOK (declare (compileBody σ lam).2 f) lam (compileBody σ lam).1 := hb₁.mono (declare_ext _ f) (declare_vext _ f)
  obtain ⟨i, hi⟩ := cellOf_declare_self (compileBody σ lam).2 f
  unfold define
  simp only
  split
  · next j hj =>
    exact ⟨patch_rel hr₂ hj (embedAux_compiled _ lam.aux) hb₂, hv₂.transfer rfl rfl, he₂, hve₂⟩
  · next hnone => rw [hnone] at hi; cases hi

theorem compileBody_exts (σ : Store) (lam : Lam) : Ext σ (compileBody σ lam).2 ∧ VExt σ (compileBody σ lam).2 := by
  unfold compileBody
  split
  · next x _ =>
    split
    · exact ⟨Ext.refl σ, VExt.refl σ⟩
    · split
      · exact ⟨Ext.refl σ, VExt.refl σ⟩
      · exact ⟨declareVar_ext σ x, declareVar_vext σ x⟩
  · exact ⟨compile_ext σ _, compile_vext σ _⟩

theorem define_exts (σ : Store) (f : String) (lam : Lam) : Ext σ (define σ f lam) ∧ VExt σ (define σ f lam) := by
  have h₁ : Ext σ (declare (compileBody σ lam).2 f) := (compileBody_exts σ lam).1.trans (declare_ext _ f)
  have h₂ : VExt σ (declare (compileBody σ lam).2 f) := (compileBody_exts σ lam).2.trans (declare_vext _ f)
  unfold define
  simp only
  split
  · exact ⟨h₁, h₂⟩
  · exact ⟨h₁, h₂⟩

theorem define_ext (σ : Store) (f : String) (lam : Lam) : Ext σ (define σ f lam) := (define_exts σ f lam).1
theorem define_vext (σ : Store) (f : String) (lam : Lam) : VExt σ (define σ f lam) := (define_exts σ f lam).2

/-- `defun` re-establishes the invariant for the table in which `f` has its new definition -/
theorem define_rel {Φ : FunTable} {G : Env} {σ : Store} (hrel : Rel Φ σ) (hvrel : VRel G σ) (f : String) (lam : Lam) :
    Rel ((f, lam) :: Φ) (define σ f lam) := (define_spec hrel hvrel f lam).1

theorem define_vrel {Φ : FunTable} {G : Env} {σ : Store} (hrel : Rel Φ σ) (hvrel : VRel G σ) (f : String) (lam : Lam) :
    VRel G (define σ f lam) := (define_spec hrel hvrel f lam).2.1

/-! ### `fmakunbound` -/

theorem lookup_undefTable (Φ : FunTable) (f g : String) :
    (undefTable Φ f).lookup g = if g = f then none else Φ.lookup g := by
  unfold undefTable
  induction Φ with
  | nil => simp [List.lookup]
  | cons p Φ ih =>
    obtain ⟨k, v⟩ := p
    by_cases hkf : k = f
    · subst hkf
      by_cases hgk : g = k
      · subst hgk; simpa using ih
      · have : (g == k) = false := by simpa using hgk
        simp only [List.filter_cons, bne_self_eq_false, Bool.false_eq_true, if_false, ih, List.lookup_cons, this]
    · have hne : (k != f) = true := by simpa using hkf
      simp only [List.filter_cons, hne, if_true, List.lookup_cons, ih]
      by_cases hgk : g = k
      · subst hgk; simp [hkf]
      · have : (g == k) = false := by simpa using hgk
        simp [this]

theorem undefine_ext (σ : Store) (f : String) : Ext σ (undefine σ f) := by
  unfold undefine
  split
  · exact fun _ _ h => h
  · exact Ext.refl σ

theorem undefine_vrel {G : Env} {σ : Store} (h : VRel G σ) (f : String) : VRel G (undefine σ f) := by
  refine h.transfer ?_ ?_ <;> (unfold undefine; split <;> rfl)

theorem undefine_vext (σ : Store) (f : String) : VExt σ (undefine σ f) := by
  unfold undefine
  split
  · exact fun _ _ h => h
  · exact VExt.refl σ

/-- `fmakunbound` re-establishes the invariant for the table without `f`: the cell of `f` is a
    placeholder again, every other cell is untouched -/
theorem undefine_rel {Φ : FunTable} {σ : Store} (hrel : Rel Φ σ) (f : String) :
    Rel (undefTable Φ f) (undefine σ f) := by
  unfold undefine
  split
  · next i hf =>
    have hext : Ext σ { σ with cells := σ.cells.set i none } := fun _ _ h => h
    have hvext : VExt σ { σ with cells := σ.cells.set i none } := fun _ _ h => h
    have hi := hrel.wf.bound f i hf
    refine ⟨⟨?_, ?_⟩, ?_, ?_⟩
    · intro g j hg
      have := hrel.wf.bound g j hg
      simpa using this
    · exact hrel.wf.inj
    · intro g lam hl
      rw [lookup_undefTable] at hl
      split at hl
      · cases hl
      · exact hrel.defined g lam hl
    · intro g j hg
      change σ.cellOf g = some j at hg
      unfold CellMatches
      rw [lookup_undefTable]
      by_cases hgf : g = f
      · subst hgf
        rw [hf] at hg; cases hg
        simp [hi]
      · have hji : i ≠ j := fun hij => hgf (hrel.wf.inj g f j hg (hij ▸ hf))
        simp only [hgf, if_false, List.getElem?_set_ne hji]
        have hm := hrel.cells g j hg
        unfold CellMatches at hm
        cases hl : Φ.lookup g with
        | none => rw [hl] at hm; exact hm
        | some lam' =>
          rw [hl] at hm
          obtain ⟨caux', cb', h₁, h₂, h₃⟩ := hm
          exact ⟨caux', cb', h₁, h₂.mono hext, h₃.mono hext hvext⟩
  · next hnone =>
    -- the name never had a cell: it is undefined in the table as well
    refine ⟨hrel.wf, ?_, ?_⟩
    · intro g lam hl
      rw [lookup_undefTable] at hl
      split at hl
      · cases hl
      · exact hrel.defined g lam hl
    · intro g j hg
      have hgf : g ≠ f := fun h => by subst h; rw [hnone] at hg; cases hg
      have hm := hrel.cells g j hg
      unfold CellMatches at hm ⊢
      rw [lookup_undefTable]
      simpa [hgf] using hm

/-! ## lists of code objects kept by the top-level loop -/

theorem compiledList_append {σ : Store} : ∀ {es₁ : List Expr} {cs₁ : List Code} {es₂ : List Expr} {cs₂ : List Code},
    CompiledList σ es₁ cs₁ → CompiledList σ es₂ cs₂ → CompiledList σ (es₁ ++ es₂) (cs₁ ++ cs₂)
  | _, _, _, _, .nil, h₂ => h₂
  | _, _, _, _, .cons ha has, h₂ => .cons ha (compiledList_append has h₂)

theorem compiledList_getElem? {σ : Store} : ∀ {es : List Expr} {cs : List Code}, CompiledList σ es cs → ∀ j : Nat,
    (es[j]? = none ∧ cs[j]? = none) ∨ ∃ e c, es[j]? = some e ∧ cs[j]? = some c ∧ Compiled σ e c
  | _, _, .nil, j => .inl (by simp)
  | _, _, .cons ha has, 0 => .inr ⟨_, _, by simp, by simp, ha⟩
  | _, _, .cons ha has, j+1 => by
      simp only [List.getElem?_cons_succ]
      exact compiledList_getElem? has j

theorem compiledList_set {σ : Store} : ∀ {es : List Expr} {cs : List Code}, CompiledList σ es cs →
    ∀ {j : Nat} {e : Expr} {c' : Code}, es[j]? = some e → Compiled σ e c' → CompiledList σ es (cs.set j c')
  | _, _, .nil, j, _, _, hj, _ => by simp at hj
  | _, _, .cons ha has, 0, _, _, hj, hc => by
      simp only [List.getElem?_cons_zero, Option.some.injEq] at hj
      subst hj
      exact .cons hc has
  | _, _, .cons ha has, j+1, _, _, hj, hc => by
      simp only [List.getElem?_cons_succ] at hj
      exact .cons ha (compiledList_set has hj hc)

/-! ## the direct semantics depends on the table only through `lookup` -/

theorem eval_congr {Φ Φ' : FunTable} (h : ∀ f, Φ.lookup f = Φ'.lookup f) :
    ∀ (G : Env) (n : Nat) (env : Env) (e : Expr), eval Φ G n env e = eval Φ' G n env e := by
  intro G
  intro n
  induction n with
  | zero => intros; simp [eval]
  | succ n ih =>
    intro env e
    cases e <;> simp only [eval, ih, h]

theorem evalBinds_congr {α β : Type} {ev₁ : α → Out} {ev₂ : β → Out} (g : α → β) (h : ∀ a, ev₁ a = ev₂ (g a)) :
    ∀ bs : List (String × α), evalBinds ev₁ bs = evalBinds ev₂ (bs.map (fun p => (p.1, g p.2)))
  | [] => by simp [evalBinds]
  | (x, a) :: rest => by
      simp only [evalBinds, List.map_cons, h a, evalBinds_congr g h rest]

theorem run_congr (fuel : Nat) : ∀ {Φ Φ' : FunTable}, (∀ f, Φ.lookup f = Φ'.lookup f) →
    ∀ (G : Env) (hist : List Expr) (forms : List Form), run fuel Φ G hist forms = run fuel Φ' G hist forms := by
  intro Φ Φ' h G hist forms
  induction forms generalizing Φ Φ' G hist with
  | nil => simp [run]
  | cons form rest ih =>
    cases form with
    | defun f binds lam =>
      have hb : evalBinds (fun e => eval Φ G fuel [] e) binds = evalBinds (fun e => eval Φ' G fuel [] e) binds := by
        have := evalBinds_congr (ev₁ := fun e => eval Φ G fuel [] e) (ev₂ := fun e => eval Φ' G fuel [] e) id
          (fun a => eval_congr h G fuel [] a) binds
        simpa using this
      simp only [run, hb]
      split
      · next env _ =>
        rw [ih (Φ := (norm f, { lam with env := env }) :: Φ) (Φ' := (norm f, { lam with env := env }) :: Φ')]
        intro g
        simp only [List.lookup_cons, h g]
      · rw [ih h]
    | undef f =>
      simp only [run]
      rw [ih (Φ := undefTable Φ (norm f)) (Φ' := undefTable Φ' (norm f))]
      intro g
      simp only [lookup_undefTable, h g]
    | setvar k x e =>
      simp only [run, eval_congr h G]
      split
      · rw [ih h]
      · split
        · rw [ih h]
        · rw [ih h]
    | expr e => simp only [run, eval_congr h G, ih h]
    | again j => simp only [run, eval_congr h G, ih h]

/-- the table entry of a top-level definition: the normalised name, no captured variables -/
def defEntry (d : String × Lam) : String × Lam := (norm d.1, { d.2 with env := [] })

/-- the table after the definitions `defs` were evaluated in order on top of `Φ₀` -/
def addDefs (Φ₀ : FunTable) (defs : List (String × Lam)) : FunTable := (defs.map defEntry).reverse ++ Φ₀

theorem run_defs_aux (fuel : Nat) (toForm : String × Lam → Form)
    (htf : ∀ d, toForm d = .defun d.1 [] d.2) :
    ∀ (defs : List (String × Lam)) (Φ₀ : FunTable) (G : Env) (hist : List Expr) (body : List Form),
    run fuel Φ₀ G hist (defs.map toForm ++ body)
      = defs.map (fun d => Out.val (.sym (norm d.1))) ++ run fuel (addDefs Φ₀ defs) G hist body := by
  intro defs
  induction defs with
  | nil => intros; simp [addDefs]
  | cons d ds ih =>
    intro Φ₀ G hist body
    simp only [List.map_cons, List.cons_append, htf d, run, evalBinds]
    rw [ih]
    simp [addDefs, defEntry]

theorem lookup_perm {l₁ l₂ : List (String × Lam)} (hp : l₁.Perm l₂) (hnd : (l₁.map (·.1)).Nodup) (f : String) :
    l₁.lookup f = l₂.lookup f := by
  induction hp with
  | nil => rfl
  | cons x _ ih =>
    obtain ⟨k, v⟩ := x
    simp only [List.map_cons, List.nodup_cons] at hnd
    simp only [List.lookup_cons, ih hnd.2]
  | swap x y l =>
    obtain ⟨kx, vx⟩ := x
    obtain ⟨ky, vy⟩ := y
    simp only [List.map_cons, List.nodup_cons, List.mem_cons, not_or] at hnd
    have hne : ky ≠ kx := hnd.1.1
    simp only [List.lookup_cons]
    by_cases h₁ : f = kx
    · subst h₁
      have : (f == ky) = false := by simpa using fun h => hne h.symm
      simp [this]
    · have : (f == kx) = false := by simpa using h₁
      simp [this]
  | trans h₁ _ ih₁ ih₂ =>
    rw [ih₁ hnd, ih₂ ((h₁.map (·.1)).nodup_iff.mp hnd)]

theorem lookup_defs_perm {defs defs' : List (String × Lam)} (hp : defs.Perm defs')
    (hnd : (defs.map (fun d => norm d.1)).Nodup) (Φ₀ : FunTable) (f : String) :
    (addDefs Φ₀ defs).lookup f = (addDefs Φ₀ defs').lookup f := by
  have hp' : (defs.map defEntry).Perm (defs'.map defEntry) := hp.map defEntry
  have hrev : (defs.map defEntry).reverse.Perm (defs'.map defEntry).reverse :=
    (List.reverse_perm _).trans (hp'.trans (List.reverse_perm _).symm)
  have hkeys : (defs.map defEntry).map (·.1) = defs.map (fun d => norm d.1) := by
    simp [defEntry, List.map_map, Function.comp_def]
  have hnd' : ((defs.map defEntry).reverse.map (·.1)).Nodup := by
    refine (((List.reverse_perm (defs.map defEntry)).map (·.1)).nodup_iff).mpr ?_
    rw [hkeys]; exact hnd
  simp only [addDefs, List.lookup_append, lookup_perm hrev hnd' f]

end SlipVerif.Compile
