import SlipVerif.Lemmas.PrinterSym
/- C03 helper lemmas: lists, dotted lists, vectors and arrays (core only) -/
namespace SlipVerif.Printer
open SlipVerif.Gen

/-! `readElems` one element at a time -/

theorem skipWs_idem (cs : List Char) : skipWs (skipWs cs) = skipWs cs := by
  induction cs with
  | nil => rfl
  | cons c r ih =>
    by_cases h : isWs c = true
    · simp [skipWs, h, ih]
    · have h' : isWs c = false := by simpa using h
      simp [skipWs, h']

theorem skipWs_head (cs : List Char) : ∀ c r, skipWs cs = c :: r → isWs c = false := by
  induction cs with
  | nil => intro c r h; simp [skipWs] at h
  | cons a as ih =>
    intro c r h
    by_cases ha : isWs a = true
    · simp [skipWs, ha] at h; exact ih c r h
    · have ha' : isWs a = false := by simpa using ha
      simp [skipWs, ha'] at h
      rw [← h.1]; exact ha'

theorem read1_skipWs (rbase fuel : Nat) (cs : List Char) : read1 rbase fuel (skipWs cs) = read1 rbase fuel cs := by
  cases fuel with
  | zero => simp [read1]
  | succ f => rw [read1, read1, skipWs_idem]

theorem read1_space (rbase fuel : Nat) (cs : List Char) : read1 rbase fuel (' ' :: cs) = read1 rbase fuel cs := by
  rw [← read1_skipWs rbase fuel (' ' :: cs), ← read1_skipWs rbase fuel cs]
  simp [skipWs, isWs]

theorem readElems_space (rbase fuel : Nat) (cs : List Char) (acc : List Obj) :
    readElems rbase fuel (' ' :: cs) acc = readElems rbase fuel cs acc := by
  cases fuel with
  | zero => simp [readElems]
  | succ f =>
    rw [readElems, readElems]
    have : skipWs (' ' :: cs) = skipWs cs := by simp [skipWs, isWs]
    rw [this]

/-- when the next object reads successfully, `readElems` takes it and goes on -/
theorem readElems_step (rbase f : Nat) (cs rest' : List Char) (o : Obj) (acc : List Obj)
    (h : read1 rbase f cs = .ok (o, rest')) :
    readElems rbase (f + 1) cs acc = readElems rbase f rest' (o :: acc) := by
  cases f with
  | zero => simp [read1] at h
  | succ g =>
    rw [readElems]
    rw [read1] at h
    cases hs : skipWs cs with
    | nil => rw [hs] at h; simp at h
    | cons c r =>
      rw [hs] at h
      by_cases hc : c = ')'
      · subst hc
        simp at h
      · simp only [hc, if_false]
        have hr : read1 rbase (g + 1) (c :: r) = .ok (o, rest') := by
          rw [read1, skipWs_cons c r (skipWs_head cs c r hs)]
          exact h
        rw [hr]

theorem readElems_close (rbase f : Nat) (rest : List Char) (acc : List Obj) :
    readElems rbase (f + 1) (')' :: rest) acc = .ok (acc.reverse, rest) := by
  rw [readElems, skipWs_cons _ _ (by decide)]
  simp

/-! the element list of a cons chain -/

/-- the elements `readElems` collects for the rest of a list: the elements, and for a dotted list
    the symbol `.` and the final atom -/
def tailElems : Obj → List Obj
  | .nil => []
  | .cons a d => a :: tailElems d
  | t => [dotSym, t]

def NoDot : Obj → Prop
  | .cons a d => a ≠ dotSym ∧ NoDot d
  | _ => True

/-- the proper elements and the final cdr of a chain -/
def elemsOf : Obj → List Obj
  | .cons a d => a :: elemsOf d
  | _ => []

def endOf : Obj → Obj
  | .cons _ d => endOf d
  | o => o

theorem mkDotted_elems (d : Obj) : mkDotted (elemsOf d) (endOf d) = d := by
  induction d with
  | cons a d _ ih => simp [elemsOf, endOf, mkDotted, ih]
  | _ => simp [elemsOf, endOf, mkDotted]

theorem mkProper_eq_mkDotted (l : List Obj) : mkProper l = mkDotted l .nil := by
  induction l with
  | nil => rfl
  | cons a as ih => simp [mkProper, mkDotted, ih]

theorem tailElems_proper (d : Obj) (h : endOf d = .nil) : tailElems d = elemsOf d := by
  induction d with
  | cons a d _ ih => simp [tailElems, elemsOf, endOf] at h ⊢; exact ih h
  | nil => simp [tailElems, elemsOf]
  | _ => simp [endOf] at h

theorem tailElems_dotted (d : Obj) (h : endOf d ≠ .nil) : tailElems d = elemsOf d ++ [dotSym, endOf d] := by
  induction d with
  | cons a d _ ih => simp [tailElems, elemsOf, endOf] at h ⊢; exact ih h
  | nil => simp [endOf] at h
  | _ => simp [tailElems, elemsOf, endOf]

theorem elemsOf_noDot (d : Obj) (h : NoDot d) : ∀ x ∈ elemsOf d, x ≠ dotSym := by
  induction d with
  | cons a d _ ih =>
    intro x hx
    simp only [elemsOf, List.mem_cons] at hx
    rcases hx with hx | hx
    · subst hx; exact h.1
    · exact ih h.2 x hx
  | _ => intro x hx; simp [elemsOf] at hx

theorem closeList_noDot (elems : List Obj) (h : ∀ x ∈ elems, x ≠ dotSym) : closeList elems = mkProper elems := by
  unfold closeList
  split
  · rename_i last dot r rest heq
    have hmem : dot ∈ elems := by
      have : dot ∈ elems.reverse := by rw [heq]; simp
      simpa using this
    simp [h dot hmem]
  · rfl

theorem closeList_dotted (pre : List Obj) (t : Obj) (hpre : pre ≠ []) (ht : t ≠ .nil) :
    closeList (pre ++ [dotSym, t]) = mkDotted pre t := by
  unfold closeList
  have hrev : (pre ++ [dotSym, t]).reverse = t :: dotSym :: pre.reverse := by simp
  cases hp : pre.reverse with
  | nil => simp at hp; exact absurd hp hpre
  | cons r rest =>
    rw [hrev, hp]
    simp only [if_true, ht, if_false]
    have : (r :: rest).reverse = pre := by rw [← hp]; simp
    rw [this]

/-- `closeList` rebuilds the chain from the elements `readElems` collected -/
theorem closeList_tailElems (a d : Obj) (ha : a ≠ dotSym) (hd : NoDot d) :
    closeList (a :: tailElems d) = .cons a d := by
  by_cases he : endOf d = .nil
  · rw [tailElems_proper d he, closeList_noDot]
    · rw [mkProper_eq_mkDotted]
      have := mkDotted_elems d
      rw [he] at this
      simp [mkDotted, this]
    · intro x hx
      simp only [List.mem_cons] at hx
      rcases hx with hx | hx
      · subst hx; exact ha
      · exact elemsOf_noDot d hd x hx
  · rw [tailElems_dotted d he,
      show a :: (elemsOf d ++ [dotSym, endOf d]) = (a :: elemsOf d) ++ [dotSym, endOf d] from rfl,
      closeList_dotted _ _ (by simp) he]
    simp [mkDotted, mkDotted_elems]

theorem mkProper_tailElems (d : Obj) (h : isList d = true) : mkProper (tailElems d) = d := by
  induction d with
  | cons a d _ ih => simp [isList] at h; simp [tailElems, mkProper, ih h]
  | nil => rfl
  | _ => simp [isList] at h

end SlipVerif.Printer
