import SlipVerif.Model.Wire6
/- C03 helper lemmas: the 6-digit hexadecimal length header (core only) -/
namespace SlipVerif.Wire6

theorem hexVal_hexUp_fin : ∀ d : Fin 16, hexVal (hexUp d.val) = some d.val := by decide

theorem hexVal_hexUp (d : Nat) (h : d < 16) : hexVal (hexUp d) = some d := hexVal_hexUp_fin ⟨d, h⟩

theorem parseHex_header (n : Nat) (h : n < 16777216) : parseHex (header n) 0 = some n := by
  unfold header
  simp only [parseHex, hexVal_hexUp _ (Nat.mod_lt _ (by decide : 0 < 16))]
  congr 1
  omega

theorem header_length (n : Nat) : (header n).length = 6 := rfl

theorem ofNat_toNat_map (l : List Char) : (l.map Char.toNat).map Char.ofNat = l := by
  induction l with
  | nil => rfl
  | cons c r ih => simp only [List.map_cons, ih, Char.ofNat_toNat]

/-- one message at the front of a stream -/
theorem readMessage_wireBytes (payload rest : List Nat) (h : payload.length ≤ maxMessageSize) :
    readMessage (wireBytes payload ++ rest) = some (payload, rest) := by
  unfold readMessage wireBytes
  have hl : ((header payload.length).map Char.toNat).length = 6 := by simp [header_length]
  have h6 : ¬ ((header payload.length).map Char.toNat ++ payload ++ rest).length < 6 := by
    simp only [List.length_append, hl]; omega
  rw [if_neg h6, List.append_assoc, List.take_left' hl, List.drop_left' hl, ofNat_toNat_map]
  unfold unframe
  have hm : maxMessageSize = 1048576 := rfl
  simp only [header_length, if_true, parseHex_header payload.length (by omega)]
  have : payload.length ≤ maxMessageSize ∧ payload.length ≤ (payload ++ rest).length := ⟨h, by simp⟩
  simp [this]

/-- a whole connection -/
theorem readMessages_writeAll (ps : List (List Nat)) (h : ∀ p ∈ ps, p.length ≤ maxMessageSize) :
    readMessages ps.length (writeAll ps) = some ps := by
  induction ps with
  | nil => rfl
  | cons p ps ih =>
    simp only [List.length_cons, writeAll, readMessages]
    rw [readMessage_wireBytes p (writeAll ps) (h p (by simp))]
    simp only [ih (fun q hq => h q (by simp [hq])), Option.map_some]

end SlipVerif.Wire6
