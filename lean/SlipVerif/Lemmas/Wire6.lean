import SlipVerif.Model.Wire6
/- C03 helper lemmas: the 6-digit hexadecimal length header (core only) -/
namespace SlipVerif.Wire6

theorem hexVal_hexUp_fin : ∀ d : Fin 16, hexVal (hexUp d.val) = some d.val := by decide

theorem hexVal_hexUp (d : Nat) (h : d < 16) : hexVal (hexUp d) = some d := hexVal_hexUp_fin ⟨d, h⟩

theorem parseHex_header (n : Nat) (h : n < 16777216) : parseHex (header n) 0 = some n := by
  unfold header
  simp only [parseHex, hexVal_hexUp _ (Nat.mod_lt _ (by decide : 0 < 16))]
  congr 1
  omega

theorem header_length (n : Nat) : (header n).length = 6 := rfl

end SlipVerif.Wire6
