import SlipVerif.Model.Reader
/-
  Helper lemmas for Theorems/C02: slices of a block, and the simulation between the block reader
  (L2) and the byte fold (L1).
-/
namespace SlipVerif.Reader

/-! ### slices -/

theorem slice_self (src : List Byte) (p : Nat) : slice src p p = [] := by simp [slice]

theorem slice_zero_zero (src : List Byte) : slice src 0 0 = [] := by simp [slice]

theorem slice_succ (src : List Byte) (a p : Nat) (b : Byte) (rest : List Byte)
    (hp : src.drop p = b :: rest) (ha : a ≤ p) :
    slice src a (p + 1) = slice src a p ++ [b] := by
  unfold slice
  have hlen : p < src.length := by
    have := congrArg List.length hp
    simp at this; omega
  have hb : src[p] = b := by
    have h := List.drop_eq_getElem_cons hlen
    rw [h] at hp; exact (List.cons.inj hp).1
  have : p + 1 - a = (p - a) + 1 := by omega
  rw [this, List.take_add_one]
  congr 1
  simp [List.getElem?_drop, show a + (p - a) = p by omega, hlen, hb]

theorem slice_one (src : List Byte) (p : Nat) (b : Byte) (rest : List Byte)
    (hp : src.drop p = b :: rest) : slice src p (p + 1) = [b] := by
  have := slice_succ src p p b rest hp (Nat.le_refl _)
  simpa [slice_self] using this


/-! ### the simulation relation -/

/-- what the block reader's token / string storage must denote while the reader is live -/
def Live (src : List Byte) (pos : Nat) (s2 : S2) (s1 : S1) : Prop :=
  s1.mode = s2.mode ∧
  match s2.mode with
  | .tok _ => s1.tok = s2.carry ++ slice src s2.tokenStart pos ∧ s2.tokenStart ≤ pos
  | .str _ => s1.sbuf = strContent src pos s2 ∧ (s2.buf = [] → s2.tokenStart ≤ pos) ∧ s2.carry = []
  | .esc => s1.sbuf = s2.buf ∧ s2.carry = []
  | .rune => s1.sbuf = s2.buf ∧ s2.carry = []
  | .chrStart => s2.carry = [] ∧ s2.tokenStart = pos
  | .plain _ => s2.carry = []

/-- L2 state `s2`, at offset `pos` of the block `src` that starts at byte `base` of the text,
    represents the L1 state `s1` -/
structure Sim (src : List Byte) (base pos : Nat) (s2 : S2) (s1 : S1) : Prop where
  hcore : s1.core = s2.core
  hpos : s1.pos = base + pos
  hlive : s2.core.halt = none → Live src pos s2 s1

/-- the same relation before the one-form check and the position bump of `step` -/
structure Sim' (src : List Byte) (pos : Nat) (s2 : S2) (s1 : S1) : Prop where
  hcore : s1.core = s2.core
  hlive : s2.core.halt = none → Live src pos s2 s1

theorem fail_halt (c : Core) (e : Err) : (c.fail e).halt ≠ none := by simp [Core.fail]

theorem sim'_fail (src : List Byte) (pos : Nat) (s2 : S2) (s1 : S1) (e : Err) (h : s1.core = s2.core) :
    Sim' src pos (s2.fail e) (s1.fail e) := by
  refine ⟨by simp [S1.fail, S2.fail, h], ?_⟩
  intro hh; simp [S2.fail, Core.fail] at hh

theorem encodeRune_ne_nil (r : Nat) : encodeRune r ≠ [] := by
  unfold encodeRune
  simp only []
  repeat' split
  all_goals simp

/-- a byte met in a plain mode -/
theorem plain_sim (T : Tables) (src : List Byte) (pos : Nat) (b : Byte) (rest : List Byte)
    (s2 : S2) (s1 : S1) (p : PMode)
    (hp : src.drop pos = b :: rest) (hc : s1.core = s2.core) (hcarry : s2.carry = []) :
    Sim' src (pos + 1) (plainStep2 T pos s2 p b) (plainStep1 T s1 p b) := by
  unfold plainStep2 plainStep1
  cases hl : lookup? T (.plain p) b with
  | none => exact sim'_fail _ _ _ _ _ hc
  | some a =>
    simp only []
    cases hk : kindOf a with
    | core =>
      refine ⟨by simp [hc], ?_⟩
      intro _; simp [Live, hcarry]
    | startTok =>
      refine ⟨by simp [hc], ?_⟩
      intro _; simp [Live, hcarry, slice_one src pos b rest hp]
    | commaAt =>
      simp only [hc]
      cases hcm : commaAtTop s2.core with
      | some c =>
        refine ⟨by simp, ?_⟩
        intro _; simp [Live, hcarry]
      | none =>
        refine ⟨by simp [hc], ?_⟩
        intro _; simp [Live, hcarry, slice_one src pos b rest hp]
    | startAfter t base =>
      refine ⟨by simp [hc], ?_⟩
      intro _; simp [Live, hcarry, slice_self]
    | startStr m =>
      refine ⟨by simp [hc], ?_⟩
      intro _; simp [Live, hcarry, strContent, slice_self]
    | startChar =>
      refine ⟨by simp [hc], ?_⟩
      intro _; simp [Live, hcarry]
    | raise => exact sim'_fail _ _ _ _ _ hc
    | bad => exact sim'_fail _ _ _ _ _ hc


/-- a byte met in a token mode -/
theorem tok_sim (T : Tables) (cfg : Cfg) (src : List Byte) (pos : Nat) (b : Byte) (rest : List Byte)
    (s2 : S2) (s1 : S1) (t : TMode)
    (hp : src.drop pos = b :: rest) (hc : s1.core = s2.core) (hm1 : s1.mode = s2.mode) (hm2 : s2.mode = .tok t)
    (htok : s1.tok = s2.carry ++ slice src s2.tokenStart pos) (hts : s2.tokenStart ≤ pos) :
    Sim' src (pos + 1) (tokStep2 T cfg src pos s2 t b) (tokStep1 T cfg s1 t b) := by
  unfold tokStep2 tokStep1
  cases hl : lookup? T (.tok t) b with
  | none => exact sim'_fail _ _ _ _ _ hc
  | some a =>
    simp only []
    by_cases h1 : a = .skipByte
    · simp only [h1, if_true]
      refine ⟨hc, ?_⟩
      intro _
      simp [Live, hm2, htok, slice_succ src s2.tokenStart pos b rest hp hts, List.append_assoc]
      exact ⟨by rw [hm1, hm2], by omega⟩
    · simp only [h1, if_false]
      by_cases h2 : a = doneOf t
      · simp only [h2, if_true]
        have hcons : consume T cfg t s1.core s1.tok = consume T cfg t s2.core (makeToken src pos s2) := by
          simp [makeToken, htok, hc]
        simp only [hcons]
        cases hh : (consume T cfg t s2.core (makeToken src pos s2)).halt with
        | some x =>
          refine ⟨by simp, ?_⟩
          intro hn; simp [hh] at hn
        | none =>
          exact plain_sim T src pos b rest _ _ .value hp (by simp) (by simp)
      · simp only [h2, if_false]
        by_cases h3 : a = .raise
        · simp only [h3, if_true]; exact sim'_fail _ _ _ _ _ hc
        · simp only [h3, if_false]; exact sim'_fail _ _ _ _ _ hc


theorem strContent_cons (src : List Byte) (pos : Nat) (s : S2) (x : Byte) (xs : List Byte)
    (h : s.buf = x :: xs) : strContent src pos s = x :: xs := by
  simp [strContent, h]

theorem strContent_nil (src : List Byte) (pos : Nat) (s : S2)
    (h : s.buf = []) : strContent src pos s = slice src s.tokenStart pos := by
  simp [strContent, h]

theorem strContent_ne (src : List Byte) (pos : Nat) (s : S2) (h : s.buf ≠ []) :
    strContent src pos s = s.buf := by
  unfold strContent
  cases hb : s.buf with
  | nil => exact absurd hb h
  | cons x xs => rfl

/-- a byte inside a string or |symbol| -/
theorem str_sim (T : Tables) (src : List Byte) (pos : Nat) (b : Byte) (rest : List Byte)
    (s2 : S2) (s1 : S1) (m : SMode)
    (hp : src.drop pos = b :: rest) (hc : s1.core = s2.core) (hm1 : s1.mode = s2.mode) (hm2 : s2.mode = .str m)
    (hbuf : s1.sbuf = strContent src pos s2) (hts : s2.buf = [] → s2.tokenStart ≤ pos) (hcarry : s2.carry = []) :
    Sim' src (pos + 1) (strStep2 T src pos s2 m b) (strStep1 T s1 m b) := by
  unfold strStep2 strStep1
  cases hl : lookup? T (.str m) b with
  | none => exact sim'_fail _ _ _ _ _ hc
  | some a =>
    simp only []
    cases a <;> try exact sim'_fail _ _ _ _ _ hc
    case stringByte =>
      cases hb : s2.buf with
      | nil =>
        refine ⟨hc, ?_⟩
        intro _
        have h1 := hts hb
        simp [Live, hm2, hm1, hcarry, hbuf, strContent, hb, slice_succ src s2.tokenStart pos b rest hp h1]
        omega
      | cons x xs =>
        refine ⟨hc, ?_⟩
        intro _
        simp [Live, hm2, hm1, hcarry, hbuf, strContent, hb]
    case stringDone =>
      refine ⟨by simp [hc, hbuf], ?_⟩
      intro _; simp [Live, hcarry]
    case pipeDone =>
      refine ⟨by simp [hc, hbuf], ?_⟩
      intro _; simp [Live, hcarry]
    case escByte =>
      cases hb : s2.buf with
      | nil =>
        refine ⟨hc, ?_⟩
        intro _
        simp [Live, hcarry, hbuf, strContent, hb]
      | cons x xs =>
        refine ⟨hc, ?_⟩
        intro _
        simp [Live, hcarry, hbuf, strContent, hb]

/-- the byte after a backslash -/
theorem esc_sim (T : Tables) (src : List Byte) (pos : Nat) (b : Byte)
    (s2 : S2) (s1 : S1)
    (hc : s1.core = s2.core) (hbuf : s1.sbuf = s2.buf) (hcarry : s2.carry = []) :
    Sim' src (pos + 1) (escStep2 T s2 b) (escStep1 T s1 b) := by
  unfold escStep2 escStep1
  cases hl : lookup? T .esc b with
  | none => exact sim'_fail _ _ _ _ _ hc
  | some a =>
    simp only []
    cases a <;> try exact sim'_fail _ _ _ _ _ hc
    case escOne =>
      refine ⟨hc, ?_⟩
      intro _
      have hne : s2.buf ++ [(T.escMap.getD b.toNat 0).toUInt8] ≠ [] := by simp
      simp only [Live, hc, true_and]
      refine ⟨?_, ?_, hcarry⟩
      · rw [strContent_ne _ _ _ hne, hbuf]
      · intro h; exact absurd h hne
    case escUnicode4 =>
      refine ⟨by simp [hc], ?_⟩
      intro _; simp [Live, hcarry, hbuf]
    case escUnicode8 =>
      refine ⟨by simp [hc], ?_⟩
      intro _; simp [Live, hcarry, hbuf]

/-- a hex digit of a \\u escape -/
theorem rune_sim (T : Tables) (src : List Byte) (pos : Nat) (b : Byte)
    (s2 : S2) (s1 : S1)
    (hc : s1.core = s2.core) (hm1 : s1.mode = s2.mode) (hm2 : s2.mode = .rune)
    (hbuf : s1.sbuf = s2.buf) (hcarry : s2.carry = []) :
    Sim' src (pos + 1) (runeStep2 T s2 b) (runeStep1 T s1 b) := by
  unfold runeStep2 runeStep1
  cases hl : lookup? T .rune b with
  | none => exact sim'_fail _ _ _ _ _ hc
  | some a =>
    simp only []
    cases hv : runeVal a b with
    | none =>
      simp only []
      by_cases h3 : a = .raise
      · simp only [h3, if_true]; exact sim'_fail _ _ _ _ _ hc
      · simp only [h3, if_false]; exact sim'_fail _ _ _ _ _ hc
    | some v =>
      simp only [hc]
      by_cases h0 : s2.core.rcnt - 1 = 0
      · simp only [h0, if_true]
        refine ⟨by simp, ?_⟩
        intro _
        have hne := encodeRune_ne_nil (s2.core.rn * 16 + v)
        simp [Live, hcarry, hbuf, strContent]
        cases he : s2.buf ++ encodeRune (s2.core.rn * 16 + v) with
        | nil => simp at he; exact absurd he.2 hne
        | cons x xs =>
          simp
          intro _ h; exact absurd h hne
      · simp only [h0, if_false]
        refine ⟨by simp, ?_⟩
        intro _; simp [Live, hcarry, hbuf, hm1, hm2]


/-- the byte directly behind `#\` -/
theorem chrStart_sim (T : Tables) (src : List Byte) (pos : Nat) (b : Byte) (rest : List Byte)
    (s2 : S2) (s1 : S1)
    (hp : src.drop pos = b :: rest) (hc : s1.core = s2.core) (hcarry : s2.carry = []) (hts : s2.tokenStart = pos) :
    Sim' src (pos + 1) (chrStartStep2 T s2 b) (chrStartStep1 T s1 b) := by
  unfold chrStartStep2 chrStartStep1
  cases hl : lookup? T .chrStart b with
  | none => exact sim'_fail _ _ _ _ _ hc
  | some a =>
    simp only []
    by_cases h1 : a = .charFirst
    · simp only [h1, if_true]
      refine ⟨hc, ?_⟩
      intro _
      simp [Live, hcarry, hts, slice_one src pos b rest hp]
    · simp only [h1, if_false]
      by_cases h3 : a = .raise
      · simp only [h3, if_true]; exact sim'_fail _ _ _ _ _ hc
      · simp only [h3, if_false]; exact sim'_fail _ _ _ _ _ hc

/-- the byte switch: one byte in any mode -/
theorem body_sim (T : Tables) (cfg : Cfg) (src : List Byte) (pos : Nat) (b : Byte) (rest : List Byte)
    (s2 : S2) (s1 : S1)
    (hp : src.drop pos = b :: rest) (hc : s1.core = s2.core) (hl : Live src pos s2 s1) :
    Sim' src (pos + 1) (body2 T cfg src pos s2 b) (body1 T cfg s1 b) := by
  unfold body2 body1
  obtain ⟨hm1, hrest⟩ := hl
  rw [hm1]
  cases hm2 : s2.mode with
  | plain p =>
    simp only [hm2] at hrest
    exact plain_sim T src pos b rest s2 s1 p hp hc hrest
  | tok t =>
    simp only [hm2] at hrest
    exact tok_sim T cfg src pos b rest s2 s1 t hp hc hm1 hm2 hrest.1 hrest.2
  | str m =>
    simp only [hm2] at hrest
    exact str_sim T src pos b rest s2 s1 m hp hc hm1 hm2 hrest.1 hrest.2.1 hrest.2.2
  | esc =>
    simp only [hm2] at hrest
    exact esc_sim T src pos b s2 s1 hc hrest.1 hrest.2
  | rune =>
    simp only [hm2] at hrest
    exact rune_sim T src pos b s2 s1 hc hm1 hm2 hrest.1 hrest.2
  | chrStart =>
    simp only [hm2] at hrest
    exact chrStart_sim T src pos b rest s2 s1 hp hc hrest.1 hrest.2

theorem oneCheck_halt_none (cfg : Cfg) (pos : Nat) (b : Byte) (c : Core)
    (h : (oneCheck cfg pos b c).halt = none) : c.halt = none ∧ oneCheck cfg pos b c = c := by
  unfold oneCheck at h ⊢
  cases hh : c.halt with
  | some x => simp [hh] at h
  | none =>
    simp only [hh] at h ⊢
    split at h
    · simp at h
    · rename_i hcond; simp [hcond]

/-- one step of the two readers -/
theorem step_sim (T : Tables) (cfg : Cfg) (src : List Byte) (base pos : Nat) (b : Byte) (rest : List Byte)
    (s2 : S2) (s1 : S1)
    (hp : src.drop pos = b :: rest) (h : Sim src base pos s2 s1) :
    Sim src base (pos + 1) (step2 T cfg src base pos s2 b) (step1 T cfg s1 b) := by
  obtain ⟨hc, hpos, hlive⟩ := h
  unfold step2 step1
  rw [hc]
  cases hh : s2.core.halt with
  | some x =>
    simp only []
    refine ⟨rfl, by simp [hpos]; omega, ?_⟩
    intro hn; simp [hh] at hn
  | none =>
    simp only []
    have hb := body_sim T cfg src pos b rest s2 s1 hp hc (hlive hh)
    obtain ⟨hc', hl'⟩ := hb
    refine ⟨by simp [hc', hpos], by simp [hpos]; omega, ?_⟩
    intro hn
    simp only [] at hn
    have ⟨h0, _⟩ := oneCheck_halt_none cfg _ b _ hn
    have hl2 := hl' h0
    -- Live only looks at mode, token and string storage, which the one-form check leaves alone
    simpa [Live, strContent] using hl2


/-- the rest of a block -/
theorem run_sim (T : Tables) (cfg : Cfg) (src : List Byte) (base : Nat) :
    ∀ (rest : List Byte) (pos : Nat) (s2 : S2) (s1 : S1),
    src.drop pos = rest → pos ≤ src.length → Sim src base pos s2 s1 →
    Sim src base src.length (run2 T cfg src base s2 pos rest) (run1 T cfg s1 rest) := by
  intro rest
  induction rest with
  | nil =>
    intro pos s2 s1 hp hle h
    have hlen : src.length ≤ pos := by
      have := congrArg List.length hp; simp at this; omega
    have : pos = src.length := by omega
    subst this; simpa [run2, run1] using h
  | cons b rest ih =>
    intro pos s2 s1 hp hle h
    have hs := step_sim T cfg src base pos b rest s2 s1 hp h
    have hlt : pos < src.length := by
      have := congrArg List.length hp; simp at this; omega
    have hp' : src.drop (pos + 1) = rest := by
      have := congrArg List.tail hp
      simpa [List.tail_drop] using this
    have := ih (pos + 1) _ _ hp' (by omega) hs
    simpa [run2, run1] using this

/-- the end of a block that is not the last: what is saved represents the same L1 state at the
    start of whatever block comes next -/
theorem endBlock_sim (src next : List Byte) (base : Nat) (s2 : S2) (s1 : S1)
    (h : Sim src base src.length s2 s1) :
    Sim next (base + src.length) 0 (endBlock src s2) s1 := by
  obtain ⟨hc, hpos, hlive⟩ := h
  unfold endBlock
  cases hh : s2.core.halt with
  | some x =>
    refine ⟨by simp [hc], by simp [hpos], ?_⟩
    intro hn; simp [hh] at hn
  | none =>
    obtain ⟨hm1, hrest⟩ := hlive hh
    simp only []
    cases hm2 : s2.mode with
    | plain p =>
      simp only [hm2] at hrest
      refine ⟨by simp [hc], by simp [hpos], ?_⟩
      intro _; simp [Live, hm1, hm2, hrest]
    | tok t =>
      simp only [hm2] at hrest
      refine ⟨by simp [hc], by simp [hpos], ?_⟩
      intro _; simp [Live, hm1, hm2, hrest.1, slice_zero_zero]
    | str m =>
      simp only [hm2] at hrest
      cases hb : s2.buf with
      | nil =>
        refine ⟨by simp [hc], by simp [hpos], ?_⟩
        intro _
        simp only [Live, hm1, hm2, true_and]
        refine ⟨?_, by intro _; exact Nat.le_refl 0, hrest.2.2⟩
        rw [hrest.1, strContent_nil _ _ _ hb]
        cases hsl : slice src s2.tokenStart src.length with
        | nil => simp [strContent, slice_zero_zero]
        | cons x xs => simp [strContent]
      | cons x xs =>
        refine ⟨by simp [hc], by simp [hpos], ?_⟩
        intro _
        simp only [Live, hm1, hm2, true_and]
        refine ⟨?_, by intro _; exact Nat.le_refl 0, hrest.2.2⟩
        rw [hrest.1, strContent_cons _ _ _ x xs hb]
        simp [strContent, hb]
    | esc =>
      simp only [hm2] at hrest
      refine ⟨by simp [hc], by simp [hpos], ?_⟩
      intro _; simp [Live, hm1, hm2, hrest]
    | rune =>
      simp only [hm2] at hrest
      refine ⟨by simp [hc], by simp [hpos], ?_⟩
      intro _; simp [Live, hm1, hm2, hrest]
    | chrStart =>
      simp only [hm2] at hrest
      refine ⟨by simp [hc], by simp [hpos], ?_⟩
      intro _; simp [Live, hm1, hm2, hrest]

theorem finishCore_tok_irrel (T : Tables) (cfg : Cfg) (c : Core) (m : Mode) (t1 t2 : List Byte)
    (h : ∀ t, m = .tok t → t1 = t2) : finishCore T cfg c m t1 = finishCore T cfg c m t2 := by
  cases m with
  | tok t => rw [h t rfl]
  | plain p => cases p <;> rfl
  | str m => cases m <;> rfl
  | esc => rfl
  | rune => rfl
  | chrStart => rfl

/-- end of input on the last block -/
theorem finish_sim (T : Tables) (cfg : Cfg) (src : List Byte) (base : Nat) (s2 : S2) (s1 : S1)
    (h : Sim src base src.length s2 s1) :
    finish2 T cfg src base s2 = finish1 T cfg s1 := by
  obtain ⟨hc, hpos, hlive⟩ := h
  unfold finish2 finish1
  rw [hc, hpos]
  cases hh : s2.core.halt with
  | some x => rfl
  | none =>
    simp only []
    obtain ⟨hm1, hrest⟩ := hlive hh
    rw [hm1]
    congr 1
    apply finishCore_tok_irrel
    intro t ht
    simp only [ht] at hrest
    simp [makeToken, hrest.1]

/-- all blocks but the last -/
theorem runBlocks_sim (T : Tables) (cfg : Cfg) :
    ∀ (blocks : List (List Byte)) (base : Nat) (s2 : S2) (s1 : S1),
    (∀ src, Sim src base 0 s2 s1) →
    ∀ src, Sim src (runBlocks T cfg base s2 blocks).1 0 (runBlocks T cfg base s2 blocks).2
      (run1 T cfg s1 blocks.flatten) := by
  intro blocks
  induction blocks with
  | nil => intro base s2 s1 h src; simpa [runBlocks, run1] using h src
  | cons blk rest ih =>
    intro base s2 s1 h src
    have hr := run_sim T cfg blk base blk 0 s2 s1 (by simp) (by omega) (h blk)
    have he : ∀ next, Sim next (base + blk.length) 0 (endBlock blk (run2 T cfg blk base s2 0 blk)) (run1 T cfg s1 blk) :=
      fun next => endBlock_sim blk next base _ _ hr
    have := ih (base + blk.length) _ _ he src
    simpa [runBlocks, run1, List.foldl_append] using this

theorem init_sim (src : List Byte) : Sim src 0 0 init2 init1 := by
  refine ⟨rfl, rfl, ?_⟩
  intro _; simp [Live, init1, init2]

end SlipVerif.Reader
