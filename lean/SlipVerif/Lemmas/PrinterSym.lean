import SlipVerif.Lemmas.PrinterRead
/- C03 helper lemmas: symbols printed without bars (core only) -/
namespace SlipVerif.Printer
open SlipVerif.Gen

def isLetterC (c : Char) : Bool := isLetterByte c.toNat

theorem case_low_fin : ∀ n : Fin 128,
    lowerC (lowerC (Char.ofNat n.val)) = lowerC (Char.ofNat n.val) ∧
    lowerC (upperC (Char.ofNat n.val)) = lowerC (Char.ofNat n.val) ∧
    lowerC (upperC (lowerC (Char.ofNat n.val))) = lowerC (Char.ofNat n.val) ∧
    (lowerC (Char.ofNat n.val) = Char.ofNat n.val ∨ (isLetterC (Char.ofNat n.val) = true ∧ isLetterC (lowerC (Char.ofNat n.val)) = true)) ∧
    (upperC (Char.ofNat n.val) = Char.ofNat n.val ∨ (isLetterC (Char.ofNat n.val) = true ∧ isLetterC (upperC (Char.ofNat n.val)) = true)) ∧
    (upperC (lowerC (Char.ofNat n.val)) = Char.ofNat n.val ∨ (isLetterC (Char.ofNat n.val) = true ∧ isLetterC (upperC (lowerC (Char.ofNat n.val))) = true)) := by
  decide

theorem lowerC_high (c : Char) (h : 128 ≤ c.toNat) : lowerC c = c := by
  unfold lowerC
  have : ¬ (65 ≤ c.toNat ∧ c.toNat ≤ 90) := by omega
  simp [this]

theorem upperC_high (c : Char) (h : 128 ≤ c.toNat) : upperC c = c := by
  unfold upperC
  have : ¬ (97 ≤ c.toNat ∧ c.toNat ≤ 122) := by omega
  simp [this]

/-- a character and its image under a case conversion: the same, or both letters -/
def CaseRel (c c' : Char) : Prop := c' = c ∨ (isLetterC c = true ∧ isLetterC c' = true)

theorem case_facts (c : Char) :
    lowerC (lowerC c) = lowerC c ∧ lowerC (upperC c) = lowerC c ∧ lowerC (upperC (lowerC c)) = lowerC c ∧
    CaseRel c (lowerC c) ∧ CaseRel c (upperC c) ∧ CaseRel c (upperC (lowerC c)) := by
  by_cases h : c.toNat < 128
  · have := case_low_fin ⟨c.toNat, h⟩
    simp only [Char.ofNat_toNat] at this
    exact this
  · have hge : 128 ≤ c.toNat := by omega
    simp [lowerC_high c hge, upperC_high c hge, CaseRel]

theorem lower_caseName (cs : Case) (name : List Char) :
    (caseName cs name).map lowerC = name.map lowerC := by
  cases cs with
  | down =>
    simp only [caseName, List.map_map]
    apply List.map_congr_left
    intro c _
    exact (case_facts c).1
  | up =>
    simp only [caseName, List.map_map]
    apply List.map_congr_left
    intro c _
    exact (case_facts c).2.1
  | cap =>
    cases name with
    | nil => rfl
    | cons c r =>
      simp only [caseName, List.map_cons, List.map_map]
      rw [(case_facts c).2.2.1]
      congr 1
      apply List.map_congr_left
      intro c _
      exact (case_facts c).1
  | none => rfl

def AllRel : List Char → List Char → Prop
  | [], [] => True
  | a :: as, b :: bs => CaseRel a b ∧ AllRel as bs
  | _, _ => False

theorem AllRel.nil : AllRel [] [] := trivial
theorem AllRel.cons {a b : Char} {as bs : List Char} (h : CaseRel a b) (t : AllRel as bs) :
    AllRel (a :: as) (b :: bs) := ⟨h, t⟩

/-- `caseName` maps the name character by character (`CaseRel`) -/
theorem caseName_rel (cs : Case) (name : List Char) :
    AllRel name (caseName cs name) := by
  cases cs with
  | down =>
    simp only [caseName]
    induction name with
    | nil => exact .nil
    | cons c r ih => exact .cons (case_facts c).2.2.2.1 ih
  | up =>
    simp only [caseName]
    induction name with
    | nil => exact .nil
    | cons c r ih => exact .cons (case_facts c).2.2.2.2.1 ih
  | cap =>
    cases name with
    | nil => exact .nil
    | cons c r =>
      simp only [caseName, List.map_cons]
      refine .cons (case_facts c).2.2.2.2.2 ?_
      induction r with
      | nil => exact .nil
      | cons c r ih => exact .cons (case_facts c).2.2.2.1 ih
  | none =>
    simp only [caseName]
    induction name with
    | nil => exact .nil
    | cons c r ih => exact .cons (Or.inl rfl) ih


/-! consequences of the table facts for characters -/

theorem noPipe_token (hT : TablesOK) (c : Char) (h : needPipeChar c = false) : tokenChar c = true := by
  unfold needPipeChar at h
  unfold tokenChar
  rw [List.all_eq_true]
  intro b hb
  have hnp : (tab PrinterTables.needPipeMap b == 120) = false := by
    rw [List.any_eq_false] at h
    simpa using h b hb
  have := allBytes_spec hT.pipe_token b (utf8Bytes_lt c b hb)
  simp only [hnp, Bool.false_or] at this
  exact this

theorem noPipe_start (hT : TablesOK) (c : Char) (h : needPipeChar c = false) : tokenStartChar c = true := by
  unfold needPipeChar at h
  unfold tokenStartChar
  obtain ⟨b, bs, hbs⟩ := utf8Bytes_ne_nil c
  rw [hbs] at h ⊢
  have hnp : (tab PrinterTables.needPipeMap b == 120) = false := by
    rw [List.any_eq_false] at h
    simpa using h b (by simp)
  have hlt : b < 256 := utf8Bytes_lt c b (by rw [hbs]; simp)
  have := allBytes_spec hT.pipe_start b hlt
  simp only [hnp, Bool.false_or] at this
  exact this

theorem dispatch_needPipe (hT : TablesOK) :
    needPipeChar ' ' = true ∧ needPipeChar '\n' = true ∧ needPipeChar '\t' = true ∧ needPipeChar '\r' = true ∧
    needPipeChar '(' = true ∧ needPipeChar ')' = true ∧ needPipeChar '"' = true ∧ needPipeChar '|' = true ∧
    needPipeChar '#' = true := by
  have h := hT.dispatch_pipe
  simp [dispatchBytes] at h
  simp [needPipeChar, utf8Bytes, h]

theorem noPipe_plain (hT : TablesOK) (c : Char) (h : needPipeChar c = false) :
    isWs c = false ∧ c ≠ '(' ∧ c ≠ ')' ∧ c ≠ '"' ∧ c ≠ '|' ∧ c ≠ '#' := by
  have hd := dispatch_needPipe hT
  refine ⟨?_, ?_, ?_, ?_, ?_, ?_⟩
  · cases hws : isWs c with
    | false => rfl
    | true =>
      exfalso
      simp [isWs] at hws
      rcases hws with ((hws | hws) | hws) | hws <;> subst hws <;> simp_all
  all_goals (intro hc; subst hc; simp_all)

theorem letter_noPipe (hT : TablesOK) (c : Char) (h : isLetterC c = true) : needPipeChar c = false := by
  have hlt : c.toNat < 128 := by
    simp [isLetterC, isLetterByte] at h
    omega
  have := allBytes_spec hT.letters_free c.toNat (by omega)
  unfold isLetterC at h
  simp only [h, Bool.not_true, Bool.false_or] at this
  simp only [needPipeChar, utf8Bytes_ascii c hlt, List.any_cons, List.any_nil, Bool.or_false]
  simpa using this

theorem caseRel_noPipe (hT : TablesOK) (c c' : Char) (h : needPipeChar c = false) (hr : CaseRel c c') :
    needPipeChar c' = false := by
  rcases hr with hr | ⟨_, hr⟩
  · rw [hr]; exact h
  · exact letter_noPipe hT c' hr


theorem allRel_noPipe (hT : TablesOK) : ∀ (r r' : List Char), AllRel r r' →
    (∀ x ∈ r, needPipeChar x = false) → ∀ y ∈ r', needPipeChar y = false := by
  intro r
  induction r with
  | nil =>
    intro r' h _ y hy
    cases r' with
    | nil => simp at hy
    | cons _ _ => exact absurd h (by simp [AllRel])
  | cons a as ih =>
    intro r' h hall y hy
    cases r' with
    | nil => exact absurd h (by simp [AllRel])
    | cons b bs =>
      obtain ⟨hab, hrest⟩ := h
      simp only [List.mem_cons] at hy
      rcases hy with hy | hy
      · subst hy
        exact caseRel_noPipe hT a y (hall a (by simp)) hab
      · exact ih bs hrest (fun x hx => hall x (by simp [hx])) y hy

/-- the classification of a token that is no number, not `t` and not `nil`: a symbol -/
theorem classify_sym (tok : List Char) (h1 : tok.map lowerC ≠ ['t']) (h2 : tok.map lowerC ≠ ['n', 'i', 'l'])
    (h3 : isIntTok 10 (tok.map lowerC) = false) (h4 : isRatioTok 10 (tok.map lowerC) = false)
    (h5 : isDecimalTok (tok.map lowerC) = false) (h6 : isExpTok (tok.map lowerC) = false) :
    classifyTok 10 tok = .ok (.sym tok) := by
  have ht : ¬ (tok = ['t'] ∨ tok = ['T']) := by
    intro h
    apply h1
    rcases h with h | h <;> subst h <;> decide
  unfold classifyTok
  simp [ht, h2, h3, h4, h5, h6]

/-- symbol round trip, names that need no bars: the printed name is one token and is classified
    as a symbol -/
theorem read1_sym_bare (hT : TablesOK) (cs : Case) (base : Nat) (name : List Char)
    (hnb : needsBar base name = false)
    (hnt : name.map lowerC ≠ ['t']) (hnn : name.map lowerC ≠ ['n', 'i', 'l'])
    (rest : List Char) (hrest : termOrEnd rest = true) (fuel : Nat) :
    read1 10 (fuel + 1) (caseName cs name ++ rest) = .ok (.sym (caseName cs name), rest) := by
  cases name with
  | nil => simp [needsBar] at hnb
  | cons c r =>
    simp only [needsBar, Bool.or_eq_false_iff, Bool.and_eq_false_iff] at hnb
    obtain ⟨⟨⟨hc, hr⟩, hnum⟩, _⟩ := hnb
    have hrel := caseName_rel cs (c :: r)
    have hlow := lower_caseName cs (c :: r)
    cases htok : caseName cs (c :: r) with
    | nil => rw [htok] at hrel; exact absurd hrel (by simp [AllRel])
    | cons c' r' =>
      rw [htok] at hrel hlow
      obtain ⟨hcc, hrr⟩ := hrel
      have hr'np : ∀ y ∈ r', needPipeChar y = false :=
        allRel_noPipe hT r r' hrr (by
          intro x hx
          rw [List.any_eq_false] at hr
          simpa using hr x hx)
      have hr'tok : ∀ y ∈ r', tokenChar y = true := fun y hy => noPipe_token hT y (hr'np y hy)
      -- classification
      simp only [numberTok, Bool.or_eq_false_iff] at hnum
      obtain ⟨⟨⟨hi, hra⟩, hde⟩, hex⟩ := hnum
      have hcl : classifyTok 10 (c' :: r') = .ok (.sym (c' :: r')) := by
        apply classify_sym
        · rw [hlow]; exact hnt
        · rw [hlow]; exact hnn
        · rw [hlow]; exact hi
        · rw [hlow]; exact hra
        · rw [hlow]; exact hde
        · rw [hlow]; exact hex
      -- the first character
      have hfirst : isWs c' = false ∧ c' ≠ '(' ∧ c' ≠ ')' ∧ c' ≠ '"' ∧ c' ≠ '|' ∧ c' ≠ '#' ∧ tokenStartChar c' = true := by
        by_cases hamp : c = '&'
        · subst hamp
          have hc' : c' = '&' := by
            rcases hcc with h | ⟨h, _⟩
            · exact h
            · exact absurd h (by decide)
          subst hc'
          have ha := hT.amp_start
          refine ⟨by decide, by decide, by decide, by decide, by decide, by decide, ?_⟩
          simp [tokenStartChar, utf8Bytes, ha]
        · have hnp : needPipeChar c = false := by
            rcases hc with h | h
            · simp at h; exact absurd h hamp
            · exact h
          have hnp' := caseRel_noPipe hT c c' hnp hcc
          have hp := noPipe_plain hT c' hnp'
          exact ⟨hp.1, hp.2.1, hp.2.2.1, hp.2.2.2.1, hp.2.2.2.2.1, hp.2.2.2.2.2, noPipe_start hT c' hnp'⟩
      simp only [List.cons_append]
      rw [read1_token hT 10 fuel c' r' rest hfirst.1 hfirst.2.1 hfirst.2.2.1 hfirst.2.2.2.1 hfirst.2.2.2.2.1
        hfirst.2.2.2.2.2.1 hfirst.2.2.2.2.2.2 hr'tok hrest, hcl]
      rfl

end SlipVerif.Printer
