import SlipVerif.Model.PrinterPretty
/- C03 helper lemmas: the pretty rendering has the shape of the flat one (core only) -/
namespace SlipVerif.Printer

/-- piece by piece: the same token text, or a separator where the other has one (the left one made
    of blanks only and not empty) -/
def SameShape : List Piece → List Piece → Prop
  | [], [] => True
  | .tok a :: ps, .tok b :: qs => a = b ∧ SameShape ps qs
  | .sep w :: ps, .sep _ :: qs => Piece.wsOnly (.sep w) = true ∧ SameShape ps qs
  | _, _ => False

theorem SameShape.append {a b c d : List Piece} (h1 : SameShape a b) (h2 : SameShape c d) :
    SameShape (a ++ c) (b ++ d) := by
  induction a generalizing b with
  | nil =>
    cases b with
    | nil => simpa using h2
    | cons _ _ => exact absurd h1 (by simp [SameShape])
  | cons p ps ih =>
    cases b with
    | nil => cases p <;> exact absurd h1 (by simp [SameShape])
    | cons q qs =>
      cases p <;> cases q <;> simp only [SameShape, List.cons_append] at h1 ⊢
      · exact ⟨h1.1, ih h1.2⟩
      · exact ⟨h1.1, ih h1.2⟩

theorem SameShape.tok_cons {t : List Char} {ps qs : List Piece} (h : SameShape ps qs) :
    SameShape (.tok t :: ps) (.tok t :: qs) := ⟨rfl, h⟩

theorem SameShape.refl_tok (t : List Char) : SameShape [.tok t] [.tok t] := ⟨rfl, trivial⟩

theorem chooseSep_ws (margin off pos size t : Nat) :
    Piece.wsOnly (.sep (chooseSep margin off pos size t).1) = true := by
  unfold chooseSep
  split
  · simp [Piece.wsOnly]
  · simp [Piece.wsOnly, List.all_replicate]

theorem SameShape.sep_cons {w v : List Char} {ps qs : List Piece} (hw : Piece.wsOnly (.sep w) = true)
    (h : SameShape ps qs) : SameShape (.sep w :: ps) (.sep v :: qs) := ⟨hw, h⟩

theorem vecWrap_shape (cfg : PCfg) (e : Obj) {inner inner' : List Piece} (h : SameShape inner inner') :
    SameShape (vecWrap cfg e inner) (vecWrap cfg e inner') := by
  unfold vecWrap
  split
  · split
    · exact SameShape.tok_cons h
    · exact SameShape.refl_tok _
  · exact SameShape.refl_tok _

theorem arrWrap_shape (cfg : PCfg) (r : Nat) (c : Obj) {inner inner' : List Piece} (h : SameShape inner inner') :
    SameShape (arrWrap cfg r c inner) (arrWrap cfg r c inner') := by
  unfold arrWrap
  split
  · split
    · exact SameShape.tok_cons h
    · exact SameShape.refl_tok _
  · exact SameShape.refl_tok _

theorem dottedTail_shape (margin off pos closes size : Nat) {atom atom' : List Piece} (h : SameShape atom atom') :
    SameShape (dottedTail margin off pos closes size atom)
      (.sep [' '] :: .tok ['.'] :: .sep [' '] :: (atom' ++ [.tok [')']])) := by
  unfold dottedTail
  simp only [List.cons_append, List.nil_append]
  refine SameShape.sep_cons (chooseSep_ws _ _ _ _ _) (SameShape.tok_cons (SameShape.sep_cons (chooseSep_ws _ _ _ _ _) ?_))
  exact SameShape.append h (SameShape.refl_tok _)

/-- the pretty rendering has the shape of the flat rendering, whatever the margin and columns -/
theorem pretty_shape (cfg : PCfg) (margin : Nat) : ∀ x : Obj,
    (∀ offset closes, SameShape (prettyPieces cfg margin offset closes x) (flatPieces cfg x)) ∧
    (∀ off pos closes, SameShape (prettyTail cfg margin off pos closes x) (flatTail cfg x)) := by
  intro x
  induction x with
  | nil => exact ⟨fun _ _ => SameShape.refl_tok _, fun _ _ _ => SameShape.refl_tok _⟩
  | t =>
    refine ⟨fun _ _ => SameShape.refl_tok _, fun off pos closes => ?_⟩
    simp only [prettyTail, flatTail]
    exact dottedTail_shape margin off pos closes 1 (SameShape.refl_tok _)
  | int n =>
    refine ⟨fun _ _ => SameShape.refl_tok _, fun off pos closes => ?_⟩
    simp only [prettyTail, flatTail]
    exact dottedTail_shape margin off pos closes _ (SameShape.refl_tok _)
  | ratio n d =>
    refine ⟨fun _ _ => SameShape.refl_tok _, fun off pos closes => ?_⟩
    simp only [prettyTail, flatTail]
    exact dottedTail_shape margin off pos closes _ (SameShape.refl_tok _)
  | str s =>
    refine ⟨fun _ _ => SameShape.refl_tok _, fun off pos closes => ?_⟩
    simp only [prettyTail, flatTail]
    exact dottedTail_shape margin off pos closes _ (SameShape.refl_tok _)
  | chr c =>
    refine ⟨fun _ _ => SameShape.refl_tok _, fun off pos closes => ?_⟩
    simp only [prettyTail, flatTail]
    exact dottedTail_shape margin off pos closes _ (SameShape.refl_tok _)
  | sym name =>
    refine ⟨fun _ _ => SameShape.refl_tok _, fun off pos closes => ?_⟩
    simp only [prettyTail, flatTail]
    exact dottedTail_shape margin off pos closes _ (SameShape.refl_tok _)
  | flt ff neg ds e =>
    refine ⟨fun _ _ => SameShape.refl_tok _, fun off pos closes => ?_⟩
    simp only [prettyTail, flatTail]
    exact dottedTail_shape margin off pos closes _ (SameShape.refl_tok _)
  | cons a d iha ihd =>
    constructor
    · intro offset closes
      simp only [prettyPieces, flatPieces]
      split
      · simp only [flatTail]
        exact SameShape.tok_cons (SameShape.append (iha.1 _ _) (SameShape.refl_tok _))
      · exact SameShape.tok_cons (SameShape.append (iha.1 _ _) (ihd.2 _ _ _))
    · intro off pos closes
      simp only [prettyTail, flatTail]
      exact SameShape.sep_cons (chooseSep_ws _ _ _ _ _) (SameShape.append (iha.1 _ _) (ihd.2 _ _ _))
  | vec e ih =>
    constructor
    · intro offset closes
      simp only [prettyPieces, flatPieces]
      exact vecWrap_shape cfg e (ih.1 0 0)
    · intro off pos closes
      simp only [prettyTail, flatTail]
      exact dottedTail_shape margin off pos closes _ (vecWrap_shape cfg e (ih.1 0 0))
  | arr r c ih =>
    constructor
    · intro offset closes
      simp only [prettyPieces, flatPieces]
      exact arrWrap_shape cfg r c (ih.1 0 0)
    · intro off pos closes
      simp only [prettyTail, flatTail]
      exact dottedTail_shape margin off pos closes _ (arrWrap_shape cfg r c (ih.1 0 0))

/-! consequences of `SameShape` -/

theorem SameShape.toks {ps qs : List Piece} (h : SameShape ps qs) :
    ps.filterMap Piece.tok? = qs.filterMap Piece.tok? := by
  induction ps generalizing qs with
  | nil =>
    cases qs with
    | nil => rfl
    | cons _ _ => exact absurd h (by simp [SameShape])
  | cons p ps ih =>
    cases qs with
    | nil => cases p <;> exact absurd h (by simp [SameShape])
    | cons q qs =>
      cases p <;> cases q <;> simp only [SameShape] at h
      · simp only [List.filterMap_cons, Piece.tok?, h.1, ih h.2]
      · simp only [List.filterMap_cons, Piece.tok?]
        exact ih h.2

theorem SameShape.seps {ps qs : List Piece} (h : SameShape ps qs) :
    ps.map Piece.isSep = qs.map Piece.isSep := by
  induction ps generalizing qs with
  | nil =>
    cases qs with
    | nil => rfl
    | cons _ _ => exact absurd h (by simp [SameShape])
  | cons p ps ih =>
    cases qs with
    | nil => cases p <;> exact absurd h (by simp [SameShape])
    | cons q qs =>
      cases p <;> cases q <;> simp only [SameShape] at h
      · simp [Piece.isSep, ih h.2]
      · simp [Piece.isSep, ih h.2]

theorem SameShape.ws {ps qs : List Piece} (h : SameShape ps qs) : ∀ p ∈ ps, Piece.wsOnly p = true := by
  induction ps generalizing qs with
  | nil => intro p hp; simp at hp
  | cons p ps ih =>
    cases qs with
    | nil => cases p <;> exact absurd h (by simp [SameShape])
    | cons q qs =>
      intro x hx
      simp only [List.mem_cons] at hx
      cases p <;> cases q <;> simp only [SameShape] at h
      · rcases hx with hx | hx
        · subst hx; rfl
        · exact ih h.2 x hx
      · rcases hx with hx | hx
        · subst hx; exact h.1
        · exact ih h.2 x hx

/-! the flat pieces render to the flat text -/

theorem render_append (a b : List Piece) : renderPieces (a ++ b) = renderPieces a ++ renderPieces b := by
  simp [renderPieces]

theorem render_cons (p : Piece) (ps : List Piece) : renderPieces (p :: ps) = p.text ++ renderPieces ps := by
  simp [renderPieces]

theorem flat_render (cfg : PCfg) : ∀ x : Obj,
    renderPieces (flatPieces cfg x) = printFlat cfg x ∧ renderPieces (flatTail cfg x) = printTail cfg x := by
  intro x
  induction x with
  | cons a d iha ihd =>
    constructor
    · simp only [flatPieces, printFlat, render_cons, render_append, iha.1, ihd.2, Piece.text]
      simp
    · simp only [flatTail, printTail, render_cons, render_append, iha.1, ihd.2, Piece.text]
      simp
  | vec e ih =>
    have hv : renderPieces (vecWrap cfg e (flatPieces cfg e)) = printVec cfg e := by
      unfold vecWrap
      by_cases ha : cfg.array = true
      · simp only [ha, if_true]
        cases e with
        | cons a d =>
          simp only [render_cons, ih.1, Piece.text, printFlat, printVec, ha, if_true]
          simp
        | _ => simp [renderPieces, Piece.text, printVec, ha]
      · simp [ha, renderPieces, Piece.text]
    constructor
    · simp only [flatPieces, printFlat, hv]
    · simp only [flatTail, printTail, render_cons, render_append, hv, Piece.text]
      simp [renderPieces, Piece.text]
  | arr r c ih =>
    have hv : renderPieces (arrWrap cfg r c (flatPieces cfg c)) = printArr cfg r c := by
      unfold arrWrap
      by_cases ha : cfg.array = true
      · simp only [ha, if_true]
        cases c with
        | cons a d =>
          simp only [render_cons, ih.1, Piece.text, printFlat, printArr, ha, if_true, arrPrefix]
          simp
        | _ => simp [renderPieces, Piece.text, printArr, ha, arrPrefix, nilText]
      · simp [ha, renderPieces, Piece.text]
    constructor
    · simp only [flatPieces, printFlat, hv]
    · simp only [flatTail, printTail, render_cons, render_append, hv, Piece.text]
      simp [renderPieces, Piece.text]
  | _ => simp [flatPieces, flatTail, printFlat, printTail, renderPieces, Piece.text, nilText]

/-- pretty_only_whitespace, all parts -/
theorem pretty_pieces_spec (cfg : PCfg) (margin offset closes : Nat) (x : Obj) :
    (prettyPieces cfg margin offset closes x).filterMap Piece.tok? = (flatPieces cfg x).filterMap Piece.tok? ∧
    (∀ p ∈ prettyPieces cfg margin offset closes x, Piece.wsOnly p = true) ∧
    (prettyPieces cfg margin offset closes x).map Piece.isSep = (flatPieces cfg x).map Piece.isSep ∧
    renderPieces (flatPieces cfg x) = printFlat cfg x := by
  have h := (pretty_shape cfg margin x).1 offset closes
  exact ⟨h.toks, h.ws, h.seps, (flat_render cfg x).1⟩

end SlipVerif.Printer
