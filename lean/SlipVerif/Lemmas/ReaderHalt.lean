import SlipVerif.Model.Reader
/-
  How the reader halts: the core functions only ever halt with a parse / incomplete / unsupported
  error; the one-form exit comes from `oneCheck` alone and the `table` error only from a table entry
  outside the matrix `placed` (which `tablesOK` excludes).
-/
namespace SlipVerif.Reader

/-- not halted, or halted with an error other than `table` -/
def Good (c : Core) : Prop := c.halt = none ∨ ∃ e, e ≠ Err.table ∧ c.halt = some (.err e)

theorem good_of_none {c : Core} (h : c.halt = none) : Good c := Or.inl h

theorem good_fail (c : Core) (e : Err) (he : e ≠ .table) : Good (c.fail e) := Or.inr ⟨e, he, rfl⟩

theorem good_congr {c c' : Core} (h : Good c) (hh : c'.halt = c.halt) : Good c' := by
  unfold Good at *; rw [hh]; exact h

theorem good_push {c : Core} (o : Obj) (h : Good c) : Good (c.push o) := by
  unfold Core.push; split <;> exact good_congr h rfl

theorem good_pushToken (cfg : Cfg) {c : Core} (tok : List Byte) (h : Good c) : Good (pushToken cfg c tok) := by
  unfold pushToken
  repeat' split
  all_goals first | exact good_push _ h | exact good_congr h rfl

theorem good_pushInteger {c : Core} (tok : List Byte) (h : Good c) : Good (pushInteger c tok) := by
  unfold pushInteger
  repeat' split
  all_goals try simp only []
  all_goals first | exact good_push _ h | exact good_fail _ .parse (by simp) | exact good_fail _ .unsupported (by simp)

theorem good_pushChar (T : Tables) {c : Core} (tok : List Byte) (h : Good c) : Good (pushChar T c tok) := by
  unfold pushChar
  repeat' split
  all_goals try simp only []
  all_goals repeat' split
  all_goals first | exact good_push _ h | exact good_fail _ _ (by simp)

theorem good_consume (T : Tables) (cfg : Cfg) (t : TMode) {c : Core} (tok : List Byte) (h : Good c) :
    Good (consume T cfg t c tok) := by
  cases t
  · exact good_pushToken cfg tok h
  · exact good_pushChar T tok h
  · exact good_pushInteger tok h
  · exact good_push _ h

theorem good_place {c : Core} (start : Nat) (obj : Obj) (h : Good c) : Good (c.place start obj) := by
  unfold Core.place; split <;> exact good_congr h rfl

theorem good_closeList {c : Core} (h : Good c) : Good (closeList c) := by
  unfold closeList
  repeat' split
  all_goals try simp only []
  all_goals repeat' split
  all_goals first | exact good_place _ _ h | exact good_fail _ .parse (by simp)

theorem good_openWith {c : Core} (k : Opener) (h : Good c) : Good (openWith c k) := good_congr h rfl

theorem good_plainAct (T : Tables) {c : Core} (a : Action) (b : Byte) (h : Good c) : Good (plainAct T c a b) := by
  unfold plainAct
  cases a <;> simp only []
  all_goals first
    | exact h
    | exact good_openWith _ h
    | exact good_closeList h
    | exact good_congr h rfl
    | (repeat' split) <;> first | exact good_openWith _ h | exact good_fail _ _ (by simp) | exact good_congr h rfl

theorem good_setBase {c : Core} (b : Option (Option Nat)) (h : Good c) : Good (setBase c b) := by
  unfold setBase; split <;> exact good_congr h rfl

theorem good_commaAtTop {c c' : Core} (h : Good c) (hc : commaAtTop c = some c') : Good c' := by
  unfold commaAtTop at hc
  split at hc
  · cases hc; exact good_congr h rfl
  · cases hc

/-- `lookup?` under `tablesOK`: every byte of every mode has an entry inside the matrix -/
theorem tablesOK_lookup (T : Tables) (h : tablesOK T = true) (m : Mode) (b : Byte) :
    ∃ a, lookup? T m b = some a ∧ placed m a = true ∧ byteOK a b.toNat = true := by
  unfold tablesOK at h
  simp only [Bool.and_eq_true, List.all_eq_true, decide_eq_true_eq] at h
  obtain ⟨⟨hall, _⟩, _⟩ := h
  have hm : m ∈ allModes := by
    cases m with
    | plain p => cases p <;> simp [allModes]
    | tok t => cases t <;> simp [allModes]
    | str s => cases s <;> simp [allModes]
    | esc => simp [allModes]
    | rune => simp [allModes]
    | chrStart => simp [allModes]
  obtain ⟨_, hb⟩ := hall m hm
  have hlt : b.toNat < 256 := UInt8.toNat_lt b
  have := hb b.toNat (by simp [hlt])
  unfold lookup?
  cases hx : (T.get m)[b.toNat]? with
  | none => simp [hx] at this
  | some code =>
    simp only [hx] at this
    simp only [Bool.and_eq_true] at this
    exact ⟨decode T code, by simp, this.1, this.2⟩


theorem good_plainStep1 (T : Tables) (hT : tablesOK T = true) {s : S1} (p : PMode) (b : Byte)
    (h : Good s.core) : Good (plainStep1 T s p b).core := by
  obtain ⟨a, hl, hpl, _⟩ := tablesOK_lookup T hT (.plain p) b
  unfold plainStep1
  simp only [hl]
  cases hk : kindOf a with
  | core => exact good_plainAct T _ b h
  | startTok => exact h
  | commaAt =>
    simp only []
    split
    · rename_i c hc; exact good_commaAtTop h hc
    · exact h
  | startAfter t base => exact good_setBase _ h
  | startStr m => exact good_congr h rfl
  | startChar => exact h
  | raise => exact good_fail _ _ (by simp)
  | bad => simp [placed, hk] at hpl

theorem good_tokStep1 (T : Tables) (hT : tablesOK T = true) (cfg : Cfg) {s : S1} (t : TMode) (b : Byte)
    (h : Good s.core) : Good (tokStep1 T cfg s t b).core := by
  obtain ⟨a, hl, hpl, _⟩ := tablesOK_lookup T hT (.tok t) b
  unfold tokStep1
  simp only [hl]
  by_cases h1 : a = .skipByte
  · simp only [h1, if_true]; exact h
  · simp only [h1, if_false]
    by_cases h2 : a = doneOf t
    · simp only [h2, if_true]
      split
      · exact good_consume T cfg t _ h
      · exact good_plainStep1 T hT .value b (good_consume T cfg t _ h)
    · simp only [h2, if_false]
      by_cases h3 : a = .raise
      · simp only [h3, if_true]; exact good_fail _ _ (by simp)
      · simp [placed, h1, h2, h3] at hpl

theorem good_strStep1 (T : Tables) (hT : tablesOK T = true) {s : S1} (m : SMode) (b : Byte)
    (h : Good s.core) : Good (strStep1 T s m b).core := by
  obtain ⟨a, hl, hpl, _⟩ := tablesOK_lookup T hT (.str m) b
  unfold strStep1
  simp only [hl]
  cases a <;> simp [placed] at hpl
  all_goals first | exact h | exact good_push _ h | exact good_fail _ _ (by simp)

theorem good_escStep1 (T : Tables) (hT : tablesOK T = true) {s : S1} (b : Byte)
    (h : Good s.core) : Good (escStep1 T s b).core := by
  obtain ⟨a, hl, hpl, _⟩ := tablesOK_lookup T hT .esc b
  unfold escStep1
  simp only [hl]
  cases a <;> simp [placed] at hpl
  all_goals first | exact h | exact good_congr h rfl | exact good_fail _ _ (by simp)

theorem good_runeStep1 (T : Tables) (hT : tablesOK T = true) {s : S1} (b : Byte)
    (h : Good s.core) : Good (runeStep1 T s b).core := by
  obtain ⟨a, hl, hpl, _⟩ := tablesOK_lookup T hT .rune b
  unfold runeStep1
  simp only [hl]
  cases a <;> simp [placed] at hpl
  all_goals simp only [runeVal]
  all_goals first
    | exact good_fail _ _ (by simp)
    | (split <;> exact good_congr h rfl)

theorem good_chrStartStep1 (T : Tables) (hT : tablesOK T = true) {s : S1} (b : Byte)
    (h : Good s.core) : Good (chrStartStep1 T s b).core := by
  obtain ⟨a, hl, hpl, _⟩ := tablesOK_lookup T hT .chrStart b
  unfold chrStartStep1
  simp only [hl]
  by_cases h1 : a = .charFirst
  · simp only [h1, if_true]; exact h
  · simp only [h1, if_false]
    by_cases h3 : a = .raise
    · simp only [h3, if_true]; exact good_fail _ _ (by simp)
    · simp [placed, h1, h3] at hpl

theorem good_body1 (T : Tables) (hT : tablesOK T = true) (cfg : Cfg) (s : S1) (b : Byte)
    (h : Good s.core) : Good (body1 T cfg s b).core := by
  unfold body1
  split
  · exact good_plainStep1 T hT _ b h
  · exact good_tokStep1 T hT cfg _ b h
  · exact good_strStep1 T hT _ b h
  · exact good_escStep1 T hT b h
  · exact good_runeStep1 T hT b h
  · exact good_chrStartStep1 T hT b h

/-- the halting discipline of a run: never a `table` error, and a one-form exit lies within the
    bytes consumed so far -/
def HaltOK (s : S1) : Prop :=
  s.core.halt ≠ some (.err .table) ∧ ∀ p, s.core.halt = some (.one p) → p ≤ s.pos

theorem haltOK_step1 (T : Tables) (hT : tablesOK T = true) (cfg : Cfg) (s : S1) (b : Byte)
    (h : HaltOK s) : HaltOK (step1 T cfg s b) := by
  unfold step1
  cases hh : s.core.halt with
  | some x =>
    simp only []
    refine ⟨by simpa [hh] using h.1, ?_⟩
    intro p hp
    have := h.2 p (by simpa [hh] using hp)
    simp; omega
  | none =>
    simp only []
    have hg := good_body1 T hT cfg s b (good_of_none hh)
    unfold oneCheck
    rcases hg with h0 | ⟨e, he, h1⟩
    · simp only [h0]
      split
      · refine ⟨by simp, ?_⟩
        intro p hp
        simp at hp
        split at hp <;> (subst hp; simp)
      · exact ⟨by simp [h0], by intro p hp; simp [h0] at hp⟩
    · simp only [h1]
      refine ⟨by simp [h1]; exact he, ?_⟩
      intro p hp; simp [h1] at hp

theorem haltOK_run1 (T : Tables) (hT : tablesOK T = true) (cfg : Cfg) (bs : List Byte) (s : S1)
    (h : HaltOK s) : HaltOK (run1 T cfg s bs) := by
  induction bs generalizing s with
  | nil => simpa [run1] using h
  | cons b rest ih => simpa [run1] using ih _ (haltOK_step1 T hT cfg s b h)

theorem run1_pos (T : Tables) (cfg : Cfg) (bs : List Byte) (s : S1) :
    (run1 T cfg s bs).pos = s.pos + bs.length := by
  induction bs generalizing s with
  | nil => simp [run1]
  | cons b rest ih =>
    have hs : (step1 T cfg s b).pos = s.pos + 1 := by
      unfold step1; split <;> rfl
    have := ih (step1 T cfg s b)
    simp only [run1, List.foldl_cons] at this ⊢
    rw [this, hs]; simp; omega

theorem good_finishCore (T : Tables) (cfg : Cfg) {c : Core} (m : Mode) (tok : List Byte) (h : Good c) :
    Good (finishCore T cfg c m tok) := by
  unfold finishCore
  have key : ∀ c1 : Core, Good c1 → Good (match c1.halt with
      | some _ => c1
      | none => match c1.stack with
        | [] => c1
        | _ :: _ => c1.fail (.incomplete c1.starts.length)) := by
    intro c1 h1
    split
    · exact h1
    · split
      · exact h1
      · exact good_fail _ _ (by simp)
  apply key
  cases m with
  | tok t => exact good_consume T cfg t _ h
  | str m => cases m <;> exact good_fail _ _ (by simp)
  | esc => exact good_fail _ _ (by simp)
  | rune => exact good_fail _ _ (by simp)
  | chrStart => exact good_fail _ .parse (by simp)
  | plain p => cases p <;> first | exact h | exact good_fail _ _ (by simp)

end SlipVerif.Reader
