import SlipVerif.Lemmas.JsonLisp
import SlipVerif.Lemmas.JsonPath
/-
  Helper lemmas for Theorems/C18: bag-scan reports nodes that bag-get finds.
-/
namespace SlipVerif.Json
open J


theorem lookup_some_mem_keys (k : String) (m : Members) (v : J) (h : lookup k m = some v) : k ∈ keys m := by
  induction m with
  | nil => simp [lookup] at h
  | cons kv rest ih =>
    obtain ⟨k', v'⟩ := kv
    by_cases hk : k' = k
    · simp [keys, hk]
    · simp only [lookup, hk, if_false] at h
      simp only [keys, List.map_cons, List.mem_cons]
      exact Or.inr (by simpa [keys] using ih h)

theorem resolve_ofNat (n len : Nat) (h : n < len) : resolve (n : Int) len = some n := by
  simp [resolve, h]

mutual
theorem scan_get : (j : J) → KeysDistinct j = true → ∀ pv ∈ scan j, get pv.1 j = some pv.2
  | .arr xs, hk, pv, h => by
      simp only [scan, List.mem_cons] at h
      rcases h with rfl | h
      · simp [get]
      · simp only [KeysDistinct] at hk
        obtain ⟨n, p', c, hp, hx, hg⟩ := scanL_get xs hk 0 pv h
        have hn : n < xs.length := by
          rcases Nat.lt_or_ge n xs.length with h1 | h1
          · exact h1
          · rw [List.getElem?_eq_none h1] at hx; cases hx
        rw [hp, get_idx_arr]
        simp only [Nat.zero_add] 
        rw [resolve_ofNat n xs.length hn]
        simp [hx, hg]
  | .obj kvs, hk, pv, h => by
      simp only [scan, List.mem_cons] at h
      rcases h with rfl | h
      · simp [get]
      · simp only [KeysDistinct, Bool.and_eq_true] at hk
        obtain ⟨k, p', c, hp, hl, hg⟩ := scanM_get kvs hk.1 hk.2 pv h
        rw [hp, get_key_obj, hl]
        simpa using hg
  | .null, _, pv, h => by simp [scan] at h; subst h; simp [get]
  | .bool _, _, pv, h => by simp [scan] at h; subst h; simp [get]
  | .int _, _, pv, h => by simp [scan] at h; subst h; simp [get]
  | .flo _, _, pv, h => by simp [scan] at h; subst h; simp [get]
  | .str _, _, pv, h => by simp [scan] at h; subst h; simp [get]
  | .time _, _, pv, h => by simp [scan] at h; subst h; simp [get]
theorem scanL_get : (xs : List J) → KeysDistinctL xs = true → ∀ (base : Nat) (pv : Path × J), pv ∈ scanL base xs →
    ∃ (n : Nat) (p' : Path) (c : J), pv.1 = Step.idx ((base + n : Nat) : Int) :: p' ∧ xs[n]? = some c ∧ get p' c = some pv.2
  | [], _, base, pv, h => by simp [scanL] at h
  | x :: xs, hk, base, pv, h => by
      simp only [KeysDistinctL, Bool.and_eq_true] at hk
      simp only [scanL, List.mem_append, List.mem_map] at h
      rcases h with ⟨pv0, hm, rfl⟩ | h
      · exact ⟨0, pv0.1, x, by simp, by simp, scan_get x hk.1 pv0 hm⟩
      · obtain ⟨n, p', c, hp, hx, hg⟩ := scanL_get xs hk.2 (base + 1) pv h
        refine ⟨n + 1, p', c, ?_, by simpa using hx, hg⟩
        rw [hp]
        congr 2
        omega
theorem scanM_get : (kvs : Members) → KeysDistinctM kvs = true → distinctKeys (keys kvs) = true → ∀ (pv : Path × J), pv ∈ scanM kvs →
    ∃ (k : String) (p' : Path) (c : J), pv.1 = Step.key k :: p' ∧ lookup k kvs = some c ∧ get p' c = some pv.2
  | [], _, _, pv, h => by simp [scanM] at h
  | (k, v) :: kvs, hk, hd, pv, h => by
      simp only [KeysDistinctM, Bool.and_eq_true] at hk
      have hd' := (distinctKeys_cons k (keys kvs)).mp (by simpa [keys] using hd)
      simp only [scanM, List.mem_append, List.mem_map] at h
      rcases h with ⟨pv0, hm, rfl⟩ | h
      · exact ⟨k, pv0.1, v, rfl, by simp [lookup], scan_get v hk.1 pv0 hm⟩
      · obtain ⟨k', p', c, hp, hl, hg⟩ := scanM_get kvs hk.2 hd'.2 pv h
        refine ⟨k', p', c, hp, ?_, hg⟩
        have hne : k ≠ k' := by
          intro e; subst e
          exact hd'.1 (lookup_some_mem_keys _ _ _ hl)
        simp [lookup, hne, hl]
end



end SlipVerif.Json
