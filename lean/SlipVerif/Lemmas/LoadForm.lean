import SlipVerif.Model.LoadForm
/-
  C19 — helper lemmas about SlipVerif.Model.LoadForm (evaluation of each construction form,
  chain surgery for dotted lists, hash table fill).  Property theorems are in Theorems/C19.lean.
-/
namespace SlipVerif.LoadForm
open Obj

/-! ### evaluation of each construction form -/

theorem eval_quoteF (x : Obj) : eval (quoteF x) = .ok x := by
  simp [quoteF, call1, S, eval, quoteArg]

theorem eval_list (args : Obj) : eval (.cons (S "list") args) = evalArgs args := by
  simp [S, eval]

theorem eval_cons (a b x y : Obj) (ha : eval a = .ok x) (hb : eval b = .ok y) :
    eval (call2 "cons" a b) = .ok (.cons x y) := by
  simp [call2, S, eval, evalTwo, ha, hb, bind, Except.bind]

theorem eval_append (a b x y : Obj) (ha : eval a = .ok x) (hb : eval b = .ok y) :
    eval (call2 "append" a b) = appendChain x y := by
  simp [call2, S, eval, evalTwo, ha, hb, bind, Except.bind]

theorem eval_makeArray (dims c : Obj) (adj : Bool) :
    eval (makeArrayF dims c adj) = makeArray dims c adj := by
  cases adj <;> simp [makeArrayF, quoteF, call1, S, eval, makeArrayArgs, ofBool, toBool]

theorem eval_let (fills : Obj) : eval (letTableF fills) = evalFills fills .nil := by
  simp [letTableF, S, eval, evalLet]

theorem evalArgs_cons (a d x r : Obj) (ha : eval a = .ok x) (hd : evalArgs d = .ok r) :
    evalArgs (.cons a d) = .ok (.cons x r) := by
  simp [evalArgs, ha, hd, bind, Except.bind]

theorem evalFills_setf (k v k' v' r acc : Obj) (hk : eval k = .ok k') (hv : eval v = .ok v') :
    evalFills (.cons (setfF k v) r) acc = evalFills r (hput k' v' acc) := by
  simp [setfF, call2, S, evalFills, hk, hv, bind, Except.bind]

theorem evalFills_table (acc : Obj) : evalFills (.cons (S "table") .nil) acc = .ok (.hash acc) := by
  simp [S, evalFills]

/-! ### dotted chains: all-but-last and last cons -/

/-- the chain without its last element, as a proper list -/
def initOf : Obj → Obj
  | .cons a d => if isCons d then .cons a (initOf d) else .nil
  | _ => .nil

/-- the last cons of a chain -/
def lastOf : Obj → Obj
  | .cons a d => if isCons d then lastOf d else .cons a d
  | x => x

theorem append_init_last : ∀ d : Obj, isCons d = true → appendChain (initOf d) (lastOf d) = .ok d
  | .cons a d, _ => by
    by_cases hc : isCons d = true
    · simp [initOf, lastOf, hc, appendChain, append_init_last d hc, Except.map]
    · simp [initOf, lastOf, hc, appendChain]
  | .nil, h | .t, h | .int _, h | .ratio _ _, h | .flt _ _, h | .str _, h | .chr _, h | .sym _, h
  | .vec _ _, h | .arr _ _ _, h | .hash _, h => by simp [isCons] at h

theorem isProper_cons (a d : Obj) : isProper (.cons a d) = isProper d := by
  simp [isProper, tailOf]

theorem allElems_true : ∀ c : Obj, allElems (fun _ => true) c = true
  | .cons _ d => by simp [allElems, allElems_true d]
  | .nil | .t | .int _ | .ratio _ _ | .flt _ _ | .str _ | .chr _ | .sym _
  | .vec _ _ | .arr _ _ _ | .hash _ => by simp [allElems]

/-! ### hash table fill -/

/-- append two entry chains -/
def happ : Obj → Obj → Obj
  | .cons a d, y => .cons a (happ d y)
  | _, y => y

/-- fold the entries `es` into the table `acc` with `hput` -/
def hputAll : Obj → Obj → Obj
  | acc, .cons (.cons k v) r => hputAll (hput k v acc) r
  | acc, _ => acc

theorem hput_new (k v : Obj) : ∀ acc : Obj, entriesShape acc = true → k ∉ keysOf acc →
    hput k v acc = happ acc (.cons (.cons k v) .nil)
  | .cons (.cons k' v') r, hs, hk => by
    have hne : ¬ k' = k := by
      intro h; apply hk; simp [keysOf, h]
    have hk' : k ∉ keysOf r := by
      intro h; apply hk; simp [keysOf, h]
    have hs' : entriesShape r = true := by simpa [entriesShape] using hs
    simp [hput, hne, happ, hput_new k v r hs' hk']
  | .nil, _, _ => by simp [hput, happ]
  | .cons .nil _, hs, _ | .cons .t _, hs, _ | .cons (.int _) _, hs, _ | .cons (.ratio _ _) _, hs, _
  | .cons (.flt _ _) _, hs, _ | .cons (.str _) _, hs, _ | .cons (.chr _) _, hs, _
  | .cons (.sym _) _, hs, _ | .cons (.vec _ _) _, hs, _ | .cons (.arr _ _ _) _, hs, _
  | .cons (.hash _) _, hs, _ => by simp [entriesShape] at hs
  | .t, hs, _ | .int _, hs, _ | .ratio _ _, hs, _ | .flt _ _, hs, _ | .str _, hs, _ | .chr _, hs, _
  | .sym _, hs, _ | .vec _ _, hs, _ | .arr _ _ _, hs, _ | .hash _, hs, _ => by simp [entriesShape] at hs

theorem entriesShape_happ : ∀ a b : Obj, entriesShape a = true → entriesShape b = true →
    entriesShape (happ a b) = true
  | .cons (.cons _ _) r, b, ha, hb => by
    have : entriesShape r = true := by simpa [entriesShape] using ha
    simp [happ, entriesShape, entriesShape_happ r b this hb]
  | .nil, b, _, hb => by simpa [happ] using hb
  | .cons .nil _, _, hs, _ | .cons .t _, _, hs, _ | .cons (.int _) _, _, hs, _
  | .cons (.ratio _ _) _, _, hs, _
  | .cons (.flt _ _) _, _, hs, _ | .cons (.str _) _, _, hs, _ | .cons (.chr _) _, _, hs, _
  | .cons (.sym _) _, _, hs, _ | .cons (.vec _ _) _, _, hs, _ | .cons (.arr _ _ _) _, _, hs, _
  | .cons (.hash _) _, _, hs, _ => by simp [entriesShape] at hs
  | .t, _, hs, _ | .int _, _, hs, _ | .ratio _ _, _, hs, _ | .flt _ _, _, hs, _ | .str _, _, hs, _
  | .chr _, _, hs, _
  | .sym _, _, hs, _ | .vec _ _, _, hs, _ | .arr _ _ _, _, hs, _ | .hash _, _, hs, _ => by
    simp [entriesShape] at hs

theorem keysOf_happ : ∀ a b : Obj, entriesShape a = true → keysOf (happ a b) = keysOf a ++ keysOf b
  | .cons (.cons _ _) r, b, ha => by
    have : entriesShape r = true := by simpa [entriesShape] using ha
    simp [happ, keysOf, keysOf_happ r b this]
  | .nil, b, _ => by simp [happ, keysOf]
  | .cons .nil _, _, hs | .cons .t _, _, hs | .cons (.int _) _, _, hs
  | .cons (.ratio _ _) _, _, hs
  | .cons (.flt _ _) _, _, hs | .cons (.str _) _, _, hs | .cons (.chr _) _, _, hs
  | .cons (.sym _) _, _, hs | .cons (.vec _ _) _, _, hs | .cons (.arr _ _ _) _, _, hs
  | .cons (.hash _) _, _, hs => by simp [entriesShape] at hs
  | .t, _, hs | .int _, _, hs | .ratio _ _, _, hs | .flt _ _, _, hs | .str _, _, hs
  | .chr _, _, hs
  | .sym _, _, hs | .vec _ _, _, hs | .arr _ _ _, _, hs | .hash _, _, hs => by
    simp [entriesShape] at hs

theorem happ_assoc_one : ∀ (a e r : Obj), happ (happ a (.cons e .nil)) r = happ a (.cons e r)
  | .cons x d, e, r => by simp [happ, happ_assoc_one d e r]
  | .nil, _, _ | .t, _, _ | .int _, _, _ | .ratio _ _, _, _ | .flt _ _, _, _ | .str _, _, _
  | .chr _, _, _ | .sym _, _, _ | .vec _ _, _, _ | .arr _ _ _, _, _ | .hash _, _, _ => by simp [happ]

theorem happ_nil : ∀ a : Obj, entriesShape a = true → happ a .nil = a
  | .cons (.cons _ _) r, ha => by
    have : entriesShape r = true := by simpa [entriesShape] using ha
    simp [happ, happ_nil r this]
  | .nil, _ => by simp [happ]
  | .cons .nil _, hs | .cons .t _, hs | .cons (.int _) _, hs
  | .cons (.ratio _ _) _, hs
  | .cons (.flt _ _) _, hs | .cons (.str _) _, hs | .cons (.chr _) _, hs
  | .cons (.sym _) _, hs | .cons (.vec _ _) _, hs | .cons (.arr _ _ _) _, hs
  | .cons (.hash _) _, hs => by simp [entriesShape] at hs
  | .t, hs | .int _, hs | .ratio _ _, hs | .flt _ _, hs | .str _, hs
  | .chr _, hs
  | .sym _, hs | .vec _ _, hs | .arr _ _ _, hs | .hash _, hs => by
    simp [entriesShape] at hs

/-- filling a table with entries whose keys are new and pairwise distinct appends them in order -/
theorem hputAll_nodup : ∀ (es acc : Obj), entriesShape acc = true → entriesShape es = true →
    (keysOf acc ++ keysOf es).Nodup → hputAll acc es = happ acc es
  | .cons (.cons k v) r, acc, ha, he, hn => by
    have her : entriesShape r = true := by simpa [entriesShape] using he
    have hk : k ∉ keysOf acc := by
      intro h
      have := List.nodup_append.mp hn
      exact this.2.2 k h k (by simp [keysOf]) rfl
    have h1 : hput k v acc = happ acc (.cons (.cons k v) .nil) := hput_new k v acc ha hk
    have ha' : entriesShape (happ acc (.cons (.cons k v) .nil)) = true :=
      entriesShape_happ acc _ ha (by simp [entriesShape])
    have hn' : (keysOf (happ acc (.cons (.cons k v) .nil)) ++ keysOf r).Nodup := by
      rw [keysOf_happ acc _ ha]
      simpa [keysOf, List.append_assoc] using hn
    simp only [hputAll]
    rw [h1, hputAll_nodup r _ ha' her hn', happ_assoc_one]
  | .nil, acc, ha, _, _ => by
    simp only [hputAll]
    exact (happ_nil acc ha).symm
  | .cons .nil _, _, _, hs, _ | .cons .t _, _, _, hs, _ | .cons (.int _) _, _, _, hs, _
  | .cons (.ratio _ _) _, _, _, hs, _
  | .cons (.flt _ _) _, _, _, hs, _ | .cons (.str _) _, _, _, hs, _ | .cons (.chr _) _, _, _, hs, _
  | .cons (.sym _) _, _, _, hs, _ | .cons (.vec _ _) _, _, _, hs, _ | .cons (.arr _ _ _) _, _, _, hs, _
  | .cons (.hash _) _, _, _, hs, _ => by simp [entriesShape] at hs
  | .t, _, _, hs, _ | .int _, _, _, hs, _ | .ratio _ _, _, _, hs, _ | .flt _ _, _, _, hs, _
  | .str _, _, _, hs, _ | .chr _, _, _, hs, _
  | .sym _, _, _, hs, _ | .vec _ _, _, _, hs, _ | .arr _ _ _, _, _, hs, _ | .hash _, _, _, hs, _ => by
    simp [entriesShape] at hs

/-! ### the round trip, by mutual structural recursion along `loadForm` and its helpers -/

theorem wf_cons (a d : Obj) (h : wf (.cons a d) = true) : wf a = true ∧ wf d = true := by
  simpa [wf] using h

theorem dimsOf_one (n : Nat) : dimsOf (.cons (.int (n : Int)) .nil) = some [n] := by
  simp [dimsOf]

mutual
  theorem roundtrip_obj : ∀ x : Obj, wf x = true → eval (loadForm x) = .ok x
    | .nil, _ => by simp [loadForm, eval]
    | .t, _ => by simp [loadForm, eval]
    | .int _, _ => by simp [loadForm, eval]
    | .ratio _ _, _ => by simp [loadForm, eval]
    | .flt _ _, _ => by simp [loadForm, eval]
    | .str _, _ => by simp [loadForm, eval]
    | .chr _, _ => by simp [loadForm, eval]
    | .sym s, _ => by
      simp only [loadForm]
      by_cases hk : isKeyword s = true
      · simp [hk, eval]
      · simp only [hk]; exact eval_quoteF _
    | .cons a d, h => by
      have ⟨ha, hd⟩ := wf_cons a d h
      simp only [loadForm]
      by_cases hp : isProper d = true
      · simp only [hp, if_true]
        rw [eval_list]
        exact evalArgs_cons _ _ _ _ (roundtrip_obj a ha) (rtElems d hd hp)
      · by_cases hc : isCons d = true
        · have hp' : isProper d = false := by simpa using hp
          simp only [hp', hc, if_true, Bool.false_eq_true, if_false]
          have h1 : eval (.cons (S "list") (.cons (loadForm a) (lfInit d))) = .ok (.cons a (initOf d)) := by
            rw [eval_list]
            exact evalArgs_cons _ _ _ _ (roundtrip_obj a ha) (rtInit d hd hc)
          rw [eval_append _ _ _ _ h1 (rtLast d hd hc)]
          simp [appendChain, append_init_last d hc, Except.map]
        · have hp' : isProper d = false := by simpa using hp
          have hc' : isCons d = false := by simpa using hc
          simp only [hp', hc', Bool.false_eq_true, if_false]
          exact eval_cons _ _ _ _ (roundtrip_obj a ha) (roundtrip_obj d hd)
    | .vec adj es, h => by
      have hp : isProper es = true := by simpa [wf] using h
      simp only [loadForm]
      rw [eval_makeArray]
      simp [makeArray, dimsOf, shapeOk, hp, allElems_true]
    | .arr adj dims c, h => by
      simp only [loadForm]
      rw [eval_makeArray]
      simp only [wf] at h
      unfold makeArray
      split at h
      · rename_i ds hds
        simp only [Bool.and_eq_true, bne_iff_ne, ne_eq] at h
        rw [hds]
        simp [h.1, h.2]
      · simp at h
    | .hash es, h => by
      simp only [wf, Bool.and_eq_true, decide_eq_true_eq] at h
      simp only [loadForm]
      rw [eval_let, rtFills es .nil h.1.1 h.1.2]
      rw [hputAll_nodup es .nil (by simp [entriesShape]) h.1.1 (by simpa [keysOf] using h.2)]
      simp [happ]
  theorem rtElems : ∀ d : Obj, wf d = true → isProper d = true → evalArgs (lfElems d) = .ok d
    | .cons a d, h, hp => by
      have ⟨ha, hd⟩ := wf_cons a d h
      rw [isProper_cons] at hp
      simp only [lfElems]
      exact evalArgs_cons _ _ _ _ (roundtrip_obj a ha) (rtElems d hd hp)
    | .nil, _, _ => by simp [lfElems, evalArgs]
    | .t, _, hp | .int _, _, hp | .ratio _ _, _, hp | .flt _ _, _, hp | .str _, _, hp
    | .chr _, _, hp | .sym _, _, hp | .vec _ _, _, hp | .arr _ _ _, _, hp | .hash _, _, hp => by
      simp [isProper, tailOf] at hp
  theorem rtInit : ∀ d : Obj, wf d = true → isCons d = true → evalArgs (lfInit d) = .ok (initOf d)
    | .cons a d, h, _ => by
      have ⟨ha, hd⟩ := wf_cons a d h
      by_cases hc : isCons d = true
      · simp only [lfInit, initOf, hc, if_true]
        exact evalArgs_cons _ _ _ _ (roundtrip_obj a ha) (rtInit d hd hc)
      · simp [lfInit, initOf, hc, evalArgs]
    | .nil, _, hc | .t, _, hc | .int _, _, hc | .ratio _ _, _, hc | .flt _ _, _, hc | .str _, _, hc
    | .chr _, _, hc | .sym _, _, hc | .vec _ _, _, hc | .arr _ _ _, _, hc | .hash _, _, hc => by
      simp [isCons] at hc
  theorem rtLast : ∀ d : Obj, wf d = true → isCons d = true → eval (lfLast d) = .ok (lastOf d)
    | .cons a d, h, _ => by
      have ⟨ha, hd⟩ := wf_cons a d h
      by_cases hc : isCons d = true
      · simp only [lfLast, lastOf, hc, if_true]
        exact rtLast d hd hc
      · simp only [lfLast, lastOf, hc]
        exact eval_cons _ _ _ _ (roundtrip_obj a ha) (roundtrip_obj d hd)
    | .nil, _, hc | .t, _, hc | .int _, _, hc | .ratio _ _, _, hc | .flt _ _, _, hc | .str _, _, hc
    | .chr _, _, hc | .sym _, _, hc | .vec _ _, _, hc | .arr _ _ _, _, hc | .hash _, _, hc => by
      simp [isCons] at hc
  theorem rtFills : ∀ (es acc : Obj), entriesShape es = true → wfEntries es = true →
      evalFills (lfFills es) acc = .ok (.hash (hputAll acc es))
    | .cons (.cons k v) r, acc, hs, hw => by
      have hs' : entriesShape r = true := by simpa [entriesShape] using hs
      simp only [wfEntries, Bool.and_eq_true] at hw
      simp only [lfFills]
      rw [evalFills_setf _ _ _ _ _ _ (roundtrip_obj k hw.1.1) (roundtrip_obj v hw.1.2), rtFills r _ hs' hw.2]
      simp [hputAll]
    | .nil, acc, _, _ => by simp [lfFills, hputAll, evalFills_table]
    | .cons .nil _, _, hs, _ | .cons .t _, _, hs, _ | .cons (.int _) _, _, hs, _
    | .cons (.ratio _ _) _, _, hs, _
    | .cons (.flt _ _) _, _, hs, _ | .cons (.str _) _, _, hs, _ | .cons (.chr _) _, _, hs, _
    | .cons (.sym _) _, _, hs, _ | .cons (.vec _ _) _, _, hs, _ | .cons (.arr _ _ _) _, _, hs, _
    | .cons (.hash _) _, _, hs, _ => by simp [entriesShape] at hs
    | .t, _, hs, _ | .int _, _, hs, _ | .ratio _ _, _, hs, _ | .flt _ _, _, hs, _ | .str _, _, hs, _
    | .chr _, _, hs, _
    | .sym _, _, hs, _ | .vec _ _, _, hs, _ | .arr _ _ _, _, hs, _ | .hash _, _, hs, _ => by
      simp [entriesShape] at hs
end

end SlipVerif.LoadForm
