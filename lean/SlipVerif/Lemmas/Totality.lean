import SlipVerif.Model.Totality
/- helper lemmas for Theorems/C09.lean (core Lean only) -/
namespace SlipVerif.Totality

theorem lookup_mem {α β : Type} [BEq α] [LawfulBEq α] (l : List (α × β)) (a : α) (b : β)
    (h : l.lookup a = some b) : (a, b) ∈ l := by
  induction l with
  | nil => simp [List.lookup] at h
  | cons p ps ih =>
    obtain ⟨k, v⟩ := p
    simp only [List.lookup] at h
    split at h
    · rename_i heq
      have hk : a = k := by simpa using heq
      cases h
      simp [hk]
    · exact List.mem_cons_of_mem _ (ih h)

/-! ### unpacking `ReaderOK` -/

theorem readerOK_parts {t : ReaderTables} (h : ReaderOK t = true) :
    tablesTotal t = true ∧ targetsValid t = true ∧ retryOK t = true ∧ t.defaultRaises = true := by
  simp only [ReaderOK, Bool.and_eq_true] at h
  exact ⟨h.1.1.1, h.1.1.2, h.1.2, h.2⟩

theorem lookup_of_tablesTotal {t : ReaderTables} (h : tablesTotal t = true) {m b : Nat}
    (hm : m < t.tables.length) (hb : b < 256) :
    ∃ c, lookup t m b = some c ∧ (t.handled.contains c = true ∨ c = dot) := by
  simp only [tablesTotal, List.all_eq_true, List.mem_range] at h
  have h1 := h m hm b hb
  cases hl : lookup t m b with
  | none => simp [hl] at h1
  | some c =>
    refine ⟨c, rfl, ?_⟩
    simp only [hl, Bool.or_eq_true, beq_iff_eq] at h1
    exact h1

structure TargetsValid (t : ReaderTables) : Prop where
  targets : ∀ p ∈ t.targets, ∀ x ∈ p.2, validTarget t x = true
  uncond : ∀ p ∈ t.uncond, validTarget t p.2 = true
  next : ∀ p ∈ t.nextAssign, validMode t p.2 = true
  initial : validMode t t.initial = true
  marker : t.tables.length ≤ nextMarker

theorem targetsValid_parts {t : ReaderTables} (h : targetsValid t = true) : TargetsValid t := by
  simp only [targetsValid, Bool.and_eq_true, List.all_eq_true, decide_eq_true_eq] at h
  exact ⟨h.1.1.1.1, h.1.1.1.2, h.1.1.2, h.1.2, h.2⟩

theorem validMode_lt {t : ReaderTables} {m : Nat} : validMode t m = true ↔ m < t.tables.length := by
  simp [validMode]

theorem resolve_valid {t : ReaderTables} (_tv : TargetsValid t) {s : RState}
    (hs : validState t s = true) {x : Nat} (hx : validTarget t x = true) :
    validMode t (resolve s x) = true := by
  simp only [validState, Bool.and_eq_true] at hs
  simp only [validTarget, Bool.or_eq_true, beq_iff_eq] at hx
  unfold resolve
  split
  · exact hs.2
  · rcases hx with hx | hx
    · contradiction
    · exact hx

/-- a valid mode is not the marker, so resolving it gives the mode itself -/
theorem resolve_of_valid {t : ReaderTables} (tv : TargetsValid t) (s : RState) {m : Nat}
    (hm : validMode t m = true) : resolve s m = m := by
  have h1 := validMode_lt.mp hm
  have h2 := tv.marker
  unfold resolve
  split
  · omega
  · rfl

theorem succModes_valid {t : ReaderTables} (tv : TargetsValid t) {s : RState}
    (hs : validState t s = true) (c : Nat) :
    ∀ m ∈ succModes t s c, validMode t m = true := by
  intro m hm
  unfold succModes at hm
  split at hm
  · rename_i x hx
    have hmem := lookup_mem _ _ _ hx
    simp only [List.mem_singleton] at hm
    subst hm
    exact resolve_valid tv hs (tv.uncond _ hmem)
  · simp only [List.mem_cons, List.mem_map] at hm
    rcases hm with hm | ⟨x, hx, rfl⟩
    · subst hm
      simp only [validState, Bool.and_eq_true] at hs
      exact hs.1
    · cases hl : t.targets.lookup c with
      | none => simp [hl] at hx
      | some ts =>
        simp only [hl, Option.getD_some] at hx
        have hmem := lookup_mem _ _ _ hl
        exact resolve_valid tv hs (tv.targets _ hmem x hx)

theorem succNext_valid {t : ReaderTables} (tv : TargetsValid t) {s : RState}
    (hs : validState t s = true) (c : Nat) : validMode t (succNext t s c) = true := by
  unfold succNext
  cases hl : t.nextAssign.lookup c with
  | none =>
    simp only [Option.getD_none]
    simp only [validState, Bool.and_eq_true] at hs
    exact hs.2
  | some m =>
    simp only [Option.getD_some]
    exact tv.next _ (lookup_mem _ _ _ hl)

theorem mem_dedup {x : RState} : ∀ {l : List RState}, x ∈ dedup l → x ∈ l := by
  intro l
  induction l with
  | nil => simp [dedup]
  | cons y ys ih =>
    intro h
    simp only [dedup] at h
    split at h
    · exact List.mem_cons_of_mem _ (ih h)
    · rcases List.mem_cons.mp h with h | h
      · simp [h]
      · exact List.mem_cons_of_mem _ (ih h)

/-! ### format scanner -/

/-- readParam returns a suffix of its input -/
theorem skipParam_suffix (f : FormatTables) :
    ∀ (l l' : List Nat), skipParam f l = some l' → ∃ pre, l = pre ++ l' := by
  intro l
  induction l with
  | nil =>
    intro l' h
    simp only [skipParam, Option.some.injEq] at h
    exact ⟨[], by simp [← h]⟩
  | cons b rest ih =>
    intro l' h
    simp only [skipParam] at h
    split at h
    · cases h
    · split at h
      · cases h
        exact ⟨[], rfl⟩
      · obtain ⟨pre, hpre⟩ := ih l' h
        exact ⟨b :: pre, by simp [hpre]⟩

/-- readParam never indexes dirScanMap out of range when every byte is inside the map -/
theorem skipParam_some (f : FormatTables) :
    ∀ (l : List Nat), (∀ b ∈ l, b < f.scanMap.length) → ∃ l', skipParam f l = some l' := by
  intro l
  induction l with
  | nil => intro _; exact ⟨[], rfl⟩
  | cons b rest ih =>
    intro hb
    have hlt : b < f.scanMap.length := hb b (by simp)
    simp only [skipParam, List.getElem?_eq_getElem hlt]
    split
    · exact ⟨_, rfl⟩
    · exact ih (fun x hx => hb x (List.mem_cons_of_mem _ hx))

/-- a first byte that is not marked is consumed -/
theorem skipParam_consumes (f : FormatTables) (b : Nat) (rest l' : List Nat)
    (hb : ¬ f.scanMap[b]? = some xMark) (h : skipParam f (b :: rest) = some l') :
    ∃ pre, rest = pre ++ l' := by
  simp only [skipParam] at h
  split at h
  · cases h
  · rename_i m hm
    split at h
    · rename_i hx
      exact absurd (by rw [hm, hx]) hb
    · exact skipParam_suffix f rest l' h

/-! ### digit grouping -/

theorem groupLoop_in_range (n c : Nat) :
    ∀ (fuel prev i : Nat), prev ≤ i → prev ≤ n →
      ∀ p ∈ groupLoop n c fuel prev i, p.1 ≤ p.2 ∧ p.2 ≤ n := by
  intro fuel
  induction fuel with
  | zero =>
    intro prev i _ hn p hp
    simp only [groupLoop, List.mem_singleton] at hp
    subst hp
    exact ⟨hn, Nat.le_refl _⟩
  | succ fuel ih =>
    intro prev i hi hn p hp
    simp only [groupLoop] at hp
    split at hp
    · rename_i hlt
      rcases List.mem_cons.mp hp with hp | hp
      · subst hp
        exact ⟨hi, Nat.le_of_lt hlt⟩
      · exact ih i (i + c) (Nat.le_add_right _ _) (Nat.le_of_lt hlt) p hp
    · simp only [List.mem_singleton] at hp
      subst hp
      exact ⟨hn, Nat.le_refl _⟩

theorem groupLoop_sum (n c : Nat) :
    ∀ (fuel prev i : Nat), prev ≤ i → prev ≤ n →
      ((groupLoop n c fuel prev i).map (fun p => p.2 - p.1)).sum = n - prev := by
  intro fuel
  induction fuel with
  | zero => intro prev i _ _; simp [groupLoop]
  | succ fuel ih =>
    intro prev i hi hn
    simp only [groupLoop]
    split
    · rename_i hlt
      simp only [List.map_cons, List.sum_cons]
      rw [ih i (i + c) (Nat.le_add_right _ _) (Nat.le_of_lt hlt)]
      omega
    · simp

/-- with a positive increment the fuel is irrelevant once it covers the distance to `n` -/
theorem groupLoop_fuel (n c : Nat) (hc : 1 ≤ c) :
    ∀ (fuel fuel' prev i : Nat), n ≤ i + fuel → n ≤ i + fuel' →
      groupLoop n c fuel prev i = groupLoop n c fuel' prev i := by
  intro fuel
  induction fuel with
  | zero =>
    intro fuel' prev i h _
    cases fuel' with
    | zero => rfl
    | succ f =>
      have : ¬ i < n := by omega
      simp [groupLoop, this]
  | succ fuel ih =>
    intro fuel' prev i h h'
    cases fuel' with
    | zero =>
      have : ¬ i < n := by omega
      simp [groupLoop, this]
    | succ f =>
      simp only [groupLoop]
      split
      · rw [ih f i (i + c) (by omega) (by omega)]
      · rfl

end SlipVerif.Totality
