import SlipVerif.Model.Printer
/- helper lemmas for C03: digits and number tokens (core only) -/
namespace SlipVerif.Printer

theorem digitVal_digitChar_fin : ∀ d : Fin 36, digitVal (digitChar d.val) = some d.val := by decide

theorem digitVal_digitChar (d : Nat) (h : d < 36) : digitVal (digitChar d) = some d :=
  digitVal_digitChar_fin ⟨d, h⟩

/-- little-endian evaluation -/
def ofLE (b : Nat) : List Nat → Nat
  | [] => 0
  | d :: ds => d + b * ofLE b ds

theorem ofLE_digitsLE (b : Nat) (hb : 2 ≤ b) : ∀ fuel n, n < fuel → ofLE b (digitsLE b fuel n) = n := by
  intro fuel
  induction fuel with
  | zero => intro n h; omega
  | succ f ih =>
    intro n h
    unfold digitsLE
    split
    · simp [ofLE]
    · rename_i hn
      have hdiv : n / b < f := by
        have : n / b < n := Nat.div_lt_self (by omega) (by omega)
        omega
      simp only [ofLE, ih _ hdiv]
      exact Nat.mod_add_div n b

theorem digitsLE_lt (b : Nat) (hb : 2 ≤ b) : ∀ fuel n, ∀ d ∈ digitsLE b fuel n, d < b := by
  intro fuel
  induction fuel with
  | zero => intro n d h; simp [digitsLE] at h
  | succ f ih =>
    intro n d h
    unfold digitsLE at h
    split at h
    · simp at h; omega
    · simp at h
      rcases h with h | h
      · subst h; exact Nat.mod_lt _ (by omega)
      · exact ih _ _ h

theorem digitsLE_ne_nil (b : Nat) : ∀ fuel n, 0 < fuel → digitsLE b fuel n ≠ [] := by
  intro fuel n h
  cases fuel with
  | zero => omega
  | succ f => unfold digitsLE; split <;> simp


theorem parseNatAux_append (b : Nat) (xs ys : List Char) : ∀ acc,
    parseNatAux b (xs ++ ys) acc = (parseNatAux b xs acc).bind (fun a => parseNatAux b ys a) := by
  induction xs with
  | nil => intro acc; simp [parseNatAux]
  | cons c cs ih =>
    intro acc
    simp only [List.cons_append, parseNatAux]
    cases digitVal c with
    | none => simp
    | some d =>
      simp only
      split
      · exact ih _
      · simp

/-- digit characters of a list of digits parse to the big-endian value -/
theorem parseNatAux_digits (b : Nat) (hb : b ≤ 36) (ds : List Nat) (h : ∀ d ∈ ds, d < b) : ∀ acc,
    parseNatAux b (ds.map digitChar) acc = some (ds.foldl (fun a d => a * b + d) acc) := by
  induction ds with
  | nil => intro acc; simp [parseNatAux]
  | cons d ds ih =>
    intro acc
    have hd : d < b := h d (by simp)
    simp only [List.map_cons, parseNatAux, digitVal_digitChar d (by omega), hd, if_true, List.foldl_cons]
    exact ih (fun x hx => h x (by simp [hx])) _

theorem foldr_ofLE (b : Nat) (ds : List Nat) : ds.foldr (fun d a => a * b + d) 0 = ofLE b ds := by
  induction ds with
  | nil => rfl
  | cons d ds ih =>
    simp only [List.foldr_cons, ofLE]
    rw [ih, Nat.mul_comm, Nat.add_comm]

theorem natText_ne_nil (b n : Nat) : natText b n ≠ [] := by
  unfold natText
  have := digitsLE_ne_nil b (n + 1) n (by omega)
  simp [this]

/-- every natural number printed in base 2..36 parses back to itself -/
theorem parseNat_natText (b : Nat) (hb : 2 ≤ b) (hb36 : b ≤ 36) (n : Nat) :
    parseNat b (natText b n) = some n := by
  have hne := natText_ne_nil b n
  unfold parseNat
  split
  · rename_i h; exact absurd h hne
  · unfold natText
    rw [parseNatAux_digits b hb36]
    · rw [List.foldl_reverse, foldr_ofLE, ofLE_digitsLE b hb _ _ (by omega)]
    · intro d hd
      exact digitsLE_lt b hb _ _ d (by simpa using hd)

/-- the characters of a printed natural number are digits of the base -/
theorem natText_all_digits (b : Nat) (hb : 2 ≤ b) (hb36 : b ≤ 36) (n : Nat) :
    ∀ c ∈ natText b n, isDigitB b c = true := by
  intro c hc
  unfold natText at hc
  simp only [List.mem_map, List.mem_reverse] at hc
  obtain ⟨d, hd, rfl⟩ := hc
  have hlt := digitsLE_lt b hb _ _ d hd
  simp [isDigitB, digitVal_digitChar d (by omega), hlt]


theorem digitChar_not_sign_fin : ∀ d : Fin 36, digitChar d.val ≠ '-' ∧ digitChar d.val ≠ '+' ∧ digitChar d.val ≠ '.' ∧ digitChar d.val ≠ '/' := by decide

/-- a printed natural number starts with a digit character -/
theorem natText_head (b : Nat) (hb : 2 ≤ b) (hb36 : b ≤ 36) (n : Nat) :
    ∃ d r, natText b n = digitChar d :: r ∧ d < 36 ∧ d < b := by
  have hne := natText_ne_nil b n
  cases hnt : natText b n with
  | nil => exact absurd hnt hne
  | cons c r =>
    have hc : c ∈ natText b n := by simp [hnt]
    unfold natText at hc
    simp only [List.mem_map, List.mem_reverse] at hc
    obtain ⟨d, hd, rfl⟩ := hc
    have := digitsLE_lt b hb _ _ d hd
    exact ⟨d, r, rfl, by omega, this⟩

theorem parseSigned_of_head (b : Nat) (c : Char) (r : List Char) (h1 : c ≠ '-') (h2 : c ≠ '+') :
    parseSigned b (c :: r) = (parseNat b (c :: r)).map (fun n => (n : Int)) := by
  unfold parseSigned
  split
  · rename_i heq; simp at heq; exact absurd heq.1 h1
  · rename_i heq; simp at heq; exact absurd heq.1 h2
  · rfl

/-- int_roundtrip at the digit level: every integer printed in base 2..36 parses back -/
theorem parseSigned_intText (b : Nat) (hb : 2 ≤ b) (hb36 : b ≤ 36) (n : Int) :
    parseSigned b (intText b n) = some n := by
  unfold intText
  split
  · rename_i hneg
    simp only [parseSigned, parseNat_natText b hb hb36]
    show some (-((n.natAbs : Nat) : Int)) = some n
    congr 1
    omega
  · rename_i hpos
    obtain ⟨d, r, hnt, hd, _⟩ := natText_head b hb hb36 n.natAbs
    have hs := digitChar_not_sign_fin ⟨d, hd⟩
    rw [hnt, parseSigned_of_head b _ _ hs.1 hs.2.1, ← hnt, parseNat_natText b hb hb36]
    show some ((n.natAbs : Nat) : Int) = some n
    congr 1
    omega

end SlipVerif.Printer
