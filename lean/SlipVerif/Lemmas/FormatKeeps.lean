import SlipVerif.Model.Format
/-! C15 — what every run keeps: the argument list is never changed and a cursor inside 0..length stays
    inside (so `~*` `~:*` `~@*` `~:P` and the consuming directives never leave a cursor that reads outside).
    `Post x Q` = "if the computation succeeds its result satisfies Q"; the proof follows the structure of
    the four mutually recursive evaluators by induction over the fuel. -/
namespace SlipVerif.Format

/-- what every directive keeps: the argument list is never changed, and a cursor inside 0..length stays inside -/
def Keeps (st st1 : St) : Prop := st1.args = st.args ∧ (st.pos ≤ st.args.length → st1.pos ≤ st1.args.length)

theorem Keeps.rfl {st : St} : Keeps st st := ⟨Eq.refl _, id⟩
theorem Keeps.trans {a b c : St} (h1 : Keeps a b) (h2 : Keeps b c) : Keeps a c :=
  ⟨h2.1.trans h1.1, fun h => h2.2 (h1.2 h)⟩
theorem Keeps.emit {a b : St} (t : Txt) (h : Keeps a b) : Keeps a (b.emit t) := h
theorem Keeps.out {a b : St} (o : Txt) (h : Keeps a b) : Keeps a { b with out := o } := h

/-- postcondition of a computation that may fail -/
@[irreducible] def Post {α : Type} (x : Except Err α) (Q : α → Prop) : Prop := ∀ r, x = .ok r → Q r

theorem Post.intro {α : Type} {x : Except Err α} {Q : α → Prop} (h : ∀ r, x = .ok r → Q r) : Post x Q := by unfold Post; exact h
theorem Post.elim {α : Type} {x : Except Err α} {Q : α → Prop} (h : Post x Q) : ∀ r, x = .ok r → Q r := by unfold Post at h; exact h

theorem Post.error {α : Type} {e : Err} {Q : α → Prop} : Post (.error e) Q := Post.intro (fun _ h => by cases h)
theorem Post.ok {α : Type} {v : α} {Q : α → Prop} (h : Q v) : Post (.ok v) Q := Post.intro (fun _ hr => by cases hr; exact h)
theorem Post.pure {α : Type} {v : α} {Q : α → Prop} (h : Q v) : Post (pure v : Except Err α) Q := Post.ok h
theorem Post.bind {α β : Type} {x : Except Err α} {g : α → Except Err β} {Q1 : α → Prop} {Q2 : β → Prop}
    (h1 : Post x Q1) (h2 : ∀ a, Q1 a → Post (g a) Q2) : Post (x >>= g) Q2 := by
  apply Post.intro
  intro r h
  cases hx : x with
  | error e => rw [hx] at h; cases h
  | ok a => rw [hx] at h; exact (h2 a (h1.elim a hx)).elim r h
theorem Post.weaken {α : Type} {x : Except Err α} {Q1 Q2 : α → Prop} (h : Post x Q1) (hq : ∀ a, Q1 a → Q2 a) : Post x Q2 :=
  Post.intro (fun r hr => hq r (h.elim r hr))
theorem Post.trivial {α : Type} {x : Except Err α} : Post x (fun _ => True) := Post.intro (fun _ _ => True.intro)
theorem Post.bind_any {α β : Type} {x : Except Err α} {g : α → Except Err β} {Q2 : β → Prop}
    (h2 : ∀ a, Post (g a) Q2) : Post (x >>= g) Q2 := Post.bind Post.trivial (fun a _ => h2 a)

theorem next_keeps (st : St) : Post st.next (fun r => Keeps st r.2) := by
  apply Post.intro
  intro r h
  unfold St.next at h
  cases hx : st.args[st.pos]? with
  | none => simp [hx] at h
  | some a =>
    simp only [hx] at h
    injection h with h
    subst h
    have hlt : st.pos < st.args.length := by
      rcases Nat.lt_or_ge st.pos st.args.length with h | h
      · exact h
      · have : st.args[st.pos]? = none := by simp [h]
        rw [this] at hx; cases hx
    exact ⟨rfl, fun _ => hlt⟩

/-- the facts about the states seen so far, as plain equalities / inequalities, then arithmetic -/
macro "keeps_leaf" : tactic => `(tactic| first | assumption | (simp_all; done) | (intros; simp_all; omega) | (intros; omega))
macro "keeps_solve" : tactic => `(tactic| (simp only [Keeps, St.emit, List.length_drop] at *; first | assumption | (refine ⟨?_, ?_⟩ <;> keeps_leaf)))

theorem resolveParams_keeps (ps : List Param) : ∀ st, Post (resolveParams ps st) (fun r => Keeps st r.2) := by
  induction ps with
  | nil => intro st; simp only [resolveParams]; exact Post.ok Keeps.rfl
  | cons p ps ih =>
    intro st
    cases p with
    | none => simp only [resolveParams]; exact Post.bind (ih st) (fun a ha => Post.pure ha)
    | num n => simp only [resolveParams]; exact Post.bind (ih st) (fun a ha => Post.pure ha)
    | chr c => simp only [resolveParams]; exact Post.bind (ih st) (fun a ha => Post.pure ha)
    | hash => simp only [resolveParams]; exact Post.bind (ih st) (fun a ha => Post.pure ha)
    | v =>
      simp only [resolveParams]
      refine Post.bind (next_keeps st) ?_
      intro a ha
      split <;> refine Post.bind_any ?_ <;> intro pv <;>
        exact Post.bind (ih a.2) (fun b hb => Post.pure (Keeps.trans ha hb))

macro "post_step" : tactic => `(tactic| first
  | exact Post.error
  | (refine Post.bind (next_keeps _) ?_; intro _ _)
  | (refine Post.bind_any ?_; intro _)
  | split
  | (apply Post.pure; keeps_solve)
  | (apply Post.ok; keeps_solve))

theorem runIntDir_keeps (T : EnglishTables) (base : Nat) (vs : List PVal) (off : Nat) (colon atm : Bool) (st : St) :
    Post (runIntDir T base vs off colon atm st) (fun r => Keeps st r) := by
  unfold runIntDir
  repeat post_step

theorem runSimple_keeps (T : EnglishTables) (k : Kind) (vs : List PVal) (colon atm : Bool) (st : St) :
    Post (runSimple T k vs colon atm st) (fun r => Keeps st r) := by
  cases k
  case p =>
    simp only [runSimple]
    split <;>
    · refine Post.bind (Q1 := fun st0 => Keeps st st0) ?_ ?_
      · repeat post_step
      · intro st0 h0
        refine Post.bind (next_keeps st0) ?_
        intro a ha
        exact Post.pure (Keeps.trans h0 ha)
  all_goals (simp only [runSimple, repeatDir] <;> (try exact runIntDir_keeps _ _ _ _ _ _ _) <;> repeat post_step)

/-- the evaluators at fuel f keep the argument list and a cursor that is inside -/
structure KeepsAt (T : EnglishTables) (f : Nat) : Prop where
  items : ∀ is st, Post (runItems T f is st) (fun r => Keeps st r.1)
  item : ∀ it st, Post (runItem T f it st) (fun r => Keeps st r.1)
  loop : ∀ body hasMax max once st, Post (iterLoop T f body hasMax max once st) (fun r => Keeps st r)

macro "post_step_ih" ih:ident : tactic => `(tactic| first
  | exact Post.error
  | (refine Post.bind (next_keeps _) ?_; intro _ _)
  | (refine Post.bind (resolveParams_keeps _ _) ?_; intro _ _)
  | (refine Post.bind (runSimple_keeps _ _ _ _ _ _) ?_; intro _ _)
  | (refine Post.bind (KeepsAt.items $ih _ _) ?_; intro _ _)
  | (refine Post.bind (KeepsAt.item $ih _ _) ?_; intro _ _)
  | (refine Post.bind (KeepsAt.loop $ih _ _ _ _ _) ?_; intro _ _)
  | (exact Post.weaken (KeepsAt.items $ih _ _) (fun _ _ => by keeps_solve))
  | (exact Post.weaken (KeepsAt.loop $ih _ _ _ _ _) (fun _ _ => by keeps_solve))
  | (refine Post.bind_any ?_; intro _)
  | split
  | (apply Post.pure; keeps_solve)
  | (apply Post.ok; keeps_solve))

theorem keepsAt_zero (T : EnglishTables) : KeepsAt T 0 := by
  constructor
  · intro is st; rw [runItems]; exact Post.error
  · intro it st; rw [runItem]; exact Post.error
  · intro body hasMax max once st; rw [iterLoop]; exact Post.error

theorem keepsAt_succ (T : EnglishTables) (f : Nat) (ih : KeepsAt T f) : KeepsAt T (f + 1) := by
  constructor
  · intro is st
    cases is with
    | nil => simp only [runItems]; exact Post.ok Keeps.rfl
    | cons it rest => simp only [runItems]; repeat post_step_ih ih
  · intro it st
    cases it with
    | nop => simp only [runItem]; exact Post.ok Keeps.rfl
    | lit c => simp only [runItem]; exact Post.ok Keeps.rfl
    | simple k ps colon atm => simp only [runItem]; repeat post_step_ih ih
    | recur atm => simp only [runItem]; repeat post_step_ih ih
    | caseConv colon atm body => simp only [runItem]; repeat post_step_ih ih
    | cond ps colon atm clauses hasD dflt => simp only [runItem]; repeat post_step_ih ih
    | iter ps colon atm body once => simp only [runItem]; repeat post_step_ih ih
  · intro body hasMax max once st
    rw [iterLoop]
    repeat post_step_ih ih

theorem keepsAt (T : EnglishTables) : ∀ f, KeepsAt T f
  | 0 => keepsAt_zero T
  | f + 1 => keepsAt_succ T f (keepsAt T f)

end SlipVerif.Format
