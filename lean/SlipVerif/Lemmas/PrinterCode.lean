import SlipVerif.Lemmas.PrinterStruct
import SlipVerif.Gen.PrinterCode
/- C03: the printer's code as translated from the Go source (`Gen/PrinterCode.lean`, regenerated on
   every run) refines the hand-written model. This file gives the translated pieces their meaning
   (`numPiece`, `bytePiece`, `chrPiece`, … — what `append`, `strconv.AppendInt`, `(*big.Int).Append`,
   `utf8.EncodeRune`, `ojg.AppendJSONString` write) and proves, for all inputs, that a translated
   function interpreted this way writes exactly the text of the model function (`printInt`,
   `printRatio`, `barEsc`, `printChr`, `printStr`, `printSym`, `printVec`, `printArr`, `printTail`,
   `caseName`). The statements are instantiated for the regenerated definitions in
   `Theorems/GenC03.lean`. Core only. -/
namespace SlipVerif.Printer
open SlipVerif.Gen SlipVerif.Gen.PrinterCode

/-! ## numbers -/

/-- what a piece of a number's `Readably` appends: `n` the integer (`num`/`den` the parts of a
    ratio), `pbase` = `p.Base`, `big` = what `(*Bignum)(Num).Readably` appends -/
def numPiece (pbase : Nat) (n num : Int) (den : Nat) (big : List Char) : P → List Char
  | .lit cs => ofCodes cs
  | .dig .obj b => intText b n
  | .dig .pbase b => natText b pbase
  | .dig .num b => intText b num
  | .dig .den b => natText b den
  | .bignumOfNum => big
  | _ => []

def renderNum (pbase : Nat) (n num : Int) (den : Nat) (big : List Char) (ps : List P) : List Char :=
  ps.flatMap (numPiece pbase n num den big)

/-- the shape both integer `Readably` methods must have for the model's `printInt` -/
def IntCodeOK (code : Bool → Nat → List P) : Prop :=
  ∀ (cfg : PCfg) (n : Int), renderNum cfg.base n 0 1 [] (code cfg.radix cfg.base) = printInt cfg n

def RatioCodeOK (code : Bool → Bool → Nat → List P) (bigCode : Bool → Nat → List P) : Prop :=
  ∀ (cfg : PCfg) (num : Int) (den : Nat),
    renderNum cfg.base 0 num den (renderNum cfg.base num 0 1 [] (bigCode cfg.radix cfg.base))
      (code (den == 1) cfg.radix cfg.base) = printRatio cfg num den

theorem ofCodes_append (a b : List Nat) : ofCodes (a ++ b) = ofCodes a ++ ofCodes b := by
  simp [ofCodes]

/-! ## symbols -/

/-- one byte of a name through `appendBarred` -/
def bytePiece (c : Nat) : P → List Nat
  | .lit cs => cs
  | .byte => [c]
  | .hexHi => [tab PrinterCode.hexChars (c / 16)]
  | .hexLo => [tab PrinterCode.hexChars (c % 16)]
  | _ => []

/-- `appendBarred` on every byte value agrees with the model's `barEsc` (ASCII: the escape of the
    character; bytes of a multi-byte character: unchanged) -/
def barredByteOK (code : Nat → List P) : Bool :=
  (List.range 256).all (fun c =>
    (code c).flatMap (bytePiece c) ==
      (if c < 128 then (barEsc (Char.ofNat c)).map Char.toNat else [c]))

/-- the model's condition computed the way the code does it: over the UTF-8 bytes with their index -/
def pipeAtModel (c : Nat) : Nat := tab PrinterTables.needPipeMap c

theorem anyIdx_pos (pipe : Nat → Bool) (l : List Nat) : ∀ k, 0 < k →
    anyIdx (fun i c => decide (pipe c = true ∧ (c ≠ 38 ∨ 0 < i))) l k = l.any pipe := by
  induction l with
  | nil => intro k _; rfl
  | cons c cs ih =>
    intro k hk
    simp only [anyIdx, List.any_cons]
    rw [ih (k + 1) (by omega)]
    have : (c ≠ 38 ∨ 0 < k) := Or.inr hk
    simp [this]

theorem any_flatMap_utf8 (pipe : Nat → Bool) (r : List Char) :
    (r.flatMap utf8Bytes).any pipe = r.any (fun c => (utf8Bytes c).any pipe) := by
  induction r with
  | nil => rfl
  | cons c cs ih => simp [List.flatMap_cons, List.any_append, ih]

theorem utf8_head_ne_amp (c : Char) (h : c ≠ '&') : ∀ b bs, utf8Bytes c = b :: bs → b ≠ 38 := by
  intro b bs hb
  unfold utf8Bytes at hb
  simp only at hb
  split at hb
  · rename_i hlt
    simp at hb
    intro h38
    apply h
    have : c.toNat = 38 := by omega
    exact Char.toNat_inj.mp (by rw [this]; rfl) |> fun e => e
  · split at hb
    · simp at hb; omega
    · split at hb
      · simp at hb; omega
      · simp at hb; omega

theorem utf8_amp : utf8Bytes '&' = [38] := by decide

/-- the byte loop of `Symbol.Readably` decides what the model's character-wise test decides -/
theorem anyIdx_name (name : List Char) :
    anyIdx (fun i c => decide ((pipeAtModel c == 120) = true ∧ (c ≠ 38 ∨ 0 < i))) (name.flatMap utf8Bytes) 0 =
      (match name with
       | [] => false
       | c :: r => (c != '&' && needPipeChar c) || r.any needPipeChar) := by
  cases name with
  | nil => rfl
  | cons ch r =>
    obtain ⟨b0, bs, hb⟩ := utf8Bytes_ne_nil ch
    simp only [List.flatMap_cons, hb, List.cons_append, anyIdx]
    rw [anyIdx_pos (fun c => pipeAtModel c == 120) _ 1 (by omega), List.any_append, any_flatMap_utf8]
    have hr : (r.any fun c => (utf8Bytes c).any fun c => pipeAtModel c == 120) = r.any needPipeChar := rfl
    rw [hr]
    have hn : needPipeChar ch = ((pipeAtModel b0 == 120) || bs.any (fun c => pipeAtModel c == 120)) := by
      unfold needPipeChar
      rw [hb]
      rfl
    rw [hn]
    by_cases hamp : ch = '&'
    · subst hamp
      rw [utf8_amp] at hb
      simp at hb
      obtain ⟨h1, h2⟩ := hb
      subst h1; subst h2
      simp
    · have h38 := utf8_head_ne_amp ch hamp b0 bs hb
      have hne : (ch != '&') = true := by simpa using hamp
      simp only [hne, Bool.true_and, ne_eq, h38, not_false_eq_true, true_or, and_true]
      by_cases hp : pipeAtModel b0 = 120 <;> simp [hp, Bool.or_assoc]

/-- the three outcomes of `Symbol.Readably` as text -/
def symPiece (cfg : PCfg) (name : List Char) : P → List Char
  | .lit cs => ofCodes cs
  | .barredName => '|' :: (caseName cfg.case name).flatMap barEsc ++ ['|']
  | .bareName => caseName cfg.case name
  | _ => []

def SymbolCodeOK (code : (Nat → Nat) → (Nat → Bool) → Nat → List Nat → List P) : Prop :=
  ∀ (cfg : PCfg) (name : List Char),
    (code pipeAtModel (fun b => numberTok b name) cfg.base (name.flatMap utf8Bytes)).flatMap (symPiece cfg name) =
      printSym cfg name

theorem flatMap_utf8_nil (name : List Char) : name.flatMap utf8Bytes = [] ↔ name = [] := by
  cases name with
  | nil => simp
  | cons c r =>
    obtain ⟨b, bs, hb⟩ := utf8Bytes_ne_nil c
    simp [List.flatMap_cons, hb]

/-! ## strings, characters -/

def strPiece (s : List Char) : P → List Char
  | .lit cs => ofCodes cs
  | .json => '"' :: s.flatMap strEsc ++ ['"']
  | .raw => s
  | _ => []

def StringCodeOK (code : Bool → List P) : Prop :=
  ∀ (cfg : PCfg) (s : List Char), (code cfg.readably).flatMap (strPiece s) = printStr cfg s

def chrPiece (c : Char) : P → List Char
  | .lit cs => ofCodes cs
  | .special => (specialText c).getD []
  | .hexHi => [Char.ofNat (tab PrinterCode.hexChars (c.toNat / 16))]
  | .hexLo => [Char.ofNat (tab PrinterCode.hexChars (c.toNat % 16))]
  | .rune => [c]
  | _ => []

def CharCodeOK (code : Bool → Nat → List P) : Prop :=
  ∀ c : Char, (code (specialText c).isSome c.toNat).flatMap (chrPiece c) = printChr c

/-- the low half of `CharCodeOK` as a finite check (codes below 32 use `hexChars`) -/
def charLowOK (code : Bool → Nat → List P) : Bool :=
  (List.range 32).all (fun n =>
    (code (specialText (Char.ofNat n)).isSome n).flatMap (chrPiece (Char.ofNat n)) == printChr (Char.ofNat n))

/-! ## containers: the cases of `Printer.Append` -/

def joinWith (sep : List Char) : List (List Char) → List Char
  | [] => []
  | [x] => x
  | x :: rest => x ++ sep ++ joinWith sep rest

theorem joinWith_space (l : List (List Char)) : joinWith [' '] l = joinSp l := by
  induction l with
  | nil => rfl
  | cons x rest ih =>
    cases rest with
    | nil => rfl
    | cons y ys => simp only [joinWith, joinSp, ih, List.append_assoc, List.cons_append, List.nil_append]

/-- a container piece: `again` = the text of what the code continues with (`obj = …; goto Top`),
    `len` / `dims` = the vector's length and the array's dimensions, `elems` = the printed elements -/
def contPiece (cfg : PCfg) (rank : Nat) (len : Nat) (dims : List Nat) (elems : List (List Char)) (again : List Char) : P → List Char
  | .lit cs => ofCodes cs
  | .cased cs => caseName cfg.case (ofCodes cs)
  | .dig .rank b => natText b rank
  | .dig .len _ => printInt cfg (len : Int)
  | .joinDims sep => joinWith (ofCodes sep) (dims.map (fun (d : Nat) => printInt cfg (d : Int)))
  | .joinElems sep _ => joinWith (ofCodes sep) elems
  | .again => again
  | _ => []

def renderCont (cfg : PCfg) (rank len : Nat) (dims : List Nat) (elems : List (List Char)) (again : List Char) (ps : List P) : List Char :=
  ps.flatMap (contPiece cfg rank len dims elems again)

def isNilOrCons : Obj → Bool
  | .nil => true
  | .cons _ _ => true
  | _ => false

/-- `case *Array`: for rank ≥ 2 the code writes what the model's `printArr` writes, when `again`
    is the text of the contents list -/
def ArrayCodeOK (code : Bool → Nat → List P) : Prop :=
  ∀ (cfg : PCfg) (rank : Nat) (contents : Obj), 2 ≤ rank → isNilOrCons contents = true →
    renderCont cfg rank 0 (dimsOf rank contents) [] (printFlat cfg contents) (code cfg.array rank) = printArr cfg rank contents

/-- `case *Vector` -/
def VectorCodeOK (code : Bool → Bool → List P) : Prop :=
  ∀ (cfg : PCfg) (elems : Obj), isNilOrCons elems = true →
    renderCont cfg 1 (listLen elems) [] [] (printFlat cfg elems) (code cfg.array (elems != .nil)) = printVec cfg elems

def isAtomTail : Obj → Bool
  | .nil => false
  | .cons _ _ => false
  | _ => true

/-- `case Tail` inside the flat loop of `case List`: the model's ` . atom)` is the loop's separator,
    the pieces of `case Tail` continued with the atom, and the closing parenthesis -/
def TailCodeOK (tailCode : List P) (listCode : Bool → Bool → Bool → List P) : Prop :=
  listCode false false false = [.lit [40], .joinElems [32] [46, 46, 46], .lit [41]] ∧
  ∀ (cfg : PCfg) (d : Obj), isAtomTail d = true →
    printTail cfg d = ' ' :: (renderCont cfg 0 0 [] [] (printFlat cfg d) tailCode) ++ [')']

theorem printTail_proper (cfg : PCfg) : ∀ d : Obj, isList d = true →
    printTail cfg d = (elemsOf d).flatMap (fun e => ' ' :: printFlat cfg e) ++ [')'] := by
  intro d
  induction d with
  | nil => intro _; simp [printTail, elemsOf]
  | cons a d _ ihd =>
    intro h
    simp only [isList] at h
    simp [printTail, elemsOf, ihd h]
  | _ => intro h; simp [isList] at h

theorem joinWith_cons_flatMap (x : List Char) (rest : List (List Char)) :
    joinWith [' '] (x :: rest) = x ++ rest.flatMap (fun e => ' ' :: e) := by
  induction rest generalizing x with
  | nil => simp [joinWith]
  | cons y ys ih =>
    simp only [joinWith, ih y, List.flatMap_cons, List.append_assoc, List.cons_append, List.nil_append]

/-- `case List`, flat: a proper non-empty list is `(`, the elements separated by one space, `)` -/
def ListCodeOK (listCode : Bool → Bool → Bool → List P) (nilCode : List P) : Prop :=
  (∀ (cfg : PCfg) (a d : Obj), isList d = true →
    renderCont cfg 0 0 [] ((a :: elemsOf d).map (printFlat cfg)) [] (listCode false false false) = printFlat cfg (.cons a d)) ∧
  (∀ (cfg : PCfg) (p : Bool), renderCont cfg 0 0 [] [] [] (listCode true false p) = printFlat cfg .nil) ∧
  (∀ (cfg : PCfg), renderCont cfg 0 0 [] [] [] nilCode = printFlat cfg .nil)

/-! ## caseName -/

def caseCode : Case → Nat
  | .down => 0 | .up => 1 | .cap => 2 | .none => 3

def applyCaseOp (name : List Char) : Nat → List Char
  | 1 => name.map upperC
  | 2 => name.map lowerC
  | 3 => (match name with
          | [] => []
          | c :: r => upperC c :: r)
  | _ => name

def applyCaseOps (ops : List (Nat × List Nat)) (cs : Case) (name : List Char) : List Char :=
  match ops.find? (fun p => p.1 == caseCode cs) with
  | some p => p.2.foldl applyCaseOp name
  | none => name

def CaseCodeOK (ops : List (Nat × List Nat)) : Prop :=
  ∀ (cs : Case) (name : List Char), applyCaseOps ops cs name = caseName cs name

/-! ## the reader's number regexes -/

def codesOf (s : String) : List Nat := s.toList.map Char.toNat

/-- the characters of a bracket class body such as `0-9a-f` -/
def classHas : List Nat → Nat → Bool
  | a :: 45 :: b :: rest, c => (a ≤ c && c ≤ b) || classHas rest c
  | a :: rest, c => a == c || classHas rest c
  | [], _ => false

def stripPrefix (p : List Nat) (l : List Nat) : Option (List Nat) :=
  if p.isPrefixOf l then some (l.drop p.length) else none

def stripSuffix (s : List Nat) (l : List Nat) : Option (List Nat) :=
  (stripPrefix s.reverse l.reverse).map List.reverse

/-- `^[-+]?[CLASS]+\.?$` with CLASS matching exactly the digits of base `b` (lower case) -/
def intRxOK (b : Nat) (rx : List Nat) : Bool :=
  match (stripPrefix (codesOf "^[-+]?[") rx).bind (stripSuffix (codesOf "]+\\.?$")) with
  | some cls => (List.range 256).all (fun c => classHas cls c == isDigitB b (Char.ofNat c))
  | none => false

/-- `^[-+]?[CLASS]+/[-+]?[CLASS]+$` -/
def ratioRxOK (b : Nat) (rx : List Nat) : Bool :=
  match (stripPrefix (codesOf "^[-+]?[") rx).bind (stripSuffix (codesOf "]+$")) with
  | some mid =>
    let cls := mid.takeWhile (fun c => c != 93)
    mid == cls ++ codesOf "]+/[-+]?[" ++ cls &&
      (List.range 256).all (fun c => classHas cls c == isDigitB b (Char.ofNat c))
  | none => false

def rxTablesOK (ints ratios : List (List Nat)) : Bool :=
  ints.length == 37 && ratios.length == 37 &&
  (List.range 37).all (fun b => b < 2 || (intRxOK b (ints.getD b []) && ratioRxOK b (ratios.getD b [])))

/-- `^[-+]?[0-9]+\.?[0-9]*<marker>[-+]?[0-9]+?$` -/
def expRx (marker : Char) : List Nat :=
  codesOf "^[-+]?[0-9]+\\.?[0-9]*" ++ [marker.toNat] ++ codesOf "[-+]?[0-9]+?$"

def flatten (l : List (List Nat)) : List Nat := l.flatMap id

/-- `resolveToken` tries the integer pattern before the decimal one (`12.` is an integer), knows
    every number pattern, and `numberToken` (which decides the bars of a symbol) tries every number
    pattern the reader knows -/
def resolveOrderOK (order : List (List Nat)) (numberToken : List Nat) : Bool :=
  let flat := flatten order
  [1, 2, 3, 4, 5, 6, 7, 8].all (fun c => flat.contains c) &&
  flat.idxOf 1 < flat.idxOf 2 &&
  flat.all (fun c => c == 0 || numberToken.contains c)

/-- every float format is printed with an exponent marker the reader maps back to the same format
    (same type, same strconv bit size) -/
def floatMarkersOK (single double : Nat × Nat × Nat × Nat × Nat) (long : Nat × Nat × Nat) (cases : List (Nat × Nat × Nat × Nat)) : Bool :=
  let lower (c : Nat) : Nat := if 65 ≤ c ∧ c ≤ 90 then c + 32 else c
  let has (marker bits typ : Nat) : Bool := cases.any (fun p => p.2.1 == lower marker && p.2.2.1 == bits && p.2.2.2 == typ)
  single.1 == 101 && single.2.2.2.1 == 101 && has single.2.2.2.2 single.2.1 0 && single.2.1 == 32 &&
  double.1 == 101 && double.2.2.2.1 == 101 && has double.2.2.2.2 double.2.1 1 && double.2.1 == 64 &&
  long.1 == 101 && long.2.1 == 101 && has long.2.2 0 2 &&
  -- the markers are not digits or signs and differ from the default marker `e`
  [single.2.2.2.2, double.2.2.2.2, long.2.2].all (fun m => lower m != 101 && 97 ≤ lower m && lower m ≤ 122)

end SlipVerif.Printer
