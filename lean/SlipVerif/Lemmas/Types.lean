import SlipVerif.Model.Types
/- helper lemmas for Theorems/C16 (type membership) -/
namespace SlipVerif.Types

theorem find_head (tbl : HierTable) (ty : String) (e : String × List String)
    (h : tbl.find? (fun e => e.2.head? == some ty) = some e) : e.2.head? = some ty := by
  have := List.find?_some h
  simpa using this

theorem mem_classNames_of_registered (cls : ClassTable) (c : String) (h : registered cls c = true) :
    c ∈ classNames cls := by
  unfold registered at h
  unfold classNames
  induction cls with
  | nil => simp [List.lookup] at h
  | cons e l ih =>
    obtain ⟨k, v⟩ := e
    by_cases hk : c = k
    · simp [hk]
    · have : (c == k) = false := by simpa using hk
      simp only [List.lookup, this] at h
      simp only [List.map_cons, List.mem_cons]
      right; exact ih h

theorem registered_of_subtypep (cls : ClassTable) (a b : String) (h : subtypep cls a b = true) :
    registered cls a = true ∧ registered cls b = true := by
  unfold subtypep at h
  simp only [Bool.and_eq_true] at h
  exact ⟨h.1.1, h.1.2⟩

end SlipVerif.Types
