import SlipVerif.Model.Types
/- helper lemmas for Theorems/C16 (type membership) -/
namespace SlipVerif.Types

theorem find_head (tbl : HierTable) (ty : String) (e : String × List String)
    (h : tbl.find? (fun e => e.2.head? == some ty) = some e) : e.2.head? = some ty := by
  have := List.find?_some h
  simpa using this

end SlipVerif.Types
