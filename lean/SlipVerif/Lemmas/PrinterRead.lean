import SlipVerif.Lemmas.PrinterNum
import SlipVerif.Lemmas.PrinterText
import SlipVerif.Lemmas.PrinterTables
/- C03 helper lemmas: the reader on the printed text of each kind of leaf, followed by any rest
   that starts with a terminator (core only) -/
namespace SlipVerif.Printer
open SlipVerif.Gen

theorem skipWs_cons (c : Char) (r : List Char) (h : isWs c = false) : skipWs (c :: r) = c :: r := by
  simp [skipWs, h]

/-- a run of characters satisfying `p`, followed by a rest that does not start with one -/
theorem span_run {p : Char → Bool} (tok rest : List Char) (h1 : ∀ a ∈ tok, p a = true)
    (h2 : ∀ c r, rest = c :: r → p c = false) :
    (tok ++ rest).takeWhile p = tok ∧ (tok ++ rest).dropWhile p = rest := by
  rw [List.takeWhile_append_of_pos h1, List.dropWhile_append_of_pos h1]
  cases rest with
  | nil => simp
  | cons c r =>
    have := h2 c r rfl
    simp [List.takeWhile_cons, this]

/-! dispatch of `read1` on the first character -/

theorem read1_quote (rbase fuel : Nat) (r : List Char) :
    read1 rbase (fuel + 1) ('"' :: r) =
      mapOk (fun p => (Obj.str p.1, p.2)) (readDelimited '"' (r.length + 1) r []) := by
  rw [read1, skipWs_cons _ _ (by decide)]
  simp

theorem read1_bar (rbase fuel : Nat) (r : List Char) :
    read1 rbase (fuel + 1) ('|' :: r) =
      mapOk (fun p => (Obj.sym p.1, p.2)) (readDelimited '|' (r.length + 1) r []) := by
  rw [read1, skipWs_cons _ _ (by decide)]
  simp

theorem read1_paren (rbase fuel : Nat) (r : List Char) :
    read1 rbase (fuel + 1) ('(' :: r) =
      mapOk (fun p => (closeList p.1, p.2)) (readElems rbase fuel r []) := by
  rw [read1, skipWs_cons _ _ (by decide)]
  simp

theorem read1_sharp_char (rbase fuel : Nat) (c : Char) (r : List Char) :
    read1 rbase (fuel + 1) ('#' :: '\\' :: c :: r) = readCharTok c r := by
  rw [read1, skipWs_cons _ _ (by decide)]
  simp

theorem read1_sharp_paren (rbase fuel : Nat) (r : List Char) :
    read1 rbase (fuel + 1) ('#' :: '(' :: r) =
      mapOk (fun p => (Obj.vec (mkProper p.1), p.2)) (readElems rbase fuel r []) := by
  rw [read1, skipWs_cons _ _ (by decide)]
  simp

theorem read1_str (cfg : PCfg) (hr : cfg.readably = true) (s rest : List Char) (fuel rbase : Nat) :
    read1 rbase (fuel + 1) (printStr cfg s ++ rest) = .ok (.str s, rest) := by
  unfold printStr
  simp only [hr, if_true, List.cons_append, List.append_assoc, List.nil_append]
  rw [read1_quote]
  have hlen : s.length < (s.flatMap strEsc ++ '"' :: rest).length + 1 := by
    have := flatMap_length_ge strEsc_length s
    simp only [List.length_append, List.length_cons]
    omega
  rw [readDelimited_str s rest _ [] hlen]
  simp [mapOk]

theorem read1_barred (name rest : List Char) (fuel rbase : Nat) :
    read1 rbase (fuel + 1) (('|' :: name.flatMap barEsc ++ ['|']) ++ rest) = .ok (.sym name, rest) := by
  simp only [List.cons_append, List.append_assoc, List.nil_append]
  rw [read1_bar]
  have hlen : name.length < (name.flatMap barEsc ++ '|' :: rest).length + 1 := by
    have := flatMap_length_ge barEsc_length name
    simp only [List.length_append, List.length_cons]
    omega
  rw [readDelimited_bar name rest _ [] hlen]
  simp [mapOk]


/-! terminators -/

theorem isTerm_cases (c : Char) (h : isTerm c = true) :
    c = ' ' ∨ c = '\n' ∨ c = '\t' ∨ c = '\r' ∨ c = '(' ∨ c = ')' := by
  simp [isTerm, isWs] at h
  rcases h with ((((h | h) | h) | h) | h) | h <;> simp [h]

theorem term_not_charTok (hT : TablesOK) (c : Char) (h : isTerm c = true) : charTokChar c = false := by
  have ht := hT.term_token
  simp [termBytes] at ht
  rcases isTerm_cases c h with h | h | h | h | h | h <;> subst h <;>
    simp [charTokChar, utf8Bytes, ht]

theorem term_not_token (hT : TablesOK) (c : Char) (h : isTerm c = true) : tokenChar c = false := by
  have ht := hT.term_token
  simp [termBytes] at ht
  rcases isTerm_cases c h with h | h | h | h | h | h <;> subst h <;>
    simp [tokenChar, utf8Bytes, ht]

theorem term_not_intTok (c : Char) (h : isTerm c = true) : intTokChar c = false := by
  rcases isTerm_cases c h with h | h | h | h | h | h <;> subst h <;> decide

theorem term_not_digit (b : Nat) (c : Char) (h : isTerm c = true) : isDigitB b c = false := by
  rcases isTerm_cases c h with h | h | h | h | h | h <;> subst h <;> simp [isDigitB, digitVal] <;> decide

/-- a rest that is empty or starts with a terminator does not continue a run of `p` -/
theorem rest_stops {p : Char → Bool} (rest : List Char) (hr : termOrEnd rest = true)
    (hp : ∀ c, isTerm c = true → p c = false) : ∀ c r, rest = c :: r → p c = false := by
  intro c r h
  subst h
  exact hp c (by simpa [termOrEnd] using hr)


/-! characters -/

theorem specialText_none (hT : TablesOK) (c : Char) (h : 128 ≤ c.toNat) : specialText c = none := by
  unfold specialText
  have ha := hT.special_ascii
  rw [List.all_eq_true] at ha
  have : PrinterTables.specialCharacters.find? (fun p => p.1 == c.toNat) = none := by
    rw [List.find?_eq_none]
    intro p hp
    have := ha p hp
    simp at this ⊢
    omega
  simp [this]

theorem readCharTok_run (hT : TablesOK) (c0 : Char) (r0 rest : List Char)
    (hr0 : ∀ a ∈ r0, charTokChar a = true) (hrest : termOrEnd rest = true) :
    readCharTok c0 (r0 ++ rest) = mapOk (fun ch => (Obj.chr ch, rest)) (charOfToken (c0 :: r0)) := by
  unfold readCharTok
  obtain ⟨h1, h2⟩ := span_run r0 rest hr0 (rest_stops rest hrest (term_not_charTok hT))
  simp only [h1, h2, hrest, if_true]

/-- char_roundtrip: every character except code 0 is read back from its printed form -/
theorem read1_chr (hT : TablesOK) (c : Char) (hc : c.toNat ≠ 0) (rest : List Char)
    (hrest : termOrEnd rest = true) (fuel rbase : Nat) :
    read1 rbase (fuel + 1) (printChr c ++ rest) = .ok (.chr c, rest) := by
  by_cases hlow : c.toNat < 128
  · have hl := hT.low_chars
    unfold lowCharsOK at hl
    rw [List.all_eq_true] at hl
    have hn := hl c.toNat (List.mem_range.mpr hlow)
    rw [Char.ofNat_toNat] at hn
    simp only [Bool.or_eq_true, beq_iff_eq, hc, false_or] at hn
    split at hn
    · rename_i c0 r0 hp
      rw [hp]
      simp only [List.cons_append]
      rw [read1_sharp_char]
      simp only [Bool.and_eq_true, List.all_eq_true] at hn
      rw [readCharTok_run hT c0 r0 rest hn.1 hrest]
      split at hn
      · rename_i ch hch
        simp only [beq_iff_eq] at hn
        rw [hch, hn.2]
        rfl
      · simp at hn
    · simp at hn
  · have hge : 128 ≤ c.toNat := by omega
    unfold printChr
    rw [specialText_none hT c hge]
    have h32 : ¬ c.toNat < 32 := by omega
    simp only [h32, if_false, List.cons_append, List.nil_append]
    rw [read1_sharp_char]
    have := readCharTok_run hT c [] rest (by simp) hrest
    simp only [List.nil_append] at this
    rw [this]
    rfl


/-! bare tokens -/

theorem readToken_run (hT : TablesOK) (rbase : Nat) (c0 : Char) (r0 rest : List Char)
    (hr0 : ∀ a ∈ r0, tokenChar a = true) (hrest : termOrEnd rest = true) :
    readToken rbase c0 (r0 ++ rest) = mapOk (fun o => (o, rest)) (classifyTok rbase (c0 :: r0)) := by
  unfold readToken
  obtain ⟨h1, h2⟩ := span_run r0 rest hr0 (rest_stops rest hrest (term_not_token hT))
  simp only [h1, h2, hrest, if_true]

/-- `read1` on a text that starts with a token character which is none of the dispatch characters -/
theorem read1_token (hT : TablesOK) (rbase fuel : Nat) (c0 : Char) (r0 rest : List Char)
    (hws : isWs c0 = false) (h1 : c0 ≠ '(') (h2 : c0 ≠ ')') (h3 : c0 ≠ '"') (h4 : c0 ≠ '|') (h5 : c0 ≠ '#')
    (hs : tokenStartChar c0 = true)
    (hr0 : ∀ a ∈ r0, tokenChar a = true) (hrest : termOrEnd rest = true) :
    read1 rbase (fuel + 1) (c0 :: (r0 ++ rest)) = mapOk (fun o => (o, rest)) (classifyTok rbase (c0 :: r0)) := by
  rw [read1, skipWs_cons _ _ hws]
  simp only [h1, h2, h3, h4, h5, hs, if_false, if_true]
  exact readToken_run hT rbase c0 r0 rest hr0 hrest

/-- the characters of a printed integer: `-` or a digit character -/
def IntTextChar (c : Char) : Prop := c = '-' ∨ ∃ d, d < 36 ∧ c = digitChar d

theorem natText_chars (b : Nat) (hb : 2 ≤ b) (hb36 : b ≤ 36) (n : Nat) :
    ∀ c ∈ natText b n, ∃ d, d < 36 ∧ c = digitChar d := by
  intro c hc
  unfold natText at hc
  simp only [List.mem_map, List.mem_reverse] at hc
  obtain ⟨d, hd, rfl⟩ := hc
  have := digitsLE_lt b hb _ _ d hd
  exact ⟨d, by omega, rfl⟩

theorem intText_chars (b : Nat) (hb : 2 ≤ b) (hb36 : b ≤ 36) (n : Int) :
    ∀ c ∈ intText b n, IntTextChar c := by
  intro c hc
  unfold intText at hc
  split at hc
  · simp only [List.mem_cons] at hc
    rcases hc with h | h
    · exact Or.inl h
    · exact Or.inr (natText_chars b hb hb36 _ c h)
  · exact Or.inr (natText_chars b hb hb36 _ c hc)

theorem digitChar_props_fin : ∀ d : Fin 36,
    lowerC (digitChar d.val) = digitChar d.val ∧
    (digitChar d.val).toNat < 128 ∧
    (isLetterByte (digitChar d.val).toNat || isDigitByte (digitChar d.val).toNat) = true ∧
    intTokChar (digitChar d.val) = true ∧ isWs (digitChar d.val) = false ∧
    digitChar d.val ≠ '(' ∧ digitChar d.val ≠ ')' ∧ digitChar d.val ≠ '"' ∧ digitChar d.val ≠ '|' ∧
    digitChar d.val ≠ '#' ∧ digitChar d.val ≠ '.' ∧ digitChar d.val ≠ '/' := by decide

theorem digitChar_props10_fin : ∀ d : Fin 10,
    isDigitByte (digitChar d.val).toNat = true ∧ isDigitB 10 (digitChar d.val) = true ∧
    digitChar d.val ≠ 't' ∧ digitChar d.val ≠ 'T' ∧ digitChar d.val ≠ 'n' ∧
    digitChar d.val ≠ 'b' ∧ digitChar d.val ≠ 'B' ∧ digitChar d.val ≠ 'o' ∧ digitChar d.val ≠ 'O' ∧
    digitChar d.val ≠ 'x' ∧ digitChar d.val ≠ 'X' ∧ digitChar d.val ≠ '\\' := by decide

theorem map_eq_self {f : Char → Char} (l : List Char) (h : ∀ a ∈ l, f a = a) : l.map f = l := by
  induction l with
  | nil => rfl
  | cons a as ih =>
    simp only [List.map_cons]
    rw [h a (by simp), ih (fun x hx => h x (by simp [hx]))]

theorem intText_lower (b : Nat) (hb : 2 ≤ b) (hb36 : b ≤ 36) (n : Int) :
    (intText b n).map lowerC = intText b n := by
  apply map_eq_self
  intro c hc
  rcases intText_chars b hb hb36 n c hc with h | ⟨d, hd, h⟩
  · subst h; decide
  · subst h; exact (digitChar_props_fin ⟨d, hd⟩).1

theorem intText_no_dot (b : Nat) (hb : 2 ≤ b) (hb36 : b ≤ 36) (n : Int) :
    ∀ c ∈ intText b n, c ≠ '.' ∧ c ≠ '/' := by
  intro c hc
  rcases intText_chars b hb hb36 n c hc with h | ⟨d, hd, h⟩
  · subst h; decide
  · subst h
    have := digitChar_props_fin ⟨d, hd⟩
    exact ⟨this.2.2.2.2.2.2.2.2.2.2.1, this.2.2.2.2.2.2.2.2.2.2.2⟩


theorem stripSign_intText (b : Nat) (hb : 2 ≤ b) (hb36 : b ≤ 36) (n : Int) (suffix : List Char) :
    stripSign (intText b n ++ suffix) = natText b n.natAbs ++ suffix := by
  unfold intText
  split
  · simp [stripSign]
  · obtain ⟨d, r, hnt, hd, _⟩ := natText_head b hb hb36 n.natAbs
    have hs := digitChar_not_sign_fin ⟨d, hd⟩
    rw [hnt]
    simp only [List.cons_append]
    unfold stripSign
    split
    · rename_i heq; simp at heq; exact absurd heq.1 hs.2.1
    · rename_i heq; simp at heq; exact absurd heq.1 hs.1
    · rfl

theorem isIntTok_intText (b : Nat) (hb : 2 ≤ b) (hb36 : b ≤ 36) (n : Int) (suffix : List Char)
    (hs : suffix = [] ∨ suffix = ['.']) : isIntTok b (intText b n ++ suffix) = true := by
  unfold isIntTok
  simp only [stripSign_intText b hb hb36]
  have hdig := natText_all_digits b hb hb36 n.natAbs
  have hstop : ∀ c r, suffix = c :: r → isDigitB b c = false := by
    intro c r h
    rcases hs with hs | hs
    · simp [hs] at h
    · rw [hs] at h
      simp at h
      rw [← h.1]
      simp [isDigitB, digitVal]
  obtain ⟨h1, h2⟩ := span_run (natText b n.natAbs) suffix hdig hstop
  rw [h1, h2]
  have hne := natText_ne_nil b n.natAbs
  rcases hs with hs | hs <;> simp [hs, hne]

theorem takeWhile_notdot_intText (b : Nat) (hb : 2 ≤ b) (hb36 : b ≤ 36) (n : Int) (suffix : List Char)
    (hs : suffix = [] ∨ suffix = ['.']) :
    (intText b n ++ suffix).takeWhile (fun c => c != '.') = intText b n := by
  have h1 : ∀ c ∈ intText b n, (fun c => c != '.') c = true := by
    intro c hc
    have := (intText_no_dot b hb hb36 n c hc).1
    simp [this]
  have h2 : ∀ c r, suffix = c :: r → (fun c => c != '.') c = false := by
    intro c r h
    rcases hs with hs | hs
    · simp [hs] at h
    · rw [hs] at h
      simp at h
      simp [← h.1]
  exact (span_run (intText b n) suffix h1 h2).1

theorem intText_head (b : Nat) (hb : 2 ≤ b) (hb36 : b ≤ 36) (n : Int) :
    ∃ c r, intText b n = c :: r ∧ (c = '-' ∨ ∃ d, d < 36 ∧ d < b ∧ c = digitChar d) := by
  unfold intText
  split
  · exact ⟨'-', _, rfl, Or.inl rfl⟩
  · obtain ⟨d, r, hnt, hd, hdb⟩ := natText_head b hb hb36 n.natAbs
    exact ⟨_, r, hnt, Or.inr ⟨d, hd, hdb, rfl⟩⟩

/-- a base-10 integer token (with or without the trailing point) is classified as that integer -/
theorem classify_int10 (n : Int) (suffix : List Char) (hs : suffix = [] ∨ suffix = ['.']) :
    classifyTok 10 (intText 10 n ++ suffix) = .ok (.int n) := by
  have hb : 2 ≤ 10 := by omega
  have hb36 : 10 ≤ 36 := by omega
  have hlow : (intText 10 n ++ suffix).map lowerC = intText 10 n ++ suffix := by
    rw [List.map_append, intText_lower 10 hb hb36]
    rcases hs with hs | hs <;> simp [hs] <;> decide
  obtain ⟨c, r, hhead, hc⟩ := intText_head 10 hb hb36 n
  have hct : c ≠ 't' ∧ c ≠ 'T' ∧ c ≠ 'n' := by
    rcases hc with h | ⟨d, hd, hd10, h⟩
    · subst h; decide
    · subst h
      have := digitChar_props10_fin ⟨d, hd10⟩
      exact ⟨this.2.2.1, this.2.2.2.1, this.2.2.2.2.1⟩
  unfold classifyTok
  simp only [hlow]
  have h1 : ¬ (intText 10 n ++ suffix = ['t'] ∨ intText 10 n ++ suffix = ['T']) := by
    rw [hhead]
    simp [hct.1, hct.2.1]
  have h2 : ¬ (intText 10 n ++ suffix = ['n', 'i', 'l']) := by
    rw [hhead]
    simp [hct.2.2]
  simp only [h1, h2, if_false, isIntTok_intText 10 hb hb36 n suffix hs, if_true,
    takeWhile_notdot_intText 10 hb hb36 n suffix hs, parseSigned_intText 10 hb hb36 n]


theorem tokenChar_ascii (c : Char) (h : c.toNat < 128) :
    tokenChar c = (tab PrinterTables.tokenMode c.toNat == 97) := by
  simp [tokenChar, utf8Bytes_ascii c h]

theorem tokenStartChar_ascii (c : Char) (h : c.toNat < 128) :
    tokenStartChar c = (tab PrinterTables.valueMode c.toNat == 116 || tab PrinterTables.valueMode c.toNat == 64) := by
  simp [tokenStartChar, utf8Bytes_ascii c h]

theorem numChar_token (hT : TablesOK) (c : Char) (h : IntTextChar c ∨ c = '.' ∨ c = '/') :
    tokenChar c = true := by
  have hn := hT.number_token
  have key : ∀ c : Char, c.toNat < 128 →
      (isLetterByte c.toNat || isDigitByte c.toNat || c.toNat == 45 || c.toNat == 46 || c.toNat == 47) = true →
      tokenChar c = true := by
    intro c hlt hcl
    have := allBytes_spec hn c.toNat (by omega)
    rw [tokenChar_ascii c hlt]
    simp only [hcl, Bool.not_true, Bool.false_or] at this
    exact this
  rcases h with (h | ⟨d, hd, h⟩) | h | h
  · subst h; exact key _ (by decide) (by decide)
  · subst h
    have hp := digitChar_props_fin ⟨d, hd⟩
    refine key _ hp.2.1 ?_
    have := hp.2.2.1
    simp only [Bool.or_eq_true] at this ⊢
    rcases this with h | h <;> simp [h]
  · subst h; exact key _ (by decide) (by decide)
  · subst h; exact key _ (by decide) (by decide)

theorem numChar_start (hT : TablesOK) (c : Char) (h : c = '-' ∨ ∃ d, d < 10 ∧ c = digitChar d) :
    tokenStartChar c = true := by
  have hn := hT.number_start
  have key : ∀ c : Char, c.toNat < 128 → (isDigitByte c.toNat || c.toNat == 45) = true →
      tokenStartChar c = true := by
    intro c hlt hcl
    have := allBytes_spec hn c.toNat (by omega)
    rw [tokenStartChar_ascii c hlt]
    simp only [hcl, Bool.not_true, Bool.false_or] at this
    simp [this]
  rcases h with h | ⟨d, hd, h⟩
  · subst h; exact key _ (by decide) (by decide)
  · subst h
    have hp := digitChar_props_fin ⟨d, by omega⟩
    have hp10 := digitChar_props10_fin ⟨d, hd⟩
    exact key _ hp.2.1 (by simp [hp10.1])

/-- the reader on a base-10 integer (optionally with the radix point), followed by a terminator -/
theorem read1_int10 (hT : TablesOK) (n : Int) (suffix rest : List Char) (hs : suffix = [] ∨ suffix = ['.'])
    (hrest : termOrEnd rest = true) (fuel : Nat) :
    read1 10 (fuel + 1) ((intText 10 n ++ suffix) ++ rest) = .ok (.int n, rest) := by
  have hb : 2 ≤ 10 := by omega
  have hb36 : 10 ≤ 36 := by omega
  obtain ⟨c, r, hhead, hc⟩ := intText_head 10 hb hb36 n
  have hall : ∀ a ∈ intText 10 n ++ suffix, tokenChar a = true := by
    intro a ha
    rw [List.mem_append] at ha
    rcases ha with ha | ha
    · exact numChar_token hT a (Or.inl (intText_chars 10 hb hb36 n a ha))
    · rcases hs with hs | hs
      · simp [hs] at ha
      · simp [hs] at ha; exact numChar_token hT a (Or.inr (Or.inl ha))
  have hcl := classify_int10 n suffix hs
  rw [hhead] at hall hcl ⊢
  simp only [List.cons_append] at hall hcl ⊢
  have hstart : tokenStartChar c = true := by
    apply numChar_start hT
    rcases hc with h | ⟨d, _, hd10, h⟩
    · exact Or.inl h
    · exact Or.inr ⟨d, hd10, h⟩
  have hmisc : isWs c = false ∧ c ≠ '(' ∧ c ≠ ')' ∧ c ≠ '"' ∧ c ≠ '|' ∧ c ≠ '#' := by
    rcases hc with h | ⟨d, hd, _, h⟩
    · subst h; decide
    · subst h
      have hp := digitChar_props_fin ⟨d, hd⟩
      exact ⟨hp.2.2.2.2.1, hp.2.2.2.2.2.1, hp.2.2.2.2.2.2.1, hp.2.2.2.2.2.2.2.1, hp.2.2.2.2.2.2.2.2.1, hp.2.2.2.2.2.2.2.2.2.1⟩
  rw [read1_token hT 10 fuel c (r ++ suffix) rest hmisc.1 hmisc.2.1 hmisc.2.2.1 hmisc.2.2.2.1
    hmisc.2.2.2.2.1 hmisc.2.2.2.2.2 hstart (fun a ha => hall a (by simp [ha])) hrest, hcl]
  rfl


/-! `#b` `#o` `#x` `#NNr` numbers -/

theorem read1_sharp_b (rbase fuel : Nat) (r : List Char) :
    read1 rbase (fuel + 1) ('#' :: 'b' :: r) = readRadix 2 r := by
  rw [read1, skipWs_cons _ _ (by decide)]
  simp

theorem read1_sharp_o (rbase fuel : Nat) (r : List Char) :
    read1 rbase (fuel + 1) ('#' :: 'o' :: r) = readRadix 8 r := by
  rw [read1, skipWs_cons _ _ (by decide)]
  simp

theorem read1_sharp_x (rbase fuel : Nat) (r : List Char) :
    read1 rbase (fuel + 1) ('#' :: 'x' :: r) = readRadix 16 r := by
  rw [read1, skipWs_cons _ _ (by decide)]
  simp

/-- the decimal digits after `#`, up to a marker character that is not a digit -/
theorem sharp_digits (b : Nat) (m : Char) (hm : isDigitB 10 m = false) (r3 : List Char) :
    ∃ c2 ds, natText 10 b = c2 :: ds ∧ (∃ d, d < 10 ∧ c2 = digitChar d) ∧
      parseNat 10 (c2 :: decDigits (ds ++ m :: r3)) = some b ∧
      (ds ++ m :: r3).dropWhile (isDigitB 10) = m :: r3 := by
  obtain ⟨d, ds, hnt, _, hd10⟩ := natText_head 10 (by omega) (by omega) b
  refine ⟨digitChar d, ds, hnt, ⟨d, hd10, rfl⟩, ?_, ?_⟩
  · have hall : ∀ a ∈ ds, isDigitB 10 a = true := by
      intro a ha
      exact natText_all_digits 10 (by omega) (by omega) b a (by rw [hnt]; simp [ha])
    have hsp := span_run (p := isDigitB 10) ds (m :: r3) hall (by intro c r h; simp at h; rw [← h.1]; exact hm)
    unfold decDigits
    rw [hsp.1, ← hnt]
    exact parseNat_natText 10 (by omega) (by omega) b
  · have hall : ∀ a ∈ ds, isDigitB 10 a = true := by
      intro a ha
      exact natText_all_digits 10 (by omega) (by omega) b a (by rw [hnt]; simp [ha])
    exact (span_run (p := isDigitB 10) ds (m :: r3) hall (by intro c r h; simp at h; rw [← h.1]; exact hm)).2

theorem read1_sharp_r (rbase fuel b : Nat) (hb : 2 ≤ b) (hb36 : b ≤ 36) (r3 : List Char) :
    read1 rbase (fuel + 1) ('#' :: (natText 10 b ++ 'r' :: r3)) = readRadix b r3 := by
  obtain ⟨c2, ds, hnt, ⟨d, hd10, hc2⟩, hparse, hdrop⟩ := sharp_digits b 'r' (by decide) r3
  have hp := digitChar_props10_fin ⟨d, hd10⟩
  rw [hnt]
  simp only [List.cons_append]
  rw [read1, skipWs_cons _ _ (by decide)]
  subst hc2
  have hq : digitChar d ≠ '(' := (digitChar_props_fin ⟨d, by omega⟩).2.2.2.2.2.1
  simp [hp.2.2.2.2.2.1, hp.2.2.2.2.2.2.1, hp.2.2.2.2.2.2.2.1,
    hp.2.2.2.2.2.2.2.2.1, hp.2.2.2.2.2.2.2.2.2.1, hp.2.2.2.2.2.2.2.2.2.2.1, hp.2.2.2.2.2.2.2.2.2.2.2, hp.2.1, hq,
    hparse, hdrop, hb, hb36]


theorem intText_intTok (b : Nat) (hb : 2 ≤ b) (hb36 : b ≤ 36) (n : Int) :
    ∀ a ∈ intText b n, intTokChar a = true := by
  intro a ha
  rcases intText_chars b hb hb36 n a ha with h | ⟨d, hd, h⟩
  · subst h; decide
  · subst h; exact (digitChar_props_fin ⟨d, hd⟩).2.2.2.1

theorem readRadix_run (b : Nat) (tok rest : List Char) (htok : ∀ a ∈ tok, intTokChar a = true)
    (hrest : termOrEnd rest = true) :
    readRadix b (tok ++ rest) = mapOk (fun o => (o, rest)) (radixNumber b tok) := by
  unfold readRadix
  obtain ⟨h1, h2⟩ := span_run tok rest htok (rest_stops rest hrest term_not_intTok)
  simp only [h1, h2, hrest, if_true]

/-- radix-prefixed round trip, number part: the digits after `#b`, `#o`, `#x`, `#NNr` -/
theorem readRadix_int (b : Nat) (hb : 2 ≤ b) (hb36 : b ≤ 36) (n : Int) (rest : List Char)
    (hrest : termOrEnd rest = true) :
    readRadix b (intText b n ++ rest) = .ok (.int n, rest) := by
  rw [readRadix_run b _ rest (intText_intTok b hb hb36 n) hrest]
  unfold radixNumber
  simp only [intText_lower b hb hb36, parseSigned_intText b hb hb36]
  rfl

theorem parseNatAux_slash (b : Nat) (hb : 2 ≤ b) (hb36 : b ≤ 36) (m : Nat) (y : List Char) (acc : Nat) :
    parseNatAux b (natText b m ++ '/' :: y) acc = none := by
  rw [parseNatAux_append]
  unfold natText
  rw [parseNatAux_digits b hb36 _ (by
    intro d hd
    exact digitsLE_lt b hb _ _ d (by simpa using hd))]
  simp [parseNatAux, digitVal]

theorem parseSigned_slash (b : Nat) (hb : 2 ≤ b) (hb36 : b ≤ 36) (n : Int) (y : List Char) :
    parseSigned b (intText b n ++ '/' :: y) = none := by
  have hne : ∀ m, natText b m ++ '/' :: y ≠ [] := by
    intro m h
    have := natText_ne_nil b m
    cases hnt : natText b m with
    | nil => exact this hnt
    | cons c r => rw [hnt] at h; simp at h
  have hnat : ∀ m, parseNat b (natText b m ++ '/' :: y) = none := by
    intro m
    unfold parseNat
    split
    · rfl
    · exact parseNatAux_slash b hb hb36 m y 0
  unfold intText
  split
  · simp [parseSigned, hnat]
  · obtain ⟨d, r, hnt, hd, _⟩ := natText_head b hb hb36 n.natAbs
    have hs := digitChar_not_sign_fin ⟨d, hd⟩
    have := hnat n.natAbs
    rw [hnt] at this ⊢
    simp only [List.cons_append] at this ⊢
    rw [parseSigned_of_head b _ _ hs.1 hs.2.1, this]
    rfl

theorem parseSigned_natText (b : Nat) (hb : 2 ≤ b) (hb36 : b ≤ 36) (m : Nat) :
    parseSigned b (natText b m) = some (m : Int) := by
  have := parseSigned_intText b hb hb36 (m : Int)
  unfold intText at this
  have hnn : ¬ ((m : Int) < 0) := by omega
  simp only [hnn, if_false, Int.natAbs_natCast] at this
  exact this

/-- the number part of a printed ratio reads back (numerator and denominator coprime) -/
theorem radixNumber_ratio (b : Nat) (hb : 2 ≤ b) (hb36 : b ≤ 36) (num : Int) (den : Nat)
    (hden : 0 < den) (hco : Nat.gcd num.natAbs den = 1) :
    radixNumber b (intText b num ++ '/' :: natText b den) = .ok (.ratio num den) := by
  have hlow : (intText b num ++ '/' :: natText b den).map lowerC = intText b num ++ '/' :: natText b den := by
    apply map_eq_self
    intro c hc
    simp only [List.mem_append, List.mem_cons] at hc
    rcases hc with hc | hc | hc
    · rcases intText_chars b hb hb36 num c hc with h | ⟨d, hd, h⟩
      · subst h; decide
      · subst h; exact (digitChar_props_fin ⟨d, hd⟩).1
    · subst hc; decide
    · obtain ⟨d, hd, h⟩ := natText_chars b hb hb36 den c hc
      subst h; exact (digitChar_props_fin ⟨d, hd⟩).1
  have hsp := span_run (p := fun c => c != '/') (intText b num) ('/' :: natText b den)
    (by intro a ha; have := (intText_no_dot b hb hb36 num a ha).2; simp [this])
    (by intro c r h; simp at h; simp [← h.1])
  unfold radixNumber
  simp only [hlow, parseSigned_slash b hb hb36, hsp.1, hsp.2, parseSigned_intText b hb hb36,
    parseSigned_natText b hb hb36]
  have hne : den ≠ 0 := by omega
  simp [hco, hne]


/-- a base-10 ratio token is classified as that ratio -/
theorem classify_ratio10 (num : Int) (den : Nat) (hden : 0 < den) (hco : Nat.gcd num.natAbs den = 1) :
    classifyTok 10 (intText 10 num ++ '/' :: natText 10 den) = .ok (.ratio num den) := by
  have hb : 2 ≤ 10 := by omega
  have hb36 : 10 ≤ 36 := by omega
  have hlow : (intText 10 num ++ '/' :: natText 10 den).map lowerC = intText 10 num ++ '/' :: natText 10 den := by
    apply map_eq_self
    intro c hc
    simp only [List.mem_append, List.mem_cons] at hc
    rcases hc with hc | hc | hc
    · rcases intText_chars 10 hb hb36 num c hc with h | ⟨d, hd, h⟩
      · subst h; decide
      · subst h; exact (digitChar_props_fin ⟨d, hd⟩).1
    · subst hc; decide
    · obtain ⟨d, hd, h⟩ := natText_chars 10 hb hb36 den c hc
      subst h; exact (digitChar_props_fin ⟨d, hd⟩).1
  obtain ⟨c, r, hhead, hc⟩ := intText_head 10 hb hb36 num
  have hct : c ≠ 't' ∧ c ≠ 'T' ∧ c ≠ 'n' := by
    rcases hc with h | ⟨d, hd, hd10, h⟩
    · subst h; decide
    · subst h
      have := digitChar_props10_fin ⟨d, hd10⟩
      exact ⟨this.2.2.1, this.2.2.2.1, this.2.2.2.2.1⟩
  have h1 : ¬ (intText 10 num ++ '/' :: natText 10 den = ['t'] ∨ intText 10 num ++ '/' :: natText 10 den = ['T']) := by
    rw [hhead]; simp [hct.1, hct.2.1]
  have h2 : ¬ (intText 10 num ++ '/' :: natText 10 den = ['n', 'i', 'l']) := by
    rw [hhead]; simp [hct.2.2]
  -- the digit run of the body stops at the slash
  have hstrip := stripSign_intText 10 hb hb36 num ('/' :: natText 10 den)
  have hrun := span_run (p := isDigitB 10) (natText 10 num.natAbs) ('/' :: natText 10 den)
    (natText_all_digits 10 hb hb36 _) (by intro c r h; simp at h; rw [← h.1]; decide)
  have hne := natText_ne_nil 10 num.natAbs
  have hne2 := natText_ne_nil 10 den
  have hint : isIntTok 10 (intText 10 num ++ '/' :: natText 10 den) = false := by
    unfold isIntTok
    simp [hstrip, hrun.1, hrun.2]
  have hdec : isDecimalTok (intText 10 num ++ '/' :: natText 10 den) = false := by
    unfold isDecimalTok
    simp [hstrip, hrun.2]
  have hexp : isExpTok (intText 10 num ++ '/' :: natText 10 den) = false := by
    unfold isExpTok
    simp [hstrip, hrun.2, isExpMarker]
  have hstrip2 : stripSign (natText 10 den) = natText 10 den := by
    obtain ⟨d, r, hnt, hd, _⟩ := natText_head 10 hb hb36 den
    have hs := digitChar_not_sign_fin ⟨d, hd⟩
    rw [hnt]
    unfold stripSign
    split
    · rename_i heq; simp at heq; exact absurd heq.1 hs.2.1
    · rename_i heq; simp at heq; exact absurd heq.1 hs.1
    · rfl
  have hrat : isRatioTok 10 (intText 10 num ++ '/' :: natText 10 den) = true := by
    unfold isRatioTok
    simp only [hstrip, hrun.1, hrun.2, hstrip2]
    have hall := natText_all_digits 10 hb hb36 den
    simp [hne, hne2]
    exact hall
  have hsp := span_run (p := fun c => c != '/') (intText 10 num) ('/' :: natText 10 den)
    (by intro a ha; have := (intText_no_dot 10 hb hb36 num a ha).2; simp [this])
    (by intro c r h; simp at h; simp [← h.1])
  unfold classifyTok
  simp only [hlow, h1, h2, if_false, hint, hdec, hexp, hrat, Bool.or_self, if_true, hsp.1, hsp.2, List.drop_succ_cons,
    List.drop_zero, parseSigned_intText 10 hb hb36, parseSigned_natText 10 hb hb36]
  have hne0 : den ≠ 0 := by omega
  simp [hco, hne0]


theorem read1_sharp_A (rbase fuel n : Nat) (r4 : List Char) :
    read1 rbase (fuel + 1) ('#' :: (natText 10 n ++ 'A' :: '(' :: r4)) =
      mapOk (fun p => (if n = 1 then Obj.vec (mkProper p.1) else Obj.arr n (mkProper p.1), p.2))
        (readElems rbase fuel r4 []) := by
  obtain ⟨c2, ds, hnt, ⟨d, hd10, hc2⟩, hparse, hdrop⟩ := sharp_digits n 'A' (by decide) ('(' :: r4)
  have hp := digitChar_props10_fin ⟨d, hd10⟩
  rw [hnt]
  simp only [List.cons_append]
  rw [read1, skipWs_cons _ _ (by decide)]
  subst hc2
  have hq : digitChar d ≠ '(' := (digitChar_props_fin ⟨d, by omega⟩).2.2.2.2.2.1
  simp [hp.2.2.2.2.2.1, hp.2.2.2.2.2.2.1, hp.2.2.2.2.2.2.2.1,
    hp.2.2.2.2.2.2.2.2.1, hp.2.2.2.2.2.2.2.2.2.1, hp.2.2.2.2.2.2.2.2.2.2.1, hp.2.2.2.2.2.2.2.2.2.2.2, hp.2.1, hq,
    hparse, hdrop]

/-- the reader on a radix prefix followed by a number token -/
theorem read1_radixPrefix (rbase fuel b : Nat) (hb : 2 ≤ b) (hb36 : b ≤ 36) (r : List Char) :
    read1 rbase (fuel + 1) (radixPrefix b ++ r) = readRadix b r := by
  unfold radixPrefix
  split
  · rename_i h; subst h; exact read1_sharp_b rbase fuel r
  split
  · rename_i h; subst h; exact read1_sharp_o rbase fuel r
  split
  · rename_i h; subst h; exact read1_sharp_x rbase fuel r
  · simp only [List.cons_append, List.append_assoc, List.singleton_append]
    exact read1_sharp_r rbase fuel b hb hb36 r

/-- int_roundtrip with and without radix: a printed integer, followed by a terminator, reads back -/
theorem read1_printInt (hT : TablesOK) (cfg : PCfg) (hb : 2 ≤ cfg.base) (hb36 : cfg.base ≤ 36)
    (hdom : cfg.radix = true ∨ cfg.base = 10) (n : Int) (rest : List Char)
    (hrest : termOrEnd rest = true) (fuel : Nat) :
    read1 10 (fuel + 1) (printInt cfg n ++ rest) = .ok (.int n, rest) := by
  unfold printInt
  by_cases hr : cfg.radix = true
  · simp only [hr, if_true]
    by_cases h10 : cfg.base = 10
    · simp only [h10, if_true]
      exact read1_int10 hT n ['.'] rest (Or.inr rfl) hrest fuel
    · simp only [h10, if_false, List.append_assoc]
      rw [read1_radixPrefix 10 fuel cfg.base hb hb36]
      exact readRadix_int cfg.base hb hb36 n rest hrest
  · have h10 : cfg.base = 10 := by
      rcases hdom with h | h
      · exact absurd h hr
      · exact h
    simp only [hr, h10]
    have := read1_int10 hT n [] rest (Or.inl rfl) hrest fuel
    simpa using this

/-- ratio round trip (numerator and denominator coprime, denominator at least 2) -/
theorem read1_printRatio (hT : TablesOK) (cfg : PCfg) (hb : 2 ≤ cfg.base) (hb36 : cfg.base ≤ 36)
    (hdom : cfg.radix = true ∨ cfg.base = 10) (num : Int) (den : Nat) (hden : 2 ≤ den)
    (hco : Nat.gcd num.natAbs den = 1) (rest : List Char)
    (hrest : termOrEnd rest = true) (fuel : Nat) :
    read1 10 (fuel + 1) (printRatio cfg num den ++ rest) = .ok (.ratio num den, rest) := by
  unfold printRatio
  have hd1 : den ≠ 1 := by omega
  simp only [hd1, if_false]
  by_cases hr : cfg.radix = true
  · simp only [hr, if_true, List.append_assoc]
    rw [read1_radixPrefix 10 fuel cfg.base hb hb36]
    have htok : ∀ a ∈ intText cfg.base num ++ '/' :: natText cfg.base den, intTokChar a = true := by
      intro a ha
      simp only [List.mem_append, List.mem_cons] at ha
      rcases ha with ha | ha | ha
      · exact intText_intTok cfg.base hb hb36 num a ha
      · subst ha; decide
      · obtain ⟨d, hd, h⟩ := natText_chars cfg.base hb hb36 den a ha
        subst h; exact (digitChar_props_fin ⟨d, hd⟩).2.2.2.1
    have := readRadix_run cfg.base _ rest htok hrest
    simp only [List.append_assoc, List.cons_append] at this ⊢
    rw [this, radixNumber_ratio cfg.base hb hb36 num den (by omega) hco]
    rfl
  · have h10 : cfg.base = 10 := by
      rcases hdom with h | h
      · exact absurd h hr
      · exact h
    have hrf : cfg.radix = false := by simpa using hr
    simp only [hrf, h10, Bool.false_eq_true, if_false, List.nil_append, List.append_assoc]
    have hb' : 2 ≤ 10 := by omega
    have hb36' : 10 ≤ 36 := by omega
    obtain ⟨c, r, hhead, hc⟩ := intText_head 10 hb' hb36' num
    have hall : ∀ a ∈ intText 10 num ++ '/' :: natText 10 den, tokenChar a = true := by
      intro a ha
      simp only [List.mem_append, List.mem_cons] at ha
      rcases ha with ha | ha | ha
      · exact numChar_token hT a (Or.inl (intText_chars 10 hb' hb36' num a ha))
      · exact numChar_token hT a (Or.inr (Or.inr ha))
      · exact numChar_token hT a (Or.inl (Or.inr (natText_chars 10 hb' hb36' den a ha)))
    have hcl := classify_ratio10 num den (by omega) hco
    rw [hhead] at hall hcl ⊢
    simp only [List.cons_append] at hall hcl ⊢
    have hstart : tokenStartChar c = true := by
      apply numChar_start hT
      rcases hc with h | ⟨d, _, hd10, h⟩
      · exact Or.inl h
      · exact Or.inr ⟨d, hd10, h⟩
    have hmisc : isWs c = false ∧ c ≠ '(' ∧ c ≠ ')' ∧ c ≠ '"' ∧ c ≠ '|' ∧ c ≠ '#' := by
      rcases hc with h | ⟨d, hd, _, h⟩
      · subst h; decide
      · subst h
        have hp := digitChar_props_fin ⟨d, hd⟩
        exact ⟨hp.2.2.2.2.1, hp.2.2.2.2.2.1, hp.2.2.2.2.2.2.1, hp.2.2.2.2.2.2.2.1, hp.2.2.2.2.2.2.2.2.1, hp.2.2.2.2.2.2.2.2.2.1⟩
    have := read1_token hT 10 fuel c (r ++ '/' :: natText 10 den) rest hmisc.1 hmisc.2.1 hmisc.2.2.1 hmisc.2.2.2.1
      hmisc.2.2.2.2.1 hmisc.2.2.2.2.2 hstart (fun a ha => hall a (by simp [ha])) hrest
    simp only [List.append_assoc, List.cons_append] at this
    rw [this, hcl]
    rfl

end SlipVerif.Printer
