import SlipVerif.Model.Equality
/- helper lemmas for Theorems/C16: the structural predicates are characterised by their keys -/
namespace SlipVerif.Equality

theorem eq_iff (x y : Obj) : eq x y = true ↔ x = y := by simp [eq]

theorem oeq_iff_keyO (x y : Obj) : oeq x y = true ↔ keyO x = keyO y := by
  induction x generalizing y with
  | nil => cases y <;> simp [oeq, keyO, numKey]
  | num i r v => cases y <;> simp [oeq, keyO, numKey]
  | chr i c => cases y <;> simp [oeq, keyO, numKey]
  | str i s => cases y <;> simp [oeq, keyO, numKey]
  | sym a => cases y <;> simp [oeq, keyO, numKey]
  | cons i a b iha ihb => cases y <;> simp [oeq, keyO, numKey, iha, ihb]
  | vec i e ih => cases y <;> simp [oeq, keyO, numKey, ih]
  | other i => cases y <;> simp [oeq, keyO, numKey]

theorem equalS_iff_key (x y : Obj) : equalS x y = true ↔ key x = key y := by
  induction x generalizing y with
  | nil => cases y <;> simp [equalS, key, numKey]
  | num i r v => cases y <;> simp [equalS, key, numKey]
  | chr i c => cases y <;> simp [equalS, key, numKey]
  | str i s => cases y <;> simp [equalS, key, numKey]
  | sym a => cases y <;> simp [equalS, key, numKey]
  | cons i a b iha ihb => cases y <;> simp [equalS, key, numKey, iha, ihb]
  | vec i e ih => cases y <;> simp [equalS, key, numKey, oeq_iff_keyO]
  | other i => cases y <;> simp [equalS, key, numKey]

theorem equalpS_iff_keyP (x y : Obj) : equalpS x y = true ↔ keyP x = keyP y := by
  induction x generalizing y with
  | nil => cases y <;> simp [equalpS, keyP, numKey]
  | num i r v => cases y <;> simp [equalpS, keyP, numKey]
  | chr i c => cases y <;> simp [equalpS, keyP, numKey]
  | str i s => cases y <;> simp [equalpS, keyP, numKey]
  | sym a => cases y <;> simp [equalpS, keyP, numKey]
  | cons i a b iha ihb => cases y <;> simp [equalpS, keyP, numKey, iha, ihb]
  | vec i e ih => cases y <;> simp [equalpS, keyP, numKey, oeq_iff_keyO]
  | other i => cases y <;> simp [equalpS, keyP, numKey]

theorem foldC_idem (c : Nat) : foldC (foldC c) = foldC c := by
  unfold foldC
  by_cases h1 : 65 ≤ c ∧ c ≤ 90
  · rw [if_pos h1]; split <;> (repeat' split) <;> omega
  · rw [if_neg h1]
    by_cases h2 : 192 ≤ c ∧ c ≤ 222 ∧ c ≠ 215
    · rw [if_pos h2]; split <;> (repeat' split) <;> omega
    · rw [if_neg h2]
      by_cases h3 : 913 ≤ c ∧ c ≤ 937 ∧ c ≠ 930
      · rw [if_pos h3]; split <;> (repeat' split) <;> omega
      · rw [if_neg h3]
        by_cases h4 : c = 962
        · rw [if_pos h4]; simp
        · rw [if_neg h4]
          by_cases h5 : 1040 ≤ c ∧ c ≤ 1071
          · rw [if_pos h5]; split <;> (repeat' split) <;> omega
          · rw [if_neg h5, if_neg h1, if_neg h2, if_neg h3, if_neg h4, if_neg h5]

theorem foldS_idem (s : List Nat) : foldS (foldS s) = foldS s := by
  simp [foldS, List.map_map, Function.comp_def, foldC_idem]

/-- the `equalp` key is a function of the `equal` key -/
theorem keyP_key (x : Obj) : keyP (key x) = keyP x := by
  induction x with
  | nil => simp [key, keyP]
  | num i r v => simp [key, keyP, numKey]
  | chr i c => simp [key, keyP]
  | str i s => simp [key, keyP, foldS_idem]
  | sym a => simp [key, keyP]
  | cons i a b iha ihb => simp [key, keyP, iha, ihb]
  | vec i e ih =>
    simp only [key, keyP]
    congr 1
    clear ih
    induction e with
    | nil => simp [keyO]
    | num i r v => simp [keyO, numKey]
    | chr i c => simp [keyO]
    | str i s => simp [keyO]
    | sym a => simp [keyO, foldS_idem]
    | cons i a b iha ihb => simp [keyO, iha, ihb]
    | vec i e ih => simp [keyO, ih]
    | other i => simp [keyO]
  | other i => simp [key, keyP]

/-- the `equal` key is a function of the `eql` key -/
theorem key_keyEql (x : Obj) : key (keyEql x) = key x := by
  cases x <;> simp [key, keyEql, numKey]

end SlipVerif.Equality
