import SlipVerif.Model.Reader
/-
  The list of finished objects only grows: every reader function appends to `code`, none removes or
  changes an object that was already emitted. Consequence: what `ReadOne` returns is the first of the
  objects the whole-text read returns.
-/
namespace SlipVerif.Reader

/-- `c'.code` extends `c.code` -/
def Ext (c c' : Core) : Prop := ∃ suffix, c'.code = c.code ++ suffix

theorem ext_refl (c : Core) : Ext c c := ⟨[], by simp⟩

theorem ext_of_code_eq {c c' : Core} (h : c'.code = c.code) : Ext c c' := ⟨[], by simp [h]⟩

theorem ext_trans {a b c : Core} (h1 : Ext a b) (h2 : Ext b c) : Ext a c := by
  obtain ⟨s1, e1⟩ := h1
  obtain ⟨s2, e2⟩ := h2
  exact ⟨s1 ++ s2, by rw [e2, e1, List.append_assoc]⟩

theorem ext_fail (c : Core) (e : Err) : Ext c (c.fail e) := ext_of_code_eq rfl

theorem ext_push (c : Core) (o : Obj) : Ext c (c.push o) := by
  unfold Core.push
  split
  · exact ⟨[o], rfl⟩
  · exact ext_of_code_eq rfl

theorem ext_pushToken (cfg : Cfg) (c : Core) (tok : List Byte) : Ext c (pushToken cfg c tok) := by
  unfold pushToken
  repeat' split
  all_goals first | exact ext_push _ _ | exact ext_of_code_eq rfl | exact ⟨[_], rfl⟩

theorem ext_pushInteger (c : Core) (tok : List Byte) : Ext c (pushInteger c tok) := by
  unfold pushInteger
  repeat' split
  all_goals try simp only []
  all_goals first | exact ext_push _ _ | exact ext_fail _ _

theorem ext_pushChar (T : Tables) (c : Core) (tok : List Byte) : Ext c (pushChar T c tok) := by
  unfold pushChar
  repeat' split
  all_goals try simp only []
  all_goals repeat' split
  all_goals first | exact ext_push _ _ | exact ext_fail _ _

theorem ext_consume (T : Tables) (cfg : Cfg) (t : TMode) (c : Core) (tok : List Byte) :
    Ext c (consume T cfg t c tok) := by
  cases t
  · exact ext_pushToken cfg c tok
  · exact ext_pushChar T c tok
  · exact ext_pushInteger c tok
  · exact ext_push _ _

theorem ext_place (c : Core) (start : Nat) (obj : Obj) : Ext c (c.place start obj) := by
  unfold Core.place
  split
  · exact ext_of_code_eq rfl
  · exact ⟨[obj], rfl⟩

theorem ext_closeList (c : Core) : Ext c (closeList c) := by
  unfold closeList
  repeat' split
  all_goals try simp only []
  all_goals repeat' split
  all_goals first | exact ext_place _ _ _ | exact ext_fail _ _

theorem ext_plainAct (T : Tables) (c : Core) (a : Action) (b : Byte) : Ext c (plainAct T c a b) := by
  unfold plainAct
  cases a <;> simp only []
  all_goals first
    | exact ext_refl _
    | exact ext_closeList _
    | exact ext_of_code_eq rfl
    | (repeat' split) <;> first | exact ext_of_code_eq rfl | exact ext_fail _ _

theorem ext_setBase (c : Core) (b : Option (Option Nat)) : Ext c (setBase c b) := by
  unfold setBase; split <;> exact ext_of_code_eq rfl

theorem ext_commaAtTop {c c' : Core} (hc : commaAtTop c = some c') : Ext c c' := by
  unfold commaAtTop at hc
  split at hc
  · cases hc; exact ext_of_code_eq rfl
  · cases hc

theorem ext_oneCheck (cfg : Cfg) (pos : Nat) (b : Byte) (c : Core) : Ext c (oneCheck cfg pos b c) := by
  unfold oneCheck
  repeat' split
  all_goals first | exact ext_refl _ | exact ext_of_code_eq rfl

theorem ext_plainStep1 (T : Tables) (s : S1) (p : PMode) (b : Byte) : Ext s.core (plainStep1 T s p b).core := by
  unfold plainStep1
  split
  · exact ext_fail _ _
  · split
    · exact ext_plainAct T _ _ b
    · exact ext_refl _
    · split
      · rename_i c hc; exact ext_commaAtTop hc
      · exact ext_refl _
    · exact ext_setBase _ _
    · exact ext_of_code_eq rfl
    · exact ext_refl _
    · exact ext_fail _ _
    · exact ext_fail _ _

theorem ext_chrStartStep1 (T : Tables) (s : S1) (b : Byte) : Ext s.core (chrStartStep1 T s b).core := by
  unfold chrStartStep1
  repeat' split
  all_goals first | exact ext_refl _ | exact ext_fail _ _

theorem ext_tokStep1 (T : Tables) (cfg : Cfg) (s : S1) (t : TMode) (b : Byte) :
    Ext s.core (tokStep1 T cfg s t b).core := by
  unfold tokStep1
  split
  · exact ext_fail _ _
  · split
    · exact ext_refl _
    · split
      · simp only []
        split
        · exact ext_consume T cfg t _ _
        · exact ext_trans (ext_consume T cfg t s.core s.tok) (ext_plainStep1 T _ .value b)
      · split <;> exact ext_fail _ _

theorem ext_strStep1 (T : Tables) (s : S1) (m : SMode) (b : Byte) : Ext s.core (strStep1 T s m b).core := by
  unfold strStep1
  split
  · exact ext_fail _ _
  · split
    all_goals first | exact ext_refl _ | exact ext_push _ _ | exact ext_fail _ _

theorem ext_escStep1 (T : Tables) (s : S1) (b : Byte) : Ext s.core (escStep1 T s b).core := by
  unfold escStep1
  split
  · exact ext_fail _ _
  · split
    all_goals first | exact ext_refl _ | exact ext_of_code_eq rfl | exact ext_fail _ _

theorem ext_runeStep1 (T : Tables) (s : S1) (b : Byte) : Ext s.core (runeStep1 T s b).core := by
  unfold runeStep1
  split
  · exact ext_fail _ _
  · split
    · simp only []
      split <;> exact ext_of_code_eq rfl
    · split <;> exact ext_fail _ _

theorem ext_body1 (T : Tables) (cfg : Cfg) (s : S1) (b : Byte) : Ext s.core (body1 T cfg s b).core := by
  unfold body1
  split
  · exact ext_plainStep1 T _ _ b
  · exact ext_tokStep1 T cfg _ _ b
  · exact ext_strStep1 T _ _ b
  · exact ext_escStep1 T _ b
  · exact ext_runeStep1 T _ b
  · exact ext_chrStartStep1 T _ b

theorem ext_step1 (T : Tables) (cfg : Cfg) (s : S1) (b : Byte) : Ext s.core (step1 T cfg s b).core := by
  unfold step1
  split
  · exact ext_refl _
  · exact ext_trans (ext_body1 T cfg s b) (ext_oneCheck _ _ _ _)

theorem ext_run1 (T : Tables) (cfg : Cfg) (bs : List Byte) (s : S1) : Ext s.core (run1 T cfg s bs).core := by
  induction bs generalizing s with
  | nil => simpa [run1] using ext_refl s.core
  | cons b rest ih =>
    have := ext_trans (ext_step1 T cfg s b) (ih (step1 T cfg s b))
    simpa [run1] using this

theorem ext_finishCore (T : Tables) (cfg : Cfg) (c : Core) (m : Mode) (tok : List Byte) :
    Ext c (finishCore T cfg c m tok) := by
  unfold finishCore
  have key : ∀ c1 : Core, Ext c c1 → Ext c (match c1.halt with
      | some _ => c1
      | none => match c1.stack with
        | [] => c1
        | _ :: _ => c1.fail (.incomplete c1.starts.length)) := by
    intro c1 h1
    split
    · exact h1
    · split
      · exact h1
      · exact ext_trans h1 (ext_fail _ _)
  apply key
  cases m with
  | tok t => exact ext_consume T cfg t _ _
  | str m => cases m <;> exact ext_fail _ _
  | esc => exact ext_fail _ _
  | rune => exact ext_fail _ _
  | chrStart => exact ext_fail _ _
  | plain p => cases p <;> first | exact ext_refl _ | exact ext_fail _ _


/-! ### one-form mode against whole-text mode -/

theorem resolveToken_cfg (cfg cfg' : Cfg) (h1 : cfg.rbase = cfg'.rbase) (h2 : cfg.floatTy = cfg'.floatTy)
    (tok : List Byte) : resolveToken cfg tok = resolveToken cfg' tok := by
  have hf : floatTyOf cfg = floatTyOf cfg' := by
    funext sh; unfold floatTyOf; rw [h2]
  unfold resolveToken
  rw [h1, hf]

theorem consume_cfg (T : Tables) (cfg cfg' : Cfg) (h1 : cfg.rbase = cfg'.rbase) (h2 : cfg.floatTy = cfg'.floatTy)
    (t : TMode) (c : Core) (tok : List Byte) : consume T cfg t c tok = consume T cfg' t c tok := by
  cases t <;> simp only [consume]
  unfold pushToken
  rw [resolveToken_cfg cfg cfg' h1 h2]

theorem body1_cfg (T : Tables) (cfg cfg' : Cfg) (h1 : cfg.rbase = cfg'.rbase) (h2 : cfg.floatTy = cfg'.floatTy)
    (s : S1) (b : Byte) : body1 T cfg s b = body1 T cfg' s b := by
  unfold body1
  split <;> try rfl
  unfold tokStep1
  simp only [consume_cfg T cfg cfg' h1 h2]

theorem finishCore_cfg (T : Tables) (cfg cfg' : Cfg) (h1 : cfg.rbase = cfg'.rbase) (h2 : cfg.floatTy = cfg'.floatTy)
    (c : Core) (m : Mode) (tok : List Byte) : finishCore T cfg c m tok = finishCore T cfg' c m tok := by
  unfold finishCore
  cases m with
  | tok t => simp only [consume_cfg T cfg cfg' h1 h2]
  | plain p => cases p <;> rfl
  | str m => cases m <;> rfl
  | esc => rfl
  | rune => rfl
  | chrStart => rfl

/-- a halted state only counts bytes, whatever the configuration -/
theorem run1_halted (T : Tables) (cfg : Cfg) (bs : List Byte) (s : S1) (h : s.core.halt ≠ none) :
    run1 T cfg s bs = { s with pos := s.pos + bs.length } := by
  induction bs generalizing s with
  | nil => simp [run1]
  | cons b rest ih =>
    have hs : step1 T cfg s b = { s with pos := s.pos + 1 } := by
      unfold step1
      cases hh : s.core.halt with
      | none => exact absurd hh h
      | some x => rfl
    have := ih { s with pos := s.pos + 1 } h
    simp only [run1, List.foldl_cons, hs] at this ⊢
    rw [this]; simp; omega

/-- One-form mode and whole-text mode started in the same live state with nothing emitted yet: they
    stay in lockstep, or the one-form run has halted with a non-empty `code` that the whole-text
    run only ever extends. -/
theorem one_vs_all (T : Tables) (cfg : Cfg) (bs : List Byte) :
    ∀ s : S1, s.core.halt = none → s.core.code = [] →
      run1 T { cfg with one := true } s bs = run1 T { cfg with one := false } s bs ∨
      ∃ o tl p, (run1 T { cfg with one := true } s bs).core.halt = some (.one p) ∧
        (run1 T { cfg with one := true } s bs).core.code = o :: tl ∧
        ∃ suffix, (run1 T { cfg with one := false } s bs).core.code = (o :: tl) ++ suffix := by
  induction bs with
  | nil => intro s _ _; exact Or.inl rfl
  | cons b rest ih =>
    intro s hh hcode
    have hbody : body1 T { cfg with one := true } s b = body1 T { cfg with one := false } s b :=
      body1_cfg T _ _ rfl rfl s b
    -- whole-text mode: the one-form check does nothing
    have h0 : step1 T { cfg with one := false } s b =
        { body1 T { cfg with one := false } s b with pos := s.pos + 1 } := by
      unfold step1
      simp only [hh, oneCheck]
      cases (body1 T { cfg with one := false } s b).core.halt <;> simp
    simp only [run1, List.foldl_cons]
    generalize hB : body1 T { cfg with one := false } s b = B at h0 hbody
    have h1 : step1 T { cfg with one := true } s b =
        { B with core := oneCheck { cfg with one := true } s.pos b B.core, pos := s.pos + 1 } := by
      unfold step1
      simp only [hh, hbody]
    rw [h0, h1]
    cases hBh : B.core.halt with
    | some x =>
      -- an error in the body: both runs are halted in the same state
      have e1 : oneCheck { cfg with one := true } s.pos b B.core = B.core := by simp [oneCheck, hBh]
      rw [e1]
      left
      have hne : ({ B with pos := s.pos + 1 } : S1).core.halt ≠ none := by simp [hBh]
      have r1 := run1_halted T { cfg with one := true } rest _ hne
      have r0 := run1_halted T { cfg with one := false } rest _ hne
      simp only [run1] at r1 r0
      rw [r1, r0]
    | none =>
      cases hBc : B.core.code with
      | nil =>
        have e1 : oneCheck { cfg with one := true } s.pos b B.core = B.core := by simp [oneCheck, hBh, hBc]
        rw [e1]
        have := ih { B with pos := s.pos + 1 } (by simpa using hBh) (by simpa using hBc)
        simpa [run1] using this
      | cons o tl =>
        right
        have e1 : (oneCheck { cfg with one := true } s.pos b B.core).halt =
            some (.one (if isCloser b then s.pos + 1 else s.pos)) := by simp [oneCheck, hBh, hBc]
        have e2 : (oneCheck { cfg with one := true } s.pos b B.core).code = o :: tl := by
          simp [oneCheck, hBh, hBc]
        have hne : ({ B with core := oneCheck { cfg with one := true } s.pos b B.core, pos := s.pos + 1 } : S1).core.halt ≠ none := by
          simp [e1]
        have r1 := run1_halted T { cfg with one := true } rest _ hne
        simp only [run1] at r1
        rw [r1]
        refine ⟨o, tl, _, by simpa using e1, by simpa using e2, ?_⟩
        have hext := ext_run1 T { cfg with one := false } rest { B with pos := s.pos + 1 }
        obtain ⟨suffix, hs⟩ := hext
        exact ⟨suffix, by simpa [run1, hBc] using hs⟩

end SlipVerif.Reader
