import SlipVerif.Lemmas.PrinterMain
/- C03: the structural round-trip lemma for ANY read base, over abstract leaf facts (core only).
   `struct_roundtrip` (PrinterMain) is the instance for `*read-base*` 10; `Lemmas/PrinterReadBaseStruct`
   instantiates it for radix-less text read with `*read-base*` = `*print-base*`. -/
namespace SlipVerif.Printer
open SlipVerif.Gen

/-- a side condition `N` on the leaves of an object -/
def LeavesOK (N : Obj → Prop) : Obj → Prop
  | .nil => N .nil
  | .t => N .t
  | .int n => N (.int n)
  | .ratio a b => N (.ratio a b)
  | .str s => N (.str s)
  | .chr c => N (.chr c)
  | .sym s => N (.sym s)
  | .flt f g d e => N (.flt f g d e)
  | .cons a d => LeavesOK N a ∧ LeavesOK N d
  | .vec e => LeavesOK N e
  | .arr _ c => LeavesOK N c

/-- what the induction needs from the leaves when the text is read under `*read-base*` `rb` -/
structure LeafRead (rb : Nat) (cfg : PCfg) (N : Obj → Prop) : Prop where
  readably : cfg.readably = true
  array : cfg.array = true
  rnil : ∀ (rest : List Char), termOrEnd rest = true → ∀ fuel : Nat,
    read1 rb (fuel + 1) (caseName cfg.case ['n', 'i', 'l'] ++ rest) = .ok (.nil, rest)
  rt : ∀ (rest : List Char), termOrEnd rest = true → ∀ fuel : Nat,
    read1 rb (fuel + 1) ('t' :: rest) = .ok (.t, rest)
  rdot : ∀ (rest : List Char), termOrEnd rest = true → ∀ fuel : Nat,
    read1 rb (fuel + 1) ('.' :: rest) = .ok (dotSym, rest)
  rint : ∀ (n : Int), N (.int n) → ∀ (rest : List Char), termOrEnd rest = true → ∀ fuel : Nat,
    read1 rb (fuel + 1) (printInt cfg n ++ rest) = .ok (.int n, rest)
  rratio : ∀ (num : Int) (den : Nat), 2 ≤ den → Nat.gcd num.natAbs den = 1 →
    ∀ (rest : List Char), termOrEnd rest = true → ∀ fuel : Nat,
    read1 rb (fuel + 1) (printRatio cfg num den ++ rest) = .ok (.ratio num den, rest)
  rsym : ∀ (name : List Char), name.map lowerC ≠ ['t'] → name.map lowerC ≠ ['n', 'i', 'l'] →
    ∀ (rest : List Char), termOrEnd rest = true → ∀ fuel : Nat,
    read1 rb (fuel + 1) (printSym cfg name ++ rest) = .ok (.sym (caseName cfg.case name), rest)
  rflt : ∀ (f : FFmt) (neg : Bool) (ds : List Nat) (e : Int), FloatWF ds e →
    ∀ (rest : List Char), termOrEnd rest = true → ∀ fuel : Nat,
    read1 rb (fuel + 1) (printFloat cfg f neg ds e ++ rest) = .ok (.flt f neg ds e, rest)

def PReadG (rb : Nat) (cfg : PCfg) (N : Obj → Prop) (x : Obj) : Prop :=
  WF x → LeavesOK N x → ∀ (rest : List Char) (fuel : Nat), termOrEnd rest = true → 3 * osize x + 4 ≤ fuel →
    read1 rb fuel (printFlat cfg x ++ rest) = .ok (recase cfg.case x, rest)

def QReadG (rb : Nat) (cfg : PCfg) (N : Obj → Prop) (x : Obj) : Prop :=
  WF x → LeavesOK N x → ∀ (rest : List Char) (fuel : Nat) (acc : List Obj), 3 * osize x + 6 ≤ fuel →
    readElems rb fuel (printTail cfg x ++ rest) acc = .ok (acc.reverse ++ tailElems (recase cfg.case x), rest)

/-- the rest of a dotted list: ` . atom)` -/
theorem qread_atom_g {rb : Nat} {cfg : PCfg} {N : Obj → Prop} (L : LeafRead rb cfg N) (t : Obj)
    (hpt : printTail cfg t = ' ' :: '.' :: ' ' :: (printFlat cfg t ++ [')']))
    (hte : tailElems (recase cfg.case t) = [dotSym, recase cfg.case t])
    (hP : PReadG rb cfg N t) : QReadG rb cfg N t := by
  intro hwf hn rest fuel acc hfuel
  obtain ⟨f, rfl⟩ : ∃ f, fuel = f + 1 := ⟨fuel - 1, by omega⟩
  obtain ⟨g, rfl⟩ : ∃ g, f = g + 1 := ⟨f - 1, by omega⟩
  obtain ⟨h, rfl⟩ : ∃ h, g = h + 1 := ⟨g - 1, by omega⟩
  rw [hpt, hte]
  simp only [List.cons_append, List.append_assoc, List.nil_append]
  rw [readElems_space]
  have h1 := L.rdot (' ' :: (printFlat cfg t ++ ')' :: rest)) (by simp [termOrEnd, isTerm, isWs]) (h + 1)
  rw [readElems_step rb (h + 1 + 1) _ _ _ acc h1, readElems_space]
  have h2 := hP hwf hn (')' :: rest) (h + 1) (by simp [termOrEnd, isTerm, isWs]) (by omega)
  rw [readElems_step rb (h + 1) _ _ _ _ h2, readElems_close]
  simp

/-- the body of a list, vector or array after the opening parenthesis -/
theorem body_read_g {rb : Nat} {cfg : PCfg} {N : Obj → Prop} (a d : Obj)
    (hPa : PReadG rb cfg N a) (hQd : QReadG rb cfg N d) (hwa : WF a) (hwd : WF d)
    (hna : LeavesOK N a) (hnd : LeavesOK N d)
    (rest : List Char) (g : Nat) (hg : 3 * osize a + 3 * osize d + 5 ≤ g) :
    readElems rb (g + 1) (printFlat cfg a ++ (printTail cfg d ++ rest)) [] =
      .ok (recase cfg.case a :: tailElems (recase cfg.case d), rest) := by
  have hsd : 1 ≤ osize d := by cases d <;> simp [osize] <;> omega
  have hsa : 1 ≤ osize a := by cases a <;> simp [osize] <;> omega
  have h1 := hPa hwa hna (printTail cfg d ++ rest) g (printTail_term cfg d rest) (by omega)
  rw [readElems_step rb g _ _ _ [] h1, hQd hwd hnd rest g _ (by omega)]
  simp

theorem struct_roundtrip_gen {rb : Nat} {cfg : PCfg} {N : Obj → Prop} (hT : TablesOK) (L : LeafRead rb cfg N) :
    ∀ x : Obj, PReadG rb cfg N x ∧ QReadG rb cfg N x := by
  intro x
  induction x with
  | nil =>
    have hP : PReadG rb cfg N .nil := by
      intro _ _ rest fuel hrest hfuel
      obtain ⟨f, rfl⟩ : ∃ f, fuel = f + 1 := ⟨fuel - 1, by simp [osize] at hfuel; omega⟩
      simp only [printFlat, recase]
      exact L.rnil rest hrest f
    refine ⟨hP, ?_⟩
    intro _ _ rest fuel acc hfuel
    obtain ⟨f, rfl⟩ : ∃ f, fuel = f + 1 := ⟨fuel - 1, by simp [osize] at hfuel; omega⟩
    simp only [printTail, recase, tailElems, List.cons_append, List.nil_append, List.append_nil]
    exact readElems_close rb f rest acc
  | t =>
    have hP : PReadG rb cfg N .t := by
      intro _ _ rest fuel hrest hfuel
      obtain ⟨f, rfl⟩ : ∃ f, fuel = f + 1 := ⟨fuel - 1, by simp [osize] at hfuel; omega⟩
      simp only [printFlat, recase, List.cons_append, List.nil_append]
      exact L.rt rest hrest f
    exact ⟨hP, qread_atom_g L .t (by simp [printTail, printFlat]) (by simp [recase, tailElems]) hP⟩
  | int n =>
    have hP : PReadG rb cfg N (.int n) := by
      intro _ hn rest fuel hrest hfuel
      obtain ⟨f, rfl⟩ : ∃ f, fuel = f + 1 := ⟨fuel - 1, by simp [osize] at hfuel; omega⟩
      simp only [printFlat, recase]
      exact L.rint n (by simpa [LeavesOK] using hn) rest hrest f
    exact ⟨hP, qread_atom_g L (.int n) (by simp [printTail, printFlat]) (by simp [recase, tailElems]) hP⟩
  | ratio num den =>
    have hP : PReadG rb cfg N (.ratio num den) := by
      intro hwf _ rest fuel hrest hfuel
      obtain ⟨f, rfl⟩ : ∃ f, fuel = f + 1 := ⟨fuel - 1, by simp [osize] at hfuel; omega⟩
      simp only [printFlat, recase]
      exact L.rratio num den hwf.1 hwf.2 rest hrest f
    exact ⟨hP, qread_atom_g L (.ratio num den) (by simp [printTail, printFlat]) (by simp [recase, tailElems]) hP⟩
  | str s =>
    have hP : PReadG rb cfg N (.str s) := by
      intro _ _ rest fuel hrest hfuel
      obtain ⟨f, rfl⟩ : ∃ f, fuel = f + 1 := ⟨fuel - 1, by simp [osize] at hfuel; omega⟩
      simp only [printFlat, recase]
      exact read1_str cfg L.readably s rest f rb
    exact ⟨hP, qread_atom_g L (.str s) (by simp [printTail, printFlat]) (by simp [recase, tailElems]) hP⟩
  | chr c =>
    have hP : PReadG rb cfg N (.chr c) := by
      intro hwf _ rest fuel hrest hfuel
      obtain ⟨f, rfl⟩ : ∃ f, fuel = f + 1 := ⟨fuel - 1, by simp [osize] at hfuel; omega⟩
      simp only [printFlat, recase]
      exact read1_chr hT c hwf rest hrest f rb
    exact ⟨hP, qread_atom_g L (.chr c) (by simp [printTail, printFlat]) (by simp [recase, tailElems]) hP⟩
  | sym name =>
    have hP : PReadG rb cfg N (.sym name) := by
      intro hwf _ rest fuel hrest hfuel
      obtain ⟨f, rfl⟩ : ∃ f, fuel = f + 1 := ⟨fuel - 1, by simp [osize] at hfuel; omega⟩
      simp only [printFlat, recase]
      exact L.rsym name hwf.1 hwf.2 rest hrest f
    exact ⟨hP, qread_atom_g L (.sym name) (by simp [printTail, printFlat]) (by simp [recase, tailElems]) hP⟩
  | flt ff neg ds e =>
    have hP : PReadG rb cfg N (.flt ff neg ds e) := by
      intro hwf _ rest fuel hrest hfuel
      obtain ⟨f, rfl⟩ : ∃ f, fuel = f + 1 := ⟨fuel - 1, by simp [osize] at hfuel; omega⟩
      simp only [printFlat, recase]
      exact L.rflt ff neg ds e hwf rest hrest f
    exact ⟨hP, qread_atom_g L (.flt ff neg ds e) (by simp [printTail, printFlat]) (by simp [recase, tailElems]) hP⟩
  | cons a d iha ihd =>
    constructor
    · intro hwf hn rest fuel hrest hfuel
      obtain ⟨f, rfl⟩ : ∃ f, fuel = f + 1 := ⟨fuel - 1, by omega⟩
      obtain ⟨g, rfl⟩ : ∃ g, f = g + 1 := ⟨f - 1, by simp [osize] at hfuel; omega⟩
      simp only [printFlat, recase, List.cons_append, List.append_assoc]
      rw [read1_paren, body_read_g a d iha.1 ihd.2 hwf.1 hwf.2.2 hn.1 hn.2 rest g (by simp [osize] at hfuel; omega)]
      simp only [mapOk]
      rw [closeList_tailElems _ _ (recase_ne_dot cfg.case a hwf.2.1) (WF_noDot cfg.case d hwf.2.2)]
    · intro hwf hn rest fuel acc hfuel
      obtain ⟨f, rfl⟩ : ∃ f, fuel = f + 1 := ⟨fuel - 1, by omega⟩
      simp only [printTail, recase, tailElems, List.cons_append, List.append_assoc]
      rw [readElems_space]
      have hsd : 1 ≤ osize d := by cases d <;> simp [osize] <;> omega
      have hsa : 1 ≤ osize a := by cases a <;> simp [osize] <;> omega
      have h1 := iha.1 hwf.1 hn.1 (printTail cfg d ++ rest) f (printTail_term cfg d rest) (by simp [osize] at hfuel; omega)
      rw [readElems_step rb f _ _ _ acc h1, ihd.2 hwf.2.2 hn.2 rest f _ (by simp [osize] at hfuel; omega)]
      simp
  | vec e ih =>
    have hP : PReadG rb cfg N (.vec e) := by
      intro hwf hn rest fuel hrest hfuel
      obtain ⟨f, rfl⟩ : ∃ f, fuel = f + 1 := ⟨fuel - 1, by omega⟩
      obtain ⟨g, rfl⟩ : ∃ g, f = g + 1 := ⟨f - 1, by simp [osize] at hfuel; omega⟩
      simp only [printFlat, recase]
      cases e with
      | cons a d =>
        simp only [printVec, L.array, if_true, List.cons_append, List.append_assoc]
        rw [read1_sharp_paren]
        have hq := ih.2 hwf.2 hn rest (g + 1) [] (by simp [osize] at hfuel ⊢; omega)
        simp only [printTail, List.cons_append, List.append_assoc] at hq
        rw [readElems_space] at hq
        rw [hq]
        simp only [mapOk, List.reverse_nil, List.nil_append]
        rw [mkProper_tailElems _ (by rw [isList_recase]; exact hwf.1)]
      | nil =>
        simp only [printVec, L.array, if_true, List.cons_append, List.nil_append]
        rw [read1_sharp_paren, readElems_close]
        simp [mapOk, mkProper, recase]
      | _ => simp [WF, isList] at hwf
    exact ⟨hP, qread_atom_g L (.vec e) (by simp [printTail, printFlat]) (by simp [recase, tailElems]) hP⟩
  | arr r c ih =>
    have hP : PReadG rb cfg N (.arr r c) := by
      intro hwf hn rest fuel hrest hfuel
      obtain ⟨f, rfl⟩ : ∃ f, fuel = f + 1 := ⟨fuel - 1, by omega⟩
      obtain ⟨g, rfl⟩ : ∃ g, f = g + 1 := ⟨f - 1, by simp [osize] at hfuel; omega⟩
      simp only [printFlat, recase]
      cases c with
      | cons a d =>
        simp only [printArr, L.array, if_true, List.cons_append, List.append_assoc]
        rw [read1_sharp_A]
        have hq := ih.2 hwf.2.2.2 hn rest (g + 1) [] (by simp [osize] at hfuel ⊢; omega)
        simp only [printTail, List.cons_append, List.append_assoc] at hq
        rw [readElems_space] at hq
        rw [hq]
        have hr1 : r ≠ 1 := by have := hwf.1; omega
        simp only [mapOk, List.reverse_nil, List.nil_append, hr1, if_false]
        rw [mkProper_tailElems _ (by rw [isList_recase]; exact hwf.2.1)]
      | nil => exact absurd rfl hwf.2.2.1
      | _ => simp [WF, isList] at hwf
    exact ⟨hP, qread_atom_g L (.arr r c) (by simp [printTail, printFlat]) (by simp [recase, tailElems]) hP⟩

/-- the printed text is at least as long as the object is big, whatever base / radix (only `*print-array*` matters) -/
theorem size_le_length_arr (hT : TablesOK) (cfg : PCfg) (ha : cfg.array = true) : ∀ x : Obj,
    (WF x → osize x ≤ (printFlat cfg x).length) ∧ (WF x → osize x ≤ (printTail cfg x).length) := by
  intro x
  induction x with
  | nil => simp [osize, printFlat, printTail, caseName_len]
  | t => simp [osize, printFlat, printTail]
  | int n => have := printInt_len cfg n; simp [osize, printFlat, printTail]; omega
  | ratio num den => have := printRatio_len cfg num den; simp [osize, printFlat, printTail]; omega
  | str s => have := printStr_len cfg s; simp [osize, printFlat, printTail]; omega
  | chr c =>
    constructor
    · intro hwf; have := printChr_len hT c hwf; simp [osize, printFlat]; omega
    · intro _; simp [osize, printTail]
  | sym name => have := printSym_len cfg name; simp [osize, printFlat, printTail]; omega
  | flt ff neg ds e => have := printFloat_len cfg ff neg ds e; simp [osize, printFlat, printTail]; omega
  | cons a d iha ihd =>
    constructor
    · intro hwf
      have h1 := iha.1 hwf.1
      have h2 := ihd.2 hwf.2.2
      simp [osize, printFlat]; omega
    · intro hwf
      have h1 := iha.1 hwf.1
      have h2 := ihd.2 hwf.2.2
      simp [osize, printTail]; omega
  | vec e ih =>
    have hP : WF (.vec e) → osize (.vec e) ≤ (printFlat cfg (.vec e)).length := by
      intro hwf
      simp only [osize, printFlat]
      cases e with
      | cons a d =>
        have h2 := ih.2 hwf.2
        simp [osize, printTail, printVec, ha] at h2 ⊢
        omega
      | nil => simp [osize, printVec, ha]
      | _ => simp [WF, isList] at hwf
    refine ⟨hP, ?_⟩
    intro hwf
    have := hP hwf
    simp only [printFlat] at this
    simp [printTail]; omega
  | arr r c ih =>
    have hP : WF (.arr r c) → osize (.arr r c) ≤ (printFlat cfg (.arr r c)).length := by
      intro hwf
      simp only [osize, printFlat]
      cases c with
      | cons a d =>
        have h2 := ih.2 hwf.2.2.2
        simp [osize, printTail, printArr, ha] at h2 ⊢
        omega
      | nil => exact absurd rfl hwf.2.2.1
      | _ => simp [WF, isList] at hwf
    refine ⟨hP, ?_⟩
    intro hwf
    have := hP hwf
    simp only [printFlat] at this
    simp [printTail]; omega

end SlipVerif.Printer
