import SlipVerif.Model.JsonSen
import SlipVerif.Lemmas.JsonText
import SlipVerif.Lemmas.JsonLisp
/-
  Helper lemmas for Theorems/C18: the model's SEN reader reads back what the model's SEN writer
  (and, in Theorems/C18, its JSON writer) wrote.
-/
namespace SlipVerif.Json
open J

/-! ### characters -/

/-- what follows a bare token or a number must be a delimiter (or the end) -/
def RestDelim (rest : List Char) : Prop := ∀ c tl, rest = c :: tl → isDelim c = true

theorem RestDelim_nil : RestDelim [] := by intro c tl h; cases h

theorem RestDelim_cons (c : Char) (tl : List Char) (h : isDelim c = true) : RestDelim (c :: tl) := by
  intro c' tl' e; cases e; exact h

theorem isWs_isSep (c : Char) (h : isWs c = true) : isSep c = true := by simp [isSep, h]

theorem isWs_isDelim (c : Char) (h : isWs c = true) : isDelim c = true := by simp [isDelim, h]

theorem notDelim (c : Char) (h : isDelim c = false) :
    isSep c = false ∧ isWs c = false ∧ (c == '"') = false ∧ (c == '[') = false ∧ (c == '{') = false ∧
      (c == ']') = false ∧ (c == '}') = false ∧ (c == ':') = false := by
  simp only [isDelim, Bool.or_eq_false_iff] at h
  obtain ⟨⟨⟨⟨⟨⟨⟨h1, h2⟩, h3⟩, h4⟩, h5⟩, h6⟩, h7⟩, h8⟩ := h
  simp [isSep, h1, h2, h3, h4, h5, h6, h7, h8]

theorem all_ws_sep (ws : List Char) (h : ws.all isWs = true) : ws.all isSep = true := by
  simp only [List.all_eq_true] at h ⊢
  intro c hc; exact isWs_isSep c (h c hc)

theorem skipSep_ws_append (ws cs : List Char) (h : ws.all isSep = true) : skipSep (ws ++ cs) = skipSep cs := by
  induction ws with
  | nil => rfl
  | cons c ws ih =>
    simp only [List.all_cons, Bool.and_eq_true] at h
    simp [skipSep, h.1, ih h.2]

theorem skipSep_cons_nonsep (c : Char) (cs : List Char) (h : isSep c = false) : skipSep (c :: cs) = c :: cs := by
  simp [skipSep, h]

theorem spanTok_append (tok rest : List Char) (h : tok.all (fun c => !isDelim c) = true) (hr : RestDelim rest) :
    spanTok (tok ++ rest) = (tok, rest) := by
  induction tok with
  | nil =>
    cases rest with
    | nil => simp [spanTok]
    | cons c tl => simp [spanTok, hr c tl rfl]
  | cons c tok ih =>
    simp only [List.all_cons, Bool.and_eq_true, Bool.not_eq_true'] at h
    simp [spanTok, h.1, ih h.2]

theorem isNumChar_notDelim (c : Char) (h : isNumChar c = true) : isDelim c = false := by
  cases hd : isDelim c with
  | false => rfl
  | true =>
    exfalso
    simp only [isDelim, isWs, Bool.or_eq_true, beq_iff_eq] at hd
    rcases hd with (((((((((h1 | h1) | h1) | h1) | h1) | h1) | h1) | h1) | h1) | h1) | h1 <;> subst h1 <;> revert h <;> decide

theorem isWordChar_notDelim (c : Char) (h : isWordChar c = true) : isDelim c = false := by
  cases hd : isDelim c with
  | false => rfl
  | true =>
    exfalso
    simp only [isDelim, isWs, Bool.or_eq_true, beq_iff_eq] at hd
    rcases hd with (((((((((h1 | h1) | h1) | h1) | h1) | h1) | h1) | h1) | h1) | h1) | h1 <;> subst h1 <;> revert h <;> decide

theorem isAlpha_notNumStart (c : Char) (h : isAlpha c = true) :
    isDig c = false ∧ (c == '-') = false ∧ (c == '+') = false := by
  simp only [isAlpha, Bool.or_eq_true, Bool.and_eq_true, decide_eq_true_eq, beq_iff_eq] at h
  refine ⟨?_, ?_, ?_⟩
  · cases hd : isDig c with
    | false => rfl
    | true =>
      have := isDig_toNat c hd
      rcases h with (h | h) | h
      · omega
      · omega
      · subst h; simp at this
  all_goals
    apply Bool.eq_false_iff.mpr
    intro e
    have e' := beq_iff_eq.mp e
    subst e'
    revert h
    decide

/-! ### tokens -/

/-- the token branch of `parseSenValue` -/
theorem parseSenValue_tok (fuel : Nat) (ws tok rest : List Char) (j : J) (hws : ws.all isSep = true)
    (hne : tok ≠ []) (htok : tok.all (fun c => !isDelim c) = true) (hr : RestDelim rest)
    (hv : tokValue tok = .ok j) :
    parseSenValue (fuel + 1) (ws ++ (tok ++ rest)) = .ok (j, rest) := by
  cases tok with
  | nil => exact absurd rfl hne
  | cons c tl =>
    have hc : isDelim c = false := by
      simp only [List.all_cons, Bool.and_eq_true, Bool.not_eq_true'] at htok; exact htok.1
    obtain ⟨n1, _, n3, n4, n5, _, _, _⟩ := notDelim c hc
    have hsp := spanTok_append (c :: tl) rest htok hr
    simp only [List.cons_append] at hsp
    simp only [parseSenValue, skipSep_ws_append _ _ hws, List.cons_append, skipSep_cons_nonsep c _ n1]
    simp only [n3, n4, n5, hc, Bool.false_eq_true, if_false, hsp, hv]

theorem tokValue_num (tok : List Char) (j : J)
    (hhead : ∃ c tl, tok = c :: tl ∧ (isDig c = true ∨ c = '-')) (hc : classify tok = .ok j) :
    tokValue tok = .ok j := by
  obtain ⟨c, tl, rfl, hcd⟩ := hhead
  have hk : c ≠ 'n' ∧ c ≠ 't' ∧ c ≠ 'f' := by
    rcases hcd with hd | rfl
    · have := isDig_toNat c hd
      refine ⟨?_, ?_, ?_⟩ <;> (intro e; subst e; simp at this)
    · decide
  have hstart : (isDig c || c == '-' || c == '+') = true := by
    rcases hcd with hd | rfl
    · simp [hd]
    · decide
  simp only [tokValue, kwNull, kwTrue, kwFalse, List.cons.injEq, hk.1, hk.2.1, hk.2.2, false_and, if_false, hstart, if_true, hc]

theorem tokValue_bare (cs : List Char) (h : bareOk cs = true) : tokValue cs = .ok (str (String.ofList cs)) := by
  simp only [bareOk, Bool.and_eq_true, Bool.not_eq_true', decide_eq_false_iff_not] at h
  obtain ⟨⟨⟨⟨hhead, _⟩, h1⟩, h2⟩, h3⟩ := h
  cases cs with
  | nil => simp at hhead
  | cons c tl =>
    obtain ⟨d1, d2, d3⟩ := isAlpha_notNumStart c hhead
    simp only [tokValue, h1, h2, h3, if_false, d1, d2, d3, Bool.or_self, Bool.false_eq_true]

theorem bareOk_notDelim (cs : List Char) (h : bareOk cs = true) : cs.all (fun c => !isDelim c) = true ∧ cs ≠ [] := by
  simp only [bareOk, Bool.and_eq_true] at h
  obtain ⟨⟨⟨⟨hhead, hall⟩, _⟩, _⟩, _⟩ := h
  constructor
  · simp only [List.all_eq_true] at hall ⊢
    intro c hc
    simp [isWordChar_notDelim c (hall c hc)]
  · intro e; subst e; simp at hhead

theorem all_num_notDelim (cs : List Char) (h : cs.all isNumChar = true) : cs.all (fun c => !isDelim c) = true := by
  simp only [List.all_eq_true] at h ⊢
  intro c hc
  simp [isNumChar_notDelim c (h c hc)]

/-! ### what the writer puts first -/

/-- every written SEN string starts with a quote or a letter: never a separator, a closing
    bracket or a colon -/
theorem writeSenStr_head (s : String) :
    ∃ c tl, writeSenStr s = c :: tl ∧ isSep c = false ∧ (c == ']') = false ∧ (c == '}') = false := by
  unfold writeSenStr
  split
  · rename_i hb
    obtain ⟨hall, hne⟩ := bareOk_notDelim _ hb
    cases hs : s.toList with
    | nil => exact absurd hs hne
    | cons c tl =>
      rw [hs] at hall
      simp only [List.all_cons, Bool.and_eq_true, Bool.not_eq_true'] at hall
      obtain ⟨n1, _, _, _, _, n6, n7, _⟩ := notDelim c hall.1
      exact ⟨c, tl, rfl, n1, n6, n7⟩
  · exact ⟨'"', _, rfl, by decide, by decide, by decide⟩

theorem writeSenV_head (lay : Layout) (d : Nat) (j : J) (hj : TextOk j = true) :
    ∃ c tl, writeSenV lay d j = c :: tl ∧ isSep c = false ∧ (c == ']') = false := by
  have hnum : ∀ c, (isDig c = true ∨ c = '-') → isSep c = false ∧ (c == ']') = false := by
    intro c hc
    have hn : isNumChar c = true := by
      rcases hc with hd | rfl
      · exact isDig_isNumChar c hd
      · decide
    obtain ⟨n1, _, _, _, _, n6, _, _⟩ := notDelim c (isNumChar_notDelim c hn)
    exact ⟨n1, n6⟩
  cases j with
  | null => exact ⟨'n', _, rfl, by decide, by decide⟩
  | bool b => cases b <;> exact ⟨_, _, rfl, by decide, by decide⟩
  | int i =>
    obtain ⟨c, tl, h, hc⟩ := intChars_head i
    exact ⟨c, tl, by simp [writeSenV, h], hnum c hc⟩
  | flo t =>
    simp only [TextOk] at hj
    obtain ⟨_, c, tl, h, hc⟩ := validFlo_head _ hj
    exact ⟨c, tl, by simp [writeSenV, h], hnum c hc⟩
  | str s =>
    obtain ⟨c, tl, h, h1, h2, _⟩ := writeSenStr_head s
    exact ⟨c, tl, by simp [writeSenV, h], h1, h2⟩
  | time t => simp [TextOk] at hj
  | arr xs => exact ⟨'[', _, rfl, by decide, by decide⟩
  | obj kvs => exact ⟨'{', _, rfl, by decide, by decide⟩

/-! ### the round trip -/

mutual
def needS : J → Nat
  | arr xs => 1 + needSL xs
  | obj kvs => 1 + needSM kvs
  | _ => 1
def needSL : List J → Nat
  | [] => 1
  | x :: xs => 1 + needS x + needSL xs
def needSM : Members → Nat
  | [] => 1
  | (_, v) :: kvs => 1 + needS v + needSM kvs
end

theorem RestDelim_blank (tl : List Char) : RestDelim (' ' :: tl) := RestDelim_cons _ _ (by decide)

mutual
theorem parseSenValue_write (lay : Layout) (hl : lay.WsOnly) : (j : J) → TextOk j = true →
    ∀ (d fuel : Nat) (ws rest : List Char), ws.all isSep = true → needS j ≤ fuel → RestDelim rest →
    parseSenValue fuel (ws ++ (writeSenV lay d j ++ rest)) = .ok (j, rest)
  | .null, _, d, fuel, ws, rest, hws, hf, hr => by
      obtain ⟨f, rfl⟩ : ∃ f, fuel = f + 1 := ⟨fuel - 1, by simp [needS] at hf; omega⟩
      exact parseSenValue_tok f ws kwNull rest _ hws (by decide) (by decide) hr (by simp [tokValue])
  | .bool true, _, d, fuel, ws, rest, hws, hf, hr => by
      obtain ⟨f, rfl⟩ : ∃ f, fuel = f + 1 := ⟨fuel - 1, by simp [needS] at hf; omega⟩
      exact parseSenValue_tok f ws kwTrue rest _ hws (by decide) (by decide) hr (by simp [tokValue, kwTrue, kwNull])
  | .bool false, _, d, fuel, ws, rest, hws, hf, hr => by
      obtain ⟨f, rfl⟩ : ∃ f, fuel = f + 1 := ⟨fuel - 1, by simp [needS] at hf; omega⟩
      exact parseSenValue_tok f ws kwFalse rest _ hws (by decide) (by decide) hr (by simp [tokValue, kwFalse, kwTrue, kwNull])
  | .int i, _, d, fuel, ws, rest, hws, hf, hr => by
      obtain ⟨f, rfl⟩ : ∃ f, fuel = f + 1 := ⟨fuel - 1, by simp [needS] at hf; omega⟩
      have hne : intChars i ≠ [] := by
        obtain ⟨c, tl, h, _⟩ := intChars_head i
        rw [h]; simp
      exact parseSenValue_tok f ws (intChars i) rest _ hws hne (all_num_notDelim _ (intChars_all_num i)) hr
        (tokValue_num _ _ (intChars_head i) (classify_intChars i))
  | .flo t, hj, d, fuel, ws, rest, hws, hf, hr => by
      obtain ⟨f, rfl⟩ : ∃ f, fuel = f + 1 := ⟨fuel - 1, by simp [needS] at hf; omega⟩
      simp only [TextOk] at hj
      obtain ⟨hall, hhead⟩ := validFlo_head _ hj
      have hne : t.toList ≠ [] := by
        obtain ⟨c, tl, h, _⟩ := hhead
        rw [h]; simp
      have := parseSenValue_tok f ws t.toList rest (flo (String.ofList t.toList)) hws hne (all_num_notDelim _ hall) hr
        (tokValue_num _ _ hhead (classify_flo _ hj))
      rw [String_ofList_toList] at this
      exact this
  | .time t, hj, d, fuel, ws, rest, hws, hf, hr => by simp [TextOk] at hj
  | .str s, _, d, fuel, ws, rest, hws, hf, hr => by
      obtain ⟨f, rfl⟩ : ∃ f, fuel = f + 1 := ⟨fuel - 1, by simp [needS] at hf; omega⟩
      simp only [writeSenV, writeSenStr]
      split
      · rename_i hb
        obtain ⟨hall, hne⟩ := bareOk_notDelim _ hb
        have := parseSenValue_tok f ws s.toList rest _ hws hne hall hr (tokValue_bare _ hb)
        rw [String_ofList_toList] at this
        exact this
      · simp only [writeStr, List.cons_append, List.append_assoc, List.nil_append, parseSenValue, skipSep_ws_append _ _ hws]
        rw [skipSep_cons_nonsep _ _ (by decide)]
        simp [readStr_esc]
  | .arr xs, hj, d, fuel, ws, rest, hws, hf, hr => by
      obtain ⟨f, rfl⟩ : ∃ f, fuel = f + 1 := ⟨fuel - 1, by simp [needS] at hf; omega⟩
      simp only [TextOk] at hj
      have hf' : needSL xs ≤ f := by simp only [needS] at hf; omega
      have hE := parseSenElems_write lay hl xs hj d f [] rest (by simp) hf'
      simp only [List.nil_append] at hE
      simp only [writeSenV, List.cons_append, parseSenValue, skipSep_ws_append _ _ hws]
      rw [skipSep_cons_nonsep _ _ (by decide)]
      simp only [show ('[' == '"') = false by decide, show ('[' == '[') = true by decide, Bool.false_eq_true, if_false, if_true, hE]
  | .obj kvs, hj, d, fuel, ws, rest, hws, hf, hr => by
      obtain ⟨f, rfl⟩ : ∃ f, fuel = f + 1 := ⟨fuel - 1, by simp [needS] at hf; omega⟩
      simp only [TextOk, Bool.and_eq_true] at hj
      have hf' : needSM kvs ≤ f := by simp only [needS] at hf; omega
      have hE := parseSenMembers_write lay hl kvs hj.1 d f [] rest (by simp) hf'
      simp only [List.nil_append] at hE
      simp only [writeSenV, List.cons_append, parseSenValue, skipSep_ws_append _ _ hws]
      rw [skipSep_cons_nonsep _ _ (by decide)]
      simp only [show ('{' == '"') = false by decide, show ('{' == '[') = false by decide, show ('{' == '{') = true by decide,
        Bool.false_eq_true, if_false, if_true, hE, mkMembers_of_distinct _ hj.2]
theorem parseSenElems_write (lay : Layout) (hl : lay.WsOnly) : (xs : List J) → TextOkL xs = true →
    ∀ (d fuel : Nat) (ws rest : List Char), ws.all isSep = true → needSL xs ≤ fuel →
    parseSenElems fuel (ws ++ (writeSenL lay d xs ++ rest)) = .ok (xs, rest)
  | [], _, d, fuel, ws, rest, hws, hf => by
      obtain ⟨f, rfl⟩ : ∃ f, fuel = f + 1 := ⟨fuel - 1, by simp [needSL] at hf; omega⟩
      simp only [writeSenL, List.append_assoc, List.cons_append, List.nil_append, parseSenElems,
        skipSep_ws_append _ _ hws, skipSep_ws_append _ _ (all_ws_sep _ (hl.1 d))]
      rw [skipSep_cons_nonsep _ _ (by decide)]
      simp
  | x :: xs, hj, d, fuel, ws, rest, hws, hf => by
      obtain ⟨f, rfl⟩ : ∃ f, fuel = f + 1 := ⟨fuel - 1, by simp [needSL] at hf; omega⟩
      simp only [TextOkL, Bool.and_eq_true] at hj
      have hfx : needS x ≤ f := by simp only [needSL] at hf; omega
      have hfr : needSL xs ≤ f := by simp only [needSL] at hf; omega
      obtain ⟨c, tl, hc, hcs, hcb⟩ := writeSenV_head lay (d + 1) x hj.1
      have hV := parseSenValue_write lay hl x hj.1 (d + 1) f [] (' ' :: (writeSenL lay d xs ++ rest)) (by simp) hfx (RestDelim_blank _)
      have hE := parseSenElems_write lay hl xs hj.2 d f [' '] rest (by decide) hfr
      simp only [List.nil_append] at hV
      simp only [List.cons_append, List.nil_append] at hE
      simp only [writeSenL, List.append_assoc, List.cons_append, parseSenElems,
        skipSep_ws_append _ _ hws, skipSep_ws_append _ _ (all_ws_sep _ (hl.1 (d + 1)))]
      rw [hc] at hV ⊢
      simp only [List.cons_append] at hV ⊢
      rw [skipSep_cons_nonsep _ _ hcs]
      simp only [hcb, Bool.false_eq_true, if_false, hV, hE]
theorem parseSenMembers_write (lay : Layout) (hl : lay.WsOnly) : (kvs : Members) → TextOkM kvs = true →
    ∀ (d fuel : Nat) (ws rest : List Char), ws.all isSep = true → needSM kvs ≤ fuel →
    parseSenMembers fuel (ws ++ (writeSenM lay d kvs ++ rest)) = .ok (kvs, rest)
  | [], _, d, fuel, ws, rest, hws, hf => by
      obtain ⟨f, rfl⟩ : ∃ f, fuel = f + 1 := ⟨fuel - 1, by simp [needSM] at hf; omega⟩
      simp only [writeSenM, List.append_assoc, List.cons_append, List.nil_append, parseSenMembers,
        skipSep_ws_append _ _ hws, skipSep_ws_append _ _ (all_ws_sep _ (hl.1 d))]
      rw [skipSep_cons_nonsep _ _ (by decide)]
      simp
  | (k, v) :: kvs, hj, d, fuel, ws, rest, hws, hf => by
      obtain ⟨f, rfl⟩ : ∃ f, fuel = f + 1 := ⟨fuel - 1, by simp [needSM] at hf; omega⟩
      simp only [TextOkM, Bool.and_eq_true] at hj
      have hfx : needS v ≤ f := by simp only [needSM] at hf; omega
      have hfr : needSM kvs ≤ f := by simp only [needSM] at hf; omega
      have hV := parseSenValue_write lay hl v hj.1 (d + 1) f lay.colon (' ' :: (writeSenM lay d kvs ++ rest)) (all_ws_sep _ hl.2) hfx (RestDelim_blank _)
      have hE := parseSenMembers_write lay hl kvs hj.2 d f [' '] rest (by decide) hfr
      simp only [List.cons_append, List.nil_append] at hE
      simp only [writeSenM, List.append_assoc, List.cons_append, parseSenMembers,
        skipSep_ws_append _ _ hws, skipSep_ws_append _ _ (all_ws_sep _ (hl.1 (d + 1)))]
      by_cases hb : bareOk k.toList = true
      · -- a bare key
        simp only [writeSenStr, hb, if_true]
        obtain ⟨hall, hne⟩ := bareOk_notDelim _ hb
        cases hs : k.toList with
        | nil => exact absurd hs hne
        | cons c tl =>
          rw [hs] at hall
          have hcd : isDelim c = false := by
            simp only [List.all_cons, Bool.and_eq_true, Bool.not_eq_true'] at hall; exact hall.1
          obtain ⟨n1, _, n3, _, _, _, n7, _⟩ := notDelim c hcd
          have hsp := spanTok_append (c :: tl) (':' :: (lay.colon ++ (writeSenV lay (d + 1) v ++ ' ' :: (writeSenM lay d kvs ++ rest))))
            hall (RestDelim_cons _ _ (by decide))
          simp only [List.cons_append] at hsp ⊢
          rw [skipSep_cons_nonsep _ _ n1]
          simp only [n7, n3, hcd, Bool.false_eq_true, if_false, hsp]
          rw [skipWs_cons_nonws _ _ (by decide)]
          simp only [hV, hE]
          rw [← hs, String_ofList_toList]
      · -- a quoted key
        simp only [writeSenStr, hb, Bool.false_eq_true, if_false, writeStr, List.cons_append, List.append_assoc, List.nil_append]
        rw [skipSep_cons_nonsep _ _ (by decide)]
        simp only [show ('"' == '}') = false by decide, show ('"' == '"') = true by decide, Bool.false_eq_true, if_false, if_true,
          readStr_esc]
        rw [skipWs_cons_nonws _ _ (by decide)]
        simp only [hV, hE, String_ofList_toList]
end

/-! ### fuel: the text is at least as long as the fuel the document needs -/

theorem writeSenStr_length (s : String) : 1 ≤ (writeSenStr s).length := by
  obtain ⟨c, tl, h, _⟩ := writeSenStr_head s
  rw [h]; simp

mutual
theorem needS_le_length (lay : Layout) : (j : J) → TextOk j = true → ∀ d, needS j ≤ (writeSenV lay d j).length
  | .null, _, d => by simp [needS, writeSenV, kwNull]
  | .bool true, _, d => by simp [needS, writeSenV, kwTrue]
  | .bool false, _, d => by simp [needS, writeSenV, kwFalse]
  | .int i, _, d => by
      obtain ⟨c, tl, h, _⟩ := intChars_head i
      simp [needS, writeSenV, h]
  | .flo t, hj, d => by
      simp only [TextOk] at hj
      obtain ⟨_, c, tl, h, _⟩ := validFlo_head _ hj
      simp [needS, writeSenV, h]
  | .str s, _, d => by simpa [needS, writeSenV] using writeSenStr_length s
  | .time t, hj, d => by simp [TextOk] at hj
  | .arr xs, hj, d => by
      simp only [TextOk] at hj
      have := needSL_le_length lay xs hj d
      simp only [needS, writeSenV, List.length_cons]; omega
  | .obj kvs, hj, d => by
      simp only [TextOk, Bool.and_eq_true] at hj
      have := needSM_le_length lay kvs hj.1 d
      simp only [needS, writeSenV, List.length_cons]; omega
theorem needSL_le_length (lay : Layout) : (xs : List J) → TextOkL xs = true → ∀ d, needSL xs ≤ (writeSenL lay d xs).length
  | [], _, d => by simp [needSL, writeSenL]
  | x :: xs, hj, d => by
      simp only [TextOkL, Bool.and_eq_true] at hj
      have h1 := needS_le_length lay x hj.1 (d + 1)
      have h2 := needSL_le_length lay xs hj.2 d
      simp only [needSL, writeSenL, List.length_append, List.length_cons]; omega
theorem needSM_le_length (lay : Layout) : (kvs : Members) → TextOkM kvs = true → ∀ d, needSM kvs ≤ (writeSenM lay d kvs).length
  | [], _, d => by simp [needSM, writeSenM]
  | (k, v) :: kvs, hj, d => by
      simp only [TextOkM, Bool.and_eq_true] at hj
      have h1 := needS_le_length lay v hj.1 (d + 1)
      have h2 := needSM_le_length lay kvs hj.2 d
      simp only [needSM, writeSenM, List.length_append, List.length_cons]; omega
end

theorem parseSen_writeSen (lay : Layout) (hl : lay.WsOnly) (j : J) (hj : TextOk j = true) :
    parseSen (writeSen lay j) = .ok j := by
  unfold parseSen writeSen parseSenChars
  simp only [String.toList_ofList]
  have hlen := needS_le_length lay j hj 0
  have := parseSenValue_write lay hl j hj 0 (2 * (writeSenV lay 0 j).length + 1) [] [] (by simp) (by omega) RestDelim_nil
  simp only [List.nil_append, List.append_nil] at this
  simp [this, skipSep]

/-! ### everything JSON is SEN: the SEN reader reads what the JSON writer wrote -/

theorem writeV_head_sen (lay : Layout) (d : Nat) (j : J) (hj : TextOk j = true) :
    ∃ c tl, writeV lay d j = c :: tl ∧ isSep c = false ∧ (c == ']') = false := by
  have hnum : ∀ c, (isDig c = true ∨ c = '-') → isSep c = false ∧ (c == ']') = false := by
    intro c hc
    have hn : isNumChar c = true := by
      rcases hc with hd | rfl
      · exact isDig_isNumChar c hd
      · decide
    obtain ⟨n1, _, _, _, _, n6, _, _⟩ := notDelim c (isNumChar_notDelim c hn)
    exact ⟨n1, n6⟩
  cases j with
  | null => exact ⟨'n', _, rfl, by decide, by decide⟩
  | bool b => cases b <;> exact ⟨_, _, rfl, by decide, by decide⟩
  | int i =>
    obtain ⟨c, tl, h, hc⟩ := intChars_head i
    exact ⟨c, tl, by simp [writeV, h], hnum c hc⟩
  | flo t =>
    simp only [TextOk] at hj
    obtain ⟨_, c, tl, h, hc⟩ := validFlo_head _ hj
    exact ⟨c, tl, by simp [writeV, h], hnum c hc⟩
  | str s => exact ⟨'"', _, rfl, by decide, by decide⟩
  | time t => simp [TextOk] at hj
  | arr xs => cases xs <;> exact ⟨'[', _, rfl, by decide, by decide⟩
  | obj kvs =>
    cases kvs with
    | nil => exact ⟨'{', _, rfl, by decide, by decide⟩
    | cons kv kvs => obtain ⟨k, v⟩ := kv; exact ⟨'{', _, rfl, by decide, by decide⟩

theorem RestDelim_ws_then (ws : List Char) (c : Char) (tl : List Char) (hws : ws.all isWs = true)
    (hc : isDelim c = true) : RestDelim (ws ++ c :: tl) := by
  cases ws with
  | nil => exact RestDelim_cons c tl hc
  | cons w ws =>
    simp only [List.all_cons, Bool.and_eq_true] at hws
    exact RestDelim_cons w _ (isWs_isDelim w hws.1)

theorem RestDelim_writeRestL (lay : Layout) (hl : lay.WsOnly) (d : Nat) (xs : List J) (rest : List Char) :
    RestDelim (writeRestL lay d xs ++ rest) := by
  cases xs with
  | nil =>
    simp only [writeRestL, List.append_assoc, List.cons_append, List.nil_append]
    exact RestDelim_ws_then _ _ _ (hl.1 d) (by decide)
  | cons y ys => simp only [writeRestL, List.cons_append]; exact RestDelim_cons _ _ (by decide)

theorem RestDelim_writeRestM (lay : Layout) (hl : lay.WsOnly) (d : Nat) (kvs : Members) (rest : List Char) :
    RestDelim (writeRestM lay d kvs ++ rest) := by
  cases kvs with
  | nil =>
    simp only [writeRestM, List.append_assoc, List.cons_append, List.nil_append]
    exact RestDelim_ws_then _ _ _ (hl.1 d) (by decide)
  | cons kv kvs => obtain ⟨k, v⟩ := kv; simp only [writeRestM, List.cons_append]; exact RestDelim_cons _ _ (by decide)

theorem all_sep_comma_nl (lay : Layout) (hl : lay.WsOnly) (d : Nat) : (',' :: lay.nl d).all isSep = true := by
  simp only [List.all_cons, Bool.and_eq_true]
  exact ⟨by decide, all_ws_sep _ (hl.1 d)⟩

mutual
theorem parseSenValue_writeV (lay : Layout) (hl : lay.WsOnly) : (j : J) → TextOk j = true →
    ∀ (d fuel : Nat) (ws rest : List Char), ws.all isSep = true → needS j ≤ fuel → RestDelim rest →
    parseSenValue fuel (ws ++ (writeV lay d j ++ rest)) = .ok (j, rest)
  | .null, _, d, fuel, ws, rest, hws, hf, hr => by
      obtain ⟨f, rfl⟩ : ∃ f, fuel = f + 1 := ⟨fuel - 1, by simp [needS] at hf; omega⟩
      exact parseSenValue_tok f ws kwNull rest _ hws (by decide) (by decide) hr (by simp [tokValue])
  | .bool true, _, d, fuel, ws, rest, hws, hf, hr => by
      obtain ⟨f, rfl⟩ : ∃ f, fuel = f + 1 := ⟨fuel - 1, by simp [needS] at hf; omega⟩
      exact parseSenValue_tok f ws kwTrue rest _ hws (by decide) (by decide) hr (by simp [tokValue, kwTrue, kwNull])
  | .bool false, _, d, fuel, ws, rest, hws, hf, hr => by
      obtain ⟨f, rfl⟩ : ∃ f, fuel = f + 1 := ⟨fuel - 1, by simp [needS] at hf; omega⟩
      exact parseSenValue_tok f ws kwFalse rest _ hws (by decide) (by decide) hr (by simp [tokValue, kwFalse, kwTrue, kwNull])
  | .int i, _, d, fuel, ws, rest, hws, hf, hr => by
      obtain ⟨f, rfl⟩ : ∃ f, fuel = f + 1 := ⟨fuel - 1, by simp [needS] at hf; omega⟩
      have hne : intChars i ≠ [] := by
        obtain ⟨c, tl, h, _⟩ := intChars_head i
        rw [h]; simp
      exact parseSenValue_tok f ws (intChars i) rest _ hws hne (all_num_notDelim _ (intChars_all_num i)) hr
        (tokValue_num _ _ (intChars_head i) (classify_intChars i))
  | .flo t, hj, d, fuel, ws, rest, hws, hf, hr => by
      obtain ⟨f, rfl⟩ : ∃ f, fuel = f + 1 := ⟨fuel - 1, by simp [needS] at hf; omega⟩
      simp only [TextOk] at hj
      obtain ⟨hall, hhead⟩ := validFlo_head _ hj
      have hne : t.toList ≠ [] := by
        obtain ⟨c, tl, h, _⟩ := hhead
        rw [h]; simp
      have := parseSenValue_tok f ws t.toList rest (flo (String.ofList t.toList)) hws hne (all_num_notDelim _ hall) hr
        (tokValue_num _ _ hhead (classify_flo _ hj))
      rw [String_ofList_toList] at this
      exact this
  | .time t, hj, d, fuel, ws, rest, hws, hf, hr => by simp [TextOk] at hj
  | .str s, _, d, fuel, ws, rest, hws, hf, hr => by
      obtain ⟨f, rfl⟩ : ∃ f, fuel = f + 1 := ⟨fuel - 1, by simp [needS] at hf; omega⟩
      simp only [writeV, writeStr, List.cons_append, List.append_assoc, List.nil_append, parseSenValue, skipSep_ws_append _ _ hws]
      rw [skipSep_cons_nonsep _ _ (by decide)]
      simp [readStr_esc]
  | .arr [], _, d, fuel, ws, rest, hws, hf, hr => by
      obtain ⟨f, rfl⟩ : ∃ f, fuel = f + 1 := ⟨fuel - 1, by simp [needS] at hf; omega⟩
      obtain ⟨g, rfl⟩ : ∃ g, f = g + 1 := ⟨f - 1, by simp [needS, needSL] at hf; omega⟩
      simp only [writeV, List.cons_append, List.nil_append, parseSenValue, skipSep_ws_append _ _ hws]
      rw [skipSep_cons_nonsep _ _ (by decide)]
      simp only [show ('[' == '"') = false by decide, show ('[' == '[') = true by decide, Bool.false_eq_true, if_false, if_true,
        parseSenElems]
      rw [skipSep_cons_nonsep _ _ (by decide)]
      simp
  | .arr (x :: xs), hj, d, fuel, ws, rest, hws, hf, hr => by
      obtain ⟨f, rfl⟩ : ∃ f, fuel = f + 1 := ⟨fuel - 1, by simp [needS] at hf; omega⟩
      simp only [TextOk] at hj
      simp only [TextOkL, Bool.and_eq_true] at hj
      have hf' : needSL (x :: xs) ≤ f := by simp only [needS] at hf; omega
      have hE := parseSenItems_writeV lay hl x xs hj.1 hj.2 d f (lay.nl (d + 1)) rest (all_ws_sep _ (hl.1 (d + 1))) hf'
      simp only [writeV, List.cons_append, List.append_assoc, parseSenValue, skipSep_ws_append _ _ hws]
      rw [skipSep_cons_nonsep _ _ (by decide)]
      simp only [show ('[' == '"') = false by decide, show ('[' == '[') = true by decide, Bool.false_eq_true, if_false, if_true]
      try simp only [List.append_assoc] at hE
      simp only [hE]
  | .obj [], _, d, fuel, ws, rest, hws, hf, hr => by
      obtain ⟨f, rfl⟩ : ∃ f, fuel = f + 1 := ⟨fuel - 1, by simp [needS] at hf; omega⟩
      obtain ⟨g, rfl⟩ : ∃ g, f = g + 1 := ⟨f - 1, by simp [needS, needSM] at hf; omega⟩
      simp only [writeV, List.cons_append, List.nil_append, parseSenValue, skipSep_ws_append _ _ hws]
      rw [skipSep_cons_nonsep _ _ (by decide)]
      simp only [show ('{' == '"') = false by decide, show ('{' == '[') = false by decide, show ('{' == '{') = true by decide,
        Bool.false_eq_true, if_false, if_true, parseSenMembers]
      rw [skipSep_cons_nonsep _ _ (by decide)]
      simp [mkMembers]
  | .obj ((k, v) :: kvs), hj, d, fuel, ws, rest, hws, hf, hr => by
      obtain ⟨f, rfl⟩ : ∃ f, fuel = f + 1 := ⟨fuel - 1, by simp [needS] at hf; omega⟩
      simp only [TextOk, Bool.and_eq_true] at hj
      have hj1 := hj.1
      simp only [TextOkM, Bool.and_eq_true] at hj1
      have hf' : needSM ((k, v) :: kvs) ≤ f := by simp only [needS] at hf; omega
      have hE := parseSenPairs_writeV lay hl k v kvs hj1.1 hj1.2 d f (lay.nl (d + 1)) rest (all_ws_sep _ (hl.1 (d + 1))) hf'
      simp only [writeV, List.cons_append, List.append_assoc, parseSenValue, skipSep_ws_append _ _ hws]
      rw [skipSep_cons_nonsep _ _ (by decide)]
      simp only [show ('{' == '"') = false by decide, show ('{' == '[') = false by decide, show ('{' == '{') = true by decide,
        Bool.false_eq_true, if_false, if_true]
      try simp only [List.append_assoc, List.cons_append] at hE
      simp only [hE, mkMembers_of_distinct _ hj.2]
termination_by j => sizeOf j
decreasing_by all_goals (simp_wf; omega)
/-- the items of a non-empty array from its first item on -/
theorem parseSenItems_writeV (lay : Layout) (hl : lay.WsOnly) : (x : J) → (xs : List J) → TextOk x = true → TextOkL xs = true →
    ∀ (d fuel : Nat) (ws rest : List Char), ws.all isSep = true → needSL (x :: xs) ≤ fuel →
    parseSenElems fuel (ws ++ (writeV lay (d + 1) x ++ (writeRestL lay d xs ++ rest))) = .ok (x :: xs, rest)
  | x, [], hx, _, d, fuel, ws, rest, hws, hf => by
      obtain ⟨f, rfl⟩ : ∃ f, fuel = f + 1 := ⟨fuel - 1, by simp [needSL] at hf; omega⟩
      obtain ⟨g, rfl⟩ : ∃ g, f = g + 1 := ⟨f - 1, by simp [needSL] at hf; omega⟩
      have hfx : needS x ≤ g + 1 := by simp only [needSL] at hf; omega
      obtain ⟨c, tl, hc, hcs, hcb⟩ := writeV_head_sen lay (d + 1) x hx
      have hV := parseSenValue_writeV lay hl x hx (d + 1) (g + 1) [] (writeRestL lay d [] ++ rest) (by simp) hfx (RestDelim_writeRestL lay hl d [] rest)
      simp only [List.nil_append, writeRestL, List.append_assoc, List.cons_append] at hV
      simp only [parseSenElems, skipSep_ws_append _ _ hws, writeRestL, List.append_assoc, List.cons_append, List.nil_append]
      rw [hc] at hV ⊢
      simp only [List.cons_append] at hV ⊢
      rw [skipSep_cons_nonsep _ _ hcs]
      simp only [hcb, Bool.false_eq_true, if_false, hV, skipSep_ws_append _ _ (all_ws_sep _ (hl.1 d))]
      rw [skipSep_cons_nonsep _ _ (by decide)]
      simp
  | x, y :: ys, hx, hxs, d, fuel, ws, rest, hws, hf => by
      obtain ⟨f, rfl⟩ : ∃ f, fuel = f + 1 := ⟨fuel - 1, by simp [needSL] at hf; omega⟩
      simp only [TextOkL, Bool.and_eq_true] at hxs
      have hfx : needS x ≤ f := by simp only [needSL] at hf; omega
      have hfr : needSL (y :: ys) ≤ f := by simp only [needSL] at hf ⊢; omega
      obtain ⟨c, tl, hc, hcs, hcb⟩ := writeV_head_sen lay (d + 1) x hx
      have hV := parseSenValue_writeV lay hl x hx (d + 1) f [] (writeRestL lay d (y :: ys) ++ rest) (by simp) hfx (RestDelim_writeRestL lay hl d _ rest)
      have hE := parseSenItems_writeV lay hl y ys hxs.1 hxs.2 d f (',' :: lay.nl (d + 1)) rest (all_sep_comma_nl lay hl (d + 1)) hfr
      simp only [List.nil_append] at hV
      simp only [parseSenElems, skipSep_ws_append _ _ hws]
      rw [hc] at hV ⊢
      simp only [List.cons_append] at hV ⊢
      rw [skipSep_cons_nonsep _ _ hcs]
      simp only [hcb, Bool.false_eq_true, if_false, hV]
      simp only [writeRestL, List.cons_append, List.append_assoc] at hE ⊢
      simp only [hE]
termination_by x xs => sizeOf x + sizeOf xs + 1
decreasing_by all_goals (simp_wf; omega)
/-- the members of a non-empty object from its first member on -/
theorem parseSenPairs_writeV (lay : Layout) (hl : lay.WsOnly) : (k : String) → (v : J) → (kvs : Members) → TextOk v = true → TextOkM kvs = true →
    ∀ (d fuel : Nat) (ws rest : List Char), ws.all isSep = true → needSM ((k, v) :: kvs) ≤ fuel →
    parseSenMembers fuel (ws ++ (writeStr k ++ (':' :: (lay.colon ++ (writeV lay (d + 1) v ++ (writeRestM lay d kvs ++ rest)))))) =
      .ok ((k, v) :: kvs, rest)
  | k, v, [], hv, _, d, fuel, ws, rest, hws, hf => by
      obtain ⟨f, rfl⟩ : ∃ f, fuel = f + 1 := ⟨fuel - 1, by simp [needSM] at hf; omega⟩
      obtain ⟨g, rfl⟩ : ∃ g, f = g + 1 := ⟨f - 1, by simp [needSM] at hf; omega⟩
      have hfx : needS v ≤ g + 1 := by simp only [needSM] at hf; omega
      have hV := parseSenValue_writeV lay hl v hv (d + 1) (g + 1) lay.colon (writeRestM lay d [] ++ rest) (all_ws_sep _ hl.2) hfx (RestDelim_writeRestM lay hl d [] rest)
      simp only [writeRestM, List.append_assoc, List.cons_append, List.nil_append] at hV
      simp only [writeStr, writeRestM, List.cons_append, List.append_assoc, List.nil_append, parseSenMembers, skipSep_ws_append _ _ hws]
      rw [skipSep_cons_nonsep _ _ (by decide)]
      simp only [show ('"' == '}') = false by decide, show ('"' == '"') = true by decide, Bool.false_eq_true, if_false, if_true,
        readStr_esc]
      rw [skipWs_cons_nonws _ _ (by decide)]
      simp only [hV, skipSep_ws_append _ _ (all_ws_sep _ (hl.1 d))]
      rw [skipSep_cons_nonsep _ _ (by decide)]
      simp [String_ofList_toList]
  | k, v, (k2, v2) :: kvs, hv, hkvs, d, fuel, ws, rest, hws, hf => by
      obtain ⟨f, rfl⟩ : ∃ f, fuel = f + 1 := ⟨fuel - 1, by simp [needSM] at hf; omega⟩
      simp only [TextOkM, Bool.and_eq_true] at hkvs
      have hfx : needS v ≤ f := by simp only [needSM] at hf; omega
      have hfr : needSM ((k2, v2) :: kvs) ≤ f := by simp only [needSM] at hf ⊢; omega
      have hV := parseSenValue_writeV lay hl v hv (d + 1) f lay.colon (writeRestM lay d ((k2, v2) :: kvs) ++ rest) (all_ws_sep _ hl.2) hfx (RestDelim_writeRestM lay hl d _ rest)
      have hE := parseSenPairs_writeV lay hl k2 v2 kvs hkvs.1 hkvs.2 d f (',' :: lay.nl (d + 1)) rest (all_sep_comma_nl lay hl (d + 1)) hfr
      simp only [writeStr, List.cons_append, List.append_assoc, List.nil_append, parseSenMembers, skipSep_ws_append _ _ hws]
      rw [skipSep_cons_nonsep _ _ (by decide)]
      simp only [show ('"' == '}') = false by decide, show ('"' == '"') = true by decide, Bool.false_eq_true, if_false, if_true,
        readStr_esc]
      rw [skipWs_cons_nonws _ _ (by decide)]
      simp only [hV]
      simp only [writeRestM, writeStr, List.cons_append, List.append_assoc, List.nil_append] at hE ⊢
      simp only [hE, String_ofList_toList]
termination_by k v kvs => sizeOf v + sizeOf kvs + 1
decreasing_by all_goals (simp_wf; omega)
end

/-! ### fuel for JSON text read as SEN -/

mutual
theorem needS_le_writeV (lay : Layout) : (j : J) → TextOk j = true → ∀ d, needS j + 1 ≤ 2 * (writeV lay d j).length
  | .null, _, d => by simp [needS, writeV]
  | .bool true, _, d => by simp [needS, writeV]
  | .bool false, _, d => by simp [needS, writeV]
  | .int i, _, d => by
      obtain ⟨c, tl, h, _⟩ := intChars_head i
      simp only [needS, writeV, h, List.length_cons]; omega
  | .flo t, hj, d => by
      simp only [TextOk] at hj
      obtain ⟨_, c, tl, h, _⟩ := validFlo_head _ hj
      simp only [needS, writeV, h, List.length_cons]; omega
  | .str s, _, d => by simp only [needS, writeV, writeStr, List.length_cons, List.length_append]; omega
  | .time t, hj, d => by simp [TextOk] at hj
  | .arr [], _, d => by simp [needS, needSL, writeV]
  | .arr (x :: xs), hj, d => by
      simp only [TextOk] at hj
      simp only [TextOkL, Bool.and_eq_true] at hj
      have h1 := needS_le_writeV lay x hj.1 (d + 1)
      have h2 := needSL_le_writeRestL lay xs hj.2 d
      simp only [needS, needSL, writeV, List.length_cons, List.length_append]; omega
  | .obj [], _, d => by simp [needS, needSM, writeV]
  | .obj ((k, v) :: kvs), hj, d => by
      simp only [TextOk, Bool.and_eq_true] at hj
      have hj1 := hj.1
      simp only [TextOkM, Bool.and_eq_true] at hj1
      have h1 := needS_le_writeV lay v hj1.1 (d + 1)
      have h2 := needSM_le_writeRestM lay kvs hj1.2 d
      simp only [needS, needSM, writeV, List.length_cons, List.length_append]; omega
theorem needSL_le_writeRestL (lay : Layout) : (xs : List J) → TextOkL xs = true → ∀ d, needSL xs ≤ 2 * (writeRestL lay d xs).length
  | [], _, d => by simp only [needSL, writeRestL, List.length_append, List.length_cons, List.length_nil]; omega
  | x :: xs, hj, d => by
      simp only [TextOkL, Bool.and_eq_true] at hj
      have h1 := needS_le_writeV lay x hj.1 (d + 1)
      have h2 := needSL_le_writeRestL lay xs hj.2 d
      simp only [needSL, writeRestL, List.length_append, List.length_cons]; omega
theorem needSM_le_writeRestM (lay : Layout) : (kvs : Members) → TextOkM kvs = true → ∀ d, needSM kvs ≤ 2 * (writeRestM lay d kvs).length
  | [], _, d => by simp only [needSM, writeRestM, List.length_append, List.length_cons, List.length_nil]; omega
  | (k, v) :: kvs, hj, d => by
      simp only [TextOkM, Bool.and_eq_true] at hj
      have h1 := needS_le_writeV lay v hj.1 (d + 1)
      have h2 := needSM_le_writeRestM lay kvs hj.2 d
      simp only [needSM, writeRestM, List.length_append, List.length_cons]; omega
end

theorem parseSen_write (lay : Layout) (hl : lay.WsOnly) (j : J) (hj : TextOk j = true) :
    parseSen (write lay j) = .ok j := by
  unfold parseSen write parseSenChars
  simp only [String.toList_ofList]
  have hlen := needS_le_writeV lay j hj 0
  have := parseSenValue_writeV lay hl j hj 0 (2 * (writeV lay 0 j).length + 1) [] [] (by simp) (by omega) RestDelim_nil
  simp only [List.nil_append, List.append_nil] at this
  simp [this, skipSep]

end SlipVerif.Json
