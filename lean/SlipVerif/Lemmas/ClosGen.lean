import SlipVerif.Gen.ClosCode
import SlipVerif.Lemmas.ClosGo
/-
  C12 — what the Go functions translated into Gen/ClosCode.lean compute.  Every proof here is
  re-checked against the code as extracted on this run; the loop inductions live in
  Lemmas/ClosGo.lean, here the generated loop bodies are only simplified to the shapes those
  lemmas expect.
-/
namespace SlipVerif.ClosGo
open SlipVerif.Clos SlipVerif.Gen.ClosCode

/-- `c.Inherits(sc)`: a name comparison along `c.inherit` -/
theorem inherits_eq (g : GClass) (sc : Name) : Inherits g sc = decide (sc ∈ g.inherit) := by
  unfold Inherits Inherits.body
  generalize g.inherit = l
  induction l with
  | nil => simp [Ctl.seq, Ctl.value]
  | cons x xs ih =>
    rw [forRange_cons]
    by_cases h : x = sc
    · simp [h, Ctl.seq, Ctl.value]
    · have h' : ¬ sc = x := fun e => h e.symm
      simpa [h, h'] using ih

/-- `c.Ready()`: the precedence list has been filled -/
theorem ready_eq (g : GClass) : Ready g = decide (g.precedence ≠ []) := by
  unfold Ready Ready.body
  cases g.precedence <;> simp [Ctl.value]

/-- `c.unready()` empties the precedence list and nothing else -/
theorem unready_eq (g : GClass) : (unready.body g).state = { g with precedence := [] } := by
  simp [unready.body, Ctl.state]

/-- mergeSupers, completely: it fails (and empties `inherit`) unless every direct superclass is
    registered and merged; otherwise `inherit` is the direct superclasses in the order written
    followed by theirs (first occurrence kept), `initForms` is filled from the least specific class
    to the most specific one and `precedence` is the class, that list, the base class and t. -/
theorem mergeSupers_spec (H : Heap) (g : GClass) :
    mergeSupers.body H g =
      if g.supers.all (readyIn H) then Ctl.ret (mergedClass H g) true
      else Ctl.ret (failedClass g) false := by
  unfold mergeSupers.body mergedClass failedClass
  simp only []
  -- loop 1: the direct superclasses
  rw [forRange_guard (fun x => H.isNil x || (H.precOf x).length == 0)
      (fun s x => if x ∈ s.inherit then s else { s with inherit := s.inherit ++ [x] })
      (fun s => { s with inherit := [] }) false]
  rotate_left
  · intro x s hb
    simp [hb, Ctl.seq]
  · intro x s hb
    by_cases hi : x ∈ s.inherit
    · right; simp [hb, hi, Ctl.seq, inherits_eq]
    · left; simp [hb, hi, Ctl.seq, inherits_eq]
  · intro s x
    by_cases hi : x ∈ s.inherit <;> simp [hi]
  have hall : (g.supers.all fun x => !(H.isNil x || (H.precOf x).length == 0)) = g.supers.all (readyIn H) := rfl
  rw [hall]
  by_cases hr : g.supers.all (readyIn H) = true
  case neg => simp [hr, Ctl.seq]
  simp only [hr, if_true, Ctl.seq]
  rw [foldl_appendNew g]
  -- loop 2: their lists
  rw [forRange_fold (fun s ic => { s with inherit := appendNew s.inherit (H.inheritOf ic) })]
  rotate_left
  · intro ic s
    left
    rw [forRange_fold (fun s x => if x ∈ s.inherit then s else { s with inherit := s.inherit ++ [x] })]
    · rw [foldl_appendNew g]
    · intro x s
      left
      by_cases hi : x ∈ s.inherit <;> simp [hi, inherits_eq]
  simp only []
  have hfold : ∀ (xs : List Name) (s : GClass),
      xs.foldl (fun s ic => { s with inherit := appendNew s.inherit (H.inheritOf ic) }) s
        = { s with inherit := appendNew s.inherit (xs.flatMap H.inheritOf) } := by
    intro xs
    induction xs with
    | nil => intro s; simp [appendNew]
    | cons x xs ih => intro s; simp [ih, appendNew_append]
  rw [hfold]
  simp only [mergedInherit_eq]
  -- initForms: inherited classes from the least specific one, then the own slots
  have hset : ∀ (l : AList GSlot) (s : GClass),
      forRange l (fun kv_ s => if (kv_.snd.initform != none) = true
          then (Ctl.next { s with initForms := s.initForms.set kv_.snd.name kv_.snd } : Ctl GClass Bool)
          else Ctl.next s) s
        = Ctl.next { s with initForms := l.foldl (fun m kv => setIF m kv.2) s.initForms } := by
    intro l
    induction l with
    | nil => intro s; rfl
    | cons kv l ih =>
      intro s
      rw [forRange_cons]
      by_cases hf : (kv.2.initform != none) = true
      · rw [if_pos hf]
        simp only []
        rw [ih]
        simp only [List.foldl_cons, setIF, if_pos hf]
      · rw [if_neg hf]
        simp only []
        rw [ih]
        simp only [List.foldl_cons, setIF, if_neg hf]
  simp only [hset]
  rw [forRange_fold (fun s k => { s with initForms := (H.slotDefsOf k).foldl (fun m kv => setIF m kv.2) s.initForms })]
  rotate_left
  · intro k s
    left
    rfl
  simp only []
  have hif1 : ∀ (ks : List Name) (s : GClass),
      ks.foldl (fun s k => { s with initForms := (H.slotDefsOf k).foldl (fun m kv => setIF m kv.2) s.initForms }) s
        = { s with initForms := ks.foldl (fun m k => (H.slotDefsOf k).foldl (fun m kv => setIF m kv.2) m) s.initForms } := by
    intro ks
    induction ks with
    | nil => intro s; rfl
    | cons k ks ih => intro s; simp [ih]
  rw [hif1]
  simp only []
  -- precedence
  rw [forRange_fold (fun s ic => { s with precedence := s.precedence ++ [Sym.cls ic] })]
  rotate_left
  · intro ic s
    left
    rfl
  have hprec : ∀ (ks : List Name) (s : GClass),
      ks.foldl (fun s ic => { s with precedence := s.precedence ++ [Sym.cls ic] }) s
        = { s with precedence := s.precedence ++ ks.map Sym.cls } := by
    intro ks
    induction ks with
    | nil => intro s; simp
    | cons k ks ih => intro s; simp [ih]
  rw [hprec]
  clear hfold hset hif1 hprec hall hr
  simp only [precedenceOf, initFormsOf, List.nil_append]
  generalize (decide (0 < g.baseClass.toList.length) &&
      ([Sym.cls g.name] ++ List.map Sym.cls (mergedInherit H g.supers)).getLast? != g.baseClass) = b
  cases b <;> rfl

/-! ## makeClassesReady -/

/-- one merge attempt of the class registered as `sc`: `sc.mergeSupers()` on the object in the table -/
def mergeStep (h : Heap) (sc : Name) : Heap := h.put (mergeSupers.body h (h.getD sc)).state

def mergeOk (h : Heap) (sc : Name) : Bool := (mergeSupers.body h (h.getD sc)).value false

theorem abs_mergeStep {h : Heap} (hn : NodupNames h) {sc : Name} {g : GClass}
    (hg : h.get? sc = some g) (hnr : g.precedence = []) :
    abs (mergeStep h sc) = tryReady (abs h) sc ∧
    (mergeOk h sc = true → nr (abs (mergeStep h sc)) < nr (abs h)) ∧
    (mergeOk h sc = false → abs (mergeStep h sc) = abs h) := by
  have hname : g.name = sc := Heap.get?_name hg
  have hg' : h.get? g.name = some g := by rw [hname]; exact hg
  have hfind : find (abs h) sc = some (absEntry g) := by rw [find_abs, hg]; rfl
  have hinh : (absEntry g).inh = none := by simp [absEntry, absInh, hnr]
  unfold mergeStep mergeOk
  rw [getD_of_get? hg, mergeSupers_spec]
  by_cases hr : g.supers.all (readyIn h) = true
  · simp only [hr, if_true, Ctl.state, Ctl.value]
    have hm : Clos.mergeSupers (abs h) (absEntry g).defn = some (mergedInherit h g.supers) := by
      show Clos.mergeSupers (abs h) (absDef g) = _
      rw [mergeSupers_abs, if_pos hr]
    have htry : tryReady (abs h) sc = setInh (abs h) sc (some (mergedInherit h g.supers)) := by
      unfold tryReady; simp [hfind, hinh, hm]
    have hput : abs (h.put (mergedClass h g)) = setInh (abs h) sc (some (mergedInherit h g.supers)) := by
      rw [abs_put (g := g) (g' := mergedClass h g) hn hg' rfl rfl, hname]
      simp [absInh, mergedClass, precedenceOf_ne_nil]
    refine ⟨by rw [hput, htry], fun _ => ?_, fun hf => by simp at hf⟩
    rw [hput]
    exact nr_setInh_lt sc _ hfind hinh
  · simp only [hr, Ctl.state, Ctl.value]
    have hm : Clos.mergeSupers (abs h) (absEntry g).defn = none := by
      show Clos.mergeSupers (abs h) (absDef g) = _
      rw [mergeSupers_abs, if_neg hr]
    have htry : tryReady (abs h) sc = abs h := by
      unfold tryReady; simp [hfind, hinh, hm]
    have hput : abs (h.put (failedClass g)) = abs h :=
      abs_put_same hg' rfl (by simp [failedClass, absEntry, absDef, absInh, hnr])
    simp only [Bool.false_eq_true, if_false]
    exact ⟨by rw [hput, htry], fun hf => by simp at hf, fun _ => hput⟩

/-- the body of the inner loop of makeClassesReady for one class of the `not` list -/
def roundStep (s : makeClassesReady.St) (sc : Name) : makeClassesReady.St :=
  if Ready (s.heap.getD sc) then s
  else { s with heap := mergeStep s.heap sc, changed := if mergeOk s.heap sc then true else s.changed }

theorem allClasses_mergeStep (h : Heap) (sc : Name) : (mergeStep h sc).allClasses = h.allClasses :=
  allClasses_put _ h

/-- what one round does, seen from the hand model: merge attempts in the order of the `not` list;
    the `changed` flag is raised exactly when the number of classes that are not ready went down -/
theorem round_fold : ∀ (xs : List Name) (s : makeClassesReady.St), NodupNames s.heap →
    (∀ x ∈ xs, x ∈ s.heap.allClasses) →
    abs (xs.foldl roundStep s).heap = xs.foldl tryReady (abs s.heap) ∧
    (xs.foldl roundStep s).heap.allClasses = s.heap.allClasses ∧
    (xs.foldl roundStep s).not_ = s.not_ ∧
    ((xs.foldl roundStep s).changed = false → s.changed = false ∧ abs (xs.foldl roundStep s).heap = abs s.heap) ∧
    ((xs.foldl roundStep s).changed = true → s.changed = true ∨ nr (abs (xs.foldl roundStep s).heap) < nr (abs s.heap))
  | [], s, _, _ => by simp
  | x :: xs, s, hn, hx => by
    have hxs : x ∈ s.heap.allClasses := hx x (by simp)
    obtain ⟨g, hg⟩ := get?_of_mem_allClasses hxs
    simp only [List.foldl_cons]
    -- the first step
    have hstep : NodupNames (roundStep s x).heap ∧ (roundStep s x).heap.allClasses = s.heap.allClasses ∧
        (roundStep s x).not_ = s.not_ ∧ abs (roundStep s x).heap = tryReady (abs s.heap) x ∧
        ((roundStep s x).changed = false → s.changed = false ∧ abs (roundStep s x).heap = abs s.heap) ∧
        ((roundStep s x).changed = true → s.changed = true ∨ nr (abs (roundStep s x).heap) < nr (abs s.heap)) := by
      unfold roundStep
      rw [getD_of_get? hg, ready_eq]
      by_cases hp : g.precedence = []
      · simp only [hp, ne_eq, not_true_eq_false, decide_false, Bool.false_eq_true, if_false]
        obtain ⟨h1, h2, h3⟩ := abs_mergeStep hn hg hp
        refine ⟨by unfold NodupNames; rw [allClasses_mergeStep]; exact hn, allClasses_mergeStep _ _, trivial, h1, ?_, ?_⟩
        · intro hc
          cases hok : mergeOk s.heap x with
          | true => simp [hok] at hc
          | false => simp only [hok, Bool.false_eq_true, if_false] at hc; exact ⟨hc, h3 hok⟩
        · intro hc
          cases hok : mergeOk s.heap x with
          | true => exact Or.inr (h2 hok)
          | false => simp only [hok, Bool.false_eq_true, if_false] at hc; exact Or.inl hc
      · simp only [hp, ne_eq, not_false_eq_true, decide_true, if_true]
        have hfind : find (abs s.heap) x = some (absEntry g) := by rw [find_abs, hg]; rfl
        have htry : tryReady (abs s.heap) x = abs s.heap := by
          unfold tryReady
          simp [hfind, absEntry, absInh, hp]
        exact ⟨hn, trivial, trivial, htry.symm, fun hc => ⟨hc, trivial⟩, fun hc => Or.inl hc⟩
    obtain ⟨hn1, ha1, hnot1, habs1, hf1, ht1⟩ := hstep
    have ih := round_fold xs (roundStep s x) hn1 (fun y hy => by rw [ha1]; exact hx y (by simp [hy]))
    obtain ⟨i1, i2, i3, i4, i5⟩ := ih
    refine ⟨by rw [i1, habs1], by rw [i2, ha1], by rw [i3, hnot1], ?_, ?_⟩
    · intro hc
      obtain ⟨c1, c2⟩ := i4 hc
      obtain ⟨c3, c4⟩ := hf1 c1
      exact ⟨c3, by rw [c2, c4]⟩
    · intro hc
      have hle1 : nr (abs (roundStep s x).heap) ≤ nr (abs s.heap) := by rw [habs1]; exact nr_tryReady_le _ _
      have hle2 : nr (abs (xs.foldl roundStep (roundStep s x)).heap) ≤ nr (abs (roundStep s x).heap) := by
        rw [i1]; exact nr_foldl_le _ _
      rcases i5 hc with c1 | c1
      · rcases ht1 c1 with c2 | c2
        · exact Or.inl c2
        · exact Or.inr (by omega)
      · exact Or.inr (by omega)

/-- the classes makeClassesReady collects first: those of the table that are not ready -/
def notReady (h : Heap) : List Name := h.allClasses.filter (fun c => !(Ready (h.getD c)))

/-- one round of the loop of makeClassesReady -/
def roundOf (s : makeClassesReady.St) : makeClassesReady.St :=
  s.not_.foldl roundStep { s with changed := false }

theorem ready_getD_iff {h : Heap} {c : Name} (hc : c ∈ h.allClasses) :
    Ready (h.getD c) = true ↔ ∃ l, inhOf (abs h) c = some l := by
  obtain ⟨g, hg⟩ := get?_of_mem_allClasses hc
  rw [getD_of_get? hg, ready_eq, inhOf_abs]
  have : readyIn h c = decide (g.precedence ≠ []) := by
    unfold readyIn Heap.isNil Heap.precOf
    cases hp : g.precedence <;> simp [hg, hp]
  rw [this]
  by_cases hp : g.precedence = [] <;> simp [hp]

/-- makeClassesReady, seen from the hand model: the new table is reached from the old one by merge
    attempts (`tryReady`) in some order, and it is a fixed point: no class that is still not ready
    could be merged.  Needs fuel for one round more than there are classes that are not ready. -/
theorem makeClassesReady_spec (fuel : Nat) (h : Heap) (hn : NodupNames h) (hfuel : nr (abs h) < fuel) :
    (∃ cs : List Name, abs (makeClassesReady fuel h) = cs.foldl tryReady (abs h)) ∧
    Fix (abs (makeClassesReady fuel h)) ∧
    NodupNames (makeClassesReady fuel h) ∧ (makeClassesReady fuel h).allClasses = h.allClasses := by
  unfold makeClassesReady makeClassesReady.body
  simp only []
  -- the first loop collects the classes that are not ready
  rw [forRange_fold (fun s c => if Ready (s.heap.getD c) then s else { s with not_ := s.not_ ++ [c] })]
  rotate_left
  · intro c s
    left
    by_cases hr : Ready (s.heap.getD c) = true <;> simp [hr]
  have hcollect : ∀ (xs : List Name) (s : makeClassesReady.St),
      xs.foldl (fun s c => if Ready (s.heap.getD c) then s else { s with not_ := s.not_ ++ [c] }) s
        = { s with not_ := s.not_ ++ xs.filter (fun c => !(Ready (s.heap.getD c))) } := by
    intro xs
    induction xs with
    | nil => intro s; simp
    | cons x xs ih =>
      intro s
      simp only [List.foldl_cons, ih]
      by_cases hr : Ready (s.heap.getD x) = true <;> simp [hr]
  rw [hcollect]
  simp only [List.nil_append, Ctl.seq]
  show _ ∧ _ ∧ _ ∧ _
  by_cases hnot : notReady h = []
  · -- every class is ready
    have hnot' : List.filter (fun c => !Ready (Heap.getD h c)) (Heap.allClasses h) = [] := hnot
    simp only [hnot', List.length_nil, Nat.lt_irrefl, decide_false, Bool.false_eq_true, if_false, Ctl.state]
    refine ⟨⟨[], rfl⟩, ?_, hn, trivial⟩
    intro c e hf hi
    exfalso
    have hc : c ∈ h.allClasses := by rw [← names_abs]; exact find_mem_names hf
    have hmem : c ∉ notReady h := by rw [hnot]; simp
    have hr : Ready (h.getD c) = true := by
      by_cases hr : Ready (h.getD c) = true
      · exact hr
      · exact absurd (List.mem_filter.2 ⟨hc, by simpa using hr⟩) hmem
    obtain ⟨l, hl⟩ := (ready_getD_iff hc).1 hr
    simp [inhOf, hf, hi] at hl
  · have hpos : decide (0 < (List.filter (fun c => !Ready (Heap.getD h c)) (Heap.allClasses h)).length) = true := by
      have : notReady h ≠ [] := hnot
      have := List.length_pos_iff.2 this
      simpa [notReady] using this
    simp only [hpos, if_true]
    -- the rounds
    rw [forEver_eq _ roundOf (fun s => !s.changed)]
    rotate_left
    · intro s
      rw [forRange_fold roundStep]
      · simp only [Ctl.seq, roundOf]
        rfl
      · intro sc s
        left
        unfold roundStep mergeStep mergeOk
        by_cases hr : Ready (s.heap.getD sc) = true
        · simp [hr]
        · simp only [hr, Bool.not_false, if_true, Bool.false_eq_true, if_false]
          cases (mergeSupers.body s.heap (s.heap.getD sc)).value false <;> simp
    obtain ⟨s0, ⟨hn0, hsub0⟩, hrel, hstop, hrun⟩ := iterUntil_spec
      (f := roundOf) (stop := fun s => !s.changed) (m := fun s => nr (abs s.heap))
      (I := fun s => NodupNames s.heap ∧ ∀ x ∈ s.not_, x ∈ s.heap.allClasses)
      (R := fun a b => (∃ cs : List Name, abs b.heap = cs.foldl tryReady (abs a.heap)) ∧ b.heap.allClasses = a.heap.allClasses ∧ b.not_ = a.not_)
      (by
        intro s ⟨hns, hsub⟩
        obtain ⟨h1, h2, h3, _, _⟩ := round_fold s.not_ { s with changed := false } hns hsub
        refine ⟨⟨?_, ?_⟩, ⟨s.not_, h1⟩, h2, h3⟩
        · unfold NodupNames roundOf; rw [h2]; exact hns
        · intro x hx
          unfold roundOf at hx ⊢
          rw [h3] at hx
          rw [h2]; exact hsub x hx)
      (by
        intro a b c ⟨⟨cs1, e1⟩, a1, n1⟩ ⟨⟨cs2, e2⟩, a2, n2⟩
        exact ⟨⟨cs1 ++ cs2, by rw [e2, e1, List.foldl_append]⟩, by rw [a2, a1], by rw [n2, n1]⟩)
      (by
        intro s ⟨hns, hsub⟩ hst
        obtain ⟨_, _, _, _, h5⟩ := round_fold s.not_ { s with changed := false } hns hsub
        have hc : (roundOf s).changed = true := by simpa using hst
        rcases h5 hc with e | e
        · simp at e
        · exact e)
      fuel { heap := h, not_ := notReady h, changed := false }
      ⟨hn, fun x hx => (List.mem_filter.1 hx).1⟩ hfuel
    have hrun' : iterUntil roundOf (fun s => !s.changed) fuel
        { heap := h, not_ := List.filter (fun c => !Ready (Heap.getD h c)) (Heap.allClasses h), changed := false }
        = roundOf s0 := hrun
    rw [hrun']
    simp only [Ctl.state]
    -- the last round changed nothing
    obtain ⟨l1, l2, l3, l4, _⟩ := round_fold s0.not_ { s0 with changed := false } hn0 hsub0
    have hch : (roundOf s0).changed = false := by simpa using hstop
    obtain ⟨_, hsame⟩ := l4 hch
    have hsame' : abs (roundOf s0).heap = abs s0.heap := hsame
    have hfixed : s0.not_.foldl tryReady (abs s0.heap) = abs s0.heap := l1.symm.trans hsame
    -- the state before the last round, relative to the start
    have hrel0 : (∃ cs : List Name, abs s0.heap = cs.foldl tryReady (abs h)) ∧ s0.heap.allClasses = h.allClasses ∧ s0.not_ = notReady h := by
      rcases hrel with e | ⟨r1, r2, r3⟩
      · rw [e]; exact ⟨⟨[], rfl⟩, rfl, rfl⟩
      · exact ⟨r1, r2, r3⟩
    obtain ⟨⟨cs, hcs⟩, hall0, hnot0⟩ := hrel0
    have hall1 : (roundOf s0).heap.allClasses = h.allClasses := by
      have : (roundOf s0).heap.allClasses = s0.heap.allClasses := l2
      rw [this, hall0]
    refine ⟨⟨cs, by rw [hsame', hcs]⟩, ?_, by unfold NodupNames; rw [hall1]; exact hn, hall1⟩
    rw [hsame']
    intro c e hf hi
    have hc : c ∈ h.allClasses := by
      rw [← hall0, ← names_abs]; exact find_mem_names hf
    -- c was not ready at the start either, so it is on the `not` list
    have hcnot : c ∈ s0.not_ := by
      rw [hnot0]
      refine List.mem_filter.2 ⟨hc, ?_⟩
      by_cases hr : Ready (h.getD c) = true
      · exfalso
        obtain ⟨l, hl⟩ := (ready_getD_iff hc).1 hr
        have := inhOf_foldl_tryReady_of_some cs hl
        rw [← hcs] at this
        simp [inhOf, hf, hi] at this
      · simpa using hr
    exact merge_none_of_tryReady_eq hf hi (foldl_fixed _ _ hfixed c hcnot)

/-! ## classChanged -/

/-- what the first loop of classChanged does to one class object -/
def unreadyIf (cc : Name) (g : GClass) : GClass :=
  if g.name != cc && Inherits g cc then (unready.body g).state else g

theorem unreadyIf_name (cc : Name) (g : GClass) : (unreadyIf cc g).name = g.name := by
  unfold unreadyIf
  by_cases h : (g.name != cc && Inherits g cc) = true <;> simp [h, unready_eq]

def unreadyStep (cc : Name) (s : classChanged.St) (c : Name) : classChanged.St :=
  if c != cc && Inherits (s.heap.getD c) cc then
    { s with heap := s.heap.put (unready.body (s.heap.getD c)).state, changed := true }
  else s

theorem getD_name (h : Heap) (c : Name) : (h.getD c).name = c := by
  unfold Heap.getD
  cases hg : h.get? c with
  | none => rfl
  | some g => exact Heap.get?_name hg

theorem getD_map_of_ne {f : GClass → GClass} (hf : ∀ g, (f g).name = g.name) {x : Name}
    (h : Heap) (c : Name) (hc : c ≠ x) :
    Heap.getD (h.map (fun g => if g.name = x then f g else g)) c = Heap.getD h c := by
  unfold Heap.getD
  rw [get?_map_of_ne hf h c hc]

/-- the first loop of classChanged, in closed form: every class other than `cc` that has `cc` on its
    `inherit` list (by name) gets its precedence list emptied; `changed` is raised when there is one -/
theorem unready_fold (cc : Name) : ∀ (xs : List Name) (s : classChanged.St), xs.Nodup → NodupNames s.heap →
    (xs.foldl (unreadyStep cc) s).heap = s.heap.map (fun g => if g.name ∈ xs then unreadyIf cc g else g) ∧
    ((xs.foldl (unreadyStep cc) s).changed = false →
      s.changed = false ∧ ∀ c ∈ xs, (c != cc && Inherits (s.heap.getD c) cc) = false)
  | [], s, _, _ => by simp
  | x :: xs, s, hnd, hn => by
    have hx : x ∉ xs ∧ xs.Nodup := by simpa using hnd
    simp only [List.foldl_cons]
    -- the first step as a map
    have h1 : (unreadyStep cc s x).heap = s.heap.map (fun g => if g.name = x then unreadyIf cc g else g) ∧
        ((unreadyStep cc s x).changed = false → s.changed = false ∧ (x != cc && Inherits (s.heap.getD x) cc) = false) := by
      unfold unreadyStep
      by_cases hc : (x != cc && Inherits (s.heap.getD x) cc) = true
      · simp only [hc, if_true]
        refine ⟨?_, fun h => by simp at h⟩
        rw [put_eq_map (c := x) _ hn (by rw [unready_eq]; exact getD_name _ _)]
        apply List.map_congr_left
        intro g hg
        by_cases hgx : g.name = x
        · have hget : s.heap.getD x = g := by rw [← hgx]; exact getD_of_mem hn hg
          simp only [hgx, if_true]
          unfold unreadyIf
          rw [← hget] at hgx ⊢
          simp [getD_name, hc]
        · simp [hgx]
      · simp only [hc, Bool.false_eq_true, if_false]
        refine ⟨?_, fun h => ⟨h, by simpa using hc⟩⟩
        conv => lhs; rw [← List.map_id s.heap]
        apply List.map_congr_left
        intro g hg
        by_cases hgx : g.name = x
        · have hget : s.heap.getD x = g := by rw [← hgx]; exact getD_of_mem hn hg
          simp only [hgx, if_true, id]
          unfold unreadyIf
          rw [← hget] at hgx ⊢
          simp only [getD_name] at hc ⊢
          simp [hc]
        · simp [hgx]
    obtain ⟨h1a, h1b⟩ := h1
    have hn1 : NodupNames (unreadyStep cc s x).heap := by
      unfold NodupNames Heap.allClasses at hn ⊢
      rw [h1a, List.map_map]
      have : ((fun x => x.name) ∘ fun g => if g.name = x then unreadyIf cc g else g) = fun g : GClass => g.name := by
        funext g
        by_cases hgx : g.name = x <;> simp [hgx, unreadyIf_name]
      rw [this]; exact hn
    obtain ⟨i1, i2⟩ := unready_fold cc xs (unreadyStep cc s x) hx.2 hn1
    refine ⟨?_, ?_⟩
    · rw [i1, h1a, List.map_map]
      apply List.map_congr_left
      intro g _
      by_cases hgx : g.name = x
      · have : g.name ∉ xs := by rw [hgx]; exact hx.1
        simp [hgx, unreadyIf_name, hx.1]
      · simp [hgx]
    · intro hch
      obtain ⟨j1, j2⟩ := i2 hch
      obtain ⟨k1, k2⟩ := h1b j1
      refine ⟨k1, ?_⟩
      intro c hc
      rcases List.mem_cons.1 hc with e | e
      · rw [e]; exact k2
      · have hcx : c ≠ x := fun e' => hx.1 (e' ▸ e)
        have := j2 c e
        rw [h1a, getD_map_of_ne (unreadyIf_name cc) _ _ hcx] at this
        exact this

theorem abs_map_unreadyIf (cc : Name) (h : Heap) :
    abs (h.map (unreadyIf cc)) = invalidateEx (abs h) cc := by
  unfold abs invalidateEx
  rw [List.map_map, List.map_map]
  apply List.map_congr_left
  intro g _
  simp only [Function.comp]
  unfold unreadyIf
  rw [inherits_eq]
  by_cases hp : g.precedence = []
  · -- not ready: nothing to see for the hand model
    by_cases hc : (g.name != cc && decide (cc ∈ g.inherit)) = true
    · simp [hc, unready_eq, absEntry, absInh, absDef, hp]
    · simp [hc, absEntry, absInh, hp]
  · by_cases hn : g.name = cc
    · simp [hn, absEntry, absInh, hp]
    · by_cases hm : cc ∈ g.inherit
      · simp [hn, hm, unready_eq, absEntry, absInh, absDef, hp]
      · simp [hn, hm, absEntry, absInh, hp]

/-- classChanged, seen from the hand model: the classes that have `cc` on their list (other than
    `cc`) are marked not ready, then the readiness loop runs; the result is a fixed point again. -/
theorem classChanged_spec (fuel : Nat) (cc : Name) (h : Heap) (hn : NodupNames h) (hfix : Fix (abs h))
    (hfuel : h.length < fuel) :
    (∃ cs : List Name, abs (classChanged fuel cc h) = cs.foldl tryReady (invalidateEx (abs h) cc)) ∧
    Fix (abs (classChanged fuel cc h)) ∧
    NodupNames (classChanged fuel cc h) ∧ (classChanged fuel cc h).allClasses = h.allClasses := by
  unfold classChanged classChanged.body
  simp only []
  rw [forRange_fold (unreadyStep cc)]
  rotate_left
  · intro c s
    left
    unfold unreadyStep
    by_cases hc : (c != cc && Inherits (s.heap.getD c) cc) = true
    · simp [hc]
    · simp [hc]
  obtain ⟨u1, u2⟩ := unready_fold cc h.allClasses { heap := h, changed := false } hn hn
  have hmap : (h.allClasses.foldl (unreadyStep cc) { heap := h, changed := false }).heap = h.map (unreadyIf cc) := by
    rw [u1]
    apply List.map_congr_left
    intro g hg
    have : g.name ∈ Heap.allClasses h := by
      simp only [Heap.allClasses, List.mem_map]; exact ⟨g, hg, rfl⟩
    simp [this]
  have hall : Heap.allClasses (h.map (unreadyIf cc)) = h.allClasses := by
    simp only [Heap.allClasses, List.map_map]
    apply List.map_congr_left
    intro g _
    simp [unreadyIf_name]
  have hn' : NodupNames (h.map (unreadyIf cc)) := by unfold NodupNames; rw [hall]; exact hn
  simp only [Ctl.seq]
  generalize hs1 : h.allClasses.foldl (unreadyStep cc) { heap := h, changed := false } = s1 at *
  cases hch : s1.changed with
  | true =>
    simp only [if_true, Ctl.state]
    rw [hmap]
    have hlen : nr (abs (h.map (unreadyIf cc))) < fuel := by
      have := nr_le_length (abs (h.map (unreadyIf cc)))
      simp only [abs, List.length_map] at this
      simp only [abs]
      omega
    obtain ⟨⟨cs, m1⟩, m2, m3, m4⟩ := makeClassesReady_spec fuel (h.map (unreadyIf cc)) hn' hlen
    exact ⟨⟨cs, by rw [m1, abs_map_unreadyIf]⟩, m2, m3, by rw [m4, hall]⟩
  | false =>
    simp only [Bool.false_eq_true, if_false, Ctl.state]
    rw [hmap]
    -- nothing was marked: the table is unchanged
    obtain ⟨_, hnone⟩ := u2 hch
    have hid : h.map (unreadyIf cc) = h := by
      conv => rhs; rw [← List.map_id h]
      apply List.map_congr_left
      intro g hg
      have hgm : g.name ∈ Heap.allClasses h := by
        simp only [Heap.allClasses, List.mem_map]; exact ⟨g, hg, rfl⟩
      have := hnone g.name hgm
      simp only [] at this
      rw [getD_of_mem hn hg] at this
      unfold unreadyIf
      simp [this]
    rw [hid]
    refine ⟨⟨[], ?_⟩, hfix, hn, rfl⟩
    rw [← abs_map_unreadyIf, hid]
    rfl

/-! ## typep: StandardObject.IsA / Hierarchy -/

/-- `obj.IsA(class)`: a linear search of the precedence list of the instance's class object -/
theorem isA_eq (T : GClass) (o : GObj) (k : Sym) : IsA T o k = decide (k ∈ T.precedence) := by
  unfold IsA IsA.body
  generalize T.precedence = l
  induction l with
  | nil => simp [Ctl.seq, Ctl.value]
  | cons x xs ih =>
    rw [forRange_cons]
    by_cases h : k = x
    · simp [h, Ctl.seq, Ctl.value]
    · simpa [h] using ih

/-! ## shared-initialize -/

/-- the part of shared-initialize's state that matters: the instance's slots and `nameMap` -/
def siProj (s : sharedInitialize.St) : SI := (s.obj.vars, s.nameMap)

theorem setSlot_eq (T : GClass) (sd : GSlot) (v : Option Val) (o : GObj) :
    (setSlot.body T sd v o).state = { o with vars := setSlotF sd v o.vars } := by
  unfold setSlot.body setSlotF
  by_cases h : sd.classStore = true <;> simp [h, Ctl.state]

/-- pass 1, the slots of one supplied initarg -/
theorem si_inner1 (k : Name) (v : Val) (body : GSlot → sharedInitialize.St → Ctl sharedInitialize.St Nat)
    (hb : ∀ sd s, body sd s = if s.nameMap.has sd.name then Ctl.ret s 2
      else Ctl.next { s with obj := { s.obj with vars := setSlotF sd (some v) s.obj.vars }, nameMap := s.nameMap.set sd.name k }) :
    ∀ (sds : List GSlot) (s : sharedInitialize.St),
      match offerStrict k v sds (siProj s) with
      | none => ∃ s', forRange sds body s = Ctl.ret s' 2
      | some st => ∃ s', forRange sds body s = Ctl.next s' ∧ siProj s' = st := by
  intro sds
  induction sds with
  | nil => intro s; exact ⟨s, rfl, rfl⟩
  | cons sd sds ih =>
    intro s
    rw [forRange_cons, hb]
    unfold offerStrict
    by_cases hh : s.nameMap.has sd.name = true
    · simp only [siProj, hh, if_true]
      exact ⟨s, rfl⟩
    · simp only [siProj, hh, Bool.false_eq_true, if_false]
      exact ih { s with obj := { s.obj with vars := setSlotF sd (some v) s.obj.vars }, nameMap := s.nameMap.set sd.name k }

/-- pass 1 -/
theorem si_pass1 (T : GClass) (body : Name × Val → sharedInitialize.St → Ctl sharedInitialize.St Nat)
    (hb : ∀ kv s, match offerStrict kv.1 kv.2 ((T.initArgs.get? kv.1).getD []) (siProj s) with
      | none => ∃ s', body kv s = Ctl.ret s' 2
      | some st => if ((T.initArgs.get? kv.1).getD []).length == 0 then ∃ s', body kv s = Ctl.ret s' 2
          else ∃ s', body kv s = Ctl.next s' ∧ siProj s' = st) :
    ∀ (args : List (Name × Val)) (s : sharedInitialize.St),
      match passArgs T args (siProj s) with
      | none => ∃ s', forRange args body s = Ctl.ret s' 2
      | some st => ∃ s', forRange args body s = Ctl.next s' ∧ siProj s' = st := by
  intro args
  induction args with
  | nil => intro s; exact ⟨s, rfl, rfl⟩
  | cons kv args ih =>
    intro s
    obtain ⟨k, v⟩ := kv
    rw [forRange_cons]
    unfold passArgs
    have h := hb (k, v) s
    simp only [] at h
    by_cases hl : (((T.initArgs.get? k).getD []).length == 0) = true
    · simp only [hl, if_true]
      cases ho : offerStrict k v ((T.initArgs.get? k).getD []) (siProj s) with
      | none =>
        rw [ho] at h
        obtain ⟨s', hs'⟩ := h
        exact ⟨s', by rw [hs']⟩
      | some st =>
        rw [ho] at h
        simp only [hl, if_true] at h
        obtain ⟨s', hs'⟩ := h
        exact ⟨s', by rw [hs']⟩
    · simp only [hl, Bool.false_eq_true, if_false]
      cases ho : offerStrict k v ((T.initArgs.get? k).getD []) (siProj s) with
      | none =>
        rw [ho] at h
        obtain ⟨s', hs'⟩ := h
        exact ⟨s', by rw [hs']⟩
      | some st =>
        rw [ho] at h
        simp only [hl, Bool.false_eq_true, if_false] at h
        obtain ⟨s', hs', hp⟩ := h
        rw [hs']
        simp only []
        rw [← hp]
        exact ih s'

/-- pass 2, one slot definition: the default form is evaluated once, when first needed -/
def siStep2 (k : Name) (v : Val) (s : sharedInitialize.St) (sd : GSlot) : sharedInitialize.St :=
  if s.nameMap.has sd.name then s
  else
    let val := if s.evaluated then s.value else (if v == nilVal then s.value else v)
    { obj := { s.obj with vars := setSlotF sd (some val) s.obj.vars }, nameMap := s.nameMap.set sd.name k,
      value := val, evaluated := true }

theorem si_inner2 (k : Name) (v : Val) : ∀ (sds : List GSlot) (s : sharedInitialize.St),
    (if s.evaluated then s.value = v else s.value = nilVal) →
    siProj (sds.foldl (siStep2 k v) s) = offer sds k v (siProj s)
  | [], _, _ => rfl
  | sd :: sds, s, hj => by
    simp only [List.foldl_cons, offer]
    have ih := si_inner2 k v sds (siStep2 k v s sd)
    unfold offer at ih
    by_cases hh : s.nameMap.has sd.name = true
    · have e : siStep2 k v s sd = s := by simp [siStep2, hh]
      have e2 : offer1 k v (siProj s) sd = siProj s := by simp [offer1, siProj, hh]
      rw [e] at ih ⊢
      rw [e2]
      exact ih hj
    · have hval : (if s.evaluated then s.value else (if v == nilVal then s.value else v)) = v := by
        by_cases he : s.evaluated = true
        · simp only [he, if_true] at hj ⊢; exact hj
        · simp only [he, Bool.false_eq_true, if_false] at hj ⊢
          by_cases hv : (v == nilVal) = true
          · simp only [hv, if_true]; rw [hj]; exact (beq_iff_eq.1 hv).symm
          · simp [hv]
      have e : siProj (siStep2 k v s sd) = offer1 k v (siProj s) sd := by
        simp only [siStep2, hh, Bool.false_eq_true, if_false, offer1, siProj, hval]
      rw [← e]
      apply ih
      simp only [siStep2, hh, Bool.false_eq_true, if_false, if_true, hval]

/-- pass 3, one entry of the initform table -/
def siStep3 (s : sharedInitialize.St) (kv : Name × GSlot) : sharedInitialize.St :=
  if s.nameMap.has kv.1 then s
  else
    { s with obj := { s.obj with vars := setSlotF kv.2 (some (kv.2.initform.getD nilVal)) s.obj.vars },
             value := kv.2.initform.getD nilVal }

theorem si_pass3 (T : GClass) : ∀ (l : AList GSlot) (s : sharedInitialize.St),
    siProj (l.foldl siStep3 s) =
      l.foldl (fun st kv => if st.2.has kv.1 then st else (setSlotF kv.2 (some (kv.2.initform.getD nilVal)) st.1, st.2)) (siProj s)
  | [], _ => rfl
  | kv :: l, s => by
    simp only [List.foldl_cons]
    rw [si_pass3 T l]
    congr 1
    unfold siStep3 siProj
    by_cases hh : s.nameMap.has kv.1 = true <;> simp [hh]

theorem si_pass2 (T : GClass) : ∀ (dl : List (Name × Val)) (s1 : sharedInitialize.St),
    siProj (dl.foldl (fun s kv => ((T.initArgs.get? kv.1).getD []).foldl (siStep2 kv.1 kv.2)
        { s with value := nilVal, evaluated := false }) s1) =
      dl.foldl (fun st kv => offer ((T.initArgs.get? kv.1).getD []) kv.1 kv.2 st) (siProj s1)
  | [], _ => rfl
  | kv :: dl, s1 => by
    simp only [List.foldl_cons]
    rw [si_pass2 T dl]
    congr 1
    exact si_inner2 kv.1 kv.2 _ _ (by simp)

/-- the three loops put together, for any loop bodies that behave as the pass functions say -/
theorem si_compose (T : GClass) (argMap : AList Val) (s : sharedInitialize.St)
    (B1 : Name × Val → sharedInitialize.St → Ctl sharedInitialize.St Nat)
    (B2 : Name × Val → sharedInitialize.St → Ctl sharedInitialize.St Nat)
    (B3 : Name × GSlot → sharedInitialize.St → Ctl sharedInitialize.St Nat)
    (hb1 : ∀ kv s, ∃ I1 : GSlot → sharedInitialize.St → Ctl sharedInitialize.St Nat,
      B1 kv s = ((if ((T.initArgs.get? kv.1).getD []).length == 0 then Ctl.ret s 2 else Ctl.next s).seq
        fun s => forRange ((T.initArgs.get? kv.1).getD []) I1 s) ∧
      ∀ sd s, I1 sd s = if s.nameMap.has sd.name then Ctl.ret s 2
        else Ctl.next { s with obj := { s.obj with vars := setSlotF sd (some kv.2) s.obj.vars }, nameMap := s.nameMap.set sd.name kv.1 })
    (hb2 : ∀ kv s, B2 kv s = Ctl.next (((T.initArgs.get? kv.1).getD []).foldl (siStep2 kv.1 kv.2)
        { s with value := nilVal, evaluated := false }))
    (hb3 : ∀ kv s, B3 kv s = Ctl.next (siStep3 s kv)) :
    match passArgs T argMap (siProj s) with
    | none => ∃ s', ((forRange argMap B1 s).seq fun s => (forRange T.defaultInitArgs B2 s).seq fun s =>
        (forRange T.initForms B3 s).seq fun s => Ctl.ret s 0) = Ctl.ret s' 2
    | some st1 => ∃ s', ((forRange argMap B1 s).seq fun s => (forRange T.defaultInitArgs B2 s).seq fun s =>
        (forRange T.initForms B3 s).seq fun s => Ctl.ret s 0) = Ctl.ret s' 0 ∧
        siProj s' = passForms T (passDefaults T st1) := by
  have hb1' : ∀ kv s, match offerStrict kv.1 kv.2 ((T.initArgs.get? kv.1).getD []) (siProj s) with
      | none => ∃ s', B1 kv s = Ctl.ret s' 2
      | some st => if ((T.initArgs.get? kv.1).getD []).length == 0 then ∃ s', B1 kv s = Ctl.ret s' 2
          else ∃ s', B1 kv s = Ctl.next s' ∧ siProj s' = st := by
    intro kv s
    obtain ⟨I1, hB, hI1⟩ := hb1 kv s
    rw [hB]
    by_cases hl : (((T.initArgs.get? kv.1).getD []).length == 0) = true
    · have hnil : (T.initArgs.get? kv.1).getD [] = [] := by
        cases h : (T.initArgs.get? kv.1).getD [] with
        | nil => rfl
        | cons a b => simp [h] at hl
      simp only [hnil, offerStrict, List.length_nil, beq_self_eq_true, if_true, Ctl.seq]
      exact ⟨s, rfl⟩
    · simp only [hl, Bool.false_eq_true, if_false, Ctl.seq]
      have hi := si_inner1 kv.1 kv.2 I1 hI1 ((T.initArgs.get? kv.1).getD []) s
      cases ho : offerStrict kv.1 kv.2 ((T.initArgs.get? kv.1).getD []) (siProj s) with
      | none => rw [ho] at hi; exact hi
      | some st => rw [ho] at hi; exact hi
  have h1 := si_pass1 T B1 hb1' argMap s
  cases hp : passArgs T argMap (siProj s) with
  | none =>
    rw [hp] at h1
    obtain ⟨s', hs'⟩ := h1
    exact ⟨s', by rw [hs']; rfl⟩
  | some st1 =>
    rw [hp] at h1
    obtain ⟨s1, hs1, hproj⟩ := h1
    rw [hs1]
    simp only [Ctl.seq]
    rw [forRange_fold (fun s kv => ((T.initArgs.get? kv.1).getD []).foldl (siStep2 kv.1 kv.2)
        { s with value := nilVal, evaluated := false }) B2 (fun kv s => Or.inl (hb2 kv s))]
    simp only []
    rw [forRange_fold siStep3 B3 (fun kv s => Or.inl (hb3 kv s))]
    refine ⟨_, rfl, ?_⟩
    rw [si_pass3 T]
    unfold passForms passDefaults
    congr 1
    rw [← hproj]
    exact si_pass2 T _ s1

/-- shared-initialize in normal form: an error is signalled exactly when pass 1 fails (an initarg
    no slot declares, or a slot reached twice); otherwise the instance's slots are those left by
    the three passes in this order: supplied initargs, default initargs for the slots not filled,
    the initform table for the slots still not filled. -/
theorem sharedInitialize_normal (T : GClass) (argMap : AList Val) (s : sharedInitialize.St) :
    match passArgs T argMap (siProj s) with
    | none => ∃ s', sharedInitialize.body T argMap s = Ctl.ret s' 2
    | some st1 => ∃ s', sharedInitialize.body T argMap s = Ctl.ret s' 0 ∧
        siProj s' = passForms T (passDefaults T st1) := by
  unfold sharedInitialize.body
  refine si_compose T argMap s _ _ _ ?_ ?_ ?_
  · intro kv s
    refine ⟨_, rfl, ?_⟩
    intro sd s
    by_cases hh : s.nameMap.has sd.name = true
    · simp [hh, Ctl.seq]
    · simp [hh, Ctl.seq, setSlot_eq]
  · intro kv s
    rw [forRange_fold (siStep2 kv.1 kv.2)]
    intro sd s
    left
    unfold siStep2
    by_cases hh : s.nameMap.has sd.name = true
    · simp [hh]
    · by_cases he : s.evaluated = true
      · simp [hh, he, Ctl.seq, setSlot_eq]
      · by_cases hv : (kv.2 == nilVal) = true
        · simp [hh, he, hv, Ctl.seq, setSlot_eq]
        · simp [hh, he, hv, Ctl.seq, setSlot_eq]
  · intro kv s
    unfold siStep3
    by_cases hh : s.nameMap.has kv.1 = true
    · simp [hh]
    · by_cases hf : (kv.2.initform == some nilVal) = true
      · have : kv.2.initform = some nilVal := by simpa using hf
        simp [hh, this, Ctl.seq, setSlot_eq]
      · simp [hh, hf, Ctl.seq, setSlot_eq]
