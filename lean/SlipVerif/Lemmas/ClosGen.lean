import SlipVerif.Gen.ClosCode
import SlipVerif.Lemmas.ClosGo
/-
  C12 — what the Go functions translated into Gen/ClosCode.lean compute.  Every proof here is
  re-checked against the code as extracted on this run; the loop inductions live in
  Lemmas/ClosGo.lean, here the generated loop bodies are only simplified to the shapes those
  lemmas expect.
-/
namespace SlipVerif.ClosGo
open SlipVerif.Clos SlipVerif.Gen.ClosCode

/-- `c.Inherits(sc)`: a name comparison along `c.inherit` -/
theorem inherits_eq (g : GClass) (sc : Name) : Inherits g sc = decide (sc ∈ g.inherit) := by
  unfold Inherits Inherits.body
  generalize g.inherit = l
  induction l with
  | nil => simp [Ctl.seq, Ctl.value]
  | cons x xs ih =>
    rw [forRange_cons]
    by_cases h : x = sc
    · simp [h, Ctl.seq, Ctl.value]
    · have h' : ¬ sc = x := fun e => h e.symm
      simpa [h, h'] using ih

/-- `c.Ready()`: the precedence list has been filled -/
theorem ready_eq (g : GClass) : Ready g = decide (g.precedence ≠ []) := by
  unfold Ready Ready.body
  cases g.precedence <;> simp [Ctl.value]

/-- `c.unready()` empties the precedence list and nothing else -/
theorem unready_eq (g : GClass) : (unready.body g).state = { g with precedence := [] } := by
  simp [unready.body, Ctl.state]

/-- mergeSupers, completely: it fails (and empties `inherit`) unless every direct superclass is
    registered and merged; otherwise `inherit` is the direct superclasses in the order written
    followed by theirs (first occurrence kept), `initForms` is filled from the least specific class
    to the most specific one and `precedence` is the class, that list, the base class and t. -/
theorem mergeSupers_spec (H : Heap) (g : GClass) :
    mergeSupers.body H g =
      if g.supers.all (readyIn H) then
        Ctl.ret { g with
          inherit := mergedInherit H g.supers,
          initForms := initFormsOf H g.slotDefs (mergedInherit H g.supers),
          precedence := precedenceOf g (mergedInherit H g.supers) } true
      else Ctl.ret { g with inherit := [] } false := by
  unfold mergeSupers.body
  simp only []
  -- loop 1: the direct superclasses
  rw [forRange_guard (fun x => H.isNil x || (H.precOf x).length == 0)
      (fun s x => if x ∈ s.inherit then s else { s with inherit := s.inherit ++ [x] })
      (fun s => { s with inherit := [] }) false]
  rotate_left
  · intro x s hb
    simp [hb, Ctl.seq]
  · intro x s hb
    by_cases hi : x ∈ s.inherit
    · right; simp [hb, hi, Ctl.seq, inherits_eq]
    · left; simp [hb, hi, Ctl.seq, inherits_eq]
  · intro s x
    by_cases hi : x ∈ s.inherit <;> simp [hi]
  have hall : (g.supers.all fun x => !(H.isNil x || (H.precOf x).length == 0)) = g.supers.all (readyIn H) := rfl
  rw [hall]
  by_cases hr : g.supers.all (readyIn H) = true
  case neg => simp [hr, Ctl.seq]
  simp only [hr, if_true, Ctl.seq]
  rw [foldl_appendNew g]
  -- loop 2: their lists
  rw [forRange_fold (fun s ic => { s with inherit := appendNew s.inherit (H.inheritOf ic) })]
  rotate_left
  · intro ic s
    left
    rw [forRange_fold (fun s x => if x ∈ s.inherit then s else { s with inherit := s.inherit ++ [x] })]
    · rw [foldl_appendNew g]
    · intro x s
      left
      by_cases hi : x ∈ s.inherit <;> simp [hi, inherits_eq]
  simp only []
  have hfold : ∀ (xs : List Name) (s : GClass),
      xs.foldl (fun s ic => { s with inherit := appendNew s.inherit (H.inheritOf ic) }) s
        = { s with inherit := appendNew s.inherit (xs.flatMap H.inheritOf) } := by
    intro xs
    induction xs with
    | nil => intro s; simp [appendNew]
    | cons x xs ih => intro s; simp [ih, appendNew_append]
  rw [hfold]
  simp only [mergedInherit_eq]
  -- initForms: inherited classes from the least specific one, then the own slots
  have hset : ∀ (l : AList GSlot) (s : GClass),
      forRange l (fun kv_ s => if (kv_.snd.initform != none) = true
          then (Ctl.next { s with initForms := s.initForms.set kv_.snd.name kv_.snd } : Ctl GClass Bool)
          else Ctl.next s) s
        = Ctl.next { s with initForms := l.foldl (fun m kv => setIF m kv.2) s.initForms } := by
    intro l
    induction l with
    | nil => intro s; rfl
    | cons kv l ih =>
      intro s
      rw [forRange_cons]
      by_cases hf : (kv.2.initform != none) = true
      · rw [if_pos hf]
        simp only []
        rw [ih]
        simp only [List.foldl_cons, setIF, if_pos hf]
      · rw [if_neg hf]
        simp only []
        rw [ih]
        simp only [List.foldl_cons, setIF, if_neg hf]
  simp only [hset]
  rw [forRange_fold (fun s k => { s with initForms := (H.slotDefsOf k).foldl (fun m kv => setIF m kv.2) s.initForms })]
  rotate_left
  · intro k s
    left
    rfl
  simp only []
  have hif1 : ∀ (ks : List Name) (s : GClass),
      ks.foldl (fun s k => { s with initForms := (H.slotDefsOf k).foldl (fun m kv => setIF m kv.2) s.initForms }) s
        = { s with initForms := ks.foldl (fun m k => (H.slotDefsOf k).foldl (fun m kv => setIF m kv.2) m) s.initForms } := by
    intro ks
    induction ks with
    | nil => intro s; rfl
    | cons k ks ih => intro s; simp [ih]
  rw [hif1]
  simp only []
  -- precedence
  rw [forRange_fold (fun s ic => { s with precedence := s.precedence ++ [Sym.cls ic] })]
  rotate_left
  · intro ic s
    left
    rfl
  have hprec : ∀ (ks : List Name) (s : GClass),
      ks.foldl (fun s ic => { s with precedence := s.precedence ++ [Sym.cls ic] }) s
        = { s with precedence := s.precedence ++ ks.map Sym.cls } := by
    intro ks
    induction ks with
    | nil => intro s; simp
    | cons k ks ih => intro s; simp [ih]
  rw [hprec]
  clear hfold hset hif1 hprec hall hr
  simp only [precedenceOf, initFormsOf, List.nil_append]
  generalize (decide (0 < g.baseClass.toList.length) &&
      ([Sym.cls g.name] ++ List.map Sym.cls (mergedInherit H g.supers)).getLast? != g.baseClass) = b
  cases b <;> rfl
