import SlipVerif.Model.History
import SlipVerif.Lemmas.History
/-
  C20, extension round — lemmas for
  * the call pattern of every operation's file-system steps (`matchPat`, tied to the code by
    Theorems/GenC20.lean through the paths extracted from history.go / stash.go),
  * "an acknowledged entry is not lost": a form that is among the `limit` most recent ones stays in
    the history through any number of Adds, process deaths at any step, restarts.
-/
namespace SlipVerif.History

/-! ## call patterns -/

/-- the name a file has in the code of one method: its own file or the temporary file -/
def stepTok : Step → String
  | .openAppend .tmp => "open:tmp:append"
  | .openAppend _ => "open:file:append"
  | .openTrunc .tmp => "open:tmp:trunc"
  | .openTrunc _ => "open:file:trunc"
  | .write _ _ => "write"
  | .close _ => "close"
  | .rename .tmp .hist => "rename:tmp:file"
  | .rename .tmp .stash => "rename:tmp:file"
  | .rename _ _ => "rename:other"

def isWrite : Step → Bool
  | .write _ _ => true
  | _ => false

/-- does a list of steps follow a call pattern? `"write*"` stands for any number of writes (the loop
over the forms), every other token for exactly one call. -/
def matchPat : List String → List Step → Bool
  | [], [] => true
  | [], _ :: _ => false
  | p :: ps, ss =>
    if p = "write*" then matchPat ps (ss.dropWhile isWrite)
    else match ss with
      | [] => false
      | s :: ss' => stepTok s == p && matchPat ps ss'

/-- the patterns of the model's operations -/
def compactPat : List String := ["open:tmp:trunc", "write*", "close", "rename:tmp:file"]
def appendPat : List String := ["open:file:append", "write", "close"]
def rewritePat : List String := ["open:file:trunc", "write*", "close"]

theorem dropWhile_writeAll (n : Name) (rest : List Step) : ∀ (forms : List Form),
    (writeAll n forms ++ rest).dropWhile isWrite = rest.dropWhile isWrite := by
  intro forms
  induction forms with
  | nil => simp [writeAll]
  | cons f fs ih =>
    have : writeAll n (f :: fs) = Step.write n (tabAppend f) :: writeAll n fs := by simp [writeAll]
    rw [this, List.cons_append, List.dropWhile_cons]
    simp only [isWrite, if_true]
    exact ih

theorem matchPat_compact (kept : List Form) :
    matchPat compactPat (Step.openTrunc .tmp :: (writeAll .tmp kept ++ [Step.close .tmp, Step.rename .tmp .hist])) = true := by
  have h1 : ("open:tmp:trunc" : String) ≠ "write*" := by decide
  have h2 : ("close" : String) ≠ "write*" := by decide
  have h3 : ("rename:tmp:file" : String) ≠ "write*" := by decide
  simp only [compactPat, matchPat, if_neg h1, stepTok, beq_self_eq_true, Bool.true_and, if_true,
    dropWhile_writeAll, List.dropWhile_cons, isWrite, if_neg h2, if_neg h3]
  simp [matchPat]

theorem matchPat_rewrite (n : Name) (hn : n ≠ .tmp) (kept : List Form) :
    matchPat rewritePat (Step.openTrunc n :: (writeAll n kept ++ [Step.close n])) = true := by
  have h1 : ("open:file:trunc" : String) ≠ "write*" := by decide
  have h2 : ("close" : String) ≠ "write*" := by decide
  have ht : stepTok (Step.openTrunc n) = "open:file:trunc" := by cases n <;> simp_all [stepTok]
  simp only [rewritePat, matchPat, if_neg h1, ht, beq_self_eq_true, Bool.true_and, if_true,
    dropWhile_writeAll, List.dropWhile_cons, isWrite, if_neg h2, stepTok]
  simp [matchPat]

theorem matchPat_append (n : Name) (hn : n ≠ .tmp) (d : Content) :
    matchPat appendPat [Step.openAppend n, Step.write n d, Step.close n] = true := by
  have h1 : ("open:file:append" : String) ≠ "write*" := by decide
  have h2 : ("close" : String) ≠ "write*" := by decide
  have h3 : ("write" : String) ≠ "write*" := by decide
  have ht : stepTok (Step.openAppend n) = "open:file:append" := by cases n <;> simp_all [stepTok]
  simp [appendPat, matchPat, if_neg h1, if_neg h2, if_neg h3, ht, stepTok]

/-- every history operation performs no file-system call at all or follows one of three patterns -/
theorem perform_pattern (h : Hist) (o : Op) :
    (perform fixed h o).2 = [] ∨
    (match o with
      | .add _ => matchPat compactPat (perform fixed h o).2 = true ∨ matchPat appendPat (perform fixed h o).2 = true
      | .clear _ _ => matchPat rewritePat (perform fixed h o).2 = true
      | .setLimit _ => False) := by
  cases o with
  | setLimit n => left; simp [perform]
  | clear a b =>
    right
    simp only [perform]
    exact matchPat_rewrite .hist (by decide) _
  | add f =>
    by_cases h1 : h.limit = 0 ∨ isEmptyForm f = true
    · left; simp [perform, h1]
    · by_cases h2 : h.forms.getLast? = some f
      · left; simp [perform, h1, h2]
      · right
        by_cases h3 : h.max ≤ (h.forms ++ [f]).length
        · left
          simp only [perform, if_neg h1, if_neg h2, if_pos h3, openTmp, fixed, if_true]
          exact matchPat_compact _
        · right
          simp only [perform, if_neg h1, if_neg h2, if_neg h3]
          exact matchPat_append .hist (by decide) _

theorem sperform_pattern (forms : List Form) (o : SOp) :
    (sperform forms o).2 = [] ∨
    (match o with
      | .add _ => matchPat appendPat (sperform forms o).2 = true
      | .clear _ _ => matchPat rewritePat (sperform forms o).2 = true) := by
  cases o with
  | clear a b =>
    right
    simp only [sperform]
    exact matchPat_rewrite .stash (by decide) _
  | add f =>
    by_cases h1 : isEmptyForm f = true
    · left; simp [sperform, h1]
    · by_cases h2 : forms.getLast? = some f
      · left; simp [sperform, h1, h2]
      · right
        simp only [sperform, if_neg h1, if_neg h2]
        exact matchPat_append .stash (by decide) _

/-! ## an acknowledged entry is not lost -/

/-- events without a `Clear` (completed or interrupted) -/
def NoClear : Event → Prop
  | .op (.clear _ _) => False
  | .crash (.clear _ _) _ _ => False
  | _ => True

/-- every limit an event puts into effect is `L` -/
def LimitIs (L : Nat) : Event → Prop
  | .op (.setLimit n) => n = L
  | .op _ => True
  | .crash _ _ l => l = L
  | .restart l => l = L

/-- the number of events that hand a form to `Add` (completed or interrupted) -/
def addCount : List Event → Nat
  | [] => 0
  | .op (.add _) :: es => addCount es + 1
  | .crash (.add _) _ _ :: es => addCount es + 1
  | _ :: es => addCount es

/-- `g` is in the list with at most `d` forms after it -/
def Within (g : Form) (d : Nat) (forms : List Form) : Prop :=
  ∃ pre suf, forms = pre ++ g :: suf ∧ suf.length ≤ d

theorem Within.mem {g : Form} {d : Nat} {forms : List Form} (h : Within g d forms) : g ∈ forms := by
  obtain ⟨pre, suf, rfl, _⟩ := h; simp

theorem Within.mono {g : Form} {d d' : Nat} {forms : List Form} (h : Within g d forms) (hd : d ≤ d') :
    Within g d' forms := by
  obtain ⟨pre, suf, e, hl⟩ := h; exact ⟨pre, suf, e, Nat.le_trans hl hd⟩

theorem within_last (forms : List Form) (g : Form) (h : forms.getLast? = some g) : Within g 0 forms := by
  rcases List.eq_nil_or_concat forms with rfl | ⟨pre, b, rfl⟩
  · simp at h
  · simp at h; subst h; exact ⟨pre, [], by simp, by simp⟩

/-- one `Add`: a form with `d` forms after it has at most `d + 1` after it afterwards, provided it is
still among the `limit` most recent -/
theorem perform_add_within (cfg : Cfg) (h : Hist) (f g : Form) (d : Nat)
    (hw : Within g d h.forms) (hd : d + 1 < h.limit) :
    Within g (d + 1) (perform cfg h (.add f)).1.forms := by
  obtain ⟨pre, suf, e, hl⟩ := hw
  by_cases h1 : h.limit = 0 ∨ isEmptyForm f = true
  · simp only [perform, if_pos h1]; exact ⟨pre, suf, e, by omega⟩
  · by_cases h2 : h.forms.getLast? = some f
    · simp only [perform, if_neg h1, if_pos h2]; exact ⟨pre, suf, e, by omega⟩
    · by_cases h3 : h.max ≤ (h.forms ++ [f]).length
      · simp only [perform, if_neg h1, if_neg h2, if_pos h3, keepRecent]
        refine ⟨pre.drop ((h.forms ++ [f]).length - h.limit), suf ++ [f], ?_, by simp; omega⟩
        have hle : (h.forms ++ [f]).length - h.limit ≤ pre.length := by
          rw [e]; simp only [List.length_append, List.length_cons, List.length_nil]; omega
        have : h.forms ++ [f] = pre ++ (g :: (suf ++ [f])) := by rw [e]; simp
        generalize (h.forms ++ [f]).length - h.limit = n at hle ⊢
        rw [this, List.drop_append_of_le_length hle]
      · simp only [perform, if_neg h1, if_neg h2, if_neg h3]
        exact ⟨pre, suf ++ [f], by rw [e]; simp, by simp; omega⟩

/-- a completed `Add` of a form that `Add` does not skip leaves it as the most recent entry -/
theorem perform_add_last (cfg : Cfg) (h : Hist) (f : Form) (hl : h.limit ≠ 0) (hf : isEmptyForm f = false) :
    (perform cfg h (.add f)).1.forms.getLast? = some f := by
  rcases perform_add cfg h f with e | ⟨_, hlast, _⟩
  · have h1 : ¬ (h.limit = 0 ∨ isEmptyForm f = true) := by simp [hl, hf]
    by_cases h2 : h.forms.getLast? = some f
    · rw [e]; exact h2
    · exfalso
      by_cases h3 : h.max ≤ (h.forms ++ [f]).length
      · simp only [perform, if_neg h1, if_neg h2, if_pos h3] at e
        have hlen := congrArg List.length e
        have hm : h.limit ≤ h.max := by unfold Hist.max; omega
        simp only [keepRecent, List.length_drop, List.length_append, List.length_cons, List.length_nil] at hlen h3
        -- kept ends with f, forms does not: compare the last elements
        have hk : (keepRecent h.limit (h.forms ++ [f])).getLast? = some f := by
          unfold keepRecent
          rw [List.getLast?_drop]
          simp only [List.length_append, List.length_cons, List.length_nil]
          have : ¬ (h.forms.length + 1 ≤ h.forms.length + 1 - h.limit) := by omega
          simp [this]
        rw [e] at hk
        exact h2 hk
      · simp only [perform, if_neg h1, if_neg h2, if_neg h3] at e
        have := congrArg List.length e
        simp at this
  · exact hlast

theorem storable_not_empty (f : Form) (h : storable f = true) : isEmptyForm f = false := by
  have hs := storable_spec f h
  cases hf : isEmptyForm f with
  | false => rfl
  | true =>
    exfalso
    unfold storable at h
    simp only [Bool.and_eq_true] at h
    obtain ⟨⟨_, hh⟩, _⟩ := h
    unfold headOK at hh
    match f, hh, hf with
    | (c :: cs) :: rest, hh, hf =>
      simp only [isEmptyForm, List.all_cons, Bool.and_eq_true, beq_iff_eq] at hf
      have : c = ' ' := hf.1.1
      subst this
      simp [isSpace] at hh

/-- one event (no `Clear`, limit `L` throughout): the distance from the end grows by at most one,
and only for an event that carries an `Add` -/
theorem event_within (L : Nat) (w : World) (hinv : Inv w) (hlim : w.mem.limit = L) (e : Event) (he : EventOK e)
    (hnc : NoClear e) (hL : LimitIs L e) (g : Form) (d : Nat) (hw : Within g d w.mem.forms)
    (hd : d + addCount [e] < L) :
    Within g (d + addCount [e]) (w.apply fixed e).mem.forms ∧ (w.apply fixed e).mem.limit = L := by
  cases e with
  | restart l =>
    simp only [World.apply, boot, addCount, Nat.add_zero]
    rw [hinv.sync]
    exact ⟨hw, hL⟩
  | op o =>
    cases o with
    | clear a b => exact absurd hnc (by simp [NoClear])
    | setLimit n =>
      simp only [World.apply, perform, addCount, Nat.add_zero]
      exact ⟨hw, hL⟩
    | add f =>
      simp only [addCount] at hd ⊢
      refine ⟨perform_add_within fixed w.mem f g d hw (by rw [hlim]; omega), ?_⟩
      simp only [World.apply]
      have : (perform fixed w.mem (.add f)).1.limit = w.mem.limit := perform_limit fixed w.mem (.add f)
      rw [this, hlim]
  | crash o k l =>
    have hl : l = L := hL
    obtain ⟨_, hload, _⟩ := op_crash w hinv o he k
    cases o with
    | clear a b => exact absurd hnc (by simp [NoClear])
    | setLimit n =>
      simp only [World.apply, boot, perform, crashAt_nil, addCount, Nat.add_zero]
      rw [hinv.sync]
      exact ⟨hw, hl⟩
    | add f =>
      simp only [addCount] at hd ⊢
      simp only [World.apply, boot]
      refine ⟨?_, hl⟩
      rcases hload with h | h | ⟨hc, _⟩
      · rw [h]; exact hw.mono (by omega)
      · rw [h]; exact perform_add_within fixed w.mem f g d hw (by rw [hlim]; omega)
      · exact absurd hc (by simp [isClear])

theorem addCount_cons (e : Event) (es : List Event) : addCount (e :: es) = addCount [e] + addCount es := by
  cases e with
  | restart l => simp [addCount]
  | op o => cases o <;> simp [addCount] <;> omega
  | crash o k l => cases o <;> simp [addCount] <;> omega

theorem run_within (L : Nat) (g : Form) (evs : List Event) : ∀ (w : World) (d : Nat), Inv w → w.mem.limit = L →
    (∀ e ∈ evs, EventOK e) → (∀ e ∈ evs, NoClear e) → (∀ e ∈ evs, LimitIs L e) →
    Within g d w.mem.forms → d + addCount evs < L →
    Within g (d + addCount evs) (w.run fixed evs).mem.forms := by
  induction evs with
  | nil => intro w d _ _ _ _ _ hw _; simpa [World.run, addCount] using hw
  | cons e evs ih =>
    intro w d hinv hlim hok hnc hL hw hd
    rw [addCount_cons] at hd ⊢
    have he := hok e (by simp)
    obtain ⟨h1, h2⟩ := event_within L w hinv hlim e he (hnc e (by simp)) (hL e (by simp)) g d hw (by omega)
    have hinv' := event_inv w hinv e he
    have := ih (w.apply fixed e) (d + addCount [e]) hinv' h2 (fun e' h => hok e' (by simp [h]))
      (fun e' h => hnc e' (by simp [h])) (fun e' h => hL e' (by simp [h])) h1 (by omega)
    have hr : World.run fixed w (e :: evs) = World.run fixed (w.apply fixed e) evs := by simp [World.run]
    rw [hr, ← Nat.add_assoc]
    exact this

end SlipVerif.History
