import SlipVerif.Model.JsonText
import SlipVerif.Lemmas.JsonLisp
/-
  Helper lemmas for Theorems/C18: the model parser reads back what the model writer wrote.
-/
namespace SlipVerif.Json
open J

/-! ### characters -/

theorem isDig_digitChar (n : Nat) : isDig (digitChar n) = true := by
  have h : n % 10 < 10 := Nat.mod_lt _ (by decide)
  have hv : (48 + n % 10).isValidChar := by
    left; omega
  simp [isDig, digitChar, Char.ofNat, hv, Char.ofNatAux, Char.toNat]
  omega

theorem digitVal_digitChar (n : Nat) : digitVal (digitChar n) = n % 10 := by
  have h : n % 10 < 10 := Nat.mod_lt _ (by decide)
  have hv : (48 + n % 10).isValidChar := by
    left; omega
  simp [digitVal, digitChar, Char.ofNat, hv, Char.ofNatAux, Char.toNat]
  omega

theorem natDigits_all_dig (n : Nat) : (natDigits n).all isDig = true := by
  induction n using Nat.strongRecOn with
  | _ n ih =>
    rw [natDigits]
    split
    · simp [isDig_digitChar]
    · rename_i h
      simp [isDig_digitChar, ih (n / 10) (by omega)]

theorem natDigits_ne_nil (n : Nat) : natDigits n ≠ [] := by
  rw [natDigits]
  split <;> simp

theorem natOfDigits_append (a b : List Char) :
    natOfDigits (a ++ b) = b.foldl (fun a c => a * 10 + digitVal c) (natOfDigits a) := by
  simp [natOfDigits, List.foldl_append]

theorem natOfDigits_natDigits (n : Nat) : natOfDigits (natDigits n) = n := by
  induction n using Nat.strongRecOn with
  | _ n ih =>
    rw [natDigits]
    split
    · rename_i h
      simp [natOfDigits, digitVal_digitChar]
      omega
    · rename_i h
      rw [natOfDigits_append, ih (n / 10) (by omega)]
      simp [digitVal_digitChar]
      omega

end SlipVerif.Json

namespace SlipVerif.Json
open J

/-! ### number tokens -/

/-- what follows a number must not continue it -/
def RestOk (rest : List Char) : Prop := ∀ c tl, rest = c :: tl → isNumChar c = false

theorem RestOk_nil : RestOk [] := by intro c tl h; cases h

theorem RestOk_cons (c : Char) (tl : List Char) (h : isNumChar c = false) : RestOk (c :: tl) := by
  intro c' tl' e; cases e; exact h

theorem spanNum_append (tok rest : List Char) (h : tok.all isNumChar = true) (hr : RestOk rest) :
    spanNum (tok ++ rest) = (tok, rest) := by
  induction tok with
  | nil =>
    cases rest with
    | nil => simp [spanNum]
    | cons c tl => simp [spanNum, hr c tl rfl]
  | cons c tok ih =>
    simp only [List.all_cons, Bool.and_eq_true] at h
    simp [spanNum, h.1, ih h.2]

theorem isDig_isNumChar (c : Char) (h : isDig c = true) : isNumChar c = true := by
  simp [isNumChar, h]

theorem isDig_toNat (c : Char) (h : isDig c = true) : 48 ≤ c.toNat ∧ c.toNat ≤ 57 := by
  simpa [isDig] using h

theorem isDig_ne (c : Char) (h : isDig c = true) (d : Char) (hd : d.toNat < 48 ∨ 57 < d.toNat) : (c == d) = false := by
  have := isDig_toNat c h
  apply Bool.eq_false_iff.mpr
  intro e
  have e' : c = d := by simpa using e
  subst e'
  omega

theorem all_isDig_isNumChar (cs : List Char) (h : cs.all isDig = true) : cs.all isNumChar = true := by
  simp only [List.all_eq_true] at h ⊢
  intro c hc; exact isDig_isNumChar c (h c hc)

theorem intChars_all_num (i : Int) : (intChars i).all isNumChar = true := by
  cases i with
  | ofNat n => exact all_isDig_isNumChar _ (natDigits_all_dig n)
  | negSucc n =>
    simp only [intChars, List.all_cons, Bool.and_eq_true]
    exact ⟨by decide, all_isDig_isNumChar _ (natDigits_all_dig _)⟩

theorem classify_intChars (i : Int) : classify (intChars i) = .ok (int i) := by
  cases i with
  | ofNat n =>
    simp only [intChars]
    have hall := natDigits_all_dig n
    cases hd : natDigits n with
    | nil => exact absurd hd (natDigits_ne_nil n)
    | cons c ds =>
      rw [hd] at hall
      have hc : isDig c = true := by simp only [List.all_cons, Bool.and_eq_true] at hall; exact hall.1
      have hne : (c == '-') = false := isDig_ne c hc '-' (Or.inl (by decide))
      simp only [classify, hne, hall]
      have := natOfDigits_natDigits n
      rw [hd] at this
      simp [this]
  | negSucc n =>
    simp only [intChars, classify]
    have hall := natDigits_all_dig (n + 1)
    have hne : (natDigits (n + 1)).isEmpty = false := by
      cases hd : natDigits (n + 1) with
      | nil => exact absurd hd (natDigits_ne_nil _)
      | cons _ _ => rfl
    have hnv := natOfDigits_natDigits (n + 1)
    simp [hall, hne, hnv, Int.negSucc_eq]

end SlipVerif.Json

namespace SlipVerif.Json
open J

/-! ### strings -/

theorem hexVal_hexDigit_fin : ∀ m : Fin 16, hexVal (hexDigit m.val) = some m.val := by decide

theorem hexDigit_mod (d : Nat) : hexDigit d = hexDigit (d % 16) := by
  simp [hexDigit, Nat.mod_mod]

theorem hexVal_hexDigit (d : Nat) : hexVal (hexDigit d) = some (d % 16) := by
  rw [hexDigit_mod]
  exact hexVal_hexDigit_fin ⟨d % 16, Nat.mod_lt _ (by decide)⟩

theorem readStrS_escChar (c : Char) (tail s' rest : List Char) (h : readStrS .norm tail = .ok (s', rest)) :
    readStrS .norm (escChar c ++ tail) = .ok (c :: s', rest) := by
  unfold escChar
  by_cases h1 : c = '"'
  · subst h1; simp [readStrS, unesc, h, consChar]
  by_cases h2 : c = '\\'
  · subst h2; simp [readStrS, unesc, h, consChar]
  by_cases h3 : c = '\n'
  · subst h3; simp [readStrS, unesc, h, consChar]
  by_cases h4 : c = '\t'
  · subst h4; simp [readStrS, unesc, h, consChar]
  by_cases h5 : c = '\r'
  · subst h5; simp [readStrS, unesc, h, consChar]
  have b1 : (c == '"') = false := by simpa using h1
  have b2 : (c == '\\') = false := by simpa using h2
  have b3 : (c == '\n') = false := by simpa using h3
  have b4 : (c == '\t') = false := by simpa using h4
  have b5 : (c == '\r') = false := by simpa using h5
  by_cases h6 : c.toNat < 32
  · simp only [b1, b2, b3, b4, b5, h6, Bool.false_eq_true, if_false, if_true, hex4, List.cons_append, List.nil_append]
    have e1 : c.toNat / 4096 % 16 = 0 := by omega
    have e2 : c.toNat / 256 % 16 = 0 := by omega
    have e3 : c.toNat / 16 % 16 * 16 + c.toNat % 16 = c.toNat := by omega
    have hlt : c.toNat < 55296 ∨ 57343 < c.toNat := Or.inl (by omega)
    simp [readStrS, hexVal_hexDigit, e1, e2, e3, hlt, h, consChar, Char.ofNat_toNat]
  · simp only [b1, b2, b3, b4, b5, h6, Bool.false_eq_true, if_false, List.cons_append, List.nil_append]
    simp [readStrS, b1, b2, h, consChar]

theorem readStr_esc (s rest : List Char) :
    readStr (s.flatMap escChar ++ '"' :: rest) = .ok (s, rest) := by
  unfold readStr
  induction s with
  | nil => simp [readStrS]
  | cons c s ih =>
    simp only [List.flatMap_cons, List.append_assoc]
    exact readStrS_escChar c _ s rest ih

end SlipVerif.Json

namespace SlipVerif.Json
open J

/-! ### white space -/

def Layout.WsOnly (lay : Layout) : Prop := (∀ d, (lay.nl d).all isWs = true) ∧ lay.colon.all isWs = true

theorem Layout.compact_wsOnly : Layout.compact.WsOnly := by
  constructor <;> simp [Layout.compact]

theorem Layout.indent_wsOnly (n : Nat) : (Layout.indent n).WsOnly := by
  constructor
  · intro d
    simp only [Layout.indent, List.all_cons, List.all_replicate, Bool.and_eq_true]
    refine ⟨by decide, ?_⟩
    simp
    right; decide
  · simp [Layout.indent]; decide

theorem skipWs_ws_append (ws cs : List Char) (h : ws.all isWs = true) : skipWs (ws ++ cs) = skipWs cs := by
  induction ws with
  | nil => rfl
  | cons c ws ih =>
    simp only [List.all_cons, Bool.and_eq_true] at h
    simp [skipWs, h.1, ih h.2]

theorem skipWs_cons_nonws (c : Char) (cs : List Char) (h : isWs c = false) : skipWs (c :: cs) = c :: cs := by
  simp [skipWs, h]

theorem isWs_not_num (c : Char) (h : isWs c = true) : isNumChar c = false := by
  simp only [isWs, Bool.or_eq_true, beq_iff_eq] at h
  rcases h with ((h | h) | h) | h <;> subst h <;> decide

/-- the number branch of `parseValue` -/
theorem parseValue_num (fuel : Nat) (ws tok rest : List Char) (j : J) (hws : ws.all isWs = true)
    (htok : tok.all isNumChar = true)
    (hhead : ∃ c tl, tok = c :: tl ∧ (isDig c = true ∨ c = '-'))
    (hr : RestOk rest) (hc : classify tok = .ok j) :
    parseValue (fuel + 1) (ws ++ (tok ++ rest)) = .ok (j, rest) := by
  obtain ⟨c, tl, rfl, hcd⟩ := hhead
  have hnum : isNumChar c = true := by simp only [List.all_cons, Bool.and_eq_true] at htok; exact htok.1
  have hnws : isWs c = false := by
    cases hw : isWs c with
    | false => rfl
    | true => rw [isWs_not_num c hw] at hnum; cases hnum
  have hsp := spanNum_append (c :: tl) rest htok hr
  have hne : (c == 'n') = false ∧ (c == 't') = false ∧ (c == 'f') = false ∧ (c == '"') = false ∧ (c == '[') = false ∧ (c == '{') = false := by
    rcases hcd with hd | rfl
    · exact ⟨isDig_ne c hd _ (Or.inr (by decide)), isDig_ne c hd _ (Or.inr (by decide)), isDig_ne c hd _ (Or.inr (by decide)),
        isDig_ne c hd _ (Or.inl (by decide)), isDig_ne c hd _ (Or.inr (by decide)), isDig_ne c hd _ (Or.inr (by decide))⟩
    · decide
  obtain ⟨n1, n2, n3, n4, n5, n6⟩ := hne
  simp only [parseValue, skipWs_ws_append _ _ hws, List.cons_append, skipWs_cons_nonws c _ hnws]
  simp only [n1, n2, n3, n4, n5, n6, Bool.false_eq_true, if_false, hnum, if_true]
  simp only [List.cons_append] at hsp
  rw [hsp]
  simp [hc]

end SlipVerif.Json

namespace SlipVerif.Json
open J

theorem isFloMark_not_dig (c : Char) (h : isFloMark c = true) : isDig c = false := by
  simp only [isFloMark, Bool.or_eq_true, beq_iff_eq] at h
  rcases h with (h | h) | h <;> subst h <;> decide

theorem any_floMark_not_all_dig (cs : List Char) (h : cs.any isFloMark = true) : cs.all isDig = false := by
  simp only [List.any_eq_true] at h
  obtain ⟨m, hm, hf⟩ := h
  apply Bool.eq_false_iff.mpr
  intro hall
  simp only [List.all_eq_true] at hall
  have := hall m hm
  rw [isFloMark_not_dig m hf] at this
  cases this

theorem classify_flo (t : List Char) (h : validFlo t = true) : classify t = .ok (flo (String.ofList t)) := by
  have h' := h
  simp only [validFlo, Bool.and_eq_true] at h'
  obtain ⟨⟨_, hany⟩, hhead⟩ := h'
  cases t with
  | nil => simp at hhead
  | cons c ds =>
    simp only [classify]
    by_cases hc : (c == '-') = true
    · have hcm : isFloMark c = false := by
        have : c = '-' := by simpa using hc
        subst this; decide
      have hds : ds.any isFloMark = true := by simpa [List.any_cons, hcm] using hany
      simp [hc, any_floMark_not_all_dig ds hds, h]
    · have hc' : (c == '-') = false := by simpa using hc
      simp [hc', any_floMark_not_all_dig (c :: ds) hany, h]

theorem validFlo_head (t : List Char) (h : validFlo t = true) :
    t.all isNumChar = true ∧ ∃ c tl, t = c :: tl ∧ (isDig c = true ∨ c = '-') := by
  simp only [validFlo, Bool.and_eq_true] at h
  obtain ⟨⟨hall, _⟩, hhead⟩ := h
  refine ⟨hall, ?_⟩
  cases t with
  | nil => simp at hhead
  | cons c tl =>
    refine ⟨c, tl, rfl, ?_⟩
    simpa using hhead

theorem intChars_head (i : Int) : ∃ c tl, intChars i = c :: tl ∧ (isDig c = true ∨ c = '-') := by
  cases i with
  | ofNat n =>
    simp only [intChars]
    have hall := natDigits_all_dig n
    cases hd : natDigits n with
    | nil => exact absurd hd (natDigits_ne_nil n)
    | cons c ds =>
      rw [hd] at hall
      simp only [List.all_cons, Bool.and_eq_true] at hall
      exact ⟨c, ds, rfl, Or.inl hall.1⟩
  | negSucc n => exact ⟨'-', _, rfl, Or.inr rfl⟩

end SlipVerif.Json

namespace SlipVerif.Json
open J

/-! ### the documents the text round trip is stated for, and the fuel they need -/

mutual
/-- float tokens are number tokens with a point or exponent; object keys are unique -/
def TextOk : J → Bool
  | flo t => validFlo t.toList
  | .time _ => false
  | arr xs => TextOkL xs
  | obj kvs => TextOkM kvs && distinctKeys (keys kvs)
  | _ => true
def TextOkL : List J → Bool
  | [] => true
  | x :: xs => TextOk x && TextOkL xs
def TextOkM : Members → Bool
  | [] => true
  | (_, v) :: kvs => TextOk v && TextOkM kvs
end

mutual
def need : J → Nat
  | arr xs => 1 + needL xs
  | obj kvs => 1 + needM kvs
  | _ => 1
def needL : List J → Nat
  | [] => 0
  | x :: xs => 1 + need x + needL xs
def needM : Members → Nat
  | [] => 0
  | (_, v) :: kvs => 1 + need v + needM kvs
end

def writeItemsL (lay : Layout) (d : Nat) : List J → List Char
  | [] => []
  | x :: xs => writeV lay (d + 1) x ++ writeRestL lay d xs

def writeItemsM (lay : Layout) (d : Nat) : Members → List Char
  | [] => []
  | (k, v) :: kvs => writeStr k ++ (':' :: (lay.colon ++ (writeV lay (d + 1) v ++ writeRestM lay d kvs)))

theorem RestOk_ws_then (ws : List Char) (c : Char) (tl : List Char) (hws : ws.all isWs = true)
    (hc : isNumChar c = false) : RestOk (ws ++ c :: tl) := by
  cases ws with
  | nil => exact RestOk_cons c tl hc
  | cons w ws =>
    simp only [List.all_cons, Bool.and_eq_true] at hws
    exact RestOk_cons w _ (isWs_not_num w hws.1)

theorem RestOk_writeRestL (lay : Layout) (hl : lay.WsOnly) (d : Nat) (xs : List J) (rest : List Char) :
    RestOk (writeRestL lay d xs ++ rest) := by
  cases xs with
  | nil =>
    simp only [writeRestL, List.append_assoc, List.cons_append, List.nil_append]
    exact RestOk_ws_then _ _ _ (hl.1 d) (by decide)
  | cons y ys => simp only [writeRestL, List.cons_append]; exact RestOk_cons _ _ (by decide)

theorem RestOk_writeRestM (lay : Layout) (hl : lay.WsOnly) (d : Nat) (kvs : Members) (rest : List Char) :
    RestOk (writeRestM lay d kvs ++ rest) := by
  cases kvs with
  | nil =>
    simp only [writeRestM, List.append_assoc, List.cons_append, List.nil_append]
    exact RestOk_ws_then _ _ _ (hl.1 d) (by decide)
  | cons kv kvs => obtain ⟨k, v⟩ := kv; simp only [writeRestM, List.cons_append]; exact RestOk_cons _ _ (by decide)

/-- every written value starts with a character that is neither white space nor a closing
    bracket -/
theorem writeV_head (lay : Layout) (d : Nat) (j : J) (hj : TextOk j = true) :
    ∃ c tl, writeV lay d j = c :: tl ∧ isWs c = false ∧ c ≠ ']' ∧ c ≠ '}' := by
  have hnum : ∀ c, (isDig c = true ∨ c = '-') → isWs c = false ∧ c ≠ ']' ∧ c ≠ '}' := by
    intro c hc
    rcases hc with hd | rfl
    · have := isDig_toNat c hd
      refine ⟨?_, ?_, ?_⟩
      · cases hw : isWs c with
        | false => rfl
        | true =>
          have := isWs_not_num c hw
          rw [isDig_isNumChar c hd] at this; cases this
      · intro e; subst e; simp at this
      · intro e; subst e; simp at this
    · decide
  cases j with
  | null => exact ⟨'n', _, rfl, by decide, by decide, by decide⟩
  | bool b => cases b <;> exact ⟨_, _, rfl, by decide, by decide, by decide⟩
  | int i =>
    obtain ⟨c, tl, h, hc⟩ := intChars_head i
    exact ⟨c, tl, by simp [writeV, h], hnum c hc⟩
  | flo t =>
    simp only [TextOk] at hj
    obtain ⟨_, c, tl, h, hc⟩ := validFlo_head _ hj
    exact ⟨c, tl, by simp [writeV, h], hnum c hc⟩
  | str s => exact ⟨'"', _, rfl, by decide, by decide, by decide⟩
  | time t => simp [TextOk] at hj
  | arr xs => cases xs <;> exact ⟨'[', _, rfl, by decide, by decide, by decide⟩
  | obj kvs =>
    cases kvs with
    | nil => exact ⟨'{', _, rfl, by decide, by decide, by decide⟩
    | cons kv kvs => obtain ⟨k, v⟩ := kv; exact ⟨'{', _, rfl, by decide, by decide, by decide⟩

end SlipVerif.Json

namespace SlipVerif.Json
open J

/-! ### the parser reads back what the writer wrote -/

/-- after the elements: a closing bracket or a comma -/
theorem skipWs_writeRestL_nil (lay : Layout) (hl : lay.WsOnly) (d : Nat) (rest : List Char) :
    skipWs (writeRestL lay d [] ++ rest) = ']' :: rest := by
  simp only [writeRestL, List.append_assoc, List.cons_append, List.nil_append]
  rw [skipWs_ws_append _ _ (hl.1 d), skipWs_cons_nonws _ _ (by decide)]

theorem skipWs_writeRestM_nil (lay : Layout) (hl : lay.WsOnly) (d : Nat) (rest : List Char) :
    skipWs (writeRestM lay d [] ++ rest) = '}' :: rest := by
  simp only [writeRestM, List.append_assoc, List.cons_append, List.nil_append]
  rw [skipWs_ws_append _ _ (hl.1 d), skipWs_cons_nonws _ _ (by decide)]

theorem String_ofList_toList (s : String) : String.ofList s.toList = s := by
  simp

mutual
theorem parseValue_writeV (lay : Layout) (hl : lay.WsOnly) : (j : J) → TextOk j = true →
    ∀ (d fuel : Nat) (ws rest : List Char), ws.all isWs = true → need j ≤ fuel → RestOk rest →
    parseValue fuel (ws ++ (writeV lay d j ++ rest)) = .ok (j, rest)
  | .null, _, d, fuel, ws, rest, hws, hf, hr => by
      obtain ⟨f, rfl⟩ : ∃ f, fuel = f + 1 := ⟨fuel - 1, by simp [need] at hf; omega⟩
      simp [parseValue, writeV, skipWs_ws_append _ _ hws, skipWs, isWs, stripPrefix]
  | .bool true, _, d, fuel, ws, rest, hws, hf, hr => by
      obtain ⟨f, rfl⟩ : ∃ f, fuel = f + 1 := ⟨fuel - 1, by simp [need] at hf; omega⟩
      simp [parseValue, writeV, skipWs_ws_append _ _ hws, skipWs, isWs, stripPrefix]
  | .bool false, _, d, fuel, ws, rest, hws, hf, hr => by
      obtain ⟨f, rfl⟩ : ∃ f, fuel = f + 1 := ⟨fuel - 1, by simp [need] at hf; omega⟩
      simp [parseValue, writeV, skipWs_ws_append _ _ hws, skipWs, isWs, stripPrefix]
  | .int i, _, d, fuel, ws, rest, hws, hf, hr => by
      obtain ⟨f, rfl⟩ : ∃ f, fuel = f + 1 := ⟨fuel - 1, by simp [need] at hf; omega⟩
      simp only [writeV]
      exact parseValue_num f ws (intChars i) rest _ hws (intChars_all_num i) (intChars_head i) hr (classify_intChars i)
  | .flo t, hj, d, fuel, ws, rest, hws, hf, hr => by
      obtain ⟨f, rfl⟩ : ∃ f, fuel = f + 1 := ⟨fuel - 1, by simp [need] at hf; omega⟩
      simp only [TextOk] at hj
      obtain ⟨hall, hhead⟩ := validFlo_head _ hj
      simp only [writeV]
      have := parseValue_num f ws t.toList rest (flo (String.ofList t.toList)) hws hall hhead hr (classify_flo _ hj)
      rw [String_ofList_toList] at this
      exact this
  | .time t, hj, d, fuel, ws, rest, hws, hf, hr => by simp [TextOk] at hj
  | .str s, _, d, fuel, ws, rest, hws, hf, hr => by
      obtain ⟨f, rfl⟩ : ∃ f, fuel = f + 1 := ⟨fuel - 1, by simp [need] at hf; omega⟩
      simp only [writeV, writeStr, List.cons_append, List.append_assoc, List.nil_append, parseValue, skipWs_ws_append _ _ hws]
      rw [skipWs_cons_nonws _ _ (by decide)]
      simp [readStr_esc, bind, Except.bind]
  | .arr [], _, d, fuel, ws, rest, hws, hf, hr => by
      obtain ⟨f, rfl⟩ : ∃ f, fuel = f + 1 := ⟨fuel - 1, by simp [need] at hf; omega⟩
      simp [parseValue, writeV, skipWs_ws_append _ _ hws, skipWs, isWs]
  | .arr (x :: xs), hj, d, fuel, ws, rest, hws, hf, hr => by
      obtain ⟨f, rfl⟩ : ∃ f, fuel = f + 1 := ⟨fuel - 1, by simp [need] at hf; omega⟩
      simp only [TextOk] at hj
      have hf' : needL (x :: xs) ≤ f := by simp only [need] at hf; omega
      have hx : TextOk x = true := by simp only [TextOkL, Bool.and_eq_true] at hj; exact hj.1
      obtain ⟨c, tl, hc, hcw, hcb, _⟩ := writeV_head lay (d + 1) x hx
      have hE := parseElems_writeL lay hl (x :: xs) (by simp) hj d f [] rest (by simp) hf'
      simp only [writeItemsL, List.nil_append, List.append_assoc] at hE
      simp only [writeV, List.cons_append, List.append_assoc, parseValue, skipWs_ws_append _ _ hws]
      rw [skipWs_cons_nonws _ _ (by decide)]
      simp only [show ('[' == 'n') = false by decide, show ('[' == 't') = false by decide, show ('[' == 'f') = false by decide,
        show ('[' == '"') = false by decide, show ('[' == '[') = true by decide, Bool.false_eq_true, if_false, if_true]
      rw [skipWs_ws_append _ _ (hl.1 (d + 1))]
      rw [hc] at hE ⊢
      simp only [List.cons_append] at hE ⊢
      rw [skipWs_cons_nonws _ _ hcw]
      split
      · rename_i heq; cases heq; exact absurd rfl hcb
      · simp [hE, bind, Except.bind]
  | .obj [], _, d, fuel, ws, rest, hws, hf, hr => by
      obtain ⟨f, rfl⟩ : ∃ f, fuel = f + 1 := ⟨fuel - 1, by simp [need] at hf; omega⟩
      simp [parseValue, writeV, skipWs_ws_append _ _ hws, skipWs, isWs]
  | .obj ((k, v) :: kvs), hj, d, fuel, ws, rest, hws, hf, hr => by
      obtain ⟨f, rfl⟩ : ∃ f, fuel = f + 1 := ⟨fuel - 1, by simp [need] at hf; omega⟩
      simp only [TextOk, Bool.and_eq_true] at hj
      have hf' : needM ((k, v) :: kvs) ≤ f := by simp only [need] at hf; omega
      have hE := parseMembers_writeM lay hl ((k, v) :: kvs) (by simp) hj.1 d f [] rest (by simp) hf'
      simp only [writeItemsM, writeStr, List.nil_append, List.append_assoc, List.cons_append] at hE
      simp only [writeV, writeStr, List.cons_append, List.append_assoc, parseValue, skipWs_ws_append _ _ hws]
      rw [skipWs_cons_nonws _ _ (by decide)]
      simp only [show ('{' == 'n') = false by decide, show ('{' == 't') = false by decide, show ('{' == 'f') = false by decide,
        show ('{' == '"') = false by decide, show ('{' == '[') = false by decide, show ('{' == '{') = true by decide, Bool.false_eq_true, if_false, if_true]
      rw [skipWs_ws_append _ _ (hl.1 (d + 1))]
      rw [skipWs_cons_nonws _ _ (by decide)]
      simp [hE, bind, Except.bind, mkMembers_of_distinct _ hj.2]
theorem parseElems_writeL (lay : Layout) (hl : lay.WsOnly) : (l : List J) → l ≠ [] → TextOkL l = true →
    ∀ (d fuel : Nat) (ws rest : List Char), ws.all isWs = true → needL l ≤ fuel →
    parseElems fuel (ws ++ (writeItemsL lay d l ++ rest)) = .ok (l, rest)
  | [], h, _, _, _, _, _, _, _ => absurd rfl h
  | [x], _, hj, d, fuel, ws, rest, hws, hf => by
      obtain ⟨f, rfl⟩ : ∃ f, fuel = f + 1 := ⟨fuel - 1, by simp [needL] at hf; omega⟩
      simp only [TextOkL, Bool.and_eq_true] at hj
      have hfx : need x ≤ f := by simp only [needL] at hf; omega
      have hV := parseValue_writeV lay hl x hj.1 (d + 1) f ws (writeRestL lay d [] ++ rest) hws hfx (RestOk_writeRestL lay hl d [] rest)
      simp only [writeItemsL, List.append_assoc, parseElems]
      simp [hV, bind, Except.bind, skipWs_writeRestL_nil lay hl]
  | x :: y :: ys, _, hj, d, fuel, ws, rest, hws, hf => by
      obtain ⟨f, rfl⟩ : ∃ f, fuel = f + 1 := ⟨fuel - 1, by simp [needL] at hf; omega⟩
      simp only [TextOkL, Bool.and_eq_true] at hj
      have hfx : need x ≤ f := by simp only [needL] at hf; omega
      have hfr : needL (y :: ys) ≤ f := by simp only [needL] at hf ⊢; omega
      have hV := parseValue_writeV lay hl x hj.1 (d + 1) f ws (writeRestL lay d (y :: ys) ++ rest) hws hfx (RestOk_writeRestL lay hl d _ rest)
      have hE := parseElems_writeL lay hl (y :: ys) (by simp) (by simp [TextOkL, hj.2]) d f (lay.nl (d + 1)) rest (hl.1 (d + 1)) hfr
      simp only [writeItemsL, List.append_assoc] at hE
      simp only [writeRestL, List.cons_append, List.append_assoc] at hV
      simp only [writeItemsL, List.append_assoc, parseElems, writeRestL, List.cons_append]
      simp only [hV, bind, Except.bind]
      rw [skipWs_cons_nonws _ _ (by decide)]
      simp [hE]
theorem parseMembers_writeM (lay : Layout) (hl : lay.WsOnly) : (m : Members) → m ≠ [] → TextOkM m = true →
    ∀ (d fuel : Nat) (ws rest : List Char), ws.all isWs = true → needM m ≤ fuel →
    parseMembers fuel (ws ++ (writeItemsM lay d m ++ rest)) = .ok (m, rest)
  | [], h, _, _, _, _, _, _, _ => absurd rfl h
  | [(k, v)], _, hj, d, fuel, ws, rest, hws, hf => by
      obtain ⟨f, rfl⟩ : ∃ f, fuel = f + 1 := ⟨fuel - 1, by simp [needM] at hf; omega⟩
      simp only [TextOkM, Bool.and_eq_true] at hj
      have hfx : need v ≤ f := by simp only [needM] at hf; omega
      have hV := parseValue_writeV lay hl v hj.1 (d + 1) f lay.colon (writeRestM lay d [] ++ rest) hl.2 hfx (RestOk_writeRestM lay hl d [] rest)
      simp only [writeItemsM, writeStr, List.append_assoc, List.cons_append, List.nil_append, parseMembers, skipWs_ws_append _ _ hws]
      rw [skipWs_cons_nonws _ _ (by decide)]
      simp only [readStr_esc, bind, Except.bind]
      rw [skipWs_cons_nonws _ _ (by decide)]
      simp [hV, skipWs_writeRestM_nil lay hl]
  | (k, v) :: (k2, v2) :: kvs, _, hj, d, fuel, ws, rest, hws, hf => by
      obtain ⟨f, rfl⟩ : ∃ f, fuel = f + 1 := ⟨fuel - 1, by simp [needM] at hf; omega⟩
      simp only [TextOkM, Bool.and_eq_true] at hj
      have hfx : need v ≤ f := by simp only [needM] at hf; omega
      have hfr : needM ((k2, v2) :: kvs) ≤ f := by simp only [needM] at hf ⊢; omega
      have hV := parseValue_writeV lay hl v hj.1 (d + 1) f lay.colon (writeRestM lay d ((k2, v2) :: kvs) ++ rest) hl.2 hfx (RestOk_writeRestM lay hl d _ rest)
      have hE := parseMembers_writeM lay hl ((k2, v2) :: kvs) (by simp) (by simp [TextOkM, hj.2]) d f (lay.nl (d + 1)) rest (hl.1 (d + 1)) hfr
      simp only [writeItemsM, writeStr, List.append_assoc, List.cons_append, List.nil_append] at hE
      simp only [writeItemsM, writeStr, List.append_assoc, List.cons_append, List.nil_append, parseMembers, skipWs_ws_append _ _ hws]
      rw [skipWs_cons_nonws _ _ (by decide)]
      simp only [readStr_esc, bind, Except.bind]
      rw [skipWs_cons_nonws _ _ (by decide)]
      simp only [writeRestM, writeStr, List.cons_append, List.append_assoc, List.nil_append] at hV ⊢
      simp only [hV]
      rw [skipWs_cons_nonws _ _ (by decide)]
      simp [hE]
end

end SlipVerif.Json

namespace SlipVerif.Json
open J

mutual
theorem need_le_length (lay : Layout) : (j : J) → TextOk j = true → ∀ d, need j ≤ (writeV lay d j).length
  | .null, _, d => by simp [need, writeV]
  | .bool true, _, d => by simp [need, writeV]
  | .bool false, _, d => by simp [need, writeV]
  | .int i, _, d => by
      obtain ⟨c, tl, h, _⟩ := intChars_head i
      simp [need, writeV, h]
  | .flo t, hj, d => by
      simp only [TextOk] at hj
      obtain ⟨_, c, tl, h, _⟩ := validFlo_head _ hj
      simp [need, writeV, h]
  | .str s, _, d => by simp [need, writeV, writeStr]
  | .time t, hj, d => by simp [TextOk] at hj
  | .arr [], _, d => by simp [need, writeV, needL]
  | .arr (x :: xs), hj, d => by
      simp only [TextOk, TextOkL, Bool.and_eq_true] at hj
      have h1 := need_le_length lay x hj.1 (d + 1)
      have h2 := needL_le_length lay xs hj.2 d
      simp only [need, needL, writeV, List.length_cons, List.length_append]
      omega
  | .obj [], _, d => by simp [need, writeV, needM]
  | .obj ((k, v) :: kvs), hj, d => by
      simp only [TextOk, TextOkM, Bool.and_eq_true] at hj
      have h1 := need_le_length lay v hj.1.1 (d + 1)
      have h2 := needM_le_length lay kvs hj.1.2 d
      simp only [need, needM, writeV, List.length_cons, List.length_append]
      omega
theorem needL_le_length (lay : Layout) : (xs : List J) → TextOkL xs = true → ∀ d, 1 + needL xs ≤ (writeRestL lay d xs).length
  | [], _, d => by simp [needL, writeRestL]
  | x :: xs, hj, d => by
      simp only [TextOkL, Bool.and_eq_true] at hj
      have h1 := need_le_length lay x hj.1 (d + 1)
      have h2 := needL_le_length lay xs hj.2 d
      simp only [needL, writeRestL, List.length_cons, List.length_append]
      omega
theorem needM_le_length (lay : Layout) : (kvs : Members) → TextOkM kvs = true → ∀ d, 1 + needM kvs ≤ (writeRestM lay d kvs).length
  | [], _, d => by simp [needM, writeRestM]
  | (k, v) :: kvs, hj, d => by
      simp only [TextOkM, Bool.and_eq_true] at hj
      have h1 := need_le_length lay v hj.1 (d + 1)
      have h2 := needM_le_length lay kvs hj.2 d
      simp only [needM, writeRestM, List.length_cons, List.length_append]
      omega
end

theorem parse_write (lay : Layout) (hl : lay.WsOnly) (j : J) (hj : TextOk j = true) :
    parse (write lay j) = .ok j := by
  unfold parse write parseChars
  simp only [String.toList_ofList]
  have hlen := need_le_length lay j hj 0
  have h := parseValue_writeV lay hl j hj 0 ((writeV lay 0 j).length + 1) [] [] (by simp) (by omega) RestOk_nil
  simp only [List.nil_append, List.append_nil] at h
  rw [h]
  simp [skipWs]

end SlipVerif.Json

namespace SlipVerif.Json
open J

/-! ### several documents in one text -/


/-- documents one after the other, each preceded by its separator -/
def writeDocs (lay : Layout) : List (List Char × J) → List Char
  | [] => []
  | (sep, j) :: rest => sep ++ (writeV lay 0 j ++ writeDocs lay rest)

theorem skipWs_all_ws (ws : List Char) (h : ws.all isWs = true) : skipWs ws = [] := by
  have := skipWs_ws_append ws [] h
  simpa [skipWs] using this

theorem RestOk_ws (ws : List Char) (h : ws.all isWs = true) : RestOk ws := by
  cases ws with
  | nil => exact RestOk_nil
  | cons c tl =>
    simp only [List.all_cons, Bool.and_eq_true] at h
    exact RestOk_cons c tl (isWs_not_num c h.1)

theorem parseManyAux_writeDocs (lay : Layout) (hl : lay.WsOnly) :
    ∀ (ds : List (List Char × J)) (tail : List Char) (n : Nat),
      (∀ d ∈ ds, d.1.all isWs = true ∧ TextOk d.2 = true) → (∀ d ∈ ds.tail, d.1 ≠ []) →
      tail.all isWs = true → ds.length < n →
      parseManyAux n (writeDocs lay ds ++ tail) = .ok (ds.map (·.2)) := by
  intro ds
  induction ds with
  | nil =>
    intro tail n _ _ ht hn
    obtain ⟨m, rfl⟩ : ∃ m, n = m + 1 := ⟨n - 1, by simp at hn; omega⟩
    simp [parseManyAux, writeDocs, skipWs_all_ws tail ht]
  | cons d rest ih =>
    intro tail n hds hsep ht hn
    obtain ⟨sep, j⟩ := d
    obtain ⟨m, rfl⟩ : ∃ m, n = m + 1 := ⟨n - 1, by simp at hn; omega⟩
    have hd := hds (sep, j) (by simp)
    have hrest : ∀ d ∈ rest, d.1.all isWs = true ∧ TextOk d.2 = true := fun d h => hds d (by simp [h])
    obtain ⟨c, tl, hc, hcw, _, _⟩ := writeV_head lay 0 j hd.2
    -- what follows the document does not continue a number
    have hR : RestOk (writeDocs lay rest ++ tail) := by
      cases rest with
      | nil => simpa [writeDocs] using RestOk_ws tail ht
      | cons d2 rest2 =>
        obtain ⟨sep2, j2⟩ := d2
        have hne : sep2 ≠ [] := hsep (sep2, j2) (by simp)
        have hws2 := (hds (sep2, j2) (by simp)).1
        cases sep2 with
        | nil => exact absurd rfl hne
        | cons w ws =>
          simp only [List.all_cons, Bool.and_eq_true] at hws2
          simp only [writeDocs, List.cons_append]
          exact RestOk_cons w _ (isWs_not_num w hws2.1)
    have hlen := need_le_length lay j hd.2 0
    have hP := parseValue_writeV lay hl j hd.2 0 ((tl ++ (writeDocs lay rest ++ tail)).length + 2) [] (writeDocs lay rest ++ tail)
      (by simp) (by rw [hc] at hlen; simp only [List.length_cons, List.length_append] at hlen ⊢; omega) hR
    simp only [List.nil_append] at hP
    have hih := ih tail m hrest (fun d h => hsep d (by
      cases rest with
      | nil => simp at h
      | cons _ r2 => simp only [List.tail_cons] at h ⊢; exact List.mem_cons_of_mem _ h)) ht (by simp at hn; omega)
    simp only [writeDocs, List.append_assoc, parseManyAux]
    rw [skipWs_ws_append _ _ hd.1]
    rw [hc] at hP ⊢
    simp only [List.cons_append] at hP ⊢
    rw [skipWs_cons_nonws _ _ hcw]
    simp only [hP, hih, List.map_cons]


mutual
theorem need_pos : (j : J) → 0 < need j
  | .arr _ => by simp [need]; omega
  | .obj _ => by simp [need]; omega
  | .null | .bool _ | .int _ | .flo _ | .str _ | .time _ => by simp [need]
end

theorem length_writeDocs (lay : Layout) (ds : List (List Char × J)) (h : ∀ d ∈ ds, TextOk d.2 = true) :
    ds.length ≤ (writeDocs lay ds).length := by
  induction ds with
  | nil => simp [writeDocs]
  | cons d rest ih =>
    obtain ⟨sep, j⟩ := d
    have h1 := need_le_length lay j (h (sep, j) (by simp)) 0
    have h2 := need_pos j
    have h3 := ih (fun d hd => h d (by simp [hd]))
    simp only [writeDocs, List.length_cons, List.length_append]
    omega

end SlipVerif.Json
