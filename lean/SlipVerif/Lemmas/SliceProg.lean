import SlipVerif.Model.SliceProg
/-
  Verification-condition generator for SlipVerif.Model.SliceProg (core Lean only).

  `wp p Q s` is a sufficient condition for `Q (exec p s)`: sequences pass the state on without
  duplicating it, a conditional gives one implication per branch, a statement that can fault
  (slice bounds, indices) gives one implication for the in-range case and one for the fault.
  Loops are left to loop lemmas (`exec` of the loop appears in the condition).
-/
namespace SlipVerif.SliceProg

def wp : Stmt → (St → Prop) → St → Prop
  | .seq a b, Q, s => wp a (fun s1 => if s1.halt.isSome then Q s1 else wp b Q s1) s
  | .ite c t e, Q, s => (evalB s c = true → wp t Q s) ∧ (evalB s c = false → wp e Q s)
  | .skip, Q, s => Q s
  | .assignI k e, Q, s => Q { s with iv := upd s.iv k (evalI s e) }
  | .assignO v e, Q, s =>
      (okO s e = true → Q { s with ov := upd s.ov v (evalO s e).1, wrote := s.wrote ++ (evalO s e).2 })
      ∧ (okO s e = false → Q (fault s))
  | .ret e, Q, s =>
      (okO s e = true → Q { s with wrote := s.wrote ++ (evalO s e).2, halt := some (.ret (evalO s e).1) })
      ∧ (okO s e = false → Q (fault s))
  | .setPlace e, Q, s =>
      (okO s e = true → Q { s with wrote := s.wrote ++ (evalO s e).2, place := some (evalO s e).1 })
      ∧ (okO s e = false → Q (fault s))
  | .panic, Q, s => Q { s with halt := some .cond }
  | .copy d e, Q, s => (okO s e = true → Q (copyStep d e s)) ∧ (okO s e = false → Q (fault s))
  | .setIdx v i e, Q, s => (setIdxOk v i e s = true → Q (setIdxStep v i e s)) ∧ (setIdxOk v i e s = false → Q (fault s))
  | .swap v i j, Q, s => (swapOk v i j s = true → Q (swapStep v i j s)) ∧ (swapOk v i j s = false → Q (fault s))
  | .forDown k i b, Q, s => Q (exec (.forDown k i b) s)
  | .forArgs a d b, Q, s => Q (exec (.forArgs a d b) s)

theorem wp_sound : ∀ (p : Stmt) (Q : St → Prop) (s : St), wp p Q s → Q (exec p s) := by
  intro p
  induction p with
  | seq a b iha ihb =>
    intro Q s h
    simp only [wp] at h
    have h1 := iha _ s h
    simp only [exec]
    split
    · rename_i hh; simp only [hh, if_true] at h1; exact h1
    · rename_i hh; simp only [hh] at h1; exact ihb _ _ h1
  | ite c t e iht ihe =>
    intro Q s h
    simp only [wp] at h
    simp only [exec]
    split
    · rename_i hc; exact iht _ _ (h.1 hc)
    · rename_i hc; exact ihe _ _ (h.2 (by simpa using hc))
  | assignO v e =>
    intro Q s h
    simp only [wp] at h
    simp only [exec]
    split
    · rename_i hc; exact h.1 hc
    · rename_i hc; exact h.2 (by simpa using hc)
  | ret e =>
    intro Q s h
    simp only [wp] at h
    simp only [exec]
    split
    · rename_i hc; exact h.1 hc
    · rename_i hc; exact h.2 (by simpa using hc)
  | setPlace e =>
    intro Q s h
    simp only [wp] at h
    simp only [exec]
    split
    · rename_i hc; exact h.1 hc
    · rename_i hc; exact h.2 (by simpa using hc)
  | skip => intro Q s h; exact h
  | assignI k e => intro Q s h; exact h
  | panic => intro Q s h; exact h
  | copy d e =>
    intro Q s h
    simp only [wp] at h
    simp only [exec]
    split
    · rename_i hc; exact h.1 hc
    · rename_i hc; exact h.2 (by simpa using hc)
  | setIdx v i e =>
    intro Q s h
    simp only [wp] at h
    simp only [exec]
    split
    · rename_i hc; exact h.1 hc
    · rename_i hc; exact h.2 (by simpa using hc)
  | swap v i j =>
    intro Q s h
    simp only [wp] at h
    simp only [exec]
    split
    · rename_i hc; exact h.1 hc
    · rename_i hc; exact h.2 (by simpa using hc)
  | forDown k i b _ => intro Q s h; exact h
  | forArgs a d b _ => intro Q s h; exact h

def outcome (s : St) : Outcome := ⟨s.halt, s.place, s.wrote⟩

theorem run_eq (p : Stmt) (args : List Obj) : run p args = outcome (exec p (init args)) := rfl

/-- to show a property of the outcome of a program it suffices to show its verification condition -/
theorem run_of_wp (p : Stmt) (args : List Obj) (P : Outcome → Prop)
    (h : wp p (fun s => P (outcome s)) (init args)) : P (run p args) := by
  rw [run_eq]; exact wp_sound p _ _ h

end SlipVerif.SliceProg
