import SlipVerif.Model.SliceProg
/-
  Verification-condition generator for SlipVerif.Model.SliceProg (core Lean only).

  `wp p Q s` is a sufficient condition for `Q (exec p s)`: sequences pass the state on without
  duplicating it, a conditional gives one implication per branch, a statement that can fault
  (slice bounds, indices) gives one implication for the in-range case and one for the fault.
  Loops are left to loop lemmas (`exec` of the loop appears in the condition).
-/
namespace SlipVerif.SliceProg

/-- `s1` is the state after the loop `p` started in `s` (kept folded so that the state after a loop is
    named once in a verification condition instead of being copied into every later condition) -/
def LoopResult (p : Stmt) (s s1 : St) : Prop := s1 = exec p s

/-- verification condition of `for _, a := range xs { body }`, `W` = the condition generator of the body -/
def wpArgs (W : (St → Prop) → St → Prop) (a : Nat) : List Obj → (St → Prop) → St → Prop
  | [], Q, s => Q s
  | x :: rest, Q, s =>
    if s.halt.isSome then Q s
    else W (fun s1 => wpArgs W a rest Q s1) { s with ov := upd s.ov a x }

def wp : Stmt → (St → Prop) → St → Prop
  | .seq a b, Q, s => wp a (fun s1 => if s1.halt.isSome then Q s1 else wp b Q s1) s
  | .ite c t e, Q, s => (evalB s c = true → wp t Q s) ∧ (evalB s c = false → wp e Q s)
  | .skip, Q, s => Q s
  | .assignI k e, Q, s => Q { s with iv := upd s.iv k (evalI s e) }
  | .assignO v e, Q, s =>
      (okO s e = true → Q { s with ov := upd s.ov v (evalO s e).1, wrote := s.wrote ++ (evalO s e).2 })
      ∧ (okO s e = false → Q (fault s))
  | .ret e, Q, s =>
      (okO s e = true → Q { s with wrote := s.wrote ++ (evalO s e).2, halt := some (.ret (evalO s e).1) })
      ∧ (okO s e = false → Q (fault s))
  | .setPlace e, Q, s =>
      (okO s e = true → Q { s with wrote := s.wrote ++ (evalO s e).2, place := some (evalO s e).1 })
      ∧ (okO s e = false → Q (fault s))
  | .panic, Q, s => Q { s with halt := some .cond }
  | .copy d e, Q, s => (okO s e = true → Q (copyStep d e s)) ∧ (okO s e = false → Q (fault s))
  | .setIdx v i e, Q, s => (setIdxOk v i e s = true → Q (setIdxStep v i e s)) ∧ (setIdxOk v i e s = false → Q (fault s))
  | .swap v i j, Q, s => (swapOk v i j s = true → Q (swapStep v i j s)) ∧ (swapOk v i j s = false → Q (fault s))
  | .forDown k i b, Q, s => ∀ s1, LoopResult (.forDown k i b) s s1 → Q s1
  | .forArgs a d b, Q, s => wpArgs (wp b) a (if d then s.args.reverse else s.args) Q s

theorem wp_sound : ∀ (p : Stmt) (Q : St → Prop) (s : St), wp p Q s → Q (exec p s) := by
  intro p
  induction p with
  | seq a b iha ihb =>
    intro Q s h
    simp only [wp] at h
    have h1 := iha _ s h
    simp only [exec]
    split
    · rename_i hh; simp only [hh, if_true] at h1; exact h1
    · rename_i hh; simp only [hh] at h1; exact ihb _ _ h1
  | ite c t e iht ihe =>
    intro Q s h
    simp only [wp] at h
    simp only [exec]
    split
    · rename_i hc; exact iht _ _ (h.1 hc)
    · rename_i hc; exact ihe _ _ (h.2 (by simpa using hc))
  | assignO v e =>
    intro Q s h
    simp only [wp] at h
    simp only [exec]
    split
    · rename_i hc; exact h.1 hc
    · rename_i hc; exact h.2 (by simpa using hc)
  | ret e =>
    intro Q s h
    simp only [wp] at h
    simp only [exec]
    split
    · rename_i hc; exact h.1 hc
    · rename_i hc; exact h.2 (by simpa using hc)
  | setPlace e =>
    intro Q s h
    simp only [wp] at h
    simp only [exec]
    split
    · rename_i hc; exact h.1 hc
    · rename_i hc; exact h.2 (by simpa using hc)
  | skip => intro Q s h; exact h
  | assignI k e => intro Q s h; exact h
  | panic => intro Q s h; exact h
  | copy d e =>
    intro Q s h
    simp only [wp] at h
    simp only [exec]
    split
    · rename_i hc; exact h.1 hc
    · rename_i hc; exact h.2 (by simpa using hc)
  | setIdx v i e =>
    intro Q s h
    simp only [wp] at h
    simp only [exec]
    split
    · rename_i hc; exact h.1 hc
    · rename_i hc; exact h.2 (by simpa using hc)
  | swap v i j =>
    intro Q s h
    simp only [wp] at h
    simp only [exec]
    split
    · rename_i hc; exact h.1 hc
    · rename_i hc; exact h.2 (by simpa using hc)
  | forDown k i b _ => intro Q s h; exact h _ rfl
  | forArgs a d b ih =>
    intro Q s h
    simp only [wp] at h
    simp only [exec]
    generalize (if d = true then s.args.reverse else s.args) = xs at h ⊢
    induction xs generalizing s with
    | nil => simpa [wpArgs, loopArgs] using h
    | cons x rest ihx =>
      simp only [wpArgs] at h
      simp only [loopArgs]
      split
      · rename_i hh; simp only [hh, if_true] at h; exact h
      · rename_i hh
        simp only [hh] at h
        exact ihx _ (ih _ _ h)

def outcome (s : St) : Outcome := ⟨s.halt, s.place, s.wrote⟩

theorem run_eq (p : Stmt) (args : List Obj) : run p args = outcome (exec p (init args)) := rfl

/-- to show a property of the outcome of a program it suffices to show its verification condition -/
theorem run_of_wp (p : Stmt) (args : List Obj) (P : Outcome → Prop)
    (h : wp p (fun s => P (outcome s)) (init args)) : P (run p args) := by
  rw [run_eq]; exact wp_sound p _ _ h

/-! ### the reversing loop of reverse, nreverse, revappend, nreconc -/

theorem swapVals_length (l : List Val) (a b : Nat) : (swapVals l a b).length = l.length := by
  simp [swapVals]

theorem swapVals_getElem? (l : List Val) (a b : Nat) (ha : a < l.length) (hb : b < l.length) (q : Nat) :
    (swapVals l a b)[q]? = if q = b then l[a]? else if q = a then l[b]? else l[q]? := by
  simp only [swapVals, List.getElem?_set, List.length_set]
  by_cases h1 : b = q
  · subst h1; simp [hb, List.getD_eq_getElem?_getD, ha]
  · by_cases h2 : a = q
    · subst h2
      have : ¬ a = b := fun h => h1 h.symm
      simp [h1, this, ha, List.getD_eq_getElem?_getD, hb]
    · have h1' : ¬ q = b := fun h => h1 h.symm
      have h2' : ¬ q = a := fun h => h2 h.symm
      simp [h1, h2, h1', h2']

/-- the swaps of `for i := c-1; 0 <= i; i-- { l[i], l[n-1-i] = l[n-1-i], l[i] }` -/
def swapDownL (n : Nat) : Nat → List Val → List Val
  | 0, l => l
  | c + 1, l => swapDownL n c (swapVals l c (n - 1 - c))

theorem swapDownL_length (n : Nat) : ∀ (c : Nat) (l : List Val), (swapDownL n c l).length = l.length := by
  intro c
  induction c with
  | zero => intro l; rfl
  | succ c ih => intro l; simp [swapDownL, ih, swapVals_length]

theorem swapDownL_getElem? (n : Nat) : ∀ (c : Nat) (l : List Val), l.length = n → 2 * c ≤ n + 1 → c ≤ n → ∀ p,
    (swapDownL n c l)[p]? = if p < c ∨ (n - c ≤ p ∧ p < n) then l[n - 1 - p]? else l[p]? := by
  intro c
  induction c with
  | zero => intro l hl _ _ p; simp [swapDownL]; intro h1 h2; omega
  | succ c ih =>
    intro l hl h2 hcn p
    have ha : c < l.length := by omega
    have hb : n - 1 - c < l.length := by omega
    rw [swapDownL, ih _ (by simp [swapVals_length, hl]) (by omega) (by omega) p]
    rw [swapVals_getElem? l c (n - 1 - c) ha hb, swapVals_getElem? l c (n - 1 - c) ha hb]
    by_cases hp : p < n
    · repeat' split
      all_goals first
        | rfl
        | (exfalso; omega)
        | (congr 1; omega)
    · have h3 : l[p]? = none := by simp; omega
      have h4 : ¬ (p < c ∨ (n - c ≤ p ∧ p < n)) := by omega
      have h5 : ¬ (p < c + 1 ∨ (n - (c + 1) ≤ p ∧ p < n)) := by omega
      have h6 : ¬ p = n - 1 - c := by omega
      have h7 : ¬ p = c := by omega
      rw [if_neg h4, if_neg h5, if_neg h6, if_neg h7]

theorem swapDownL_reverse (l : List Val) (h : 0 < l.length) :
    swapDownL l.length ((l.length - 1) / 2 + 1) l = l.reverse := by
  apply List.ext_getElem?
  intro p
  rw [swapDownL_getElem? l.length _ l rfl (by omega) (by omega) p]
  by_cases hp : p < l.length
  · rw [if_pos (by omega), List.getElem?_reverse hp]
  · rw [if_neg (by omega)]
    have : l.reverse[p]? = none := by simp; omega
    rw [this]; simp; omega

theorem upd_upd {α : Type} (f : Nat → α) (k : Nat) (a b : α) : upd (upd f k a) k b = upd f k b := by
  funext j; simp only [upd]; split <;> rfl

/-- one iteration of the body `v[k], v[m-k] = v[m-k], v[k]` with k = i, m = len-1 -/
theorem exec_swap_step (v k m : Nat) (hkm : k ≠ m) (s : St) (l : List Val) (org : Origin) (i : Nat)
    (hv : s.ov v = .lst ⟨l, org⟩) (hm : s.iv m = (l.length : Int) - 1) (hi : i < l.length) :
    exec (.swap v (.ivar k) (.sub (.ivar m) (.ivar k))) { s with iv := upd s.iv k (i : Int) }
      = { s with iv := upd s.iv k (i : Int), ov := upd s.ov v (.lst ⟨swapVals l i (l.length - 1 - i), org⟩),
                 wrote := s.wrote ++ org.argOf } := by
  have e1 : (upd s.iv k (i : Int)) m = (l.length : Int) - 1 := by rw [upd_other _ _ (Ne.symm hkm)]; exact hm
  have e2 : ((l.length : Int) - 1 - (i : Int)).toNat = l.length - 1 - i := by omega
  have hok : swapOk v (.ivar k) (.sub (.ivar m) (.ivar k)) { s with iv := upd s.iv k (i : Int) } = true := by
    simp only [swapOk, hv, evalI, upd_same, e1, decide_eq_true_eq]
    omega
  simp only [exec, hok, if_true, swapStep, hv, evalI, upd_same, e1, e2, Int.toNat_natCast]

/-- the state after `c + 1` iterations of the swap loop starting at index `c` -/
theorem loopDown_swap (v k m : Nat) (hkm : k ≠ m) (org : Origin) (n : Nat) :
    ∀ (c : Nat) (s : St) (l : List Val), s.ov v = .lst ⟨l, org⟩ → l.length = n → s.iv m = (n : Int) - 1 → s.halt = none →
      c < n →
      loopDown (exec (.swap v (.ivar k) (.sub (.ivar m) (.ivar k)))) k (c + 1) (c : Int) s
        = { s with iv := upd s.iv k 0, ov := upd s.ov v (.lst ⟨swapDownL n (c + 1) l, org⟩),
                   wrote := s.wrote ++ (List.replicate (c + 1) org.argOf).flatten } := by
  intro c
  induction c with
  | zero =>
    intro s l hv hl hm hh hc1
    subst hl
    have hnh : ¬ (s.halt.isSome = true) := by simp [hh]
    rw [loopDown, if_neg hnh, loopDown]
    have := exec_swap_step v k m hkm s l org 0 hv hm hc1
    simp only [Int.natCast_zero] at this ⊢
    rw [this]
    simp [swapDownL]
  | succ c ih =>
    intro s l hv hl hm hh hc1
    subst hl
    have hnh : ¬ (s.halt.isSome = true) := by simp [hh]
    rw [loopDown, if_neg hnh]
    rw [exec_swap_step v k m hkm s l org (c + 1) hv hm hc1]
    have e : ((c + 1 : Nat) : Int) - 1 = (c : Int) := by omega
    rw [e]
    have key := ih { s with iv := upd s.iv k ((c + 1 : Nat) : Int),
                            ov := upd s.ov v (.lst ⟨swapVals l (c + 1) (l.length - 1 - (c + 1)), org⟩),
                            wrote := s.wrote ++ org.argOf }
      (swapVals l (c + 1) (l.length - 1 - (c + 1))) (by simp) (by simp [swapVals_length])
      (by show upd s.iv k _ m = _; rw [upd_other _ _ (Ne.symm hkm)]; exact hm) hh (by omega)
    rw [key]
    simp only [upd_upd, swapDownL]
    congr 1
    simp [List.replicate_succ, List.append_assoc]

theorem tdiv_two_natCast (a : Nat) : Int.tdiv (a : Int) 2 = ((a / 2 : Nat) : Int) := by
  rw [Int.tdiv_eq_ediv_of_nonneg (by omega)]
  omega

theorem exec_forDown (k : Nat) (i : IExp) (b : Stmt) (s : St) :
    exec (.forDown k i b) s = loopDown (exec b) k (evalI s i + 1).toNat (evalI s i) s := by rw [exec]

/-- **the reversing loop** `max := len(v) - 1; for k := max / 2; 0 <= k; k-- { v[k], v[max-k] = v[max-k], v[k] }`
    reverses the list in `v` in place (for every length ≥ 1) -/
theorem exec_reverseLoop (v k m : Nat) (hkm : k ≠ m) (s : St) (l : List Val) (org : Origin)
    (hv : s.ov v = .lst ⟨l, org⟩) (hm : s.iv m = (l.length : Int) - 1) (hpos : 0 < l.length) (hh : s.halt = none) :
    exec (.forDown k (.half (.ivar m)) (.swap v (.ivar k) (.sub (.ivar m) (.ivar k)))) s
      = { s with iv := upd s.iv k 0, ov := upd s.ov v (.lst ⟨l.reverse, org⟩),
                 wrote := s.wrote ++ (List.replicate ((l.length - 1) / 2 + 1) org.argOf).flatten } := by
  have e0 : evalI s (.half (.ivar m)) = (((l.length - 1) / 2 : Nat) : Int) := by
    simp only [evalI, hm]
    rw [show (l.length : Int) - 1 = ((l.length - 1 : Nat) : Int) by omega, tdiv_two_natCast]
  rw [exec_forDown, e0]
  rw [show ((((l.length - 1) / 2 : Nat) : Int) + 1).toNat = (l.length - 1) / 2 + 1 by omega]
  rw [loopDown_swap v k m hkm org l.length ((l.length - 1) / 2) s l hv rfl hm hh (by omega)]
  rw [swapDownL_reverse l hpos]

/-! ### finishing the arithmetic / list conditions -/

theorem take_eq_self_iff {α : Type} (l : List α) (n : Nat) : l.take n = l ↔ l.length ≤ n := by
  constructor
  · intro h
    have := congrArg List.length h
    simp [List.length_take] at this
    omega
  · exact List.take_of_length_le

theorem drop_eq_self_iff {α : Type} (l : List α) (n : Nat) : l.drop n = l ↔ n = 0 ∨ l.length = 0 := by
  constructor
  · intro h
    have := congrArg List.length h
    simp [List.length_drop] at this
    omega
  · rintro (h | h)
    · simp [h]
    · simp [List.length_eq_zero_iff.mp h]

theorem self_eq_drop_iff {α : Type} (l : List α) (n : Nat) : l = l.drop n ↔ n = 0 ∨ l.length = 0 := by
  rw [eq_comm]; exact drop_eq_self_iff l n

/-- make(n) followed by copy from a source at least as long: the first n elements of the source -/
theorem copyVals_make (d o : List Val) (h : d.length ≤ o.length) : copyVals d o = o.take d.length := by
  simp [copyVals, List.drop_eq_nil_iff]
  omega

/-- unfold the verification condition of a translated program (give the program's name) -/
macro "vc" "[" ts:Lean.Parser.Tactic.simpLemma,* "]" : tactic =>
  `(tactic| simp [wp, wpArgs, init, listArg, evalB, evalI, evalO, okO, upd, Obj.vals, Obj.asSl, fault, outcome, copyStep,
      setIdxOk, setIdxStep, swapOk, swapStep, sliceOrg, goAppend, intsOf, Obj.isFresh, Obj.isTailOf, Origin.argOf, Int.sub_sub_self, $ts,*])

/-- close a condition about lengths, take and drop -/
macro "fin" : tactic => `(tactic| (
  repeat' (first | intro _ | apply And.intro)
  all_goals (first
    | omega
    | (simp (disch := first | omega | (simp only [List.length_take, List.length_drop, List.length_replicate, List.length_tail, List.length_reverse, List.length_append, List.length_cons, List.length_nil]; omega))
        [copyVals_make, take_eq_self_iff, drop_eq_self_iff, self_eq_drop_iff, Int.sub_sub_self, Int.toNat_natCast, Int.toNat_sub,
         List.length_drop, List.length_take, List.take_take, List.length_tail, List.length_replicate, *]; done)
    | (simp (disch := first | omega | (simp only [List.length_take, List.length_drop, List.length_replicate, List.length_tail, List.length_reverse, List.length_append, List.length_cons, List.length_nil]; omega))
        [copyVals_make, take_eq_self_iff, drop_eq_self_iff, self_eq_drop_iff, Int.sub_sub_self, Int.toNat_natCast, Int.toNat_sub,
         List.length_drop, List.length_take, List.take_take, List.length_tail, List.length_replicate] at * <;> omega)
    | (simp_all [take_eq_self_iff, drop_eq_self_iff, self_eq_drop_iff, List.length_drop, List.length_take, List.take_take, List.length_tail]; done)
    | (simp only [← List.length_eq_zero_iff, take_eq_self_iff, drop_eq_self_iff, self_eq_drop_iff, List.length_drop, List.length_take, List.take_take, List.length_tail] at * <;> omega)
    | grind [take_eq_self_iff, drop_eq_self_iff, self_eq_drop_iff, List.length_tail, List.length_eq_zero_iff])))

end SlipVerif.SliceProg
