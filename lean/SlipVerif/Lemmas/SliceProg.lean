import SlipVerif.Model.SliceProg
/-
  Verification-condition generator for SlipVerif.Model.SliceProg (core Lean only).

  `wp p Q s` is a sufficient condition for `Q (exec p s)`: sequences pass the state on without
  duplicating it, a conditional gives one implication per branch, a statement that can fault
  (slice bounds, indices) gives one implication for the in-range case and one for the fault.
  Loops are left to loop lemmas (`exec` of the loop appears in the condition).
-/
namespace SlipVerif.SliceProg

/-- verification condition of `for _, a := range xs { body }`, `W` = the condition generator of the body -/
def wpArgs (W : (St → Prop) → St → Prop) (a : Nat) : List Obj → (St → Prop) → St → Prop
  | [], Q, s => Q s
  | x :: rest, Q, s =>
    if s.halt.isSome then Q s
    else W (fun s1 => wpArgs W a rest Q s1) { s with ov := upd s.ov a x }

def wp : Stmt → (St → Prop) → St → Prop
  | .seq a b, Q, s => wp a (fun s1 => if s1.halt.isSome then Q s1 else wp b Q s1) s
  | .ite c t e, Q, s => (evalB s c = true → wp t Q s) ∧ (evalB s c = false → wp e Q s)
  | .skip, Q, s => Q s
  | .assignI k e, Q, s => Q { s with iv := upd s.iv k (evalI s e) }
  | .assignO v e, Q, s =>
      (okO s e = true → Q { s with ov := upd s.ov v (evalO s e).1, wrote := s.wrote ++ (evalO s e).2 })
      ∧ (okO s e = false → Q (fault s))
  | .ret e, Q, s =>
      (okO s e = true → Q { s with wrote := s.wrote ++ (evalO s e).2, halt := some (.ret (evalO s e).1) })
      ∧ (okO s e = false → Q (fault s))
  | .setPlace e, Q, s =>
      (okO s e = true → Q { s with wrote := s.wrote ++ (evalO s e).2, place := some (evalO s e).1 })
      ∧ (okO s e = false → Q (fault s))
  | .panic, Q, s => Q { s with halt := some .cond }
  | .copy d e, Q, s => (okO s e = true → Q (copyStep d e s)) ∧ (okO s e = false → Q (fault s))
  | .setIdx v i e, Q, s => (setIdxOk v i e s = true → Q (setIdxStep v i e s)) ∧ (setIdxOk v i e s = false → Q (fault s))
  | .swap v i j, Q, s => (swapOk v i j s = true → Q (swapStep v i j s)) ∧ (swapOk v i j s = false → Q (fault s))
  | .forDown k i b, Q, s => Q (exec (.forDown k i b) s)
  | .forArgs a d b, Q, s => wpArgs (wp b) a (if d then s.args.reverse else s.args) Q s

theorem wp_sound : ∀ (p : Stmt) (Q : St → Prop) (s : St), wp p Q s → Q (exec p s) := by
  intro p
  induction p with
  | seq a b iha ihb =>
    intro Q s h
    simp only [wp] at h
    have h1 := iha _ s h
    simp only [exec]
    split
    · rename_i hh; simp only [hh, if_true] at h1; exact h1
    · rename_i hh; simp only [hh] at h1; exact ihb _ _ h1
  | ite c t e iht ihe =>
    intro Q s h
    simp only [wp] at h
    simp only [exec]
    split
    · rename_i hc; exact iht _ _ (h.1 hc)
    · rename_i hc; exact ihe _ _ (h.2 (by simpa using hc))
  | assignO v e =>
    intro Q s h
    simp only [wp] at h
    simp only [exec]
    split
    · rename_i hc; exact h.1 hc
    · rename_i hc; exact h.2 (by simpa using hc)
  | ret e =>
    intro Q s h
    simp only [wp] at h
    simp only [exec]
    split
    · rename_i hc; exact h.1 hc
    · rename_i hc; exact h.2 (by simpa using hc)
  | setPlace e =>
    intro Q s h
    simp only [wp] at h
    simp only [exec]
    split
    · rename_i hc; exact h.1 hc
    · rename_i hc; exact h.2 (by simpa using hc)
  | skip => intro Q s h; exact h
  | assignI k e => intro Q s h; exact h
  | panic => intro Q s h; exact h
  | copy d e =>
    intro Q s h
    simp only [wp] at h
    simp only [exec]
    split
    · rename_i hc; exact h.1 hc
    · rename_i hc; exact h.2 (by simpa using hc)
  | setIdx v i e =>
    intro Q s h
    simp only [wp] at h
    simp only [exec]
    split
    · rename_i hc; exact h.1 hc
    · rename_i hc; exact h.2 (by simpa using hc)
  | swap v i j =>
    intro Q s h
    simp only [wp] at h
    simp only [exec]
    split
    · rename_i hc; exact h.1 hc
    · rename_i hc; exact h.2 (by simpa using hc)
  | forDown k i b _ => intro Q s h; exact h
  | forArgs a d b ih =>
    intro Q s h
    simp only [wp] at h
    simp only [exec]
    generalize (if d = true then s.args.reverse else s.args) = xs at h ⊢
    induction xs generalizing s with
    | nil => simpa [wpArgs, loopArgs] using h
    | cons x rest ihx =>
      simp only [wpArgs] at h
      simp only [loopArgs]
      split
      · rename_i hh; simp only [hh, if_true] at h; exact h
      · rename_i hh
        simp only [hh] at h
        exact ihx _ (ih _ _ h)

def outcome (s : St) : Outcome := ⟨s.halt, s.place, s.wrote⟩

theorem run_eq (p : Stmt) (args : List Obj) : run p args = outcome (exec p (init args)) := rfl

/-- to show a property of the outcome of a program it suffices to show its verification condition -/
theorem run_of_wp (p : Stmt) (args : List Obj) (P : Outcome → Prop)
    (h : wp p (fun s => P (outcome s)) (init args)) : P (run p args) := by
  rw [run_eq]; exact wp_sound p _ _ h

/-! ### finishing the arithmetic / list conditions -/

theorem take_eq_self_iff {α : Type} (l : List α) (n : Nat) : l.take n = l ↔ l.length ≤ n := by
  constructor
  · intro h
    have := congrArg List.length h
    simp [List.length_take] at this
    omega
  · exact List.take_of_length_le

theorem drop_eq_self_iff {α : Type} (l : List α) (n : Nat) : l.drop n = l ↔ n = 0 ∨ l.length = 0 := by
  constructor
  · intro h
    have := congrArg List.length h
    simp [List.length_drop] at this
    omega
  · rintro (h | h)
    · simp [h]
    · simp [List.length_eq_zero_iff.mp h]

theorem self_eq_drop_iff {α : Type} (l : List α) (n : Nat) : l = l.drop n ↔ n = 0 ∨ l.length = 0 := by
  rw [eq_comm]; exact drop_eq_self_iff l n

/-- make(n) followed by copy from a source at least as long: the first n elements of the source -/
theorem copyVals_make (d o : List Val) (h : d.length ≤ o.length) : copyVals d o = o.take d.length := by
  simp [copyVals, List.drop_eq_nil_iff]
  omega

/-- unfold the verification condition of a translated program (give the program's name) -/
macro "vc" "[" ts:Lean.Parser.Tactic.simpLemma,* "]" : tactic =>
  `(tactic| simp [wp, wpArgs, init, listArg, evalB, evalI, evalO, okO, upd, Obj.vals, Obj.asSl, fault, outcome, copyStep,
      setIdxOk, setIdxStep, swapOk, swapStep, sliceOrg, goAppend, intsOf, Obj.isFresh, Obj.isTailOf, Origin.argOf, Int.sub_sub_self, $ts,*])

/-- close a condition about lengths, take and drop -/
macro "fin" : tactic => `(tactic| (
  repeat' (first | intro _ | apply And.intro)
  all_goals (first
    | omega
    | (simp (disch := first | omega | (simp only [List.length_take, List.length_drop, List.length_replicate, List.length_tail, List.length_reverse, List.length_append, List.length_cons, List.length_nil]; omega))
        [copyVals_make, take_eq_self_iff, drop_eq_self_iff, self_eq_drop_iff, Int.sub_sub_self, Int.toNat_natCast, Int.toNat_sub,
         List.length_drop, List.length_take, List.take_take, List.length_tail, List.length_replicate, *]; done)
    | (simp (disch := first | omega | (simp only [List.length_take, List.length_drop, List.length_replicate, List.length_tail, List.length_reverse, List.length_append, List.length_cons, List.length_nil]; omega))
        [copyVals_make, take_eq_self_iff, drop_eq_self_iff, self_eq_drop_iff, Int.sub_sub_self, Int.toNat_natCast, Int.toNat_sub,
         List.length_drop, List.length_take, List.take_take, List.length_tail, List.length_replicate] at * <;> omega)
    | (simp_all [take_eq_self_iff, drop_eq_self_iff, self_eq_drop_iff, List.length_drop, List.length_take, List.take_take, List.length_tail]; done)
    | (simp only [← List.length_eq_zero_iff, take_eq_self_iff, drop_eq_self_iff, self_eq_drop_iff, List.length_drop, List.length_take, List.take_take, List.length_tail] at * <;> omega)
    | grind [take_eq_self_iff, drop_eq_self_iff, self_eq_drop_iff, List.length_tail, List.length_eq_zero_iff])))

end SlipVerif.SliceProg
