import SlipVerif.Model.Conc
import Mathlib.Data.List.Basic
import Mathlib.Data.List.Nodup
import Mathlib.Data.List.Perm.Basic
import Mathlib.Data.List.Count
import Mathlib.Data.List.Infix
import Mathlib.Tactic.Linarith
/-
  Helper lemmas for Theorems/C17.lean: the reachable configurations of the interleaving
  semantics and the invariants they satisfy (one induction over the schedule each).
-/
namespace SlipVerif.Conc

/-! ## basic facts -/

@[simp] theorem upd_same {α : Type} (f : Nat → α) (k : Nat) (v : α) : upd f k v k = v := by
  simp [upd]

theorem upd_other {α : Type} (f : Nat → α) {k x : Nat} (v : α) (h : x ≠ k) : upd f k v x = f x := by
  simp [upd, h]

theorem sumTo_congr {n : Nat} {f g : Nat → Nat} (h : ∀ t, t < n → f t = g t) :
    sumTo n f = sumTo n g := by
  induction n with
  | zero => rfl
  | succ n ih =>
    simp only [sumTo]
    rw [ih (fun t ht => h t (Nat.lt_succ_of_lt ht)), h n (Nat.lt_succ_self n)]

theorem sumTo_upd {n : Nat} (f : Nat → Nat) {t : Nat} (v : Nat) (ht : t < n) :
    sumTo n (upd f t v) + f t = sumTo n f + v := by
  induction n with
  | zero => omega
  | succ n ih =>
    simp only [sumTo]
    by_cases h : t = n
    · subst h
      have : sumTo t (upd f t v) = sumTo t f :=
        sumTo_congr (fun x hx => upd_other f v (Nat.ne_of_lt hx))
      rw [this, upd_same]; omega
    · have ht' : t < n := by omega
      have := ih ht'
      rw [upd_other f v (Ne.symm h)]; omega

theorem sumTo_zero {n : Nat} {f : Nat → Nat} (h : ∀ t, t < n → f t = 0) : sumTo n f = 0 := by
  induction n with
  | zero => rfl
  | succ n ih =>
    simp only [sumTo]
    rw [ih (fun t ht => h t (Nat.lt_succ_of_lt ht)), h n (Nat.lt_succ_self n)]

theorem sumTo_pos {n : Nat} {f : Nat → Nat} {t : Nat} (ht : t < n) (h : 0 < f t) : 0 < sumTo n f := by
  induction n with
  | zero => omega
  | succ n ih =>
    simp only [sumTo]
    by_cases e : t = n
    · subst e; omega
    · have := ih (by omega); omega

theorem heldFrom_append (hs : List Nat) (a b : List Op) :
    heldFrom hs (a ++ b) = heldFrom (heldFrom hs a) b := by
  induction a generalizing hs with
  | nil => rfl
  | cons op a ih => cases op <;> simp [heldFrom, ih]

theorem sends_append (p ch : Nat) (a b : List Op) :
    sends p ch (a ++ b) = sends p ch a ++ sends p ch b := by
  simp [sends, List.filterMap_append]

theorem stores_append (k : Nat) (a b : List Op) : stores k (a ++ b) = stores k a + stores k b := by
  simp [stores, List.count_append]

/-! ## programs and program counters -/

theorem prog_nil_of_ge (S : Sys) {t : Nat} (h : S.progs.length ≤ t) : S.prog t = [] := by
  unfold Sys.prog
  rw [List.getElem?_eq_none h]

theorem cur_lt {S : Sys} {c : Config} {t : Nat} {op : Op} (h : S.cur c t = some op) :
    t < S.progs.length := by
  by_contra hn
  have : S.prog t = [] := prog_nil_of_ge S (by omega)
  simp [Sys.cur, this] at h

theorem take_succ_of_cur {S : Sys} {c : Config} {t : Nat} {op : Op} (h : S.cur c t = some op) :
    (S.prog t).take (c.pc t + 1) = (S.prog t).take (c.pc t) ++ [op] := by
  unfold Sys.cur at h
  rw [List.take_add_one, h]; rfl

theorem take_of_cur_none {S : Sys} {c : Config} {t : Nat} (h : S.cur c t = none) :
    (S.prog t).take (c.pc t) = S.prog t := by
  unfold Sys.cur at h
  exact List.take_of_length_le (List.getElem?_eq_none_iff.mp h)

theorem quiescent_iff {S : Sys} {c : Config} :
    quiescent S c = true ↔ ∀ t, S.cur c t = none := by
  unfold quiescent
  rw [List.all_eq_true]
  constructor
  · intro h t
    by_cases ht : t < S.progs.length
    · have := h t (List.mem_range.mpr ht)
      simpa using this
    · have : S.prog t = [] := prog_nil_of_ge S (by omega)
      simp [Sys.cur, this]
  · intro h t _
    simp [h t]

/-! ## steps -/

/-- the effect of a step, by the operation executed -/
theorem step_cases {S : Sys} {c c' : Config} {t : Nat} (h : step S c t = some c') :
    (∃ ch v, S.cur c t = some (.push ch v) ∧ canPush S c ch = true ∧
        c' = advance { c with queue := upd c.queue ch (c.queue ch ++ [⟨t, v⟩]) } t (.pushed t ch ⟨t, v⟩)) ∨
    (∃ ch it rest, S.cur c t = some (.pop ch) ∧ c.queue ch = it :: rest ∧
        c' = advance { c with queue := upd c.queue ch rest } t (.popped t ch it)) ∨
    (∃ m, S.cur c t = some (.lock m) ∧ c.owner m = none ∧
        c' = advance { c with owner := upd c.owner m (some t) } t (.locked t m)) ∨
    (∃ m, S.cur c t = some (.unlock m) ∧ c.owner m = some t ∧
        c' = advance { c with owner := upd c.owner m none } t (.unlocked t m)) ∨
    (∃ k, S.cur c t = some (.load k) ∧
        c' = advance { c with reg := upd c.reg t (some (k, c.value k)) } t (.loaded t k (c.value k))) ∨
    (∃ k v, S.cur c t = some (.store k) ∧ c.reg t = some (k, v) ∧
        c' = advance { c with value := upd c.value k (v + 1), reg := upd c.reg t none } t
          (.stored t k (v + 1))) := by
  unfold step at h
  split at h
  · simp at h
  · rename_i ch v hc
    split at h
    · rename_i hp
      left; exact ⟨ch, v, hc, hp, (Option.some.inj h).symm⟩
    · simp at h
  · rename_i ch hc
    split at h
    · simp at h
    · rename_i it rest hq
      right; left; exact ⟨ch, it, rest, hc, hq, (Option.some.inj h).symm⟩
  · rename_i m hc
    split at h
    · rename_i ho
      right; right; left; exact ⟨m, hc, ho, (Option.some.inj h).symm⟩
    · simp at h
  · rename_i m hc
    split at h
    · rename_i ho
      right; right; right; left; exact ⟨m, hc, ho, (Option.some.inj h).symm⟩
    · simp at h
  · rename_i k hc
    right; right; right; right; left; exact ⟨k, hc, (Option.some.inj h).symm⟩
  · rename_i k hc
    split at h
    · simp at h
    · rename_i k' v hr
      split at h
      · rename_i hk
        subst hk
        right; right; right; right; right; exact ⟨k', v, hc, hr, (Option.some.inj h).symm⟩
      · simp at h

/-- configurations reachable from the initial one -/
inductive Reachable (S : Sys) : Config → Prop where
  | init : Reachable S init
  | step {c c' : Config} {t : Nat} : Reachable S c → step S c t = some c' → Reachable S c'

theorem reachable_stepOrStay {S : Sys} {c : Config} (h : Reachable S c) (t : Nat) :
    Reachable S (stepOrStay S c t) := by
  unfold stepOrStay
  split
  · rename_i c' hs; exact Reachable.step h hs
  · exact h

theorem reachable_exec {S : Sys} {c : Config} (h : Reachable S c) (sched : List Nat) :
    Reachable S (exec S c sched) := by
  induction sched generalizing c with
  | nil => exact h
  | cons t ts ih => exact ih (reachable_stepOrStay h t)

/-! ## invariant: channel conservation -/

theorem pushLog_append (ch : Nat) (a b : List Event) :
    pushLog ch (a ++ b) = pushLog ch a ++ pushLog ch b := by
  simp [pushLog, List.filterMap_append]

theorem recvLog_append (ch : Nat) (a b : List Event) :
    recvLog ch (a ++ b) = recvLog ch a ++ recvLog ch b := by
  simp [recvLog, List.filterMap_append]

theorem pushLog_single (ch : Nat) (e : Event) :
    pushLog ch [e] = match e with
      | .pushed _ ch' it => if ch' = ch then [it] else []
      | _ => [] := by
  cases e <;> simp [pushLog]
  split <;> simp_all

theorem recvLog_single (ch : Nat) (e : Event) :
    recvLog ch [e] = match e with
      | .popped _ ch' it => if ch' = ch then [it] else []
      | _ => [] := by
  cases e <;> simp [recvLog]
  split <;> simp_all

/-- what was pushed on a channel = what was received from it followed by what it still holds -/
theorem inv_conservation {S : Sys} {c : Config} (h : Reachable S c) (ch : Nat) :
    recvLog ch c.trace ++ c.queue ch = pushLog ch c.trace := by
  induction h with
  | init => simp [init, recvLog, pushLog]
  | step _ hs ih =>
    rcases step_cases hs with ⟨ch', v, _, _, rfl⟩ | ⟨ch', it, rest, _, hq, rfl⟩ | ⟨m, _, _, rfl⟩ |
      ⟨m, _, _, rfl⟩ | ⟨k, _, rfl⟩ | ⟨k, v, _, _, rfl⟩
    · simp only [advance, pushLog_append, recvLog_append, ← ih, pushLog_single, recvLog_single]
      by_cases e : ch = ch'
      · subst e; simp [upd]
      · simp [upd, e, Ne.symm e]
    · simp only [advance, pushLog_append, recvLog_append, ← ih, pushLog_single, recvLog_single]
      by_cases e : ch = ch'
      · subst e; simp [upd, hq]
      · simp [upd, e, Ne.symm e]
    all_goals
      simp only [advance, pushLog_append, recvLog_append, ← ih, pushLog_single, recvLog_single]
      simp

/-- the items of producer `p` in the push log are the pushes of the part of `p`'s program that
    has been executed, in program order -/
theorem inv_pushLog_src {S : Sys} {c : Config} (h : Reachable S c) (ch p : Nat) :
    (pushLog ch c.trace).filter (fun it => it.src == p) = sends p ch ((S.prog p).take (c.pc p)) := by
  induction h with
  | init => simp [init, pushLog, sends]
  | @step c c' t _ hs ih =>
    rcases step_cases hs with ⟨ch', v, hc, _, rfl⟩ | ⟨ch', it, rest, hc, hq, rfl⟩ | ⟨m, hc, _, rfl⟩ |
      ⟨m, hc, _, rfl⟩ | ⟨k, hc, rfl⟩ | ⟨k, v, hc, _, rfl⟩
    · simp only [advance, pushLog_append, List.filter_append, pushLog_single, ih]
      by_cases e : p = t
      · subst e
        rw [upd_same, take_succ_of_cur hc, sends_append]
        by_cases e2 : ch' = ch <;> simp [sends, e2]
      · rw [upd_other _ _ e]
        by_cases e2 : ch' = ch <;> simp [e2, Ne.symm e]
    all_goals
      simp only [advance, pushLog_append, List.filter_append, pushLog_single, ih]
      by_cases e : p = t
      · subst e
        rw [upd_same, take_succ_of_cur hc, sends_append]
        simp [sends]
      · rw [upd_other _ _ e]
        simp

/-! ## invariant: capacity -/

theorem inv_capacity {S : Sys} {c : Config} (h : Reachable S c) (ch : Nat) :
    (c.queue ch).length ≤ max (S.cap ch) 1 := by
  induction h with
  | init => simp [init]
  | @step c c' t _ hs ih =>
    rcases step_cases hs with ⟨ch', v, hc, hp, rfl⟩ | ⟨ch', it, rest, hc, hq, rfl⟩ | ⟨m, hc, _, rfl⟩ |
      ⟨m, hc, _, rfl⟩ | ⟨k, hc, rfl⟩ | ⟨k, v, hc, _, rfl⟩
    · simp only [advance]
      by_cases e : ch = ch'
      · subst e
        simp only [upd_same, List.length_append, List.length_singleton]
        unfold canPush at hp
        split at hp
        · rename_i h0
          simp only [Bool.and_eq_true, List.isEmpty_iff] at hp
          rw [hp.1, h0]; simp
        · simp only [decide_eq_true_eq] at hp
          omega
      · rw [upd_other _ _ e]; exact ih
    · simp only [advance]
      by_cases e : ch = ch'
      · subst e
        rw [hq] at ih
        simp only [upd_same]
        simp only [List.length_cons] at ih
        omega
      · rw [upd_other _ _ e]; exact ih
    all_goals exact ih

/-! ## invariant: mutual exclusion -/

theorem heldFrom_single (hs : List Nat) (op : Op) :
    heldFrom hs [op] = match op with
      | .lock m => m :: hs
      | .unlock m => hs.erase m
      | _ => hs := by
  cases op <;> rfl

theorem inside_other {S : Sys} {c c' : Config} {t t' : Nat}
    (hpc : c'.pc = upd c.pc t (c.pc t + 1)) (ne : t' ≠ t) : inside S c' t' = inside S c t' := by
  unfold inside; rw [hpc, upd_other _ _ ne]

theorem inside_self {S : Sys} {c c' : Config} {t : Nat} {op : Op}
    (hpc : c'.pc = upd c.pc t (c.pc t + 1)) (hc : S.cur c t = some op) :
    inside S c' t = heldFrom (inside S c t) [op] := by
  unfold inside held
  rw [hpc, upd_same, take_succ_of_cur hc, heldFrom_append]

/-- the owner of a mutex is the one thread whose executed program prefix holds it -/
theorem inv_mutex {S : Sys} {c : Config} (h : Reachable S c) :
    (∀ m t, c.owner m = some t ↔ m ∈ inside S c t) ∧ ∀ t, (inside S c t).Nodup := by
  induction h with
  | init => simp [init, inside, held, heldFrom]
  | @step c c' t _ hs ih =>
    obtain ⟨ih1, ih2⟩ := ih
    rcases step_cases hs with ⟨ch', v, hc, hp, rfl⟩ | ⟨ch', it, rest, hc, hq, rfl⟩ | ⟨m, hc, ho, rfl⟩ |
      ⟨m, hc, ho, rfl⟩ | ⟨k, hc, rfl⟩ | ⟨k, v, hc, _, rfl⟩
    -- push
    · have hself := inside_self (S := S) (c := c) (c' := advance { c with queue := upd c.queue ch' (c.queue ch' ++ [⟨t, v⟩]) } t (.pushed t ch' ⟨t, v⟩)) rfl hc
      simp only [heldFrom_single] at hself
      refine ⟨fun m t' => ?_, fun t' => ?_⟩
      · by_cases e : t' = t
        · subst e; rw [hself]; exact ih1 m t'
        · rw [inside_other rfl e]; exact ih1 m t'
      · by_cases e : t' = t
        · subst e; rw [hself]; exact ih2 t'
        · rw [inside_other rfl e]; exact ih2 t'
    -- pop
    · have hself := inside_self (S := S) (c := c) (c' := advance { c with queue := upd c.queue ch' rest } t (.popped t ch' it)) rfl hc
      simp only [heldFrom_single] at hself
      refine ⟨fun m t' => ?_, fun t' => ?_⟩
      · by_cases e : t' = t
        · subst e; rw [hself]; exact ih1 m t'
        · rw [inside_other rfl e]; exact ih1 m t'
      · by_cases e : t' = t
        · subst e; rw [hself]; exact ih2 t'
        · rw [inside_other rfl e]; exact ih2 t'
    -- lock
    · have hself := inside_self (S := S) (c := c) (c' := advance { c with owner := upd c.owner m (some t) } t (.locked t m)) rfl hc
      simp only [heldFrom_single] at hself
      have hfree : ∀ t', m ∉ inside S c t' := fun t' hm => by
        have := (ih1 m t').mpr hm
        rw [ho] at this; cases this
      refine ⟨fun m' t' => ?_, fun t' => ?_⟩
      · simp only [advance] at hself ⊢
        by_cases e : t' = t
        · subst e
          rw [hself]
          by_cases em : m' = m
          · subst em; simp
          · rw [upd_other _ _ em, List.mem_cons]
            constructor
            · intro h; exact Or.inr ((ih1 m' t').mp h)
            · rintro (h | h)
              · exact absurd h em
              · exact (ih1 m' t').mpr h
        · rw [inside_other rfl e]
          by_cases em : m' = m
          · subst em
            rw [upd_same]
            constructor
            · intro h; exact absurd (Option.some.inj h).symm e
            · intro h; exact absurd h (hfree t')
          · rw [upd_other _ _ em]; exact ih1 m' t'
      · by_cases e : t' = t
        · subst e; rw [hself]; exact List.nodup_cons.mpr ⟨hfree t', ih2 t'⟩
        · rw [inside_other rfl e]; exact ih2 t'
    -- unlock
    · have hself := inside_self (S := S) (c := c) (c' := advance { c with owner := upd c.owner m none } t (.unlocked t m)) rfl hc
      simp only [heldFrom_single] at hself
      refine ⟨fun m' t' => ?_, fun t' => ?_⟩
      · simp only [advance] at hself ⊢
        by_cases e : t' = t
        · subst e
          rw [hself]
          by_cases em : m' = m
          · subst em
            rw [upd_same]
            constructor
            · intro h; cases h
            · intro h; exact absurd h (List.Nodup.not_mem_erase (ih2 t'))
          · rw [upd_other _ _ em]
            rw [List.mem_erase_of_ne em]; exact ih1 m' t'
        · rw [inside_other rfl e]
          by_cases em : m' = m
          · subst em
            rw [upd_same]
            constructor
            · intro h; cases h
            · intro h
              have := (ih1 m' t').mpr h
              rw [ho] at this
              exact absurd (Option.some.inj this).symm e
          · rw [upd_other _ _ em]; exact ih1 m' t'
      · by_cases e : t' = t
        · subst e; rw [hself]; exact (ih2 t').erase m
        · rw [inside_other rfl e]; exact ih2 t'
    -- load
    · have hself := inside_self (S := S) (c := c) (c' := advance { c with reg := upd c.reg t (some (k, c.value k)) } t (.loaded t k (c.value k))) rfl hc
      simp only [heldFrom_single] at hself
      refine ⟨fun m t' => ?_, fun t' => ?_⟩
      · by_cases e : t' = t
        · subst e; rw [hself]; exact ih1 m t'
        · rw [inside_other rfl e]; exact ih1 m t'
      · by_cases e : t' = t
        · subst e; rw [hself]; exact ih2 t'
        · rw [inside_other rfl e]; exact ih2 t'
    -- store
    · have hself := inside_self (S := S) (c := c) (c' := advance { c with value := upd c.value k (v + 1), reg := upd c.reg t none } t (.stored t k (v + 1))) rfl hc
      simp only [heldFrom_single] at hself
      refine ⟨fun m t' => ?_, fun t' => ?_⟩
      · by_cases e : t' = t
        · subst e; rw [hself]; exact ih1 m t'
        · rw [inside_other rfl e]; exact ih1 m t'
      · by_cases e : t' = t
        · subst e; rw [hself]; exact ih2 t'
        · rw [inside_other rfl e]; exact ih2 t'

/-! ## guarded programs -/

theorem guardedFrom_load {g : Nat → Nat} {hs : List Nat} {ops : List Op}
    (h : guardedFrom g hs ops = true) {i k : Nat} (hi : ops[i]? = some (.load k)) :
    g k ∈ heldFrom hs (ops.take i) ∧ ops[i + 1]? = some (.store k) := by
  fun_induction guardedFrom g hs ops generalizing i with
  | case1 hs => simp at hi
  | case2 hs k0 k' rest ih =>
    simp only [Bool.and_eq_true, beq_iff_eq, List.contains_iff_mem] at h
    obtain ⟨⟨hk, hm⟩, hr⟩ := h
    subst hk
    match i with
    | 0 =>
      simp at hi; subst hi
      simp [heldFrom, hm]
    | 1 => simp at hi
    | i + 2 =>
      simp only [List.getElem?_cons_succ] at hi
      have := ih hr hi
      simpa [heldFrom] using this
  | case3 hs k0 rest hne => simp at h
  | case4 hs k0 rest => simp at h
  | case5 hs m rest ih =>
    match i with
    | 0 => simp at hi
    | i + 1 =>
      simp only [List.getElem?_cons_succ] at hi
      have := ih h hi
      simpa [heldFrom] using this
  | case6 hs m rest ih =>
    match i with
    | 0 => simp at hi
    | i + 1 =>
      simp only [List.getElem?_cons_succ] at hi
      have := ih h hi
      simpa [heldFrom] using this
  | case7 hs ch v rest ih =>
    match i with
    | 0 => simp at hi
    | i + 1 =>
      simp only [List.getElem?_cons_succ] at hi
      have := ih h hi
      simpa [heldFrom] using this
  | case8 hs ch rest ih =>
    match i with
    | 0 => simp at hi
    | i + 1 =>
      simp only [List.getElem?_cons_succ] at hi
      have := ih h hi
      simpa [heldFrom] using this

theorem guarded_prog {S : Sys} {g : Nat → Nat} (hg : S.guarded g = true) (t : Nat) :
    guardedFrom g [] (S.prog t) = true := by
  unfold Sys.prog
  split
  · rename_i p hp
    unfold Sys.guarded at hg
    rw [List.all_eq_true] at hg
    exact hg p (List.mem_of_getElem? hp)
  · rfl

/-- a thread about to load counter `k` of a guarded system holds `g k` and stores next -/
theorem guarded_cur_load {S : Sys} {g : Nat → Nat} (hg : S.guarded g = true) {c : Config} {t k : Nat}
    (hc : S.cur c t = some (.load k)) :
    g k ∈ inside S c t ∧ (S.prog t)[c.pc t + 1]? = some (.store k) :=
  guardedFrom_load (guarded_prog hg t) hc

/-! ## invariant: guarded counters -/

/-- 1 when thread `t` has read counter `k` and not yet written it back -/
def pend (c : Config) (k t : Nat) : Nat :=
  match c.reg t with
  | some (k', _) => if k' = k then 1 else 0
  | none => 0

/-- number of threads in the middle of an increment of `k` -/
def pending (S : Sys) (c : Config) (k : Nat) : Nat := sumTo S.progs.length (pend c k)

theorem loadLog_append (k : Nat) (a b : List Event) :
    loadLog k (a ++ b) = loadLog k a ++ loadLog k b := by
  simp [loadLog, List.filterMap_append]

theorem loadLog_single (k : Nat) (e : Event) :
    loadLog k [e] = match e with
      | .loaded _ k' v => if k' = k then [v] else []
      | _ => [] := by
  cases e <;> simp [loadLog]
  split <;> simp_all

theorem doneIncr_step {S : Sys} {c c' : Config} {t : Nat} {op : Op} (k : Nat)
    (hpc : c'.pc = upd c.pc t (c.pc t + 1)) (hc : S.cur c t = some op) :
    doneIncr S c' k = doneIncr S c k + (if op = .store k then 1 else 0) := by
  unfold doneIncr
  have ht := cur_lt hc
  have hf : sumTo S.progs.length (fun t' => stores k ((S.prog t').take (c'.pc t'))) =
      sumTo S.progs.length (upd (fun t' => stores k ((S.prog t').take (c.pc t'))) t
        (stores k ((S.prog t).take (c.pc t)) + (if op = .store k then 1 else 0))) := by
    apply sumTo_congr
    intro t' _
    by_cases e : t' = t
    · subst e
      rw [upd_same, hpc, upd_same, take_succ_of_cur hc, stores_append]
      congr 1
      unfold stores
      by_cases e2 : op = .store k
      · simp [e2]
      · simp [e2]
    · rw [upd_other _ _ e, hpc, upd_other _ _ e]
  rw [hf]
  have := sumTo_upd (fun t' => stores k ((S.prog t').take (c.pc t'))) (t := t)
    (stores k ((S.prog t).take (c.pc t)) + (if op = .store k then 1 else 0)) ht
  omega

theorem pending_upd_reg {S : Sys} {c c' : Config} {t : Nat} (k : Nat) (ht : t < S.progs.length)
    (hreg : ∀ t', t' ≠ t → c'.reg t' = c.reg t') :
    pending S c' k + pend c k t = pending S c k + pend c' k t := by
  unfold pending
  have hf : sumTo S.progs.length (pend c' k) = sumTo S.progs.length (upd (pend c k) t (pend c' k t)) := by
    apply sumTo_congr
    intro t' _
    by_cases e : t' = t
    · subst e; rw [upd_same]
    · rw [upd_other _ _ e]; unfold pend; rw [hreg t' e]
  rw [hf]
  exact sumTo_upd (pend c k) (pend c' k t) ht

theorem pending_same_reg {S : Sys} {c c' : Config} (k : Nat) (hreg : c'.reg = c.reg) :
    pending S c' k = pending S c k := by
  unfold pending
  apply sumTo_congr
  intro t' _
  unfold pend; rw [hreg]

/-- For a guarded system: (J) a thread between load and store holds the guard, is about to store
    and its register is current; (K) the counter equals the number of completed increments;
    (L) the values read so far are 0, 1, 2, … and their number is counter + pending. -/
theorem inv_counter {S : Sys} {g : Nat → Nat} (hg : S.guarded g = true) {c : Config}
    (h : Reachable S c) :
    (∀ t k v, c.reg t = some (k, v) →
        v = c.value k ∧ S.cur c t = some (.store k) ∧ g k ∈ inside S c t) ∧
    (∀ k, c.value k = doneIncr S c k) ∧
    (∀ k, loadLog k c.trace = List.range (loadLog k c.trace).length ∧
        (loadLog k c.trace).length = c.value k + pending S c k) := by
  induction h with
  | init =>
    refine ⟨?_, ?_, ?_⟩
    · intro t k v h; simp [init] at h
    · intro k
      simp only [init, doneIncr]
      exact (sumTo_zero (fun t _ => by simp [stores])).symm
    · intro k
      have : pending S init k = 0 := sumTo_zero (fun t _ => by simp [pend, init])
      refine ⟨by simp [init, loadLog], ?_⟩
      rw [this]; simp [init, loadLog]
  | @step c c' t hr hs ih =>
    obtain ⟨ihJ, ihK, ihL⟩ := ih
    obtain ⟨hm1, hm2⟩ := inv_mutex hr
    -- a thread that executes anything but a store has an empty register
    have regNone : ∀ op, S.cur c t = some op → (∀ k, op ≠ .store k) → c.reg t = none := by
      intro op hc hne
      cases hreg : c.reg t with
      | none => rfl
      | some kv =>
        obtain ⟨k, v⟩ := kv
        have := (ihJ t k v hreg).2.1
        rw [hc] at this
        exact absurd (Option.some.inj this) (hne k)
    -- steps that touch neither registers nor counters
    have plain : ∀ (c'' : Config) (op : Op) (e : Event), S.cur c t = some op →
        (∀ k, op ≠ .store k) → (∀ k, op ≠ .load k) → (∀ t' k v, e ≠ .loaded t' k v) →
        c''.pc = upd c.pc t (c.pc t + 1) → c''.reg = c.reg → c''.value = c.value →
        c''.trace = c.trace ++ [e] → (∀ t', inside S c'' t' = inside S c t') →
        (∀ t k v, c''.reg t = some (k, v) →
            v = c''.value k ∧ S.cur c'' t = some (.store k) ∧ g k ∈ inside S c'' t) ∧
        (∀ k, c''.value k = doneIncr S c'' k) ∧
        (∀ k, loadLog k c''.trace = List.range (loadLog k c''.trace).length ∧
            (loadLog k c''.trace).length = c''.value k + pending S c'' k) := by
      intro c'' op e hc hns hnl hne hpc hreg hval htr hin
      have hrn := regNone op hc hns
      refine ⟨?_, ?_, ?_⟩
      · intro t' k v hr'
        rw [hreg] at hr'
        have ne : t' ≠ t := by
          intro e'; subst e'; rw [hrn] at hr'; cases hr'
        obtain ⟨h1, h2, h3⟩ := ihJ t' k v hr'
        refine ⟨by rw [hval]; exact h1, ?_, by rw [hin]; exact h3⟩
        unfold Sys.cur at h2 ⊢
        rw [hpc, upd_other _ _ ne]; exact h2
      · intro k
        rw [doneIncr_step k hpc hc, hval, ihK k]
        simp [hns k]
      · intro k
        have hl : loadLog k c''.trace = loadLog k c.trace := by
          rw [htr, loadLog_append, loadLog_single]
          cases e <;> simp
          rename_i t' k' v'
          exact absurd rfl (hne t' k' v')
        rw [hl, hval, pending_same_reg k hreg]
        exact ihL k
    rcases step_cases hs with ⟨ch', v, hc, hp, rfl⟩ | ⟨ch', it, rest, hc, hq, rfl⟩ | ⟨m, hc, ho, rfl⟩ |
      ⟨m, hc, ho, rfl⟩ | ⟨k0, hc, rfl⟩ | ⟨k0, v0, hc, hr0, rfl⟩
    -- push
    · refine plain _ _ _ hc (by simp) (by simp) (by simp) rfl rfl rfl rfl ?_
      intro t'
      by_cases e : t' = t
      · subst e; rw [inside_self rfl hc]; rfl
      · exact inside_other rfl e
    -- pop
    · refine plain _ _ _ hc (by simp) (by simp) (by simp) rfl rfl rfl rfl ?_
      intro t'
      by_cases e : t' = t
      · subst e; rw [inside_self rfl hc]; rfl
      · exact inside_other rfl e
    -- lock: `inside` changes for t, but t has an empty register
    · have hrn := regNone _ hc (by simp)
      refine ⟨?_, ?_, ?_⟩
      · intro t' k v hr'
        simp only [advance] at hr'
        have ne : t' ≠ t := by
          intro e'; subst e'; rw [hrn] at hr'; cases hr'
        obtain ⟨h1, h2, h3⟩ := ihJ t' k v hr'
        refine ⟨h1, ?_, by rw [inside_other rfl ne]; exact h3⟩
        unfold Sys.cur at h2 ⊢
        simp only [advance]
        rw [upd_other _ _ ne]; exact h2
      · intro k
        rw [doneIncr_step k rfl hc]
        simp only [advance]
        rw [ihK k]; simp
      · intro k
        simp only [advance, loadLog_append, loadLog_single, List.append_nil]
        have : pending S (advance { c with owner := upd c.owner m (some t) } t (.locked t m)) k
            = pending S c k := pending_same_reg k rfl
        simp only [advance] at this
        rw [this]; exact ihL k
    -- unlock
    · have hrn := regNone _ hc (by simp)
      refine ⟨?_, ?_, ?_⟩
      · intro t' k v hr'
        simp only [advance] at hr'
        have ne : t' ≠ t := by
          intro e'; subst e'; rw [hrn] at hr'; cases hr'
        obtain ⟨h1, h2, h3⟩ := ihJ t' k v hr'
        refine ⟨h1, ?_, by rw [inside_other rfl ne]; exact h3⟩
        unfold Sys.cur at h2 ⊢
        simp only [advance]
        rw [upd_other _ _ ne]; exact h2
      · intro k
        rw [doneIncr_step k rfl hc]
        simp only [advance]
        rw [ihK k]; simp
      · intro k
        simp only [advance, loadLog_append, loadLog_single, List.append_nil]
        have : pending S (advance { c with owner := upd c.owner m none } t (.unlocked t m)) k
            = pending S c k := pending_same_reg k rfl
        simp only [advance] at this
        rw [this]; exact ihL k
    -- load k0
    · have hrn := regNone _ hc (by simp)
      obtain ⟨hheld, hnext⟩ := guarded_cur_load hg hc
      have ht := cur_lt hc
      -- nobody is in the middle of an increment of k0
      have hnopend : pending S c k0 = 0 := by
        apply sumTo_zero
        intro t' _
        unfold pend
        cases hreg : c.reg t' with
        | none => rfl
        | some kv =>
          obtain ⟨k', v'⟩ := kv
          by_cases e : k' = k0
          · subst e
            have h3 := (ihJ t' k' v' hreg).2.2
            have o1 := (hm1 (g k') t').mpr h3
            have o2 := (hm1 (g k') t).mpr hheld
            rw [o1] at o2
            have : t' = t := Option.some.inj o2
            subst this
            rw [hrn] at hreg; cases hreg
          · simp [e]
      have hin : ∀ t', inside S (advance { c with reg := upd c.reg t (some (k0, c.value k0)) } t
          (.loaded t k0 (c.value k0))) t' = inside S c t' := by
        intro t'
        by_cases e : t' = t
        · subst e; rw [inside_self rfl hc]; rfl
        · exact inside_other rfl e
      refine ⟨?_, ?_, ?_⟩
      · intro t' k v hr'
        by_cases e : t' = t
        · subst e
          simp only [advance, upd_same, Option.some.injEq, Prod.mk.injEq] at hr'
          obtain ⟨rfl, rfl⟩ := hr'
          refine ⟨rfl, ?_, by rw [hin]; exact hheld⟩
          unfold Sys.cur
          simp only [advance, upd_same]
          exact hnext
        · simp only [advance] at hr'
          rw [upd_other _ _ e] at hr'
          obtain ⟨h1, h2, h3⟩ := ihJ t' k v hr'
          refine ⟨h1, ?_, by rw [hin]; exact h3⟩
          unfold Sys.cur at h2 ⊢
          simp only [advance]
          rw [upd_other _ _ e]; exact h2
      · intro k
        rw [doneIncr_step k rfl hc]
        simp only [advance]
        rw [ihK k]; simp
      · intro k
        have hpe := pending_upd_reg (S := S) (c := c)
          (c' := advance { c with reg := upd c.reg t (some (k0, c.value k0)) } t (.loaded t k0 (c.value k0)))
          k ht (fun t' ne => by simp only [advance]; exact upd_other _ _ ne)
        have hp0 : pend c k t = 0 := by unfold pend; rw [hrn]
        rw [hp0] at hpe
        obtain ⟨hl1, hl2⟩ := ihL k
        by_cases e : k0 = k
        · subst e
          have hp1 : pend (advance { c with reg := upd c.reg t (some (k0, c.value k0)) } t
              (.loaded t k0 (c.value k0))) k0 t = 1 := by
            unfold pend; simp [advance]
          rw [hp1, hnopend] at hpe
          rw [hnopend] at hl2
          simp only [advance, loadLog_append, loadLog_single, if_true, List.length_append,
            List.length_singleton] at hpe ⊢
          refine ⟨?_, by omega⟩
          rw [List.range_succ, ← hl1, hl2]; simp
        · have hp1 : pend (advance { c with reg := upd c.reg t (some (k0, c.value k0)) } t
              (.loaded t k0 (c.value k0))) k t = 0 := by
            unfold pend; simp [advance, e]
          rw [hp1] at hpe
          simp only [advance, loadLog_append, loadLog_single, if_neg e, List.append_nil] at hpe ⊢
          exact ⟨hl1, by omega⟩
    -- store k0
    · obtain ⟨hv, _, hheld⟩ := ihJ t k0 v0 hr0
      subst hv
      have ht := cur_lt hc
      have hin : ∀ t', inside S (advance { c with value := upd c.value k0 (c.value k0 + 1), reg := upd c.reg t none } t
          (.stored t k0 (c.value k0 + 1))) t' = inside S c t' := by
        intro t'
        by_cases e : t' = t
        · subst e; rw [inside_self rfl hc]; rfl
        · exact inside_other rfl e
      refine ⟨?_, ?_, ?_⟩
      · intro t' k v hr'
        by_cases e : t' = t
        · subst e
          simp [advance] at hr'
        · simp only [advance] at hr'
          rw [upd_other _ _ e] at hr'
          obtain ⟨h1, h2, h3⟩ := ihJ t' k v hr'
          have hk : k ≠ k0 := by
            intro ek; subst ek
            have o1 := (hm1 (g k) t').mpr h3
            have o2 := (hm1 (g k) t).mpr hheld
            rw [o1] at o2
            exact e (Option.some.inj o2)
          refine ⟨?_, ?_, by rw [hin]; exact h3⟩
          · simp only [advance]; rw [upd_other _ _ hk]; exact h1
          · unfold Sys.cur at h2 ⊢
            simp only [advance]
            rw [upd_other _ _ e]; exact h2
      · intro k
        rw [doneIncr_step k rfl hc]
        simp only [advance]
        by_cases e : k = k0
        · subst e; rw [upd_same, ihK k]; simp
        · rw [upd_other _ _ e, ihK k]
          have : Op.store k0 ≠ Op.store k := by
            intro h; injection h with h; exact e h.symm
          simp [this]
      · intro k
        have hpe := pending_upd_reg (S := S) (c := c)
          (c' := advance { c with value := upd c.value k0 (c.value k0 + 1), reg := upd c.reg t none } t (.stored t k0 (c.value k0 + 1)))
          k ht (fun t' ne => by simp only [advance]; exact upd_other _ _ ne)
        have hp1 : pend (advance { c with value := upd c.value k0 (c.value k0 + 1), reg := upd c.reg t none } t
            (.stored t k0 (c.value k0 + 1))) k t = 0 := by
          unfold pend; simp [advance]
        rw [hp1] at hpe
        obtain ⟨hl1, hl2⟩ := ihL k
        simp only [advance, loadLog_append, loadLog_single, List.append_nil] at hpe ⊢
        refine ⟨hl1, ?_⟩
        by_cases e : k = k0
        · subst e
          have hp0 : pend c k t = 1 := by unfold pend; rw [hr0]; simp
          rw [hp0] at hpe
          rw [upd_same]; omega
        · have hp0 : pend c k t = 0 := by
            unfold pend; rw [hr0]; simp [Ne.symm e]
          rw [hp0] at hpe
          rw [upd_other _ _ e]; omega

end SlipVerif.Conc
