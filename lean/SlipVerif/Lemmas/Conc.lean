import SlipVerif.Model.Conc
import Mathlib.Data.List.Basic
import Mathlib.Data.List.Nodup
import Mathlib.Data.List.Perm.Basic
import Mathlib.Data.List.Count
import Mathlib.Data.List.Infix
import Mathlib.Tactic.Linarith
/-
  Helper lemmas for Theorems/C17.lean: the reachable configurations of the interleaving
  semantics and the invariants they satisfy (one induction over the schedule each).
-/
namespace SlipVerif.Conc

/-! ## basic facts -/

@[simp] theorem upd_same {α : Type} (f : Nat → α) (k : Nat) (v : α) : upd f k v k = v := by
  simp [upd]

theorem upd_other {α : Type} (f : Nat → α) {k x : Nat} (v : α) (h : x ≠ k) : upd f k v x = f x := by
  simp [upd, h]

theorem sumTo_congr {n : Nat} {f g : Nat → Nat} (h : ∀ t, t < n → f t = g t) :
    sumTo n f = sumTo n g := by
  induction n with
  | zero => rfl
  | succ n ih =>
    simp only [sumTo]
    rw [ih (fun t ht => h t (Nat.lt_succ_of_lt ht)), h n (Nat.lt_succ_self n)]

theorem sumTo_upd {n : Nat} (f : Nat → Nat) {t : Nat} (v : Nat) (ht : t < n) :
    sumTo n (upd f t v) + f t = sumTo n f + v := by
  induction n with
  | zero => omega
  | succ n ih =>
    simp only [sumTo]
    by_cases h : t = n
    · subst h
      have : sumTo t (upd f t v) = sumTo t f :=
        sumTo_congr (fun x hx => upd_other f v (Nat.ne_of_lt hx))
      rw [this, upd_same]; omega
    · have ht' : t < n := by omega
      have := ih ht'
      rw [upd_other f v (Ne.symm h)]; omega

theorem sumTo_zero {n : Nat} {f : Nat → Nat} (h : ∀ t, t < n → f t = 0) : sumTo n f = 0 := by
  induction n with
  | zero => rfl
  | succ n ih =>
    simp only [sumTo]
    rw [ih (fun t ht => h t (Nat.lt_succ_of_lt ht)), h n (Nat.lt_succ_self n)]

theorem sumTo_pos {n : Nat} {f : Nat → Nat} {t : Nat} (ht : t < n) (h : 0 < f t) : 0 < sumTo n f := by
  induction n with
  | zero => omega
  | succ n ih =>
    simp only [sumTo]
    by_cases e : t = n
    · subst e; omega
    · have := ih (by omega); omega

theorem heldFrom_append (hs : List Nat) (a b : List Op) :
    heldFrom hs (a ++ b) = heldFrom (heldFrom hs a) b := by
  induction a generalizing hs with
  | nil => rfl
  | cons op a ih => cases op <;> simp [heldFrom, ih]

theorem sends_append (p ch : Nat) (a b : List Op) :
    sends p ch (a ++ b) = sends p ch a ++ sends p ch b := by
  simp [sends, List.filterMap_append]

theorem stores_append (k : Nat) (a b : List Op) : stores k (a ++ b) = stores k a + stores k b := by
  simp [stores, List.count_append]

/-! ## programs and program counters -/

theorem prog_nil_of_ge (S : Sys) {t : Nat} (h : S.progs.length ≤ t) : S.prog t = [] := by
  unfold Sys.prog
  rw [List.getElem?_eq_none h]

theorem cur_lt {S : Sys} {c : Config} {t : Nat} {op : Op} (h : S.cur c t = some op) :
    t < S.progs.length := by
  by_contra hn
  have : S.prog t = [] := prog_nil_of_ge S (by omega)
  simp [Sys.cur, this] at h

theorem take_succ_of_cur {S : Sys} {c : Config} {t : Nat} {op : Op} (h : S.cur c t = some op) :
    (S.prog t).take (c.pc t + 1) = (S.prog t).take (c.pc t) ++ [op] := by
  unfold Sys.cur at h
  rw [List.take_add_one, h]; rfl

theorem take_of_cur_none {S : Sys} {c : Config} {t : Nat} (h : S.cur c t = none) :
    (S.prog t).take (c.pc t) = S.prog t := by
  unfold Sys.cur at h
  exact List.take_of_length_le (List.getElem?_eq_none_iff.mp h)

theorem quiescent_iff {S : Sys} {c : Config} :
    quiescent S c = true ↔ ∀ t, S.cur c t = none := by
  unfold quiescent
  rw [List.all_eq_true]
  constructor
  · intro h t
    by_cases ht : t < S.progs.length
    · have := h t (List.mem_range.mpr ht)
      simpa using this
    · have : S.prog t = [] := prog_nil_of_ge S (by omega)
      simp [Sys.cur, this]
  · intro h t _
    simp [h t]

/-! ## steps -/

/-- the effect of a step, by the operation executed -/
theorem step_cases {S : Sys} {c c' : Config} {t : Nat} (h : step S c t = some c') :
    (∃ ch v, S.cur c t = some (.push ch v) ∧ canPush S c ch = true ∧
        c' = advance { c with queue := upd c.queue ch (c.queue ch ++ [⟨t, v⟩]) } t (.pushed t ch ⟨t, v⟩)) ∨
    (∃ ch it rest, S.cur c t = some (.pop ch) ∧ c.queue ch = it :: rest ∧
        c' = advance { c with queue := upd c.queue ch rest } t (.popped t ch it)) ∨
    (∃ m, S.cur c t = some (.lock m) ∧ c.owner m = none ∧
        c' = advance { c with owner := upd c.owner m (some t) } t (.locked t m)) ∨
    (∃ m, S.cur c t = some (.unlock m) ∧ c.owner m = some t ∧
        c' = advance { c with owner := upd c.owner m none } t (.unlocked t m)) ∨
    (∃ k, S.cur c t = some (.load k) ∧
        c' = advance { c with reg := upd c.reg t (some (k, c.value k)) } t (.loaded t k (c.value k))) ∨
    (∃ k v, S.cur c t = some (.store k) ∧ c.reg t = some (k, v) ∧
        c' = advance { c with value := upd c.value k (v + 1), reg := upd c.reg t none } t
          (.stored t k (v + 1))) := by
  unfold step at h
  split at h
  · simp at h
  · rename_i ch v hc
    split at h
    · rename_i hp
      left; exact ⟨ch, v, hc, hp, (Option.some.inj h).symm⟩
    · simp at h
  · rename_i ch hc
    split at h
    · simp at h
    · rename_i it rest hq
      right; left; exact ⟨ch, it, rest, hc, hq, (Option.some.inj h).symm⟩
  · rename_i m hc
    split at h
    · rename_i ho
      right; right; left; exact ⟨m, hc, ho, (Option.some.inj h).symm⟩
    · simp at h
  · rename_i m hc
    split at h
    · rename_i ho
      right; right; right; left; exact ⟨m, hc, ho, (Option.some.inj h).symm⟩
    · simp at h
  · rename_i k hc
    right; right; right; right; left; exact ⟨k, hc, (Option.some.inj h).symm⟩
  · rename_i k hc
    split at h
    · simp at h
    · rename_i k' v hr
      split at h
      · rename_i hk
        subst hk
        right; right; right; right; right; exact ⟨k', v, hc, hr, (Option.some.inj h).symm⟩
      · simp at h

/-- configurations reachable from the initial one -/
inductive Reachable (S : Sys) : Config → Prop where
  | init : Reachable S init
  | step {c c' : Config} {t : Nat} : Reachable S c → step S c t = some c' → Reachable S c'

theorem reachable_stepOrStay {S : Sys} {c : Config} (h : Reachable S c) (t : Nat) :
    Reachable S (stepOrStay S c t) := by
  unfold stepOrStay
  split
  · rename_i c' hs; exact Reachable.step h hs
  · exact h

theorem reachable_exec {S : Sys} {c : Config} (h : Reachable S c) (sched : List Nat) :
    Reachable S (exec S c sched) := by
  induction sched generalizing c with
  | nil => exact h
  | cons t ts ih => exact ih (reachable_stepOrStay h t)

/-! ## invariant: channel conservation -/

theorem pushLog_append (ch : Nat) (a b : List Event) :
    pushLog ch (a ++ b) = pushLog ch a ++ pushLog ch b := by
  simp [pushLog, List.filterMap_append]

theorem recvLog_append (ch : Nat) (a b : List Event) :
    recvLog ch (a ++ b) = recvLog ch a ++ recvLog ch b := by
  simp [recvLog, List.filterMap_append]

theorem pushLog_single (ch : Nat) (e : Event) :
    pushLog ch [e] = match e with
      | .pushed _ ch' it => if ch' = ch then [it] else []
      | _ => [] := by
  cases e <;> simp [pushLog]
  split <;> simp_all

theorem recvLog_single (ch : Nat) (e : Event) :
    recvLog ch [e] = match e with
      | .popped _ ch' it => if ch' = ch then [it] else []
      | _ => [] := by
  cases e <;> simp [recvLog]
  split <;> simp_all

/-- what was pushed on a channel = what was received from it followed by what it still holds -/
theorem inv_conservation {S : Sys} {c : Config} (h : Reachable S c) (ch : Nat) :
    recvLog ch c.trace ++ c.queue ch = pushLog ch c.trace := by
  induction h with
  | init => simp [init, recvLog, pushLog]
  | step _ hs ih =>
    rcases step_cases hs with ⟨ch', v, _, _, rfl⟩ | ⟨ch', it, rest, _, hq, rfl⟩ | ⟨m, _, _, rfl⟩ |
      ⟨m, _, _, rfl⟩ | ⟨k, _, rfl⟩ | ⟨k, v, _, _, rfl⟩
    · simp only [advance, pushLog_append, recvLog_append, ← ih, pushLog_single, recvLog_single]
      by_cases e : ch = ch'
      · subst e; simp [upd]
      · simp [upd, e, Ne.symm e]
    · simp only [advance, pushLog_append, recvLog_append, ← ih, pushLog_single, recvLog_single]
      by_cases e : ch = ch'
      · subst e; simp [upd, hq]
      · simp [upd, e, Ne.symm e]
    all_goals
      simp only [advance, pushLog_append, recvLog_append, ← ih, pushLog_single, recvLog_single]
      simp

/-- the items of producer `p` in the push log are the pushes of the part of `p`'s program that
    has been executed, in program order -/
theorem inv_pushLog_src {S : Sys} {c : Config} (h : Reachable S c) (ch p : Nat) :
    (pushLog ch c.trace).filter (fun it => it.src == p) = sends p ch ((S.prog p).take (c.pc p)) := by
  induction h with
  | init => simp [init, pushLog, sends]
  | @step c c' t _ hs ih =>
    rcases step_cases hs with ⟨ch', v, hc, _, rfl⟩ | ⟨ch', it, rest, hc, hq, rfl⟩ | ⟨m, hc, _, rfl⟩ |
      ⟨m, hc, _, rfl⟩ | ⟨k, hc, rfl⟩ | ⟨k, v, hc, _, rfl⟩
    · simp only [advance, pushLog_append, List.filter_append, pushLog_single, ih]
      by_cases e : p = t
      · subst e
        rw [upd_same, take_succ_of_cur hc, sends_append]
        by_cases e2 : ch' = ch <;> simp [sends, e2]
      · rw [upd_other _ _ e]
        by_cases e2 : ch' = ch <;> simp [e2, Ne.symm e]
    all_goals
      simp only [advance, pushLog_append, List.filter_append, pushLog_single, ih]
      by_cases e : p = t
      · subst e
        rw [upd_same, take_succ_of_cur hc, sends_append]
        simp [sends]
      · rw [upd_other _ _ e]
        simp

/-! ## invariant: capacity -/

theorem inv_capacity {S : Sys} {c : Config} (h : Reachable S c) (ch : Nat) :
    (c.queue ch).length ≤ max (S.cap ch) 1 := by
  induction h with
  | init => simp [init]
  | @step c c' t _ hs ih =>
    rcases step_cases hs with ⟨ch', v, hc, hp, rfl⟩ | ⟨ch', it, rest, hc, hq, rfl⟩ | ⟨m, hc, _, rfl⟩ |
      ⟨m, hc, _, rfl⟩ | ⟨k, hc, rfl⟩ | ⟨k, v, hc, _, rfl⟩
    · simp only [advance]
      by_cases e : ch = ch'
      · subst e
        simp only [upd_same, List.length_append, List.length_singleton]
        unfold canPush at hp
        split at hp
        · rename_i h0
          simp only [Bool.and_eq_true, List.isEmpty_iff] at hp
          rw [hp.1, h0]; simp
        · simp only [decide_eq_true_eq] at hp
          omega
      · rw [upd_other _ _ e]; exact ih
    · simp only [advance]
      by_cases e : ch = ch'
      · subst e
        rw [hq] at ih
        simp only [upd_same]
        simp only [List.length_cons] at ih
        omega
      · rw [upd_other _ _ e]; exact ih
    all_goals exact ih

/-! ## invariant: mutual exclusion -/

theorem heldFrom_single (hs : List Nat) (op : Op) :
    heldFrom hs [op] = match op with
      | .lock m => m :: hs
      | .unlock m => hs.erase m
      | _ => hs := by
  cases op <;> rfl

theorem inside_other {S : Sys} {c c' : Config} {t t' : Nat}
    (hpc : c'.pc = upd c.pc t (c.pc t + 1)) (ne : t' ≠ t) : inside S c' t' = inside S c t' := by
  unfold inside; rw [hpc, upd_other _ _ ne]

theorem inside_self {S : Sys} {c c' : Config} {t : Nat} {op : Op}
    (hpc : c'.pc = upd c.pc t (c.pc t + 1)) (hc : S.cur c t = some op) :
    inside S c' t = heldFrom (inside S c t) [op] := by
  unfold inside held
  rw [hpc, upd_same, take_succ_of_cur hc, heldFrom_append]

/-- the owner of a mutex is the one thread whose executed program prefix holds it -/
theorem inv_mutex {S : Sys} {c : Config} (h : Reachable S c) :
    (∀ m t, c.owner m = some t ↔ m ∈ inside S c t) ∧ ∀ t, (inside S c t).Nodup := by
  induction h with
  | init => simp [init, inside, held, heldFrom]
  | @step c c' t _ hs ih =>
    obtain ⟨ih1, ih2⟩ := ih
    rcases step_cases hs with ⟨ch', v, hc, hp, rfl⟩ | ⟨ch', it, rest, hc, hq, rfl⟩ | ⟨m, hc, ho, rfl⟩ |
      ⟨m, hc, ho, rfl⟩ | ⟨k, hc, rfl⟩ | ⟨k, v, hc, _, rfl⟩
    -- push
    · have hself := inside_self (S := S) (c := c) (c' := advance { c with queue := upd c.queue ch' (c.queue ch' ++ [⟨t, v⟩]) } t (.pushed t ch' ⟨t, v⟩)) rfl hc
      simp only [heldFrom_single] at hself
      refine ⟨fun m t' => ?_, fun t' => ?_⟩
      · by_cases e : t' = t
        · subst e; rw [hself]; exact ih1 m t'
        · rw [inside_other rfl e]; exact ih1 m t'
      · by_cases e : t' = t
        · subst e; rw [hself]; exact ih2 t'
        · rw [inside_other rfl e]; exact ih2 t'
    -- pop
    · have hself := inside_self (S := S) (c := c) (c' := advance { c with queue := upd c.queue ch' rest } t (.popped t ch' it)) rfl hc
      simp only [heldFrom_single] at hself
      refine ⟨fun m t' => ?_, fun t' => ?_⟩
      · by_cases e : t' = t
        · subst e; rw [hself]; exact ih1 m t'
        · rw [inside_other rfl e]; exact ih1 m t'
      · by_cases e : t' = t
        · subst e; rw [hself]; exact ih2 t'
        · rw [inside_other rfl e]; exact ih2 t'
    -- lock
    · have hself := inside_self (S := S) (c := c) (c' := advance { c with owner := upd c.owner m (some t) } t (.locked t m)) rfl hc
      simp only [heldFrom_single] at hself
      have hfree : ∀ t', m ∉ inside S c t' := fun t' hm => by
        have := (ih1 m t').mpr hm
        rw [ho] at this; cases this
      refine ⟨fun m' t' => ?_, fun t' => ?_⟩
      · simp only [advance] at hself ⊢
        by_cases e : t' = t
        · subst e
          rw [hself]
          by_cases em : m' = m
          · subst em; simp
          · rw [upd_other _ _ em, List.mem_cons]
            constructor
            · intro h; exact Or.inr ((ih1 m' t').mp h)
            · rintro (h | h)
              · exact absurd h em
              · exact (ih1 m' t').mpr h
        · rw [inside_other rfl e]
          by_cases em : m' = m
          · subst em
            rw [upd_same]
            constructor
            · intro h; exact absurd (Option.some.inj h).symm e
            · intro h; exact absurd h (hfree t')
          · rw [upd_other _ _ em]; exact ih1 m' t'
      · by_cases e : t' = t
        · subst e; rw [hself]; exact List.nodup_cons.mpr ⟨hfree t', ih2 t'⟩
        · rw [inside_other rfl e]; exact ih2 t'
    -- unlock
    · have hself := inside_self (S := S) (c := c) (c' := advance { c with owner := upd c.owner m none } t (.unlocked t m)) rfl hc
      simp only [heldFrom_single] at hself
      refine ⟨fun m' t' => ?_, fun t' => ?_⟩
      · simp only [advance] at hself ⊢
        by_cases e : t' = t
        · subst e
          rw [hself]
          by_cases em : m' = m
          · subst em
            rw [upd_same]
            constructor
            · intro h; cases h
            · intro h; exact absurd h (List.Nodup.not_mem_erase (ih2 t'))
          · rw [upd_other _ _ em]
            rw [List.mem_erase_of_ne em]; exact ih1 m' t'
        · rw [inside_other rfl e]
          by_cases em : m' = m
          · subst em
            rw [upd_same]
            constructor
            · intro h; cases h
            · intro h
              have := (ih1 m' t').mpr h
              rw [ho] at this
              exact absurd (Option.some.inj this).symm e
          · rw [upd_other _ _ em]; exact ih1 m' t'
      · by_cases e : t' = t
        · subst e; rw [hself]; exact (ih2 t').erase m
        · rw [inside_other rfl e]; exact ih2 t'
    -- load
    · have hself := inside_self (S := S) (c := c) (c' := advance { c with reg := upd c.reg t (some (k, c.value k)) } t (.loaded t k (c.value k))) rfl hc
      simp only [heldFrom_single] at hself
      refine ⟨fun m t' => ?_, fun t' => ?_⟩
      · by_cases e : t' = t
        · subst e; rw [hself]; exact ih1 m t'
        · rw [inside_other rfl e]; exact ih1 m t'
      · by_cases e : t' = t
        · subst e; rw [hself]; exact ih2 t'
        · rw [inside_other rfl e]; exact ih2 t'
    -- store
    · have hself := inside_self (S := S) (c := c) (c' := advance { c with value := upd c.value k (v + 1), reg := upd c.reg t none } t (.stored t k (v + 1))) rfl hc
      simp only [heldFrom_single] at hself
      refine ⟨fun m t' => ?_, fun t' => ?_⟩
      · by_cases e : t' = t
        · subst e; rw [hself]; exact ih1 m t'
        · rw [inside_other rfl e]; exact ih1 m t'
      · by_cases e : t' = t
        · subst e; rw [hself]; exact ih2 t'
        · rw [inside_other rfl e]; exact ih2 t'

end SlipVerif.Conc
