import SlipVerif.Model.Conc
import Mathlib.Data.List.Basic
import Mathlib.Data.List.Nodup
import Mathlib.Data.List.Perm.Basic
import Mathlib.Data.List.Perm.Subperm
import Mathlib.Data.List.Count
import Mathlib.Data.List.Infix
import Mathlib.Tactic.Linarith
/-
  Helper lemmas for Theorems/C17.lean: the reachable configurations of the interleaving
  semantics and the invariants they satisfy (one induction over the schedule each).
-/
namespace SlipVerif.Conc

/-! ## basic facts -/

@[simp] theorem upd_same {α : Type} (f : Nat → α) (k : Nat) (v : α) : upd f k v k = v := by
  simp [upd]

theorem upd_other {α : Type} (f : Nat → α) {k x : Nat} (v : α) (h : x ≠ k) : upd f k v x = f x := by
  simp [upd, h]

theorem sumTo_congr {n : Nat} {f g : Nat → Nat} (h : ∀ t, t < n → f t = g t) :
    sumTo n f = sumTo n g := by
  induction n with
  | zero => rfl
  | succ n ih =>
    simp only [sumTo]
    rw [ih (fun t ht => h t (Nat.lt_succ_of_lt ht)), h n (Nat.lt_succ_self n)]

theorem sumTo_upd {n : Nat} (f : Nat → Nat) {t : Nat} (v : Nat) (ht : t < n) :
    sumTo n (upd f t v) + f t = sumTo n f + v := by
  induction n with
  | zero => omega
  | succ n ih =>
    simp only [sumTo]
    by_cases h : t = n
    · subst h
      have : sumTo t (upd f t v) = sumTo t f :=
        sumTo_congr (fun x hx => upd_other f v (Nat.ne_of_lt hx))
      rw [this, upd_same]; omega
    · have ht' : t < n := by omega
      have := ih ht'
      rw [upd_other f v (Ne.symm h)]; omega

theorem sumTo_zero {n : Nat} {f : Nat → Nat} (h : ∀ t, t < n → f t = 0) : sumTo n f = 0 := by
  induction n with
  | zero => rfl
  | succ n ih =>
    simp only [sumTo]
    rw [ih (fun t ht => h t (Nat.lt_succ_of_lt ht)), h n (Nat.lt_succ_self n)]

theorem sumTo_pos {n : Nat} {f : Nat → Nat} {t : Nat} (ht : t < n) (h : 0 < f t) : 0 < sumTo n f := by
  induction n with
  | zero => omega
  | succ n ih =>
    simp only [sumTo]
    by_cases e : t = n
    · subst e; omega
    · have := ih (by omega); omega

theorem heldFrom_append (hs : List Nat) (a b : List Op) :
    heldFrom hs (a ++ b) = heldFrom (heldFrom hs a) b := by
  induction a generalizing hs with
  | nil => rfl
  | cons op a ih => cases op <;> simp [heldFrom, ih]

theorem sends_append (p ch : Nat) (a b : List Op) :
    sends p ch (a ++ b) = sends p ch a ++ sends p ch b := by
  simp [sends, List.filterMap_append]

theorem stores_append (k : Nat) (a b : List Op) : stores k (a ++ b) = stores k a + stores k b := by
  simp [stores, List.count_append]

/-! ## programs and program counters -/

theorem prog_nil_of_ge (S : Sys) {t : Nat} (h : S.progs.length ≤ t) : S.prog t = [] := by
  unfold Sys.prog
  rw [List.getElem?_eq_none h]

theorem cur_lt {S : Sys} {c : Config} {t : Nat} {op : Op} (h : S.cur c t = some op) :
    t < S.progs.length := by
  by_contra hn
  have : S.prog t = [] := prog_nil_of_ge S (by omega)
  simp [Sys.cur, this] at h

theorem take_succ_of_cur {S : Sys} {c : Config} {t : Nat} {op : Op} (h : S.cur c t = some op) :
    (S.prog t).take (c.pc t + 1) = (S.prog t).take (c.pc t) ++ [op] := by
  unfold Sys.cur at h
  rw [List.take_add_one, h]; rfl

theorem take_of_cur_none {S : Sys} {c : Config} {t : Nat} (h : S.cur c t = none) :
    (S.prog t).take (c.pc t) = S.prog t := by
  unfold Sys.cur at h
  exact List.take_of_length_le (List.getElem?_eq_none_iff.mp h)

theorem quiescent_iff {S : Sys} {c : Config} :
    quiescent S c = true ↔ ∀ t, S.cur c t = none := by
  unfold quiescent
  rw [List.all_eq_true]
  constructor
  · intro h t
    by_cases ht : t < S.progs.length
    · have := h t (List.mem_range.mpr ht)
      simpa using this
    · have : S.prog t = [] := prog_nil_of_ge S (by omega)
      simp [Sys.cur, this]
  · intro h t _
    simp [h t]

/-! ## steps -/

/-- the effect of a step, by the operation executed -/
theorem step_cases {S : Sys} {c c' : Config} {t k : Nat} (h : step S c t k = some c') :
    (∃ ch v, S.cur c t = some (.push ch v) ∧ canPush S c ch = true ∧
        c' = advance { c with queue := upd c.queue ch (c.queue ch ++ [⟨t, v⟩]) } t (.pushed t ch ⟨t, v⟩)) ∨
    (∃ op ch it rest, S.cur c t = some op ∧ (op = .pop ch ∨ ∃ chs, op = .sel chs ∧ selChan c chs k = some ch) ∧
        c.queue ch = it :: rest ∧
        c' = advance { c with queue := upd c.queue ch rest } t (.popped t ch it)) ∨
    (∃ m, S.cur c t = some (.lock m) ∧ c.owner m = none ∧
        c' = advance { c with owner := upd c.owner m (some t) } t (.locked t m)) ∨
    (∃ m, S.cur c t = some (.unlock m) ∧ c.owner m = some t ∧
        c' = advance { c with owner := upd c.owner m none } t (.unlocked t m)) ∨
    (∃ k, S.cur c t = some (.load k) ∧
        c' = advance { c with reg := upd c.reg t (some (k, c.value k)) } t (.loaded t k (c.value k))) ∨
    (∃ k v, S.cur c t = some (.store k) ∧ c.reg t = some (k, v) ∧
        c' = advance { c with value := upd c.value k (v + 1), reg := upd c.reg t none } t
          (.stored t k (v + 1))) := by
  unfold step at h
  split at h
  · simp at h
  · rename_i ch v hc
    split at h
    · rename_i hp
      left; exact ⟨ch, v, hc, hp, (Option.some.inj h).symm⟩
    · simp at h
  · rename_i ch hc
    split at h
    · simp at h
    · rename_i it rest hq
      right; left; exact ⟨_, ch, it, rest, hc, Or.inl rfl, hq, (Option.some.inj h).symm⟩
  · rename_i chs hc
    split at h
    · simp at h
    · rename_i ch hsel
      split at h
      · simp at h
      · rename_i it rest hq
        right; left
        exact ⟨_, ch, it, rest, hc, Or.inr ⟨chs, rfl, hsel⟩, hq, (Option.some.inj h).symm⟩
  · rename_i m hc
    split at h
    · rename_i ho
      right; right; left; exact ⟨m, hc, ho, (Option.some.inj h).symm⟩
    · simp at h
  · rename_i m hc
    split at h
    · rename_i ho
      right; right; right; left; exact ⟨m, hc, ho, (Option.some.inj h).symm⟩
    · simp at h
  · rename_i k hc
    right; right; right; right; left; exact ⟨k, hc, (Option.some.inj h).symm⟩
  · rename_i k hc
    split at h
    · simp at h
    · rename_i k' v hr
      split at h
      · rename_i hk
        subst hk
        right; right; right; right; right; exact ⟨k', v, hc, hr, (Option.some.inj h).symm⟩
      · simp at h

/-- configurations reachable from the initial one -/
inductive Reachable (S : Sys) : Config → Prop where
  | init : Reachable S init
  | step {c c' : Config} {t k : Nat} : Reachable S c → step S c t k = some c' → Reachable S c'

theorem reachable_stepOrStay {S : Sys} {c : Config} (h : Reachable S c) (t : Nat × Nat) :
    Reachable S (stepOrStay S c t) := by
  unfold stepOrStay
  split
  · rename_i c' hs; exact Reachable.step h hs
  · exact h

theorem reachable_exec {S : Sys} {c : Config} (h : Reachable S c) (sched : List (Nat × Nat)) :
    Reachable S (exec S c sched) := by
  induction sched generalizing c with
  | nil => exact h
  | cons t ts ih => exact ih (reachable_stepOrStay h t)

/-! ## invariant: channel conservation -/

theorem pushLog_append (ch : Nat) (a b : List Event) :
    pushLog ch (a ++ b) = pushLog ch a ++ pushLog ch b := by
  simp [pushLog, List.filterMap_append]

theorem recvLog_append (ch : Nat) (a b : List Event) :
    recvLog ch (a ++ b) = recvLog ch a ++ recvLog ch b := by
  simp [recvLog, List.filterMap_append]

theorem pushLog_single (ch : Nat) (e : Event) :
    pushLog ch [e] = match e with
      | .pushed _ ch' it => if ch' = ch then [it] else []
      | _ => [] := by
  cases e <;> simp [pushLog]
  split <;> simp_all

theorem recvLog_single (ch : Nat) (e : Event) :
    recvLog ch [e] = match e with
      | .popped _ ch' it => if ch' = ch then [it] else []
      | _ => [] := by
  cases e <;> simp [recvLog]
  split <;> simp_all

/-- what was pushed on a channel = what was received from it followed by what it still holds -/
theorem inv_conservation {S : Sys} {c : Config} (h : Reachable S c) (ch : Nat) :
    recvLog ch c.trace ++ c.queue ch = pushLog ch c.trace := by
  induction h with
  | init => simp [init, recvLog, pushLog]
  | step _ hs ih =>
    rcases step_cases hs with ⟨ch', v, _, _, rfl⟩ | ⟨_, ch', it, rest, _, _, hq, rfl⟩ | ⟨m, _, _, rfl⟩ |
      ⟨m, _, _, rfl⟩ | ⟨k, _, rfl⟩ | ⟨k, v, _, _, rfl⟩
    · simp only [advance, pushLog_append, recvLog_append, ← ih, pushLog_single, recvLog_single]
      by_cases e : ch = ch'
      · subst e; simp [upd]
      · simp [upd, e, Ne.symm e]
    · simp only [advance, pushLog_append, recvLog_append, ← ih, pushLog_single, recvLog_single]
      by_cases e : ch = ch'
      · subst e; simp [upd, hq]
      · simp [upd, e, Ne.symm e]
    all_goals
      simp only [advance, pushLog_append, recvLog_append, ← ih, pushLog_single, recvLog_single]
      simp

/-- the items of producer `p` in the push log are the pushes of the part of `p`'s program that
    has been executed, in program order -/
theorem inv_pushLog_src {S : Sys} {c : Config} (h : Reachable S c) (ch p : Nat) :
    (pushLog ch c.trace).filter (fun it => it.src == p) = sends p ch ((S.prog p).take (c.pc p)) := by
  induction h with
  | init => simp [init, pushLog, sends]
  | @step c c' t kk _ hs ih =>
    rcases step_cases hs with ⟨ch', v, hc, _, rfl⟩ | ⟨op, ch', it, rest, hc, hrecv, hq, rfl⟩ | ⟨m, hc, _, rfl⟩ |
      ⟨m, hc, _, rfl⟩ | ⟨k, hc, rfl⟩ | ⟨k, v, hc, _, rfl⟩
    · simp only [advance, pushLog_append, List.filter_append, pushLog_single, ih]
      by_cases e : p = t
      · subst e
        rw [upd_same, take_succ_of_cur hc, sends_append]
        by_cases e2 : ch' = ch <;> simp [sends, e2]
      · rw [upd_other _ _ e]
        by_cases e2 : ch' = ch <;> simp [e2, Ne.symm e]
    · rcases hrecv with rfl | ⟨chs, rfl, _⟩
      all_goals
        simp only [advance, pushLog_append, List.filter_append, pushLog_single, ih]
        by_cases e : p = t
        · subst e
          rw [upd_same, take_succ_of_cur hc, sends_append]
          simp [sends]
        · rw [upd_other _ _ e]
          simp
    all_goals
      simp only [advance, pushLog_append, List.filter_append, pushLog_single, ih]
      by_cases e : p = t
      · subst e
        rw [upd_same, take_succ_of_cur hc, sends_append]
        simp [sends]
      · rw [upd_other _ _ e]
        simp

/-! ## invariant: capacity -/

theorem inv_capacity {S : Sys} {c : Config} (h : Reachable S c) (ch : Nat) :
    (c.queue ch).length ≤ max (S.cap ch) 1 := by
  induction h with
  | init => simp [init]
  | @step c c' t kk _ hs ih =>
    rcases step_cases hs with ⟨ch', v, hc, hp, rfl⟩ | ⟨op, ch', it, rest, hc, hrecv, hq, rfl⟩ | ⟨m, hc, _, rfl⟩ |
      ⟨m, hc, _, rfl⟩ | ⟨k, hc, rfl⟩ | ⟨k, v, hc, _, rfl⟩
    · simp only [advance]
      by_cases e : ch = ch'
      · subst e
        simp only [upd_same, List.length_append, List.length_singleton]
        unfold canPush at hp
        split at hp
        · rename_i h0
          simp only [Bool.and_eq_true, List.isEmpty_iff] at hp
          rw [hp.1, h0]; simp
        · simp only [decide_eq_true_eq] at hp
          omega
      · rw [upd_other _ _ e]; exact ih
    · simp only [advance]
      by_cases e : ch = ch'
      · subst e
        rw [hq] at ih
        simp only [upd_same]
        simp only [List.length_cons] at ih
        omega
      · rw [upd_other _ _ e]; exact ih
    all_goals exact ih

/-! ## invariant: mutual exclusion -/

theorem heldFrom_single (hs : List Nat) (op : Op) :
    heldFrom hs [op] = match op with
      | .lock m => m :: hs
      | .unlock m => hs.erase m
      | _ => hs := by
  cases op <;> rfl

theorem inside_other {S : Sys} {c c' : Config} {t t' : Nat}
    (hpc : c'.pc = upd c.pc t (c.pc t + 1)) (ne : t' ≠ t) : inside S c' t' = inside S c t' := by
  unfold inside; rw [hpc, upd_other _ _ ne]

theorem inside_self {S : Sys} {c c' : Config} {t : Nat} {op : Op}
    (hpc : c'.pc = upd c.pc t (c.pc t + 1)) (hc : S.cur c t = some op) :
    inside S c' t = heldFrom (inside S c t) [op] := by
  unfold inside held
  rw [hpc, upd_same, take_succ_of_cur hc, heldFrom_append]

/-- the owner of a mutex is the one thread whose executed program prefix holds it -/
theorem inv_mutex {S : Sys} {c : Config} (h : Reachable S c) :
    (∀ m t, c.owner m = some t ↔ m ∈ inside S c t) ∧ ∀ t, (inside S c t).Nodup := by
  induction h with
  | init => simp [init, inside, held, heldFrom]
  | @step c c' t kk _ hs ih =>
    obtain ⟨ih1, ih2⟩ := ih
    rcases step_cases hs with ⟨ch', v, hc, hp, rfl⟩ | ⟨op, ch', it, rest, hc, hrecv, hq, rfl⟩ | ⟨m, hc, ho, rfl⟩ |
      ⟨m, hc, ho, rfl⟩ | ⟨k, hc, rfl⟩ | ⟨k, v, hc, _, rfl⟩
    -- push
    · have hself := inside_self (S := S) (c := c) (c' := advance { c with queue := upd c.queue ch' (c.queue ch' ++ [⟨t, v⟩]) } t (.pushed t ch' ⟨t, v⟩)) rfl hc
      simp only [heldFrom_single] at hself
      refine ⟨fun m t' => ?_, fun t' => ?_⟩
      · by_cases e : t' = t
        · subst e; rw [hself]; exact ih1 m t'
        · rw [inside_other rfl e]; exact ih1 m t'
      · by_cases e : t' = t
        · subst e; rw [hself]; exact ih2 t'
        · rw [inside_other rfl e]; exact ih2 t'
    -- pop / select
    · rcases hrecv with rfl | ⟨chs, rfl, _⟩
      all_goals
        have hself := inside_self (S := S) (c := c) (c' := advance { c with queue := upd c.queue ch' rest } t (.popped t ch' it)) rfl hc
        simp only [heldFrom_single] at hself
        refine ⟨fun m t' => ?_, fun t' => ?_⟩
        · by_cases e : t' = t
          · subst e; rw [hself]; exact ih1 m t'
          · rw [inside_other rfl e]; exact ih1 m t'
        · by_cases e : t' = t
          · subst e; rw [hself]; exact ih2 t'
          · rw [inside_other rfl e]; exact ih2 t'
    -- lock
    · have hself := inside_self (S := S) (c := c) (c' := advance { c with owner := upd c.owner m (some t) } t (.locked t m)) rfl hc
      simp only [heldFrom_single] at hself
      have hfree : ∀ t', m ∉ inside S c t' := fun t' hm => by
        have := (ih1 m t').mpr hm
        rw [ho] at this; cases this
      refine ⟨fun m' t' => ?_, fun t' => ?_⟩
      · simp only [advance] at hself ⊢
        by_cases e : t' = t
        · subst e
          rw [hself]
          by_cases em : m' = m
          · subst em; simp
          · rw [upd_other _ _ em, List.mem_cons]
            constructor
            · intro h; exact Or.inr ((ih1 m' t').mp h)
            · rintro (h | h)
              · exact absurd h em
              · exact (ih1 m' t').mpr h
        · rw [inside_other rfl e]
          by_cases em : m' = m
          · subst em
            rw [upd_same]
            constructor
            · intro h; exact absurd (Option.some.inj h).symm e
            · intro h; exact absurd h (hfree t')
          · rw [upd_other _ _ em]; exact ih1 m' t'
      · by_cases e : t' = t
        · subst e; rw [hself]; exact List.nodup_cons.mpr ⟨hfree t', ih2 t'⟩
        · rw [inside_other rfl e]; exact ih2 t'
    -- unlock
    · have hself := inside_self (S := S) (c := c) (c' := advance { c with owner := upd c.owner m none } t (.unlocked t m)) rfl hc
      simp only [heldFrom_single] at hself
      refine ⟨fun m' t' => ?_, fun t' => ?_⟩
      · simp only [advance] at hself ⊢
        by_cases e : t' = t
        · subst e
          rw [hself]
          by_cases em : m' = m
          · subst em
            rw [upd_same]
            constructor
            · intro h; cases h
            · intro h; exact absurd h (List.Nodup.not_mem_erase (ih2 t'))
          · rw [upd_other _ _ em]
            rw [List.mem_erase_of_ne em]; exact ih1 m' t'
        · rw [inside_other rfl e]
          by_cases em : m' = m
          · subst em
            rw [upd_same]
            constructor
            · intro h; cases h
            · intro h
              have := (ih1 m' t').mpr h
              rw [ho] at this
              exact absurd (Option.some.inj this).symm e
          · rw [upd_other _ _ em]; exact ih1 m' t'
      · by_cases e : t' = t
        · subst e; rw [hself]; exact (ih2 t').erase m
        · rw [inside_other rfl e]; exact ih2 t'
    -- load
    · have hself := inside_self (S := S) (c := c) (c' := advance { c with reg := upd c.reg t (some (k, c.value k)) } t (.loaded t k (c.value k))) rfl hc
      simp only [heldFrom_single] at hself
      refine ⟨fun m t' => ?_, fun t' => ?_⟩
      · by_cases e : t' = t
        · subst e; rw [hself]; exact ih1 m t'
        · rw [inside_other rfl e]; exact ih1 m t'
      · by_cases e : t' = t
        · subst e; rw [hself]; exact ih2 t'
        · rw [inside_other rfl e]; exact ih2 t'
    -- store
    · have hself := inside_self (S := S) (c := c) (c' := advance { c with value := upd c.value k (v + 1), reg := upd c.reg t none } t (.stored t k (v + 1))) rfl hc
      simp only [heldFrom_single] at hself
      refine ⟨fun m t' => ?_, fun t' => ?_⟩
      · by_cases e : t' = t
        · subst e; rw [hself]; exact ih1 m t'
        · rw [inside_other rfl e]; exact ih1 m t'
      · by_cases e : t' = t
        · subst e; rw [hself]; exact ih2 t'
        · rw [inside_other rfl e]; exact ih2 t'

/-! ## guarded programs -/

theorem guardedFrom_load {g : Nat → Nat} {hs : List Nat} {ops : List Op}
    (h : guardedFrom g hs ops = true) {i k : Nat} (hi : ops[i]? = some (.load k)) :
    g k ∈ heldFrom hs (ops.take i) ∧ ops[i + 1]? = some (.store k) := by
  fun_induction guardedFrom g hs ops generalizing i with
  | case1 hs => simp at hi
  | case2 hs k0 k' rest ih =>
    simp only [Bool.and_eq_true, beq_iff_eq, List.contains_iff_mem] at h
    obtain ⟨⟨hk, hm⟩, hr⟩ := h
    subst hk
    match i with
    | 0 =>
      simp at hi; subst hi
      simp [heldFrom, hm]
    | 1 => simp at hi
    | i + 2 =>
      simp only [List.getElem?_cons_succ] at hi
      have := ih hr hi
      simpa [heldFrom] using this
  | case3 hs k0 rest hne => simp at h
  | case4 hs k0 rest => simp at h
  | case5 hs m rest ih =>
    match i with
    | 0 => simp at hi
    | i + 1 =>
      simp only [List.getElem?_cons_succ] at hi
      have := ih h hi
      simpa [heldFrom] using this
  | case6 hs m rest ih =>
    match i with
    | 0 => simp at hi
    | i + 1 =>
      simp only [List.getElem?_cons_succ] at hi
      have := ih h hi
      simpa [heldFrom] using this
  | case7 hs ch v rest ih =>
    match i with
    | 0 => simp at hi
    | i + 1 =>
      simp only [List.getElem?_cons_succ] at hi
      have := ih h hi
      simpa [heldFrom] using this
  | case8 hs ch rest ih =>
    match i with
    | 0 => simp at hi
    | i + 1 =>
      simp only [List.getElem?_cons_succ] at hi
      have := ih h hi
      simpa [heldFrom] using this
  | case9 hs chs rest ih =>
    match i with
    | 0 => simp at hi
    | i + 1 =>
      simp only [List.getElem?_cons_succ] at hi
      have := ih h hi
      simpa [heldFrom] using this

theorem guarded_prog {S : Sys} {g : Nat → Nat} (hg : S.guarded g = true) (t : Nat) :
    guardedFrom g [] (S.prog t) = true := by
  unfold Sys.prog
  split
  · rename_i p hp
    unfold Sys.guarded at hg
    rw [List.all_eq_true] at hg
    exact hg p (List.mem_of_getElem? hp)
  · rfl

/-- a thread about to load counter `k` of a guarded system holds `g k` and stores next -/
theorem guarded_cur_load {S : Sys} {g : Nat → Nat} (hg : S.guarded g = true) {c : Config} {t k : Nat}
    (hc : S.cur c t = some (.load k)) :
    g k ∈ inside S c t ∧ (S.prog t)[c.pc t + 1]? = some (.store k) :=
  guardedFrom_load (guarded_prog hg t) hc

/-! ## invariant: guarded counters -/

/-- 1 when thread `t` has read counter `k` and not yet written it back -/
def pend (c : Config) (k t : Nat) : Nat :=
  match c.reg t with
  | some (k', _) => if k' = k then 1 else 0
  | none => 0

/-- number of threads in the middle of an increment of `k` -/
def pending (S : Sys) (c : Config) (k : Nat) : Nat := sumTo S.progs.length (pend c k)

theorem loadLog_append (k : Nat) (a b : List Event) :
    loadLog k (a ++ b) = loadLog k a ++ loadLog k b := by
  simp [loadLog, List.filterMap_append]

theorem loadLog_single (k : Nat) (e : Event) :
    loadLog k [e] = match e with
      | .loaded _ k' v => if k' = k then [v] else []
      | _ => [] := by
  cases e <;> simp [loadLog]
  split <;> simp_all

theorem doneIncr_step {S : Sys} {c c' : Config} {t : Nat} {op : Op} (k : Nat)
    (hpc : c'.pc = upd c.pc t (c.pc t + 1)) (hc : S.cur c t = some op) :
    doneIncr S c' k = doneIncr S c k + (if op = .store k then 1 else 0) := by
  unfold doneIncr
  have ht := cur_lt hc
  have hf : sumTo S.progs.length (fun t' => stores k ((S.prog t').take (c'.pc t'))) =
      sumTo S.progs.length (upd (fun t' => stores k ((S.prog t').take (c.pc t'))) t
        (stores k ((S.prog t).take (c.pc t)) + (if op = .store k then 1 else 0))) := by
    apply sumTo_congr
    intro t' _
    by_cases e : t' = t
    · subst e
      rw [upd_same, hpc, upd_same, take_succ_of_cur hc, stores_append]
      congr 1
      unfold stores
      by_cases e2 : op = .store k
      · simp [e2]
      · simp [e2]
    · rw [upd_other _ _ e, hpc, upd_other _ _ e]
  rw [hf]
  have := sumTo_upd (fun t' => stores k ((S.prog t').take (c.pc t'))) (t := t)
    (stores k ((S.prog t).take (c.pc t)) + (if op = .store k then 1 else 0)) ht
  omega

theorem pending_upd_reg {S : Sys} {c c' : Config} {t : Nat} (k : Nat) (ht : t < S.progs.length)
    (hreg : ∀ t', t' ≠ t → c'.reg t' = c.reg t') :
    pending S c' k + pend c k t = pending S c k + pend c' k t := by
  unfold pending
  have hf : sumTo S.progs.length (pend c' k) = sumTo S.progs.length (upd (pend c k) t (pend c' k t)) := by
    apply sumTo_congr
    intro t' _
    by_cases e : t' = t
    · subst e; rw [upd_same]
    · rw [upd_other _ _ e]; unfold pend; rw [hreg t' e]
  rw [hf]
  exact sumTo_upd (pend c k) (pend c' k t) ht

theorem pending_same_reg {S : Sys} {c c' : Config} (k : Nat) (hreg : c'.reg = c.reg) :
    pending S c' k = pending S c k := by
  unfold pending
  apply sumTo_congr
  intro t' _
  unfold pend; rw [hreg]

/-- For a guarded system: (J) a thread between load and store holds the guard, is about to store
    and its register is current; (K) the counter equals the number of completed increments;
    (L) the values read so far are 0, 1, 2, … and their number is counter + pending. -/
theorem inv_counter {S : Sys} {g : Nat → Nat} (hg : S.guarded g = true) {c : Config}
    (h : Reachable S c) :
    (∀ t k v, c.reg t = some (k, v) →
        v = c.value k ∧ S.cur c t = some (.store k) ∧ g k ∈ inside S c t) ∧
    (∀ k, c.value k = doneIncr S c k) ∧
    (∀ k, loadLog k c.trace = List.range (loadLog k c.trace).length ∧
        (loadLog k c.trace).length = c.value k + pending S c k) := by
  induction h with
  | init =>
    refine ⟨?_, ?_, ?_⟩
    · intro t k v h; simp [init] at h
    · intro k
      simp only [init, doneIncr]
      exact (sumTo_zero (fun t _ => by simp [stores])).symm
    · intro k
      have : pending S init k = 0 := sumTo_zero (fun t _ => by simp [pend, init])
      refine ⟨by simp [init, loadLog], ?_⟩
      rw [this]; simp [init, loadLog]
  | @step c c' t kk hr hs ih =>
    obtain ⟨ihJ, ihK, ihL⟩ := ih
    obtain ⟨hm1, hm2⟩ := inv_mutex hr
    -- a thread that executes anything but a store has an empty register
    have regNone : ∀ op, S.cur c t = some op → (∀ k, op ≠ .store k) → c.reg t = none := by
      intro op hc hne
      cases hreg : c.reg t with
      | none => rfl
      | some kv =>
        obtain ⟨k, v⟩ := kv
        have := (ihJ t k v hreg).2.1
        rw [hc] at this
        exact absurd (Option.some.inj this) (hne k)
    -- steps that touch neither registers nor counters
    have plain : ∀ (c'' : Config) (op : Op) (e : Event), S.cur c t = some op →
        (∀ k, op ≠ .store k) → (∀ k, op ≠ .load k) → (∀ t' k v, e ≠ .loaded t' k v) →
        c''.pc = upd c.pc t (c.pc t + 1) → c''.reg = c.reg → c''.value = c.value →
        c''.trace = c.trace ++ [e] → (∀ t', inside S c'' t' = inside S c t') →
        (∀ t k v, c''.reg t = some (k, v) →
            v = c''.value k ∧ S.cur c'' t = some (.store k) ∧ g k ∈ inside S c'' t) ∧
        (∀ k, c''.value k = doneIncr S c'' k) ∧
        (∀ k, loadLog k c''.trace = List.range (loadLog k c''.trace).length ∧
            (loadLog k c''.trace).length = c''.value k + pending S c'' k) := by
      intro c'' op e hc hns hnl hne hpc hreg hval htr hin
      have hrn := regNone op hc hns
      refine ⟨?_, ?_, ?_⟩
      · intro t' k v hr'
        rw [hreg] at hr'
        have ne : t' ≠ t := by
          intro e'; subst e'; rw [hrn] at hr'; cases hr'
        obtain ⟨h1, h2, h3⟩ := ihJ t' k v hr'
        refine ⟨by rw [hval]; exact h1, ?_, by rw [hin]; exact h3⟩
        unfold Sys.cur at h2 ⊢
        rw [hpc, upd_other _ _ ne]; exact h2
      · intro k
        rw [doneIncr_step k hpc hc, hval, ihK k]
        simp [hns k]
      · intro k
        have hl : loadLog k c''.trace = loadLog k c.trace := by
          rw [htr, loadLog_append, loadLog_single]
          cases e <;> simp
          rename_i t' k' v'
          exact absurd rfl (hne t' k' v')
        rw [hl, hval, pending_same_reg k hreg]
        exact ihL k
    rcases step_cases hs with ⟨ch', v, hc, hp, rfl⟩ | ⟨op, ch', it, rest, hc, hrecv, hq, rfl⟩ | ⟨m, hc, ho, rfl⟩ |
      ⟨m, hc, ho, rfl⟩ | ⟨k0, hc, rfl⟩ | ⟨k0, v0, hc, hr0, rfl⟩
    -- push
    · refine plain _ _ _ hc (by simp) (by simp) (by simp) rfl rfl rfl rfl ?_
      intro t'
      by_cases e : t' = t
      · subst e; rw [inside_self rfl hc]; rfl
      · exact inside_other rfl e
    -- pop / select
    · rcases hrecv with rfl | ⟨chs, rfl, _⟩
      all_goals
        refine plain _ _ _ hc (by simp) (by simp) (by simp) rfl rfl rfl rfl ?_
        intro t'
        by_cases e : t' = t
        · subst e; rw [inside_self rfl hc]; rfl
        · exact inside_other rfl e
    -- lock: `inside` changes for t, but t has an empty register
    · have hrn := regNone _ hc (by simp)
      refine ⟨?_, ?_, ?_⟩
      · intro t' k v hr'
        simp only [advance] at hr'
        have ne : t' ≠ t := by
          intro e'; subst e'; rw [hrn] at hr'; cases hr'
        obtain ⟨h1, h2, h3⟩ := ihJ t' k v hr'
        refine ⟨h1, ?_, by rw [inside_other rfl ne]; exact h3⟩
        unfold Sys.cur at h2 ⊢
        simp only [advance]
        rw [upd_other _ _ ne]; exact h2
      · intro k
        rw [doneIncr_step k rfl hc]
        simp only [advance]
        rw [ihK k]; simp
      · intro k
        simp only [advance, loadLog_append, loadLog_single, List.append_nil]
        have : pending S (advance { c with owner := upd c.owner m (some t) } t (.locked t m)) k
            = pending S c k := pending_same_reg k rfl
        simp only [advance] at this
        rw [this]; exact ihL k
    -- unlock
    · have hrn := regNone _ hc (by simp)
      refine ⟨?_, ?_, ?_⟩
      · intro t' k v hr'
        simp only [advance] at hr'
        have ne : t' ≠ t := by
          intro e'; subst e'; rw [hrn] at hr'; cases hr'
        obtain ⟨h1, h2, h3⟩ := ihJ t' k v hr'
        refine ⟨h1, ?_, by rw [inside_other rfl ne]; exact h3⟩
        unfold Sys.cur at h2 ⊢
        simp only [advance]
        rw [upd_other _ _ ne]; exact h2
      · intro k
        rw [doneIncr_step k rfl hc]
        simp only [advance]
        rw [ihK k]; simp
      · intro k
        simp only [advance, loadLog_append, loadLog_single, List.append_nil]
        have : pending S (advance { c with owner := upd c.owner m none } t (.unlocked t m)) k
            = pending S c k := pending_same_reg k rfl
        simp only [advance] at this
        rw [this]; exact ihL k
    -- load k0
    · have hrn := regNone _ hc (by simp)
      obtain ⟨hheld, hnext⟩ := guarded_cur_load hg hc
      have ht := cur_lt hc
      -- nobody is in the middle of an increment of k0
      have hnopend : pending S c k0 = 0 := by
        apply sumTo_zero
        intro t' _
        unfold pend
        cases hreg : c.reg t' with
        | none => rfl
        | some kv =>
          obtain ⟨k', v'⟩ := kv
          by_cases e : k' = k0
          · subst e
            have h3 := (ihJ t' k' v' hreg).2.2
            have o1 := (hm1 (g k') t').mpr h3
            have o2 := (hm1 (g k') t).mpr hheld
            rw [o1] at o2
            have : t' = t := Option.some.inj o2
            subst this
            rw [hrn] at hreg; cases hreg
          · simp [e]
      have hin : ∀ t', inside S (advance { c with reg := upd c.reg t (some (k0, c.value k0)) } t
          (.loaded t k0 (c.value k0))) t' = inside S c t' := by
        intro t'
        by_cases e : t' = t
        · subst e; rw [inside_self rfl hc]; rfl
        · exact inside_other rfl e
      refine ⟨?_, ?_, ?_⟩
      · intro t' k v hr'
        by_cases e : t' = t
        · subst e
          simp only [advance, upd_same, Option.some.injEq, Prod.mk.injEq] at hr'
          obtain ⟨rfl, rfl⟩ := hr'
          refine ⟨rfl, ?_, by rw [hin]; exact hheld⟩
          unfold Sys.cur
          simp only [advance, upd_same]
          exact hnext
        · simp only [advance] at hr'
          rw [upd_other _ _ e] at hr'
          obtain ⟨h1, h2, h3⟩ := ihJ t' k v hr'
          refine ⟨h1, ?_, by rw [hin]; exact h3⟩
          unfold Sys.cur at h2 ⊢
          simp only [advance]
          rw [upd_other _ _ e]; exact h2
      · intro k
        rw [doneIncr_step k rfl hc]
        simp only [advance]
        rw [ihK k]; simp
      · intro k
        have hpe := pending_upd_reg (S := S) (c := c)
          (c' := advance { c with reg := upd c.reg t (some (k0, c.value k0)) } t (.loaded t k0 (c.value k0)))
          k ht (fun t' ne => by simp only [advance]; exact upd_other _ _ ne)
        have hp0 : pend c k t = 0 := by unfold pend; rw [hrn]
        rw [hp0] at hpe
        obtain ⟨hl1, hl2⟩ := ihL k
        by_cases e : k0 = k
        · subst e
          have hp1 : pend (advance { c with reg := upd c.reg t (some (k0, c.value k0)) } t
              (.loaded t k0 (c.value k0))) k0 t = 1 := by
            unfold pend; simp [advance]
          rw [hp1, hnopend] at hpe
          rw [hnopend] at hl2
          simp only [advance, loadLog_append, loadLog_single, if_true, List.length_append,
            List.length_singleton] at hpe ⊢
          refine ⟨?_, by omega⟩
          rw [List.range_succ, ← hl1, hl2]; simp
        · have hp1 : pend (advance { c with reg := upd c.reg t (some (k0, c.value k0)) } t
              (.loaded t k0 (c.value k0))) k t = 0 := by
            unfold pend; simp [advance, e]
          rw [hp1] at hpe
          simp only [advance, loadLog_append, loadLog_single, if_neg e, List.append_nil] at hpe ⊢
          exact ⟨hl1, by omega⟩
    -- store k0
    · obtain ⟨hv, _, hheld⟩ := ihJ t k0 v0 hr0
      subst hv
      have ht := cur_lt hc
      have hin : ∀ t', inside S (advance { c with value := upd c.value k0 (c.value k0 + 1), reg := upd c.reg t none } t
          (.stored t k0 (c.value k0 + 1))) t' = inside S c t' := by
        intro t'
        by_cases e : t' = t
        · subst e; rw [inside_self rfl hc]; rfl
        · exact inside_other rfl e
      refine ⟨?_, ?_, ?_⟩
      · intro t' k v hr'
        by_cases e : t' = t
        · subst e
          simp [advance] at hr'
        · simp only [advance] at hr'
          rw [upd_other _ _ e] at hr'
          obtain ⟨h1, h2, h3⟩ := ihJ t' k v hr'
          have hk : k ≠ k0 := by
            intro ek; subst ek
            have o1 := (hm1 (g k) t').mpr h3
            have o2 := (hm1 (g k) t).mpr hheld
            rw [o1] at o2
            exact e (Option.some.inj o2)
          refine ⟨?_, ?_, by rw [hin]; exact h3⟩
          · simp only [advance]; rw [upd_other _ _ hk]; exact h1
          · unfold Sys.cur at h2 ⊢
            simp only [advance]
            rw [upd_other _ _ e]; exact h2
      · intro k
        rw [doneIncr_step k rfl hc]
        simp only [advance]
        by_cases e : k = k0
        · subst e; rw [upd_same, ihK k]; simp
        · rw [upd_other _ _ e, ihK k]
          have : Op.store k0 ≠ Op.store k := by
            intro h; injection h with h; exact e h.symm
          simp [this]
      · intro k
        have hpe := pending_upd_reg (S := S) (c := c)
          (c' := advance { c with value := upd c.value k0 (c.value k0 + 1), reg := upd c.reg t none } t (.stored t k0 (c.value k0 + 1)))
          k ht (fun t' ne => by simp only [advance]; exact upd_other _ _ ne)
        have hp1 : pend (advance { c with value := upd c.value k0 (c.value k0 + 1), reg := upd c.reg t none } t
            (.stored t k0 (c.value k0 + 1))) k t = 0 := by
          unfold pend; simp [advance]
        rw [hp1] at hpe
        obtain ⟨hl1, hl2⟩ := ihL k
        simp only [advance, loadLog_append, loadLog_single, List.append_nil] at hpe ⊢
        refine ⟨hl1, ?_⟩
        by_cases e : k = k0
        · subst e
          have hp0 : pend c k t = 1 := by unfold pend; rw [hr0]; simp
          rw [hp0] at hpe
          rw [upd_same]; omega
        · have hp0 : pend c k t = 0 := by
            unfold pend; rw [hr0]; simp [Ne.symm e]
          rw [hp0] at hpe
          rw [upd_other _ _ e]; omega

/-! ## invariant: the enter/exit log of the trace passes the mutex checker -/

theorem mutexRun_append (hs : List (Nat × Nat)) (a b : List MEv) :
    mutexRun hs (a ++ b) = (mutexRun hs a).bind (fun hs' => mutexRun hs' b) := by
  induction a generalizing hs with
  | nil => rfl
  | cons e a ih =>
    simp only [List.cons_append, mutexRun]
    cases mutexStep hs e with
    | none => rfl
    | some hs' => exact ih hs'

theorem mutexLog_append (a b : List Event) : mutexLog (a ++ b) = mutexLog a ++ mutexLog b := by
  simp [mutexLog, List.filterMap_append]

theorem mutexLog_single (e : Event) :
    mutexLog [e] = match e with
      | .locked t m => [.enter t m]
      | .unlocked t m => [.exit t m]
      | _ => [] := by
  cases e <;> simp [mutexLog]

theorem inv_mutexRun {S : Sys} {c : Config} (h : Reachable S c) :
    ∃ hs, mutexRun [] (mutexLog c.trace) = some hs ∧ hs.Nodup ∧
      ∀ m t, (m, t) ∈ hs ↔ c.owner m = some t := by
  induction h with
  | init => exact ⟨[], by simp [init, mutexLog, mutexRun], List.nodup_nil, by simp [init]⟩
  | @step c c' t kk hr hs ih =>
    obtain ⟨st, hrun, hnd, hiff⟩ := ih
    rcases step_cases hs with ⟨ch', v, hc, hp, rfl⟩ | ⟨op, ch', it, rest, hc, hrecv, hq, rfl⟩ | ⟨m, hc, ho, rfl⟩ |
      ⟨m, hc, ho, rfl⟩ | ⟨k0, hc, rfl⟩ | ⟨k0, v0, hc, hr0, rfl⟩
    · exact ⟨st, by simp [advance, mutexLog_append, mutexLog_single, hrun], hnd, hiff⟩
    · exact ⟨st, by simp [advance, mutexLog_append, mutexLog_single, hrun], hnd, hiff⟩
    · have hnot : ∀ t', (m, t') ∉ st := fun t' hm => by
        have := (hiff m t').mp hm
        rw [ho] at this; cases this
      have hany : st.any (fun p => p.1 == m) = false := by
        rw [Bool.eq_false_iff]
        intro hh
        rw [List.any_eq_true] at hh
        obtain ⟨⟨m', t'⟩, hmem, hm⟩ := hh
        simp only [beq_iff_eq] at hm
        subst hm
        exact hnot t' hmem
      refine ⟨(m, t) :: st, ?_, List.nodup_cons.mpr ⟨hnot t, hnd⟩, ?_⟩
      · simp [advance, mutexLog_append, mutexLog_single, mutexRun_append, hrun, mutexRun, mutexStep, hany]
      · intro m' t'
        simp only [advance, List.mem_cons, Prod.mk.injEq]
        by_cases em : m' = m
        · subst em
          rw [upd_same]
          constructor
          · rintro (⟨_, rfl⟩ | h)
            · rfl
            · exact absurd h (hnot t')
          · intro h; exact Or.inl ⟨rfl, (Option.some.inj h).symm⟩
        · rw [upd_other _ _ em]
          constructor
          · rintro (⟨h, _⟩ | h)
            · exact absurd h em
            · exact (hiff m' t').mp h
          · intro h; exact Or.inr ((hiff m' t').mpr h)
    · have hmem : (m, t) ∈ st := (hiff m t).mpr ho
      refine ⟨st.erase (m, t), ?_, hnd.erase _, ?_⟩
      · simp [advance, mutexLog_append, mutexLog_single, mutexRun_append, hrun, mutexRun, mutexStep, hmem]
      · intro m' t'
        simp only [advance]
        rw [hnd.mem_erase_iff]
        by_cases em : m' = m
        · subst em
          rw [upd_same]
          constructor
          · rintro ⟨hne, h⟩
            have := (hiff m' t').mp h
            rw [ho] at this
            have : t = t' := Option.some.inj this
            subst this
            exact absurd rfl hne
          · intro h; cases h
        · rw [upd_other _ _ em]
          constructor
          · rintro ⟨_, h⟩; exact (hiff m' t').mp h
          · intro h
            refine ⟨?_, (hiff m' t').mpr h⟩
            intro e; injection e with e1 _; exact em e1
    · exact ⟨st, by simp [advance, mutexLog_append, mutexLog_single, hrun], hnd, hiff⟩
    · exact ⟨st, by simp [advance, mutexLog_append, mutexLog_single, hrun], hnd, hiff⟩

/-! ## the mutex checker on arbitrary logs -/

theorem mutexRun_keeps {hs hs' : List (Nat × Nat)} {l : List MEv} {m t : Nat}
    (hmem : (m, t) ∈ hs) (hrun : mutexRun hs l = some hs') (hno : MEv.exit t m ∉ l) :
    (m, t) ∈ hs' := by
  induction l generalizing hs with
  | nil => simp [mutexRun] at hrun; subst hrun; exact hmem
  | cons e l ih =>
    simp only [mutexRun] at hrun
    cases hstep : mutexStep hs e with
    | none => rw [hstep] at hrun; cases hrun
    | some hs1 =>
      rw [hstep] at hrun
      have hno' : MEv.exit t m ∉ l := fun h => hno (List.mem_cons_of_mem _ h)
      refine ih ?_ hrun hno'
      cases e with
      | enter t' m' =>
        simp only [mutexStep] at hstep
        split at hstep
        · cases hstep
        · cases hstep; exact List.mem_cons_of_mem _ hmem
      | exit t' m' =>
        simp only [mutexStep] at hstep
        split at hstep
        · cases hstep
          have hne : (m, t) ≠ (m', t') := by
            intro e
            injection e with e1 e2
            subst e1; subst e2
            exact hno (List.mem_cons_self ..)
          exact (List.mem_erase_of_ne hne).mpr hmem
        · cases hstep

theorem mutexRun_enter_blocked {hs : List (Nat × Nat)} {l : List MEv} {m t t2 : Nat}
    (hmem : (m, t) ∈ hs) : mutexRun hs (MEv.enter t2 m :: l) = none := by
  have : hs.any (fun p => p.1 == m) = true := by
    rw [List.any_eq_true]; exact ⟨(m, t), hmem, by simp⟩
  simp [mutexRun, mutexStep, this]

theorem mutexRun_after_enter {hs hs' : List (Nat × Nat)} {l : List MEv} {m t : Nat}
    (hrun : mutexRun hs (MEv.enter t m :: l) = some hs') :
    mutexRun ((m, t) :: hs) l = some hs' := by
  simp only [mutexRun, mutexStep] at hrun
  by_cases h : hs.any (fun p => p.1 == m) = true
  · simp [h] at hrun
  · simpa [h] using hrun

/-! ## partition of the receive log by consumer -/

theorem flatten_map_insert_perm {α : Type} (L : List Nat) (hnd : L.Nodup) (t0 : Nat) (ht : t0 ∈ L)
    (f : Nat → List α) (x : α) :
    (L.map (fun t => if t = t0 then x :: f t else f t)).flatten.Perm (x :: (L.map f).flatten) := by
  induction L with
  | nil => cases ht
  | cons a L ih =>
    have hnd' := (List.nodup_cons.mp hnd)
    by_cases e : a = t0
    · subst e
      have : L.map (fun t => if t = a then x :: f t else f t) = L.map f := by
        apply List.map_congr_left
        intro t htl
        have : t ≠ a := fun e => hnd'.1 (e ▸ htl)
        simp [this]
      simp [this]
    · have ht' : t0 ∈ L := by
        rcases List.mem_cons.mp ht with h | h
        · exact absurd h.symm e
        · exact h
      have := ih hnd'.2 ht'
      simp only [List.map_cons, List.flatten_cons, if_neg e]
      exact (List.Perm.append_left (f a) this).trans List.perm_middle

theorem recvBy_cons (t ch : Nat) (e : Event) (tr : List Event) :
    recvBy t ch (e :: tr) = (match e with
      | .popped t' ch' it => if t' = t ∧ ch' = ch then [it] else []
      | _ => []) ++ recvBy t ch tr := by
  cases e <;> simp [recvBy, List.filterMap_cons]
  split <;> simp_all

theorem recvLog_cons (ch : Nat) (e : Event) (tr : List Event) :
    recvLog ch (e :: tr) = (match e with
      | .popped _ ch' it => if ch' = ch then [it] else []
      | _ => []) ++ recvLog ch tr := by
  cases e <;> simp [recvLog, List.filterMap_cons]
  split <;> simp_all

/-- the per-consumer receive lists are a partition of the channel's receive log -/
theorem flatten_recvBy_perm (n ch : Nat) (tr : List Event)
    (hlt : ∀ t ch' it, Event.popped t ch' it ∈ tr → t < n) :
    ((List.range n).map (fun t => recvBy t ch tr)).flatten.Perm (recvLog ch tr) := by
  induction tr with
  | nil =>
    have : (List.range n).map (fun t => recvBy t ch []) = (List.range n).map (fun _ => ([] : List Item)) := rfl
    rw [this]
    simp [recvLog]
  | cons e tr ih =>
    have ih' := ih (fun t ch' it h => hlt t ch' it (List.mem_cons_of_mem _ h))
    cases e with
    | popped t0 ch' it =>
      by_cases ec : ch' = ch
      · subst ec
        have ht0 : t0 < n := hlt t0 ch' it (List.mem_cons_self ..)
        have hfun : (fun t => recvBy t ch' (Event.popped t0 ch' it :: tr)) =
            (fun t => if t = t0 then it :: recvBy t ch' tr else recvBy t ch' tr) := by
          funext t
          rw [recvBy_cons]
          by_cases e : t0 = t
          · subst e; simp
          · simp [e, Ne.symm e]
        rw [hfun, recvLog_cons]
        simp only [if_true, List.singleton_append]
        exact (flatten_map_insert_perm (List.range n) List.nodup_range t0 (List.mem_range.mpr ht0)
          (fun t => recvBy t ch' tr) it).trans (List.Perm.cons it ih')
      · have hfun : (fun t => recvBy t ch (Event.popped t0 ch' it :: tr)) = (fun t => recvBy t ch tr) := by
          funext t
          rw [recvBy_cons]; simp [ec]
        rw [hfun, recvLog_cons]; simpa [ec] using ih'
    | pushed _ _ _ => simpa [recvBy_cons, recvLog_cons] using ih'
    | locked _ _ => simpa [recvBy_cons, recvLog_cons] using ih'
    | unlocked _ _ => simpa [recvBy_cons, recvLog_cons] using ih'
    | loaded _ _ _ => simpa [recvBy_cons, recvLog_cons] using ih'
    | stored _ _ _ => simpa [recvBy_cons, recvLog_cons] using ih'

theorem recvBy_sublist (t ch : Nat) (tr : List Event) : (recvBy t ch tr).Sublist (recvLog ch tr) := by
  induction tr with
  | nil => simp [recvBy, recvLog]
  | cons e tr ih =>
    rw [recvBy_cons, recvLog_cons]
    cases e with
    | popped t' ch' it =>
      by_cases e1 : ch' = ch
      · by_cases e2 : t' = t
        · simp [e1, e2, ih]
        · simp only [e1, e2, false_and, if_false, if_true, List.nil_append, List.singleton_append]
          exact List.Sublist.cons _ ih
      · simp [e1, ih]
    | _ => simpa using ih

/-- popped events carry the id of an existing thread -/
theorem inv_popped_tid {S : Sys} {c : Config} (h : Reachable S c) :
    ∀ t ch it, Event.popped t ch it ∈ c.trace → t < S.progs.length := by
  induction h with
  | init => intro t ch it h; simp [init] at h
  | @step c c' t0 kk hr hs ih =>
    intro t ch it hmem
    rcases step_cases hs with ⟨ch', v, hc, hp, rfl⟩ | ⟨op, ch', it', rest, hc, hrecv, hq, rfl⟩ | ⟨m, hc, ho, rfl⟩ |
      ⟨m, hc, ho, rfl⟩ | ⟨k0, hc, rfl⟩ | ⟨k0, v0, hc, hr0, rfl⟩
    all_goals
      simp only [advance, List.mem_append, List.mem_singleton] at hmem
      rcases hmem with hmem | hmem
      · exact ih t ch it hmem
      · first
        | (injection hmem with h1 _ _; subst h1; exact cur_lt hc)
        | cases hmem

/-! ## structured statements -/

theorem compile_heldFrom (s : Stmt) (hs : List Nat) : heldFrom hs (compile s).1 = hs := by
  induction s generalizing hs with
  | skip => rfl
  | seq a b iha ihb =>
    simp only [compile]
    cases ha : compile a with
    | mk oa fa =>
      have ha' := iha hs
      rw [ha] at ha'
      cases fa with
      | true => exact ha'
      | false =>
        cases hb : compile b with
        | mk ob fb =>
          have hb' := ihb hs
          rw [hb] at hb'
          simp only [heldFrom_append]
          simp only at ha' hb'
          rw [ha', hb']
  | push ch v => rfl
  | pop ch => rfl
  | sel chs => rfl
  | incr k => rfl
  | withLock m b ih =>
    simp only [compile]
    cases hb : compile b with
    | mk ob fb =>
      have hb' := ih (m :: hs)
      rw [hb] at hb'
      simp only at hb'
      simp only [heldFrom, heldFrom_append, hb']
      simp
  | fail => rfl
  | protect b ih => exact ih hs

/-! ## read log -/

theorem readLog_filter (k : Nat) (tr : List Event) :
    ((readLog tr).filter (fun r => r.1 == k)).map (·.2) = loadLog k tr := by
  induction tr with
  | nil => rfl
  | cons e tr ih =>
    cases e with
    | loaded t k' v =>
      simp only [readLog, loadLog, List.filterMap_cons] at ih ⊢
      by_cases ek : k' = k
      · simp [ek, ih]
      · simp [ek, ih]
    | _ => simpa [readLog, loadLog, List.filterMap_cons] using ih

/-! ## mutex checker soundness -/

theorem mutexRun_split {hs hs' : List (Nat × Nat)} {a b : List MEv}
    (h : mutexRun hs (a ++ b) = some hs') : ∃ hm, mutexRun hs a = some hm ∧ mutexRun hm b = some hs' := by
  rw [mutexRun_append] at h
  cases ha : mutexRun hs a with
  | none => rw [ha] at h; cases h
  | some hm => rw [ha] at h; exact ⟨hm, rfl, h⟩

theorem mutexOk_sound_aux (q : Bool) (log : List MEv) (h : mutexOk q log = true) :
    (∀ l1 l2 l3 t1 t2 m, log = l1 ++ MEv.enter t1 m :: (l2 ++ MEv.enter t2 m :: l3) →
        MEv.exit t1 m ∈ l2) ∧
    (q = true → ∀ l1 l2 t m, log = l1 ++ MEv.enter t m :: l2 → MEv.exit t m ∈ l2) := by
  unfold mutexOk at h
  cases hrun : mutexRun [] log with
  | none => rw [hrun] at h; cases h
  | some hs =>
    rw [hrun] at h
    constructor
    · intro l1 l2 l3 t1 t2 m hl
      subst hl
      obtain ⟨hA, _, h2⟩ := mutexRun_split hrun
      have h3 := mutexRun_after_enter h2
      obtain ⟨hB, h4, h5⟩ := mutexRun_split h3
      by_contra hno
      have hmem := mutexRun_keeps (List.mem_cons_self ..) h4 hno
      rw [mutexRun_enter_blocked hmem] at h5
      cases h5
    · intro hq l1 l2 t m hl
      subst hl hq
      obtain ⟨hA, _, h2⟩ := mutexRun_split hrun
      have h3 := mutexRun_after_enter h2
      by_contra hno
      have hmem := mutexRun_keeps (List.mem_cons_self ..) h3 hno
      simp only [Bool.not_true, Bool.false_or, List.isEmpty_iff] at h
      rw [h] at hmem
      cases hmem

/-! ## FIFO checker soundness -/

theorem fromP_append (p : Nat) (a b : List Item) : fromP p (a ++ b) = fromP p a ++ fromP p b := by
  simp [fromP]

theorem mem_fromP {p x : Nat} {l : List Item} : x ∈ fromP p l ↔ (⟨p, x⟩ : Item) ∈ l := by
  unfold fromP
  simp only [List.mem_map, List.mem_filter, beq_iff_eq]
  constructor
  · rintro ⟨it, ⟨hm, hs⟩, hv⟩
    obtain ⟨s', v'⟩ := it
    simp only at hs hv
    subst hs hv
    exact hm
  · intro h; exact ⟨⟨p, x⟩, ⟨h, rfl⟩, rfl⟩

theorem fromP_nodup {p : Nat} {l : List Item} (h : l.Nodup) : (fromP p l).Nodup := by
  unfold fromP
  apply List.Nodup.map_on _ (h.filter _)
  intro x hx y hy hv
  simp only [List.mem_filter, beq_iff_eq] at hx hy
  obtain ⟨sx, vx⟩ := x
  obtain ⟨sy, vy⟩ := y
  simp only at hx hy hv
  rw [hx.2, hy.2, hv]

theorem fifoOk_sound_aux (o : FifoObs) (h : fifoOk o = true) :
    (∀ l ∈ o.recv, ∀ pv ∈ o.sent, (fromP pv.1 l).Sublist pv.2) ∧
    o.all.Nodup ∧
    (∀ pv ∈ o.sent, fromP pv.1 o.left <:+ pv.2) ∧
    (o.quiescent = true → ∀ pv ∈ o.sent, (fromP pv.1 o.all).Perm pv.2) := by
  unfold fifoOk at h
  simp only [Bool.and_eq_true] at h
  obtain ⟨⟨⟨⟨_, hord⟩, hnd⟩, hleft⟩, hcnt⟩ := h
  have hord' : ∀ l ∈ o.recv, ∀ pv ∈ o.sent, (fromP pv.1 l).Sublist pv.2 := by
    intro l hl pv hpv
    unfold orderOk at hord
    rw [List.all_eq_true] at hord
    have := hord l hl
    rw [List.all_eq_true] at this
    exact List.isSublist_iff_sublist.mp (this pv hpv)
  have hnd' : o.all.Nodup := by
    unfold nodupOk at hnd
    exact of_decide_eq_true hnd
  have hleft' : ∀ pv ∈ o.sent, fromP pv.1 o.left <:+ pv.2 := by
    intro pv hpv
    unfold leftOk at hleft
    rw [List.all_eq_true] at hleft
    exact List.isSuffixOf_iff_suffix.mp (hleft pv hpv)
  refine ⟨hord', hnd', hleft', ?_⟩
  intro hq pv hpv
  unfold countOk at hcnt
  rw [hq] at hcnt
  simp only [Bool.not_true, Bool.false_or] at hcnt
  rw [List.all_eq_true] at hcnt
  have hlen := hcnt pv hpv
  simp only [beq_iff_eq] at hlen
  have hsub : fromP pv.1 o.all ⊆ pv.2 := by
    intro x hx
    unfold FifoObs.all at hx
    rw [fromP_append, List.mem_append] at hx
    rcases hx with hx | hx
    · rw [mem_fromP, List.mem_flatten] at hx
      obtain ⟨l, hl, hin⟩ := hx
      exact (hord' l hl pv hpv).subset (mem_fromP.mpr hin)
    · exact (hleft' pv hpv).subset hx
  exact (List.subperm_of_subset (fromP_nodup hnd') hsub).perm_of_length_le (le_of_eq hlen.symm)

/-! ## the model's observation of a channel passes `fifoOk` -/

theorem sends_src {p ch : Nat} {ops : List Op} {it : Item} (h : it ∈ sends p ch ops) : it.src = p := by
  unfold sends at h
  rw [List.mem_filterMap] at h
  obtain ⟨op, _, hop⟩ := h
  cases op <;> simp at hop
  obtain ⟨_, rfl⟩ := hop
  rfl

theorem nodup_of_filter_src {l : List Item} (h : ∀ p, (l.filter (fun it => it.src == p)).Nodup) :
    l.Nodup := by
  rw [List.nodup_iff_count_le_one]
  intro a
  have := List.nodup_iff_count_le_one.mp (h a.src) a
  rwa [List.count_filter (by simp)] at this

theorem sends_prog_nodup {S : Sys} {nch : Nat} (hd : S.distinctSends nch = true) {ch : Nat}
    (hch : ch < nch) (p : Nat) : (sends p ch (S.prog p)).Nodup := by
  by_cases hp : p < S.progs.length
  · unfold Sys.distinctSends at hd
    rw [List.all_eq_true] at hd
    have := hd p (List.mem_range.mpr hp)
    rw [List.all_eq_true] at this
    exact of_decide_eq_true (this ch (List.mem_range.mpr hch))
  · rw [prog_nil_of_ge S (by omega)]; simp [sends]

theorem sends_take_prefix (p ch : Nat) (ops : List Op) (i : Nat) :
    sends p ch (ops.take i) <+: sends p ch ops := by
  obtain ⟨r, hr⟩ := List.take_prefix i ops
  refine ⟨sends p ch r, ?_⟩
  rw [← sends_append, hr]

theorem pushLog_nodup {S : Sys} {nch : Nat} (hd : S.distinctSends nch = true) {c : Config}
    (hr : Reachable S c) {ch : Nat} (hch : ch < nch) : (pushLog ch c.trace).Nodup := by
  apply nodup_of_filter_src
  intro p
  rw [inv_pushLog_src hr ch p]
  exact (sends_take_prefix p ch _ _).sublist.nodup (sends_prog_nodup hd hch p)

theorem pushLog_src_lt {S : Sys} {c : Config} (hr : Reachable S c) {ch : Nat} {it : Item}
    (h : it ∈ pushLog ch c.trace) : it.src < S.progs.length := by
  by_contra hn
  have h1 : it ∈ (pushLog ch c.trace).filter (fun x => x.src == it.src) := by
    simp [List.mem_filter, h]
  rw [inv_pushLog_src hr ch it.src, prog_nil_of_ge S (by omega)] at h1
  simp [sends] at h1

theorem fromP_pushLog {S : Sys} {c : Config} (hr : Reachable S c) (ch p : Nat) :
    fromP p (pushLog ch c.trace) = (sends p ch ((S.prog p).take (c.pc p))).map (·.val) := by
  unfold fromP; rw [inv_pushLog_src hr ch p]

theorem obsFifo_all_perm {S : Sys} {c : Config} (hr : Reachable S c) (ch : Nat) :
    (obsFifo S c ch).all.Perm (pushLog ch c.trace) := by
  unfold FifoObs.all obsFifo
  simp only
  rw [← inv_conservation hr ch]
  exact List.Perm.append_right _ (flatten_recvBy_perm _ ch c.trace (inv_popped_tid hr))

theorem obsFifo_ok {S : Sys} {nch : Nat} (hd : S.distinctSends nch = true) {c : Config}
    (hr : Reachable S c) {ch : Nat} (hch : ch < nch) :
    (obsFifo S c ch).wf = true ∧ fifoOk (obsFifo S c ch) = true := by
  have hperm := obsFifo_all_perm hr ch
  have hpl := pushLog_nodup hd hr hch
  have hcons := inv_conservation hr ch
  constructor
  · unfold FifoObs.wf obsFifo
    simp only [Bool.and_eq_true, decide_eq_true_eq, List.map_map, List.all_map, List.all_eq_true]
    constructor
    · have : ((fun (x : Nat × List Nat) => x.1) ∘ fun p =>
          (p, List.map (fun x => x.val) (sends p ch (List.take (c.pc p) (S.prog p))))) = id := rfl
      rw [this, List.map_id]; exact List.nodup_range
    · intro p _
      simp only [Function.comp, decide_eq_true_eq]
      rw [← fromP_pushLog hr ch p]
      exact fromP_nodup hpl
  · unfold fifoOk
    simp only [Bool.and_eq_true]
    refine ⟨⟨⟨⟨?_, ?_⟩, ?_⟩, ?_⟩, ?_⟩
    · -- knownOk
      unfold knownOk
      rw [List.all_eq_true]
      intro it hit
      have hlt := pushLog_src_lt hr (hperm.mem_iff.mp hit)
      rw [List.any_eq_true]
      exact ⟨(it.src, _), by
        unfold obsFifo
        simp only [List.mem_map, List.mem_range]
        exact ⟨it.src, hlt, rfl⟩, by simp⟩
    · -- orderOk
      unfold orderOk
      rw [List.all_eq_true]
      intro l hl
      rw [List.all_eq_true]
      intro pv hpv
      unfold obsFifo at hl hpv
      simp only [List.mem_map, List.mem_range] at hl hpv
      obtain ⟨t, _, rfl⟩ := hl
      obtain ⟨p, _, rfl⟩ := hpv
      rw [List.isSublist_iff_sublist]
      simp only
      rw [← fromP_pushLog hr ch p]
      unfold fromP
      apply List.Sublist.map
      apply List.Sublist.filter
      refine (recvBy_sublist t ch c.trace).trans ?_
      rw [← hcons]
      exact List.sublist_append_left _ _
    · -- nodupOk
      unfold nodupOk
      exact decide_eq_true (hperm.nodup_iff.mpr hpl)
    · -- leftOk
      unfold leftOk
      rw [List.all_eq_true]
      intro pv hpv
      unfold obsFifo at hpv ⊢
      simp only [List.mem_map, List.mem_range] at hpv
      obtain ⟨p, _, rfl⟩ := hpv
      rw [List.isSuffixOf_iff_suffix]
      simp only
      rw [← fromP_pushLog hr ch p, ← hcons, fromP_append]
      exact List.suffix_append _ _
    · -- countOk
      unfold countOk
      have : (obsFifo S c ch).sent.all
          (fun pv => (fromP pv.1 (obsFifo S c ch).all).length == pv.2.length) = true := by
        rw [List.all_eq_true]
        intro pv hpv
        have hpv' := hpv
        unfold obsFifo at hpv'
        simp only [List.mem_map, List.mem_range] at hpv'
        obtain ⟨p, _, rfl⟩ := hpv'
        simp only [beq_iff_eq]
        rw [← fromP_pushLog hr ch p]
        unfold fromP
        exact ((hperm.filter _).map _).length_eq
      rw [this]; simp

/-! ## select -/

theorem selChan_sound {c : Config} {chs : List Nat} {k ch : Nat} (h : selChan c chs k = some ch) :
    ch ∈ chs ∧ c.queue ch ≠ [] := by
  unfold selChan at h
  have hm := List.mem_of_getElem? h
  rw [List.mem_filter] at hm
  refine ⟨hm.1, ?_⟩
  intro he
  rw [he] at hm
  simp at hm

theorem selChan_complete {c : Config} {chs : List Nat} {ch : Nat} (hm : ch ∈ chs)
    (hq : c.queue ch ≠ []) : ∃ k, selChan c chs k = some ch := by
  unfold selChan
  have hin : ch ∈ chs.filter (fun ch => !(c.queue ch).isEmpty) := by
    rw [List.mem_filter]
    refine ⟨hm, ?_⟩
    cases hc : c.queue ch with
    | nil => exact absurd hc hq
    | cons a l => simp
  obtain ⟨i, hi, hget⟩ := List.getElem_of_mem hin
  refine ⟨i, ?_⟩
  show (chs.filter (fun ch => !(c.queue ch).isEmpty))[i % (chs.filter (fun ch => !(c.queue ch).isEmpty)).length]? = some ch
  rw [Nat.mod_eq_of_lt hi, List.getElem?_eq_getElem hi, hget]

end SlipVerif.Conc
