import SlipVerif.Model.Lambda
/- helper lemmas for the parser part of Theorems/C04.lean: `parseElems` step by step -/
namespace SlipVerif.Lemmas.LambdaParse
open SlipVerif.Lambda

theorem notMarker (n : String) (h : isMarker n = false) :
    n ≠ "&optional" ∧ n ≠ "&rest" ∧ n ≠ "&body" ∧ n ≠ "&key" ∧ n ≠ "&aux" ∧ n ≠ "&allow-other-keys" := by
  simp [isMarker] at h
  exact ⟨h.1.1.1.1.1, h.1.1.1.1.2, h.1.1.1.2, h.1.1.2, h.1.2, h.2⟩

/-- how a parameter is written in a lambda list: `name` or `(name default)` -/
def renderParam (p : Param) : Obj :=
  if p.default = .nil then .sym p.name else .cons (.sym p.name) (.cons p.default .nil)

/-- one parameter specifier, in every section -/
theorem parse_param_step (s : Sect) (ll : LL) (p : Param) (es : List Obj) (h : isMarker p.name = false) :
    parseElems s ll (renderParam p :: es) =
      match s with
      | .req => if p.default = .nil then parseElems .req { ll with req := ll.req ++ [p.name] } es else .error .badElem
      | .opt => parseElems .opt { ll with opt := ll.opt ++ [p] } es
      | .restVar => if p.default = .nil then parseElems .afterRest { ll with rest := some p.name } es else .error .badElem
      | .afterRest => .error .badElem
      | .key => parseElems .key { ll with keys := ll.keys ++ [p] } es
      | .afterAok => .error .badElem
      | .aux => parseElems .aux { ll with aux := ll.aux ++ [p] } es := by
  obtain ⟨h1, h2, h3, h4, h5, h6⟩ := notMarker p.name h
  obtain ⟨n, d⟩ := p
  simp only at h h1 h2 h3 h4 h5 h6
  unfold renderParam
  by_cases hd : d = .nil
  · subst hd
    simp only [if_true]
    rw [parseElems.eq_def]
    cases s <;> simp [parseParam, h, h1, h2, h3, h4, h5, h6]
  · simp only [hd, if_false]
    rw [parseElems.eq_def]
    cases s <;> simp [parseParam, h, hd]

theorem parse_reqs (ll : LL) (names : List String) (es : List Obj) (h : ∀ n ∈ names, isMarker n = false) :
    parseElems .req ll (names.map Obj.sym ++ es) = parseElems .req { ll with req := ll.req ++ names } es := by
  induction names generalizing ll with
  | nil => simp
  | cons n ns ih =>
    have hn := h n (by simp)
    have := parse_param_step .req ll { name := n } (ns.map Obj.sym ++ es) hn
    simp only [renderParam, if_true] at this
    simp only [List.map_cons, List.cons_append, this]
    rw [ih _ (fun m hm => h m (by simp [hm]))]
    simp [List.append_assoc]

theorem parse_opts (ll : LL) (ps : List Param) (es : List Obj) (h : ∀ p ∈ ps, isMarker p.name = false) :
    parseElems .opt ll (ps.map renderParam ++ es) = parseElems .opt { ll with opt := ll.opt ++ ps } es := by
  induction ps generalizing ll with
  | nil => simp
  | cons p ps ih =>
    simp only [List.map_cons, List.cons_append, parse_param_step .opt ll p _ (h p (by simp))]
    rw [ih _ (fun q hq => h q (by simp [hq]))]
    simp [List.append_assoc]

theorem parse_keys (ll : LL) (ps : List Param) (es : List Obj) (h : ∀ p ∈ ps, isMarker p.name = false) :
    parseElems .key ll (ps.map renderParam ++ es) = parseElems .key { ll with keys := ll.keys ++ ps } es := by
  induction ps generalizing ll with
  | nil => simp
  | cons p ps ih =>
    simp only [List.map_cons, List.cons_append, parse_param_step .key ll p _ (h p (by simp))]
    rw [ih _ (fun q hq => h q (by simp [hq]))]
    simp [List.append_assoc]

theorem parse_auxs (ll : LL) (ps : List Param) (es : List Obj) (h : ∀ p ∈ ps, isMarker p.name = false) :
    parseElems .aux ll (ps.map renderParam ++ es) = parseElems .aux { ll with aux := ll.aux ++ ps } es := by
  induction ps generalizing ll with
  | nil => simp
  | cons p ps ih =>
    simp only [List.map_cons, List.cons_append, parse_param_step .aux ll p _ (h p (by simp))]
    rw [ih _ (fun q hq => h q (by simp [hq]))]
    simp [List.append_assoc]

/-! markers -/

theorem parse_end (s : Sect) (ll : LL) (h : s ≠ .restVar) : parseElems s ll [] = .ok ll := by
  cases s <;> simp [parseElems] at h ⊢

theorem parse_optional (ll : LL) (es : List Obj) :
    parseElems .req ll (.sym "&optional" :: es) = parseElems .opt ll es := by
  rw [parseElems.eq_def]; simp

theorem parse_rest (s : Sect) (hs : s = .req ∨ s = .opt) (ll : LL) (es : List Obj) :
    parseElems s ll (.sym "&rest" :: es) = parseElems .restVar ll es := by
  rcases hs with rfl | rfl <;> (rw [parseElems.eq_def]; simp)

theorem parse_key (s : Sect) (hs : s = .req ∨ s = .opt ∨ s = .afterRest) (ll : LL) (es : List Obj) :
    parseElems s ll (.sym "&key" :: es) = parseElems .key { ll with hasKey := true } es := by
  rcases hs with rfl | rfl | rfl <;> (rw [parseElems.eq_def]; simp)

theorem parse_aok (ll : LL) (es : List Obj) :
    parseElems .key ll (.sym "&allow-other-keys" :: es) = parseElems .afterAok { ll with aok := true } es := by
  rw [parseElems.eq_def]; simp

theorem parse_aux (s : Sect) (hs : s ≠ .restVar ∧ s ≠ .aux) (ll : LL) (es : List Obj) :
    parseElems s ll (.sym "&aux" :: es) = parseElems .aux ll es := by
  obtain ⟨h1, h2⟩ := hs
  cases s <;> simp at h1 h2 <;> (rw [parseElems.eq_def]; simp)

/-! ### writing a lambda list out and parsing it back -/

def rAux (ll : LL) : List Obj := if ll.aux = [] then [] else .sym "&aux" :: ll.aux.map renderParam
def rKey (ll : LL) : List Obj :=
  (if ll.hasKey then .sym "&key" :: ll.keys.map renderParam ++ (if ll.aok then [.sym "&allow-other-keys"] else [])
   else []) ++ rAux ll
def rRest (ll : LL) : List Obj :=
  (match ll.rest with | some r => [.sym "&rest", .sym r] | none => []) ++ rKey ll
/-- the lambda list written out: required names, &optional …, &rest r, &key … [&allow-other-keys], &aux … -/
def render (ll : LL) : List Obj :=
  ll.req.map .sym ++ (if ll.opt = [] then [] else .sym "&optional" :: ll.opt.map renderParam) ++ rRest ll

/-- a lambda list as the parser can produce it: no parameter is named like a marker, and key
    parameters / &allow-other-keys only come with &key -/
structure WF (ll : LL) : Prop where
  req : ∀ n ∈ ll.req, isMarker n = false
  opt : ∀ p ∈ ll.opt, isMarker p.name = false
  rest : ∀ r, ll.rest = some r → isMarker r = false
  keys : ∀ p ∈ ll.keys, isMarker p.name = false
  aux : ∀ p ∈ ll.aux, isMarker p.name = false
  nokey : ll.hasKey = false → ll.keys = [] ∧ ll.aok = false

theorem parse_rAux (s : Sect) (hs : s ≠ .restVar ∧ s ≠ .aux) (acc ll : LL) (h : WF ll) (hacc : acc.aux = []) :
    parseElems s acc (rAux ll) = .ok { acc with aux := ll.aux } := by
  unfold rAux
  split
  · rename_i he
    rw [parse_end s acc hs.1, he, ← hacc]
  · rw [parse_aux s hs]
    have := parse_auxs acc ll.aux [] h.aux
    rw [List.append_nil] at this
    rw [this, parse_end .aux _ (by simp), hacc, List.nil_append]

theorem parse_rKey (s : Sect) (hs : s = .req ∨ s = .opt ∨ s = .afterRest) (acc ll : LL) (h : WF ll)
    (h1 : acc.hasKey = false) (h2 : acc.keys = []) (h3 : acc.aok = false) (h4 : acc.aux = []) :
    parseElems s acc (rKey ll) = .ok { acc with hasKey := ll.hasKey, keys := ll.keys, aok := ll.aok, aux := ll.aux } := by
  have hs' : s ≠ .restVar ∧ s ≠ .aux := by rcases hs with rfl | rfl | rfl <;> simp
  unfold rKey
  cases hk : ll.hasKey with
  | false =>
    obtain ⟨hkeys, haok⟩ := h.nokey hk
    simp only [Bool.false_eq_true, if_false, List.nil_append]
    rw [parse_rAux s hs' acc ll h h4, hkeys, haok]
    simp [h1, h2, h3]
  | true =>
    simp only [if_true, List.cons_append, List.append_assoc]
    rw [parse_key s hs, parse_keys _ _ _ h.keys]
    cases ha : ll.aok with
    | false =>
      simp only [Bool.false_eq_true, if_false, List.nil_append]
      rw [parse_rAux .key (by simp) _ ll h (by simpa using h4)]
      simp [h2, h3]
    | true =>
      simp only [if_true, List.cons_append, List.nil_append]
      rw [parse_aok, parse_rAux .afterAok (by simp) _ ll h (by simpa using h4)]
      simp [h2]

theorem parse_rRest (s : Sect) (hs : s = .req ∨ s = .opt) (acc ll : LL) (h : WF ll) (h0 : acc.rest = none)
    (h1 : acc.hasKey = false) (h2 : acc.keys = []) (h3 : acc.aok = false) (h4 : acc.aux = []) :
    parseElems s acc (rRest ll) =
      .ok { acc with rest := ll.rest, hasKey := ll.hasKey, keys := ll.keys, aok := ll.aok, aux := ll.aux } := by
  unfold rRest
  cases hr : ll.rest with
  | none =>
    simp only [List.nil_append]
    rw [parse_rKey s (by rcases hs with rfl | rfl <;> simp) acc ll h h1 h2 h3 h4, ← h0]
  | some r =>
    simp only [List.cons_append, List.nil_append]
    rw [parse_rest s hs]
    have := parse_param_step .restVar acc { name := r } (rKey ll) (h.rest r hr)
    simp only [renderParam, if_true] at this
    rw [this, parse_rKey .afterRest (by simp) _ ll h (by simpa using h1) (by simpa using h2) (by simpa using h3) (by simpa using h4)]

theorem parseElems_render (ll : LL) (h : WF ll) : parseElems .req {} (render ll) = .ok ll := by
  unfold render
  rw [List.append_assoc, parse_reqs _ _ _ h.req]
  by_cases ho : ll.opt = []
  · simp only [ho, if_true, List.nil_append]
    rw [parse_rRest .req (by simp) _ ll h rfl rfl rfl rfl rfl]
    cases ll; simp_all
  · simp only [ho, if_false, List.cons_append]
    rw [parse_optional, parse_opts _ _ _ h.opt, parse_rRest .opt (by simp) _ ll h rfl rfl rfl rfl rfl]
    cases ll; simp_all

theorem toList?_ofList (xs : List Obj) : (Obj.ofList xs).toList? = some xs := by
  induction xs with
  | nil => rfl
  | cons x xs ih => simp [Obj.ofList, Obj.toList?, ih]

end SlipVerif.Lemmas.LambdaParse
