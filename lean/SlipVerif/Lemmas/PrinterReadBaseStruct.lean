import SlipVerif.Lemmas.PrinterStructGen
import SlipVerif.Lemmas.PrinterReadBase
/- C03: radix-less text read with `*read-base*` = `*print-base*` — the leaf facts of `LeafRead` for any
   base 2..36 (core only). Integers and ratios: `PrinterReadBase`; here the constants, the dot, symbols
   (barred against the numbers of base 10 AND of the print base) and floats (the exponent sign keeps the
   token out of the integer pattern of every base, also where `d`, `s`, `l`, `e` are digits). -/
namespace SlipVerif.Printer
open SlipVerif.Gen

/-- a token made of characters that need no bars, any read base -/
theorem read1_plain_token_rb (hT : TablesOK) (rb : Nat) (c : Char) (r rest : List Char)
    (hc : needPipeChar c = false) (hr : ∀ a ∈ r, needPipeChar a = false)
    (hrest : termOrEnd rest = true) (fuel : Nat) :
    read1 rb (fuel + 1) (c :: (r ++ rest)) = mapOk (fun o => (o, rest)) (classifyTok rb (c :: r)) := by
  have hp := noPipe_plain hT c hc
  exact read1_token hT rb fuel c r rest hp.1 hp.2.1 hp.2.2.1 hp.2.2.2.1 hp.2.2.2.2.1 hp.2.2.2.2.2
    (noPipe_start hT c hc) (fun a ha => noPipe_token hT a (hr a ha)) hrest

def okIs (r : R Obj) (o : Obj) : Bool :=
  match r with
  | .ok x => decide (x = o)
  | .error _ => false

theorem okIs_spec (r : R Obj) (o : Obj) (h : okIs r o = true) : r = .ok o := by
  cases r with
  | ok x => simp [okIs] at h; rw [h]
  | error e => simp [okIs] at h

theorem classify_consts_bool : ∀ b : Fin 37,
    (okIs (classifyTok b.val ['t']) .t && okIs (classifyTok b.val ['n', 'i', 'l']) .nil &&
     okIs (classifyTok b.val ['N', 'I', 'L']) .nil && okIs (classifyTok b.val ['N', 'i', 'l']) .nil &&
     okIs (classifyTok b.val ['.']) dotSym) = true := by decide

theorem classify_consts_fin (b : Fin 37) :
    classifyTok b.val ['t'] = .ok .t ∧ classifyTok b.val ['n', 'i', 'l'] = .ok .nil ∧
    classifyTok b.val ['N', 'I', 'L'] = .ok .nil ∧ classifyTok b.val ['N', 'i', 'l'] = .ok .nil ∧
    classifyTok b.val ['.'] = .ok dotSym := by
  have h := classify_consts_bool b
  simp only [Bool.and_eq_true] at h
  exact ⟨okIs_spec _ _ h.1.1.1.1, okIs_spec _ _ h.1.1.1.2, okIs_spec _ _ h.1.1.2, okIs_spec _ _ h.1.2, okIs_spec _ _ h.2⟩

theorem read1_t_rb (hT : TablesOK) (rb : Nat) (hrb : rb ≤ 36) (rest : List Char) (hrest : termOrEnd rest = true) (fuel : Nat) :
    read1 rb (fuel + 1) ('t' :: rest) = .ok (.t, rest) := by
  have := read1_plain_token_rb hT rb 't' [] rest (letter_noPipe hT _ (by decide)) (by simp) hrest fuel
  simp only [List.nil_append] at this
  rw [this, (classify_consts_fin ⟨rb, by omega⟩).1]
  rfl

theorem read1_nil_rb (hT : TablesOK) (rb : Nat) (hrb : rb ≤ 36) (cs : Case) (rest : List Char)
    (hrest : termOrEnd rest = true) (fuel : Nat) :
    read1 rb (fuel + 1) (caseName cs ['n', 'i', 'l'] ++ rest) = .ok (.nil, rest) := by
  have hl : ∀ c : Char, isLetterC c = true → needPipeChar c = false := fun c h => letter_noPipe hT c h
  have hcl := classify_consts_fin ⟨rb, by omega⟩
  rcases caseName_nil cs with h | h | h <;> rw [h] <;> simp only [List.cons_append, List.nil_append]
  · have := read1_plain_token_rb hT rb 'n' ['i', 'l'] rest (hl _ (by decide))
      (by intro a ha; simp at ha; rcases ha with ha | ha <;> subst ha <;> exact hl _ (by decide)) hrest fuel
    simp only [List.cons_append, List.nil_append] at this
    rw [this, hcl.2.1]; rfl
  · have := read1_plain_token_rb hT rb 'N' ['I', 'L'] rest (hl _ (by decide))
      (by intro a ha; simp at ha; rcases ha with ha | ha <;> subst ha <;> exact hl _ (by decide)) hrest fuel
    simp only [List.cons_append, List.nil_append] at this
    rw [this, hcl.2.2.1]; rfl
  · have := read1_plain_token_rb hT rb 'N' ['i', 'l'] rest (hl _ (by decide))
      (by intro a ha; simp at ha; rcases ha with ha | ha <;> subst ha <;> exact hl _ (by decide)) hrest fuel
    simp only [List.cons_append, List.nil_append] at this
    rw [this, hcl.2.2.2.1]; rfl

theorem read1_dot_rb (hT : TablesOK) (rb : Nat) (hrb : rb ≤ 36) (rest : List Char) (hrest : termOrEnd rest = true) (fuel : Nat) :
    read1 rb (fuel + 1) ('.' :: rest) = .ok (dotSym, rest) := by
  have hd : needPipeChar '.' = false := by
    have := hT.dot_free
    simp [needPipeChar, utf8Bytes] at this ⊢
    exact this
  have := read1_plain_token_rb hT rb '.' [] rest hd (by simp) hrest fuel
  simp only [List.nil_append] at this
  rw [this, (classify_consts_fin ⟨rb, by omega⟩).2.2.2.2]
  rfl

/-! symbols -/

theorem classify_sym_rb (rb : Nat) (tok : List Char) (h1 : tok.map lowerC ≠ ['t']) (h2 : tok.map lowerC ≠ ['n', 'i', 'l'])
    (h3 : isIntTok rb (tok.map lowerC) = false) (h4 : isRatioTok rb (tok.map lowerC) = false)
    (h5 : isDecimalTok (tok.map lowerC) = false) (h6 : isExpTok (tok.map lowerC) = false) :
    classifyTok rb tok = .ok (.sym tok) := by
  have ht : ¬ (tok = ['t'] ∨ tok = ['T']) := by
    intro h
    apply h1
    rcases h with h | h <;> subst h <;> decide
  unfold classifyTok
  simp [ht, h2, h3, h4, h5, h6]

/-- a name that needs no bars under `*print-base*` `base` is one token and a symbol for the reader whose
    `*read-base*` is that base -/
theorem read1_sym_bare_rb (hT : TablesOK) (cs : Case) (base : Nat) (name : List Char)
    (hnb : needsBar base name = false)
    (hnt : name.map lowerC ≠ ['t']) (hnn : name.map lowerC ≠ ['n', 'i', 'l'])
    (rest : List Char) (hrest : termOrEnd rest = true) (fuel : Nat) :
    read1 base (fuel + 1) (caseName cs name ++ rest) = .ok (.sym (caseName cs name), rest) := by
  cases name with
  | nil => simp [needsBar] at hnb
  | cons c r =>
    simp only [needsBar, Bool.or_eq_false_iff, Bool.and_eq_false_iff] at hnb
    obtain ⟨⟨⟨hc, hr⟩, hnum⟩, hnumb⟩ := hnb
    have hrel := caseName_rel cs (c :: r)
    have hlow := lower_caseName cs (c :: r)
    -- the number patterns of the read base
    have hnb' : numberTok base (c :: r) = false := by
      by_cases h10 : base = 10
      · rw [h10]; exact hnum
      · rcases hnumb with h | h
        · simp at h; exact absurd h h10
        · exact h
    cases htok : caseName cs (c :: r) with
    | nil => rw [htok] at hrel; exact absurd hrel (by simp [AllRel])
    | cons c' r' =>
      rw [htok] at hrel hlow
      obtain ⟨hcc, hrr⟩ := hrel
      have hr'np : ∀ y ∈ r', needPipeChar y = false :=
        allRel_noPipe hT r r' hrr (by
          intro x hx
          rw [List.any_eq_false] at hr
          simpa using hr x hx)
      have hr'tok : ∀ y ∈ r', tokenChar y = true := fun y hy => noPipe_token hT y (hr'np y hy)
      simp only [numberTok, Bool.or_eq_false_iff] at hnum hnb'
      obtain ⟨⟨⟨_, _⟩, hde⟩, hex⟩ := hnum
      obtain ⟨⟨⟨hi, hra⟩, _⟩, _⟩ := hnb'
      have hcl : classifyTok base (c' :: r') = .ok (.sym (c' :: r')) := by
        apply classify_sym_rb
        · rw [hlow]; exact hnt
        · rw [hlow]; exact hnn
        · rw [hlow]; exact hi
        · rw [hlow]; exact hra
        · rw [hlow]; exact hde
        · rw [hlow]; exact hex
      have hfirst : isWs c' = false ∧ c' ≠ '(' ∧ c' ≠ ')' ∧ c' ≠ '"' ∧ c' ≠ '|' ∧ c' ≠ '#' ∧ tokenStartChar c' = true := by
        by_cases hamp : c = '&'
        · subst hamp
          have hc' : c' = '&' := by
            rcases hcc with h | ⟨h, _⟩
            · exact h
            · exact absurd h (by decide)
          subst hc'
          have ha := hT.amp_start
          refine ⟨by decide, by decide, by decide, by decide, by decide, by decide, ?_⟩
          simp [tokenStartChar, utf8Bytes, ha]
        · have hnp : needPipeChar c = false := by
            rcases hc with h | h
            · simp at h; exact absurd h hamp
            · exact h
          have hnp' := caseRel_noPipe hT c c' hnp hcc
          have hp := noPipe_plain hT c' hnp'
          exact ⟨hp.1, hp.2.1, hp.2.2.1, hp.2.2.2.1, hp.2.2.2.2.1, hp.2.2.2.2.2, noPipe_start hT c' hnp'⟩
      simp only [List.cons_append]
      rw [read1_token hT base fuel c' r' rest hfirst.1 hfirst.2.1 hfirst.2.2.1 hfirst.2.2.2.1 hfirst.2.2.2.2.1
        hfirst.2.2.2.2.2.1 hfirst.2.2.2.2.2.2 hr'tok hrest, hcl]
      rfl

theorem read1_printSym_rb (hT : TablesOK) (cfg : PCfg) (name : List Char)
    (hnt : name.map lowerC ≠ ['t']) (hnn : name.map lowerC ≠ ['n', 'i', 'l'])
    (rest : List Char) (hrest : termOrEnd rest = true) (fuel : Nat) :
    read1 cfg.base (fuel + 1) (printSym cfg name ++ rest) = .ok (.sym (caseName cfg.case name), rest) := by
  unfold printSym
  by_cases hb : needsBar cfg.base name = true
  · simp only [hb, if_true]
    exact read1_barred (caseName cfg.case name) rest fuel cfg.base
  · have hb' : needsBar cfg.base name = false := by simpa using hb
    simp only [hb', Bool.false_eq_true, if_false]
    exact read1_sym_bare_rb hT cfg.case cfg.base name hb' hnt hnn rest hrest fuel

/-! floats -/

/-- a body holding a character that is neither a digit of the base nor a point does not match
    `[digits]+\.?` -/
theorem intPattern_false_of_mem (b : Nat) (body : List Char) (c : Char) (hc : c ∈ body)
    (hd : isDigitB b c = false) (hdot : c ≠ '.') :
    (!(body.takeWhile (isDigitB b)).isEmpty &&
      (body.dropWhile (isDigitB b) == [] || body.dropWhile (isDigitB b) == ['.'])) = false := by
  have hsplit := List.takeWhile_append_dropWhile (p := isDigitB b) (l := body)
  have hmem : c ∈ body.dropWhile (isDigitB b) := by
    rw [← hsplit, List.mem_append] at hc
    rcases hc with h | h
    · have := takeWhile_all _ c h
      rw [hd] at this
      exact absurd this (by decide)
    · exact h
  cases hr : body.dropWhile (isDigitB b) with
  | nil => rw [hr] at hmem; simp at hmem
  | cons x xs =>
    rw [hr] at hmem
    cases xs with
    | nil =>
      simp only [List.mem_cons, List.not_mem_nil, or_false] at hmem
      subst hmem
      simp [hdot]
    | cons y ys => simp

theorem expSign_mem (D0 : Char) (tail : List Nat) (m : Char) (e : Int) :
    (if e < 0 then '-' else '+') ∈ floatBody D0 tail m e := by
  unfold floatBody
  rw [expText_eq]
  simp

theorem isIntTok_float (b : Nat) (neg : Bool) (d0 : Nat) (hd0 : d0 < 10) (tail : List Nat) (m : Char) (e : Int) :
    isIntTok b (signText neg ++ floatBody (digitChar d0) tail m e) = false := by
  unfold isIntTok
  rw [stripSign_float neg d0 hd0]
  apply intPattern_false_of_mem b _ (if e < 0 then '-' else '+') (expSign_mem _ _ _ _)
  · split <;> simp [isDigitB, digitVal]
  · split <;> decide

/-- a readably printed float is classified as the float it was printed from, whatever `*read-base*` -/
theorem classify_float_rb (rb : Nat) (f : FFmt) (neg : Bool) (ds : List Nat) (e : Int) (hwf : FloatWF ds e) :
    classifyTok rb (floatE (markerOf f) neg ds e) = .ok (.flt f neg ds e) := by
  have hd0 : ds.headD 0 < 10 := by
    cases ds with
    | nil => simp
    | cons d r => simpa using hwf.1 d (by simp)
  have htail : ∀ d ∈ ds.tail, d < 10 := fun d hd => hwf.1 d (List.mem_of_mem_tail hd)
  have hD := digit10_props (ds.headD 0) hd0
  obtain ⟨hm, hfm⟩ := lower_marker f
  have hlow : (floatE (markerOf f) neg ds e).map lowerC =
      signText neg ++ floatBody (digitChar (ds.headD 0)) ds.tail (lowerC (markerOf f)) e := by
    rw [floatE_shape, List.map_append, signText_lower, floatBody_lower _ hd0 _ htail]
  have hhead : ∃ c r, floatE (markerOf f) neg ds e = c :: r ∧ c ≠ 't' ∧ c ≠ 'T' ∧ lowerC c ≠ 'n' := by
    rw [floatE_shape]
    cases neg with
    | true => exact ⟨'-', _, rfl, by decide, by decide, by decide⟩
    | false => exact ⟨_, _, rfl, hD.2.2.2.2.2.1, hD.2.2.2.2.2.2.1, by rw [hD.2.1]; exact hD.2.2.2.2.2.2.2⟩
  obtain ⟨c, r, hcr, hc1, hc2, hc3⟩ := hhead
  have hbf := bodyFacts (digitChar (ds.headD 0)) ds.tail (lowerC (markerOf f)) e hD.1 htail hm
  unfold classifyTok
  simp only [hlow]
  have h1 : ¬ (floatE (markerOf f) neg ds e = ['t'] ∨ floatE (markerOf f) neg ds e = ['T']) := by
    rw [hcr]; simp [hc1, hc2]
  have h2 : ¬ (signText neg ++ floatBody (digitChar (ds.headD 0)) ds.tail (lowerC (markerOf f)) e = ['n', 'i', 'l']) := by
    rw [← hlow, hcr]; simp [hc3]
  have h3 := isIntTok_float rb neg (ds.headD 0) hd0 ds.tail (lowerC (markerOf f)) e
  have h4 : isExpTok (signText neg ++ floatBody (digitChar (ds.headD 0)) ds.tail (lowerC (markerOf f)) e) = true := by
    unfold isExpTok
    rw [stripSign_float neg _ hd0]
    exact hbf.isExp
  simp only [h1, h2, h3, h4, if_false, Bool.or_true, if_true, Bool.false_eq_true]
  rw [parseFloatTok_printed neg _ _ _ e hd0 htail hm, hfm]
  cases ds with
  | nil =>
    have he : e = 0 := hwf.2.2.2 rfl
    subst he
    simp [dropTrailingZeros]
  | cons d r =>
    have hdne : d ≠ 0 := by
      intro h0; exact hwf.2.1 (by simp [h0])
    have hdw : List.dropWhile (· == 0) (d :: r) = d :: r := by simp [hdne]
    have htw : List.takeWhile (· == 0) (d :: r) = [] := by simp [hdne]
    simp only [List.headD_cons, List.tail_cons, hdw, htw, dropTrailingZeros_id (d :: r) hwf.2.2.1, List.length_nil]
    have : (1 : Int) + e - 1 - ((0 : Nat) : Int) = e := by omega
    rw [this]

theorem read1_printFloat_rb (hT : TablesOK) (rb : Nat) (cfg : PCfg) (hr : cfg.readably = true) (f : FFmt) (neg : Bool)
    (ds : List Nat) (e : Int) (hwf : FloatWF ds e) (rest : List Char) (hrest : termOrEnd rest = true) (fuel : Nat) :
    read1 rb (fuel + 1) (printFloat cfg f neg ds e ++ rest) = .ok (.flt f neg ds e, rest) := by
  have hd0 : ds.headD 0 < 10 := by
    cases ds with
    | nil => simp
    | cons d r => simpa using hwf.1 d (by simp)
  have htail : ∀ d ∈ ds.tail, d < 10 := fun d hd => hwf.1 d (List.mem_of_mem_tail hd)
  have hD := digitChar_props_fin ⟨ds.headD 0, by omega⟩
  have hmk : markerOf f = 's' ∨ markerOf f = 'd' ∨ markerOf f = 'L' := by cases f <;> simp [markerOf]
  have hcl := classify_float_rb rb f neg ds e hwf
  have hbody := float_chars_token hT (markerOf f) hmk _ hd0 ds.tail htail e
  unfold printFloat
  simp only [hr, if_true]
  rw [floatE_shape] at hcl ⊢
  have hdstart : tokenStartChar (digitChar (ds.headD 0)) = true := numChar_start hT _ (Or.inr ⟨_, hd0, rfl⟩)
  have hdtok : tokenChar (digitChar (ds.headD 0)) = true := numChar_token hT _ (Or.inl (Or.inr ⟨_, by omega, rfl⟩))
  cases neg with
  | true =>
    simp only [signText, if_true, List.cons_append, List.nil_append, floatBody] at hcl ⊢
    rw [show '-' :: digitChar (ds.headD 0) :: ((fracText ds.tail ++ markerOf f :: expText e) ++ rest) =
        '-' :: ((digitChar (ds.headD 0) :: (fracText ds.tail ++ markerOf f :: expText e)) ++ rest) by simp]
    rw [read1_token hT rb fuel '-' _ rest (by decide) (by decide) (by decide) (by decide) (by decide) (by decide)
      (numChar_start hT _ (Or.inl rfl))
      (by
        intro a ha
        simp only [List.mem_cons] at ha
        rcases ha with ha | ha
        · subst ha; exact hdtok
        · exact hbody a ha) hrest, hcl]
    rfl
  | false =>
    simp only [signText, Bool.false_eq_true, if_false, List.nil_append, floatBody, List.cons_append] at hcl ⊢
    rw [read1_token hT rb fuel _ _ rest hD.2.2.2.2.1 hD.2.2.2.2.2.1 hD.2.2.2.2.2.2.1 hD.2.2.2.2.2.2.2.1
      hD.2.2.2.2.2.2.2.2.1 hD.2.2.2.2.2.2.2.2.2.1 hdstart hbody hrest, hcl]
    rfl

/-! the instance -/

/-- the digits of an integer leaf do not spell the constants `t` / `nil` in base `b` -/
def NoSpell (b : Nat) : Obj → Prop
  | .int n => intText b n ≠ ['t'] ∧ intText b n ≠ ['n', 'i', 'l']
  | _ => True

/-- the readable settings without `*print-radix*`: the text is read with `*read-base*` = `*print-base*` -/
structure CfgRB (cfg : PCfg) : Prop where
  base_lo : 2 ≤ cfg.base
  base_hi : cfg.base ≤ 36
  noradix : cfg.radix = false
  readably : cfg.readably = true
  array : cfg.array = true

theorem leafRead_readbase (hT : TablesOK) (cfg : PCfg) (hC : CfgRB cfg) : LeafRead cfg.base cfg (NoSpell cfg.base) where
  readably := hC.readably
  array := hC.array
  rnil := fun rest hrest fuel => read1_nil_rb hT cfg.base hC.base_hi cfg.case rest hrest fuel
  rt := fun rest hrest fuel => read1_t_rb hT cfg.base hC.base_hi rest hrest fuel
  rdot := fun rest hrest fuel => read1_dot_rb hT cfg.base hC.base_hi rest hrest fuel
  rint := by
    intro n hn rest hrest fuel
    have : printInt cfg n = intText cfg.base n := by simp [printInt, hC.noradix]
    rw [this]
    exact read1_int_readbase hT cfg.base hC.base_lo hC.base_hi n hn.1 hn.2 rest hrest fuel
  rratio := by
    intro num den hden hco rest hrest fuel
    have : printRatio cfg num den = printRatio { base := cfg.base, radix := false } num den := by
      simp [printRatio, printInt, hC.noradix]
    rw [this]
    exact read1_ratio_readbase hT cfg.base hC.base_lo hC.base_hi num den hden hco rest hrest fuel
  rsym := fun name hnt hnn rest hrest fuel => read1_printSym_rb hT cfg name hnt hnn rest hrest fuel
  rflt := fun f neg ds e hwf rest hrest fuel => read1_printFloat_rb hT cfg.base cfg hC.readably f neg ds e hwf rest hrest fuel

/-- the structural round trip for radix-less text under `*read-base*` = `*print-base*` -/
theorem struct_roundtrip_readbase (hT : TablesOK) (cfg : PCfg) (hC : CfgRB cfg) (x : Obj) :
    PReadG cfg.base cfg (NoSpell cfg.base) x ∧ QReadG cfg.base cfg (NoSpell cfg.base) x :=
  struct_roundtrip_gen hT (leafRead_readbase hT cfg hC) x

end SlipVerif.Printer
