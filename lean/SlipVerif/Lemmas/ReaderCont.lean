import SlipVerif.Model.Reader
import SlipVerif.Lemmas.ReaderInv
import SlipVerif.Lemmas.ReaderHalt
import SlipVerif.Lemmas.ReaderMono
/-
  The continuation form of the one-form position: after the first form has been read, reading the
  rest of the text *from a fresh reader* yields exactly what the whole-text read yields after that
  form. The whole-text run and the fresh run are related by `Rel`: same mode, stack, open lists and
  halt, the finished objects of the whole-text run are `pre ++` those of the fresh run, positions
  differ by `off`, and the scratch fields a fresh reader has not set yet (`base`, `sharpNum`, `rn`,
  `rcnt`, `nextMode`, the token / string bytes) agree in the modes that read them.
-/
namespace SlipVerif.Reader

/-! ### the table obligation (decided for the regenerated tables in Theorems/GenC02) -/

/-- the actions that read `r.sharpNum` -/
def readsSharpNum (a : Action) : Bool := a == .sharpNumByte || a == .radixByte || a == .arrayByte

def allPModes : List PMode := [.value, .comment, .sharp, .sharpNum, .mustArray, .blockComment, .blockEnd]
def allTModes : List TMode := [.token, .chr, .int, .bitVec]
def allSModes : List SMode := [.string, .symbol]

/-- what the continuation property needs of the tables at byte `b`:
    * `r.sharpNum` is read only in `sharpNumMode` (where `sharpIntByte` has just set it), so a value
      left over from an earlier form is never seen;
    * `closeParen` sits only in `valueMode` and only on a byte the one-form exit counts to the form;
    * a token is never ended by `)`, `"` or `|` that would then start / complete something in
      `valueMode` (the one-form exit would count that byte to the token's form);
    * a string / |symbol| is ended only by a byte the one-form exit counts to the form. -/
def contByteOK (T : Tables) (b : Byte) : Bool :=
  allPModes.all (fun p =>
    match lookup? T (.plain p) b with
    | some a => (!readsSharpNum a || p == .sharpNum) && (!(a == .closeParen) || (p == .value && isCloser b))
    | none => true) &&
  allTModes.all (fun t =>
    match lookup? T (.tok t) b with
    | some a =>
      !(a == doneOf t && isCloser b) ||
        (match lookup? T (.plain .value) b with
         | some av => av == .closeParen || av == .raise
         | none => true)
    | none => true) &&
  allSModes.all (fun m =>
    match lookup? T (.str m) b with
    | some a => !(a == .stringDone || a == .pipeDone) || isCloser b
    | none => true)

def contOK (T : Tables) : Bool := (List.range 256).all (fun n => contByteOK T n.toUInt8)

/-- prefix the finished objects, shift the position -/
def Result.shift (pre : List Obj) (off : Nat) : Result → Result
  | .ok code p => .ok (pre ++ code) (off + p)
  | .err e code => .err e (pre ++ code)

theorem contOK_byte (T : Tables) (h : contOK T = true) (b : Byte) : contByteOK T b = true := by
  unfold contOK at h
  rw [List.all_eq_true] at h
  have := h b.toNat (by simp [UInt8.toNat_lt b])
  simpa using this

theorem cont_plain (T : Tables) (h : contOK T = true) (p : PMode) (b : Byte) (a : Action)
    (hl : lookup? T (.plain p) b = some a) :
    (readsSharpNum a = true → p = .sharpNum) ∧ (a = .closeParen → p = .value ∧ isCloser b = true) := by
  have hb := contOK_byte T h b
  unfold contByteOK at hb
  simp only [Bool.and_eq_true, List.all_eq_true] at hb
  have hp : p ∈ allPModes := by cases p <;> simp [allPModes]
  have := hb.1.1 p hp
  simp only [hl, Bool.and_eq_true, Bool.or_eq_true, Bool.not_eq_true', beq_iff_eq] at this
  constructor
  · intro hr
    rcases this.1 with h1 | h1
    · rw [hr] at h1; cases h1
    · exact h1
  · intro ha
    rcases this.2 with h1 | h1
    · exact absurd ha (by simpa using h1)
    · exact h1

theorem cont_tokdone (T : Tables) (h : contOK T = true) (t : TMode) (b : Byte)
    (hl : lookup? T (.tok t) b = some (doneOf t)) (hc : isCloser b = true) (av : Action)
    (hv : lookup? T (.plain .value) b = some av) : av = .closeParen ∨ av = .raise := by
  have hb := contOK_byte T h b
  unfold contByteOK at hb
  simp only [Bool.and_eq_true, List.all_eq_true] at hb
  have ht : t ∈ allTModes := by cases t <;> simp [allTModes]
  have := hb.1.2 t ht
  simpa [hl, hv, hc] using this

theorem cont_strdone (T : Tables) (h : contOK T = true) (m : SMode) (b : Byte) (a : Action)
    (hl : lookup? T (.str m) b = some a) (ha : a = .stringDone ∨ a = .pipeDone) : isCloser b = true := by
  have hb := contOK_byte T h b
  unfold contByteOK at hb
  simp only [Bool.and_eq_true, List.all_eq_true] at hb
  have hm : m ∈ allSModes := by cases m <;> simp [allSModes]
  have := hb.2 m hm
  rcases ha with ha | ha <;> simpa [hl, ha] using this

/-! ### the relation on cores -/

structure CR (pre : List Obj) (c c' : Core) : Prop where
  stack : c.stack = c'.stack
  starts : c.starts = c'.starts
  halt : c.halt = c'.halt
  code : c.code = pre ++ c'.code

/-- `c` is `c'` with the prefix put before the finished objects and other scratch fields -/
theorem cr_form {pre : List Obj} {c c' : Core} (h : CR pre c c') :
    ∃ x1 x2 x3 x4 x5 x6, c = { c' with code := pre ++ c'.code, base := x1, sharpNum := x2, rn := x3, rcnt := x4, nextMode := x5, line := x6 } := by
  refine ⟨c.base, c.sharpNum, c.rn, c.rcnt, c.nextMode, c.line, ?_⟩
  obtain ⟨h1, h2, h3, h4⟩ := h
  cases c; cases c'
  simp only at h1 h2 h3 h4
  subst h1 h2 h3 h4
  rfl

theorem cr_fail {pre : List Obj} {c c' : Core} (e : Err) (h : CR pre c c') : CR pre (c.fail e) (c'.fail e) :=
  ⟨h.stack, h.starts, rfl, h.code⟩

theorem cr_push {pre : List Obj} {c c' : Core} (o : Obj) (h : CR pre c c') : CR pre (c.push o) (c'.push o) := by
  obtain ⟨x1, x2, x3, x4, x5, x6, rfl⟩ := cr_form h
  unfold Core.push
  simp only []
  split
  · exact ⟨rfl, rfl, rfl, by simp⟩
  · exact ⟨rfl, rfl, rfl, rfl⟩

theorem cr_place {pre : List Obj} {c c' : Core} (start : Nat) (obj : Obj) (h : CR pre c c') :
    CR pre (c.place start obj) (c'.place start obj) := by
  obtain ⟨x1, x2, x3, x4, x5, x6, rfl⟩ := cr_form h
  unfold Core.place
  simp only []
  split
  · exact ⟨rfl, rfl, rfl, rfl⟩
  · exact ⟨rfl, rfl, rfl, by simp⟩

theorem cr_openWith {pre : List Obj} {c c' : Core} (k : Opener) (h : CR pre c c') :
    CR pre (openWith c k) (openWith c' k) := by
  obtain ⟨x1, x2, x3, x4, x5, x6, rfl⟩ := cr_form h
  exact ⟨rfl, rfl, rfl, rfl⟩

theorem cr_closeList {pre : List Obj} {c c' : Core} (h : CR pre c c') : CR pre (closeList c) (closeList c') := by
  have hst := h.stack
  have hss := h.starts
  unfold closeList
  rw [hst, hss]
  repeat' split
  all_goals try simp only []
  all_goals repeat' split
  all_goals first
    | exact cr_place _ _ h
    | exact cr_fail _ h

theorem cr_pushToken {pre : List Obj} {c c' : Core} (cfg : Cfg) (tok : List Byte) (h : CR pre c c') :
    CR pre (pushToken cfg c tok) (pushToken cfg c' tok) := by
  obtain ⟨x1, x2, x3, x4, x5, x6, rfl⟩ := cr_form h
  unfold pushToken
  simp only []
  repeat' split
  all_goals first
    | exact cr_push _ h
    | exact ⟨rfl, rfl, rfl, by simp⟩
    | exact ⟨rfl, rfl, rfl, rfl⟩

theorem cr_pushInteger {pre : List Obj} {c c' : Core} (tok : List Byte) (h : CR pre c c')
    (hb : c.base = c'.base) : CR pre (pushInteger c tok) (pushInteger c' tok) := by
  unfold pushInteger
  rw [hb]
  repeat' split
  all_goals try simp only []
  all_goals repeat' split
  all_goals first
    | exact cr_push _ h
    | exact cr_fail _ h

theorem cr_pushChar {pre : List Obj} {c c' : Core} (T : Tables) (tok : List Byte) (h : CR pre c c') :
    CR pre (pushChar T c tok) (pushChar T c' tok) := by
  unfold pushChar
  repeat' split
  all_goals try simp only []
  all_goals repeat' split
  all_goals first
    | exact cr_push _ h
    | exact cr_fail _ h

theorem cr_consume {pre : List Obj} {c c' : Core} (T : Tables) (cfg : Cfg) (t : TMode) (tok : List Byte)
    (h : CR pre c c') (hb : t = .int → c.base = c'.base) :
    CR pre (consume T cfg t c tok) (consume T cfg t c' tok) := by
  cases t
  · exact cr_pushToken cfg tok h
  · exact cr_pushChar T tok h
  · exact cr_pushInteger tok h (hb rfl)
  · exact cr_push _ h

theorem cr_setBase {pre : List Obj} {c c' : Core} (b : Option (Option Nat)) (h : CR pre c c') :
    CR pre (setBase c b) (setBase c' b) := by
  unfold setBase
  split <;> exact ⟨h.stack, h.starts, h.halt, h.code⟩

theorem cr_commaAtTop {pre : List Obj} {c c' : Core} (h : CR pre c c') :
    (commaAtTop c = none ∧ commaAtTop c' = none) ∨
    ∃ d d', commaAtTop c = some d ∧ commaAtTop c' = some d' ∧ CR pre d d' := by
  obtain ⟨x1, x2, x3, x4, x5, x6, rfl⟩ := cr_form h
  unfold commaAtTop
  simp only []
  split
  · exact Or.inr ⟨_, _, rfl, rfl, ⟨rfl, rfl, rfl, rfl⟩⟩
  · exact Or.inl ⟨rfl, rfl⟩

/-- the actions of `plainAct` that read `sharpNum` -/
theorem cr_plainAct {pre : List Obj} {c c' : Core} (T : Tables) (a : Action) (b : Byte) (h : CR pre c c')
    (hs : readsSharpNum a = true → c.sharpNum = c'.sharpNum) :
    CR pre (plainAct T c a b) (plainAct T c' a b) := by
  unfold plainAct
  cases a <;> simp only []
  all_goals first
    | exact h
    | exact cr_closeList h
    | exact cr_openWith _ h
    | exact ⟨h.stack, h.starts, h.halt, h.code⟩
    | exact ⟨by rw [h.stack], h.starts, h.halt, h.code⟩
    | skip
  · -- arrayByte
    rw [hs (by decide)]
    repeat' split
    all_goals first | exact cr_openWith _ h | exact cr_fail _ h
  · -- comma
    rw [h.stack]
    split
    · exact ⟨rfl, h.starts, h.halt, h.code⟩
    · exact cr_fail _ h

theorem place_sharpNum (c : Core) (start : Nat) (obj : Obj) : (c.place start obj).sharpNum = c.sharpNum := by
  unfold Core.place; split <;> rfl

theorem closeList_sharpNum (c : Core) : (closeList c).sharpNum = c.sharpNum := by
  unfold closeList
  repeat' split
  all_goals try simp only []
  all_goals repeat' split
  all_goals first | exact place_sharpNum _ _ _ | rfl

/-- only `sharpIntByte` and `sharpNumByte` write `sharpNum` -/
theorem plainAct_sharpNum (T : Tables) (c : Core) (a : Action) (b : Byte)
    (h1 : a ≠ .sharpIntByte) (h2 : a ≠ .sharpNumByte) : (plainAct T c a b).sharpNum = c.sharpNum := by
  unfold plainAct
  cases a <;> simp only []
  all_goals first
    | rfl
    | exact closeList_sharpNum c
    | exact absurd rfl h1
    | exact absurd rfl h2
    | (repeat' split) <;> rfl

/-- the `sharpNum` the next plain mode may read agrees -/
theorem plainAct_sharp_next (T : Tables) (c c' : Core) (a : Action) (b : Byte) (p : PMode)
    (hs : p = .sharpNum → c.sharpNum = c'.sharpNum)
    (hr : readsSharpNum a = true → p = .sharpNum)
    (hn : plainNext a p = .sharpNum) : (plainAct T c a b).sharpNum = (plainAct T c' a b).sharpNum := by
  by_cases h1 : a = .sharpIntByte
  · subst h1; rfl
  · by_cases h2 : a = .sharpNumByte
    · subst h2
      have := hs (hr (by decide))
      simp only [plainAct, this]
    · rw [plainAct_sharpNum T c a b h1 h2, plainAct_sharpNum T c' a b h1 h2]
      apply hs
      cases a <;> simp_all [plainNext]

theorem kindOf_startAfter {a : Action} {t : TMode} {base : Option (Option Nat)}
    (h : kindOf a = .startAfter t base) :
    (t = .int → base ≠ none) ∧ (base = some none → a = .radixByte) := by
  cases a <;> simp [kindOf] at h
  all_goals (obtain ⟨rfl, rfl⟩ := h; simp)

/-! ### the relation on states -/

def tokLive : Mode → Prop
  | .tok _ => True
  | _ => False

def strLive : Mode → Prop
  | .str _ => True
  | .esc => True
  | .rune => True
  | _ => False

structure Rel (pre : List Obj) (off : Nat) (s s' : S1) : Prop where
  core : CR pre s.core s'.core
  mode : s.mode = s'.mode
  pos : s.pos = off + s'.pos
  tok : tokLive s'.mode → s.tok = s'.tok
  sbuf : strLive s'.mode → s.sbuf = s'.sbuf ∧ s.core.nextMode = s'.core.nextMode
  base : s'.mode = .tok .int → s.core.base = s'.core.base
  sharp : s'.mode = .plain .sharpNum → s.core.sharpNum = s'.core.sharpNum
  rune : s'.mode = .rune → s.core.rn = s'.core.rn ∧ s.core.rcnt = s'.core.rcnt

theorem rel_fail {pre : List Obj} {off : Nat} {s s' : S1} (e : Err) (h : Rel pre off s s') :
    Rel pre off (s.fail e) (s'.fail e) :=
  ⟨cr_fail e h.core, h.mode, h.pos, h.tok, h.sbuf, h.base, h.sharp, h.rune⟩

/-- a byte handled in a plain mode `p` (the states may still carry another mode: `goto Retry`) -/
theorem rel_plainStep1 (T : Tables) (hC : contOK T = true) {pre : List Obj} {off : Nat} {s s' : S1}
    (p : PMode) (b : Byte) (h : Rel pre off s s')
    (hsharp : p = .sharpNum → s.core.sharpNum = s'.core.sharpNum) :
    Rel pre off (plainStep1 T s p b) (plainStep1 T s' p b) := by
  unfold plainStep1
  cases hl : lookup? T (.plain p) b with
  | none => exact rel_fail _ h
  | some a =>
    simp only []
    have hcont := cont_plain T hC p b a hl
    cases hk : kindOf a with
    | core =>
      simp only []
      refine ⟨cr_plainAct T a b h.core (fun hr => hsharp (hcont.1 hr)), rfl, h.pos, ?_, ?_, ?_, ?_, ?_⟩
      · intro ht; cases ht
      · intro ht; cases ht
      · intro ht; cases ht
      · intro ht
        have hn : plainNext a p = .sharpNum := by simpa using ht
        exact plainAct_sharp_next T _ _ a b p hsharp hcont.1 hn
      · intro ht; cases ht
    | startTok =>
      simp only []
      refine ⟨h.core, rfl, h.pos, fun _ => rfl, ?_, ?_, ?_, ?_⟩
      · intro ht; cases ht
      · intro ht; cases ht
      · intro ht; cases ht
      · intro ht; cases ht
    | commaAt =>
      simp only []
      rcases cr_commaAtTop h.core with ⟨h1, h2⟩ | ⟨d, d', h1, h2, hd⟩
      · rw [h1, h2]
        simp only []
        refine ⟨h.core, rfl, h.pos, fun _ => rfl, ?_, ?_, ?_, ?_⟩
        · intro ht; cases ht
        · intro ht; cases ht
        · intro ht; cases ht
        · intro ht; cases ht
      · rw [h1, h2]
        simp only []
        refine ⟨hd, rfl, h.pos, ?_, ?_, ?_, ?_, ?_⟩
        · intro ht; cases ht
        · intro ht; cases ht
        · intro ht; cases ht
        · intro ht
          have hp : p = .sharpNum := by simpa using ht
          -- commaAtTop only changes the stack
          have e1 : d.sharpNum = s.core.sharpNum := by
            unfold commaAtTop at h1; split at h1 <;> cases h1; rfl
          have e2 : d'.sharpNum = s'.core.sharpNum := by
            unfold commaAtTop at h2; split at h2 <;> cases h2; rfl
          simp only [e1, e2]; exact hsharp hp
        · intro ht; cases ht
    | startAfter t base =>
      simp only []
      have hka := kindOf_startAfter hk
      refine ⟨cr_setBase base h.core, rfl, h.pos, fun _ => rfl, ?_, ?_, ?_, ?_⟩
      · intro ht; cases ht
      · intro ht
        have ht' : t = .int := by simpa using ht
        cases base with
        | none => exact absurd rfl (hka.1 ht')
        | some ob =>
          cases ob with
          | some n => rfl
          | none =>
            have ha := hka.2 rfl
            have : readsSharpNum a = true := by rw [ha]; decide
            exact hsharp (hcont.1 this)
      · intro ht; cases ht
      · intro ht; cases ht
    | startStr m =>
      simp only []
      refine ⟨⟨h.core.stack, h.core.starts, h.core.halt, h.core.code⟩, rfl, h.pos, ?_, fun _ => ⟨rfl, rfl⟩, ?_, ?_, ?_⟩
      · intro ht; cases ht
      · intro ht; cases ht
      · intro ht; cases ht
      · intro ht; cases ht
    | startChar =>
      simp only []
      refine ⟨h.core, rfl, h.pos, ?_, ?_, ?_, ?_, ?_⟩
      · intro ht; cases ht
      · intro ht; cases ht
      · intro ht; cases ht
      · intro ht; cases ht
      · intro ht; cases ht
    | raise => exact rel_fail _ h
    | bad => exact rel_fail _ h

theorem rel_tokStep1 (T : Tables) (hC : contOK T = true) (cfg : Cfg) {pre : List Obj} {off : Nat} {s s' : S1}
    (t : TMode) (b : Byte) (h : Rel pre off s s') (hm : s'.mode = .tok t) :
    Rel pre off (tokStep1 T cfg s t b) (tokStep1 T cfg s' t b) := by
  have htok : s.tok = s'.tok := h.tok (by rw [hm]; trivial)
  unfold tokStep1
  cases hl : lookup? T (.tok t) b with
  | none => exact rel_fail _ h
  | some a =>
    simp only []
    by_cases h1 : a = .skipByte
    · simp only [h1, if_true]
      refine ⟨h.core, h.mode, h.pos, fun _ => by simp [htok], h.sbuf, h.base, h.sharp, h.rune⟩
    · simp only [h1, if_false]
      by_cases h2 : a = doneOf t
      · simp only [h2, if_true]
        have hcr : CR pre (consume T cfg t s.core s.tok) (consume T cfg t s'.core s'.tok) := by
          rw [htok]
          exact cr_consume T cfg t _ h.core (fun ht => h.base (by rw [hm, ht]))
        have h0 : Rel pre off
            { s with core := consume T cfg t s.core s.tok, mode := .plain .value, tok := [] }
            { s' with core := consume T cfg t s'.core s'.tok, mode := .plain .value, tok := [] } := by
          refine ⟨hcr, rfl, h.pos, ?_, ?_, ?_, ?_, ?_⟩
          · intro ht; cases ht
          · intro ht; cases ht
          · intro ht; cases ht
          · intro ht; cases ht
          · intro ht; cases ht
        rw [show (consume T cfg t s.core s.tok).halt = (consume T cfg t s'.core s'.tok).halt from hcr.halt]
        split
        · exact h0
        · exact rel_plainStep1 T hC .value b h0 (fun hp => by cases hp)
      · simp only [h2, if_false]
        split <;> exact rel_fail _ h

theorem rel_strStep1 (T : Tables) {pre : List Obj} {off : Nat} {s s' : S1}
    (m : SMode) (b : Byte) (h : Rel pre off s s') (hm : s'.mode = .str m) :
    Rel pre off (strStep1 T s m b) (strStep1 T s' m b) := by
  have hsb := h.sbuf (by rw [hm]; trivial)
  unfold strStep1
  cases hl : lookup? T (.str m) b with
  | none => exact rel_fail _ h
  | some a =>
    simp only []
    cases a <;> simp only []
    all_goals first
      | exact rel_fail _ h
      | skip
    · -- stringByte
      refine ⟨h.core, h.mode, h.pos, h.tok, fun ht => ⟨by rw [hsb.1], (h.sbuf ht).2⟩, h.base, h.sharp, h.rune⟩
    · -- stringDone
      rw [hsb.1]
      refine ⟨cr_push _ h.core, rfl, h.pos, ?_, ?_, ?_, ?_, ?_⟩
      · intro ht; cases ht
      · intro ht; cases ht
      · intro ht; cases ht
      · intro ht; cases ht
      · intro ht; cases ht
    · -- pipeDone
      rw [hsb.1]
      refine ⟨cr_push _ h.core, rfl, h.pos, ?_, ?_, ?_, ?_, ?_⟩
      · intro ht; cases ht
      · intro ht; cases ht
      · intro ht; cases ht
      · intro ht; cases ht
      · intro ht; cases ht
    · -- escByte
      refine ⟨h.core, rfl, h.pos, ?_, fun _ => hsb, ?_, ?_, ?_⟩
      · intro ht; cases ht
      · intro ht; cases ht
      · intro ht; cases ht
      · intro ht; cases ht

theorem rel_escStep1 (T : Tables) {pre : List Obj} {off : Nat} {s s' : S1}
    (b : Byte) (h : Rel pre off s s') (hm : s'.mode = .esc) :
    Rel pre off (escStep1 T s b) (escStep1 T s' b) := by
  have hsb := h.sbuf (by rw [hm]; trivial)
  unfold escStep1
  cases hl : lookup? T .esc b with
  | none => exact rel_fail _ h
  | some a =>
    simp only []
    cases a <;> simp only []
    all_goals first
      | exact rel_fail _ h
      | skip
    · -- escOne
      rw [hsb.1, hsb.2]
      refine ⟨h.core, rfl, h.pos, ?_, fun _ => ⟨rfl, hsb.2⟩, ?_, ?_, ?_⟩
      · intro ht; cases ht
      · intro ht; cases ht
      · intro ht; cases ht
      · intro ht; cases ht
    · -- escUnicode4
      refine ⟨⟨h.core.stack, h.core.starts, h.core.halt, h.core.code⟩, rfl, h.pos, ?_, fun _ => hsb, ?_, ?_, fun _ => ⟨rfl, rfl⟩⟩
      · intro ht; cases ht
      · intro ht; cases ht
      · intro ht; cases ht
    · -- escUnicode8
      refine ⟨⟨h.core.stack, h.core.starts, h.core.halt, h.core.code⟩, rfl, h.pos, ?_, fun _ => hsb, ?_, ?_, fun _ => ⟨rfl, rfl⟩⟩
      · intro ht; cases ht
      · intro ht; cases ht
      · intro ht; cases ht

theorem rel_runeStep1 (T : Tables) {pre : List Obj} {off : Nat} {s s' : S1}
    (b : Byte) (h : Rel pre off s s') (hm : s'.mode = .rune) :
    Rel pre off (runeStep1 T s b) (runeStep1 T s' b) := by
  have hsb := h.sbuf (by rw [hm]; trivial)
  have hrn := h.rune hm
  unfold runeStep1
  cases hl : lookup? T .rune b with
  | none => exact rel_fail _ h
  | some a =>
    simp only []
    cases hv : runeVal a b with
    | none =>
      simp only []
      split <;> exact rel_fail _ h
    | some v =>
      simp only []
      rw [hrn.1, hrn.2, hsb.1, hsb.2]
      split
      · refine ⟨⟨h.core.stack, h.core.starts, h.core.halt, h.core.code⟩, rfl, h.pos, ?_, fun _ => ⟨rfl, rfl⟩, ?_, ?_, ?_⟩
        · intro ht; cases ht
        · intro ht; cases ht
        · intro ht; cases ht
        · intro ht; cases ht
      · refine ⟨⟨h.core.stack, h.core.starts, h.core.halt, h.core.code⟩, h.mode, h.pos, h.tok, fun _ => ⟨rfl, rfl⟩, ?_, ?_, fun _ => ⟨rfl, rfl⟩⟩
        · intro ht; rw [hm] at ht; cases ht
        · intro ht; rw [hm] at ht; cases ht

theorem rel_chrStartStep1 (T : Tables) {pre : List Obj} {off : Nat} {s s' : S1}
    (b : Byte) (h : Rel pre off s s') :
    Rel pre off (chrStartStep1 T s b) (chrStartStep1 T s' b) := by
  unfold chrStartStep1
  cases hl : lookup? T .chrStart b with
  | none => exact rel_fail _ h
  | some a =>
    simp only []
    split
    · refine ⟨h.core, rfl, h.pos, fun _ => rfl, ?_, ?_, ?_, ?_⟩
      · intro ht; cases ht
      · intro ht; cases ht
      · intro ht; cases ht
      · intro ht; cases ht
    · split <;> exact rel_fail _ h

theorem plainStep1_pos (T : Tables) (s : S1) (p : PMode) (b : Byte) : (plainStep1 T s p b).pos = s.pos := by
  unfold plainStep1
  repeat' split
  all_goals rfl

theorem body1_pos (T : Tables) (cfg : Cfg) (s : S1) (b : Byte) : (body1 T cfg s b).pos = s.pos := by
  unfold body1
  split
  · exact plainStep1_pos T s _ b
  · unfold tokStep1
    repeat' split
    all_goals try simp only []
    all_goals repeat' split
    all_goals first | rfl | exact plainStep1_pos T _ _ b
  · unfold strStep1; repeat' split
    all_goals rfl
  · unfold escStep1; repeat' split
    all_goals rfl
  · unfold runeStep1; repeat' split
    all_goals rfl
  · unfold chrStartStep1; repeat' split
    all_goals rfl

theorem rel_body1 (T : Tables) (hC : contOK T = true) (cfg : Cfg) {pre : List Obj} {off : Nat} {s s' : S1}
    (b : Byte) (h : Rel pre off s s') : Rel pre off (body1 T cfg s b) (body1 T cfg s' b) := by
  unfold body1
  rw [h.mode]
  cases hm : s'.mode with
  | plain p => exact rel_plainStep1 T hC p b h (fun hp => h.sharp (by rw [hm, hp]))
  | tok t => exact rel_tokStep1 T hC cfg t b h hm
  | str m => exact rel_strStep1 T m b h hm
  | esc => exact rel_escStep1 T b h hm
  | rune => exact rel_runeStep1 T b h hm
  | chrStart => exact rel_chrStartStep1 T b h

theorem oneCheck_off (cfg : Cfg) (hc : cfg.one = false) (pos : Nat) (b : Byte) (c : Core) :
    oneCheck cfg pos b c = c := by
  unfold oneCheck
  cases c.halt <;> simp [hc]

theorem rel_step1 (T : Tables) (hC : contOK T = true) (cfg : Cfg) (hc : cfg.one = false)
    {pre : List Obj} {off : Nat} {s s' : S1}
    (b : Byte) (h : Rel pre off s s') : Rel pre off (step1 T cfg s b) (step1 T cfg s' b) := by
  unfold step1
  rw [h.core.halt]
  cases hh : s'.core.halt with
  | some x =>
    simp only []
    exact ⟨h.core, h.mode, by simp [h.pos]; omega, h.tok, h.sbuf, h.base, h.sharp, h.rune⟩
  | none =>
    simp only [oneCheck_off cfg hc]
    have hb := rel_body1 T hC cfg b h
    exact ⟨hb.core, hb.mode, by
      have e1 : (body1 T cfg s b).pos = s.pos := body1_pos T cfg s b
      have e2 : (body1 T cfg s' b).pos = s'.pos := body1_pos T cfg s' b
      simp [h.pos]; omega, hb.tok, hb.sbuf, hb.base, hb.sharp, hb.rune⟩

theorem rel_run1 (T : Tables) (hC : contOK T = true) (cfg : Cfg) (hc : cfg.one = false)
    {pre : List Obj} {off : Nat} (bs : List Byte) {s s' : S1}
    (h : Rel pre off s s') : Rel pre off (run1 T cfg s bs) (run1 T cfg s' bs) := by
  induction bs generalizing s s' with
  | nil => simpa [run1] using h
  | cons b rest ih => simpa [run1] using ih (rel_step1 T hC cfg hc b h)

/-! ### the end of the text -/

theorem cr_finishCore (T : Tables) (cfg : Cfg) {pre : List Obj} {c c' : Core} (m : Mode) (tok : List Byte)
    (h : CR pre c c') (hb : m = .tok .int → c.base = c'.base) :
    CR pre (finishCore T cfg c m tok) (finishCore T cfg c' m tok) := by
  unfold finishCore
  have key : ∀ c1 c1' : Core, CR pre c1 c1' → CR pre
      (match c1.halt with
      | some _ => c1
      | none => match c1.stack with
        | [] => c1
        | _ :: _ => c1.fail (.incomplete c1.starts.length))
      (match c1'.halt with
      | some _ => c1'
      | none => match c1'.stack with
        | [] => c1'
        | _ :: _ => c1'.fail (.incomplete c1'.starts.length)) := by
    intro c1 c1' h1
    rw [h1.halt, h1.stack, h1.starts]
    split
    · exact h1
    · split
      · exact h1
      · exact cr_fail _ h1
  apply key
  rw [h.starts]
  cases m with
  | tok t => exact cr_consume T cfg t tok h (fun ht => hb (by rw [ht]))
  | str m => cases m <;> exact cr_fail _ h
  | esc => exact cr_fail _ h
  | rune => exact cr_fail _ h
  | chrStart => exact cr_pushChar T [] h
  | plain p => cases p <;> first | exact h | exact cr_fail _ h

theorem finishCore_tok_dead (T : Tables) (cfg : Cfg) (c : Core) (m : Mode) (tok tok' : List Byte)
    (hm : ¬ tokLive m) : finishCore T cfg c m tok = finishCore T cfg c m tok' := by
  unfold finishCore
  cases m with
  | tok t => exact absurd trivial hm
  | plain p => cases p <;> rfl
  | str m => cases m <;> rfl
  | _ => rfl

theorem resultOf_shift {pre : List Obj} {c c' : Core} (off n : Nat) (h : CR pre c c') (hg : Good c') :
    resultOf c (off + n) = (resultOf c' n).shift pre off := by
  unfold resultOf
  rw [h.halt]
  rcases hg with h0 | ⟨e, _, h1⟩
  · simp only [h0, Result.shift, h.code]
  · simp only [h1, Result.shift, h.code]

theorem rel_finish1 (T : Tables) (cfg : Cfg) {pre : List Obj} {off : Nat} {s s' : S1}
    (h : Rel pre off s s') (hg : Good s'.core) :
    finish1 T cfg s = (finish1 T cfg s').shift pre off := by
  unfold finish1
  rw [h.core.halt, h.pos]
  cases hh : s'.core.halt with
  | some x => exact resultOf_shift off s'.pos h.core hg
  | none =>
    simp only []
    have hcr : CR pre (finishCore T cfg s.core s.mode s.tok) (finishCore T cfg s'.core s'.mode s'.tok) := by
      rw [h.mode]
      by_cases ht : tokLive s'.mode
      · rw [h.tok ht]
        exact cr_finishCore T cfg _ _ h.core h.base
      · rw [finishCore_tok_dead T cfg s.core s'.mode s.tok s'.tok ht]
        exact cr_finishCore T cfg _ _ h.core h.base
    exact resultOf_shift off s'.pos hcr (good_finishCore T cfg _ _ hg)

/-! ### emission: how the first object gets into `code` -/

/-- nothing was emitted, or exactly one object was emitted at top level and no form is open -/
def Emit (c d : Core) : Prop :=
  d.code = c.code ∨ ∃ o, d.code = c.code ++ [o] ∧ d.stack = [] ∧ d.starts = []

theorem inv_starts_nil {c : Core} (h : Inv c) (hs : c.stack = []) : c.starts = [] := by
  cases hst : c.starts with
  | nil => rfl
  | cons i is =>
    exfalso
    have := inv_lt h (i := i) (by simp [hst])
    simp [hs] at this

theorem emit_fail (c : Core) (e : Err) : Emit c (c.fail e) := Or.inl rfl

theorem emit_push {c : Core} (o : Obj) (h : Inv c) : Emit c (c.push o) := by
  unfold Core.push
  split
  · rename_i hs; exact Or.inr ⟨o, rfl, hs, inv_starts_nil h hs⟩
  · exact Or.inl rfl

theorem emit_place (c : Core) (start : Nat) (obj : Obj) : Emit c (c.place start obj) := by
  unfold Core.place
  split
  · exact Or.inl rfl
  · exact Or.inr ⟨obj, rfl, rfl, rfl⟩

theorem emit_closeList (c : Core) : Emit c (closeList c) := by
  unfold closeList
  repeat' split
  all_goals try simp only []
  all_goals repeat' split
  all_goals first | exact emit_place _ _ _ | exact emit_fail _ _

theorem closeList_no_starts {c : Core} (h : c.starts = []) : (closeList c).halt = some (.err .parse) := by
  unfold closeList
  simp [h, Core.fail]

theorem emit_pushToken (cfg : Cfg) {c : Core} (tok : List Byte) (h : Inv c) : Emit c (pushToken cfg c tok) := by
  unfold pushToken
  split
  · exact emit_push _ h
  · split
    · exact emit_push _ h
    · split
      · rename_i m htop
        split
        · rename_i x hx
          refine Or.inr ⟨_, rfl, rfl, ?_⟩
          cases hst : c.starts with
          | nil => rfl
          | cons i is =>
            exfalso
            have hi : i ∈ c.starts := by simp [hst]
            obtain ⟨k, hk⟩ := h.2 i hi
            have hlt := inv_lt h hi
            simp [hx] at hlt
            subst hlt
            simp [hx] at hk htop
            rw [hk] at htop; cases htop
        · exact Or.inl rfl
      · exact emit_push _ h

theorem emit_pushInteger {c : Core} (tok : List Byte) (h : Inv c) : Emit c (pushInteger c tok) := by
  unfold pushInteger
  repeat' split
  all_goals try simp only []
  all_goals repeat' split
  all_goals first | exact emit_push _ h | exact emit_fail _ _

theorem emit_pushChar (T : Tables) {c : Core} (tok : List Byte) (h : Inv c) : Emit c (pushChar T c tok) := by
  unfold pushChar
  repeat' split
  all_goals try simp only []
  all_goals repeat' split
  all_goals first | exact emit_push _ h | exact emit_fail _ _

theorem emit_consume (T : Tables) (cfg : Cfg) (t : TMode) {c : Core} (tok : List Byte) (h : Inv c) :
    Emit c (consume T cfg t c tok) := by
  cases t
  · exact emit_pushToken cfg tok h
  · exact emit_pushChar T tok h
  · exact emit_pushInteger tok h
  · exact emit_push _ h

theorem plainAct_code (T : Tables) (c : Core) (a : Action) (b : Byte) (h : a ≠ .closeParen) :
    (plainAct T c a b).code = c.code := by
  unfold plainAct
  cases a <;> simp only []
  all_goals first
    | rfl
    | exact absurd rfl h
    | (repeat' split) <;> rfl

/-- a byte in a plain mode leaves `code` alone unless it is a `closeParen` -/
theorem plainStep1_code (T : Tables) (s : S1) (p : PMode) (b : Byte) :
    (plainStep1 T s p b).core.code = s.core.code ∨
    (lookup? T (.plain p) b = some .closeParen ∧
      plainStep1 T s p b = { s with core := closeList s.core, mode := .plain p }) := by
  unfold plainStep1
  cases hl : lookup? T (.plain p) b with
  | none => exact Or.inl rfl
  | some a =>
    simp only []
    by_cases ha : a = .closeParen
    · subst ha
      exact Or.inr ⟨rfl, rfl⟩
    · left
      cases hk : kindOf a with
      | core => exact plainAct_code T _ a b ha
      | startTok => rfl
      | commaAt =>
        simp only []
        split
        · rename_i c hc
          unfold commaAtTop at hc
          split at hc <;> cases hc
          rfl
        · rfl
      | startAfter t base =>
        simp only [setBase]
        split <;> rfl
      | startStr m => rfl
      | startChar => rfl
      | raise => rfl
      | bad => rfl

structure FreshAt (o : Obj) (x : S1) : Prop where
  mode : x.mode = .plain .value
  stack : x.core.stack = []
  starts : x.core.starts = []
  code : x.core.code = [o]
  halt : x.core.halt = none

theorem fresh_rel {o : Obj} {x : S1} (h : FreshAt o x) : Rel [o] x.pos x init1 := by
  refine ⟨⟨h.stack, h.starts, h.halt, by simp [h.code, init1]⟩, h.mode, by simp [init1], ?_, ?_, ?_, ?_, ?_⟩
  · intro ht; cases ht
  · intro ht; cases ht
  · intro ht; cases ht
  · intro ht; cases ht
  · intro ht; cases ht

theorem emit_one {c d : Core} {o : Obj} {tl : List Obj} (he : Emit c d) (hcode : c.code = [])
    (hc : d.code = o :: tl) : tl = [] ∧ d.stack = [] ∧ d.starts = [] ∧ d.code = [o] := by
  rcases he with h | ⟨o', h1, h2, h3⟩
  · rw [h, hcode] at hc; cases hc
  · rw [hcode] at h1
    simp only [List.nil_append] at h1
    rw [h1] at hc
    cases hc
    exact ⟨rfl, h2, h3, h1⟩

theorem tokStep1_cases (T : Tables) (cfg : Cfg) (s : S1) (t : TMode) (b : Byte) :
    (tokStep1 T cfg s t b).core.code = s.core.code ∨
    (lookup? T (.tok t) b = some (doneOf t) ∧
      ((tokStep1 T cfg s t b).core.halt ≠ none ∨
       ((consume T cfg t s.core s.tok).halt = none ∧
        tokStep1 T cfg s t b =
          plainStep1 T { s with core := consume T cfg t s.core s.tok, mode := .plain .value, tok := [] } .value b))) := by
  unfold tokStep1
  cases hl : lookup? T (.tok t) b with
  | none => exact Or.inl rfl
  | some a =>
    simp only []
    by_cases h1 : a = .skipByte
    · rw [if_pos h1]; exact Or.inl rfl
    · rw [if_neg h1]
      by_cases h2 : a = doneOf t
      · rw [if_pos h2]
        right
        refine ⟨by rw [h2], ?_⟩
        cases hh : (consume T cfg t s.core s.tok).halt with
        | some x => left; simp [hh]
        | none => right; exact ⟨rfl, by simp⟩
      · rw [if_neg h2]
        left
        split <;> rfl

theorem strStep1_cases (T : Tables) (s : S1) (m : SMode) (b : Byte) :
    (strStep1 T s m b).core.code = s.core.code ∨
    ∃ a obj, lookup? T (.str m) b = some a ∧ (a = .stringDone ∨ a = .pipeDone) ∧
      strStep1 T s m b = { s with core := s.core.push obj, mode := .plain .value, sbuf := [] } := by
  unfold strStep1
  cases hl : lookup? T (.str m) b with
  | none => exact Or.inl rfl
  | some a =>
    simp only []
    cases a <;> simp only []
    all_goals first
      | exact Or.inr ⟨_, _, rfl, Or.inl rfl, rfl⟩
      | exact Or.inr ⟨_, _, rfl, Or.inr rfl, rfl⟩
      | exact Or.inl rfl
      | exact Or.inl trivial

theorem escStep1_code (T : Tables) (s : S1) (b : Byte) : (escStep1 T s b).core.code = s.core.code := by
  unfold escStep1
  repeat' split
  all_goals rfl

theorem runeStep1_code (T : Tables) (s : S1) (b : Byte) : (runeStep1 T s b).core.code = s.core.code := by
  unfold runeStep1
  repeat' split
  all_goals rfl

theorem chrStartStep1_code (T : Tables) (s : S1) (b : Byte) : (chrStartStep1 T s b).core.code = s.core.code := by
  unfold chrStartStep1
  repeat' split
  all_goals rfl

/-- **How the first object is emitted.** From a live state with nothing emitted yet, a byte after
    which `code` is not empty emitted exactly one object, and either the byte is one of `)` `"` `|`
    and the reader is back in the state of a fresh reader (but for `code` and scratch fields), or it
    is not and the reader was in that state right before this byte was looked at in `valueMode`
    (the `goto Retry` of the byte that ended a token). -/
theorem emit_body1 (T : Tables) (hC : contOK T = true) (cfg : Cfg) (s : S1) (b : Byte)
    (hinv : Inv s.core) (hcode : s.core.code = [])
    (hB : (body1 T cfg s b).core.halt = none) (o : Obj) (tl : List Obj)
    (hc : (body1 T cfg s b).core.code = o :: tl) :
    tl = [] ∧ ((isCloser b = true ∧ FreshAt o (body1 T cfg s b)) ∨
      (isCloser b = false ∧ (∃ t, s.mode = .tok t) ∧ ∃ s0 : S1, FreshAt o s0 ∧ s0.pos = s.pos ∧
        body1 T cfg s b = plainStep1 T s0 .value b)) := by
  unfold body1 at hB hc ⊢
  cases hm : s.mode with
  | plain p =>
    simp only [hm] at hB hc ⊢
    rcases plainStep1_code T s p b with h1 | ⟨hl, h1⟩
    · rw [h1, hcode] at hc; cases hc
    · rw [h1] at hB hc ⊢
      simp only [] at hB hc
      obtain ⟨hp, hcl⟩ := (cont_plain T hC p b _ hl).2 rfl
      obtain ⟨e1, e2, e3, e4⟩ := emit_one (emit_closeList s.core) hcode hc
      exact ⟨e1, Or.inl ⟨hcl, ⟨by simp [hp], e2, e3, e4, hB⟩⟩⟩
  | tok t =>
    simp only [hm] at hB hc ⊢
    rcases tokStep1_cases T cfg s t b with h1 | ⟨hl, h1 | ⟨hlive0, hEq⟩⟩
    · rw [h1, hcode] at hc; cases hc
    · exact absurd hB h1
    · rw [hEq] at hB hc ⊢
      generalize hs0 : ({ s with core := consume T cfg t s.core s.tok, mode := .plain .value, tok := [] } : S1) = s0
        at hB hc ⊢
      have hs0core : s0.core = consume T cfg t s.core s.tok := by rw [← hs0]
      have hs0mode : s0.mode = .plain .value := by rw [← hs0]
      have hs0pos : s0.pos = s.pos := by rw [← hs0]
      have hem : Emit s.core s0.core := by rw [hs0core]; exact emit_consume T cfg t s.tok hinv
      have hlive0' : s0.core.halt = none := by rw [hs0core]; exact hlive0
      rcases hem with hsame | ⟨o', hcode0, hst, hss⟩
      · -- the token went onto the stack; this byte closed the outermost list
        have hcode0 : s0.core.code = [] := by rw [hsame, hcode]
        rcases plainStep1_code T s0 .value b with h2 | ⟨hlv, h2⟩
        · rw [h2, hcode0] at hc; cases hc
        · rw [h2] at hB hc ⊢
          simp only [] at hB hc
          obtain ⟨_, hcl⟩ := (cont_plain T hC .value b _ hlv).2 rfl
          obtain ⟨e1, e2, e3, e4⟩ := emit_one (emit_closeList s0.core) hcode0 hc
          exact ⟨e1, Or.inl ⟨hcl, ⟨rfl, e2, e3, e4, hB⟩⟩⟩
      · -- the token itself is the form
        rw [hcode] at hcode0
        simp only [List.nil_append] at hcode0
        rcases plainStep1_code T s0 .value b with h2 | ⟨hlv, h2⟩
        · rw [h2, hcode0] at hc
          cases hc
          refine ⟨rfl, ?_⟩
          by_cases hcl : isCloser b = true
          · exfalso
            cases hv : lookup? T (.plain .value) b with
            | none =>
              have : plainStep1 T s0 .value b = s0.fail .table := by
                unfold plainStep1; simp only [hv]
              rw [this] at hB
              simp [S1.fail, Core.fail] at hB
            | some av =>
              rcases cont_tokdone T hC t b hl hcl av hv with ha | ha
              · have : (plainStep1 T s0 .value b).core = closeList s0.core := by
                  unfold plainStep1; simp only [hv, ha, kindOf, plainAct]
                rw [this, closeList_no_starts hss] at hB
                cases hB
              · have : plainStep1 T s0 .value b = s0.fail .parse := by
                  unfold plainStep1; simp only [hv, ha, kindOf]
                rw [this] at hB
                simp [S1.fail, Core.fail] at hB
          · exact Or.inr ⟨by simpa using hcl, ⟨t, rfl⟩, s0, ⟨hs0mode, hst, hss, hcode0, hlive0'⟩, hs0pos, rfl⟩
        · rw [h2] at hB
          simp only [] at hB
          rw [closeList_no_starts hss] at hB
          cases hB
  | str m =>
    simp only [hm] at hB hc ⊢
    rcases strStep1_cases T s m b with h1 | ⟨a, obj, hl, ha, h1⟩
    · rw [h1, hcode] at hc; cases hc
    · rw [h1] at hB hc ⊢
      simp only [] at hB hc
      have hcl := cont_strdone T hC m b a hl ha
      obtain ⟨e1, e2, e3, e4⟩ := emit_one (emit_push obj hinv) hcode hc
      exact ⟨e1, Or.inl ⟨hcl, ⟨rfl, e2, e3, e4, hB⟩⟩⟩
  | esc =>
    simp only [hm] at hc
    rw [escStep1_code, hcode] at hc; cases hc
  | rune =>
    simp only [hm] at hc
    rw [runeStep1_code, hcode] at hc; cases hc
  | chrStart =>
    simp only [hm] at hc
    rw [chrStartStep1_code, hcode] at hc; cases hc

theorem emit_finishCore (T : Tables) (cfg : Cfg) {c : Core} (m : Mode) (tok : List Byte) (h : Inv c) :
    Emit c (finishCore T cfg c m tok) := by
  unfold finishCore
  have key : ∀ c1 : Core, Emit c c1 → Emit c (match c1.halt with
      | some _ => c1
      | none => match c1.stack with
        | [] => c1
        | _ :: _ => c1.fail (.incomplete c1.starts.length)) := by
    intro c1 h1
    split
    · exact h1
    · split
      · exact h1
      · exact h1
  apply key
  cases m with
  | tok t => exact emit_consume T cfg t tok h
  | str m => cases m <;> exact emit_fail _ _
  | esc => exact emit_fail _ _
  | rune => exact emit_fail _ _
  | chrStart => exact emit_pushChar T [] h
  | plain p => cases p <;> first | exact Or.inl rfl | exact emit_fail _ _

theorem good_run1_off (T : Tables) (hT : tablesOK T = true) (cfg : Cfg) (hc : cfg.one = false)
    (bs : List Byte) (s : S1) (h : Good s.core) : Good (run1 T cfg s bs).core := by
  induction bs generalizing s with
  | nil => simpa [run1] using h
  | cons b rest ih =>
    have : Good (step1 T cfg s b).core := by
      unfold step1
      cases hh : s.core.halt with
      | some x => simpa using h
      | none =>
        simp only [oneCheck_off cfg hc]
        exact good_body1 T hT cfg s b h
    simpa [run1] using ih _ this

/-- One-form mode from a live state with nothing emitted yet. If it reaches the end of the bytes
    without halting, nothing was emitted and it ran in lockstep with whole-text mode. If it halted
    with a position `p`, exactly one object was emitted, `p` lies within the bytes, and the
    whole-text run from the same state is `Rel`ated to a *fresh* whole-text run over the bytes from
    `p` on. -/
theorem locate (T : Tables) (hT : tablesOK T = true) (hC : contOK T = true) (cfg : Cfg) (bs : List Byte) :
    ∀ s : S1, s.core.halt = none → s.core.code = [] → Inv s.core →
      ((run1 T { cfg with one := true } s bs).core.halt = none →
        (run1 T { cfg with one := true } s bs).core.code = [] ∧
        run1 T { cfg with one := true } s bs = run1 T { cfg with one := false } s bs) ∧
      (∀ p, (run1 T { cfg with one := true } s bs).core.halt = some (.one p) →
        ∃ o, (run1 T { cfg with one := true } s bs).core.code = [o] ∧ s.pos ≤ p ∧ p ≤ s.pos + bs.length ∧
          ((∀ t, s.mode ≠ .tok t) → s.pos + 1 ≤ p) ∧
          Rel [o] p (run1 T { cfg with one := false } s bs)
            (run1 T { cfg with one := false } init1 (bs.drop (p - s.pos)))) := by
  induction bs with
  | nil =>
    intro s hh hcode _
    refine ⟨fun _ => ⟨hcode, rfl⟩, ?_⟩
    intro p hp
    simp only [run1, List.foldl_nil] at hp
    rw [hh] at hp; cases hp
  | cons b rest ih =>
    intro s hh hcode hinv
    have hbody : body1 T { cfg with one := true } s b = body1 T { cfg with one := false } s b :=
      body1_cfg T _ _ rfl rfl s b
    have h0 : step1 T { cfg with one := false } s b =
        { body1 T { cfg with one := false } s b with pos := s.pos + 1 } := by
      unfold step1
      simp only [hh, oneCheck]
      cases (body1 T { cfg with one := false } s b).core.halt <;> simp
    have hgood : Good (body1 T { cfg with one := false } s b).core :=
      good_body1 T hT _ s b (good_of_none hh)
    have hinvB : Inv (body1 T { cfg with one := false } s b).core := by
      have := inv_step1 T { cfg with one := false } s b hinv
      rw [h0] at this
      exact this
    have hposB : (body1 T { cfg with one := false } s b).pos = s.pos := body1_pos T _ s b
    simp only [run1, List.foldl_cons]
    generalize hB : body1 T { cfg with one := false } s b = B at h0 hbody hgood hinvB hposB
    have h1 : step1 T { cfg with one := true } s b =
        { B with core := oneCheck { cfg with one := true } s.pos b B.core, pos := s.pos + 1 } := by
      unfold step1
      simp only [hh, hbody]
    rw [h0, h1]
    cases hBh : B.core.halt with
    | some x =>
      have e1 : oneCheck { cfg with one := true } s.pos b B.core = B.core := by simp [oneCheck, hBh]
      rw [e1]
      have hne : ({ B with pos := s.pos + 1 } : S1).core.halt ≠ none := by simp [hBh]
      have r1 := run1_halted T { cfg with one := true } rest _ hne
      simp only [run1] at r1
      rw [r1]
      refine ⟨fun hl => by simp [hBh] at hl, ?_⟩
      intro p hp
      simp only [hBh] at hp
      rcases hgood with hg | ⟨e, _, hg⟩
      · rw [hBh] at hg; cases hg
      · rw [hBh] at hg; cases hg; cases hp
    | none =>
      cases hBc : B.core.code with
      | nil =>
        have e1 : oneCheck { cfg with one := true } s.pos b B.core = B.core := by simp [oneCheck, hBh, hBc]
        rw [e1]
        have := ih { B with pos := s.pos + 1 } (by simpa using hBh) (by simpa using hBc) (by simpa using hinvB)
        simp only [run1] at this
        refine ⟨this.1, ?_⟩
        intro p hp
        obtain ⟨o, ho, hle, hge, _, hrel⟩ := this.2 p hp
        have hle' : s.pos + 1 ≤ p := hle
        have hge' : p ≤ s.pos + 1 + rest.length := hge
        have hrel' : Rel [o] p (List.foldl (step1 T { cfg with one := false }) { B with pos := s.pos + 1 } rest)
            (List.foldl (step1 T { cfg with one := false }) init1 (List.drop (p - (s.pos + 1)) rest)) := hrel
        refine ⟨o, ho, by omega, by simp only [List.length_cons]; omega, fun _ => hle', ?_⟩
        have hd : p - s.pos = (p - (s.pos + 1)) + 1 := by omega
        rw [hd, List.drop_succ_cons]
        exact hrel'
      | cons o tl =>
        have e1 : (oneCheck { cfg with one := true } s.pos b B.core).halt =
            some (.one (if isCloser b then s.pos + 1 else s.pos)) := by simp [oneCheck, hBh, hBc]
        have e2 : (oneCheck { cfg with one := true } s.pos b B.core).code = o :: tl := by
          simp [oneCheck, hBh, hBc]
        have hne : ({ B with core := oneCheck { cfg with one := true } s.pos b B.core, pos := s.pos + 1 } : S1).core.halt ≠ none := by
          simp [e1]
        have r1 := run1_halted T { cfg with one := true } rest _ hne
        simp only [run1] at r1
        rw [r1]
        refine ⟨fun hl => by simp [e1] at hl, ?_⟩
        intro p hp
        simp only [e1, Option.some.injEq, Halt.one.injEq] at hp
        have hem := emit_body1 T hC { cfg with one := false } s b hinv hcode (by rw [hB]; exact hBh) o tl
          (by rw [hB]; exact hBc)
        rw [hB] at hem
        obtain ⟨htl, hcase⟩ := hem
        subst htl
        refine ⟨o, by simpa using e2, ?_⟩
        rcases hcase with ⟨hcl, hfresh⟩ | ⟨hcl, ⟨tm, htm⟩, s0, hfresh, hpos0, hEq⟩
        · -- the byte that completed the form belongs to it
          simp only [hcl, if_true] at hp
          subst hp
          refine ⟨by omega, by simp only [List.length_cons]; omega, fun _ => Nat.le_refl _, ?_⟩
          have hd : s.pos + 1 - s.pos = 0 + 1 := by omega
          rw [hd, List.drop_succ_cons, List.drop_zero]
          have hf : FreshAt o ({ B with pos := s.pos + 1 } : S1) :=
            ⟨hfresh.mode, hfresh.stack, hfresh.starts, hfresh.code, hfresh.halt⟩
          have := rel_run1 T hC { cfg with one := false } rfl rest (fresh_rel hf)
          simpa [run1] using this
        · -- the byte ended a token and is looked at again by the fresh reader
          simp only [hcl, Bool.false_eq_true, if_false] at hp
          subst hp
          refine ⟨by omega, by simp only [List.length_cons]; omega, fun hnt => absurd htm (hnt tm), ?_⟩
          rw [Nat.sub_self, List.drop_zero]
          have hrel0 : Rel [o] s.pos s0 init1 := by
            have := fresh_rel hfresh
            rwa [hpos0] at this
          have hstep := rel_step1 T hC { cfg with one := false } rfl b hrel0
          have hs0 : step1 T { cfg with one := false } s0 b = { B with pos := s.pos + 1 } := by
            unfold step1
            simp only [hfresh.halt, oneCheck_off { cfg with one := false } rfl]
            unfold body1
            simp only [hfresh.mode, ← hEq, hpos0]
          rw [hs0] at hstep
          have := rel_run1 T hC { cfg with one := false } rfl rest hstep
          simpa [run1] using this

theorem resultOf_ok_inv {c : Core} {n : Nat} {code : List Obj} {q : Nat} (h : resultOf c n = .ok code q) :
    code = c.code ∧ (c.halt = some (.one q) ∨ (c.halt = none ∧ q = n)) := by
  unfold resultOf at h
  split at h
  · cases h
  · rename_i hq; cases h; exact ⟨rfl, Or.inl hq⟩
  · rename_i hq; cases h; exact ⟨rfl, Or.inr ⟨hq, rfl⟩⟩

/-- the continuation form of the one-form position (see `Theorems/C02.readOne_continuation`) -/
theorem readOne_cont (T : Tables) (hT : tablesOK T = true) (hC : contOK T = true) (cfg : Cfg)
    (bs : List Byte) (o : Obj) (pos : Nat) (h : readOne T cfg bs = .ok (o, pos)) :
    readAll T { cfg with one := false } bs =
      (readAll T { cfg with one := false } (bs.drop pos)).shift [o] pos := by
  have hloc := locate T hT hC cfg bs init1 (by simp [init1]) (by simp [init1])
    (by simpa [init1] using inv_init)
  unfold readOne at h
  split at h
  · rename_i o' tl pos' hall
    cases h
    unfold readAll finish1 at hall
    cases hh : (run1 T { cfg with one := true } init1 bs).core.halt with
    | some x =>
      simp only [hh] at hall
      obtain ⟨hcode, hcase⟩ := resultOf_ok_inv hall
      rcases hcase with hone | ⟨hnone, _⟩
      · rw [hh] at hone
        cases hone
        obtain ⟨o2, hc2, _, _, _, hrel⟩ := hloc.2 pos hh
        rw [hc2] at hcode
        cases hcode
        have hrel' : Rel [o] pos (run1 T { cfg with one := false } init1 bs)
            (run1 T { cfg with one := false } init1 (bs.drop pos)) := by
          simpa [init1] using hrel
        unfold readAll
        exact rel_finish1 T _ hrel' (good_run1_off T hT _ rfl _ init1 (by simp [Good, init1]))
      · rw [hh] at hnone; cases hnone
    | none =>
      simp only [hh] at hall
      obtain ⟨hc0, heq⟩ := hloc.1 hh
      obtain ⟨hcode, hcase⟩ := resultOf_ok_inv hall
      have hinv : Inv (run1 T { cfg with one := true } init1 bs).core :=
        inv_run1 T _ bs init1 (by simpa [init1] using inv_init)
      have hem := emit_finishCore T { cfg with one := true } (run1 T { cfg with one := true } init1 bs).mode
        (run1 T { cfg with one := true } init1 bs).tok hinv
      obtain ⟨_, _, _, hF⟩ := emit_one hem hc0 hcode.symm
      have hg := good_finishCore T { cfg with one := true } (run1 T { cfg with one := true } init1 bs).mode
        (run1 T { cfg with one := true } init1 bs).tok (good_of_none hh)
      have hFh : (finishCore T { cfg with one := true } (run1 T { cfg with one := true } init1 bs).core
          (run1 T { cfg with one := true } init1 bs).mode (run1 T { cfg with one := true } init1 bs).tok).halt = none := by
        rcases hcase with h1 | ⟨h1, _⟩
        · rcases hg with h0 | ⟨e, _, h3⟩
          · rw [h0] at h1; cases h1
          · rw [h3] at h1; cases h1
        · exact h1
      have hpos : pos = bs.length := by
        rcases hcase with h1 | ⟨_, h2⟩
        · rw [hFh] at h1; cases h1
        · rw [h2, run1_pos]; simp [init1]
      subst hpos
      have hf := finishCore_cfg T { cfg with one := true } { cfg with one := false } rfl rfl
        (run1 T { cfg with one := true } init1 bs).core (run1 T { cfg with one := true } init1 bs).mode
        (run1 T { cfg with one := true } init1 bs).tok
      rw [List.drop_length]
      have hnil : readAll T { cfg with one := false } [] = .ok [] 0 := rfl
      rw [hnil]
      unfold readAll finish1
      rw [← heq, hh]
      simp only []
      rw [← hf]
      unfold resultOf
      rw [hFh]
      simp only [hF, Result.shift, List.append_nil, Nat.add_zero]
      rw [run1_pos]
      simp [init1]
  · cases h
  · cases h

/-! ### one-form mode against whole-text mode when no form is returned -/

/-- one-form mode reports an error exactly as whole-text mode does (same error, same objects before it) -/
theorem one_err_all (T : Tables) (cfg : Cfg) (bs : List Byte) (e : Err) (code : List Obj)
    (h : readAll T { cfg with one := true } bs = .err e code) :
    readAll T { cfg with one := false } bs = .err e code := by
  have hlock := one_vs_all T cfg bs init1 (by simp [init1]) (by simp [init1])
  unfold readAll finish1 at h ⊢
  rcases hlock with heq | ⟨o2, tl2, q, hh1, _, _⟩
  · rw [← heq]
    cases hh : (run1 T { cfg with one := true } init1 bs).core.halt with
    | some x => simpa [hh] using h
    | none =>
      simp only [hh] at h ⊢
      rw [← finishCore_cfg T { cfg with one := true } { cfg with one := false } rfl rfl]
      exact h
  · simp only [hh1, resultOf] at h
    cases h

/-- one-form mode finds nothing to read exactly when the whole text holds no object -/
theorem one_eof_all (T : Tables) (hT : tablesOK T = true) (hC : contOK T = true) (cfg : Cfg) (bs : List Byte)
    (h : readOne T cfg bs = .error .eof) (code : List Obj) (p : Nat)
    (hok : readAll T { cfg with one := false } bs = .ok code p) : code = [] := by
  have hloc := locate T hT hC cfg bs init1 (by simp [init1]) (by simp [init1])
    (by simpa [init1] using inv_init)
  unfold readOne at h
  split at h
  · cases h
  · rename_i pos hall
    unfold readAll finish1 at hall
    cases hh : (run1 T { cfg with one := true } init1 bs).core.halt with
    | some x =>
      simp only [hh] at hall
      obtain ⟨hcode, hcase⟩ := resultOf_ok_inv hall
      rcases hcase with hone | ⟨hnone, _⟩
      · obtain ⟨o2, hc2, _⟩ := hloc.2 pos hone
        rw [hc2] at hcode; cases hcode
      · rw [hh] at hnone; cases hnone
    | none =>
      simp only [hh] at hall
      obtain ⟨_, heq⟩ := hloc.1 hh
      obtain ⟨hcode, hcase⟩ := resultOf_ok_inv hall
      have hg := good_finishCore T { cfg with one := true } (run1 T { cfg with one := true } init1 bs).mode
        (run1 T { cfg with one := true } init1 bs).tok (good_of_none hh)
      have hFh : (finishCore T { cfg with one := true } (run1 T { cfg with one := true } init1 bs).core
          (run1 T { cfg with one := true } init1 bs).mode (run1 T { cfg with one := true } init1 bs).tok).halt = none := by
        rcases hcase with h1 | ⟨h1, _⟩
        · rcases hg with h0 | ⟨e, _, h3⟩
          · rw [h0] at h1; cases h1
          · rw [h3] at h1; cases h1
        · exact h1
      have hf := finishCore_cfg T { cfg with one := true } { cfg with one := false } rfl rfl
        (run1 T { cfg with one := true } init1 bs).core (run1 T { cfg with one := true } init1 bs).mode
        (run1 T { cfg with one := true } init1 bs).tok
      unfold readAll finish1 at hok
      rw [← heq, hh] at hok
      simp only [] at hok
      rw [← hf] at hok
      unfold resultOf at hok
      rw [hFh] at hok
      simp only [← hcode] at hok
      cases hok
      rfl
  · rename_i e code' hall
    cases h
    rw [one_err_all T cfg bs _ _ hall] at hok
    cases hok

end SlipVerif.Reader
