import SlipVerif.Model.Reader
import SlipVerif.Lemmas.ReaderInv
import SlipVerif.Lemmas.ReaderHalt
import SlipVerif.Lemmas.ReaderMono
/-
  The continuation form of the one-form position: after the first form has been read, reading the
  rest of the text *from a fresh reader* yields exactly what the whole-text read yields after that
  form. The whole-text run and the fresh run are related by `Rel`: same mode, stack, open lists and
  halt, the finished objects of the whole-text run are `pre ++` those of the fresh run, positions
  differ by `off`, and the scratch fields a fresh reader has not set yet (`base`, `sharpNum`, `rn`,
  `rcnt`, `nextMode`, the token / string bytes) agree in the modes that read them.
-/
namespace SlipVerif.Reader

/-! ### the table obligation (decided for the regenerated tables in Theorems/GenC02) -/

/-- the actions that read `r.sharpNum` -/
def readsSharpNum (a : Action) : Bool := a == .sharpNumByte || a == .radixByte || a == .arrayByte

def allPModes : List PMode := [.value, .comment, .sharp, .sharpNum, .mustArray, .blockComment, .blockEnd]
def allTModes : List TMode := [.token, .chr, .int, .bitVec]
def allSModes : List SMode := [.string, .symbol]

/-- what the continuation property needs of the tables at byte `b`:
    * `r.sharpNum` is read only in `sharpNumMode` (where `sharpIntByte` has just set it), so a value
      left over from an earlier form is never seen;
    * `closeParen` sits only in `valueMode` and only on a byte the one-form exit counts to the form;
    * a token is never ended by `)`, `"` or `|` that would then start / complete something in
      `valueMode` (the one-form exit would count that byte to the token's form);
    * a string / |symbol| is ended only by a byte the one-form exit counts to the form. -/
def contByteOK (T : Tables) (b : Byte) : Bool :=
  allPModes.all (fun p =>
    match lookup? T (.plain p) b with
    | some a => (!readsSharpNum a || p == .sharpNum) && (!(a == .closeParen) || (p == .value && isCloser b))
    | none => true) &&
  allTModes.all (fun t =>
    match lookup? T (.tok t) b with
    | some a =>
      !(a == doneOf t && isCloser b) ||
        (match lookup? T (.plain .value) b with
         | some av => av == .closeParen || av == .raise
         | none => true)
    | none => true) &&
  allSModes.all (fun m =>
    match lookup? T (.str m) b with
    | some a => !(a == .stringDone || a == .pipeDone) || isCloser b
    | none => true)

def contOK (T : Tables) : Bool := (List.range 256).all (fun n => contByteOK T n.toUInt8)

/-- prefix the finished objects, shift the position -/
def Result.shift (pre : List Obj) (off : Nat) : Result → Result
  | .ok code p => .ok (pre ++ code) (off + p)
  | .err e code => .err e (pre ++ code)

theorem contOK_byte (T : Tables) (h : contOK T = true) (b : Byte) : contByteOK T b = true := by
  unfold contOK at h
  rw [List.all_eq_true] at h
  have := h b.toNat (by simp [UInt8.toNat_lt b])
  simpa using this

theorem cont_plain (T : Tables) (h : contOK T = true) (p : PMode) (b : Byte) (a : Action)
    (hl : lookup? T (.plain p) b = some a) :
    (readsSharpNum a = true → p = .sharpNum) ∧ (a = .closeParen → p = .value ∧ isCloser b = true) := by
  have hb := contOK_byte T h b
  unfold contByteOK at hb
  simp only [Bool.and_eq_true, List.all_eq_true] at hb
  have hp : p ∈ allPModes := by cases p <;> simp [allPModes]
  have := hb.1.1 p hp
  simp only [hl, Bool.and_eq_true, Bool.or_eq_true, Bool.not_eq_true', beq_iff_eq] at this
  constructor
  · intro hr
    rcases this.1 with h1 | h1
    · rw [hr] at h1; cases h1
    · exact h1
  · intro ha
    rcases this.2 with h1 | h1
    · exact absurd ha (by simpa using h1)
    · exact h1

theorem cont_tokdone (T : Tables) (h : contOK T = true) (t : TMode) (b : Byte)
    (hl : lookup? T (.tok t) b = some (doneOf t)) (hc : isCloser b = true) (av : Action)
    (hv : lookup? T (.plain .value) b = some av) : av = .closeParen ∨ av = .raise := by
  have hb := contOK_byte T h b
  unfold contByteOK at hb
  simp only [Bool.and_eq_true, List.all_eq_true] at hb
  have ht : t ∈ allTModes := by cases t <;> simp [allTModes]
  have := hb.1.2 t ht
  simpa [hl, hv, hc] using this

theorem cont_strdone (T : Tables) (h : contOK T = true) (m : SMode) (b : Byte) (a : Action)
    (hl : lookup? T (.str m) b = some a) (ha : a = .stringDone ∨ a = .pipeDone) : isCloser b = true := by
  have hb := contOK_byte T h b
  unfold contByteOK at hb
  simp only [Bool.and_eq_true, List.all_eq_true] at hb
  have hm : m ∈ allSModes := by cases m <;> simp [allSModes]
  have := hb.2 m hm
  rcases ha with ha | ha <;> simpa [hl, ha] using this

/-! ### the relation on cores -/

structure CR (pre : List Obj) (c c' : Core) : Prop where
  stack : c.stack = c'.stack
  starts : c.starts = c'.starts
  halt : c.halt = c'.halt
  code : c.code = pre ++ c'.code

/-- `c` is `c'` with the prefix put before the finished objects and other scratch fields -/
theorem cr_form {pre : List Obj} {c c' : Core} (h : CR pre c c') :
    ∃ x1 x2 x3 x4 x5 x6, c = { c' with code := pre ++ c'.code, base := x1, sharpNum := x2, rn := x3, rcnt := x4, nextMode := x5, line := x6 } := by
  refine ⟨c.base, c.sharpNum, c.rn, c.rcnt, c.nextMode, c.line, ?_⟩
  obtain ⟨h1, h2, h3, h4⟩ := h
  cases c; cases c'
  simp only at h1 h2 h3 h4
  subst h1 h2 h3 h4
  rfl

theorem cr_fail {pre : List Obj} {c c' : Core} (e : Err) (h : CR pre c c') : CR pre (c.fail e) (c'.fail e) :=
  ⟨h.stack, h.starts, rfl, h.code⟩

theorem cr_push {pre : List Obj} {c c' : Core} (o : Obj) (h : CR pre c c') : CR pre (c.push o) (c'.push o) := by
  obtain ⟨x1, x2, x3, x4, x5, x6, rfl⟩ := cr_form h
  unfold Core.push
  simp only []
  split
  · exact ⟨rfl, rfl, rfl, by simp⟩
  · exact ⟨rfl, rfl, rfl, rfl⟩

theorem cr_place {pre : List Obj} {c c' : Core} (start : Nat) (obj : Obj) (h : CR pre c c') :
    CR pre (c.place start obj) (c'.place start obj) := by
  obtain ⟨x1, x2, x3, x4, x5, x6, rfl⟩ := cr_form h
  unfold Core.place
  simp only []
  split
  · exact ⟨rfl, rfl, rfl, rfl⟩
  · exact ⟨rfl, rfl, rfl, by simp⟩

theorem cr_openWith {pre : List Obj} {c c' : Core} (k : Opener) (h : CR pre c c') :
    CR pre (openWith c k) (openWith c' k) := by
  obtain ⟨x1, x2, x3, x4, x5, x6, rfl⟩ := cr_form h
  exact ⟨rfl, rfl, rfl, rfl⟩

theorem cr_closeList {pre : List Obj} {c c' : Core} (h : CR pre c c') : CR pre (closeList c) (closeList c') := by
  have hst := h.stack
  have hss := h.starts
  unfold closeList
  rw [hst, hss]
  repeat' split
  all_goals try simp only []
  all_goals repeat' split
  all_goals first
    | exact cr_place _ _ h
    | exact cr_fail _ h

theorem cr_pushToken {pre : List Obj} {c c' : Core} (cfg : Cfg) (tok : List Byte) (h : CR pre c c') :
    CR pre (pushToken cfg c tok) (pushToken cfg c' tok) := by
  obtain ⟨x1, x2, x3, x4, x5, x6, rfl⟩ := cr_form h
  unfold pushToken
  simp only []
  repeat' split
  all_goals first
    | exact cr_push _ h
    | exact ⟨rfl, rfl, rfl, by simp⟩
    | exact ⟨rfl, rfl, rfl, rfl⟩

theorem cr_pushInteger {pre : List Obj} {c c' : Core} (tok : List Byte) (h : CR pre c c')
    (hb : c.base = c'.base) : CR pre (pushInteger c tok) (pushInteger c' tok) := by
  unfold pushInteger
  rw [hb]
  repeat' split
  all_goals try simp only []
  all_goals repeat' split
  all_goals first
    | exact cr_push _ h
    | exact cr_fail _ h

theorem cr_pushChar {pre : List Obj} {c c' : Core} (T : Tables) (tok : List Byte) (h : CR pre c c') :
    CR pre (pushChar T c tok) (pushChar T c' tok) := by
  unfold pushChar
  repeat' split
  all_goals try simp only []
  all_goals repeat' split
  all_goals first
    | exact cr_push _ h
    | exact cr_fail _ h

theorem cr_consume {pre : List Obj} {c c' : Core} (T : Tables) (cfg : Cfg) (t : TMode) (tok : List Byte)
    (h : CR pre c c') (hb : t = .int → c.base = c'.base) :
    CR pre (consume T cfg t c tok) (consume T cfg t c' tok) := by
  cases t
  · exact cr_pushToken cfg tok h
  · exact cr_pushChar T tok h
  · exact cr_pushInteger tok h (hb rfl)
  · exact cr_push _ h

theorem cr_setBase {pre : List Obj} {c c' : Core} (b : Option (Option Nat)) (h : CR pre c c') :
    CR pre (setBase c b) (setBase c' b) := by
  unfold setBase
  split <;> exact ⟨h.stack, h.starts, h.halt, h.code⟩

theorem cr_commaAtTop {pre : List Obj} {c c' : Core} (h : CR pre c c') :
    (commaAtTop c = none ∧ commaAtTop c' = none) ∨
    ∃ d d', commaAtTop c = some d ∧ commaAtTop c' = some d' ∧ CR pre d d' := by
  obtain ⟨x1, x2, x3, x4, x5, x6, rfl⟩ := cr_form h
  unfold commaAtTop
  simp only []
  split
  · exact Or.inr ⟨_, _, rfl, rfl, ⟨rfl, rfl, rfl, rfl⟩⟩
  · exact Or.inl ⟨rfl, rfl⟩

/-- the actions of `plainAct` that read `sharpNum` -/
theorem cr_plainAct {pre : List Obj} {c c' : Core} (T : Tables) (a : Action) (b : Byte) (h : CR pre c c')
    (hs : readsSharpNum a = true → c.sharpNum = c'.sharpNum) :
    CR pre (plainAct T c a b) (plainAct T c' a b) := by
  unfold plainAct
  cases a <;> simp only []
  all_goals first
    | exact h
    | exact cr_closeList h
    | exact cr_openWith _ h
    | exact ⟨h.stack, h.starts, h.halt, h.code⟩
    | exact ⟨by rw [h.stack], h.starts, h.halt, h.code⟩
    | skip
  · -- arrayByte
    rw [hs (by decide)]
    repeat' split
    all_goals first | exact cr_openWith _ h | exact cr_fail _ h
  · -- comma
    rw [h.stack]
    split
    · exact ⟨rfl, h.starts, h.halt, h.code⟩
    · exact cr_fail _ h

theorem place_sharpNum (c : Core) (start : Nat) (obj : Obj) : (c.place start obj).sharpNum = c.sharpNum := by
  unfold Core.place; split <;> rfl

theorem closeList_sharpNum (c : Core) : (closeList c).sharpNum = c.sharpNum := by
  unfold closeList
  repeat' split
  all_goals try simp only []
  all_goals repeat' split
  all_goals first | exact place_sharpNum _ _ _ | rfl

/-- only `sharpIntByte` and `sharpNumByte` write `sharpNum` -/
theorem plainAct_sharpNum (T : Tables) (c : Core) (a : Action) (b : Byte)
    (h1 : a ≠ .sharpIntByte) (h2 : a ≠ .sharpNumByte) : (plainAct T c a b).sharpNum = c.sharpNum := by
  unfold plainAct
  cases a <;> simp only []
  all_goals first
    | rfl
    | exact closeList_sharpNum c
    | exact absurd rfl h1
    | exact absurd rfl h2
    | (repeat' split) <;> rfl

/-- the `sharpNum` the next plain mode may read agrees -/
theorem plainAct_sharp_next (T : Tables) (c c' : Core) (a : Action) (b : Byte) (p : PMode)
    (hs : p = .sharpNum → c.sharpNum = c'.sharpNum)
    (hr : readsSharpNum a = true → p = .sharpNum)
    (hn : plainNext a p = .sharpNum) : (plainAct T c a b).sharpNum = (plainAct T c' a b).sharpNum := by
  by_cases h1 : a = .sharpIntByte
  · subst h1; rfl
  · by_cases h2 : a = .sharpNumByte
    · subst h2
      have := hs (hr (by decide))
      simp only [plainAct, this]
    · rw [plainAct_sharpNum T c a b h1 h2, plainAct_sharpNum T c' a b h1 h2]
      apply hs
      cases a <;> simp_all [plainNext]

theorem kindOf_startAfter {a : Action} {t : TMode} {base : Option (Option Nat)}
    (h : kindOf a = .startAfter t base) :
    (t = .int → base ≠ none) ∧ (base = some none → a = .radixByte) := by
  cases a <;> simp [kindOf] at h
  all_goals (obtain ⟨rfl, rfl⟩ := h; simp)

/-! ### the relation on states -/

def tokLive : Mode → Prop
  | .tok _ => True
  | _ => False

def strLive : Mode → Prop
  | .str _ => True
  | .esc => True
  | .rune => True
  | _ => False

structure Rel (pre : List Obj) (off : Nat) (s s' : S1) : Prop where
  core : CR pre s.core s'.core
  mode : s.mode = s'.mode
  pos : s.pos = off + s'.pos
  tok : tokLive s'.mode → s.tok = s'.tok
  sbuf : strLive s'.mode → s.sbuf = s'.sbuf ∧ s.core.nextMode = s'.core.nextMode
  base : s'.mode = .tok .int → s.core.base = s'.core.base
  sharp : s'.mode = .plain .sharpNum → s.core.sharpNum = s'.core.sharpNum
  rune : s'.mode = .rune → s.core.rn = s'.core.rn ∧ s.core.rcnt = s'.core.rcnt

theorem rel_fail {pre : List Obj} {off : Nat} {s s' : S1} (e : Err) (h : Rel pre off s s') :
    Rel pre off (s.fail e) (s'.fail e) :=
  ⟨cr_fail e h.core, h.mode, h.pos, h.tok, h.sbuf, h.base, h.sharp, h.rune⟩

/-- a byte handled in a plain mode `p` (the states may still carry another mode: `goto Retry`) -/
theorem rel_plainStep1 (T : Tables) (hC : contOK T = true) {pre : List Obj} {off : Nat} {s s' : S1}
    (p : PMode) (b : Byte) (h : Rel pre off s s')
    (hsharp : p = .sharpNum → s.core.sharpNum = s'.core.sharpNum) :
    Rel pre off (plainStep1 T s p b) (plainStep1 T s' p b) := by
  unfold plainStep1
  cases hl : lookup? T (.plain p) b with
  | none => exact rel_fail _ h
  | some a =>
    simp only []
    have hcont := cont_plain T hC p b a hl
    cases hk : kindOf a with
    | core =>
      simp only []
      refine ⟨cr_plainAct T a b h.core (fun hr => hsharp (hcont.1 hr)), rfl, h.pos, ?_, ?_, ?_, ?_, ?_⟩
      · intro ht; cases ht
      · intro ht; cases ht
      · intro ht; cases ht
      · intro ht
        have hn : plainNext a p = .sharpNum := by simpa using ht
        exact plainAct_sharp_next T _ _ a b p hsharp hcont.1 hn
      · intro ht; cases ht
    | startTok =>
      simp only []
      refine ⟨h.core, rfl, h.pos, fun _ => rfl, ?_, ?_, ?_, ?_⟩
      · intro ht; cases ht
      · intro ht; cases ht
      · intro ht; cases ht
      · intro ht; cases ht
    | commaAt =>
      simp only []
      rcases cr_commaAtTop h.core with ⟨h1, h2⟩ | ⟨d, d', h1, h2, hd⟩
      · rw [h1, h2]
        simp only []
        refine ⟨h.core, rfl, h.pos, fun _ => rfl, ?_, ?_, ?_, ?_⟩
        · intro ht; cases ht
        · intro ht; cases ht
        · intro ht; cases ht
        · intro ht; cases ht
      · rw [h1, h2]
        simp only []
        refine ⟨hd, rfl, h.pos, ?_, ?_, ?_, ?_, ?_⟩
        · intro ht; cases ht
        · intro ht; cases ht
        · intro ht; cases ht
        · intro ht
          have hp : p = .sharpNum := by simpa using ht
          -- commaAtTop only changes the stack
          have e1 : d.sharpNum = s.core.sharpNum := by
            unfold commaAtTop at h1; split at h1 <;> cases h1; rfl
          have e2 : d'.sharpNum = s'.core.sharpNum := by
            unfold commaAtTop at h2; split at h2 <;> cases h2; rfl
          simp only [e1, e2]; exact hsharp hp
        · intro ht; cases ht
    | startAfter t base =>
      simp only []
      have hka := kindOf_startAfter hk
      refine ⟨cr_setBase base h.core, rfl, h.pos, fun _ => rfl, ?_, ?_, ?_, ?_⟩
      · intro ht; cases ht
      · intro ht
        have ht' : t = .int := by simpa using ht
        cases base with
        | none => exact absurd rfl (hka.1 ht')
        | some ob =>
          cases ob with
          | some n => rfl
          | none =>
            have ha := hka.2 rfl
            have : readsSharpNum a = true := by rw [ha]; decide
            exact hsharp (hcont.1 this)
      · intro ht; cases ht
      · intro ht; cases ht
    | startStr m =>
      simp only []
      refine ⟨⟨h.core.stack, h.core.starts, h.core.halt, h.core.code⟩, rfl, h.pos, ?_, fun _ => ⟨rfl, rfl⟩, ?_, ?_, ?_⟩
      · intro ht; cases ht
      · intro ht; cases ht
      · intro ht; cases ht
      · intro ht; cases ht
    | startChar =>
      simp only []
      refine ⟨h.core, rfl, h.pos, ?_, ?_, ?_, ?_, ?_⟩
      · intro ht; cases ht
      · intro ht; cases ht
      · intro ht; cases ht
      · intro ht; cases ht
      · intro ht; cases ht
    | raise => exact rel_fail _ h
    | bad => exact rel_fail _ h

theorem rel_tokStep1 (T : Tables) (hC : contOK T = true) (cfg : Cfg) {pre : List Obj} {off : Nat} {s s' : S1}
    (t : TMode) (b : Byte) (h : Rel pre off s s') (hm : s'.mode = .tok t) :
    Rel pre off (tokStep1 T cfg s t b) (tokStep1 T cfg s' t b) := by
  have htok : s.tok = s'.tok := h.tok (by rw [hm]; trivial)
  unfold tokStep1
  cases hl : lookup? T (.tok t) b with
  | none => exact rel_fail _ h
  | some a =>
    simp only []
    by_cases h1 : a = .skipByte
    · simp only [h1, if_true]
      refine ⟨h.core, h.mode, h.pos, fun _ => by simp [htok], h.sbuf, h.base, h.sharp, h.rune⟩
    · simp only [h1, if_false]
      by_cases h2 : a = doneOf t
      · simp only [h2, if_true]
        have hcr : CR pre (consume T cfg t s.core s.tok) (consume T cfg t s'.core s'.tok) := by
          rw [htok]
          exact cr_consume T cfg t _ h.core (fun ht => h.base (by rw [hm, ht]))
        have h0 : Rel pre off
            { s with core := consume T cfg t s.core s.tok, mode := .plain .value, tok := [] }
            { s' with core := consume T cfg t s'.core s'.tok, mode := .plain .value, tok := [] } := by
          refine ⟨hcr, rfl, h.pos, ?_, ?_, ?_, ?_, ?_⟩
          · intro ht; cases ht
          · intro ht; cases ht
          · intro ht; cases ht
          · intro ht; cases ht
          · intro ht; cases ht
        rw [show (consume T cfg t s.core s.tok).halt = (consume T cfg t s'.core s'.tok).halt from hcr.halt]
        split
        · exact h0
        · exact rel_plainStep1 T hC .value b h0 (fun hp => by cases hp)
      · simp only [h2, if_false]
        split <;> exact rel_fail _ h

theorem rel_strStep1 (T : Tables) {pre : List Obj} {off : Nat} {s s' : S1}
    (m : SMode) (b : Byte) (h : Rel pre off s s') (hm : s'.mode = .str m) :
    Rel pre off (strStep1 T s m b) (strStep1 T s' m b) := by
  have hsb := h.sbuf (by rw [hm]; trivial)
  unfold strStep1
  cases hl : lookup? T (.str m) b with
  | none => exact rel_fail _ h
  | some a =>
    simp only []
    cases a <;> simp only []
    all_goals first
      | exact rel_fail _ h
      | skip
    · -- stringByte
      refine ⟨h.core, h.mode, h.pos, h.tok, fun ht => ⟨by rw [hsb.1], (h.sbuf ht).2⟩, h.base, h.sharp, h.rune⟩
    · -- stringDone
      rw [hsb.1]
      refine ⟨cr_push _ h.core, rfl, h.pos, ?_, ?_, ?_, ?_, ?_⟩
      · intro ht; cases ht
      · intro ht; cases ht
      · intro ht; cases ht
      · intro ht; cases ht
      · intro ht; cases ht
    · -- pipeDone
      rw [hsb.1]
      refine ⟨cr_push _ h.core, rfl, h.pos, ?_, ?_, ?_, ?_, ?_⟩
      · intro ht; cases ht
      · intro ht; cases ht
      · intro ht; cases ht
      · intro ht; cases ht
      · intro ht; cases ht
    · -- escByte
      refine ⟨h.core, rfl, h.pos, ?_, fun _ => hsb, ?_, ?_, ?_⟩
      · intro ht; cases ht
      · intro ht; cases ht
      · intro ht; cases ht
      · intro ht; cases ht

theorem rel_escStep1 (T : Tables) {pre : List Obj} {off : Nat} {s s' : S1}
    (b : Byte) (h : Rel pre off s s') (hm : s'.mode = .esc) :
    Rel pre off (escStep1 T s b) (escStep1 T s' b) := by
  have hsb := h.sbuf (by rw [hm]; trivial)
  unfold escStep1
  cases hl : lookup? T .esc b with
  | none => exact rel_fail _ h
  | some a =>
    simp only []
    cases a <;> simp only []
    all_goals first
      | exact rel_fail _ h
      | skip
    · -- escOne
      rw [hsb.1, hsb.2]
      refine ⟨h.core, rfl, h.pos, ?_, fun _ => ⟨rfl, hsb.2⟩, ?_, ?_, ?_⟩
      · intro ht; cases ht
      · intro ht; cases ht
      · intro ht; cases ht
      · intro ht; cases ht
    · -- escUnicode4
      refine ⟨⟨h.core.stack, h.core.starts, h.core.halt, h.core.code⟩, rfl, h.pos, ?_, fun _ => hsb, ?_, ?_, fun _ => ⟨rfl, rfl⟩⟩
      · intro ht; cases ht
      · intro ht; cases ht
      · intro ht; cases ht
    · -- escUnicode8
      refine ⟨⟨h.core.stack, h.core.starts, h.core.halt, h.core.code⟩, rfl, h.pos, ?_, fun _ => hsb, ?_, ?_, fun _ => ⟨rfl, rfl⟩⟩
      · intro ht; cases ht
      · intro ht; cases ht
      · intro ht; cases ht

theorem rel_runeStep1 (T : Tables) {pre : List Obj} {off : Nat} {s s' : S1}
    (b : Byte) (h : Rel pre off s s') (hm : s'.mode = .rune) :
    Rel pre off (runeStep1 T s b) (runeStep1 T s' b) := by
  have hsb := h.sbuf (by rw [hm]; trivial)
  have hrn := h.rune hm
  unfold runeStep1
  cases hl : lookup? T .rune b with
  | none => exact rel_fail _ h
  | some a =>
    simp only []
    cases hv : runeVal a b with
    | none =>
      simp only []
      split <;> exact rel_fail _ h
    | some v =>
      simp only []
      rw [hrn.1, hrn.2, hsb.1, hsb.2]
      split
      · refine ⟨⟨h.core.stack, h.core.starts, h.core.halt, h.core.code⟩, rfl, h.pos, ?_, fun _ => ⟨rfl, rfl⟩, ?_, ?_, ?_⟩
        · intro ht; cases ht
        · intro ht; cases ht
        · intro ht; cases ht
        · intro ht; cases ht
      · refine ⟨⟨h.core.stack, h.core.starts, h.core.halt, h.core.code⟩, h.mode, h.pos, h.tok, fun _ => ⟨rfl, rfl⟩, ?_, ?_, fun _ => ⟨rfl, rfl⟩⟩
        · intro ht; rw [hm] at ht; cases ht
        · intro ht; rw [hm] at ht; cases ht

theorem rel_chrStartStep1 (T : Tables) {pre : List Obj} {off : Nat} {s s' : S1}
    (b : Byte) (h : Rel pre off s s') :
    Rel pre off (chrStartStep1 T s b) (chrStartStep1 T s' b) := by
  unfold chrStartStep1
  cases hl : lookup? T .chrStart b with
  | none => exact rel_fail _ h
  | some a =>
    simp only []
    split
    · refine ⟨h.core, rfl, h.pos, fun _ => rfl, ?_, ?_, ?_, ?_⟩
      · intro ht; cases ht
      · intro ht; cases ht
      · intro ht; cases ht
      · intro ht; cases ht
    · split <;> exact rel_fail _ h

theorem plainStep1_pos (T : Tables) (s : S1) (p : PMode) (b : Byte) : (plainStep1 T s p b).pos = s.pos := by
  unfold plainStep1
  repeat' split
  all_goals rfl

theorem body1_pos (T : Tables) (cfg : Cfg) (s : S1) (b : Byte) : (body1 T cfg s b).pos = s.pos := by
  unfold body1
  split
  · exact plainStep1_pos T s _ b
  · unfold tokStep1
    repeat' split
    all_goals try simp only []
    all_goals repeat' split
    all_goals first | rfl | exact plainStep1_pos T _ _ b
  · unfold strStep1; repeat' split
    all_goals rfl
  · unfold escStep1; repeat' split
    all_goals rfl
  · unfold runeStep1; repeat' split
    all_goals rfl
  · unfold chrStartStep1; repeat' split
    all_goals rfl

theorem rel_body1 (T : Tables) (hC : contOK T = true) (cfg : Cfg) {pre : List Obj} {off : Nat} {s s' : S1}
    (b : Byte) (h : Rel pre off s s') : Rel pre off (body1 T cfg s b) (body1 T cfg s' b) := by
  unfold body1
  rw [h.mode]
  cases hm : s'.mode with
  | plain p => exact rel_plainStep1 T hC p b h (fun hp => h.sharp (by rw [hm, hp]))
  | tok t => exact rel_tokStep1 T hC cfg t b h hm
  | str m => exact rel_strStep1 T m b h hm
  | esc => exact rel_escStep1 T b h hm
  | rune => exact rel_runeStep1 T b h hm
  | chrStart => exact rel_chrStartStep1 T b h

theorem oneCheck_off (cfg : Cfg) (hc : cfg.one = false) (pos : Nat) (b : Byte) (c : Core) :
    oneCheck cfg pos b c = c := by
  unfold oneCheck
  cases c.halt <;> simp [hc]

theorem rel_step1 (T : Tables) (hC : contOK T = true) (cfg : Cfg) (hc : cfg.one = false)
    {pre : List Obj} {off : Nat} {s s' : S1}
    (b : Byte) (h : Rel pre off s s') : Rel pre off (step1 T cfg s b) (step1 T cfg s' b) := by
  unfold step1
  rw [h.core.halt]
  cases hh : s'.core.halt with
  | some x =>
    simp only []
    exact ⟨h.core, h.mode, by simp [h.pos]; omega, h.tok, h.sbuf, h.base, h.sharp, h.rune⟩
  | none =>
    simp only [oneCheck_off cfg hc]
    have hb := rel_body1 T hC cfg b h
    exact ⟨hb.core, hb.mode, by
      have e1 : (body1 T cfg s b).pos = s.pos := body1_pos T cfg s b
      have e2 : (body1 T cfg s' b).pos = s'.pos := body1_pos T cfg s' b
      simp [h.pos]; omega, hb.tok, hb.sbuf, hb.base, hb.sharp, hb.rune⟩

theorem rel_run1 (T : Tables) (hC : contOK T = true) (cfg : Cfg) (hc : cfg.one = false)
    {pre : List Obj} {off : Nat} (bs : List Byte) {s s' : S1}
    (h : Rel pre off s s') : Rel pre off (run1 T cfg s bs) (run1 T cfg s' bs) := by
  induction bs generalizing s s' with
  | nil => simpa [run1] using h
  | cons b rest ih => simpa [run1] using ih (rel_step1 T hC cfg hc b h)

end SlipVerif.Reader
