import SlipVerif.Model.FormatNum
import SlipVerif.Lemmas.FormatNum
/-! Helper lemmas for C15: the independent reader of English number words inverts `cardinalWords`
    for every table that passes the (decidable) checks `smallOK` and `periodOK`. -/
namespace SlipVerif.Format

/-- a word the text-level reader can take apart again: non-empty, no blank, not "negative"/"zero" -/
def goodWord (w : Txt) : Bool := !w.isEmpty && !w.contains 32 && w != wNegative && w != wZero

/-- the part of `readWord` that handles the words below one thousand (they never touch `total`) -/
def smallStep (T : EnglishTables) (cur : Nat) (w : Txt) : Option Nat :=
  if w = [] then none
  else if w = wHundred then some (cur * 100)
  else match indexOf? T.ones w with
    | some i => some (cur + i)
    | none => match indexOf? T.teens w with
      | some i => some (cur + 10 + i)
      | none => match indexOf? T.tens w with
        | some i => some (cur + 10 * (i + 2))
        | none => none

def smallRead (T : EnglishTables) : Nat → List Txt → Option Nat
  | cur, [] => some cur
  | cur, w :: ws => match smallStep T cur w with
    | some c => smallRead T c ws
    | none => none

/-- table check 1: for every 1 ≤ t ≤ 999 the words of `below1000 t` are good words and read back to t -/
def smallOK (T : EnglishTables) : Bool :=
  (List.range 999).all (fun i =>
    match below1000 T (i + 1) with
    | .ok ws => ws.all goodWord && smallRead T 0 ws == some (i + 1)
    | .error _ => false)

/-- table check 2: every period name (index ≥ 1) is a good word, is no small word, and is found at
    its own index (the names are pairwise different) -/
def periodOK (T : EnglishTables) : Bool :=
  (List.range (T.periods.length - 1)).all (fun j =>
    match T.periods[j + 1]? with
    | some w => goodWord w && w != wHundred && (indexOf? T.ones w).isNone && (indexOf? T.teens w).isNone
        && (indexOf? T.tens w).isNone && indexOf? T.periods w == some (j + 1)
    | none => false)

theorem readWord_of_smallStep (T : EnglishTables) (tot cur c : Nat) (w : Txt) (h : smallStep T cur w = some c) :
    readWord T ⟨tot, cur⟩ w = some ⟨tot, c⟩ := by
  unfold smallStep at h
  unfold readWord
  by_cases h0 : w = []
  · simp [h0] at h
  · simp only [h0, if_false] at h ⊢
    by_cases h1 : w = wHundred
    · simp only [h1, if_true] at h ⊢
      simp at h; simp [h]
    · simp only [h1, if_false] at h ⊢
      cases ho : indexOf? T.ones w with
      | some i => simp [ho] at h ⊢; simp [h]
      | none =>
        simp only [ho] at h ⊢
        cases ht : indexOf? T.teens w with
        | some i => simp [ht] at h ⊢; simp [h]
        | none =>
          simp only [ht] at h ⊢
          cases hn : indexOf? T.tens w with
          | some i => simp [hn] at h ⊢; simp [h]
          | none => simp [hn] at h

theorem readWords_of_smallRead (T : EnglishTables) (ws : List Txt) (tot cur c : Nat) (h : smallRead T cur ws = some c) :
    readWords T ⟨tot, cur⟩ ws = some ⟨tot, c⟩ := by
  induction ws generalizing cur with
  | nil => simp [smallRead] at h; simp [readWords, h]
  | cons w ws ih =>
    simp only [smallRead] at h
    cases hs : smallStep T cur w with
    | none => simp [hs] at h
    | some c1 =>
      simp only [hs] at h
      simp only [readWords, readWord_of_smallStep T tot cur c1 w hs]
      exact ih c1 h

theorem readWords_append (T : EnglishTables) (a b : List Txt) (s : RdSt) :
    readWords T s (a ++ b) = (readWords T s a).bind (fun s' => readWords T s' b) := by
  induction a generalizing s with
  | nil => simp [readWords]
  | cons w ws ih =>
    simp only [List.cons_append, readWords]
    cases readWord T s w with
    | none => simp
    | some s' => simp [ih]

/-- what `smallOK` says about one t -/
theorem smallOK_at (T : EnglishTables) (h : smallOK T = true) (t : Nat) (h1 : 1 ≤ t) (h2 : t < 1000) :
    ∃ ws, below1000 T t = .ok ws ∧ ws.all goodWord = true ∧ smallRead T 0 ws = some t := by
  unfold smallOK at h
  rw [List.all_eq_true] at h
  have := h (t - 1) (by simp [List.mem_range]; omega)
  have ht : t - 1 + 1 = t := by omega
  rw [ht] at this
  cases hb : below1000 T t with
  | error e => simp [hb] at this
  | ok ws =>
    simp only [hb, Bool.and_eq_true, beq_iff_eq] at this
    exact ⟨ws, rfl, this.1, this.2⟩

/-- what `periodOK` says about one period index -/
theorem periodOK_at (T : EnglishTables) (h : periodOK T = true) (j : Nat) (h1 : 1 ≤ j) (h2 : j < T.periods.length) :
    ∃ w, wordAt T.periods j = .ok w ∧ goodWord w = true ∧
      ∀ tot cur, readWord T ⟨tot, cur⟩ w = some ⟨tot + cur * 1000 ^ j, 0⟩ := by
  unfold periodOK at h
  rw [List.all_eq_true] at h
  have := h (j - 1) (by simp [List.mem_range]; omega)
  have hj : j - 1 + 1 = j := by omega
  rw [hj] at this
  cases hw : T.periods[j]? with
  | none => simp [hw] at this
  | some w =>
    simp only [hw, Bool.and_eq_true, beq_iff_eq, bne_iff_ne, ne_eq, Option.isNone_iff_eq_none] at this
    obtain ⟨⟨⟨⟨⟨hg, hh⟩, ho⟩, ht⟩, hn⟩, hp⟩ := this
    refine ⟨w, by simp [wordAt, hw], hg, ?_⟩
    intro tot cur
    have hne : w ≠ [] := by
      intro he; subst he; simp [goodWord] at hg
    unfold readWord
    simp [hne, hh, ho, ht, hn, hp]

theorem pow_shift (B j V : Nat) : B ^ (j + 1) * V = B ^ j * (B * V) := by
  rw [Nat.pow_succ, Nat.mul_assoc]

theorem pow_shift2 (B j t V : Nat) : B ^ j * (t + B * V) = B ^ (j + 1) * V + t * B ^ j := by
  rw [Nat.mul_add, pow_shift, Nat.mul_comm t, Nat.add_comm]

theorem all_append_good (a b : List Txt) (ha : a.all goodWord = true) (hb : b.all goodWord = true) :
    (a ++ b).all goodWord = true := by
  simp [List.all_append, ha, hb]

/-- the periods ≥ 1: all groups are closed, `cur` is 0 again and `total` has grown by the value -/
theorem readWords_periodWords (T : EnglishTables) (hS : smallOK T = true) (hP : periodOK T = true) :
    ∀ (ts : List Nat) (j : Nat), 1 ≤ j → j + ts.length ≤ T.periods.length → (∀ t ∈ ts, t < 1000) →
      ∃ ws, periodWords T j ts = .ok ws ∧ ws.all goodWord = true ∧
        ∀ tot, readWords T ⟨tot, 0⟩ ws = some ⟨tot + 1000 ^ j * ofDigitsLE 1000 ts, 0⟩ := by
  intro ts
  induction ts with
  | nil =>
    intro j _ _ _
    exact ⟨[], by simp [periodWords], by simp, by intro tot; simp [readWords, ofDigitsLE]⟩
  | cons t ts ih =>
    intro j hj hlen hlt
    have hlen' : j + 1 + ts.length ≤ T.periods.length := by simp at hlen; omega
    obtain ⟨hi, hhi, hgood, hread⟩ := ih (j + 1) (by omega) hlen' (fun x hx => hlt x (by simp [hx]))
    have htlt : t < 1000 := hlt t (by simp)
    have hj0 : j ≠ 0 := by omega
    by_cases ht0 : t = 0
    · refine ⟨hi, ?_, hgood, ?_⟩
      · simp [periodWords, hhi, ht0, bind, Except.bind, pure, Except.pure]
      · intro tot
        rw [hread tot, ht0]
        simp only [ofDigitsLE, Nat.zero_add]
        rw [pow_shift]
    · obtain ⟨sw, hsw, hsgood, hsread⟩ := smallOK_at T hS t (by omega) htlt
      obtain ⟨pw, hpw, hpgood, hpread⟩ := periodOK_at T hP j hj (by simp at hlen; omega)
      refine ⟨hi ++ sw ++ [pw], ?_, ?_, ?_⟩
      · simp [periodWords, hhi, ht0, hsw, hpw, hj0, bind, Except.bind, pure, Except.pure]
      · exact all_append_good _ _ (all_append_good _ _ hgood hsgood) (by simp [hpgood])
      · intro tot
        rw [readWords_append, readWords_append, hread tot]
        simp only [Option.bind_some]
        rw [readWords_of_smallRead T sw _ 0 t hsread]
        simp only [Option.bind_some, readWords, hpread, ofDigitsLE]
        rw [pow_shift2, Nat.add_assoc]

theorem digitsLE_length_le (b : Nat) (hb : 2 ≤ b) (L : Nat) (hL : 1 ≤ L) (n : Nat) (hn : n < b ^ L) :
    (digitsLE b n).length ≤ L := by
  induction L generalizing n with
  | zero => omega
  | succ L ih =>
    by_cases h : 2 ≤ b ∧ b ≤ n
    · rw [digitsLE_step b n h]
      have hL1 : 1 ≤ L := by
        rcases Nat.eq_zero_or_pos L with h0 | h0
        · subst h0; simp at hn; omega
        · exact h0
      have hdiv : n / b < b ^ L := by
        rw [Nat.div_lt_iff_lt_mul (by omega)]
        rw [Nat.pow_succ] at hn
        exact hn
      have := ih hL1 (n / b) hdiv
      simp; omega
    · rw [digitsLE_small b n h]; simp

/-- word level: the reader inverts `cardinalWords` for every 0 < n < 1000^(number of period names) -/
theorem cardinalWords_read (T : EnglishTables) (hS : smallOK T = true) (hP : periodOK T = true)
    (n : Nat) (hn : 0 < n) (hlt : n < 1000 ^ T.periods.length) :
    ∃ ws, cardinalWords T n = .ok ws ∧ ws ≠ [] ∧ ws.all goodWord = true ∧
      ∃ s, readWords T ⟨0, 0⟩ ws = some s ∧ s.total + s.cur = n := by
  have hLpos : 1 ≤ T.periods.length := by
    rcases Nat.eq_zero_or_pos T.periods.length with h0 | h0
    · rw [h0] at hlt; simp at hlt; omega
    · exact h0
  have hlen := digitsLE_length_le 1000 (by omega) T.periods.length hLpos n hlt
  have hval := ofDigitsLE_digitsLE 1000 n
  have hdig := digitsLE_lt 1000 (by omega) n
  unfold cardinalWords
  have hn0 : n ≠ 0 := by omega
  simp only [hn0, if_false]
  have hnotlt : ¬ T.periods.length < (digitsLE 1000 n).length := by omega
  simp only [hnotlt, if_false]
  cases hds : digitsLE 1000 n with
  | nil => exact absurd hds (digitsLE_ne_nil 1000 n)
  | cons t ts =>
    rw [hds] at hlen hval hdig
    have hts : ∀ x ∈ ts, x < 1000 := fun x hx => hdig x (by simp [hx])
    have htlt : t < 1000 := hdig t (by simp)
    obtain ⟨hi, hhi, hgood, hread⟩ := readWords_periodWords T hS hP ts 1 (by omega) (by simp at hlen; omega) hts
    simp only [ofDigitsLE] at hval
    by_cases ht0 : t = 0
    · have hne : hi ≠ [] := by
        intro he
        have := hread 0
        rw [he] at this
        simp [readWords] at this
        omega
      refine ⟨hi, ?_, hne, hgood, ⟨0 + 1000 ^ 1 * ofDigitsLE 1000 ts, 0⟩, hread 0, ?_⟩
      · simp [periodWords, hhi, ht0, bind, Except.bind, pure, Except.pure]
      · simp; omega
    · obtain ⟨sw, hsw, hsgood, hsread⟩ := smallOK_at T hS t (by omega) htlt
      have hswne : sw ≠ [] := by
        intro he
        rw [he] at hsread
        simp [smallRead] at hsread
        omega
      refine ⟨hi ++ sw, ?_, by simp [hswne], all_append_good _ _ hgood hsgood, ⟨0 + 1000 ^ 1 * ofDigitsLE 1000 ts, t⟩, ?_, ?_⟩
      · simp [periodWords, hhi, ht0, hsw, bind, Except.bind, pure, Except.pure]
      · rw [readWords_append, hread 0]
        simp only [Option.bind_some]
        exact readWords_of_smallRead T sw _ 0 t hsread
      · simp; omega

/-! ## text level: joining and splitting -/

theorem splitWords_noblank (w : Txt) (h : w.contains 32 = false) : splitWords w = [w] := by
  induction w with
  | nil => simp [splitWords]
  | cons c cs ih =>
    have hc : c ≠ 32 := by
      intro he; subst he; simp at h
    have hcs : cs.contains 32 = false := by
      simp only [List.contains_cons, Bool.or_eq_false_iff] at h
      exact h.2
    simp [splitWords, ih hcs, hc]

theorem splitWords_append_blank (w rest : Txt) (h : w.contains 32 = false) :
    splitWords (w ++ 32 :: rest) = w :: splitWords rest := by
  induction w with
  | nil =>
    simp only [List.nil_append, splitWords]
    cases hr : splitWords rest with
    | nil =>
      -- splitWords never returns []
      exfalso
      cases rest with
      | nil => simp [splitWords] at hr
      | cons c cs =>
        simp only [splitWords] at hr
        cases hcs : splitWords cs with
        | nil => simp [hcs] at hr
        | cons a b => simp only [hcs] at hr; split at hr <;> simp at hr
    | cons a b => simp
  | cons c cs ih =>
    have hc : c ≠ 32 := by
      intro he; subst he; simp at h
    have hcs : cs.contains 32 = false := by
      simp only [List.contains_cons, Bool.or_eq_false_iff] at h
      exact h.2
    simp only [List.cons_append, splitWords, ih hcs, hc, if_false]

theorem goodWord_noblank (w : Txt) (h : goodWord w = true) : w.contains 32 = false := by
  simp [goodWord] at h
  simpa using h.1.1.2

theorem splitWords_joinWords (ws : List Txt) (hne : ws ≠ []) (h : ∀ w ∈ ws, w.contains 32 = false) :
    splitWords (joinWords ws) = ws := by
  induction ws with
  | nil => exact absurd rfl hne
  | cons w ws ih =>
    cases ws with
    | nil => simp [joinWords, splitWords_noblank w (h w (by simp))]
    | cons w2 ws2 =>
      have := ih (by simp) (fun x hx => h x (by simp [hx]))
      simp only [joinWords]
      rw [splitWords_append_blank w _ (h w (by simp)), this]

end SlipVerif.Format
