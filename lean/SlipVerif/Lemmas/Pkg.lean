import SlipVerif.Model.Pkg
import Mathlib.Tactic.SplitIfs
import Mathlib.Tactic.Tauto
import Mathlib.Data.List.Nodup
/-
  C13 — helper lemmas: the table invariant and its preservation by the table transformers of
  Model/Pkg.lean.
-/
namespace SlipVerif.Pkg

/-- the use graph is kept in both directions, nobody uses itself, lists have no duplicates -/
structure GInv (uses users : Pk → List Pk) : Prop where
  sym : ∀ p q, q ∈ uses p ↔ p ∈ users q
  irr : ∀ p, p ∉ uses p
  nodupUses : ∀ p, (uses p).Nodup
  nodupUsers : ∀ p, (users p).Nodup

namespace Tab

theorem ownExp_iff (t : Tab) (q : Pk) (n : Nm) :
    t.ownExp q n = true ↔ t.cell q n = some q ∧ ∃ d, t.defs q n = some d ∧ d.exp = true := by
  unfold ownExp entry
  cases hc : t.cell q n with
  | none => simp
  | some o =>
    cases hd : t.defs o n with
    | none =>
      by_cases ho : o = q
      · subst ho; simp [hd]
      · simp [hd, ho]
    | some d =>
      by_cases ho : o = q
      · subst ho; simp [hd]
      · simp [hd, ho]

theorem ownExp_congr {t t' : Tab} {q : Pk} {n : Nm}
    (hc : t'.cell q n = some q ↔ t.cell q n = some q) (hd : t'.defs q n = t.defs q n) :
    t'.ownExp q n = t.ownExp q n := by
  rw [Bool.eq_iff_iff, ownExp_iff, ownExp_iff, hc, hd]

theorem ownExp_false_of_cell {t : Tab} {q : Pk} {n : Nm} (h : t.cell q n ≠ some q) :
    t.ownExp q n = false := by
  cases hx : t.ownExp q n with
  | false => rfl
  | true => exact absurd ((ownExp_iff t q n).1 hx).1 h

theorem inheritFirst_some {t : Tab} {us : List Pk} {n : Nm} {q : Pk}
    (h : t.inheritFirst us n = some q) : q ∈ us ∧ t.ownExp q n = true := by
  unfold inheritFirst at h
  exact ⟨List.mem_of_find?_eq_some h, by simpa using List.find?_some h⟩

theorem inheritFirst_none {t : Tab} {us : List Pk} {n : Nm}
    (h : t.inheritFirst us n = none) : ∀ q ∈ us, t.ownExp q n = false := by
  unfold inheritFirst at h
  intro q hq
  have := List.find?_eq_none.1 h q hq
  simpa using this

theorem inheritLast_some {t : Tab} {us : List Pk} {n : Nm} {q : Pk}
    (h : t.inheritLast us n = some q) : q ∈ us ∧ t.ownExp q n = true := by
  unfold inheritLast at h
  exact ⟨List.mem_reverse.1 (List.mem_of_find?_eq_some h), by simpa using List.find?_some h⟩

theorem inheritLast_none {t : Tab} {us : List Pk} {n : Nm}
    (h : t.inheritLast us n = none) : ∀ q ∈ us, t.ownExp q n = false := by
  unfold inheritLast at h
  intro q hq
  have := List.find?_eq_none.1 h q (List.mem_reverse.2 hq)
  simpa using this

/-- inheritFirst only depends on `ownExp` of the listed packages -/
theorem inheritFirst_congr {t t' : Tab} {us : List Pk} {n : Nm}
    (h : ∀ q ∈ us, t'.ownExp q n = t.ownExp q n) : t'.inheritFirst us n = t.inheritFirst us n := by
  unfold inheritFirst
  induction us with
  | nil => rfl
  | cons a l ih =>
    simp only [List.find?_cons, h a (List.mem_cons_self ..)]
    rw [ih (fun q hq => h q (List.mem_cons_of_mem _ hq))]

end Tab

/-- The table invariant, weakened at the (owner, name) pairs in `ex` (used between the two halves
    of an operation: after the entry object changed, before the users' tables were updated). -/
structure TInvW (uses : Pk → List Pk) (t : Tab) (ex : Pk → Nm → Prop) : Prop where
  /-- a package's table points to its own entry object exactly when that object exists -/
  own : ∀ p n, t.cell p n = some p ↔ (t.defs p n).isSome = true
  /-- any other entry in a table is the exported own entry of a used package -/
  snd : ∀ p q n, t.cell p n = some q → q ≠ p → q ∈ uses p ∧ (t.ownExp q n = true ∨ ex q n)
  /-- a name missing from a table is not exported by any used package -/
  cmp : ∀ p q n, t.cell p n = none → q ∈ uses p → (t.ownExp q n = false ∨ ex q n)

/-- tables = closure of the graph -/
def TInv (uses : Pk → List Pk) (t : Tab) : Prop := TInvW uses t (fun _ _ => False)

theorem TInv.weaken {uses : Pk → List Pk} {t : Tab} (h : TInv uses t) (ex : Pk → Nm → Prop) :
    TInvW uses t ex :=
  ⟨h.own, fun p q n hc hq => ⟨(h.snd p q n hc hq).1, Or.inl ((h.snd p q n hc hq).2.resolve_right id)⟩,
   fun p q n hc hq => Or.inl ((h.cmp p q n hc hq).resolve_right id)⟩

theorem TInv.snd' {uses : Pk → List Pk} {t : Tab} (h : TInv uses t) {p q : Pk} {n : Nm}
    (hc : t.cell p n = some q) (hq : q ≠ p) : q ∈ uses p ∧ t.ownExp q n = true :=
  ⟨(h.snd p q n hc hq).1, (h.snd p q n hc hq).2.resolve_right id⟩

theorem TInv.cmp' {uses : Pk → List Pk} {t : Tab} (h : TInv uses t) {p q : Pk} {n : Nm}
    (hc : t.cell p n = none) (hq : q ∈ uses p) : t.ownExp q n = false :=
  (h.cmp p q n hc hq).resolve_right id


theorem GInv.ne_of_mem_users {uses users : Pk → List Pk} (g : GInv uses users) {p o : Pk}
    (h : p ∈ users o) : p ≠ o := by
  intro e; subst e
  exact g.irr p ((g.sym p p).2 h)

theorem GInv.ne_of_mem_uses {uses users : Pk → List Pk} (g : GInv uses users) {p q : Pk}
    (h : q ∈ uses p) : q ≠ p := by
  intro e; subst e
  exact g.irr q h

namespace Tab

@[simp] theorem push_defs (t : Tab) (users : Pk → List Pk) (o : Pk) (n : Nm) :
    (t.push users o n).defs = t.defs := rfl

theorem push_cell (t : Tab) (users : Pk → List Pk) (o : Pk) (n : Nm) (p : Pk) (n' : Nm) :
    (t.push users o n).cell p n' =
      if n' = n ∧ p ∈ users o ∧ t.cell p n = none then some o else t.cell p n' := rfl

theorem push_ownExp {uses users : Pk → List Pk} (g : GInv uses users) (t : Tab) (o : Pk) (n : Nm)
    (q : Pk) (n' : Nm) : (t.push users o n).ownExp q n' = t.ownExp q n' := by
  refine ownExp_congr ?_ (by rw [push_defs])
  rw [push_cell]
  by_cases hc : n' = n ∧ q ∈ users o ∧ t.cell q n = none
  · obtain ⟨h1, h2, h3⟩ := hc
    subst h1
    have : o ≠ q := fun e => g.ne_of_mem_users h2 e.symm
    simp [h2, h3, this]
  · simp [hc]

/-- offering an exported own entry to the users restores the invariant -/
theorem push_inv {uses users : Pk → List Pk} (g : GInv uses users) {t : Tab} {o : Pk} {n : Nm}
    (h : TInvW uses t (fun q n' => q = o ∧ n' = n)) (ho : t.ownExp o n = true) :
    TInv uses (t.push users o n) := by
  refine ⟨?_, ?_, ?_⟩
  · intro p n'
    rw [push_cell, push_defs]
    by_cases hc : n' = n ∧ p ∈ users o ∧ t.cell p n = none
    · obtain ⟨h1, h2, h3⟩ := hc
      subst h1
      have hne : o ≠ p := fun e => g.ne_of_mem_users h2 e.symm
      have := h.own p n'
      simp [h3] at this
      simp [h2, h3, hne, this]
    · simp only [hc, if_false]; exact h.own p n'
  · intro p q n' hcell hq
    rw [push_ownExp g]
    rw [push_cell] at hcell
    by_cases hc : n' = n ∧ p ∈ users o ∧ t.cell p n = none
    · obtain ⟨h1, h2, h3⟩ := hc
      subst h1
      simp [h2, h3] at hcell
      subst hcell
      exact ⟨(g.sym p o).2 h2, Or.inl ho⟩
    · simp only [hc, if_false] at hcell
      obtain ⟨h1, h2⟩ := h.snd p q n' hcell hq
      refine ⟨h1, Or.inl ?_⟩
      rcases h2 with h2 | ⟨e1, e2⟩
      · exact h2
      · subst e1; subst e2; exact ho
  · intro p q n' hcell hq
    rw [push_ownExp g]
    rw [push_cell] at hcell
    by_cases hc : n' = n ∧ p ∈ users o ∧ t.cell p n = none
    · simp [hc] at hcell
    · simp only [hc, if_false] at hcell
      rcases h.cmp p q n' hcell hq with h2 | ⟨e1, e2⟩
      · exact Or.inl h2
      · subst e1; subst e2
        exact absurd ⟨rfl, (g.sym p q).1 hq, hcell⟩ hc

@[simp] theorem retract_defs (t : Tab) (uses users : Pk → List Pk) (o : Pk) (n : Nm) :
    (t.retract uses users o n).defs = t.defs := rfl

theorem retract_cell (t : Tab) (uses users : Pk → List Pk) (o : Pk) (n : Nm) (p : Pk) (n' : Nm) :
    (t.retract uses users o n).cell p n' =
      if n' = n ∧ p ∈ users o ∧ t.cell p n = some o then t.inheritFirst (uses p) n
      else t.cell p n' := rfl

theorem retract_ownExp {uses users : Pk → List Pk} (g : GInv uses users) (t : Tab) (o : Pk) (n : Nm)
    (q : Pk) (n' : Nm) : (t.retract uses users o n).ownExp q n' = t.ownExp q n' := by
  refine ownExp_congr ?_ (by rw [retract_defs])
  rw [retract_cell]
  by_cases hc : n' = n ∧ q ∈ users o ∧ t.cell q n = some o
  · obtain ⟨h1, h2, h3⟩ := hc
    subst h1
    have hne : o ≠ q := fun e => g.ne_of_mem_users h2 e.symm
    simp only [h2, h3, and_self, if_true]
    constructor
    · intro hi
      exact absurd rfl (g.ne_of_mem_uses (inheritFirst_some hi).1)
    · intro hi
      exact absurd (Option.some.inj hi) hne
  · simp [hc]

/-- taking a no longer exported / removed entry away from the users restores the invariant -/
theorem retract_inv {uses users : Pk → List Pk} (g : GInv uses users) {t : Tab} {o : Pk} {n : Nm}
    (h : TInvW uses t (fun q n' => q = o ∧ n' = n)) (ho : t.ownExp o n = false) :
    TInv uses (t.retract uses users o n) := by
  refine ⟨?_, ?_, ?_⟩
  · intro p n'
    rw [retract_cell, retract_defs]
    by_cases hc : n' = n ∧ p ∈ users o ∧ t.cell p n = some o
    · obtain ⟨h1, h2, h3⟩ := hc
      subst h1
      have hne : o ≠ p := fun e => g.ne_of_mem_users h2 e.symm
      have hown := h.own p n'
      rw [h3] at hown
      simp only [h2, h3, and_self, if_true]
      constructor
      · intro hi
        exact absurd rfl (g.ne_of_mem_uses (inheritFirst_some hi).1)
      · intro hi
        exact absurd (Option.some.inj (hown.2 hi)) hne
    · simp only [hc, if_false]; exact h.own p n'
  · intro p q n' hcell hq
    rw [retract_ownExp g]
    rw [retract_cell] at hcell
    by_cases hc : n' = n ∧ p ∈ users o ∧ t.cell p n = some o
    · obtain ⟨h1, h2, h3⟩ := hc
      subst h1
      simp only [h2, h3, and_self, if_true] at hcell
      exact ⟨(inheritFirst_some hcell).1, Or.inl (inheritFirst_some hcell).2⟩
    · simp only [hc, if_false] at hcell
      obtain ⟨h1, h2⟩ := h.snd p q n' hcell hq
      refine ⟨h1, Or.inl ?_⟩
      rcases h2 with h2 | ⟨e1, e2⟩
      · exact h2
      · subst e1; subst e2
        exact absurd ⟨rfl, (g.sym p q).1 h1, hcell⟩ hc
  · intro p q n' hcell hq
    rw [retract_ownExp g]
    rw [retract_cell] at hcell
    by_cases hc : n' = n ∧ p ∈ users o ∧ t.cell p n = some o
    · obtain ⟨h1, h2, h3⟩ := hc
      subst h1
      simp only [h2, h3, and_self, if_true] at hcell
      exact Or.inl (inheritFirst_none hcell q hq)
    · simp only [hc, if_false] at hcell
      rcases h.cmp p q n' hcell hq with h2 | ⟨e1, e2⟩
      · exact Or.inl h2
      · subst e1; subst e2; exact Or.inl ho

theorem setDef_defs (t : Tab) (p : Pk) (n : Nm) (d : Option Def) (p' : Pk) (n' : Nm) :
    (t.setDef p n d).defs p' n' = if p' = p ∧ n' = n then d else t.defs p' n' := rfl
@[simp] theorem setDef_cell (t : Tab) (p : Pk) (n : Nm) (d : Option Def) :
    (t.setDef p n d).cell = t.cell := rfl
theorem setCell_cell (t : Tab) (p : Pk) (n : Nm) (c : Option Pk) (p' : Pk) (n' : Nm) :
    (t.setCell p n c).cell p' n' = if p' = p ∧ n' = n then c else t.cell p' n' := rfl
@[simp] theorem setCell_defs (t : Tab) (p : Pk) (n : Nm) (c : Option Pk) :
    (t.setCell p n c).defs = t.defs := rfl

/-- `ownExp` at (q, n') only reads the cell and the entry object at (q, n') -/
theorem ownExp_eq_of_eq {t t' : Tab} {q : Pk} {n' : Nm}
    (hc : t'.cell q n' = t.cell q n') (hd : t'.defs q n' = t.defs q n') :
    t'.ownExp q n' = t.ownExp q n' :=
  ownExp_congr (by rw [hc]) hd

theorem TInvW.strengthen {uses : Pk → List Pk} {t : Tab} {ex : Pk → Nm → Prop}
    (h : TInvW uses t ex) (hf : ∀ q n, ex q n → t.ownExp q n = false)
    (hs : ∀ p q n, t.cell p n = some q → q ≠ p → ¬ ex q n) : TInv uses t :=
  ⟨h.own,
   fun p q n hc hq => ⟨(h.snd p q n hc hq).1,
      Or.inl ((h.snd p q n hc hq).2.resolve_right (hs p q n hc hq))⟩,
   fun p q n hc hq => Or.inl ((h.cmp p q n hc hq).elim id (hf q n))⟩

/-- changing the entry object at (p, n) (not its existence) leaves the invariant intact except
    at (p, n) -/
theorem setDef_invW {uses : Pk → List Pk} {t : Tab} (h : TInv uses t) {p : Pk} {n : Nm}
    {d' : Option Def} (hiso : d'.isSome = (t.defs p n).isSome) :
    TInvW uses (t.setDef p n d') (fun q n' => q = p ∧ n' = n) := by
  have hoe : ∀ q n', ¬ (q = p ∧ n' = n) → (t.setDef p n d').ownExp q n' = t.ownExp q n' := by
    intro q n' hne
    exact ownExp_eq_of_eq rfl (by rw [setDef_defs, if_neg hne])
  refine ⟨?_, ?_, ?_⟩
  · intro q n'
    rw [setDef_cell, setDef_defs]
    by_cases hc : q = p ∧ n' = n
    · obtain ⟨e1, e2⟩ := hc; subst e1; subst e2
      simp only [and_self, if_true, hiso]; exact h.own q n'
    · simp only [hc, if_false]; exact h.own q n'
  · intro p' q n' hcell hq
    rw [setDef_cell] at hcell
    obtain ⟨h1, h2⟩ := h.snd' hcell hq
    refine ⟨h1, ?_⟩
    by_cases hc : q = p ∧ n' = n
    · exact Or.inr hc
    · exact Or.inl (by rw [hoe q n' hc]; exact h2)
  · intro p' q n' hcell hq
    rw [setDef_cell] at hcell
    have h2 := h.cmp' hcell hq
    by_cases hc : q = p ∧ n' = n
    · exact Or.inr hc
    · exact Or.inl (by rw [hoe q n' hc]; exact h2)

/-- changing the value of an entry object (not the flag) preserves the invariant -/
theorem setVal_inv {uses : Pk → List Pk} {t : Tab} (h : TInv uses t) {p : Pk} {n : Nm}
    {d : Def} (hd : t.defs p n = some d) (v : Option Nat) :
    TInv uses (t.setDef p n (some { d with val := v })) := by
  have hw := setDef_invW (d' := some { d with val := v }) h (p := p) (n := n) (by rw [hd]; rfl)
  have hoe : (t.setDef p n (some { d with val := v })).ownExp p n = t.ownExp p n := by
    rw [Bool.eq_iff_iff, ownExp_iff, ownExp_iff, setDef_cell, setDef_defs, hd]
    simp
  refine ⟨hw.own, ?_, ?_⟩
  · intro p' q n' hcell hq
    refine ⟨(hw.snd p' q n' hcell hq).1, Or.inl ?_⟩
    rcases (hw.snd p' q n' hcell hq).2 with h2 | ⟨e1, e2⟩
    · exact h2
    · subst e1; subst e2
      rw [setDef_cell] at hcell
      rw [hoe]; exact (h.snd' hcell hq).2
  · intro p' q n' hcell hq
    refine Or.inl ?_
    rcases hw.cmp p' q n' hcell hq with h2 | ⟨e1, e2⟩
    · exact h2
    · subst e1; subst e2
      rw [setDef_cell] at hcell
      rw [hoe]; exact h.cmp' hcell hq

theorem assign_inv {uses : Pk → List Pk} {t : Tab} (h : TInv uses t) (p : Pk) (n : Nm)
    (v : Option Nat) : TInv uses (t.assign p n v) := by
  unfold assign
  cases he : t.entry p n with
  | none => exact h
  | some od =>
    obtain ⟨o, d⟩ := od
    have hd : t.defs o n = some d := by
      unfold entry at he
      cases hc : t.cell p n with
      | none => simp [hc] at he
      | some o' =>
        cases hd' : t.defs o' n with
        | none => simp [hc, hd'] at he
        | some d' =>
          simp [hc, hd'] at he
          obtain ⟨e1, e2⟩ := he
          subst e1; subst e2; exact hd'
    exact setVal_inv h hd v

theorem exportOwn_inv {uses users : Pk → List Pk} (g : GInv uses users) {t : Tab}
    (h : TInv uses t) {p : Pk} {n : Nm} (hown : t.cell p n = some p) :
    TInv uses (t.exportOwn users p n) := by
  unfold exportOwn
  cases hd : t.defs p n with
  | none => exact h
  | some d =>
    have hw := setDef_invW (d' := some { d with exp := true }) h (p := p) (n := n) (by rw [hd]; rfl)
    refine push_inv g hw ?_
    rw [ownExp_iff, setDef_cell, setDef_defs]
    exact ⟨hown, { d with exp := true }, by simp, rfl⟩

theorem unexportOwn_inv {uses users : Pk → List Pk} (g : GInv uses users) {t : Tab}
    (h : TInv uses t) (p : Pk) (n : Nm) :
    TInv uses (t.unexportOwn uses users p n) := by
  unfold unexportOwn
  cases hd : t.defs p n with
  | none => exact h
  | some d =>
    have hw := setDef_invW (d' := some { d with exp := false }) h (p := p) (n := n) (by rw [hd]; rfl)
    refine retract_inv g hw ?_
    cases hx : (t.setDef p n (some { d with exp := false })).ownExp p n with
    | false => rfl
    | true =>
      rw [ownExp_iff, setDef_defs] at hx
      obtain ⟨_, d', h1, h2⟩ := hx
      simp at h1
      subst h1
      simp at h2

/-- a new entry object at (p, n), where p's table had nothing of its own (nothing at all, or an
    inherited entry that the new one shadows) -/
theorem create_inv {uses users : Pk → List Pk} (g : GInv uses users) {t : Tab}
    (h : TInv uses t) {p : Pk} {n : Nm} (hnone : t.cell p n ≠ some p) (d : Def) :
    TInv uses (t.create users p n d) := by
  have hnd : t.defs p n = none := by
    have := h.own p n
    cases hd : t.defs p n with
    | none => rfl
    | some d' => rw [hd] at this; exact absurd (this.2 rfl) hnone
  let t1 := (t.setDef p n (some d)).setCell p n (some p)
  have hc1 : ∀ p' n', t1.cell p' n' = if p' = p ∧ n' = n then some p else t.cell p' n' :=
    fun p' n' => by simp only [t1, setCell_cell, setDef_cell]
  have hd1 : ∀ p' n', t1.defs p' n' = if p' = p ∧ n' = n then some d else t.defs p' n' :=
    fun p' n' => by simp only [t1, setCell_defs, setDef_defs]
  have hoe : ∀ q n', ¬ (q = p ∧ n' = n) → t1.ownExp q n' = t.ownExp q n' := by
    intro q n' hne
    exact ownExp_eq_of_eq (by rw [hc1, if_neg hne]) (by rw [hd1, if_neg hne])
  have hop : t1.ownExp p n = d.exp := by
    rw [Bool.eq_iff_iff, ownExp_iff, hc1, hd1]
    simp
  have hpfalse : t.ownExp p n = false := ownExp_false_of_cell hnone
  have hw : TInvW uses t1 (fun q n' => q = p ∧ n' = n) := by
    refine ⟨?_, ?_, ?_⟩
    · intro q n'
      rw [hc1, hd1]
      by_cases hc : q = p ∧ n' = n
      · obtain ⟨e1, e2⟩ := hc; subst e1; subst e2; simp
      · simp only [hc, if_false]; exact h.own q n'
    · intro p' q n' hcell hq
      rw [hc1] at hcell
      by_cases hc : p' = p ∧ n' = n
      · simp only [hc, and_self, if_true] at hcell
        exact absurd ((Option.some.inj hcell).symm.trans hc.1.symm) hq
      · simp only [hc, if_false] at hcell
        obtain ⟨h1, h2⟩ := h.snd' hcell hq
        refine ⟨h1, ?_⟩
        by_cases hc' : q = p ∧ n' = n
        · exact Or.inr hc'
        · exact Or.inl (by rw [hoe q n' hc']; exact h2)
    · intro p' q n' hcell hq
      rw [hc1] at hcell
      by_cases hc : p' = p ∧ n' = n
      · simp [hc] at hcell
      · simp only [hc, if_false] at hcell
        have h2 := h.cmp' hcell hq
        by_cases hc' : q = p ∧ n' = n
        · exact Or.inr hc'
        · exact Or.inl (by rw [hoe q n' hc']; exact h2)
  show TInv uses (if d.exp then t1.push users p n else t1)
  by_cases he : d.exp = true
  · rw [if_pos he]
    exact push_inv g hw (by rw [hop]; exact he)
  · rw [if_neg he]
    refine TInvW.strengthen hw ?_ ?_
    · rintro q n' ⟨e1, e2⟩; subst e1; subst e2
      rw [hop]; simpa using he
    · rintro p' q n' hcell hq ⟨e1, e2⟩; subst e1; subst e2
      rw [hc1] at hcell
      by_cases hc : p' = q
      · exact hq hc.symm
      · have hc' : ¬ (p' = q ∧ n' = n') := fun hh => hc hh.1
        rw [if_neg hc'] at hcell
        have := (h.snd' hcell hq).2
        rw [hpfalse] at this
        exact Bool.noConfusion this

theorem remove_inv {uses users : Pk → List Pk} (g : GInv uses users) {t : Tab}
    (h : TInv uses t) (p : Pk) (n : Nm) : TInv uses (t.remove uses users p n) := by
  unfold remove
  cases hcp : t.cell p n with
  | none => exact h
  | some o =>
    by_cases hop : o = p
    · -- the package's own entry
      subst hop
      simp only [if_true]
      let t1 := (t.setDef o n none).setCell o n none
      let r := t1.inheritFirst (uses o) n
      let t2 := t1.setCell o n r
      have hc2 : ∀ p' n', t2.cell p' n' = if p' = o ∧ n' = n then r else t.cell p' n' := by
        intro p' n'
        simp only [t2, t1, setCell_cell, setDef_cell]
        by_cases hc : p' = o ∧ n' = n <;> simp [hc]
      have hd2 : ∀ p' n', t2.defs p' n' = if p' = o ∧ n' = n then none else t.defs p' n' :=
        fun p' n' => by simp only [t2, t1, setCell_defs, setDef_defs]
      have hc1 : ∀ p' n', t1.cell p' n' = if p' = o ∧ n' = n then none else t.cell p' n' :=
        fun p' n' => by simp only [t1, setCell_cell, setDef_cell]
      have hd1 : ∀ p' n', t1.defs p' n' = if p' = o ∧ n' = n then none else t.defs p' n' :=
        fun p' n' => by simp only [t1, setCell_defs, setDef_defs]
      have hoe2 : ∀ q n', ¬ (q = o ∧ n' = n) → t2.ownExp q n' = t.ownExp q n' := by
        intro q n' hne
        exact ownExp_eq_of_eq (by rw [hc2, if_neg hne]) (by rw [hd2, if_neg hne])
      have hoe1 : ∀ q n', ¬ (q = o ∧ n' = n) → t1.ownExp q n' = t.ownExp q n' := by
        intro q n' hne
        exact ownExp_eq_of_eq (by rw [hc1, if_neg hne]) (by rw [hd1, if_neg hne])
      have hr : ∀ q, r = some q → q ∈ uses o ∧ t.ownExp q n = true := by
        intro q hq
        obtain ⟨h1, h2⟩ := inheritFirst_some hq
        have hne : ¬ (q = o ∧ n = n) := fun hh => g.ne_of_mem_uses h1 hh.1
        exact ⟨h1, by rw [← hoe1 q n hne]; exact h2⟩
      have hop2 : t2.ownExp o n = false := by
        apply ownExp_false_of_cell
        rw [hc2]; simp only [and_self, if_true]
        intro hq
        exact g.ne_of_mem_uses (hr o hq).1 rfl
      have hw : TInvW uses t2 (fun q n' => q = o ∧ n' = n) := by
        refine ⟨?_, ?_, ?_⟩
        · intro q n'
          rw [hc2, hd2]
          by_cases hc : q = o ∧ n' = n
          · obtain ⟨e1, e2⟩ := hc; subst e1; subst e2
            simp only [and_self, if_true]
            constructor
            · intro hq; exact absurd rfl (g.ne_of_mem_uses (hr q hq).1)
            · intro hq; simp at hq
          · simp only [hc, if_false]; exact h.own q n'
        · intro p' q n' hcell hq
          rw [hc2] at hcell
          by_cases hc : p' = o ∧ n' = n
          · obtain ⟨e1, e2⟩ := hc; subst e1; subst e2
            simp only [and_self, if_true] at hcell
            obtain ⟨h1, h2⟩ := hr q hcell
            have hne : ¬ (q = p' ∧ n' = n') := fun hh => hq hh.1
            exact ⟨h1, Or.inl (by rw [hoe2 q n' hne]; exact h2)⟩
          · simp only [hc, if_false] at hcell
            obtain ⟨h1, h2⟩ := h.snd' hcell hq
            refine ⟨h1, ?_⟩
            by_cases hc' : q = o ∧ n' = n
            · exact Or.inr hc'
            · exact Or.inl (by rw [hoe2 q n' hc']; exact h2)
        · intro p' q n' hcell hq
          rw [hc2] at hcell
          by_cases hc : p' = o ∧ n' = n
          · obtain ⟨e1, e2⟩ := hc; subst e1; subst e2
            simp only [and_self, if_true] at hcell
            have hne : ¬ (q = p' ∧ n' = n') := fun hh => g.ne_of_mem_uses hq hh.1
            refine Or.inl ?_
            rw [hoe2 q n' hne, ← hoe1 q n' hne]
            exact inheritFirst_none hcell q hq
          · simp only [hc, if_false] at hcell
            have h2 := h.cmp' hcell hq
            by_cases hc' : q = o ∧ n' = n
            · exact Or.inr hc'
            · exact Or.inl (by rw [hoe2 q n' hc']; exact h2)
      exact retract_inv g hw hop2
    · -- an inherited entry: the cell is looked up again in the used packages
      simp only [hop, if_false]
      let r := t.inheritFirst (uses p) n
      have hc2 : ∀ p' n', (t.setCell p n r).cell p' n' = if p' = p ∧ n' = n then r else t.cell p' n' :=
        fun p' n' => by simp only [setCell_cell]
      have hr : ∀ q, r = some q → q ∈ uses p ∧ t.ownExp q n = true := fun q hq => inheritFirst_some hq
      have hoe : ∀ q n', (t.setCell p n r).ownExp q n' = t.ownExp q n' := by
        intro q n'
        refine ownExp_congr ?_ (by rw [setCell_defs])
        rw [hc2]
        by_cases hc : q = p ∧ n' = n
        · obtain ⟨e1, e2⟩ := hc; subst e1; subst e2
          simp only [and_self, if_true, hcp]
          constructor
          · intro hq; exact absurd rfl (g.ne_of_mem_uses (hr q hq).1)
          · intro hq; exact absurd (Option.some.inj hq) hop
        · simp only [hc, if_false]
      refine ⟨?_, ?_, ?_⟩
      · intro q n'
        rw [hc2, setCell_defs]
        by_cases hc : q = p ∧ n' = n
        · obtain ⟨e1, e2⟩ := hc; subst e1; subst e2
          simp only [and_self, if_true]
          have hown := h.own q n'
          rw [hcp] at hown
          constructor
          · intro hq; exact absurd rfl (g.ne_of_mem_uses (hr q hq).1)
          · intro hq; exact absurd (Option.some.inj (hown.2 hq)) hop
        · simp only [hc, if_false]; exact h.own q n'
      · intro p' q n' hcell hq
        rw [hoe]
        rw [hc2] at hcell
        by_cases hc : p' = p ∧ n' = n
        · obtain ⟨e1, e2⟩ := hc; subst e1; subst e2
          simp only [and_self, if_true] at hcell
          exact ⟨(hr q hcell).1, Or.inl (hr q hcell).2⟩
        · simp only [hc, if_false] at hcell
          exact ⟨(h.snd' hcell hq).1, Or.inl (h.snd' hcell hq).2⟩
      · intro p' q n' hcell hq
        rw [hoe]
        rw [hc2] at hcell
        by_cases hc : p' = p ∧ n' = n
        · obtain ⟨e1, e2⟩ := hc; subst e1; subst e2
          simp only [and_self, if_true] at hcell
          exact Or.inl (inheritFirst_none hcell q hq)
        · simp only [hc, if_false] at hcell
          exact Or.inl (h.cmp' hcell hq)

theorem define_inv {uses users : Pk → List Pk} (g : GInv uses users) {t : Tab}
    (h : TInv uses t) (p : Pk) (n : Nm) (d : Def) : TInv uses (t.define uses users p n d) := by
  unfold define
  by_cases hc : t.cell p n = some p
  · rw [if_pos hc]
    have hiso : (some d).isSome = (t.defs p n).isSome := by
      rw [(h.own p n).1 hc]; rfl
    have hw := setDef_invW (d' := some d) h (p := p) (n := n) hiso
    have hoe : (t.setDef p n (some d)).ownExp p n = d.exp := by
      rw [Bool.eq_iff_iff, ownExp_iff, setDef_cell, setDef_defs]
      simp [hc]
    dsimp only
    by_cases he : d.exp = true
    · rw [if_pos he]; exact push_inv g hw (by rw [hoe]; exact he)
    · rw [if_neg he]; exact retract_inv g hw (by rw [hoe]; simpa using he)
  · rw [if_neg hc]; exact create_inv g h hc d

theorem useCopy_cell (t : Tab) (obj pkg p : Pk) (n : Nm) :
    (t.useCopy obj pkg).cell p n =
      if p = obj then
        (if t.cell obj n = some obj then some obj
         else if t.ownExp pkg n then some pkg
         else t.cell obj n)
      else t.cell p n := rfl
@[simp] theorem useCopy_defs (t : Tab) (obj pkg : Pk) : (t.useCopy obj pkg).defs = t.defs := rfl

theorem useCopy_own_iff (t : Tab) {obj pkg : Pk} (hne : obj ≠ pkg) (q : Pk) (n : Nm) :
    (t.useCopy obj pkg).cell q n = some q ↔ t.cell q n = some q := by
  rw [useCopy_cell]
  by_cases hq : q = obj
  · subst hq
    simp only [if_true]
    by_cases h1 : t.cell q n = some q
    · simp [h1]
    · by_cases h2 : t.ownExp pkg n = true
      · simp only [h1, h2, if_true, if_false]
        constructor
        · intro hh; exact absurd (Option.some.inj hh).symm hne
        · intro hh; exact hh.elim
      · simp [h1, h2]
  · simp [hq]

theorem useCopy_ownExp (t : Tab) {obj pkg : Pk} (hne : obj ≠ pkg) (q : Pk) (n : Nm) :
    (t.useCopy obj pkg).ownExp q n = t.ownExp q n :=
  ownExp_congr (useCopy_own_iff t hne q n) (by rw [useCopy_defs])

/-- `Use`: the tables satisfy the invariant for the extended use list -/
theorem useCopy_inv {uses : Pk → List Pk} {t : Tab} (h : TInv uses t) {obj pkg : Pk}
    (hne : obj ≠ pkg) :
    TInv (updList uses obj (uses obj ++ [pkg])) (t.useCopy obj pkg) := by
  have hu : ∀ p q, q ∈ updList uses obj (uses obj ++ [pkg]) p ↔
      (q ∈ uses p ∨ (p = obj ∧ q = pkg)) := by
    intro p q
    unfold updList
    by_cases hp : p = obj
    · subst hp; simp
    · simp [hp]
  refine ⟨?_, ?_, ?_⟩
  · intro q n
    rw [useCopy_own_iff t hne, useCopy_defs]; exact h.own q n
  · intro p q n hcell hq
    rw [useCopy_ownExp t hne, hu]
    rw [useCopy_cell] at hcell
    by_cases hp : p = obj
    · subst hp
      simp only [if_true] at hcell
      by_cases h1 : t.cell p n = some p
      · simp only [h1, if_true] at hcell
        exact absurd (Option.some.inj hcell).symm hq
      · by_cases h2 : t.ownExp pkg n = true
        · simp only [h1, h2, if_true, if_false] at hcell
          have := Option.some.inj hcell; subst this
          exact ⟨Or.inr ⟨rfl, rfl⟩, Or.inl h2⟩
        · simp only [h1, h2, if_false] at hcell
          exact ⟨Or.inl (h.snd' hcell hq).1, Or.inl (h.snd' hcell hq).2⟩
    · simp only [hp, if_false] at hcell
      exact ⟨Or.inl (h.snd' hcell hq).1, Or.inl (h.snd' hcell hq).2⟩
  · intro p q n hcell hq
    rw [useCopy_ownExp t hne]
    rw [hu] at hq
    rw [useCopy_cell] at hcell
    by_cases hp : p = obj
    · subst hp
      simp only [if_true] at hcell
      by_cases h1 : t.cell p n = some p
      · simp [h1] at hcell
      · by_cases h2 : t.ownExp pkg n = true
        · simp [h1, h2] at hcell
        · simp only [h1, h2, if_false] at hcell
          rcases hq with hq | ⟨_, e2⟩
          · exact Or.inl (h.cmp' hcell hq)
          · subst e2; exact Or.inl (by simpa using h2)
    · simp only [hp, if_false] at hcell
      rcases hq with hq | ⟨e1, _⟩
      · exact Or.inl (h.cmp' hcell hq)
      · exact absurd e1 hp

theorem rebuild_cell (t : Tab) (obj : Pk) (us : List Pk) (p : Pk) (n : Nm) :
    (t.rebuild obj us).cell p n =
      if p = obj then (if t.cell obj n = some obj then some obj else t.inheritLast us n)
      else t.cell p n := rfl
@[simp] theorem rebuild_defs (t : Tab) (obj : Pk) (us : List Pk) : (t.rebuild obj us).defs = t.defs := rfl

theorem rebuild_own_iff (t : Tab) {obj : Pk} {us : List Pk} (hus : obj ∉ us) (q : Pk) (n : Nm) :
    (t.rebuild obj us).cell q n = some q ↔ t.cell q n = some q := by
  rw [rebuild_cell]
  by_cases hq : q = obj
  · subst hq
    simp only [if_true]
    by_cases h1 : t.cell q n = some q
    · simp [h1]
    · simp only [h1, if_false]
      constructor
      · intro hh; exact absurd (inheritLast_some hh).1 hus
      · intro hh; exact hh.elim
  · simp [hq]

theorem rebuild_ownExp (t : Tab) {obj : Pk} {us : List Pk} (hus : obj ∉ us) (q : Pk) (n : Nm) :
    (t.rebuild obj us).ownExp q n = t.ownExp q n :=
  ownExp_congr (rebuild_own_iff t hus q n) (by rw [rebuild_defs])

/-- `Unuse`: after the rebuild the tables satisfy the invariant for the new use list, whatever
    `obj`'s table contained before (only its own entries are kept) -/
theorem rebuild_inv {uses : Pk → List Pk} {t : Tab} (h : TInv uses t) {obj : Pk} {us : List Pk}
    (hus : obj ∉ us) : TInv (updList uses obj us) (t.rebuild obj us) := by
  have hu : ∀ p q, q ∈ updList uses obj us p ↔ (if p = obj then q ∈ us else q ∈ uses p) := by
    intro p q
    unfold updList
    by_cases hp : p = obj <;> simp [hp]
  refine ⟨?_, ?_, ?_⟩
  · intro q n
    rw [rebuild_own_iff t hus, rebuild_defs]; exact h.own q n
  · intro p q n hcell hq
    rw [rebuild_ownExp t hus, hu]
    rw [rebuild_cell] at hcell
    by_cases hp : p = obj
    · subst hp
      simp only [if_true] at hcell ⊢
      by_cases h1 : t.cell p n = some p
      · simp only [h1, if_true] at hcell
        exact absurd (Option.some.inj hcell).symm hq
      · simp only [h1, if_false] at hcell
        exact ⟨(inheritLast_some hcell).1, Or.inl (inheritLast_some hcell).2⟩
    · simp only [hp, if_false] at hcell ⊢
      exact ⟨(h.snd' hcell hq).1, Or.inl (h.snd' hcell hq).2⟩
  · intro p q n hcell hq
    rw [rebuild_ownExp t hus]
    rw [hu] at hq
    rw [rebuild_cell] at hcell
    by_cases hp : p = obj
    · subst hp
      simp only [if_true] at hcell hq
      by_cases h1 : t.cell p n = some p
      · simp [h1] at hcell
      · simp only [h1, if_false] at hcell
        exact Or.inl (inheritLast_none hcell q hq)
    · simp only [hp, if_false] at hcell hq
      exact Or.inl (h.cmp' hcell hq)

end Tab

/-- every entry object of the table has a value (function tables: a body) -/
def Bodies (t : Tab) : Prop := ∀ p n d, t.defs p n = some d → d.val.isSome = true

namespace Tab

theorem entry_some {t : Tab} {p o : Pk} {n : Nm} {d : Def} (h : t.entry p n = some (o, d)) :
    t.cell p n = some o ∧ t.defs o n = some d := by
  unfold entry at h
  cases hc : t.cell p n with
  | none => simp [hc] at h
  | some o' =>
    cases hd : t.defs o' n with
    | none => simp [hc, hd] at h
    | some d' =>
      simp [hc, hd] at h
      obtain ⟨e1, e2⟩ := h
      subst e1; subst e2; exact ⟨rfl, hd⟩

theorem entry_of {t : Tab} {p o : Pk} {n : Nm} {d : Def} (hc : t.cell p n = some o)
    (hd : t.defs o n = some d) : t.entry p n = some (o, d) := by
  unfold entry; simp [hc, hd]

theorem entry_none_of_cell {t : Tab} {p : Pk} {n : Nm} (hc : t.cell p n = none) :
    t.entry p n = none := by
  unfold entry; simp [hc]

theorem setDef_bodies {t : Tab} (h : Bodies t) (p : Pk) (n : Nm) (d : Option Def)
    (hd : ∀ x, d = some x → x.val.isSome = true) : Bodies (t.setDef p n d) := by
  intro q m d' hq
  rw [setDef_defs] at hq
  by_cases hc : q = p ∧ m = n
  · rw [if_pos hc] at hq; exact hd d' hq
  · rw [if_neg hc] at hq; exact h q m d' hq

theorem exportOwn_bodies {t : Tab} (h : Bodies t) (users : Pk → List Pk) (p : Pk) (n : Nm) :
    Bodies (t.exportOwn users p n) := by
  unfold exportOwn
  cases hd : t.defs p n with
  | none => exact h
  | some d =>
    show Bodies ((t.setDef p n _).push users p n)
    intro q m d' hq
    rw [push_defs] at hq
    exact setDef_bodies h p n _ (by intro x hx; cases hx; exact h p n d hd) q m d' hq

theorem unexportOwn_bodies {t : Tab} (h : Bodies t) (uses users : Pk → List Pk) (p : Pk) (n : Nm) :
    Bodies (t.unexportOwn uses users p n) := by
  unfold unexportOwn
  cases hd : t.defs p n with
  | none => exact h
  | some d =>
    show Bodies ((t.setDef p n _).retract uses users p n)
    intro q m d' hq
    rw [retract_defs] at hq
    exact setDef_bodies h p n _ (by intro x hx; cases hx; exact h p n d hd) q m d' hq

theorem assign_bodies {t : Tab} (h : Bodies t) (p : Pk) (n : Nm) (b : Nat) :
    Bodies (t.assign p n (some b)) := by
  unfold assign
  cases he : t.entry p n with
  | none => exact h
  | some od =>
    obtain ⟨o, d⟩ := od
    exact setDef_bodies h o n _ (by intro x hx; cases hx; rfl)

theorem create_bodies {t : Tab} (h : Bodies t) (users : Pk → List Pk) (p : Pk) (n : Nm) (d : Def)
    (hd : d.val.isSome = true) : Bodies (t.create users p n d) := by
  have h1 : Bodies ((t.setDef p n (some d)).setCell p n (some p)) := by
    intro q m d' hq
    rw [setCell_defs] at hq
    exact setDef_bodies h p n _ (by intro x hx; cases hx; exact hd) q m d' hq
  show Bodies (if d.exp then _ else _)
  by_cases he : d.exp = true
  · rw [if_pos he]; intro q m d' hq; rw [push_defs] at hq; exact h1 q m d' hq
  · rw [if_neg he]; exact h1

theorem define_bodies {t : Tab} (h : Bodies t) (uses users : Pk → List Pk) (p : Pk) (n : Nm)
    (d : Def) (hd : d.val.isSome = true) : Bodies (t.define uses users p n d) := by
  unfold define
  split
  · have h1 : Bodies (t.setDef p n (some d)) :=
      setDef_bodies h p n _ (by intro x hx; cases hx; exact hd)
    dsimp only
    split
    · intro q m d' hq; rw [push_defs] at hq; exact h1 q m d' hq
    · intro q m d' hq; rw [retract_defs] at hq; exact h1 q m d' hq
  · exact create_bodies h users p n d hd

theorem remove_defs_sub (t : Tab) (uses users : Pk → List Pk) (p : Pk) (n : Nm) (q : Pk) (m : Nm)
    (d : Def) (h : (t.remove uses users p n).defs q m = some d) : t.defs q m = some d := by
  unfold remove at h
  cases hcp : t.cell p n with
  | none => simpa [hcp] using h
  | some o =>
    simp only [hcp] at h
    by_cases hop : o = p
    · simp only [hop, if_true, retract_defs, setCell_defs, setDef_defs] at h
      by_cases hc : q = p ∧ m = n
      · simp [hc] at h
      · simpa [hc] using h
    · simpa [hop] using h

theorem remove_bodies {t : Tab} (h : Bodies t) (uses users : Pk → List Pk) (p : Pk) (n : Nm) :
    Bodies (t.remove uses users p n) :=
  fun q m d hq => h q m d (remove_defs_sub t uses users p n q m d hq)

end Tab

namespace Tab

/-! frame lemmas: which entry objects can disappear -/

theorem setDef_some_keeps {t : Tab} {p : Pk} {n : Nm} {d : Def} {q : Pk} {m : Nm}
    (h : (t.defs q m).isSome = true) : ((t.setDef p n (some d)).defs q m).isSome = true := by
  rw [setDef_defs]
  by_cases hc : q = p ∧ m = n
  · rw [if_pos hc]; rfl
  · rw [if_neg hc]; exact h

theorem exportOwn_keeps {t : Tab} (users : Pk → List Pk) (p : Pk) (n : Nm) {q : Pk} {m : Nm}
    (h : (t.defs q m).isSome = true) : ((t.exportOwn users p n).defs q m).isSome = true := by
  unfold exportOwn
  cases hd : t.defs p n with
  | none => exact h
  | some d => dsimp only; rw [push_defs]; exact setDef_some_keeps h

theorem unexportOwn_keeps {t : Tab} (uses users : Pk → List Pk) (p : Pk) (n : Nm) {q : Pk} {m : Nm}
    (h : (t.defs q m).isSome = true) : ((t.unexportOwn uses users p n).defs q m).isSome = true := by
  unfold unexportOwn
  cases hd : t.defs p n with
  | none => exact h
  | some d => dsimp only; rw [retract_defs]; exact setDef_some_keeps h

theorem assign_keeps {t : Tab} (p : Pk) (n : Nm) (v : Option Nat) {q : Pk} {m : Nm}
    (h : (t.defs q m).isSome = true) : ((t.assign p n v).defs q m).isSome = true := by
  unfold assign
  cases he : t.entry p n with
  | none => exact h
  | some od => obtain ⟨o, d⟩ := od; exact setDef_some_keeps h

theorem create_keeps {t : Tab} (users : Pk → List Pk) (p : Pk) (n : Nm) (d : Def) {q : Pk} {m : Nm}
    (h : (t.defs q m).isSome = true) : ((t.create users p n d).defs q m).isSome = true := by
  unfold create
  dsimp only
  split
  · rw [push_defs, setCell_defs]; exact setDef_some_keeps h
  · rw [setCell_defs]; exact setDef_some_keeps h

theorem define_keeps {t : Tab} (uses users : Pk → List Pk) (p : Pk) (n : Nm) (d : Def) {q : Pk}
    {m : Nm} (h : (t.defs q m).isSome = true) :
    ((t.define uses users p n d).defs q m).isSome = true := by
  unfold define
  split
  · dsimp only
    split
    · rw [push_defs]; exact setDef_some_keeps h
    · rw [retract_defs]; exact setDef_some_keeps h
  · exact create_keeps users p n d h

/-- `remove p n` deletes at most the entry object (p, n) -/
theorem remove_keeps {t : Tab} (uses users : Pk → List Pk) (p : Pk) (n : Nm) {q : Pk} {m : Nm}
    (hne : ¬ (q = p ∧ m = n)) (h : (t.defs q m).isSome = true) :
    ((t.remove uses users p n).defs q m).isSome = true := by
  unfold remove
  cases hcp : t.cell p n with
  | none => exact h
  | some o =>
    dsimp only
    by_cases hop : o = p
    · rw [if_pos hop, retract_defs, setCell_defs, setCell_defs, setDef_defs, if_neg hne]; exact h
    · rw [if_neg hop, setCell_defs]; exact h

end Tab

/-- under the invariant "owns an exported n" can be read off the entry objects alone -/
theorem TInv.ownExp_eq {uses : Pk → List Pk} {t : Tab} (h : TInv uses t) (q : Pk) (n : Nm) :
    t.ownExp q n = isExp t.defs n q := by
  unfold isExp
  rw [Bool.eq_iff_iff, Tab.ownExp_iff, h.own q n]
  cases hd : t.defs q n with
  | none => simp
  | some d => simp

/-- a list with at most one element that contains q is [q] -/
theorem eq_singleton_of_mem_of_length_le_one {α : Type} {l : List α} {q : α} (hq : q ∈ l)
    (hl : l.length ≤ 1) : l = [q] := by
  match l, hq, hl with
  | [a], hq, _ => simp at hq; rw [hq]
  | _ :: _ :: _, _, hl => simp at hl

/-- the entry a table cell dereferences to is what `resolve` computes from the graph, whenever
    the graph leaves no choice (own definition, or at most one used package exports the name) -/
theorem TInv.entry_eq_resolve {uses : Pk → List Pk} {t : Tab} (h : TInv uses t) (p : Pk) (n : Nm)
    (hun : (t.defs p n).isSome = true ∨ (candidates t.defs uses p n).length ≤ 1) :
    t.entry p n = resolve t.defs uses p n := by
  unfold resolve
  cases hd : t.defs p n with
  | some d =>
    have hc : t.cell p n = some p := (h.own p n).2 (by rw [hd]; rfl)
    exact Tab.entry_of hc hd
  | none =>
    have hl : (candidates t.defs uses p n).length ≤ 1 := by
      rcases hun with hun | hun
      · rw [hd] at hun; simp at hun
      · exact hun
    dsimp only
    cases hc : t.cell p n with
    | none =>
      rw [Tab.entry_none_of_cell hc]
      have : (uses p).find? (isExp t.defs n) = none := by
        rw [List.find?_eq_none]
        intro q hq
        have := h.cmp' hc hq
        rw [h.ownExp_eq] at this
        simp [this]
      rw [this]
    | some q =>
      have hqp : q ≠ p := by
        intro e; subst e
        have := (h.own q n).1 hc
        rw [hd] at this; simp at this
      obtain ⟨hmem, hoe⟩ := h.snd' hc hqp
      obtain ⟨_, d, hdq, hexp⟩ := (Tab.ownExp_iff t q n).1 hoe
      rw [Tab.entry_of hc hdq]
      have hcand : q ∈ candidates t.defs uses p n := by
        unfold candidates
        rw [List.mem_filter]
        exact ⟨hmem, by simp [isExp, hdq, hexp]⟩
      have hsing := eq_singleton_of_mem_of_length_le_one hcand hl
      have hfind : (uses p).find? (isExp t.defs n) = some q := by
        rw [← List.head?_filter]
        unfold candidates at hsing
        rw [hsing]; rfl
      rw [hfind]
      simp [hdq]

/-- soundness for any graph (also with name conflicts): what a table shows is the own definition,
    or — when there is none — an exported definition of a directly used package -/
theorem TInv.entry_sound {uses : Pk → List Pk} {t : Tab} (h : TInv uses t) {p o : Pk} {n : Nm}
    {d : Def} (he : t.entry p n = some (o, d)) :
    (o = p ∧ t.defs p n = some d) ∨
    (t.defs p n = none ∧ o ∈ candidates t.defs uses p n ∧ t.defs o n = some d ∧ d.exp = true) := by
  obtain ⟨hc, hdo⟩ := Tab.entry_some he
  by_cases hop : o = p
  · subst hop; exact Or.inl ⟨rfl, hdo⟩
  · right
    obtain ⟨hmem, hoe⟩ := h.snd' hc hop
    obtain ⟨_, d', hdq, hexp⟩ := (Tab.ownExp_iff t o n).1 hoe
    rw [hdo] at hdq; cases hdq
    refine ⟨?_, ?_, hdo, hexp⟩
    · cases hd : t.defs p n with
      | none => rfl
      | some d'' =>
        have := (h.own p n).2 (by rw [hd]; rfl)
        rw [hc] at this
        exact absurd (Option.some.inj this) hop
    · unfold candidates
      rw [List.mem_filter]
      exact ⟨hmem, by simp [isExp, hdo, hexp]⟩

/-- completeness for any graph: a name a table does not show has no own definition and is not
    exported by any directly used package -/
theorem TInv.entry_complete {uses : Pk → List Pk} {t : Tab} (h : TInv uses t) {p : Pk} {n : Nm}
    (he : t.entry p n = none) :
    t.defs p n = none ∧ candidates t.defs uses p n = [] := by
  have hcell : t.cell p n = none := by
    cases hc : t.cell p n with
    | none => rfl
    | some o =>
      exfalso
      by_cases hop : o = p
      · subst hop
        have := (h.own o n).1 hc
        cases hd : t.defs o n with
        | none => rw [hd] at this; simp at this
        | some d => rw [Tab.entry_of hc hd] at he; simp at he
      · obtain ⟨_, hoe⟩ := h.snd' hc hop
        obtain ⟨_, d, hdq, _⟩ := (Tab.ownExp_iff t o n).1 hoe
        rw [Tab.entry_of hc hdq] at he; simp at he
  constructor
  · cases hd : t.defs p n with
    | none => rfl
    | some d =>
      have := (h.own p n).2 (by rw [hd]; rfl)
      rw [hcell] at this; simp at this
  · unfold candidates
    rw [List.filter_eq_nil_iff]
    intro q hq
    have := h.cmp' hcell hq
    rw [h.ownExp_eq] at this
    simp [this]

theorem Tab.unexportOwn_ownExp_false (t : Tab) (uses users : Pk → List Pk) (p : Pk) (n : Nm) :
    (t.unexportOwn uses users p n).ownExp p n = false := by
  cases hx : (t.unexportOwn uses users p n).ownExp p n with
  | false => rfl
  | true =>
    exfalso
    rw [Tab.ownExp_iff] at hx
    obtain ⟨_, d', h1, h2⟩ := hx
    unfold Tab.unexportOwn at h1
    cases hd : t.defs p n with
    | none => simp [hd] at h1
    | some d =>
      simp only [hd, Tab.retract_defs, Tab.setDef_defs, and_self, if_true] at h1
      cases h1
      simp at h2

theorem Tab.remove_own_defs_none {t : Tab} (uses users : Pk → List Pk) {p : Pk} {n : Nm}
    (h : t.cell p n = some p) : (t.remove uses users p n).defs p n = none := by
  unfold Tab.remove
  simp only [h, if_true, Tab.retract_defs, Tab.setCell_defs, Tab.setDef_defs, and_self]

/-- no table points to an entry object that does not exist -/
theorem TInv.no_dangling {uses : Pk → List Pk} {t : Tab} (h : TInv uses t) {q : Pk} {n : Nm}
    (hd : t.defs q n = none) (p : Pk) : t.cell p n ≠ some q := by
  intro hc
  by_cases hqp : q = p
  · subst hqp
    have := (h.own q n).1 hc
    rw [hd] at this; simp at this
  · obtain ⟨_, d, h1, _⟩ := (Tab.ownExp_iff t q n).1 (h.snd' hc hqp).2
    rw [hd] at h1; simp at h1

theorem use_defs (s : State) (obj pkg : Pk) :
    (use s obj pkg).v.defs = s.v.defs ∧ (use s obj pkg).f.defs = s.f.defs := by
  unfold use; split <;> exact ⟨rfl, rfl⟩

theorem unuse_defs (s : State) (obj pkg : Pk) :
    (unuse s obj pkg).v.defs = s.v.defs ∧ (unuse s obj pkg).f.defs = s.f.defs := by
  unfold unuse; split <;> exact ⟨rfl, rfl⟩

theorem export_keeps (s : State) (q : Pk) (m : Nm) {p : Pk} {n : Nm} :
    ((s.v.defs p n).isSome = true → ((«export» s q m).v.defs p n).isSome = true) ∧
    ((s.f.defs p n).isSome = true → ((«export» s q m).f.defs p n).isSome = true) := by
  unfold «export»
  constructor
  · intro hd
    dsimp only
    split
    · split
      · exact Tab.exportOwn_keeps _ _ _ hd
      · exact hd
    · exact Tab.create_keeps _ _ _ _ hd
  · intro hd
    dsimp only
    split
    · exact Tab.exportOwn_keeps _ _ _ hd
    · exact hd

theorem setqIn_keeps (s : State) (q : Pk) (m : Nm) (v : Option Nat) {p : Pk} {n : Nm} :
    ((s.v.defs p n).isSome = true → ((setqIn s q m v).v.defs p n).isSome = true) ∧
    (setqIn s q m v).f.defs = s.f.defs := by
  unfold setqIn
  split
  · exact ⟨fun hd => Tab.assign_keeps q m v hd, rfl⟩
  · exact ⟨fun hd => Tab.create_keeps s.users q m { exp := false, val := v } hd, rfl⟩

theorem setq_keeps (s : State) (m : Nm) (v : Option Nat) {p : Pk} {n : Nm} :
    ((s.v.defs p n).isSome = true → ((setq s m v).v.defs p n).isSome = true) ∧
    (setq s m v).f.defs = s.f.defs := setqIn_keeps s s.cur m v

theorem defpackage_keeps (s : State) (q : Pk) (us : List Pk) (ex : List Nm) {p : Pk} {n : Nm} :
    ((s.v.defs p n).isSome = true → ((defpackage s q us ex).v.defs p n).isSome = true) ∧
    ((s.f.defs p n).isSome = true → ((defpackage s q us ex).f.defs p n).isSome = true) := by
  unfold defpackage
  have h1 : ∀ (l : List Pk) (s : State),
      (l.foldl (fun s r => use s q r) s).v.defs = s.v.defs ∧
      (l.foldl (fun s r => use s q r) s).f.defs = s.f.defs := by
    intro l
    induction l with
    | nil => intro s; exact ⟨rfl, rfl⟩
    | cons a l ih =>
      intro s
      rw [List.foldl_cons, (ih _).1, (ih _).2]
      exact use_defs s q a
  have h2 : ∀ (l : List Nm) (s : State),
      ((s.v.defs p n).isSome = true → ((l.foldl (fun s m => «export» s q m) s).v.defs p n).isSome = true) ∧
      ((s.f.defs p n).isSome = true → ((l.foldl (fun s m => «export» s q m) s).f.defs p n).isSome = true) := by
    intro l
    induction l with
    | nil => intro s; exact ⟨id, id⟩
    | cons a l ih =>
      intro s
      rw [List.foldl_cons]
      exact ⟨fun hd => (ih _).1 ((export_keeps s q a).1 hd), fun hd => (ih _).2 ((export_keeps s q a).2 hd)⟩
  constructor
  · intro hd; exact (h2 ex _).1 (by rw [(h1 us s).1]; exact hd)
  · intro hd; exact (h2 ex _).2 (by rw [(h1 us s).2]; exact hd)

theorem updList_mem (g : Pk → List Pk) (p : Pk) (l : List Pk) (p' q : Pk) :
    q ∈ updList g p l p' ↔ (if p' = p then q ∈ l else q ∈ g p') := by
  unfold updList
  by_cases h : p' = p <;> simp [h]

theorem GInv.use {uses users : Pk → List Pk} (g : GInv uses users) {obj pkg : Pk}
    (hne : obj ≠ pkg) (hnot : pkg ∉ uses obj) :
    GInv (updList uses obj (uses obj ++ [pkg])) (updList users pkg (users pkg ++ [obj])) := by
  have hnot' : obj ∉ users pkg := fun hh => hnot ((g.sym obj pkg).2 hh)
  refine ⟨?_, ?_, ?_, ?_⟩
  · intro p q
    rw [updList_mem, updList_mem]
    by_cases hp : p = obj <;> by_cases hq : q = pkg
    · subst hp; subst hq; simp
    · subst hp; simp [hq]; exact g.sym p q
    · subst hq; simp [hp]; exact g.sym p q
    · simp [hp, hq]; exact g.sym p q
  · intro p
    rw [updList_mem]
    by_cases hp : p = obj
    · subst hp
      simp only [if_true, List.mem_append, List.mem_singleton, not_or]
      exact ⟨g.irr p, hne⟩
    · simp only [hp, if_false]; exact g.irr p
  · intro p
    unfold updList
    by_cases hp : p = obj
    · subst hp
      simp only [if_true]
      exact List.Nodup.append (g.nodupUses p) (List.nodup_singleton _)
        (by intro a ha hb; rw [List.mem_singleton] at hb; subst hb; exact hnot ha)
    · simp only [hp, if_false]; exact g.nodupUses p
  · intro p
    unfold updList
    by_cases hp : p = pkg
    · subst hp
      simp only [if_true]
      exact List.Nodup.append (g.nodupUsers p) (List.nodup_singleton _)
        (by intro a ha hb; rw [List.mem_singleton] at hb; subst hb; exact hnot' ha)
    · simp only [hp, if_false]; exact g.nodupUsers p

theorem GInv.unuse {uses users : Pk → List Pk} (g : GInv uses users) {obj pkg : Pk}
    (hne : obj ≠ pkg) :
    GInv (updList uses obj ((uses obj).erase pkg)) (updList users pkg ((users pkg).erase obj)) := by
  refine ⟨?_, ?_, ?_, ?_⟩
  · intro p q
    rw [updList_mem, updList_mem]
    by_cases hp : p = obj <;> by_cases hq : q = pkg
    · subst hp; subst hq
      simp only [if_true, (g.nodupUses p).mem_erase_iff, (g.nodupUsers q).mem_erase_iff]
      simp
    · subst hp
      simp only [if_true, hq, if_false, (g.nodupUses p).mem_erase_iff]
      simp [hq]; exact g.sym p q
    · subst hq
      simp only [if_true, hp, if_false, (g.nodupUsers q).mem_erase_iff]
      simp [hp]; exact g.sym p q
    · simp only [hp, hq, if_false]; exact g.sym p q
  · intro p
    rw [updList_mem]
    by_cases hp : p = obj
    · subst hp
      simp only [if_true]
      intro hh; exact g.irr p (List.mem_of_mem_erase hh)
    · simp only [hp, if_false]; exact g.irr p
  · intro p
    unfold updList
    by_cases hp : p = obj
    · subst hp; simp only [if_true]; exact (g.nodupUses p).erase _
    · simp only [hp, if_false]; exact g.nodupUses p
  · intro p
    unfold updList
    by_cases hp : p = pkg
    · subst hp; simp only [if_true]; exact (g.nodupUsers p).erase _
    · simp only [hp, if_false]; exact g.nodupUsers p

end SlipVerif.Pkg
