import SlipVerif.Model.HashTable
/- helper lemmas for Theorems/C16: the association-list table refines the finite-map semantics -/
namespace SlipVerif.HashTable

variable {K V : Type} (eqv : K → K → Bool)

/-- the test is symmetric and transitive (reflexivity is only needed to find a key by itself) -/
structure IsPER : Prop where
  symm : ∀ a b, eqv a b = true → eqv b a = true
  trans : ∀ a b c, eqv a b = true → eqv b c = true → eqv a c = true

/-- table invariant: no two stored keys are equivalent -/
def Inv (t : Table K V) : Prop := t.Pairwise (fun a b => eqv a.1 b.1 = false)

variable {eqv}

theorem get_none_of_fresh (t : Table K V) (k : K) (h : ∀ e ∈ t, eqv e.1 k = false) : get eqv t k = none := by
  induction t with
  | nil => rfl
  | cons e t ih =>
    obtain ⟨k', v'⟩ := e
    have h1 : eqv k' k = false := h (k', v') (by simp)
    simp only [get, h1]
    exact ih (fun e he => h e (by simp [he]))

theorem get_isSome_iff (t : Table K V) (k : K) : (get eqv t k).isSome = true ↔ ∃ e ∈ t, eqv e.1 k = true := by
  induction t with
  | nil => simp [get]
  | cons e t ih =>
    obtain ⟨k', v'⟩ := e
    rcases Bool.eq_false_or_eq_true (eqv k' k) with h | h
    · simp [get, h]
    · simp [get, h, ih]

theorem put_keys (t : Table K V) (k : K) (v : V) : ∀ e ∈ put eqv t k v, e.1 = k ∨ ∃ e' ∈ t, e'.1 = e.1 := by
  induction t with
  | nil => intro e he; simp [put] at he; left; rw [he]
  | cons e0 t ih =>
    obtain ⟨k', v'⟩ := e0
    intro e he
    rcases Bool.eq_false_or_eq_true (eqv k' k) with h | h
    · simp only [put, h, ↓reduceIte, List.mem_cons] at he
      rcases he with he | he
      · right; exact ⟨(k', v'), by simp, by rw [he]⟩
      · right; exact ⟨e, by simp [he], rfl⟩
    · simp only [put, h, Bool.false_eq_true, ↓reduceIte, List.mem_cons] at he
      rcases he with he | he
      · right; exact ⟨(k', v'), by simp, by rw [he]⟩
      · rcases ih e he with h1 | ⟨e', he', h2⟩
        · left; exact h1
        · right; exact ⟨e', by simp [he'], h2⟩

theorem inv_put (t : Table K V) (k : K) (v : V) (hi : Inv eqv t) : Inv eqv (put eqv t k v) := by
  induction t with
  | nil => simp [put, Inv]
  | cons e0 t ih =>
    obtain ⟨k', v'⟩ := e0
    unfold Inv at hi
    rw [List.pairwise_cons] at hi
    rcases Bool.eq_false_or_eq_true (eqv k' k) with h | h
    · simp only [put, h, ↓reduceIte]
      unfold Inv
      rw [List.pairwise_cons]
      exact ⟨hi.1, hi.2⟩
    · simp only [put, h, Bool.false_eq_true, ↓reduceIte]
      unfold Inv
      rw [List.pairwise_cons]
      refine ⟨?_, ih hi.2⟩
      intro e he
      rcases put_keys t k v e he with h1 | ⟨e', he', h2⟩
      · rw [h1]; exact h
      · have := hi.1 e' he'
        rw [← h2]; exact this

theorem rem_sublist (t : Table K V) (k : K) : (rem eqv t k).Sublist t := by
  induction t with
  | nil => simp [rem]
  | cons e0 t ih =>
    obtain ⟨k', v'⟩ := e0
    rcases Bool.eq_false_or_eq_true (eqv k' k) with h | h
    · simp only [rem, h, ↓reduceIte]; exact List.sublist_cons_self _ _
    · simp only [rem, h, Bool.false_eq_true, ↓reduceIte]; exact List.Sublist.cons_cons _ ih

theorem inv_rem (t : Table K V) (k : K) (hi : Inv eqv t) : Inv eqv (rem eqv t k) :=
  List.Pairwise.sublist (rem_sublist t k) hi

theorem get_put (per : IsPER eqv) (t : Table K V) (k : K) (v : V) (k2 : K) :
    get eqv (put eqv t k v) k2 = if eqv k k2 then some v else get eqv t k2 := by
  induction t with
  | nil => simp [put, get]
  | cons e0 t ih =>
    obtain ⟨k', v'⟩ := e0
    rcases Bool.eq_false_or_eq_true (eqv k' k) with h | h
    · simp only [put, h, ↓reduceIte, get]
      rcases Bool.eq_false_or_eq_true (eqv k k2) with h2 | h2
      · have h3 : eqv k' k2 = true := per.trans _ _ _ h h2
        simp [h2, h3]
      · have h3 : eqv k' k2 = false := by
          cases h4 : eqv k' k2
          · rfl
          · exact absurd (per.trans _ _ _ (per.symm _ _ h) h4) (by simp [h2])
        simp [h2, h3]
    · simp only [put, h, Bool.false_eq_true, ↓reduceIte, get, ih]
      rcases Bool.eq_false_or_eq_true (eqv k' k2) with h3 | h3
      · have h2 : eqv k k2 = false := by
          cases h4 : eqv k k2
          · rfl
          · exact absurd (per.trans _ _ _ h3 (per.symm _ _ h4)) (by simp [h])
        simp [h2, h3]
      · simp [h3]

theorem get_rem (per : IsPER eqv) (t : Table K V) (k : K) (k2 : K) (hi : Inv eqv t) :
    get eqv (rem eqv t k) k2 = if eqv k k2 then none else get eqv t k2 := by
  induction t with
  | nil => simp [rem, get]
  | cons e0 t ih =>
    obtain ⟨k', v'⟩ := e0
    unfold Inv at hi
    rw [List.pairwise_cons] at hi
    rcases Bool.eq_false_or_eq_true (eqv k' k) with h | h
    · simp only [rem, h, ↓reduceIte, get]
      rcases Bool.eq_false_or_eq_true (eqv k k2) with h2 | h2
      · simp only [h2, ↓reduceIte]
        apply get_none_of_fresh
        intro e he
        cases h4 : eqv e.1 k2
        · rfl
        · have h5 : eqv k' e.1 = true :=
            per.trans _ _ _ (per.trans _ _ _ h h2) (per.symm _ _ h4)
          have := hi.1 e he
          rw [h5] at this; exact absurd this (by simp)
      · have h3 : eqv k' k2 = false := by
          cases h4 : eqv k' k2
          · rfl
          · exact absurd (per.trans _ _ _ (per.symm _ _ h) h4) (by simp [h2])
        simp [h2, h3]
    · simp only [rem, h, Bool.false_eq_true, ↓reduceIte, get, ih hi.2]
      rcases Bool.eq_false_or_eq_true (eqv k' k2) with h3 | h3
      · have h2 : eqv k k2 = false := by
          cases h4 : eqv k k2
          · rfl
          · exact absurd (per.trans _ _ _ h3 (per.symm _ _ h4)) (by simp [h])
        simp [h2, h3]
      · simp [h3]

theorem inv_run (h : List (Op K V)) : Inv eqv (run eqv h) := by
  induction h with
  | nil => simp [run, Inv]
  | cons op h ih =>
    cases op with
    | put k v => exact inv_put _ k v ih
    | rem k => exact inv_rem _ k ih
    | clr => simp [run, step, clr, Inv]

end SlipVerif.HashTable
