import SlipVerif.Lemmas.Flavors
/-
  C11, extension round: sends with an argument, whopper bodies that continue zero, one or several
  times (`callFromA`, `resFromA`), against the specification `wrapA` / `wrapRes` over the list of
  whoppers in precedence order. Core Lean only.
-/
namespace SlipVerif.Flavors

theorem callFromA_spec (wb : WhopBody) (all rest : List Combo) :
    ∀ a, callFromA wb all rest a = wrapA wb (innerCallA all) (rest.filterMap (·.whopper)) a := by
  induction rest with
  | nil => intro a; simp [callFromA, wrapA]
  | cons c rest ih =>
    intro a
    cases hw : c.whopper with
    | none => simp [callFromA, hw, ih]
    | some w =>
      have hf : (fun d => callFromA wb all rest (a + d))
          = (fun d => wrapA wb (innerCallA all) (rest.filterMap (·.whopper)) (a + d)) := by
        funext d; exact ih (a + d)
      simp only [callFromA, hw, List.filterMap_cons, wrapA, hf]

theorem resFromA_spec (wb : WhopBody) (all rest : List Combo) :
    ∀ a, resFromA wb all rest a = wrapRes wb (innerResA all) (rest.filterMap (·.whopper)) a := by
  induction rest with
  | nil => intro a; simp [resFromA, wrapRes]
  | cons c rest ih =>
    intro a
    cases hw : c.whopper with
    | none => simp [resFromA, hw, ih]
    | some w =>
      simp only [resFromA, hw, List.filterMap_cons, wrapRes]
      cases (wb w).getLast? with
      | none => rfl
      | some d => exact ih (a + d)

theorem innerCallA_spec (vm : List Msg) (h : List Form) (fl : Name) (m : Msg) :
    innerCallA (specCombosR vm h fl m) = specInnerAR vm h fl m := by
  funext a
  unfold innerCallA specInnerAR
  have hb := specCombosR_get vm h fl m .before
  have hp := specCombosR_get vm h fl m .primary
  have ha := specCombosR_get vm h fl m .after
  simp only [Combo.get] at hb hp ha
  rw [hb, hp, ha]

theorem innerResA_spec (vm : List Msg) (h : List Form) (fl : Name) (m : Msg) :
    innerResA (specCombosR vm h fl m) = specInnerResR vm h fl m := by
  funext a
  unfold innerResA specInnerResR
  have hp := specCombosR_get vm h fl m .primary
  simp only [Combo.get] at hp
  rw [hp]

theorem sendTraceA_spec (wb : WhopBody) (vm : List Msg) (h : List Form) (fl : Name) (m : Msg) (a : Int) :
    callFromA wb (specCombosR vm h fl m) (specCombosR vm h fl m) a = specTraceAR wb vm h fl m a := by
  rw [callFromA_spec, innerCallA_spec]
  have hw := specCombosR_get vm h fl m .whopper
  simp only [Combo.get] at hw
  rw [hw]
  rfl

theorem sendResA_spec (wb : WhopBody) (vm : List Msg) (h : List Form) (fl : Name) (m : Msg) (a : Int) :
    resFromA wb (specCombosR vm h fl m) (specCombosR vm h fl m) a = specResAR wb vm h fl m a := by
  rw [resFromA_spec, innerResA_spec]
  have hw := specCombosR_get vm h fl m .whopper
  simp only [Combo.get] at hw
  rw [hw]
  rfl

/-! every whopper body continuing exactly once with its own argument: the flat trace -/

def once : WhopBody := fun _ => [0]

theorem innerCallA_erase (cs : List Combo) (a : Int) :
    (innerCallA cs a).map EvA.erase = innerCall cs := by
  unfold innerCallA innerCall
  cases (List.filterMap (fun x => x.primary) cs).head? <;>
    simp [List.map_append, List.map_map, Function.comp_def, EvA.erase]

theorem callFromA_once (all rest : List Combo) :
    ∀ a, (callFromA once all rest a).map EvA.erase = callFrom all rest := by
  induction rest with
  | nil => intro a; simp [callFromA, callFrom, innerCallA_erase]
  | cons c rest ih =>
    intro a
    cases hw : c.whopper with
    | none => simp [callFromA, callFrom, hw, ih]
    | some w => simp [callFromA, callFrom, hw, once, ih, EvA.erase]

/-- the flat shape of `wrapA` when every body continues exactly once with its own argument -/
theorem wrapA_once (inner : Int → List EvA) (ws : List Mid) :
    ∀ a, wrapA once inner ws a
      = ws.map (EvA.whopIn · a) ++ inner a ++ ws.reverse.map (EvA.whopOut · a) := by
  induction ws with
  | nil => intro a; simp [wrapA]
  | cons w ws ih =>
    intro a
    simp [wrapA, once, ih]

/-- a whopper that never continues hides everything behind it -/
theorem wrapA_stop (wb : WhopBody) (inner : Int → List EvA) (w : Mid) (ws : List Mid) (a : Int)
    (h0 : wb w = []) : wrapA wb inner (w :: ws) a = [EvA.whopIn w a, EvA.whopOut w a] := by
  simp [wrapA, h0]

/-- a whopper that continues twice runs the rest twice, between its own entry and exit -/
theorem wrapA_twice (wb : WhopBody) (inner : Int → List EvA) (w : Mid) (ws : List Mid) (a d1 d2 : Int)
    (h2 : wb w = [d1, d2]) :
    wrapA wb inner (w :: ws) a
      = EvA.whopIn w a :: (wrapA wb inner ws (a + d1) ++ wrapA wb inner ws (a + d2) ++ [EvA.whopOut w a]) := by
  simp [wrapA, h2]

end SlipVerif.Flavors
