import SlipVerif.Model.FormatNum
/-! Helper lemmas for C15: digits, the independent digit reader, comma grouping. -/
namespace SlipVerif.Format

/-! ## digitsLE -/

theorem digitsLE_step (b n : Nat) (h : 2 ≤ b ∧ b ≤ n) : digitsLE b n = n % b :: digitsLE b (n / b) := by
  rw [digitsLE]; simp [h]

theorem digitsLE_small (b n : Nat) (h : ¬ (2 ≤ b ∧ b ≤ n)) : digitsLE b n = [n] := by
  rw [digitsLE]; simp [h]

theorem digitsLE_ne_nil (b n : Nat) : digitsLE b n ≠ [] := by
  by_cases h : 2 ≤ b ∧ b ≤ n
  · rw [digitsLE_step b n h]; simp
  · rw [digitsLE_small b n h]; simp

/-- value of little-endian digits -/
def ofDigitsLE (b : Nat) : List Nat → Nat
  | [] => 0
  | d :: ds => d + b * ofDigitsLE b ds

theorem ofDigitsLE_digitsLE (b : Nat) (n : Nat) : ofDigitsLE b (digitsLE b n) = n := by
  induction n using Nat.strongRecOn with
  | _ n ih =>
    by_cases h : 2 ≤ b ∧ b ≤ n
    · rw [digitsLE_step b n h]
      have hlt : n / b < n := Nat.div_lt_self (by omega) (by omega)
      simp only [ofDigitsLE, ih (n / b) hlt]
      exact Nat.mod_add_div n b
    · rw [digitsLE_small b n h]; simp [ofDigitsLE]

theorem digitsLE_lt (b : Nat) (hb : 2 ≤ b) (n : Nat) : ∀ d ∈ digitsLE b n, d < b := by
  induction n using Nat.strongRecOn with
  | _ n ih =>
    by_cases h : 2 ≤ b ∧ b ≤ n
    · rw [digitsLE_step b n h]
      have hlt : n / b < n := Nat.div_lt_self (by omega) (by omega)
      intro d hd
      rcases List.mem_cons.mp hd with rfl | hd
      · exact Nat.mod_lt _ (by omega)
      · exact ih (n / b) hlt d hd
    · rw [digitsLE_small b n h]
      intro d hd
      have : d = n := by simpa using hd
      omega

/-! ## digit characters and the reader -/

theorem digitVal_digitChar (d : Nat) (h : d < 36) : digitVal? (digitChar d) = some d := by
  unfold digitChar digitVal?
  by_cases h10 : d < 10
  · have h1 : 48 ≤ 48 + d ∧ 48 + d ≤ 57 := by omega
    simp [h10, h1]
  · have h1 : ¬ (48 ≤ 87 + d ∧ 87 + d ≤ 57) := by omega
    have h2 : 97 ≤ 87 + d ∧ 87 + d ≤ 122 := by omega
    simp [h10, h1, h2]

theorem parseDigitsFrom_append (b : Nat) (xs ys : Txt) (acc : Nat) :
    parseDigitsFrom b acc (xs ++ ys) = (parseDigitsFrom b acc xs).bind (fun a => parseDigitsFrom b a ys) := by
  induction xs generalizing acc with
  | nil => simp [parseDigitsFrom]
  | cons c cs ih =>
    simp only [List.cons_append, parseDigitsFrom]
    cases digitVal? c with
    | none => simp
    | some d =>
      by_cases hd : d < b
      · simp [hd, ih]
      · simp [hd]

/-- reading the characters of little-endian digits `ds` (most significant first) continues the
    Horner accumulation -/
theorem parseDigitsFrom_digits (b : Nat) (hb : b ≤ 36) (ds : List Nat) (hds : ∀ d ∈ ds, d < b) (acc : Nat) :
    parseDigitsFrom b acc ((ds.map digitChar).reverse) = some (acc * b ^ ds.length + ofDigitsLE b ds) := by
  induction ds generalizing acc with
  | nil => simp [parseDigitsFrom, ofDigitsLE]
  | cons d ds ih =>
    have hd : d < b := hds d (by simp)
    have hrest : ∀ x ∈ ds, x < b := fun x hx => hds x (by simp [hx])
    simp only [List.map_cons, List.reverse_cons, parseDigitsFrom_append, ih hrest acc, Option.bind_some,
      parseDigitsFrom, digitVal_digitChar d (by omega), hd, if_true, List.length_cons, ofDigitsLE]
    congr 1
    rw [Nat.pow_succ, Nat.add_mul, Nat.mul_assoc, Nat.mul_comm (ofDigitsLE b ds) b]
    omega

theorem parseDigits_digits (b : Nat) (hb : 2 ≤ b ∧ b ≤ 36) (n : Nat) :
    parseDigits b (((digitsLE b n).map digitChar).reverse) = some n := by
  unfold parseDigits
  have hne : ((digitsLE b n).map digitChar).reverse ≠ [] := by
    simp [digitsLE_ne_nil]
  simp only [hne, if_false]
  rw [parseDigitsFrom_digits b hb.2 _ (digitsLE_lt b hb.1 n) 0, ofDigitsLE_digitsLE]
  simp

/-! ## grouping -/

theorem groupLE_filter (comma k : Nat) (cs : Txt) (i : Nat) (h : ∀ c ∈ cs, c ≠ comma) :
    (groupLE comma k i cs).filter (fun c => c != comma) = cs := by
  induction cs generalizing i with
  | nil => simp [groupLE]
  | cons c cs ih =>
    have hc : (c != comma) = true := by simpa using h c (by simp)
    have hrest : ∀ x ∈ cs, x ≠ comma := fun x hx => h x (by simp [hx])
    simp only [groupLE]
    split
    · simp only [List.filter_cons, hc, if_true, bne_self_eq_false, Bool.false_eq_true, if_false, ih 1 hrest]
    · simp only [List.filter_cons, hc, if_true, ih (i + 1) hrest]

theorem groupLE_ne_nil (comma k : Nat) (cs : Txt) (i : Nat) (hne : cs ≠ []) : groupLE comma k i cs ≠ [] := by
  cases cs with
  | nil => exact absurd rfl hne
  | cons c cs => simp only [groupLE]; split <;> simp

theorem getLast?_cons_of_ne_nil {α : Type} (a : α) (l : List α) (h : l ≠ []) : (a :: l).getLast? = l.getLast? := by
  cases l with
  | nil => exact absurd rfl h
  | cons b l => exact List.getLast?_cons_cons

/-- the most significant character is never a comma: commas are only put before a digit -/
theorem groupLE_getLast (comma k : Nat) (cs : Txt) (i : Nat) (hne : cs ≠ []) :
    (groupLE comma k i cs).getLast? = cs.getLast? := by
  induction cs generalizing i with
  | nil => exact absurd rfl hne
  | cons c cs ih =>
    cases hcs : cs with
    | nil =>
      simp only [groupLE]
      split <;> simp
    | cons c2 cs2 =>
      have hne2 : cs ≠ [] := by simp [hcs]
      rw [← hcs]
      simp only [groupLE]
      split
      · rw [getLast?_cons_of_ne_nil _ _ (by simp), getLast?_cons_of_ne_nil _ _ (groupLE_ne_nil _ _ _ _ hne2),
          ih 1 hne2, getLast?_cons_of_ne_nil _ _ hne2]
      · rw [getLast?_cons_of_ne_nil _ _ (groupLE_ne_nil _ _ _ _ hne2), ih (i + 1) hne2, getLast?_cons_of_ne_nil _ _ hne2]

/-- position law: in `groupLE comma k i cs` (least significant first) position `p` holds the comma
    iff `(p + i) % (k+1) = k`, when no digit character is the comma -/
theorem groupLE_comma_pos (comma k : Nat) (hk : 1 ≤ k) (cs : Txt) (h : ∀ c ∈ cs, c ≠ comma) (i : Nat) (hi : i ≤ k) (p : Nat) :
    (groupLE comma k i cs)[p]? = some comma ↔ (p < (groupLE comma k i cs).length ∧ (p + i) % (k + 1) = k) := by
  induction cs generalizing i p with
  | nil => simp [groupLE]
  | cons c cs ih =>
    have hc : c ≠ comma := h c (by simp)
    have hrest : ∀ x ∈ cs, x ≠ comma := fun x hx => h x (by simp [hx])
    simp only [groupLE]
    by_cases hik : i = k
    · subst hik
      simp only [if_true]
      match p with
      | 0 =>
        have : i % (i + 1) = i := Nat.mod_eq_of_lt (Nat.lt_succ_self i)
        simp [this]
      | 1 =>
        have hmod : (1 + i) % (i + 1) = 0 := by rw [Nat.add_comm]; exact Nat.mod_self _
        have : (1 + i) % (i + 1) ≠ i := by omega
        simp [hc, this]
      | p + 2 =>
        have := ih hrest 1 hk p
        simp only [List.getElem?_cons_succ, List.length_cons]
        rw [this]
        have hmod : (p + 2 + i) % (i + 1) = (p + 1) % (i + 1) := by
          have : p + 2 + i = (p + 1) + (i + 1) := by omega
          rw [this, Nat.add_mod_right]
        rw [hmod]
        constructor
        · rintro ⟨h1, h2⟩; exact ⟨by omega, h2⟩
        · rintro ⟨h1, h2⟩; exact ⟨by omega, h2⟩
    · simp only [hik, if_false]
      have hlt : i < k := by omega
      match p with
      | 0 =>
        have : i % (k + 1) = i := Nat.mod_eq_of_lt (show i < k + 1 by omega)
        simp [hc, this, hik]
      | p + 1 =>
        have := ih hrest (i + 1) (by omega) p
        simp only [List.getElem?_cons_succ, List.length_cons]
        rw [this]
        have : p + (i + 1) = p + 1 + i := by omega
        rw [this]
        constructor
        · rintro ⟨h1, h2⟩; exact ⟨by omega, h2⟩
        · rintro ⟨h1, h2⟩; exact ⟨by omega, h2⟩

theorem digitChars_ne_comma (base comma : Nat) (hc : ∀ d, d < base → digitChar d ≠ comma) (ds : List Nat)
    (hds : ∀ d ∈ ds, d < base) : ∀ c ∈ ds.map digitChar, c ≠ comma := by
  intro c hcmem
  rcases List.mem_map.mp hcmem with ⟨d, hd, rfl⟩
  exact hc d (hds d hd)

end SlipVerif.Format
