import SlipVerif.Model.LoadForm
import SlipVerif.Model.SnapForms
import SlipVerif.Driver.Util
--! namespace: lf
/- line protocol for C19:  lf <entry> <token>*
   term (prefix, one token per constructor):
     N | T | i:<dec> | r:<num>/<den> | f:<fmt>:<hexbits> | s:<hex-utf8> | c:<code> | y:<hex-utf8>
     | C <term> <term> | Vt <term> | Vn <term> | At <term> <term> | An <term> <term> | H <term>
       (Vt/At: adjustable, Vn/An: not adjustable)
   entries:
     form <term>       -> ok <term>              the load form
     eval <term>       -> ok <term> | err <class>  evaluate a construction form
     roundtrip <term>  -> ok <term> | err <class>  eval (loadForm x)
     wf <term>         -> ok t | ok nil
     order <node>*     -> ok <name>*             node = <name>:<inh>,<inh>…  (snapshotOrder)
     gosort <node>*    -> ok <t|nil> <name>*     Go insertion sort with the "b inherits a" comparator; topoOk
     close <def>*      -> ok <node>*             def = <name>:<direct>,…  (closeHistory)
     loads <node>*     -> ok t | ok nil <name>   can the flavors be defined in this order (loadFlavors)
     instops (<slot> <fresh: U|term> <state: U|term>)*  -> ok <term>   the operations of an instance load form: a list of
                                          (slot . u) | (slot . (s . <load form of the value>))
     flavors (F <name> <k> <comp>*k <m> (<var> <term>)*m)*
                       -> ok (F <name> L <n> (<var> <term>)* E <n> (<var> <term>)* I <n> <inherited>*)*
                          L: instance variables of the flavor's load form, E: effective defaults,
                          I: flattened inherit list; variables sorted by name
     snapload <form>*  -> ok t <name>* | ok nil <head>|<name>
                          form = <head>|<name>|<need>,<need>…   need = <head>=<name>   head: the operator in the text
                          (defmethod = a flavor method, define-condition = defclass, defparameter = defvar);
                          the forms in the order of the snapshot TEXT: `loadOrder hoistedHeads` (the two passes of
                          load), then `loadForms`: ok t + the names in evaluation order, or the first form with a
                          need that is not yet defined
     sections          -> ok <t|nil> <section>* / <hoisted>*   tablesOk and the model's tables -/
namespace SlipVerif.Driver.LoadForm
open SlipVerif.LoadForm SlipVerif.Driver

def parseAtom (tok : String) : Option Obj :=
  match tok.splitOn ":" with
  | ["N"] => some .nil
  | ["T"] => some .t
  | ["i", v] => v.toInt?.map .int
  | ["r", v] =>
    match v.splitOn "/" with
    | [n, d] => do
      let n ← n.toInt?
      let d ← d.toNat?
      some (.ratio n d)
    | _ => none
  | ["f", fmt, h] => do
    let f ← fmt.toNat?
    let b ← parseHexNat? h
    some (.flt f b)
  | ["s", h] => (unhexString? h).map .str
  | ["c", v] => v.toNat?.map .chr
  | ["y", h] => (unhexString? h).map .sym
  | _ => none

/-- recursive descent over the token list; fuel bounds the number of tokens consumed -/
def parse : Nat → List String → Option (Obj × List String)
  | 0, _ => none
  | _, [] => none
  | fuel + 1, tok :: rest =>
    if tok = "C" then do
      let (a, r1) ← parse fuel rest
      let (d, r2) ← parse fuel r1
      some (.cons a d, r2)
    else if tok = "Vt" ∨ tok = "Vn" then do
      let (a, r1) ← parse fuel rest
      some (.vec (tok = "Vt") a, r1)
    else if tok = "At" ∨ tok = "An" then do
      let (a, r1) ← parse fuel rest
      let (d, r2) ← parse fuel r1
      some (.arr (tok = "At") a d, r2)
    else if tok = "H" then do
      let (a, r1) ← parse fuel rest
      some (.hash a, r1)
    else (parseAtom tok).map (·, rest)

def parseAll (toks : List String) : Option Obj :=
  match parse (toks.length + 1) toks with
  | some (x, []) => some x
  | _ => none

def showTerm : Obj → String
  | .nil => "N"
  | .t => "T"
  | .int i => s!"i:{i}"
  | .ratio n d => s!"r:{n}/{d}"
  | .flt f b => s!"f:{f}:{String.ofList (Nat.toDigits 16 b)}"
  | .str s => "s:" ++ hexString s
  | .chr c => s!"c:{c}"
  | .sym s => "y:" ++ hexString s
  | .cons a d => "C " ++ showTerm a ++ " " ++ showTerm d
  | .vec adj e => (if adj then "Vt " else "Vn ") ++ showTerm e
  | .arr adj a d => (if adj then "At " else "An ") ++ showTerm a ++ " " ++ showTerm d
  | .hash e => "H " ++ showTerm e

def showErr : Err → String
  | .unbound => "err unbound-variable"
  | .undefined => "err undefined-function"
  | .typeErr => "err type-error"

def showEx : Except Err Obj → String
  | .ok x => "ok " ++ showTerm x
  | .error e => showErr e

def parseNode (tok : String) : Option Node :=
  match tok.splitOn ":" with
  | [n] => some { name := n, inherits := [] }
  | [n, inh] => some { name := n, inherits := (inh.splitOn ",").filter (· ≠ "") }
  | _ => none

def showNode (n : Node) : String := n.name ++ ":" ++ ",".intercalate n.inherits

/-- one slot state: `U` or a term -/
def parseState (toks : List String) : Option (Slot × List String) :=
  match toks with
  | [] => none
  | tok :: rest =>
    if tok = "U" then some (.unbound, rest)
    else (parse (toks.length + 1) toks).map fun (v, r) => (.bound v, r)

/-- `<slot> <fresh state> <state>` … -/
def parseSlots : Nat → List String → Option (List (String × Slot × Slot))
  | 0, _ => none
  | _, [] => some []
  | fuel + 1, name :: rest => do
    let (fr, r1) ← parseState rest
    let (st, r2) ← parseState r1
    let more ← parseSlots fuel r2
    some ((name, fr, st) :: more)

def opsTerm (ops : List (String × Option SlotOp)) : Obj :=
  ops.foldr (fun (s, op) acc =>
    match op with
    | none => acc
    | some .makunbound => .cons (.cons (.sym s) (.sym "u")) acc
    | some (.set form) => .cons (.cons (.sym s) (.cons (.sym "s") form)) acc) .nil

/-- n variable/term pairs -/
def parseVars : Nat → List String → Option (List (String × Obj) × List String)
  | 0, toks => some ([], toks)
  | n + 1, v :: rest => do
    let (d, r) ← parse (rest.length + 1) rest
    let (more, r') ← parseVars n r
    some ((v, d) :: more, r')
  | _ + 1, [] => none

/-- `F <name> <k> <component>*k <m> (<var> <term>)*m` … -/
def parseFlavs : Nat → List String → Option (List (String × List (String × Obj) × List String))
  | 0, _ => none
  | _, [] => some []
  | fuel + 1, "F" :: name :: k :: rest => do
    let k ← k.toNat?
    if rest.length < k then none else
    let comps := rest.take k
    match rest.drop k with
    | m :: rest' => do
      let m ← m.toNat?
      let (own, r) ← parseVars m rest'
      let more ← parseFlavs fuel r
      some ((name, own, comps) :: more)
    | [] => none
  | _ + 1, _ => none

def sortVars (l : List (String × Obj)) : List (String × Obj) :=
  l.foldr (fun x acc =>
    let rec ins : List (String × Obj) → List (String × Obj)
      | [] => [x]
      | y :: ys => if x.1 ≤ y.1 then x :: y :: ys else y :: ins ys
    ins acc) []

def showVars (l : List (String × Obj)) : String :=
  toString l.length ++ String.join ((sortVars l).map fun (v, d) => " " ++ v ++ " " ++ showTerm d)

def parseNeed (tok : String) : Option (SnapForms.Head × String) :=
  match tok.splitOn "=" with
  | [h, n] => (SnapForms.Head.ofText? h).map fun hd => (hd, n)
  | _ => none

def parseSnapForm (tok : String) : Option SnapForms.Form :=
  match tok.splitOn "|" with
  | [h, n, needs] =>
    match SnapForms.Head.ofText? h, ((needs.splitOn ",").filter (· ≠ "")).mapM parseNeed with
    | some hd, some ns => some { head := hd, name := n, needs := ns }
    | _, _ => none
  | _ => none

def handle (entry : String) (args : List String) : String :=
  match entry with
  | "snapload" => match args.mapM parseSnapForm with
    | some fs =>
      let ev := SnapForms.loadOrder SnapForms.hoistedHeads fs
      match SnapForms.loadForms ev [] with
      | .ok _ => "ok t " ++ " ".intercalate (ev.map (·.name))
      | .error f => "ok nil " ++ f.head.text ++ "|" ++ f.name
    | none => "bad-request form"
  | "sections" =>
    "ok " ++ (if SnapForms.tablesOk SnapForms.sectionOrder SnapForms.hoistedHeads then "t" else "nil") ++ " " ++
      " ".intercalate SnapForms.sectionOrder ++ " / " ++ " ".intercalate SnapForms.hoistedHeads
  | "form" => match parseAll args with
    | some x => "ok " ++ showTerm (loadForm x)
    | none => "bad-request term"
  | "eval" => match parseAll args with
    | some x => showEx (eval x)
    | none => "bad-request term"
  | "roundtrip" => match parseAll args with
    | some x => showEx (eval (loadForm x))
    | none => "bad-request term"
  | "wf" => match parseAll args with
    | some x => if wf x then "ok t" else "ok nil"
    | none => "bad-request term"
  | "order" => match args.mapM parseNode with
    | some ns => "ok " ++ " ".intercalate ((snapshotOrder ns).map (·.name))
    | none => "bad-request node"
  | "gosort" => match args.mapM parseNode with
    | some ns =>
      let r := goInsertionSort inheritsLess ns
      "ok " ++ (if topoOk r then "t" else "nil") ++ " " ++ " ".intercalate (r.map (·.name))
    | none => "bad-request node"
  | "loads" => match args.mapM parseNode with
    | some ns => match loadFlavors ns [] with
      | .ok _ => "ok t"
      | .error n => "ok nil " ++ n
    | none => "bad-request node"
  | "instops" => match parseSlots (args.length + 1) args with
    | some slots =>
      "ok " ++ showTerm (opsTerm (instanceLoadOps (slots.map fun (s, fr, _) => (s, fr)) (slots.map fun (s, _, st) => (s, st))))
    | none => "bad-request slots"
  | "flavors" => match parseFlavs (args.length + 1) args with
    | some defs =>
      let w := defFlavors defs []
      "ok" ++ String.join (w.map fun f =>
        " F " ++ f.name ++ " L " ++ showVars (flavorLoadVars w f) ++ " E " ++ showVars f.defaults
          ++ " I " ++ toString f.inherits.length ++ String.join (f.inherits.map (" " ++ ·)))
    | none => "bad-request flavors"
  | "close" => match args.mapM parseNode with
    | some ds => "ok " ++ " ".intercalate ((closeHistory (ds.map (fun d => (d.name, d.inherits))) []).map showNode)
    | none => "bad-request def"
  | _ => "bad-request entry"

end SlipVerif.Driver.LoadForm
