import SlipVerif.Model.LoadForm
import SlipVerif.Driver.Util
--! namespace: lf
/- line protocol for C19:  lf <entry> <token>*
   term (prefix, one token per constructor):
     N | T | i:<dec> | r:<num>/<den> | f:<fmt>:<hexbits> | s:<hex-utf8> | c:<code> | y:<hex-utf8>
     | C <term> <term> | Vt <term> | Vn <term> | At <term> <term> | An <term> <term> | H <term>
       (Vt/At: adjustable, Vn/An: not adjustable)
   entries:
     form <term>       -> ok <term>              the load form
     eval <term>       -> ok <term> | err <class>  evaluate a construction form
     roundtrip <term>  -> ok <term> | err <class>  eval (loadForm x)
     wf <term>         -> ok t | ok nil
     order <node>*     -> ok <name>*             node = <name>:<inh>,<inh>…  (snapshotOrder)
     gosort <node>*    -> ok <t|nil> <name>*     Go insertion sort with the "b inherits a" comparator; topoOk
     close <def>*      -> ok <node>*             def = <name>:<direct>,…  (closeHistory)
     loads <node>*     -> ok t | ok nil <name>   can the flavors be defined in this order (loadFlavors) -/
namespace SlipVerif.Driver.LoadForm
open SlipVerif.LoadForm SlipVerif.Driver

def parseAtom (tok : String) : Option Obj :=
  match tok.splitOn ":" with
  | ["N"] => some .nil
  | ["T"] => some .t
  | ["i", v] => v.toInt?.map .int
  | ["r", v] =>
    match v.splitOn "/" with
    | [n, d] => do
      let n ← n.toInt?
      let d ← d.toNat?
      some (.ratio n d)
    | _ => none
  | ["f", fmt, h] => do
    let f ← fmt.toNat?
    let b ← parseHexNat? h
    some (.flt f b)
  | ["s", h] => (unhexString? h).map .str
  | ["c", v] => v.toNat?.map .chr
  | ["y", h] => (unhexString? h).map .sym
  | _ => none

/-- recursive descent over the token list; fuel bounds the number of tokens consumed -/
def parse : Nat → List String → Option (Obj × List String)
  | 0, _ => none
  | _, [] => none
  | fuel + 1, tok :: rest =>
    if tok = "C" then do
      let (a, r1) ← parse fuel rest
      let (d, r2) ← parse fuel r1
      some (.cons a d, r2)
    else if tok = "Vt" ∨ tok = "Vn" then do
      let (a, r1) ← parse fuel rest
      some (.vec (tok = "Vt") a, r1)
    else if tok = "At" ∨ tok = "An" then do
      let (a, r1) ← parse fuel rest
      let (d, r2) ← parse fuel r1
      some (.arr (tok = "At") a d, r2)
    else if tok = "H" then do
      let (a, r1) ← parse fuel rest
      some (.hash a, r1)
    else (parseAtom tok).map (·, rest)

def parseAll (toks : List String) : Option Obj :=
  match parse (toks.length + 1) toks with
  | some (x, []) => some x
  | _ => none

def showTerm : Obj → String
  | .nil => "N"
  | .t => "T"
  | .int i => s!"i:{i}"
  | .ratio n d => s!"r:{n}/{d}"
  | .flt f b => s!"f:{f}:{String.ofList (Nat.toDigits 16 b)}"
  | .str s => "s:" ++ hexString s
  | .chr c => s!"c:{c}"
  | .sym s => "y:" ++ hexString s
  | .cons a d => "C " ++ showTerm a ++ " " ++ showTerm d
  | .vec adj e => (if adj then "Vt " else "Vn ") ++ showTerm e
  | .arr adj a d => (if adj then "At " else "An ") ++ showTerm a ++ " " ++ showTerm d
  | .hash e => "H " ++ showTerm e

def showErr : Err → String
  | .unbound => "err unbound-variable"
  | .undefined => "err undefined-function"
  | .typeErr => "err type-error"

def showEx : Except Err Obj → String
  | .ok x => "ok " ++ showTerm x
  | .error e => showErr e

def parseNode (tok : String) : Option Node :=
  match tok.splitOn ":" with
  | [n] => some { name := n, inherits := [] }
  | [n, inh] => some { name := n, inherits := (inh.splitOn ",").filter (· ≠ "") }
  | _ => none

def showNode (n : Node) : String := n.name ++ ":" ++ ",".intercalate n.inherits

def handle (entry : String) (args : List String) : String :=
  match entry with
  | "form" => match parseAll args with
    | some x => "ok " ++ showTerm (loadForm x)
    | none => "bad-request term"
  | "eval" => match parseAll args with
    | some x => showEx (eval x)
    | none => "bad-request term"
  | "roundtrip" => match parseAll args with
    | some x => showEx (eval (loadForm x))
    | none => "bad-request term"
  | "wf" => match parseAll args with
    | some x => if wf x then "ok t" else "ok nil"
    | none => "bad-request term"
  | "order" => match args.mapM parseNode with
    | some ns => "ok " ++ " ".intercalate ((snapshotOrder ns).map (·.name))
    | none => "bad-request node"
  | "gosort" => match args.mapM parseNode with
    | some ns =>
      let r := goInsertionSort inheritsLess ns
      "ok " ++ (if topoOk r then "t" else "nil") ++ " " ++ " ".intercalate (r.map (·.name))
    | none => "bad-request node"
  | "loads" => match args.mapM parseNode with
    | some ns => match loadFlavors ns [] with
      | .ok _ => "ok t"
      | .error n => "ok nil " ++ n
    | none => "bad-request node"
  | "close" => match args.mapM parseNode with
    | some ds => "ok " ++ " ".intercalate ((closeHistory (ds.map (fun d => (d.name, d.inherits))) []).map showNode)
    | none => "bad-request def"
  | _ => "bad-request entry"

end SlipVerif.Driver.LoadForm
