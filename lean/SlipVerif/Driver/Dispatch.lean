import SlipVerif.Model.Dispatch
import SlipVerif.Driver.Util
--! namespace: disp
/- line protocol for C10 (one history per line):

     disp run  <n> <tC> <classes> <op>*      the implementation-shaped model (`runOps`: cache, fast path)
     disp spec <n> <tC> <classes> <op>*      the specification (`specOuts`: no cache)

   <n>        number of required arguments;  <tC> number of the class t
   <classes>  c:p.p.p;c:p.p   the class precedence list of every class that occurs as an argument class
   <op>       d<q>:<k.k>:<id>:<mode>   defmethod, q ∈ p b a r (primary before after around), mode ∈ g d s
              r<q>:<k.k>               remove-method
              c:<c.c>                  call with arguments of these classes (precedence lists from <classes>)
              C:<p.p.p>/<p.p>          call with arguments whose precedence lists are given explicitly
                                       (a class redefined during the history: same head, other list)
              m:<c.c>  M:<p.p>/<p.p>   compute-applicable-methods, arguments given as for c / C
              G                        (defgeneric g …) evaluated again, no :method options (`Op.redefine`)
   reply      ok <outcome>*            one outcome per call, in order:
              <events>=<id>|=nil|!na|!nn      events joined by ',' ("-" when none):
              m<id> (body ran)  e<id>+ / e<id>- (around entered, next-method-p true/false)  l<id> (around left)
              for compute-applicable-methods: M<q><id>,<q><id>…  (M- when the list is empty)
-/
namespace SlipVerif.Driver.Dispatch
open SlipVerif.Dispatch

def nats (s : String) : Option (List Nat) :=
  if s.isEmpty then none else (s.splitOn ".").mapM (fun w => w.toNat?)

def parseQual : Char → Option Qual
  | 'p' => some .primary
  | 'b' => some .before
  | 'a' => some .after
  | 'r' => some .around
  | _ => none

def parseMode : String → Option Mode
  | "g" => some .guarded
  | "d" => some .direct
  | "s" => some .stop
  | _ => none

def parsePrecs (s : String) : Option (List (List Nat)) := (s.splitOn "/").mapM nats

def parseOp (n : Nat) (tC : Nat) (tbl : List (Nat × List Nat)) (s : String) : Option Op :=
  let byClass (k : String) : Option (List (List Nat)) := do
    let cs ← nats k
    if cs.length = n then cs.mapM (fun c => tbl.lookup c) else none
  let explicit (k : String) : Option (List (List Nat)) := do
    let ps ← parsePrecs k
    -- every class precedence list must contain t (every slip Hierarchy() ends with t)
    if ps.length = n ∧ ps.all (fun p => p.contains tC) then some ps else none
  match s.splitOn ":" with
  | ["G"] => some .redefine
  | [h, k, id, mode] =>
    match h.toList with
    | ['d', q] => do
      let q ← parseQual q
      let k ← nats k
      let id ← id.toNat?
      let mode ← parseMode mode
      if k.length = n then some (.defmethod q k ⟨id, mode⟩) else none
    | _ => none
  | [h, k] =>
    match h.toList with
    | ['r', q] => do
      let q ← parseQual q
      let k ← nats k
      if k.length = n then some (.remove q k) else none
    | ['c'] => (byClass k).map .call
    | ['C'] => (explicit k).map .call
    | ['m'] => (byClass k).map .methods
    | ['M'] => (explicit k).map .methods
    | _ => none
  | _ => none

def parseClasses (s : String) : Option (List (Nat × List Nat)) :=
  (s.splitOn ";").mapM (fun e =>
    match e.splitOn ":" with
    | [c, p] => do
      let c ← c.toNat?
      let p ← nats p
      some (c, p)
    | _ => none)

def showEv : Ev → String
  | .run i => s!"m{i}"
  | .enter i np => s!"e{i}" ++ (if np then "+" else "-")
  | .leave i => s!"l{i}"

def showOut (o : Out) : Option String :=
  let tr := if o.trace.isEmpty then "-" else ",".intercalate (o.trace.map showEv)
  match o.res with
  | .val (some i) => some s!"{tr}={i}"
  | .val none => some s!"{tr}=nil"
  | .noApplicable => some s!"{tr}!na"
  | .noNext => some s!"{tr}!nn"
  | .noCall => none
  | .methods l =>
    let q : Qual → String
      | .primary => "p" | .before => "b" | .after => "a" | .around => "r"
    some (if l.isEmpty then "M-" else "M" ++ ",".intercalate (l.map (fun e => q e.1 ++ toString e.2)))

def handle (entry : String) (args : List String) : String :=
  match args with
  | n :: tC :: classes :: ops =>
    match n.toNat?, tC.toNat?, parseClasses classes with
    | some n, some tC, some tbl =>
      -- every class precedence list must contain t (every slip Hierarchy() ends with t)
      if !tbl.all (fun e => e.2.contains tC) then "bad-request class-without-t" else
      match ops.mapM (parseOp n tC tbl) with
      | none => "bad-request op"
      | some ops =>
        let E : Env := ⟨tC, n⟩
        let outs :=
          match entry with
          | "run" => some (runOps E Aux.init ops).2
          | "spec" => some (specOuts ops Table.empty)
          | _ => none
        match outs with
        | none => "bad-request entry"
        | some outs => " ".intercalate ("ok" :: outs.filterMap showOut)
    | _, _, _ => "bad-request header"
  | _ => "bad-request args"

end SlipVerif.Driver.Dispatch
