import SlipVerif.Model.Flavors
import SlipVerif.Driver.Util
--! namespace: flav
/- line protocol for C11:   flav run vm=<m,…> <token>*
   tokens, in chronological order (no blanks inside a token):
     F:<name>:<comp,…>:<slot=default;…>   defflavor (default `-` = none)
     F:<name>:<comp,…>:<slot=…>:<incl,…>  the same with :included-flavors (appended to the components)
     M:<flavor>:<p|b|a|w>:<msg>:<id>      defmethod / defwhopper (the whopper body continues once)
     W:<flavor>:<msg>:<id>:<d,…>          defwhopper whose body makes one (continue-whopper (+ arg d)) per d
     A:<flavor>:<msg>:<arg>               observe (send inst msg arg), events with arguments
     S:<flavor>:<msg>                     observe (send inst msg) on an instance of flavor
     V:<flavor>:<slot>                    observe the inherited slot (variable default / keyword)
     P:<flavor>                           observe the precedence list
   reply: ok <segment>*  one segment per observation:
     S=<ev,…>/r<id|-|w<id>>   events wi<id> wo<id> b<id> p<id> a<id>;  S=!<error> when send is rejected,
                              S=!handled:<h> when the default handler <h> got the message
     A=<ev@arg,…>/r<id>@<arg>|-|w<id>
     V=<int>|nil|none   P=<name,…>
   or  err <class>@<token index>  when a form is rejected (the history stops there). -/
namespace SlipVerif.Driver.Flavors
open SlipVerif.Flavors SlipVerif.Driver

inductive Tok where
  | form (f : Form)
  | whop (fl : Name) (m : Msg) (id : Mid) (ds : List Int)
  | obsSendA (fl : Name) (m : Msg) (a : Int)
  | obsSend (fl : Name) (m : Msg)
  | obsSlot (fl : Name) (s : Slot)
  | obsPrec (fl : Name)

def natList? (s : String) : Option (List Nat) :=
  if s.isEmpty then some [] else (s.splitOn ",").mapM (·.toNat?)

def slotList? (s : String) : Option (List (Slot × Option Int)) :=
  if s.isEmpty then some [] else
  (s.splitOn ";").mapM (fun p =>
    match p.splitOn "=" with
    | [k, "-"] => k.toNat?.map (fun k => (k, none))
    | [k, v] => do
        let k ← k.toNat?
        let v ← v.toInt?
        some (k, some v)
    | _ => none)

def intList? (s : String) : Option (List Int) :=
  if s.isEmpty then some [] else (s.splitOn ",").mapM (·.toInt?)

def kind? : String → Option Kind
  | "p" => some .primary
  | "b" => some .before
  | "a" => some .after
  | "w" => some .whopper
  | _ => none

def parseTok (s : String) : Option Tok :=
  match s.splitOn ":" with
  | ["F", n, cs, sl] => do
      let n ← n.toNat?
      let cs ← natList? cs
      let sl ← slotList? sl
      some (.form (.defflavor n cs sl))
  | ["F", n, cs, sl, inc] => do
      -- :included-flavors of a non-abstract flavor: inherited after the written components
      let n ← n.toNat?
      let cs ← natList? cs
      let sl ← slotList? sl
      let inc ← natList? inc
      some (.form (.defflavor n (cs ++ inc) sl))
  | ["M", fl, k, m, id] => do
      let fl ← fl.toNat?
      let k ← kind? k
      let m ← m.toNat?
      let id ← id.toNat?
      some (.form (.defmethod fl k m id))
  | ["W", fl, m, id, ds] => do
      let fl ← fl.toNat?
      let m ← m.toNat?
      let id ← id.toNat?
      let ds ← intList? ds
      some (.whop fl m id ds)
  | ["A", fl, m, a] => do
      let fl ← fl.toNat?
      let m ← m.toNat?
      let a ← a.toInt?
      some (.obsSendA fl m a)
  | ["S", fl, m] => do
      let fl ← fl.toNat?
      let m ← m.toNat?
      some (.obsSend fl m)
  | ["V", fl, s] => do
      let fl ← fl.toNat?
      let s ← s.toNat?
      some (.obsSlot fl s)
  | ["P", fl] => fl.toNat?.map .obsPrec
  | _ => none

def showEv : Ev → String
  | .whopIn id => s!"wi{id}"
  | .whopOut id => s!"wo{id}"
  | .before id => s!"b{id}"
  | .primary id => s!"p{id}"
  | .after id => s!"a{id}"

def showErr : Err → String
  | .undefinedFlavor => "undefined-flavor"
  | .alreadyDefined => "already-defined"
  | .noMethod => "no-method"

def showEvA : EvA → String
  | .whopIn id a => s!"wi{id}@{a}"
  | .whopOut id a => s!"wo{id}@{a}"
  | .before id a => s!"b{id}@{a}"
  | .primary id a => s!"p{id}@{a}"
  | .after id a => s!"a{id}@{a}"

/-- `withArgs = false`: the S observation (events and result without arguments) -/
def showOutcome (withArgs : Bool) : Outcome → String
  | .ran evs r =>
    let tag := if withArgs then "A=" else "S="
    let es := if withArgs then evs.map showEvA else evs.map (fun e => showEv e.erase)
    let rs := match r with
      | .none => "-"
      | .primary id a => if withArgs then s!"{id}@{a}" else toString id
      | .whopper w => s!"w{w}"
    tag ++ ",".intercalate es ++ "/r" ++ rs
  | .handled hd => (if withArgs then "A=" else "S=") ++ s!"!handled:{hd}"
  | .noMethod => (if withArgs then "A=" else "S=") ++ "!" ++ showErr .noMethod
  | .undefinedFlavor => (if withArgs then "A=" else "S=") ++ "!" ++ showErr .undefinedFlavor

/-- the bodies of the whoppers defined so far: `W` tokens record theirs, every other whopper
    continues once with its argument unchanged -/
def bodyOf (tbl : List (Mid × List Int)) : WhopBody :=
  fun w => match tbl.find? (fun p => p.1 == w) with
    | some p => p.2
    | none => [0]

def showSlot : Option (Option Int) → String
  | none => "V=none"
  | some none => "V=nil"
  | some (some v) => s!"V={v}"

/-- forms are applied with `step` (the function `run` folds); observations read the state -/
def exec : State → List (Mid × List Int) → List Tok → Nat → List String → String
  | _, _, [], _, out => "ok " ++ " ".intercalate out.reverse
  | st, tbl, t :: rest, i, out =>
    match t with
    | .form f =>
      match step st f with
      | .ok st' => exec st' tbl rest (i + 1) out
      | .error e => s!"err {showErr e}@{i}"
    | .whop fl m id ds =>
      match step st (.defmethod fl .whopper m id) with
      | .ok st' => exec st' ((id, ds) :: tbl) rest (i + 1) out
      | .error e => s!"err {showErr e}@{i}"
    | .obsSend fl m => exec st tbl rest (i + 1) (showOutcome false (sendA (bodyOf tbl) st fl m 0) :: out)
    | .obsSendA fl m a => exec st tbl rest (i + 1) (showOutcome true (sendA (bodyOf tbl) st fl m a) :: out)
    | .obsSlot fl s => exec st tbl rest (i + 1) (showSlot (if st.defd fl then st.slots fl s else none) :: out)
    | .obsPrec fl =>
      exec st tbl rest (i + 1) (("P=" ++ ",".intercalate ((fl :: st.inh fl).map toString)) :: out)

def forms (ts : List Tok) : List Form :=
  ts.filterMap (fun t => match t with
    | .form f => some f
    | .whop fl m id _ => some (.defmethod fl .whopper m id)
    | _ => none)

def handle (entry : String) (args : List String) : String :=
  match entry, args with
  | "run", vmArg :: toks =>
    match vmArg.splitOn "=" with
    | ["vm", vms] =>
      match natList? vms, toks.mapM parseTok with
      | some vm, some ts => exec (init vm) [] ts 0 []
      | _, _ => "bad-request token"
    | _ => "bad-request vm"
  | _, _ => "bad-request entry"

end SlipVerif.Driver.Flavors
