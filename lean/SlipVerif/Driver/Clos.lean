import SlipVerif.Model.Clos
import SlipVerif.Driver.Util
--! namespace: clos
/- line protocol for C12:  clos run <token>*      (one reply word per token)
   D:<c>:<supers>:<slots>   defclass; supers = c,c,… | - ; slots = slot;slot;… | - ;
                            slot = <name>/<initarg,initarg,…|->/<initform|->          reply  d
   P:<c>                    class precedence list                                     reply  c.a.b | !notready
   M:<c>:<k=v,k=v,…|->      make-instance (becomes the current instance)              reply  [?]x=v,y=u,… | - | !notready | !badarg
   W:<x>:<v>:<how>:<k>      write slot x of the current instance; how = s (setf slot-value) |
                            w (writer) | a (setf accessor) defined by class k         reply  slots | !noslot | !noapplicable
   R:<x>:<how>:<k>          read slot x through the reader / accessor of class k      reply  v | u | !noslot | !noapplicable
   U:<x>                    slot-makunbound                                           reply  slots
   (a slot has a fourth field, the reader/writer/accessor flags, which the model ignores)
   T:<c>:<k>                typep of an instance of c                                 reply  t | nil | !notready
   A:<c>:<k,k,…|->          applicable methods (methods on the listed classes)        reply  k.k | - | !notready
   slots are reported sorted by slot name, `u` = unbound; a leading `?` marks a make-instance whose
   supplied initargs reach one slot through two different names (outcome not fixed by the property). -/
namespace SlipVerif.Driver.Clos
open SlipVerif.Clos SlipVerif.Driver

def listOf (s : String) (sep : String) : List String :=
  if s = "-" || s = "" then [] else s.splitOn sep

def natList? (s : String) (sep : String := ",") : Option (List Nat) :=
  (listOf s sep).mapM (·.toNat?)

def parseSlot? (s : String) : Option SlotDef :=
  match s.splitOn "/" with
  | [n, ia, f, _] => do
      let n ← n.toNat?
      let ia ← natList? ia
      let f ← if f = "-" then some none else f.toInt?.map some
      some { name := n, initargs := ia, initform := f }
  | _ => none

def parseArgs? (s : String) : Option (List (Name × Val)) :=
  (listOf s ",").mapM (fun kv =>
    match kv.splitOn "=" with
    | [k, v] => do
        let k ← k.toNat?
        let v ← v.toInt?
        some (k, v)
    | _ => none)

def insertSorted (p : Name × Option Val) : List (Name × Option Val) → List (Name × Option Val)
  | [] => [p]
  | q :: r => if p.1 ≤ q.1 then p :: q :: r else q :: insertSorted p r

def showInst (i : Inst) : String :=
  let sorted := i.foldr insertSorted []
  if sorted.isEmpty then "-" else
  ",".intercalate (sorted.map (fun p =>
    match p.2 with
    | some v => s!"{p.1}={v}"
    | none => s!"{p.1}=u"))

def showNames (l : List Name) : String :=
  if l.isEmpty then "-" else ".".intercalate (l.map toString)

structure Run where
  st : State := []
  cur : Option (Name × Inst) := none
  out : List String := []   -- reversed
  bad : Option String := none

def step (r : Run) (tok : String) : Run :=
  if r.bad.isSome then r else
  let fail (why : String) : Run := { r with bad := some (why ++ " " ++ tok) }
  match tok.splitOn ":" with
  | ["D", c, sup, slots] =>
    match c.toNat?, natList? sup, (listOf slots ";").mapM parseSlot? with
    | some c, some sup, some sl =>
      { r with st := defclass r.st c { supers := sup, slots := sl }, out := "d" :: r.out }
    | _, _, _ => fail "defclass"
  | ["P", c] =>
    match c.toNat? with
    | some c =>
      match precOf r.st c with
      | some p => { r with out := showNames p :: r.out }
      | none => { r with out := "!notready" :: r.out }
    | none => fail "prec"
  | ["M", c, args] =>
    match c.toNat?, parseArgs? args with
    | some c, some args =>
      match makeInstance r.st c args with
      | .ok i =>
        let amb := match precOf r.st c with
          | some p => ambiguous (slotDefsOf r.st p) args
          | none => false
        { r with cur := some (c, i), out := ((if amb then "?" else "") ++ showInst i) :: r.out }
      | .error .notReady => { r with cur := none, out := "!notready" :: r.out }
      | .error .badInitarg => { r with cur := none, out := "!badarg" :: r.out }
    | _, _ => fail "make"
  | ["W", x, v, how, k] =>
    match x.toNat?, v.toInt?, k.toNat?, r.cur with
    | some x, some v, some k, some (c, i) =>
      if how = "s" || typep r.st c k = some true then
        if (getSlot i x).isNone && how = "s" then { r with out := "!noslot" :: r.out } else
        let i' := writeSlot i x v
        { r with cur := some (c, i'), out := showInst i' :: r.out }
      else { r with out := "!noapplicable" :: r.out }
    | some _, some _, some _, none => { r with out := "!noinst" :: r.out }
    | _, _, _, _ => fail "write"
  | ["R", x, _, k] =>
    match x.toNat?, k.toNat?, r.cur with
    | some x, some k, some (c, i) =>
      if typep r.st c k = some true then
        match getSlot i x with
        | some (some v) => { r with out := toString v :: r.out }
        | some none => { r with out := "u" :: r.out }
        | none => { r with out := "!noslot" :: r.out }
      else { r with out := "!noapplicable" :: r.out }
    | some _, some _, none => { r with out := "!noinst" :: r.out }
    | _, _, _ => fail "read"
  | ["U", x] =>
    match x.toNat?, r.cur with
    | some x, some (c, i) =>
      if (getSlot i x).isNone then { r with out := "!noslot" :: r.out } else
      let i' := unbindSlot i x
      { r with cur := some (c, i'), out := showInst i' :: r.out }
    | some _, none => { r with out := "!noinst" :: r.out }
    | _, _ => fail "unbind"
  | ["T", c, k] =>
    match c.toNat?, k.toNat? with
    | some c, some k =>
      match typep r.st c k with
      | some b => { r with out := (if b then "t" else "nil") :: r.out }
      | none => { r with out := "!notready" :: r.out }
    | _, _ => fail "typep"
  | ["A", c, ks] =>
    match c.toNat?, natList? ks with
    | some c, some ks =>
      match applicable r.st c ks with
      | some l => { r with out := showNames l :: r.out }
      | none => { r with out := "!notready" :: r.out }
    | _, _ => fail "applicable"
  | _ => fail "token"

def handle (entry : String) (args : List String) : String :=
  match entry with
  | "run" =>
    let r := args.foldl step {}
    match r.bad with
    | some why => "bad-request " ++ why
    | none => " ".intercalate ("ok" :: r.out.reverse)
  | _ => "bad-request entry"

end SlipVerif.Driver.Clos
