import SlipVerif.Model.Clos
import SlipVerif.Driver.Util
--! namespace: clos
/- line protocol for C12:  clos run <token>*      (one reply word per token)
   D:<c>:<supers>:<slots>[:<k=v,…>]  defclass; supers = c,c,… | - ; slots = slot;slot;… | - ;
                            slot = <name>/<initarg,initarg,…|->/<initform|->; optional fifth field:
                            (:default-initargs k v …)                                 reply  d
   P:<c>                    class precedence list                                     reply  c.a.b | !notready
   M:<c>:<k=v,k=v,…|->      make-instance (becomes the current instance)              reply  [?]x=v,y=u,… | - | !notready | !badarg
   W:<x>:<v>:<how>:<k>      write slot x of the current instance; how = s (setf slot-value) |
                            w (writer) | a (setf accessor) defined by class k         reply  slots | !noslot | !noapplicable
   R:<x>:<how>:<k>          read slot x through the reader / accessor of class k      reply  v | u | !noslot | !noapplicable
   U:<x>                    slot-makunbound                                           reply  slots
   (a slot has a fourth field, the reader/writer/accessor flags, which the model ignores)
   T:<c>:<k>                typep of an instance of c                                 reply  t | nil | !notready
   A:<c>:<k,k,…|->          applicable methods (methods on the listed classes)        reply  k.k | - | !notready
   K:<j> / X:<j>            keep the current instance in register j / make the instance of register j
                            current again (it may have been made before a redefinition)  reply  k / slots
   C                        class-of the current instance: name / is it the registered class object /
                            (class-precedence (class-of i))                          reply  c/cur|old/c.a.b
   t:<k>  a:<k,k,…>         typep / applicable methods of the current instance         reply  as T, A
   G:<g>:<k,k,…>  H:<g>     (add) methods on the listed classes to the persistent generic function g /
                            call it on the current instance                            reply  g / k.k
   E:<c>:<k=v,…|->          make-instance reporting the initforms it evaluates, sorted:    reply  k/x/v.k/x/v | - | !notready | !badarg
                            owner class / slot / value of the form
   J:<i|s>:<k,k,…>          add :after methods on initialize-instance (i) / shared-initialize (s)
                            specialised on the listed classes                          reply  j
   N:<c>:<k=v,…|->          make-instance (becomes current) reporting the :after methods run, in the order
                            they ran: initialize-instance's / shared-initialize's      reply  k.k/k.k | !notready | !badarg
   slots are reported sorted by slot name, `u` = unbound; a leading `?` marks a make-instance whose
   supplied initargs reach one slot through two different names (outcome not fixed by the property),
   a leading `~` one of a class that has a class with default initargs above it (slip does not
   inherit them, Common Lisp does; not constrained). -/
namespace SlipVerif.Driver.Clos
open SlipVerif.Clos SlipVerif.Driver

def listOf (s : String) (sep : String) : List String :=
  if s = "-" || s = "" then [] else s.splitOn sep

def natList? (s : String) (sep : String := ",") : Option (List Nat) :=
  (listOf s sep).mapM (·.toNat?)

def parseSlot? (s : String) : Option SlotDef :=
  match s.splitOn "/" with
  | [n, ia, f, _] => do
      let n ← n.toNat?
      let ia ← natList? ia
      let f ← if f = "-" then some none else f.toInt?.map some
      some { name := n, initargs := ia, initform := f }
  | _ => none

def parseArgs? (s : String) : Option (List (Name × Val)) :=
  (listOf s ",").mapM (fun kv =>
    match kv.splitOn "=" with
    | [k, v] => do
        let k ← k.toNat?
        let v ← v.toInt?
        some (k, v)
    | _ => none)

def insertSorted (p : Name × Option Val) : List (Name × Option Val) → List (Name × Option Val)
  | [] => [p]
  | q :: r => if p.1 ≤ q.1 then p :: q :: r else q :: insertSorted p r

def showInst (i : Inst) : String :=
  let sorted := i.foldr insertSorted []
  if sorted.isEmpty then "-" else
  ",".intercalate (sorted.map (fun p =>
    match p.2 with
    | some v => s!"{p.1}={v}"
    | none => s!"{p.1}=u"))

def insertTriple (p : Name × Name × Val) : List (Name × Name × Val) → List (Name × Name × Val)
  | [] => [p]
  | q :: r =>
    if p.1 < q.1 || (p.1 = q.1 && p.2.1 ≤ q.2.1) then p :: q :: r else q :: insertTriple p r

def showEvaluated (l : List (Name × Name × Val)) : String :=
  let sorted := l.foldr insertTriple []
  if sorted.isEmpty then "-" else
  ".".intercalate (sorted.map (fun p => s!"{p.1}/{p.2.1}/{p.2.2}"))

def showNames (l : List Name) : String :=
  if l.isEmpty then "-" else ".".intercalate (l.map toString)

structure Run where
  w : World := World.empty
  cur : Option Obj := none
  curReg : Option Nat := none          -- the register the current instance is also held in
  regs : List (Nat × Obj) := []        -- kept instances
  gens : List (Nat × List Name) := []  -- persistent generic functions: classes carrying a method
  initM : List Name := []              -- classes with an :after method on initialize-instance
  sharedM : List Name := []            -- classes with an :after method on shared-initialize
  out : List String := []   -- reversed
  bad : Option String := none

def setReg (regs : List (Nat × Obj)) (j : Nat) (o : Obj) : List (Nat × Obj) :=
  (j, o) :: regs.filter (fun p => p.1 ≠ j)

def getReg (regs : List (Nat × Obj)) (j : Nat) : Option Obj :=
  (regs.find? (fun p => p.1 = j)).map (·.2)

/-- replace the current instance (and its register copy: instances are shared by reference) -/
def Run.setCur (r : Run) (o : Obj) : Run :=
  match r.curReg with
  | some j => { r with cur := some o, regs := setReg r.regs j o }
  | none => { r with cur := some o }

def step (r : Run) (tok : String) : Run :=
  if r.bad.isSome then r else
  let fail (why : String) : Run := { r with bad := some (why ++ " " ++ tok) }
  let say (r : Run) (word : String) : Run := { r with out := word :: r.out }
  match tok.splitOn ":" with
  | ["D", c, sup, slots] =>
    match c.toNat?, natList? sup, (listOf slots ";").mapM parseSlot? with
    | some c, some sup, some sl =>
      say { r with w := defclassW r.w c { supers := sup, slots := sl } } "d"
    | _, _, _ => fail "defclass"
  | ["D", c, sup, slots, dflt] =>
    match c.toNat?, natList? sup, (listOf slots ";").mapM parseSlot?, parseArgs? dflt with
    | some c, some sup, some sl, some df =>
      say { r with w := defclassW r.w c { supers := sup, slots := sl, defaults := df } } "d"
    | _, _, _, _ => fail "defclass"
  | ["P", c] =>
    match c.toNat? with
    | some c =>
      match precOf r.w.st c with
      | some p => say r (showNames p)
      | none => say r "!notready"
    | none => fail "prec"
  | ["M", c, args] =>
    match c.toNat?, parseArgs? args with
    | some c, some args =>
      match makeObj r.w c args with
      | .ok o =>
        let amb := match precOf r.w.st c with
          | some p => ambiguous (slotDefsOf r.w.st p) args
          | none => false
        -- a class above c has default initargs: whether they are inherited is not constrained
        let inhd := match inhOf r.w.st c with
          | some l => l.any (fun k => !(defaultsOf r.w.st k).isEmpty)
          | none => false
        say { r with cur := some o, curReg := none }
          ((if inhd then "~" else "") ++ (if amb then "?" else "") ++ showInst o.slots)
      | .error .notReady => say { r with cur := none, curReg := none } "!notready"
      | .error .badInitarg => say { r with cur := none, curReg := none } "!badarg"
    | _, _ => fail "make"
  | ["E", c, args] =>
    match c.toNat?, parseArgs? args with
    | some c, some args =>
      match evaluatedBy r.w.st c args with
      | some l => say r (showEvaluated l)
      | none =>
        match precOf r.w.st c with
        | none => say r "!notready"
        | some _ => say r "!badarg"
    | _, _ => fail "evaluated"
  | ["J", f, ks] =>
    match natList? ks with
    | some ks =>
      if f = "i" then say { r with initM := r.initM ++ ks } "j"
      else if f = "s" then say { r with sharedM := r.sharedM ++ ks } "j"
      else fail "after-method"
    | none => fail "after-method"
  | ["N", c, args] =>
    match c.toNat?, parseArgs? args with
    | some c, some args =>
      match makeObj r.w c args with
      | .ok o =>
        let tr (ms : List Name) : String := match afterOrder r.w.st c ms with
          | some l => showNames l
          | none => "!notready"
        say { r with cur := some o, curReg := none } (tr r.initM ++ "/" ++ tr r.sharedM)
      | .error .notReady => say { r with cur := none, curReg := none } "!notready"
      | .error .badInitarg => say { r with cur := none, curReg := none } "!badarg"
    | _, _ => fail "make-after"
  | ["K", j] =>
    match j.toNat?, r.cur with
    | some j, some o => say { r with regs := setReg r.regs j o, curReg := some j } "k"
    | some _, none => say r "!noinst"
    | _, _ => fail "keep"
  | ["X", j] =>
    match j.toNat? with
    | some j =>
      match getReg r.regs j with
      | some o => say { r with cur := some o, curReg := some j } (showInst o.slots)
      | none => say { r with cur := none, curReg := none } "!noinst"
    | none => fail "recall"
  | ["C"] =>
    match r.cur with
    | some o =>
      let p := match objPrec r.w o with
        | some p => showNames p
        | none => "!notready"
      say r s!"{o.cls}/{if objIsCurrent r.w o then "cur" else "old"}/{p}"
    | none => say r "!noinst"
  | ["t", k] =>
    match k.toNat?, r.cur with
    | some k, some o =>
      match objTypep r.w o k with
      | some b => say r (if b then "t" else "nil")
      | none => say r "!notready"
    | some _, none => say r "!noinst"
    | _, _ => fail "typep-instance"
  | ["a", ks] =>
    match natList? ks, r.cur with
    | some ks, some o =>
      match objApplicable r.w o ks with
      | some l => say r (showNames l)
      | none => say r "!notready"
    | some _, none => say r "!noinst"
    | _, _ => fail "applicable-instance"
  | ["G", g, ks] =>
    match g.toNat?, natList? ks with
    | some g, some ks =>
      let old := ((r.gens.find? (fun p => p.1 = g)).map (·.2)).getD []
      say { r with gens := (g, old ++ ks) :: r.gens.filter (fun p => p.1 ≠ g) } "g"
    | _, _ => fail "defgeneric"
  | ["H", g] =>
    match g.toNat?, r.cur with
    | some g, some o =>
      let ks := ((r.gens.find? (fun p => p.1 = g)).map (·.2)).getD []
      match objApplicable r.w o ks with
      | some l => say r (showNames l)
      | none => say r "!notready"
    | some _, none => say r "!noinst"
    | _, _ => fail "call-generic"
  | ["W", x, v, how, k] =>
    match x.toNat?, v.toInt?, k.toNat?, r.cur with
    | some x, some v, some k, some o =>
      if how = "s" || objTypep r.w o k = some true then
        if (getSlot o.slots x).isNone && how = "s" then say r "!noslot" else
        let i' := writeSlot o.slots x v
        say (r.setCur { o with slots := i' }) (showInst i')
      else say r "!noapplicable"
    | some _, some _, some _, none => say r "!noinst"
    | _, _, _, _ => fail "write"
  | ["R", x, _, k] =>
    match x.toNat?, k.toNat?, r.cur with
    | some x, some k, some o =>
      if objTypep r.w o k = some true then
        match getSlot o.slots x with
        | some (some v) => say r (toString v)
        | some none => say r "u"
        | none => say r "!noslot"
      else say r "!noapplicable"
    | some _, some _, none => say r "!noinst"
    | _, _, _ => fail "read"
  | ["U", x] =>
    match x.toNat?, r.cur with
    | some x, some o =>
      if (getSlot o.slots x).isNone then say r "!noslot" else
      let i' := unbindSlot o.slots x
      say (r.setCur { o with slots := i' }) (showInst i')
    | some _, none => say r "!noinst"
    | _, _ => fail "unbind"
  | ["T", c, k] =>
    match c.toNat?, k.toNat? with
    | some c, some k =>
      match typep r.w.st c k with
      | some b => say r (if b then "t" else "nil")
      | none => say r "!notready"
    | _, _ => fail "typep"
  | ["A", c, ks] =>
    match c.toNat?, natList? ks with
    | some c, some ks =>
      match applicable r.w.st c ks with
      | some l => say r (showNames l)
      | none => say r "!notready"
    | _, _ => fail "applicable"
  | _ => fail "token"

def handle (entry : String) (args : List String) : String :=
  match entry with
  | "run" =>
    let r := args.foldl step {}
    match r.bad with
    | some why => "bad-request " ++ why
    | none => " ".intercalate ("ok" :: r.out.reverse)
  | _ => "bad-request entry"

end SlipVerif.Driver.Clos
