import SlipVerif.Model.Eval
import SlipVerif.Driver.Util
--! namespace: eval
/- line protocol for C01 / C07:

     eval run <fuel> <nmutex> <token>*

   tokens: ( ) . n t i:<dec> s:<hex> y:<hex>        (the program: a sequence of top-level forms)
   The global variables vmx0 … vmx<nmutex-1> are bound to fresh mutexes.
   reply:  val|<primary value>|<trace>|<locks>      normal return
           err|<class>|<trace>|<locks>              unhandled condition
           escaped|<kind>|<trace>|<locks>           a ret/go reached the top level (never generated)
           outside|…                                an integer left the modelled range (case set aside)
           timeout                                  fuel exhausted (case set aside)
-/
namespace SlipVerif.Driver.Eval
open SlipVerif.Eval SlipVerif.Driver

/-- parse one object from the token list -/
partial def parseObj : List String → Option (Obj × List String)
  | [] => none
  | "(" :: rest => parseTail rest
  | "n" :: rest => some (.nil, rest)
  | "t" :: rest => some (.t, rest)
  | tok :: rest =>
    match tok.splitOn ":" with
    | ["i", d] => d.toInt?.map (fun i => (.int i, rest))
    | ["s", h] => (unhexString? h).map (fun s => (.str s, rest))
    | ["y", h] => (unhexString? h).map (fun s => (.sym s, rest))
    | _ => none
where
  parseTail : List String → Option (Obj × List String)
    | ")" :: rest => some (.nil, rest)
    | "." :: rest => do
        let (d, rest) ← parseObj rest
        match rest with
        | ")" :: rest => some (d, rest)
        | _ => none
    | toks => do
        let (a, rest) ← parseObj toks
        let (d, rest) ← parseTail rest
        some (.cons a d, rest)

partial def parseAll (toks : List String) (acc : List Obj) : Option (List Obj) :=
  match toks with
  | [] => some acc.reverse
  | toks => do
      let (o, rest) ← parseObj toks
      parseAll rest (o :: acc)

partial def showObj : Obj → String
  | .nil => "nil"
  | .t => "t"
  | .int i => toString i
  | .str s => "\"" ++ s ++ "\""
  | .sym s => s
  | .cons a d => "(" ++ showObj a ++ showTail d ++ ")"
  | .clo _ => "#<fn>"
  | .fn _ => "#<fn>"
  | .mutex _ => "#<mutex>"
  | .cond cls => "#<" ++ cls ++ ">"
  | .stream _ => "#<file-stream>"
where
  showTail : Obj → String
    | .nil => ""
    | .cons a d => " " ++ showObj a ++ showTail d
    | o => " . " ++ showObj o

def showTrace (tr : List Obj) : String := " ".intercalate (tr.map showObj)
def showLocks (ls : List Bool) : String := String.ofList (ls.map (fun b => if b then '1' else '0'))

def initStore (nmutex : Nat) : St :=
  { globals := (List.range nmutex).map (fun k => (s!"vmx{k}", Obj.mutex k)),
    locks := List.replicate nmutex false }

def render (r : Res) : String :=
  let (o, σ) := r
  let tail := "|" ++ showTrace σ.trace ++ "|" ++ showLocks σ.locks
  match o with
  | .timeout => "timeout"
  | o =>
    if σ.wide then "outside" ++ tail else
    match o with
    | .val vs => "val|" ++ showObj (prim vs) ++ tail
    | .err cls => "err|" ++ cls ++ tail
    | .ret _ _ => "escaped|ret" ++ tail
    | .go _ _ => "escaped|go" ++ tail
    | .timeout => "timeout"

def handle (entry : String) (args : List String) : String :=
  match entry, args with
  | "run", fuel :: nmutex :: toks =>
    match fuel.toNat?, nmutex.toNat?, parseAll toks [] with
    | some fuel, some nm, some forms => render (runProgram fuel forms (initStore nm))
    | _, _, _ => "bad-request parse"
  | _, _ => "bad-request entry"

end SlipVerif.Driver.Eval
