import SlipVerif.Model.Compile
import SlipVerif.Driver.Util
--! namespace: comp
/- line protocol for C08:
     comp run <fuel> <form>*      the history through compilation (`runC` from the empty store)
     comp direct <fuel> <form>*   the history evaluated directly (`run` from the empty table)
   forms (Lisp text, names are [a-z0-9-]+):
     (defun f (p* [&optional (o int)*] [&key (k int)*] [&aux (x expr)*]) body)
     | (defun-in ((c expr)*) f (lambda-list) body)     = (let ((c expr)*) (defun f …))
     | (undef f) | (again j) | expr
     | (defvar x expr) | (defparameter x expr) | (setq x expr)      top-level forms only (global variables)
     function names may be spelled in any letter case and with a package prefix (pkg::name)
     expr = int | var | :kw | (+ a b) (- a b) (* a b) (< a b) (= a b) | (if c t e)
          | (let ((x v)) b) | (let* ((x v)*) b) | (f arg*)
   reply: ok <out>*   out = i:<int> | nil | t | y:<name> | k:<name> | e:<class> | timeout -/
namespace SlipVerif.Driver.Compile
open SlipVerif.Compile

inductive SExp where
  | atom (s : String)
  | list (xs : List SExp)

/-- tokens: "(" ")" and atoms -/
def tokenize (s : String) : List String :=
  let step (acc : List String × String) (c : Char) : List String × String :=
    let flush (a : List String × String) : List String := if a.2.isEmpty then a.1 else a.2 :: a.1
    if c == '(' then ("(" :: flush acc, "")
    else if c == ')' then (")" :: flush acc, "")
    else if c == ' ' then (flush acc, "")
    else (acc.1, acc.2.push c)
  let r := s.toList.foldl step ([], "")
  (if r.2.isEmpty then r.1 else r.2 :: r.1).reverse

/-- stack of open lists (innermost first), each reversed -/
def parseTokens (toks : List String) : Option (List SExp) :=
  let step (st : Option (List (List SExp))) (tok : String) : Option (List (List SExp)) :=
    match st with
    | none => none
    | some stack =>
      if tok == "(" then some ([] :: stack)
      else if tok == ")" then
        match stack with
        | top :: next :: rest => some ((SExp.list top.reverse :: next) :: rest)
        | _ => none
      else
        match stack with
        | top :: rest => some ((SExp.atom tok :: top) :: rest)
        | [] => none
  match toks.foldl step (some [[]]) with
  | some [top] => some top.reverse
  | _ => none

def primOf (s : String) : Option Prim :=
  if s == "+" then some .add else if s == "-" then some .sub else if s == "*" then some .mul
  else if s == "<" then some .lt else if s == "=" then some .eq else none

def atomNames : List SExp → Option (List String)
  | [] => some []
  | .atom s :: rest => (atomNames rest).map (s :: ·)
  | _ => none

mutual
def toExpr : SExp → Option Expr
  | .atom s =>
    match s.toInt? with
    | some k => some (.const k)
    | none => if s.startsWith ":" then some (.kw (s.drop 1).toString) else some (.var s)
  | .list [] => none
  | .list (.list _ :: _) => none
  | .list (.atom h :: rest) =>
    match toExprs rest with
    | none => none
    | some args =>
      match primOf h, args with
      | some op, [a, b] => some (.prim op a b)
      | some _, _ => none
      | none, _ =>
        if h == "if" then
          match args with
          | [c, t, e] => some (.ite c t e)
          | _ => none
        else if h == "let" then none      -- handled below (bindings are not an expression)
        else some (.call h args)
def toExprs : List SExp → Option (List Expr)
  | [] => some []
  | x :: xs =>
    match toExpr x, toExprs xs with
    | some e, some es => some (e :: es)
    | _, _ => none
end

/-- `(let ((x v)) b)` is rewritten before conversion into the pseudo call `(let$ x v b)` -/
def letName : String := "let$"

mutual
def deLet : SExp → SExp
  | .atom s => .atom s
  | .list [.atom "let", .list [.list [.atom x, v]], b] => .list [.atom letName, .atom x, deLet v, deLet b]
  | .list [.atom "let*", .list bs, b] => deLetStar bs (deLet b)
  | .list xs => .list (deLetList xs)
def deLetList : List SExp → List SExp
  | [] => []
  | x :: xs => deLet x :: deLetList xs
/-- `(let* ((x v) rest…) b)` = `(let ((x v)) (let* (rest…) b))` -/
def deLetStar : List SExp → SExp → SExp
  | [], b => b
  | .list [.atom x, v] :: rest, b => .list [.atom letName, .atom x, deLet v, deLetStar rest b]
  | _ :: _, _ => .list [.atom "let"]      -- malformed binding: rejected by fixLet
end

mutual
def fixLet : Expr → Option Expr
  | .const k => some (.const k)
  | .kw k => some (.kw k)
  | .var x => some (.var x)
  | .prim op a b =>
    match fixLet a, fixLet b with
    | some a, some b => some (.prim op a b)
    | _, _ => none
  | .ite c t e =>
    match fixLet c, fixLet t, fixLet e with
    | some c, some t, some e => some (.ite c t e)
    | _, _, _ => none
  | .let1 x v b =>
    match fixLet v, fixLet b with
    | some v, some b => some (.let1 x v b)
    | _, _ => none
  | .call f args =>
    match fixLetList args with
    | none => none
    | some args =>
      if f == letName then
        match args with
        | [.var x, v, b] => some (.let1 x v b)
        | _ => none
      else if f == "let" || f == "let*" then none
      else some (.call f args)
def fixLetList : List Expr → Option (List Expr)
  | [] => some []
  | x :: xs =>
    match fixLet x, fixLetList xs with
    | some e, some es => some (e :: es)
    | _, _ => none
end

def exprOf (x : SExp) : Option Expr := (toExpr (deLet x)).bind fixLet

/-- `(name int)` or `name` (default nil) -/
def defaultOf : SExp → Option (String × Val)
  | .atom x => some (x, .nil)
  | .list [.atom x, .atom d] => d.toInt?.map (fun k => (x, .int k))
  | _ => none

def auxOf : SExp → Option (String × Expr)
  | .list [.atom x, v] => (exprOf v).map (fun e => (x, e))
  | _ => none

/-- lambda list: mode 0 required, 1 &optional, 2 &key, 3 &aux -/
def lambdaList : Nat → List SExp → Sig → List (String × Expr) → Option (Sig × List (String × Expr))
  | _, [], sig, aux => some (sig, aux)
  | mode, .atom "&optional" :: rest, sig, aux => if mode < 1 then lambdaList 1 rest sig aux else none
  | mode, .atom "&key" :: rest, sig, aux => if mode < 2 then lambdaList 2 rest sig aux else none
  | mode, .atom "&aux" :: rest, sig, aux => if mode < 3 then lambdaList 3 rest sig aux else none
  | 0, .atom x :: rest, sig, aux => lambdaList 0 rest { sig with req := sig.req ++ [x] } aux
  | 1, x :: rest, sig, aux =>
    match defaultOf x with
    | some d => lambdaList 1 rest { sig with opt := sig.opt ++ [d] } aux
    | none => none
  | 2, x :: rest, sig, aux =>
    match defaultOf x with
    | some d => lambdaList 2 rest { sig with key := sig.key ++ [d] } aux
    | none => none
  | 3, x :: rest, sig, aux =>
    match auxOf x with
    | some a => lambdaList 3 rest sig (aux ++ [a])
    | none => none
  | _, _, _, _ => none

def bindsOf : List SExp → Option (List (String × Expr))
  | [] => some []
  | x :: xs =>
    match auxOf x, bindsOf xs with
    | some b, some bs => some (b :: bs)
    | _, _ => none

def formOf : SExp → Option Form
  | .list [.atom "defun", .atom f, .list ps, b] =>
    match lambdaList 0 ps ⟨[], [], []⟩ [], exprOf b with
    | some (sig, aux), some b => some (.defun f [] ⟨sig, aux, b, []⟩)
    | _, _ => none
  | .list [.atom "defun-in", .list binds, .atom f, .list ps, b] =>
    match bindsOf binds, lambdaList 0 ps ⟨[], [], []⟩ [], exprOf b with
    | some bs, some (sig, aux), some b => some (.defun f bs ⟨sig, aux, b, []⟩)
    | _, _, _ => none
  | .list [.atom "undef", .atom f] => some (.undef f)
  | .list [.atom "defvar", .atom x, e] => (exprOf e).map (.setvar .defvar x)
  | .list [.atom "defparameter", .atom x, e] => (exprOf e).map (.setvar .defparameter x)
  | .list [.atom "setq", .atom x, e] => (exprOf e).map (.setvar .setq x)
  | .list [.atom "again", .atom j] => j.toNat?.map .again
  | x => (exprOf x).map .expr

def formsOf : List SExp → Option (List Form)
  | [] => some []
  | x :: xs =>
    match formOf x, formsOf xs with
    | some f, some fs => some (f :: fs)
    | _, _ => none

def showOut : Out → String
  | .val (.int k) => s!"i:{k}"
  | .val .nil => "nil"
  | .val .t => "t"
  | .val (.sym s) => s!"y:{s}"
  | .val (.kw k) => s!"k:{k}"
  | .err (.undefinedFunction _) => "e:undefined-function"
  | .err (.unbound _) => "e:unbound-variable"
  | .err .typeError => "e:type-error"
  | .err (.arity _) => "e:error"
  | .err (.noSuchForm _) => "e:no-such-form"
  | .timeout => "timeout"

def handle (entry : String) (args : List String) : String :=
  match args with
  | [] => "bad-request fuel"
  | fuelS :: rest =>
    match fuelS.toNat?, (parseTokens (tokenize (" ".intercalate rest))).bind formsOf with
    | some fuel, some forms =>
      let outs :=
        if entry == "run" then some (runC fuel Store.empty [] forms)
        else if entry == "direct" then some (run fuel [] [] [] forms)
        else none
      match outs with
      | none => "bad-request entry"
      | some outs =>
        if outs.any (fun o => match o with | .err (.noSuchForm _) => true | _ => false)
        then "bad-request again-index"
        else "ok " ++ " ".intercalate (outs.map showOut)
    | none, _ => "bad-request fuel"
    | _, none => "bad-request parse"

end SlipVerif.Driver.Compile
