import SlipVerif.Model.Pkg
import SlipVerif.Driver.Util
--! namespace: pkg
/- line protocol for C13:   pkg run <npk> <nnm> <token>*
   tokens (packages and names are small naturals, values/bodies are tags):
     P<p>:<u.u…>:<n.n…>  (defpackage p (:use u…) (:export n…))      I<p>  (in-package p)
     U<obj>:<pkg>  (use-package pkg obj)       X<obj>:<pkg>  (unuse-package pkg obj)
     E<p>:<n>  (export n p)                    Z<p>:<n>  (unexport n p)
     V<n>:<tag> (defvar n tag)   W<n> (defvar n)   S<n>:<tag> (setq n tag)   F<n>:<tag> (defun n … tag)
     M<n> (makunbound n)         K<n> (fmakunbound n)
     G<n>:<tag>:<0|1>  Package.Define of a Go function n in the current package (1 = exported)
     Q<q>:<n>:<0|1>:<tag>  (setq q:n tag) / (setq q::n tag) (1 = two colons)
     D<q>:<n>:<0|1>:<tag|->  (defvar q:n [tag]) / (defvar q::n [tag])
     H<q>:<n>:<tag>  (defun q::n … tag)    N<q>:<n>  (unintern 'n 'q)    T<q>:<n>  (intern "n" 'q)
     O   observe: emits one block
   reply: ok <block>|<block>|…   a block lists, for every current package c < npk:
     for n < nnm:  var(c,n) fboundp(c,n) call(c,n) status(c,n)
     for q < npk, n < nnm:  q:n(var) q::n(var) (q:n)(fun) (q::n)(fun)
   each item: a tag, `-` (unbound / undefined), `t`/`f` for fboundp, status 0..3 (find-symbol: none,
   :internal, :external, :inherited), `?` when the property does not constrain the qualified lookup
   (q only inherits n; or a private q:n function looked up from q itself). Where c has no own
   definition and two or more used packages export n (a name conflict; the property allows either
   exporter, `lookup_sound`) var/call list the alternatives `a~b`: first the exporter the repaired
   implementation picks, then the other candidates' values. -/
namespace SlipVerif.Driver.Pkg
open SlipVerif.Pkg

def nats (s : String) : Option (List Nat) :=
  if s.isEmpty then some [] else (s.splitOn ".").mapM (·.toNat?)

def parseOp (tok : String) : Option (Option Op) :=   -- some none = observe
  let body := (tok.drop 1).toString
  let parts := body.splitOn ":"
  match (tok.take 1).toString, parts with
  | "O", _ => some none
  | "P", [p, us, ex] => do some (some (.defpackage (← p.toNat?) (← nats us) (← nats ex)))
  | "I", [p] => do some (some (.inPackage (← p.toNat?)))
  | "U", [a, b] => do some (some (.use (← a.toNat?) (← b.toNat?)))
  | "X", [a, b] => do some (some (.unuse (← a.toNat?) (← b.toNat?)))
  | "E", [p, n] => do some (some (.export (← p.toNat?) (← n.toNat?)))
  | "Z", [p, n] => do some (some (.unexport (← p.toNat?) (← n.toNat?)))
  | "V", [n, v] => do some (some (.defvar (← n.toNat?) (some (← v.toNat?))))
  | "W", [n] => do some (some (.defvar (← n.toNat?) none))
  | "S", [n, v] => do some (some (.setq (← n.toNat?) (← v.toNat?)))
  | "F", [n, v] => do some (some (.defun (← n.toNat?) (← v.toNat?)))
  | "M", [n] => do some (some (.makunbound (← n.toNat?)))
  | "K", [n] => do some (some (.fmakunbound (← n.toNat?)))
  | "G", [n, v, e] => do some (some (.gdefine (← n.toNat?) (← v.toNat?) ((← e.toNat?) != 0)))
  | "Q", [q, n, pr, v] => do some (some (.qsetq (← q.toNat?) (← n.toNat?) ((← pr.toNat?) != 0) (← v.toNat?)))
  | "D", [q, n, pr, v] =>
    if v == "-" then do some (some (.qdefvar (← q.toNat?) (← n.toNat?) ((← pr.toNat?) != 0) none))
    else do some (some (.qdefvar (← q.toNat?) (← n.toNat?) ((← pr.toNat?) != 0) (some (← v.toNat?))))
  | "H", [q, n, v] => do some (some (.qdefun (← q.toNat?) (← n.toNat?) (← v.toNat?)))
  | "N", [q, n] => do some (some (.unintern (← q.toNat?) (← n.toNat?)))
  | "T", [q, n] => do some (some (.intern (← q.toNat?) (← n.toNat?)))
  | _, _ => none

def showVal : Option Nat → String
  | some v => toString v
  | none => "-"

/-- the qualified lookup is constrained by the property when `q` owns `n` or has no entry at all -/
def constrained (t : Tab) (q : Pk) (n : Nm) : Bool :=
  match t.cell q n with
  | none => true
  | some o => o == q

/-- the lookup result, followed by the values of the other candidates when the graph leaves a
    choice (no own definition, two or more directly used packages export the name) -/
def withAlts (t : Tab) (uses : Pk → List Pk) (c : Pk) (n : Nm) (got : Option Nat) : String :=
  let cands := candidates t.defs uses c n
  if (t.defs c n).isNone && cands.length ≥ 2 then
    let vals := (cands.map fun q => showVal ((t.defs q n).bind (·.val))).eraseDups
    "~".intercalate (showVal got :: vals.filter (· != showVal got))
  else showVal got

def observe (s : State) (npk nnm : Nat) : String :=
  let items : List String :=
    (List.range npk).flatMap fun c =>
      ((List.range nnm).flatMap fun n =>
        [withAlts s.v s.uses c n (s.v.get c n), (if s.f.has c n then "t" else "f"),
         withAlts s.f s.uses c n (s.f.find c n), toString (findSymbol s c n)]) ++
      ((List.range npk).flatMap fun q => (List.range nnm).flatMap fun n =>
        let cv := constrained s.v q n
        let cf := constrained s.f q n
        let privOwnFromInside : Bool :=
          c == q && (match s.f.defs q n with | some d => !d.exp | none => false)
        [ (if cv then showVal (s.v.qualVar q n false) else "?"),
          (if cv then showVal (s.v.qualVar q n true) else "?"),
          (if cf && !privOwnFromInside then showVal (s.f.qualFun c q n false) else "?"),
          (if cf then showVal (s.f.qualFun c q n true) else "?") ])
  ",".intercalate items

def runToks (npk nnm : Nat) : State → List String → List String → Option (List String)
  | _, [], acc => some acc.reverse
  | s, tok :: rest, acc =>
    match parseOp tok with
    | none => none
    | some none => runToks npk nnm s rest (observe s npk nnm :: acc)
    | some (some op) => runToks npk nnm (step s op) rest acc

def handle (entry : String) (args : List String) : String :=
  match entry, args with
  | "run", npk :: nnm :: toks =>
    match npk.toNat?, nnm.toNat? with
    | some npk, some nnm =>
      match runToks npk nnm State.init toks [] with
      | some blocks => "ok " ++ "|".intercalate blocks
      | none => "bad-request token"
    | _, _ => "bad-request sizes"
  | _, _ => "bad-request entry"

end SlipVerif.Driver.Pkg
