import SlipVerif.Model.Conc
import SlipVerif.Model.Lin
import SlipVerif.Model.Close
import SlipVerif.Driver.Util
--! namespace: conc
/- line protocol for C17 (all numbers decimal, `-` = empty list):
     conc fifo <q> <sent> <recv> <left>
         sent = p:v,v,..;p:v,..     recv = p.v,p.v,..;p.v,..  (one list per consumer)   left = p.v,..
       -> ok pass | ok fail unsent|order|duplicate|leftover|lost | bad-request ..
     conc mutex <q> <log>           log = e.t.m,x.t.m,..      (enter / exit of thread t on mutex m)
       -> ok pass | ok fail at=<index of the first rejected entry> | ok fail held-at-end
     conc counter <reads> <finals>  reads = k.v,..  finals = k.v,..
       -> ok pass | ok fail k=<first rejected counter>
     conc run <seed> <fuel> <caps> <guards> <nch> <nctr> <thread> | <thread> | ..
         thread = tokens  P<ch>.<v>  O<ch>  S<ch>+<ch>..  I<k>  L<m> .. E  H .. E  F
                  (push pop select incr lock handler fail)
       -> ok q=<0|1> steps=<n> guarded=<0|1> distinct=<0|1> finals=<v,..> got=<per thread #received>
             items=<per channel sorted p.v list;..> left=<per channel #buffered> fifo=.. mutex=.. counter=..
     conc lin <history>             history = i.t.k,p.t.k.v,r.t.k,..  in trace order (invocation of an
                                    increment of counter k by thread t / its point: value v read /
                                    its response); operations = Lin.opsOf, verdict = Lin.linCheck
       -> ok pass n=<operations> | ok fail malformed | ok fail times | ok fail order
          | ok fail seq at=<index of the first operation the sequential replay rejects> k=<counter>
     conc close <cap|-> <nconsumers> <seed> <fuel> <pushes per producer>
                                    producers push, the channel is closed after the last push,
                                    consumers range over it: Close.step under a seeded random schedule
       -> ok ended=<n> steps=<n> closed=<0|1> sent=<n> received=<n> left=<n> exact=<0|1> got=<per consumer>
   The semantics executed by `run` and the checkers are the definitions of Model/Conc.lean the
   theorems of Theorems/C17.lean are about. -/
namespace SlipVerif.Driver.Conc
open SlipVerif.Conc SlipVerif.Driver

def splitList (s : String) (sep : String) : List String :=
  if s = "-" ∨ s = "" then [] else s.splitOn sep

def parseNats (s : String) : Option (List Nat) := (splitList s ",").mapM String.toNat?

def parseItem (s : String) : Option Item :=
  match s.splitOn "." with
  | [p, v] => do
      let p ← p.toNat?
      let v ← v.toNat?
      some ⟨p, v⟩
  | _ => none

def parseItems (s : String) : Option (List Item) := (splitList s ",").mapM parseItem

def parsePair (s : String) : Option (Nat × Nat) :=
  match s.splitOn "." with
  | [a, b] => do
      let a ← a.toNat?
      let b ← b.toNat?
      some (a, b)
  | _ => none

def parsePairs (s : String) : Option (List (Nat × Nat)) := (splitList s ",").mapM parsePair

def parseSent (s : String) : Option (List (Nat × List Nat)) :=
  (splitList s ";").mapM fun e =>
    match e.splitOn ":" with
    | [p, vs] => do
        let p ← p.toNat?
        let vs ← parseNats (if vs = "" then "-" else vs)
        some (p, vs)
    | _ => none

/-- consumer lists are separated by `;`; an empty field is a consumer that received nothing -/
def parseRecv (s : String) : Option (List (List Item)) :=
  if s = "-" then some [] else (s.splitOn ";").mapM (fun e => parseItems (if e = "" then "-" else e))

def parseMEv (s : String) : Option MEv :=
  match s.splitOn "." with
  | ["e", t, m] => do
      let t ← t.toNat?
      let m ← m.toNat?
      some (.enter t m)
  | ["x", t, m] => do
      let t ← t.toNat?
      let m ← m.toNat?
      some (.exit t m)
  | _ => none

def parseBool (s : String) : Option Bool :=
  if s = "1" then some true else if s = "0" then some false else none

/-- index of the first entry `mutexStep` rejects (diagnostics only; the verdict is `mutexOk`) -/
def firstRejected (hs : List (Nat × Nat)) (i : Nat) : List MEv → Option Nat
  | [] => none
  | e :: rest => match mutexStep hs e with
      | none => some i
      | some hs' => firstRejected hs' (i + 1) rest

def handleFifo (q sent recv left : String) : String :=
  match parseBool q, parseSent sent, parseRecv recv, parseItems left with
  | some q, some sent, some recv, some left =>
      let o : FifoObs := { sent := sent, recv := recv, left := left, quiescent := q }
      if !o.wf then "bad-request wf"
      else if fifoOk o then "ok pass" else "ok " ++ fifoVerdict o
  | _, _, _, _ => "bad-request parse"

def handleMutex (q log : String) : String :=
  match parseBool q, (splitList log ",").mapM parseMEv with
  | some q, some log =>
      if mutexOk q log then "ok pass"
      else match firstRejected [] 0 log with
        | some i => s!"ok fail at={i}"
        | none => "ok fail held-at-end"
  | _, _ => "bad-request parse"

def handleCounter (reads finals : String) : String :=
  match parsePairs reads, parsePairs finals with
  | some reads, some finals =>
      if counterOk reads finals then "ok pass"
      else match finals.find? (fun kv => !counterOk reads [kv]) with
        | some kv => s!"ok fail k={kv.1}"
        | none => "ok fail"
  | _, _ => "bad-request parse"

/-! ### `run`: structured programs, a seeded random scheduler -/

inductive Frame where
  | top
  | lock (m : Nat)
  | handler

def seqOf : List Stmt → Stmt
  | [] => .skip
  | [s] => s
  | s :: rest => .seq s (seqOf rest)

def parseAtom (tok : String) : Option Stmt :=
  let body := (tok.drop 1).toString
  match tok.front with
  | 'P' => (parsePair body).map (fun p => Stmt.push p.1 p.2)
  | 'O' => body.toNat?.map Stmt.pop
  | 'S' => ((body.splitOn "+").mapM String.toNat?).map Stmt.sel
  | 'I' => body.toNat?.map Stmt.incr
  | 'F' => if body = "" then some Stmt.fail else none
  | _ => none

/-- stack parser: every frame holds the statements collected so far, newest first -/
def parseThread : List String → List (Frame × List Stmt) → Option Stmt
  | [], [(.top, acc)] => some (seqOf acc.reverse)
  | [], _ => none
  | tok :: rest, stack =>
      if tok = "E" then
        match stack with
        | (.lock m, acc) :: (f, acc') :: stack' =>
            parseThread rest ((f, Stmt.withLock m (seqOf acc.reverse) :: acc') :: stack')
        | (.handler, acc) :: (f, acc') :: stack' =>
            parseThread rest ((f, Stmt.protect (seqOf acc.reverse) :: acc') :: stack')
        | _ => none
      else if tok = "H" then parseThread rest ((.handler, []) :: stack)
      else if tok.front = 'L' then
        match ((tok.drop 1).toString).toNat? with
        | some m => parseThread rest ((.lock m, []) :: stack)
        | none => none
      else
        match parseAtom tok, stack with
        | some s, (f, acc) :: stack' => parseThread rest ((f, s :: acc) :: stack')
        | _, _ => none

def splitThreads (toks : List String) : List (List String) :=
  let rec go (cur : List String) (acc : List (List String)) : List String → List (List String)
    | [] => (cur.reverse :: acc).reverse
    | t :: rest => if t = "|" then go [] (cur.reverse :: acc) rest else go (t :: cur) acc rest
  go [] [] toks

def lcg (x : Nat) : Nat := (x * 6364136223846793005 + 1442695040888963407) % 18446744073709551616

/-- first enabled thread among t, t+1, … (cyclically), `k` candidates left -/
def firstEnabled (S : Sys) (c : Config) (n t choice : Nat) : Nat → Option Config
  | 0 => none
  | k + 1 => match step S c (t % n) choice with
      | some c' => some c'
      | none => firstEnabled S c n (t + 1) choice k

/-- run under a seeded random scheduler until quiescence, deadlock or out of fuel -/
def runRandom (S : Sys) (n : Nat) : Nat → Nat → Config → Nat → Config × Nat
  | 0, _, c, steps => (c, steps)
  | fuel + 1, x, c, steps =>
      if quiescent S c then (c, steps)
      else
        let x' := lcg x
        match firstEnabled S c n ((x' / 8589934592) % n) (x' / 1048576) n with
        | some c' => runRandom S n fuel x' c' (steps + 1)
        | none => (c, steps)

def joinNats (xs : List Nat) : String :=
  if xs.isEmpty then "-" else ",".intercalate (xs.map toString)

def showItems (xs : List Item) : String :=
  if xs.isEmpty then "-" else ",".intercalate (xs.map (fun it => s!"{it.src}.{it.val}"))

def itemLe (a b : Item) : Bool := a.src < b.src || (a.src == b.src && a.val ≤ b.val)

def insertItem (x : Item) : List Item → List Item
  | [] => [x]
  | y :: ys => if itemLe x y then x :: y :: ys else y :: insertItem x ys

def sortItems (xs : List Item) : List Item := xs.foldl (fun acc x => insertItem x acc) []

def handleRun (seed fuel caps guards nch nctr : String) (toks : List String) : String :=
  match seed.toNat?, fuel.toNat?, parseNats caps, parseNats guards, nch.toNat?, nctr.toNat? with
  | some seed, some fuel, some caps, some guards, some nch, some nctr =>
      match (splitThreads toks).mapM (fun ts => parseThread ts [(.top, [])]) with
      | none => "bad-request thread"
      | some stmts =>
          let S : Sys := { progs := stmts.map Stmt.ops, caps := caps }
          let n := S.progs.length
          let g : Nat → Nat := fun k => match guards[k]? with
            | some m => m
            | none => k
          let (c, steps) := runRandom S n fuel seed init 0
          let q := quiescent S c
          let chans := List.range nch
          let fifo := chans.all (fun ch => (obsFifo S c ch).wf && fifoOk (obsFifo S c ch))
          let mtx := mutexOk q (mutexLog c.trace)
          let ctr := counterOk (readLog c.trace) ((List.range nctr).map (fun k => (k, c.value k)))
          let b := fun (x : Bool) => if x then "1" else "0"
          let pf := fun (x : Bool) => if x then "pass" else "fail"
          let finals := joinNats ((List.range nctr).map c.value)
          let got := joinNats ((List.range n).map (fun t =>
            (chans.map (fun ch => (recvBy t ch c.trace).length)).sum))
          let items := ";".intercalate (chans.map (fun ch => showItems (sortItems (recvLog ch c.trace))))
          let left := joinNats (chans.map (fun ch => (c.queue ch).length))
          s!"ok q={b q} steps={steps} guarded={b (S.guarded g)} distinct={b (S.distinctSends nch)} finals={finals} got={got} items={items} left={left} fifo={pf fifo} mutex={pf mtx} counter={pf ctr}"
  | _, _, _, _, _, _ => "bad-request args"

/-! ### `close`: producers, one `channel-close` after the last push and range consumers under a
    seeded random schedule of Model/Close.lean -/

def closeLoop (cap : Option Nat) (nc : Nat) (counts : List Nat) :
    Nat → Nat → Close.St → List Nat → Nat → Close.St × Nat
  | 0, _, st, _, steps => (st, steps)
  | fuel + 1, x, st, done, steps =>
      if (List.range nc).all (fun c => st.ended.contains c) then (st, steps)
      else
        let x' := lcg x
        let np := counts.length
        let i := (x' / 8589934592) % (np + 1 + 2 * nc)
        let doneOf := fun (p : Nat) => match done[p]? with
          | some d => d
          | none => 0
        let countOf := fun (p : Nat) => match counts[p]? with
          | some n => n
          | none => 0
        let act : Close.Act :=
          if i < np then .push i (doneOf i)
          else if i = np then .close
          else if i < np + 1 + nc then .recv (i - np - 1)
          else .fin (i - np - 1 - nc)
        let enabled : Bool := match act with
          | .push p _ => doneOf p < countOf p
          | .close => (List.range np).all (fun p => countOf p ≤ doneOf p)
          | _ => true
        if !enabled then closeLoop cap nc counts fuel x' st done steps
        else match Close.step cap false st act with
          | none => closeLoop cap nc counts fuel x' st done steps
          | some st' =>
              let done' := match act with
                | .push p _ => done.set p (doneOf p + 1)
                | _ => done
              closeLoop cap nc counts fuel x' st' done' (steps + 1)

def handleClose (cap nc seed fuel counts : String) : String :=
  let capO : Option (Option Nat) := if cap = "-" then some none else cap.toNat?.map some
  match capO, nc.toNat?, seed.toNat?, fuel.toNat?, parseNats counts with
  | some cap, some nc, some seed, some fuel, some counts =>
      let (st, steps) := closeLoop cap nc counts fuel seed Close.init (counts.map (fun _ => 0)) 0
      let b := fun (x : Bool) => if x then "1" else "0"
      let got := joinNats ((List.range nc).map (fun c => (Close.got st c).length))
      s!"ok ended={st.ended.length} steps={steps} closed={b st.closed} sent={st.sent.length} received={(Close.received st).length} left={st.queue.length} exact={b (Close.received st == st.sent)} got={got}"
  | _, _, _, _, _ => "bad-request args"

def parseHEv (s : String) : Option Lin.HEv :=
  match s.splitOn "." with
  | ["i", t, k] => do
      let t ← t.toNat?
      let k ← k.toNat?
      some (.inv t k)
  | ["p", t, k, v] => do
      let t ← t.toNat?
      let k ← k.toNat?
      let v ← v.toNat?
      some (.pt t k v)
  | ["r", t, k] => do
      let t ← t.toNat?
      let k ← k.toNat?
      some (.res t k)
  | _ => none

def handleLin (hist : String) : String :=
  match (splitList hist ",").mapM parseHEv with
  | none => "bad-request parse"
  | some h =>
      match Lin.opsOf h with
      | none => "ok fail malformed"
      | some ops =>
          if Lin.linCheck ops then s!"ok pass n={ops.length}"
          else if !ops.all Lin.timesOk then "ok fail times"
          else if !Lin.ptSorted ops then "ok fail order"
          else match Lin.firstBad (fun _ => 0) 0 ops with
            | some (i, o) => s!"ok fail seq at={i} k={o.k}"
            | none => "ok fail seq"

def handle (entry : String) (args : List String) : String :=
  match entry, args with
  | "fifo", [q, sent, recv, left] => handleFifo q sent recv left
  | "mutex", [q, log] => handleMutex q log
  | "counter", [reads, finals] => handleCounter reads finals
  | "lin", [hist] => handleLin hist
  | "close", [cap, nc, seed, fuel, counts] => handleClose cap nc seed fuel counts
  | "run", seed :: fuel :: caps :: guards :: nch :: nctr :: toks => handleRun seed fuel caps guards nch nctr toks
  | _, _ => "bad-request entry"

end SlipVerif.Driver.Conc
